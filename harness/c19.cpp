// C19 correspondence harness: linework operations through the C API.
//   c19 <stream> <seed> <n> <outbase>      stream = linref | oracle | oracle_multi | merge | node | node_fp | polygonize | sharedpaths | holeassign
//   c19 replay <stream> <file>             re-run GEOS on the *input part* of each case line of <file>; prints "<case>\t<expect>" per line
// Case line grammar (doubles = 16 hex digits):   lineset := k (n (x y)*n)*k
//   linref      P lineset px py | I lineset d | N lineset f | S lineset f0 f1          expect = result bits
//               X lineset a b   (C++ API LengthIndexedLine::extractLine, indices over the whole documented domain)
//               C lineset a     (LengthIndexedLine::clampIndex + isValidIndex)
//               G lineset d     (LengthLocationMap::getLocation(d) as component / segment / fraction, then getLength of it)
//               F lineset px py (LineSegment::segmentFraction of the first segment of the first line for the point)
//   oracle*     RT lineset | px py | qx qy        (q = Interpolate(Project(p)))          expect = ok
//               IL lineset d | qx qy   ;   SL lineset f0 f1 | lineset(result)            expect = ok
//               XL lineset a b | lineset(result)   (extractLine(a, b): the sub-line between the clamped indices)
//               CL lineset a | clampIndex(a)       (negative = from the end, then clamped to [0, length])
//   merge       M directed lineset | lineset(out)                                        expect = ok
//   node*       N mode lineset | ok lineset(out)  /  | threw                             expect = ok / threw
//   polygonize  Y mode valid lineset | npoly (lineset(rings))* | dangles | cuts | invalid expect = ok
//   sharedpaths H lineset | lineset | ok lineset(same) | lineset(opp)  /  | threw        expect = ok / threw
//   holeassign  A lineset | lineset(shell rings) | nholes (lineset(the hole ring built from each of its start edges))*nholes
//               the REAL polygonize::EdgeRing::findEdgeRingContaining on the rings PolygonizeGraph builds for the arrangement
//               (dangles and cut edges removed as Polygonizer does); every hole ring is asked once per possible start edge
//               (the start edge depends on the order / direction of the input lines).        expect = shell index or -1 per (hole, start)
#include "common.h"
#include <geos_c.h>
#include <cstdarg>
#include <fstream>
#include <iostream>
#include <set>
#include <functional>
#include <sys/resource.h>
#include <unistd.h>
#include <csignal>
#include <geos/operation/linemerge/LineMerger.h>
#include <geos/geom/Geometry.h>
#include <geos/geom/LineString.h>
#include <geos/linearref/LengthIndexedLine.h>
#include <geos/linearref/LengthLocationMap.h>
#include <geos/linearref/LinearLocation.h>
#include <geos/geom/LineSegment.h>
#include <geos/geom/GeometryFactory.h>
#include <geos/geom/LinearRing.h>
#include <geos/geom/CoordinateSequence.h>
#include <geos/operation/polygonize/PolygonizeGraph.h>
#include <geos/operation/polygonize/PolygonizeDirectedEdge.h>
#include <geos/operation/polygonize/EdgeRing.h>

using namespace vh;

typedef std::pair<double, double> XY;
typedef std::vector<XY> Line;
typedef std::vector<Line> LineSet;

static void notice(const char*, ...) {}
static std::string lastError;
static void errorh(const char* fmt, ...) { char b[512]; va_list ap; va_start(ap, fmt); vsnprintf(b, sizeof b, fmt, ap); va_end(ap); lastError = b; }
static GEOSContextHandle_t H;
static std::string LASTIN;   // input-only form of the case being run (reported if GEOS or the harness throws while running it)
static bool DRY = false;   // C19_DRY=1: emit only the input part of each case (what `replay` consumes), never call GEOS

// ---------------------------------------------------------------- tokens
static std::string tokLine(const Line& l) { std::string s = std::to_string(l.size()); for (auto& p : l) { s += " " + hex(p.first) + " " + hex(p.second); } return s; }
static std::string tokSet(const LineSet& ls) { std::string s = std::to_string(ls.size()); for (auto& l : ls) s += " " + tokLine(l); return s; }

struct Tk { std::vector<std::string> t; size_t p = 0;
    explicit Tk(const std::string& s) { std::istringstream is(s); std::string x; while (is >> x) t.push_back(x); }
    bool more() const { return p < t.size(); }
    const std::string& next() { if (p >= t.size()) throw std::runtime_error("tokens exhausted"); return t[p++]; }
    double dbl() { return frombits(std::stoull(next(), nullptr, 16)); }
    LineSet lineset() { size_t k = std::stoul(next()); LineSet ls; for (size_t i = 0; i < k; i++) { size_t n = std::stoul(next()); Line l; for (size_t j = 0; j < n; j++) { double x = dbl(); double y = dbl(); l.push_back({x, y}); } ls.push_back(l); } return ls; }
    void bar() { if (next() != "|") throw std::runtime_error("expected |"); } };

// ---------------------------------------------------------------- GEOS glue
static GEOSGeometry* mkLine(const Line& l) {
    GEOSCoordSequence* cs = GEOSCoordSeq_create_r(H, (unsigned) l.size(), 2);
    for (size_t i = 0; i < l.size(); i++) GEOSCoordSeq_setXY_r(H, cs, (unsigned) i, l[i].first, l[i].second);
    return GEOSGeom_createLineString_r(H, cs);
}
// multi = force MultiLineString even for one component
static GEOSGeometry* mkLineal(const LineSet& ls, bool multi) {
    if (ls.size() == 1 && !multi) return mkLine(ls[0]);
    std::vector<GEOSGeometry*> gs; for (auto& l : ls) gs.push_back(mkLine(l));
    return GEOSGeom_createCollection_r(H, GEOS_MULTILINESTRING, gs.data(), (unsigned) gs.size());
}
static Line coordsOf(const GEOSGeometry* g) {
    Line l; const GEOSCoordSequence* cs = GEOSGeom_getCoordSeq_r(H, g); unsigned n = 0; GEOSCoordSeq_getSize_r(H, cs, &n);
    for (unsigned i = 0; i < n; i++) { double x, y; GEOSCoordSeq_getXY_r(H, cs, i, &x, &y); l.push_back({x, y}); } return l;
}
// all LineStrings / LinearRings of a geometry (recursively), as vertex lists
static void collectLines(const GEOSGeometry* g, LineSet& out) {
    int t = GEOSGeomTypeId_r(H, g);
    if (t == GEOS_LINESTRING || t == GEOS_LINEARRING) { if (!GEOSisEmpty_r(H, g)) out.push_back(coordsOf(g)); return; }
    if (t == GEOS_POINT || t == GEOS_POLYGON) return;
    int n = GEOSGetNumGeometries_r(H, g);
    for (int i = 0; i < n; i++) collectLines(GEOSGetGeometryN_r(H, g, i), out);
}
static void collectPolys(const GEOSGeometry* g, std::vector<LineSet>& out, bool& allValid) {
    int t = GEOSGeomTypeId_r(H, g);
    if (t == GEOS_POLYGON) {
        if (GEOSisEmpty_r(H, g)) return;
        LineSet rings; rings.push_back(coordsOf(GEOSGetExteriorRing_r(H, g)));
        int nh = GEOSGetNumInteriorRings_r(H, g);
        for (int i = 0; i < nh; i++) rings.push_back(coordsOf(GEOSGetInteriorRingN_r(H, g, i)));
        out.push_back(rings);
        if (GEOSisValid_r(H, g) != 1) allValid = false;
        return;
    }
    if (t == GEOS_POINT || t == GEOS_LINESTRING || t == GEOS_LINEARRING) return;
    int n = GEOSGetNumGeometries_r(H, g);
    for (int i = 0; i < n; i++) collectPolys(GEOSGetGeometryN_r(H, g, i), out, allValid);
}

// ---------------------------------------------------------------- runners (input -> case line, expect line)
struct CE { std::string c, e; };

static std::string showPoint(GEOSGeometry* pt) {
    if (!pt) return "err";
    std::string s;
    if (GEOSisEmpty_r(H, pt)) s = "null";
    else { double x, y; GEOSGeomGetX_r(H, pt, &x); GEOSGeomGetY_r(H, pt, &y); s = hex(x) + " " + hex(y); }
    GEOSGeom_destroy_r(H, pt); return s;
}

static CE runLinref(const std::string& op, const LineSet& ls, bool multi, double a, double b) {
    { LASTIN = op + " " + tokSet(ls) + " " + hex(a) + ((op == "P" || op == "S" || op == "X" || op == "F") ? " " + hex(b) : std::string()); } if (DRY) { CE r; r.c = LASTIN; r.e = "dry"; return r; }
    GEOSGeometry* g = mkLineal(ls, multi);
    CE r; r.c = op + " " + tokSet(ls);
    if (op == "P") {
        GEOSGeometry* p = GEOSGeom_createPointFromXY_r(H, a, b);
        double d = GEOSProject_r(H, g, p), dn = GEOSProjectNormalized_r(H, g, p);
        r.c += " " + hex(a) + " " + hex(b); r.e = hex(d) + " " + hex(dn);
        GEOSGeom_destroy_r(H, p);
    } else if (op == "I") {
        r.c += " " + hex(a); r.e = showPoint(GEOSInterpolate_r(H, g, a));
    } else if (op == "N") {
        r.c += " " + hex(a); r.e = showPoint(GEOSInterpolateNormalized_r(H, g, a));
    } else if (op == "X") {
        r.c += " " + hex(a) + " " + hex(b);
        try {
            geos::linearref::LengthIndexedLine lil(reinterpret_cast<const geos::geom::Geometry*>(g));
            std::unique_ptr<geos::geom::Geometry> s = lil.extractLine(a, b);
            LineSet out; collectLines(reinterpret_cast<const GEOSGeometry*>(s.get()), out); r.e = tokSet(out);
        } catch (std::exception&) { r.e = "err"; }
    } else if (op == "G") {
        r.c += " " + hex(a);
        const geos::geom::Geometry* gg = reinterpret_cast<const geos::geom::Geometry*>(g);
        geos::linearref::LinearLocation loc = geos::linearref::LengthLocationMap::getLocation(gg, a);
        double len = geos::linearref::LengthLocationMap::getLength(gg, loc);
        r.e = std::to_string(loc.getComponentIndex()) + " " + std::to_string(loc.getSegmentIndex()) + " " + hex(loc.getSegmentFraction()) + " " + hex(len);
    } else if (op == "F") {
        r.c += " " + hex(a) + " " + hex(b);
        geos::geom::LineSegment seg(geos::geom::Coordinate(ls[0][0].first, ls[0][0].second), geos::geom::Coordinate(ls[0][1].first, ls[0][1].second));
        r.e = hex(seg.segmentFraction(geos::geom::Coordinate(a, b)));
    } else if (op == "C") {
        r.c += " " + hex(a);
        geos::linearref::LengthIndexedLine lil(reinterpret_cast<const geos::geom::Geometry*>(g));
        r.e = hex(lil.clampIndex(a)) + " " + (lil.isValidIndex(a) ? "1" : "0");
    } else { // S
        r.c += " " + hex(a) + " " + hex(b);
        GEOSGeometry* s = GEOSLineSubstring_r(H, g, a, b);
        if (!s) r.e = "err";
        else { LineSet out; collectLines(s, out); r.e = tokSet(out);
               // driver prints "k n x y .." with the same layout
               GEOSGeom_destroy_r(H, s); }
    }
    if (multi && ls.size() == 1) r.c = r.c; // geometry kind does not change the arithmetic (0.0 + len)
    GEOSGeom_destroy_r(H, g);
    return r;
}

static CE runRoundtrip(const LineSet& ls, bool multi, double px, double py) {
    { LASTIN = "RT " + tokSet(ls) + " | " + hex(px) + " " + hex(py); } if (DRY) { CE r; r.c = LASTIN; r.e = "dry"; return r; }
    GEOSGeometry* g = mkLineal(ls, multi);
    GEOSGeometry* p = GEOSGeom_createPointFromXY_r(H, px, py);
    double d = GEOSProject_r(H, g, p);
    GEOSGeometry* q = GEOSInterpolate_r(H, g, d);
    CE r; r.c = "RT " + tokSet(ls) + " | " + hex(px) + " " + hex(py) + " | " + showPoint(q); r.e = "ok";
    GEOSGeom_destroy_r(H, p); GEOSGeom_destroy_r(H, g);
    return r;
}

static CE runInterpOracle(const LineSet& ls, bool multi, double d) {
    { LASTIN = "IL " + tokSet(ls) + " " + hex(d); } if (DRY) { CE r; r.c = LASTIN; r.e = "dry"; return r; }
    GEOSGeometry* g = mkLineal(ls, multi);
    CE r; r.c = "IL " + tokSet(ls) + " " + hex(d) + " | " + showPoint(GEOSInterpolate_r(H, g, d)); r.e = "ok";
    GEOSGeom_destroy_r(H, g); return r;
}
static CE runSubstringOracle(const LineSet& ls, bool multi, double f0, double f1) {
    { LASTIN = "SL " + tokSet(ls) + " " + hex(f0) + " " + hex(f1); } if (DRY) { CE r; r.c = LASTIN; r.e = "dry"; return r; }
    GEOSGeometry* g = mkLineal(ls, multi);
    GEOSGeometry* s = GEOSLineSubstring_r(H, g, f0, f1);
    LineSet out; if (s) { collectLines(s, out); GEOSGeom_destroy_r(H, s); }
    CE r; r.c = "SL " + tokSet(ls) + " " + hex(f0) + " " + hex(f1) + " | " + tokSet(out); r.e = "ok";
    GEOSGeom_destroy_r(H, g); return r;
}

static CE runExtractOracle(const LineSet& ls, bool multi, double a, double b) {
    { LASTIN = "XL " + tokSet(ls) + " " + hex(a) + " " + hex(b); } if (DRY) { CE r; r.c = LASTIN; r.e = "dry"; return r; }
    GEOSGeometry* g = mkLineal(ls, multi);
    LineSet out; std::string st = "ok";
    try {
        geos::linearref::LengthIndexedLine lil(reinterpret_cast<const geos::geom::Geometry*>(g));
        std::unique_ptr<geos::geom::Geometry> s = lil.extractLine(a, b);
        collectLines(reinterpret_cast<const GEOSGeometry*>(s.get()), out);
    } catch (std::exception&) { st = "threw"; }
    CE r; r.c = "XL " + tokSet(ls) + " " + hex(a) + " " + hex(b) + " | " + st + " " + tokSet(out); r.e = "ok";
    GEOSGeom_destroy_r(H, g); return r;
}
static CE runClampOracle(const LineSet& ls, bool multi, double a) {
    { LASTIN = "CL " + tokSet(ls) + " " + hex(a); } if (DRY) { CE r; r.c = LASTIN; r.e = "dry"; return r; }
    GEOSGeometry* g = mkLineal(ls, multi);
    geos::linearref::LengthIndexedLine lil(reinterpret_cast<const geos::geom::Geometry*>(g));
    CE r; r.c = "CL " + tokSet(ls) + " " + hex(a) + " | " + hex(lil.clampIndex(a)); r.e = "ok";
    GEOSGeom_destroy_r(H, g); return r;
}

static CE runMerge(bool directed, const LineSet& ls) {
    { LASTIN = std::string("M ") + (directed ? "1 " : "0 ") + tokSet(ls); } if (DRY) { CE r; r.c = LASTIN; r.e = "dry"; return r; }
    GEOSGeometry* g = mkLineal(ls, true);
    GEOSGeometry* m = directed ? GEOSLineMergeDirected_r(H, g) : GEOSLineMerge_r(H, g);
    CE r; r.c = std::string("M ") + (directed ? "1 " : "0 ") + tokSet(ls) + " | ";
    if (!m) { r.c += "0"; r.e = "no-result"; }
    else { LineSet out; collectLines(m, out); r.c += tokSet(out); r.e = "ok"; GEOSGeom_destroy_r(H, m); }
    GEOSGeom_destroy_r(H, g);
    return r;
}

// one LineMerger object asked twice (add part, merge, add the rest, merge again) against a fresh merger on all the lines:
// the merged set is a function of the lines added so far, not of what was asked before
static CE runMergeReuse(const LineSet& ls, size_t split) {
    { LASTIN = "RU M " + std::to_string(split) + " " + tokSet(ls); } if (DRY) { CE r; r.c = LASTIN; r.e = "dry"; return r; }
    using geos::operation::linemerge::LineMerger; using geos::geom::Geometry; using geos::geom::LineString;
    std::vector<GEOSGeometry*> gs; for (auto& l : ls) gs.push_back(mkLine(l));
    auto canon = [](std::vector<std::unique_ptr<LineString>> v) { std::vector<std::string> o; for (auto& l : v) { l->normalize(); o.push_back(l->toString()); } std::sort(o.begin(), o.end()); std::string t; for (auto& x : o) t += x + ";"; return t; };
    std::string inc, fresh, first;
    { LineMerger m; for (size_t i = 0; i < split && i < gs.size(); i++) m.add(reinterpret_cast<const Geometry*>(gs[i]));
      first = canon(m.getMergedLineStrings());
      for (size_t i = split; i < gs.size(); i++) m.add(reinterpret_cast<const Geometry*>(gs[i]));
      inc = canon(m.getMergedLineStrings()); }
    { LineMerger m; for (auto g : gs) m.add(reinterpret_cast<const Geometry*>(g)); fresh = canon(m.getMergedLineStrings()); }
    std::string again; { LineMerger m; for (auto g : gs) m.add(reinterpret_cast<const Geometry*>(g)); (void) m.getMergedLineStrings(); again = canon(m.getMergedLineStrings()); }
    for (auto g : gs) GEOSGeom_destroy_r(H, g);
    CE r; r.c = LASTIN;
    r.e = (inc == fresh && again == fresh) ? "consistent" : (inc != fresh ? "inconsistent incremental=" + inc + " fresh=" + fresh : "inconsistent second-call=" + again + " first-call=" + fresh);
    return r;
}

static CE runNode(const std::string& mode, const LineSet& ls) {
    { LASTIN = "N " + mode + " " + tokSet(ls); } if (DRY) { CE r; r.c = LASTIN; r.e = "dry"; return r; }
    GEOSGeometry* g = mkLineal(ls, true);
    GEOSGeometry* m = GEOSNode_r(H, g);
    CE r; r.c = "N " + mode + " " + tokSet(ls) + " | ";
    if (!m) { r.c += "threw"; r.e = "threw"; }
    else { LineSet out; collectLines(m, out); r.c += "ok " + tokSet(out); r.e = "ok"; GEOSGeom_destroy_r(H, m); }
    GEOSGeom_destroy_r(H, g);
    return r;
}

static bool resultInvalid = false;
static long st_polys = 0, st_holes = 0, st_dangles = 0, st_cuts = 0, st_invalid = 0;
static CE runPolygonize(const std::string& mode, const LineSet& ls) {
    resultInvalid = false;
    { LASTIN = "Y " + mode + " 0 " + tokSet(ls); } if (DRY) { CE r; r.c = LASTIN; r.e = "dry"; return r; }
    GEOSGeometry* g = mkLineal(ls, true);
    std::vector<LineSet> polys; LineSet dang, cuts, inv; bool allValid = true;
    if (mode == "f") {
        GEOSGeometry *c = nullptr, *d = nullptr, *i = nullptr;
        GEOSGeometry* p = GEOSPolygonize_full_r(H, g, &c, &d, &i);
        if (p) { collectPolys(p, polys, allValid); GEOSGeom_destroy_r(H, p); }
        if (c) { collectLines(c, cuts); GEOSGeom_destroy_r(H, c); }
        if (d) { collectLines(d, dang); GEOSGeom_destroy_r(H, d); }
        if (i) { collectLines(i, inv); GEOSGeom_destroy_r(H, i); }
        if (!p) allValid = false;
    } else {
        const GEOSGeometry* arr[1] = { g };
        GEOSGeometry* p = GEOSPolygonize_valid_r(H, arr, 1);
        // the individual polygons must be valid (property); validity of the whole result (no edge-adjacent elements, promised
        // by the API documentation but not by the property) is only counted
        if (p) { collectPolys(p, polys, allValid); if (GEOSisValid_r(H, p) != 1) resultInvalid = true; GEOSGeom_destroy_r(H, p); } else allValid = false;
    }
    st_polys = (long) polys.size(); st_holes = 0; for (auto& rs : polys) st_holes += (long) rs.size() - 1;
    st_dangles = (long) dang.size(); st_cuts = (long) cuts.size(); st_invalid = (long) inv.size();
    CE r; r.c = "Y " + mode + " " + (allValid ? "1" : "0") + " " + tokSet(ls) + " | " + std::to_string(polys.size());
    for (auto& rings : polys) r.c += " " + tokSet(rings);
    r.c += " | " + tokSet(dang) + " | " + tokSet(cuts) + " | " + tokSet(inv);
    r.e = "ok";
    GEOSGeom_destroy_r(H, g);
    return r;
}

static CE runShared(const LineSet& a, bool ma, const LineSet& b, bool mb) {
    { LASTIN = "H " + tokSet(a) + " | " + tokSet(b); } if (DRY) { CE r; r.c = LASTIN; r.e = "dry"; return r; }
    GEOSGeometry* g1 = mkLineal(a, ma); GEOSGeometry* g2 = mkLineal(b, mb);
    GEOSGeometry* s = GEOSSharedPaths_r(H, g1, g2);
    CE r; r.c = "H " + tokSet(a) + " | " + tokSet(b) + " | ";
    if (!s) { r.c += "threw"; r.e = "threw"; }
    else {
        LineSet same, opp;
        if (GEOSGetNumGeometries_r(H, s) == 2) { collectLines(GEOSGetGeometryN_r(H, s, 0), same); collectLines(GEOSGetGeometryN_r(H, s, 1), opp); }
        r.c += "ok " + tokSet(same) + " | " + tokSet(opp); r.e = "ok"; GEOSGeom_destroy_r(H, s);
    }
    GEOSGeom_destroy_r(H, g1); GEOSGeom_destroy_r(H, g2);
    return r;
}


// ---- hole assignment: the real EdgeRing::findEdgeRingContaining, asked for every hole ring of the arrangement and every
// start edge of that ring (EdgeRing::build(startDE) starts a ring at whichever of its directed edges comes first in the
// graph, i.e. it depends on the order and direction of the input lines; the decision must not)
static long st_ha_queries = 0, st_ha_assigned = 0, st_ha_firstShared = 0, st_ha_scanDecisive = 0, st_ha_holes = 0, st_ha_shells = 0, st_ha_candidates = 0;
static Line ringCoordsOf(geos::operation::polygonize::EdgeRing* er) {
    Line l; const geos::geom::LinearRing* r = er->getRingInternal(); if (!r) return l;
    const geos::geom::CoordinateSequence* cs = r->getCoordinatesRO();
    for (std::size_t i = 0; i < cs->getSize(); i++) l.push_back({cs->getX(i), cs->getY(i)});
    return l;
}
static CE runHoleAssign(const LineSet& ls) {
    using namespace geos::operation::polygonize; using geos::geom::LineString; using geos::geom::Geometry;
    { LASTIN = "A " + tokSet(ls); } if (DRY) { CE r; r.c = LASTIN; r.e = "dry"; return r; }
    std::vector<GEOSGeometry*> gs; for (auto& l : ls) if (l.size() >= 2) gs.push_back(mkLine(l));
    CE r; r.c = "A " + tokSet(ls) + " | ";
    {
        const geos::geom::GeometryFactory* gf = geos::geom::GeometryFactory::getDefaultInstance();
        PolygonizeGraph graph(gf);
        for (auto g : gs) graph.addEdge(static_cast<const LineString*>(reinterpret_cast<const Geometry*>(g)));
        std::vector<const LineString*> dangles, cuts; graph.deleteDangles(dangles); graph.deleteCutEdges(cuts);
        std::vector<EdgeRing*> rings; graph.getEdgeRings(rings);
        std::vector<EdgeRing*> shells, holes;
        for (EdgeRing* er : rings) { er->computeValid(); if (!er->isValid()) continue; er->computeHole(); (er->isHole() ? holes : shells).push_back(er); }
        LineSet shellCoords; for (EdgeRing* s : shells) shellCoords.push_back(ringCoordsOf(s));
        r.c += tokSet(shellCoords) + " | " + std::to_string(holes.size());
        st_ha_holes += (long) holes.size(); st_ha_shells += (long) shells.size();
        for (EdgeRing* h : holes) {
            const auto& edges = h->getEdges(); std::size_t m = edges.size();
            LineSet variants; std::vector<long> answers;
            for (std::size_t j = 0; j < m; j++) {
                EdgeRing er(gf); for (std::size_t t = 0; t < m; t++) er.add(edges[(j + t) % m]);
                EdgeRing* got = er.findEdgeRingContaining(shells);
                long idx = -1; for (std::size_t k = 0; k < shells.size(); k++) if (shells[k] == got) idx = (long) k;
                variants.push_back(ringCoordsOf(&er)); answers.push_back(idx);
                st_ha_queries++; if (idx >= 0) st_ha_assigned++;
                // distribution: how often does the choice of the test point matter?  (first vertex of the hole ring is also a vertex
                // of a candidate shell whose envelope properly covers the hole's, and the first vertex NOT shared lies on the other side)
                const geos::geom::LinearRing* hr = er.getRingInternal(); if (!hr) continue;
                for (EdgeRing* s : shells) {
                    const geos::geom::Envelope* se = s->getRingInternal()->getEnvelopeInternal(); const geos::geom::Envelope* he = hr->getEnvelopeInternal();
                    if (se->equals(he) || !se->contains(he)) continue;
                    st_ha_candidates++;
                    const geos::geom::Coordinate& first = hr->getCoordinatesRO()->getAt<geos::geom::Coordinate>(0);
                    if (!EdgeRing::isInList(first, s->getRingInternal()->getCoordinatesRO())) continue;
                    st_ha_firstShared++;
                    const geos::geom::Coordinate& scan = EdgeRing::ptNotInList(hr->getCoordinatesRO(), s->getRingInternal()->getCoordinatesRO());
                    if (scan.isNull() || !s->isInRing(scan)) st_ha_scanDecisive++;
                }
            }
            r.c += " " + tokSet(variants);
            for (long a : answers) r.e += (r.e.empty() ? "" : " ") + std::to_string(a);
        }
        if (r.e.empty()) r.e = "none";
    }
    for (auto g : gs) GEOSGeom_destroy_r(H, g);
    return r;
}

// ---------------------------------------------------------------- generators
struct Gen {
    Rng& r; Out& out; bool reuseMode = false;
    Gen(Rng& rr, Out& o) : r(rr), out(o) {}

    // ---- lines for linear referencing
    double fpCoord() { return (r.unit() - 0.5) * std::pow(10.0, r.range(-3, 6)); }
    Line gridLine(int n, int span) { Line l; for (int i = 0; i < n; i++) { if (i > 0 && r.chance(12)) l.push_back(l.back()); else l.push_back({(double) r.range(-span, span), (double) r.range(-span, span)}); } return l; }
    Line fpLine(int n) { Line l; double cx = fpCoord(), cy = fpCoord(), sc = std::fabs(fpCoord()) + 1e-6; for (int i = 0; i < n; i++) { if (i > 0 && r.chance(8)) l.push_back(l.back()); else l.push_back({cx + sc * (r.unit() - 0.5), cy + sc * (r.unit() - 0.5)}); } return l; }
    LineSet lrGeom(bool& multi, bool allowMulti) {
        int k = (allowMulti && r.chance(35)) ? r.range(1, 3) : 1; multi = (k > 1) || (allowMulti && r.chance(10));
        bool fp = r.chance(40); out.count(fp ? "lr_fullprecision" : "lr_grid"); out.count(multi ? "lr_multi" : "lr_linestring");
        LineSet ls; for (int i = 0; i < k; i++) ls.push_back(fp ? fpLine(r.range(2, 6)) : gridLine(r.range(2, 6), r.chance(50) ? 4 : 100));
        if (!fp && k > 1 && r.chance(30)) { Line& l = ls[r.below(k)]; XY p = l[0]; for (auto& q : l) q = p; out.count("lr_zero_length_component"); }
        return ls;
    }
    static double lenOf(const LineSet& ls) { double t = 0; for (auto& l : ls) { double s = 0; for (size_t i = 1; i < l.size(); i++) { double dx = l[i].first - l[i-1].first, dy = l[i].second - l[i-1].second; s += std::sqrt(dx*dx + dy*dy); } t += s; } return t; }
    // cumulative length at a random vertex, accumulated like LengthLocationMap does (flat running total)
    double vertexMeasure(const LineSet& ls) { double t = 0; size_t stopc = r.below(ls.size()), stopv = r.below(ls[stopc].size());
        for (size_t c = 0; c < ls.size(); c++) for (size_t i = 1; i < ls[c].size(); i++) { if (c == stopc && i > stopv) return t; if (c > stopc) return t;
            double dx = ls[c][i].first - ls[c][i-1].first, dy = ls[c][i].second - ls[c][i-1].second; t += std::sqrt(dx*dx + dy*dy); } return t; }
    double lrDistance(const LineSet& ls) {
        double L = lenOf(ls);
        switch (r.below(12)) {
            case 0: out.count("lr_d_zero"); return r.chance(50) ? 0.0 : -0.0;
            case 1: out.count("lr_d_total"); return L;
            case 2: out.count("lr_d_beyond"); return L * (1 + r.unit()) + r.unit();
            case 3: out.count("lr_d_negative"); return -L * r.unit();
            case 4: out.count("lr_d_neg_total"); return -L;
            case 5: out.count("lr_d_neg_beyond"); return -L * (1 + r.unit()) - r.unit();
            case 6: case 7: out.count("lr_d_at_vertex"); return vertexMeasure(ls);
            case 8: out.count("lr_d_neg_at_vertex"); return vertexMeasure(ls) - L;
            case 9: { out.count("lr_d_near_vertex"); double v = vertexMeasure(ls); return std::nextafter(v, r.chance(50) ? 1e300 : -1e300); }
            default: out.count("lr_d_inside"); return L * r.unit();
        }
    }
    // an index of LengthIndexedLine from its whole documented domain: negative = measured from the end, out of range = clamped
    double lrIndex(const LineSet& ls) {
        double L = lenOf(ls);
        switch (r.below(8)) {
            case 0: out.count("lr_i_neg_between_L_2L"); return -L * (1 + r.unit());
            case 1: out.count("lr_i_neg_beyond_2L"); return -L * (2 + 3 * r.unit()) - r.unit();
            case 2: out.count("lr_i_pos_beyond_2L"); return L * (2 + 3 * r.unit()) + r.unit();
            case 3: out.count("lr_i_exact_multiple"); { double m[] = {-2, -1, 1, 2}; return L * m[r.below(4)]; }
            default: return lrDistance(ls);
        }
    }
    double lrFraction(const LineSet& ls) {
        double L = lenOf(ls);
        switch (r.below(10)) {
            case 0: return 0.0; case 1: return 1.0;
            case 2: return L > 0 ? vertexMeasure(ls) / L : 0.5;
            case 3: return r.chance(50) ? 0.5 : 0.25;
            default: return r.unit();
        }
    }
    XY lrPoint(const LineSet& ls) {
        const Line& l = ls[r.below(ls.size())]; size_t i = r.below(l.size());
        switch (r.below(6)) {
            case 0: out.count("lr_p_vertex"); return l[i];
            case 1: { out.count("lr_p_on_segment"); size_t j = (i + 1 < l.size()) ? i + 1 : i; double t = r.chance(50) ? 0.5 : r.unit(); return {l[i].first + t * (l[j].first - l[i].first), l[i].second + t * (l[j].second - l[i].second)}; }
            case 2: { out.count("lr_p_beyond_end"); const Line& f = r.chance(50) ? ls.front() : ls.back(); XY a = r.chance(50) ? f.front() : f.back(); return {a.first + (r.unit() - 0.5) * 3, a.second + (r.unit() - 0.5) * 3}; }
            default: { out.count("lr_p_near"); double sc = std::max(1.0, std::fabs(l[i].first) * 0.5); return {l[i].first + (r.unit() - 0.5) * sc, l[i].second + (r.unit() - 0.5) * sc}; }
        }
    }
    CE linref() {
        bool multi; LineSet ls = lrGeom(multi, true);
        switch (r.below(9)) {
            case 7: out.count("op_location_length"); return runLinref("G", ls, multi, lrIndex(ls), 0);
            case 8: { out.count("op_segment_fraction"); XY p = lrPoint(ls); if (r.chance(30)) { p.first = std::round(p.first); p.second = std::round(p.second); } return runLinref("F", ls, multi, p.first, p.second); }
            case 5: { out.count("op_extract_line"); double a = lrIndex(ls), b = lrIndex(ls); if (r.chance(12)) b = a;
                if (a == b) out.count("lr_x_zero_length"); else if (a > b) out.count("lr_x_reversed");
                return runLinref("X", ls, multi, a, b); }
            case 6: out.count("op_clamp_index"); return runLinref("C", ls, multi, lrIndex(ls), 0);
            case 0: { out.count("op_project"); XY p = lrPoint(ls); if (r.chance(30)) { p.first = std::round(p.first); p.second = std::round(p.second); } return runLinref("P", ls, multi, p.first, p.second); }
            case 1: out.count("op_interpolate"); return runLinref("I", ls, multi, lrDistance(ls), 0);
            case 2: { out.count("op_interpolate_norm"); double f = lrFraction(ls); if (r.chance(20)) f = f * 3 - 1; return runLinref("N", ls, multi, f, 0); }
            default: { out.count("op_substring"); double a = lrFraction(ls), b = lrFraction(ls);
                if (r.chance(15)) b = a; if (r.chance(6)) a = -0.1; if (r.chance(6)) b = 1.5;
                if (a == b) out.count("lr_sub_zero_length"); else if (a > b) out.count("lr_sub_reversed");
                return runLinref("S", ls, multi, a, b); }
        }
    }
    // property-level oracles: RT (project then interpolate is nearest), IL (interpolate lands at the requested arc length),
    // SL (substring has the requested length and lies on the line).  multi = RT on MultiLineStrings only.
    bool witnessDone = false;
    CE oracle(bool multi) {
        if (multi && !witnessDone) {      // the Lean witness of project_interpolate_full_false, replayed on the implementation
            witnessDone = true; out.count("oracle_multi_lean_witness");
            LineSet w = {{{0, 0}, {4, 0}}, {{8, 3}, {12, 3}}}; return runRoundtrip(w, true, 8, 0); }
        bool m; LineSet ls = lrGeom(m, true);
        if (multi) { if (ls.size() < 2) ls.push_back(gridLine(r.range(2, 4), 100)); XY p = lrPoint(ls); out.count("oracle_roundtrip_multi"); return runRoundtrip(ls, true, p.first, p.second); }
        switch (r.below(5)) {
            case 3: { out.count("oracle_extract_line"); double a = lrIndex(ls), b = lrIndex(ls); if (r.chance(12)) b = a; return runExtractOracle(ls, m, a, b); }
            case 4: { out.count("oracle_clamp_index"); return runClampOracle(ls, m, lrIndex(ls)); }
            case 0: { out.count("oracle_roundtrip"); LineSet one; one.push_back(ls[0]); XY p = lrPoint(one); return runRoundtrip(one, false, p.first, p.second); }
            case 1: { out.count("oracle_interpolate"); return runInterpOracle(ls, m, lrDistance(ls)); }
            default: { out.count("oracle_substring"); double a = std::min(1.0, lrFraction(ls)), b = std::min(1.0, lrFraction(ls)); if (r.chance(15)) b = a; return runSubstringOracle(ls, m, a, b); }
        }
    }

    // ---- graphs for merging: nodes on a lattice, each edge a line with unique interior vertices
    Line edgeLine(XY a, XY b, int& uniq) {
        Line l; l.push_back(a);
        int k = r.chance(50) ? 0 : r.range(1, 2);
        for (int i = 0; i < k; i++) { uniq++; l.push_back({(a.first + b.first) / 2 + uniq * 0.0078125 + 0.25, (a.second + b.second) / 2 - uniq * 0.015625 + 0.125}); }
        if (a == b && k == 0) { uniq++; l.push_back({a.first + 0.5 + uniq * 0.0078125, a.second + 0.25}); uniq++; l.push_back({a.first + 0.25, a.second + 0.5 + uniq * 0.0078125}); }
        if (r.chance(10)) l.push_back(l.back());          // repeated point
        l.push_back(b);
        if (r.chance(50)) std::reverse(l.begin(), l.end());
        return l;
    }
    CE merge() {
        int uniq = 0; LineSet ls; bool directed = r.chance(50);
        out.count(directed ? "merge_directed" : "merge_undirected");
        auto node = [&](int i) { return XY{(double)(i % 5) * 4, (double)(i / 5) * 4}; };
        int nShapes = r.range(1, 3); int base = 0;
        for (int s = 0; s < nShapes; s++) {
            int kind = (int) r.below(8);
            switch (kind) {
                case 0: { out.count("merge_star"); int k = r.range(1, 5); int c = r.range(0, 24); for (int i = 0; i < k; i++) { int o; do { o = r.range(0, 24); } while (o == c); ls.push_back(edgeLine(node(c), node(o), uniq)); } break; }
                case 1: { out.count("merge_cycle"); int k = r.range(2, 6); std::vector<int> v; for (int i = 0; i < k; i++) v.push_back((base + i * 7 + r.range(0, 2)) % 25); for (int i = 0; i < k; i++) ls.push_back(edgeLine(node(v[i]), node(v[(i + 1) % k]), uniq)); break; }
                case 2: { out.count("merge_lollipop"); int k = r.range(2, 4); std::vector<int> v; for (int i = 0; i < k; i++) v.push_back((base + 3 + i * 6) % 25); for (int i = 0; i < k; i++) ls.push_back(edgeLine(node(v[i]), node(v[(i + 1) % k]), uniq));
                          int t = r.range(1, 3); int prev = v[0]; for (int i = 0; i < t; i++) { int nx = (prev + 11 + i) % 25; ls.push_back(edgeLine(node(prev), node(nx), uniq)); prev = nx; } break; }
                case 3: { out.count("merge_path"); int k = r.range(1, 6); int prev = r.range(0, 24); for (int i = 0; i < k; i++) { int nx = r.range(0, 24); ls.push_back(edgeLine(node(prev), node(nx), uniq)); prev = nx; } break; }
                case 4: { out.count("merge_duplicate"); int a = r.range(0, 24), b = r.range(0, 24); Line l = edgeLine(node(a), node(b), uniq); ls.push_back(l); if (r.chance(50)) std::reverse(l.begin(), l.end()); ls.push_back(l); if (r.chance(30)) ls.push_back(l); break; }
                case 5: { out.count("merge_selfloop"); int a = r.range(0, 24); ls.push_back(edgeLine(node(a), node(a), uniq)); break; }
                case 6: { out.count("merge_degenerate"); int a = r.range(0, 24); Line l; int k = r.range(0, 3); for (int i = 0; i < k; i++) l.push_back(node(a)); if (k != 1) ls.push_back(l); break; }
                default: { out.count("merge_random"); int k = r.range(1, 7); for (int i = 0; i < k; i++) ls.push_back(edgeLine(node(r.range(0, 8)), node(r.range(0, 8)), uniq)); }
            }
            base += 9;
        }
        // shuffle
        for (size_t i = ls.size(); i > 1; i--) std::swap(ls[i - 1], ls[r.below(i)]);
        if (ls.empty()) ls.push_back(edgeLine(node(0), node(1), uniq));
        if (reuseMode) return runMergeReuse(ls, r.below(ls.size() + 1));
        CE c = runMerge(directed, ls);
        if (!DRY) { size_t bar = c.c.find(" | "); if (bar != std::string::npos) { long nout = std::atol(c.c.c_str() + bar + 3); out.count("merge_in_lines", (long) ls.size()); out.count("merge_out_lines", nout);
            if (nout < (long) ls.size()) out.count("merge_case_something_merged"); } }
        return c;
    }

    // ---- grid linework with crossings / overlaps / shared endpoints
    // dyadic = only horizontal, vertical and 45-degree segments on an even lattice: every intersection point is a half-integer
    Line gridPoly(bool dyadic, int span) {
        int n = r.range(2, 5); Line l; XY p{(double) (2 * r.range(0, span)), (double) (2 * r.range(0, span))}; l.push_back(p);
        for (int i = 1; i < n; i++) {
            XY q;
            if (dyadic) { int d = (int) r.below(8); int k = 2 * r.range(1, span); static const int DX[8] = {1, 1, 0, -1, -1, -1, 0, 1}, DY[8] = {0, 1, 1, 1, 0, -1, -1, -1};
                q = {p.first + DX[d] * k, p.second + DY[d] * k}; }
            else q = {(double) r.range(0, 2 * span), (double) r.range(0, 2 * span)};
            if (r.chance(6)) q = p;          // repeated point
            l.push_back(q); p = q;
        }
        if (r.chance(15) && l.size() >= 3 && (!dyadic)) l.push_back(l[0]);          // closed
        return l;
    }
    CE node(bool fp) {
        LineSet ls; std::string mode;
        if (fp) { mode = "t"; int k = r.range(2, 5); double cx = fpCoord(), cy = fpCoord(), sc = std::fabs(fpCoord()) + 1e-3;
            for (int i = 0; i < k; i++) { Line l; int n = r.range(2, 4); for (int j = 0; j < n; j++) l.push_back({cx + sc * (r.unit() - 0.5), cy + sc * (r.unit() - 0.5)}); ls.push_back(l); }
            if (r.chance(40) && ls.size() >= 2) { ls[1][0] = ls[0][r.below(ls[0].size())]; out.count("node_shared_vertex"); }
            out.count("node_fullprecision"); }
        else {
            bool dyadic = r.chance(60); mode = dyadic ? "x" : "t"; out.count(dyadic ? "node_grid_dyadic_exact" : "node_grid_rational_tol");
            int k = r.range(1, 5); int span = r.range(2, 5);
            for (int i = 0; i < k; i++) ls.push_back(gridPoly(dyadic, span));
            if (r.chance(30)) { Line l = ls[r.below(ls.size())]; if (r.chance(50)) std::reverse(l.begin(), l.end()); ls.push_back(l); out.count("node_duplicate_line"); }
            if (r.chance(30)) { const Line& l = ls[r.below(ls.size())]; size_t i = r.below(l.size() - 1); XY a = l[i], b = l[i + 1];       // collinear sub/super segment
                double t0 = dyadic ? 0.5 : 0.5, t1 = r.chance(50) ? 1.0 : 2.0; Line m; m.push_back({a.first + t0 * (b.first - a.first), a.second + t0 * (b.second - a.second)}); m.push_back({a.first + t1 * (b.first - a.first), a.second + t1 * (b.second - a.second)});
                if (std::floor(m[0].first) == m[0].first && std::floor(m[0].second) == m[0].second) { ls.push_back(m); out.count("node_collinear_overlap"); } }
            if (r.chance(30) && ls.size() >= 2) { XY v = ls[0][r.below(ls[0].size())]; double dx = v.first - ls.back()[0].first, dy = v.second - ls.back()[0].second;
                for (auto& q : ls.back()) { q.first += dx; q.second += dy; } out.count("node_endpoint_on_vertex"); }
        }
        CE c = runNode(mode, ls);
        out.count(c.e == "threw" ? "node_threw" : "node_returned");
        return c;
    }

    // ---- planar lattice graphs for polygonizing: subset of unit edges (+ one diagonal per cell), chained through degree-2 nodes
    typedef std::pair<int, int> PN; typedef std::pair<PN, PN> PE;
    void latticeEdges(std::vector<PE>& es) {
        int W = r.range(2, 5), Hh = r.range(2, 5);
        int density = r.range(35, 90);
        for (int y = 0; y <= Hh; y++) for (int x = 0; x <= W; x++) {
            if (x < W && r.chance(density)) es.push_back({{x, y}, {x + 1, y}});
            if (y < Hh && r.chance(density)) es.push_back({{x, y}, {x, y + 1}});
            if (x < W && y < Hh && r.chance(density / 4)) { if (r.chance(50)) es.push_back({{x, y}, {x + 1, y + 1}}); else es.push_back({{x + 1, y}, {x, y + 1}}); }
        }
        if (r.chance(25)) { out.count("poly_nested_component");       // a small square strictly inside a big one, far away from the lattice
            int o = 20; es.push_back({{o, o}, {o + 6, o}}); es.push_back({{o + 6, o}, {o + 6, o + 6}}); es.push_back({{o + 6, o + 6}, {o, o + 6}}); es.push_back({{o, o + 6}, {o, o}});
            es.push_back({{o + 2, o + 2}, {o + 4, o + 2}}); es.push_back({{o + 4, o + 2}, {o + 4, o + 4}}); es.push_back({{o + 4, o + 4}, {o + 2, o + 4}}); es.push_back({{o + 2, o + 4}, {o + 2, o + 2}});
            if (r.chance(40)) { es.push_back({{o + 4, o + 4}, {o + 6, o + 6}}); out.count("poly_bridge_to_inner"); }
            if (r.chance(30)) { out.count("poly_hole_touching_shell_at_vertex");      // a triangle inside the big square sharing its corner (o,o)
                es.push_back({{o, o}, {o + 1, o + 3}}); es.push_back({{o + 1, o + 3}, {o + 1, o + 1}}); es.push_back({{o + 1, o + 1}, {o, o}}); }
            if (r.chance(30)) { out.count("poly_second_hole");                         // a second, separate inner ring, touching the first at (o+4,o+2)? no: at (o+5,o+1)..(o+5,o+2)
                es.push_back({{o + 5, o + 1}, {o + 5, o + 2}}); es.push_back({{o + 5, o + 2}, {o + 4, o + 2}}); es.push_back({{o + 4, o + 2}, {o + 5, o + 1}}); }
            if (r.chance(40)) { es.push_back({{o + 2, o + 2}, {o + 1, o + 1}}); out.count("poly_dangle_in_face"); } }
    }
    // "cell set" arrangements: every cell of a W x H lattice is empty, filled, or half filled (one of the four triangles cut off by
    // a diagonal); the lines are the boundary of the filled region (+ some edges inside it, + a few stray edges outside).  Filled
    // blobs that meet only at a lattice node, blobs sitting in the bays of concave blobs, blobs inside the holes of other blobs and
    // pinched outer boundaries (a ring passing twice through a node) are all regular here: these are the inputs on which ring
    // building and hole assignment have to tell "touches from outside" from "touches from inside".
    void cellsetEdges(std::vector<PE>& es) {
        int W = r.range(3, 7), Hh = r.range(3, 7); int fill = r.range(30, 65), half = r.range(0, 45), inner = r.chance(50) ? 0 : r.range(10, 60), stray = r.chance(60) ? 0 : r.range(2, 10);
        std::vector<std::vector<int>> st((size_t) W, std::vector<int>((size_t) Hh, 0));   // 0 empty 1 full 2 '/'lower-right 3 '/'upper-left 4 '\'lower-left 5 '\'upper-right
        for (int x = 0; x < W; x++) for (int y = 0; y < Hh; y++) if (r.chance(fill)) st[(size_t) x][(size_t) y] = r.chance(half) ? r.range(2, 5) : 1;
        enum { B, T, L, R };
        auto side = [&](int x, int y, int w) -> bool { if (x < 0 || y < 0 || x >= W || y >= Hh) return false; int c = st[(size_t) x][(size_t) y];
            switch (c) { case 0: return false; case 1: return true; case 2: return w == B || w == R; case 3: return w == T || w == L; case 4: return w == B || w == L; default: return w == T || w == R; } };
        auto want = [&](bool a, bool b) { return a != b ? true : a ? r.chance(inner) : r.chance(stray); };
        for (int y = 0; y <= Hh; y++) for (int x = 0; x <= W; x++) {
            if (x < W && want(side(x, y - 1, T), side(x, y, B))) es.push_back({{x, y}, {x + 1, y}});
            if (y < Hh && want(side(x - 1, y, R), side(x, y, L))) es.push_back({{x, y}, {x, y + 1}});
            if (x < W && y < Hh) { int c = st[(size_t) x][(size_t) y]; bool slash;
                bool draw = c >= 2 ? true : c == 1 ? r.chance(inner / 2) : r.chance(stray / 2);
                slash = c == 2 || c == 3 ? true : c == 4 || c == 5 ? false : r.chance(50);
                if (draw) { if (slash) es.push_back({{x, y}, {x + 1, y + 1}}); else es.push_back({{x + 1, y}, {x, y + 1}}); } }
        }
    }
    LineSet polyLines() {
        typedef PN N; typedef PE E;
        std::vector<E> es;
        if (r.chance(45)) { out.count("poly_gen_cellset"); cellsetEdges(es); } else { out.count("poly_gen_lattice"); latticeEdges(es); }
        if (es.empty()) es.push_back({{0, 0}, {1, 0}});
        // chain: repeatedly join two lines at a node of degree exactly 2 (keeps "lines touch only at endpoints")
        std::vector<std::vector<N>> lines; for (auto& e : es) lines.push_back({e.first, e.second});
        std::map<N, int> deg; for (auto& e : es) { deg[e.first]++; deg[e.second]++; }
        bool changed = true; int joinPct = r.range(0, 90);
        while (changed) { changed = false;
            for (size_t i = 0; i < lines.size() && !changed; i++) for (size_t j = i + 1; j < lines.size() && !changed; j++) {
                auto &a = lines[i], &b = lines[j];
                for (int ea = 0; ea < 2 && !changed; ea++) for (int eb = 0; eb < 2 && !changed; eb++) {
                    N na = ea ? a.back() : a.front(), nb = eb ? b.back() : b.front();
                    if (na == nb && deg[na] == 2 && r.chance(joinPct) && !(a.front() == a.back()) && !(b.front() == b.back())) {
                        std::vector<N> x = a, y = b; if (!ea) std::reverse(x.begin(), x.end()); if (eb) std::reverse(y.begin(), y.end());
                        x.insert(x.end(), y.begin() + 1, y.end());
                        deg[na] = -1000;        // now an interior vertex
                        lines[i] = x; lines.erase(lines.begin() + (long) j); changed = true; } } }
        }
        LineSet ls; double sc = r.chance(50) ? 1.0 : 0.5; double ox = r.chance(50) ? 0 : -3, oy = r.chance(50) ? 0 : 7;
        for (auto& l : lines) { Line q; for (auto& n : l) q.push_back({ox + sc * n.first, oy + sc * n.second}); if (r.chance(50)) std::reverse(q.begin(), q.end()); ls.push_back(q); }
        for (size_t i = ls.size(); i > 1; i--) std::swap(ls[i - 1], ls[r.below(i)]);
        return ls;
    }
    CE polygonize() {
        LineSet ls = polyLines();
        std::string mode = r.chance(75) ? "f" : "v"; out.count(mode == "f" ? "poly_mode_full" : "poly_mode_valid_only");
        CE c = runPolygonize(mode, ls);
        if (resultInvalid) out.count("poly_valid_only_result_has_edge_adjacent_polygons");
        if (!DRY) { out.count("poly_out_polygons", st_polys); out.count("poly_out_holes", st_holes); out.count("poly_out_dangles", st_dangles);
            out.count("poly_out_cut_edges", st_cuts); out.count("poly_out_invalid_rings", st_invalid); out.count("poly_in_lines", (long) ls.size());
            if (st_polys == 0) out.count("poly_case_no_polygon"); if (st_holes > 0) out.count("poly_case_with_hole"); }
        return c;
    }
    CE holeassign() { LineSet ls = polyLines(); return runHoleAssign(ls); }

    // ---- shared paths: simple axis-parallel lattice paths
    typedef std::pair<int, int> N;
    std::vector<N> walk(N start, int steps, std::set<N>& used) {
        std::vector<N> p; p.push_back(start); used.insert(start);
        static const int DX[4] = {1, 0, -1, 0}, DY[4] = {0, 1, 0, -1}; int d = (int) r.below(4);
        for (int i = 0; i < steps; i++) {
            if (r.chance(35)) d = (d + (r.chance(50) ? 1 : 3)) % 4;
            bool moved = false;
            for (int t = 0; t < 4 && !moved; t++) { int dd = (d + t) % 4; N q{p.back().first + DX[dd], p.back().second + DY[dd]};
                if (!used.count(q) && std::abs(q.first) < 12 && std::abs(q.second) < 12) { p.push_back(q); used.insert(q); d = dd; moved = true; } }
            if (!moved) break;
        }
        return p;
    }
    Line thin(const std::vector<N>& p) {       // drop some collinear interior vertices
        Line l; for (size_t i = 0; i < p.size(); i++) {
            bool collinear = i > 0 && i + 1 < p.size() && ((p[i].first - p[i-1].first) == (p[i+1].first - p[i].first)) && ((p[i].second - p[i-1].second) == (p[i+1].second - p[i].second));
            if (collinear && r.chance(60)) continue; l.push_back({(double) p[i].first, (double) p[i].second}); }
        return l;
    }
    CE shared() {
        std::set<N> used1; std::vector<N> p1 = walk({0, 0}, r.range(3, 14), used1);
        // g2: optional free prefix, a contiguous sub-path of p1 (maybe reversed), optional free suffix; kept self-avoiding
        std::vector<N> p2; std::set<N> used2;
        if (p1.size() >= 2 && r.chance(85)) {
            size_t i = r.below(p1.size() - 1), j = i + 1 + r.below(p1.size() - i - 1); std::vector<N> sub(p1.begin() + (long) i, p1.begin() + (long) j + 1);
            bool rev = r.chance(50); if (rev) std::reverse(sub.begin(), sub.end()); out.count(rev ? "shared_opposite" : "shared_same");
            for (auto& n : sub) used2.insert(n);
            std::vector<N> pre; if (r.chance(60)) { std::set<N> u = used2; pre = walk(sub.front(), r.range(1, 5), u); std::reverse(pre.begin(), pre.end()); pre.pop_back(); for (auto& n : pre) used2.insert(n); }
            p2 = pre; p2.insert(p2.end(), sub.begin(), sub.end());
            if (r.chance(60)) { std::vector<N> suf = walk(p2.back(), r.range(1, 6), used2); p2.insert(p2.end(), suf.begin() + 1, suf.end()); }
        } else { out.count("shared_unrelated"); p2 = walk({r.range(-3, 3), r.range(-3, 3)}, r.range(2, 10), used2); }
        if (p2.size() < 2) p2 = {{5, 5}, {6, 5}};
        if (p1.size() < 2) p1 = {{0, 0}, {1, 0}};
        LineSet a, b; a.push_back(thin(p1)); b.push_back(thin(p2));
        // optionally split into a MultiLineString at an interior vertex
        auto split = [&](LineSet& s) { if (s[0].size() >= 3 && r.chance(30)) { size_t k = 1 + r.below(s[0].size() - 2); Line x(s[0].begin(), s[0].begin() + (long) k + 1), y(s[0].begin() + (long) k, s[0].end()); if (r.chance(40)) std::reverse(y.begin(), y.end()); s = {x, y}; out.count("shared_multiline"); } };
        split(a); split(b);
        CE c = runShared(a, a.size() > 1, b, b.size() > 1);
        out.count(c.e == "threw" ? "shared_threw" : "shared_returned");
        return c;
    }
};

static CE replayLine(const std::string& stream, const std::string& line) {
    Tk tk(line); std::string op = tk.next();
    if (stream == "linref") { LineSet ls = tk.lineset(); double a = tk.dbl(); double b = (op == "P" || op == "S" || op == "X" || op == "F") ? tk.dbl() : 0; return runLinref(op, ls, ls.size() > 1, a, b); }
    if (stream == "oracle" || stream == "oracle_multi") {
        LineSet ls = tk.lineset();
        if (op == "RT") { tk.bar(); double px = tk.dbl(), py = tk.dbl(); return runRoundtrip(ls, ls.size() > 1, px, py); }
        if (op == "IL") { double d = tk.dbl(); return runInterpOracle(ls, ls.size() > 1, d); }
        if (op == "XL") { double a = tk.dbl(), b = tk.dbl(); return runExtractOracle(ls, ls.size() > 1, a, b); }
        if (op == "CL") { double a = tk.dbl(); return runClampOracle(ls, ls.size() > 1, a); }
        double a = tk.dbl(), b = tk.dbl(); return runSubstringOracle(ls, ls.size() > 1, a, b); }
    if (stream == "merge") { bool d = tk.next() == "1"; LineSet ls = tk.lineset(); return runMerge(d, ls); }
    if (stream == "node" || stream == "node_fp") { std::string mode = tk.next(); LineSet ls = tk.lineset(); return runNode(mode, ls); }
    if (stream == "polygonize") { std::string mode = tk.next(); tk.next(); LineSet ls = tk.lineset(); return runPolygonize(mode, ls); }
    if (stream == "sharedpaths") { LineSet a = tk.lineset(); tk.bar(); LineSet b = tk.lineset(); return runShared(a, a.size() > 1, b, b.size() > 1); }
    if (stream == "holeassign") { LineSet ls = tk.lineset(); return runHoleAssign(ls); }
    throw std::runtime_error("unknown stream " + stream);
}

static void onAlarm(int) { const char m[] = "c19: GEOS call exceeded the per-case time limit\n"; ssize_t w = write(2, m, sizeof m - 1); (void) w; _exit(3); }

int main(int argc, char** argv) {
    // self-protection (a broken library must not take the machine down): 1 GB address space, 30 s per case
    { struct rlimit rl; rl.rlim_cur = rl.rlim_max = (rlim_t) 1 << 30; setrlimit(RLIMIT_AS, &rl); std::signal(SIGALRM, onAlarm); }
    if (argc < 4) { std::fprintf(stderr, "usage: c19 <stream> <seed> <n> <outbase> | c19 replay <stream> <file>\n"); return 2; }
    DRY = std::getenv("C19_DRY") != nullptr;
    H = GEOS_init_r(); GEOSContext_setNoticeHandler_r(H, notice); GEOSContext_setErrorHandler_r(H, errorh);
    std::string stream = argv[1];
    if (stream == "replay") {
        std::ifstream f(argv[3]); std::string line;
        while (std::getline(f, line)) { if (line.empty()) continue; alarm(30); try { CE c = replayLine(argv[2], line); std::cout << c.c << "\t" << c.e << std::endl; } catch (std::exception& e) { std::cout << line << "\tcrash:" << e.what() << std::endl; } }
        GEOS_finish_r(H); return 0;
    }
    if (argc < 5) return 2;
    uint64_t seed = std::stoull(argv[2]); long n = std::stol(argv[3]);
    { Out out(argv[4]); Rng r(seed); Gen g(r, out);
      for (long i = 0; i < n; i++) {
        CE c; alarm(30);
        try {
        if (stream == "linref") c = g.linref();
        else if (stream == "oracle") c = g.oracle(false);
        else if (stream == "oracle_multi") c = g.oracle(true);
        else if (stream == "merge") c = g.merge();
        else if (stream == "reuse") { g.reuseMode = true; c = g.merge(); }
        else if (stream == "node") c = g.node(false);
        else if (stream == "node_fp") c = g.node(true);
        else if (stream == "polygonize") c = g.polygonize();
        else if (stream == "sharedpaths") c = g.shared();
        else if (stream == "holeassign") c = g.holeassign();
        else { std::fprintf(stderr, "unknown stream\n"); return 2; }
        } catch (std::exception& e) { c.c = LASTIN; c.e = std::string("crash:") + e.what(); out.count("harness_caught_exception"); }
        out.emit(c.c, c.e);
      }
      if (stream == "holeassign" && !DRY) { out.count("ha_holes", st_ha_holes); out.count("ha_shells", st_ha_shells); out.count("ha_queries_hole_x_start", st_ha_queries);
          out.count("ha_assigned", st_ha_assigned); out.count("ha_candidate_pairs_envelope_covers", st_ha_candidates);
          out.count("ha_first_vertex_is_vertex_of_candidate", st_ha_firstShared); out.count("ha_vertex_scan_decisive", st_ha_scanDecisive); } }
    GEOS_finish_r(H);
    return 0;
}
