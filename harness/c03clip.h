// C03: the input side of OverlayNG — direct correspondence of LineLimiter (one object reused for many lines),
// RobustClipEnvelopeComputer and EdgeNodingBuilder (what is handed to the noder: clipped / limited point lists, depth
// delta, hole flag) with lean/GeosModel/Model/Overlay/Clip.lean, plus the shape families these classes act on:
// long lattice walks wandering in and out of a window, polygons that wrap around a window (horseshoes with tabs),
// polygons with large holes.
//   stream overlay-input:   LS | <box> | <seq> | <seq> ...          -> sections of each line, in call order
//                           CE | <box> | <A tokens> | <B tokens>     -> the clip envelope (4 keys)
//                           EI | <box | -> | <A tokens> | <B tokens | ->   -> the segment strings given to the noder
//   box = minx maxx miny maxy (hex doubles);  seq = n x y ... (hex doubles); answers use integer keys of the doubles
#pragma once
#include "gridgen.h"
#include <geos/operation/overlayng/LineLimiter.h>
#include <geos/operation/overlayng/RingClipper.h>
#include <geos/operation/overlayng/RobustClipEnvelopeComputer.h>
#include <geos/operation/overlayng/EdgeNodingBuilder.h>
#include <geos/operation/overlayng/EdgeSourceInfo.h>
#include <geos/noding/Noder.h>
#include <geos/noding/SegmentString.h>
#include <geos/geom/PrecisionModel.h>
#include <geos/geom/Envelope.h>
#include <geos/geom/CoordinateSequence.h>
#include <geos/geom/Polygon.h>
#include <geos/geom/LineString.h>
#include <geos/algorithm/Orientation.h>
#include <functional>

namespace c03clip {
using namespace vh;
using geos::geom::Envelope; using geos::geom::CoordinateSequence; using geos::geom::Coordinate;

// order-preserving integer image of a double (the same function as F64.key)
inline long long key(double d) { uint64_t u = bits(d); return (u >> 63) ? -(long long)(u & 0x7fffffffffffffffULL) : (long long) u; }
inline std::string keyPt(double x, double y) { return " " + std::to_string(key(x)) + " " + std::to_string(key(y)); }
inline std::string keySeq(const CoordinateSequence& cs) { std::string s = std::to_string(cs.size()); for (size_t i = 0; i < cs.size(); i++) s += keyPt(cs.getX(i), cs.getY(i)); return s; }

// exact lattice map, optionally followed by an arbitrary magnitude (applied per ordinate, so shared vertices stay shared)
struct Map { Xform t; double mag = 1.0;
    void apply(double px, double py, double& x, double& y) const {      // px, py: lattice ordinates, possibly with a fractional part (clip boxes)
        double u, v;
        switch (t.sym & 7) { case 0: u = px; v = py; break; case 1: u = -py; v = px; break; case 2: u = -px; v = -py; break; case 3: u = py; v = -px; break;
                             case 4: u = -px; v = py; break; case 5: u = px; v = -py; break; case 6: u = py; v = px; break; default: u = -py; v = -px; }
        x = std::ldexp(u + (double) t.tx, t.k) * mag; y = std::ldexp(v + (double) t.ty, t.k) * mag; }
    void apply(const IPt& p, double& x, double& y) const { apply((double) p.x, (double) p.y, x, y); } };

inline std::string seqTok(const std::vector<IPt>& ps, const Map& m) { std::string s = "xy " + std::to_string(ps.size());
    for (auto& p : ps) { double x, y; m.apply(p, x, y); s += " " + hex(x) + " " + hex(y); } return s; }
inline std::string elemTok(const GElem& e, const Map& m) {
    if (e.kind == 0) return e.empty ? "P xy 0" : "P " + seqTok(e.rings[0], m);
    if (e.kind == 1) return e.empty ? "L xy 0" : "L " + seqTok(e.rings[0], m);
    if (e.empty) return "Y 1 xy 0";
    std::string s = "Y " + std::to_string(e.rings.size()); for (auto& rg : e.rings) s += " " + seqTok(rg, m); return s; }
inline std::string geomTok(const GGeom& g, const Map& m) {
    if (g.container == 0) return "0 " + elemTok(g.elems[0], m);
    std::string tag = g.elems.empty() ? "GC" : (g.elems[0].kind == 0 ? "MP" : g.elems[0].kind == 1 ? "ML" : "MY");
    std::string s = "0 " + tag + " " + std::to_string(g.elems.size());
    for (auto& e : g.elems) s += " " + elemTok(e, m); return s; }

struct BoxD { double x0, x1, y0, y1; };
inline BoxD mapBox(double x0, double y0, double x1, double y1, const Map& m) { double ax, ay, bx, by; m.apply(x0, y0, ax, ay); m.apply(x1, y1, bx, by);
    return BoxD{std::min(ax, bx), std::max(ax, bx), std::min(ay, by), std::max(ay, by)}; }
inline std::string boxTok(const BoxD& b) { return hex(b.x0) + " " + hex(b.x1) + " " + hex(b.y0) + " " + hex(b.y1); }

// ---------------------------------------------------------------- shape families

// a lattice walk of n vertices through the universe [0,U]^2: short steps, so that it wanders in and out of any window;
// sometimes a repeated vertex, sometimes a long straight run
inline std::vector<IPt> walkLine(Rng& r, long U, int n) {
    std::vector<IPt> ps; IPt p{r.range(0, (int) U), r.range(0, (int) U)}; ps.push_back(p);
    long step = r.chance(50) ? 2 : (r.chance(50) ? 4 : 1);
    while ((int) ps.size() < n) {
        if (r.chance(4)) { ps.push_back(p); continue; }
        IPt q; int tries = 0;
        do { q = IPt{p.x + r.range((int) -step, (int) step), p.y + r.range((int) -step, (int) step)}; q.x = std::max(0L, std::min(U, q.x)); q.y = std::max(0L, std::min(U, q.y)); } while (q == p && ++tries < 8);
        if (q == p) q = IPt{p.x == U ? p.x - 1 : p.x + 1, p.y};
        ps.push_back(q); p = q; }
    return ps; }

// a polygon that wraps around a window without containing it: a thick "C" (outer square of side S, walls of thickness t, a channel
// through the left wall) with 0..2 tabs of height 1 growing from the right cavity wall into the cavity; counter-clockwise, then varied
// (direction, start vertex).  cav = the cavity rectangle (x0,y0,x1,y1); tabEnds = the free ends of the tabs
struct Horseshoe { std::vector<IPt> ring; long cx0, cy0, cx1, cy1; std::vector<IPt> tabEnds; };
inline Horseshoe horseshoe(Rng& r, long S) {
    Horseshoe hs; long t = r.range(1, 2); long c0 = r.range((int) t, (int) (S - t - 1)), c1 = r.range((int) c0 + 1, (int) (S - t));
    hs.cx0 = t; hs.cy0 = t; hs.cx1 = S - t; hs.cy1 = S - t;
    std::vector<IPt> g = {{0, 0}, {S, 0}, {S, S}, {0, S}, {0, c1}, {t, c1}, {t, S - t}, {S - t, S - t}};
    int nt = r.range(0, 2); std::vector<long> ys;
    for (int i = 0; i < nt; i++) { long y0 = r.range((int) t + 1, (int) (S - t - 2)); bool ok = true; for (long y : ys) if (std::labs(y - y0) < 2) ok = false; if (ok) ys.push_back(y0); }
    std::sort(ys.begin(), ys.end(), [](long a, long b) { return a > b; });
    for (long y0 : ys) { long len = r.range(1, (int) (S - 2 * t - 1)); long xe = S - t - len;
        g.push_back({S - t, y0 + 1}); if (len >= 2 && r.chance(70)) g.push_back({S - t - len / 2, y0 + 1}); g.push_back({xe, y0 + 1}); g.push_back({xe, y0});
        if (len >= 2 && r.chance(70)) g.push_back({S - t - len / 2, y0}); g.push_back({S - t, y0}); hs.tabEnds.push_back({xe, y0}); }
    g.push_back({S - t, t}); g.push_back({t, t}); g.push_back({t, c0}); g.push_back({0, c0}); g.push_back({0, 0});
    // start vertex: any
    g.pop_back(); size_t k = r.below(g.size()); std::rotate(g.begin(), g.begin() + (long) k, g.end()); g.push_back(g[0]);
    if (r.chance(50)) std::reverse(g.begin(), g.end());
    hs.ring = g; return hs; }

// a polygon with one large hole whose edges are mostly sloped: shell = square [0,S]^2, hole = convex polygon on the even lattice points
// well inside (every hole edge then carries lattice points in its interior: exact contacts for the partner)
inline GElem holed(Rng& r, long S) {
    GElem e; e.kind = 2; e.rings.push_back({{0, 0}, {S, 0}, {S, S}, {0, S}, {0, 0}});
    if (r.chance(50)) std::reverse(e.rings[0].begin(), e.rings[0].end());
    for (int tries = 0; tries < 10; tries++) { std::vector<IPt> ps; int n = r.range(3, 6); long hmax = std::max(1L, (S - 1) / 2);
        for (int i = 0; i < n; i++) ps.push_back(IPt{2 * r.range(1, (int) hmax), 2 * r.range(1, (int) hmax)});
        auto hl = GridGen::hull(ps); if (hl.empty()) continue; if (r.chance(50)) std::reverse(hl.begin(), hl.end()); e.rings.push_back(hl); break; }
    return e; }

// a small partner inside the lattice window [x0,x1] x [y0,y1] (x0 < x1, y0 < y1): rectangle, convex polygon or short line;
// `must` (optional) are points the partner has to use (exact contacts with the other operand)
inline GGeom smallPartner(Rng& r, long x0, long y0, long x1, long y1, const std::vector<IPt>& must = {}) {
    GGeom g; g.container = 0; GElem e; auto rp = [&]() { return IPt{r.range((int) x0, (int) x1), r.range((int) y0, (int) y1)}; };
    int k = (int) r.below(100);
    if (k < 70 || !must.empty()) { for (int tries = 0; tries < 10; tries++) { std::vector<IPt> ps = must; int n = r.range(3, 6); while ((int) ps.size() < n) ps.push_back(rp());
            auto hl = GridGen::hull(ps); if (hl.empty()) continue; if (r.chance(50)) std::reverse(hl.begin(), hl.end()); e.kind = 2; e.rings.push_back(hl); g.elems.push_back(e); return g; } }
    if (k < 85) { long a = r.range((int) x0, (int) x1 - 1), b = r.range((int) y0, (int) y1 - 1), c = r.range((int) a + 1, (int) x1), d = r.range((int) b + 1, (int) y1);
        e.kind = 2; e.rings.push_back({{a, b}, {c, b}, {c, d}, {a, d}, {a, b}}); if (r.chance(50)) std::reverse(e.rings[0].begin(), e.rings[0].end()); g.elems.push_back(e); return g; }
    e.kind = 1; std::vector<IPt> ps = must; int n = r.range(2, 4); while ((int) ps.size() < n) { IPt p = rp(); if (ps.empty() || !(p == ps.back())) ps.push_back(p); else if (x1 > x0) ps.push_back(IPt{p.x == x1 ? p.x - 1 : p.x + 1, p.y}); }
    e.rings.push_back(ps); g.elems.push_back(e); return g; }

inline void subdivide(std::vector<IPt>& ring, long m) {      // every coordinate times m, every edge cut into m lattice pieces
    std::vector<IPt> o; for (size_t i = 0; i < ring.size(); i++) { IPt p{ring[i].x * m, ring[i].y * m};
        if (i + 1 < ring.size()) { long dx = ring[i + 1].x - ring[i].x, dy = ring[i + 1].y - ring[i].y; for (long j = 0; j < m; j++) o.push_back(IPt{p.x + j * dx, p.y + j * dy}); } else o.push_back(p); }
    ring.swap(o); }

// ---------------------------------------------------------------- recording noder

struct RecNoder : geos::noding::Noder {
    std::string rec; long n = 0;
    void computeNodes(std::vector<geos::noding::SegmentString*>* segs) override {
        for (auto* ss : *segs) { auto* info = static_cast<const geos::operation::overlayng::EdgeSourceInfo*>(ss->getData());
            rec += (n++ ? " E " : "E ") + std::to_string((int) info->getIndex()) + " " + std::to_string(info->getDimension()) + " " + std::to_string(info->getDepthDelta()) + " " + (info->isHole() ? "1" : "0") + " " + keySeq(*ss->getCoordinates()); } }
    std::vector<geos::noding::SegmentString*>* getNodedSubstrings() const override { return new std::vector<geos::noding::SegmentString*>(); }
};

// ---------------------------------------------------------------- the stream

inline Map randomMap(Rng& r, GridGen& gen, Out& out) { Map m; m.t = gen.xform(); if (m.t.k < -20) m.t.k = -20; if (m.t.k > 20) m.t.k = 20;
    if (r.chance(30)) { m.mag = std::pow(10.0, r.unit() * 6 - 3); out.count("map_arbitrary_magnitude"); } return m; }

inline void streamInput(Rng& r, GEOSContextHandle_t h, Out& out, long n) {
    using namespace geos::operation::overlayng;
    auto gf = GeometryFactory::getDefaultInstance(); GridGen gen(r, h, &out);
    for (long i = 0; i < n; i++) {
        int kind = (int) r.below(100);
        Map m = randomMap(r, gen, out);
        long U = r.range(8, 24);
        // a window inside the universe; its sides are lattice lines or (EI only) lie strictly between them
        long wx0 = r.range(1, (int) U - 3), wy0 = r.range(1, (int) U - 3), wx1 = r.range((int) wx0 + 1, (int) U - 1), wy1 = r.range((int) wy0 + 1, (int) U - 1);
        if (kind < 30) {          // ---- LS: one LineLimiter, several lines
            BoxD b = mapBox((double) wx0, (double) wy0, (double) wx1, (double) wy1, m); Envelope env(b.x0, b.x1, b.y0, b.y1);
            LineLimiter lim(&env); int nl = r.range(1, 4); std::string c = "LS | " + boxTok(b), e;
            for (int q = 0; q < nl; q++) { auto ps = walkLine(r, U, r.range(1, 30)); CoordinateSequence cs;
                std::string tk = std::to_string(ps.size());
                for (auto& p : ps) { double x, y; m.apply(p, x, y); cs.add(Coordinate(x, y)); tk += " " + hex(x) + " " + hex(y); }
                c += " | " + tk;
                auto& secs = lim.limit(&cs); std::string s; for (auto& sec : secs) s += (s.empty() ? "S " : " S ") + keySeq(*sec);
                if (secs.empty()) s = "-";
                bool endOut2 = ps.size() >= 2 && !env.intersects(cs.getAt(cs.size() - 1)) && !env.intersects(cs.getAt(cs.size() - 2));
                if (endOut2 && q + 1 < nl) out.count("ls_line_ending_with_two_outside_followed_by_another");
                out.count("ls_sections", (long) secs.size());
                e += (q ? " / " : "") + s; }
            out.count("LS"); out.emit(c, e); continue; }
        // operands: polygons (with holes), horseshoes, holed squares, multi polygons, lines, multi lines of long walks
        auto operand = [&](bool allowNone) -> GGeom {
            GGeom g; int k = (int) r.below(100);
            if (allowNone && k < 15) { g.container = -1; return g; }
            if (k < 35) { auto hs = horseshoe(r, r.range(6, (int) U)); GElem e; e.kind = 2; e.rings.push_back(hs.ring); g.container = 0; g.elems.push_back(e); out.count("operand_horseshoe"); }
            else if (k < 50) { g.container = 0; g.elems.push_back(holed(r, r.range(6, (int) U))); out.count("operand_holed_square"); }
            else if (k < 72) { gen.span = (int) U; g = gen.geom(2, false, false); out.count("operand_polygonal"); }
            else { g.container = r.chance(65) ? 1 : 0; int nl = g.container ? r.range(2, 4) : 1;
                for (int q = 0; q < nl; q++) { GElem e; e.kind = 1; e.rings.push_back(r.chance(70) ? walkLine(r, U, r.range(15, 40)) : walkLine(r, U, r.range(2, 21))); g.elems.push_back(e); }
                out.count("operand_lines"); }
            return g; };
        GGeom A = operand(false), B = operand(true);
        std::string ta = geomTok(A, m), tb = B.container < 0 ? std::string("-") : geomTok(B, m);
        std::unique_ptr<Geometry> ga, gb;
        try { ga = buildGeom(ta, gf); if (tb != "-") gb = buildGeom(tb, gf); } catch (...) { out.count("build_rejected"); continue; }
        // polygons must be valid (lines need not be simple)
        auto okGeom = [&](const Geometry* g) { return g == nullptr || g->getDimension() != 2 || GEOSisValid_r(h, (GEOSGeometry*) g) == 1; };
        if (!okGeom(ga.get()) || !okGeom(gb.get())) { out.count("invalid_skipped"); continue; }
        if (kind < 55) {          // ---- CE: RobustClipEnvelopeComputer::getEnvelope
            BoxD b = mapBox((double) wx0, (double) wy0, (double) wx1, (double) wy1, m); Envelope target(b.x0, b.x1, b.y0, b.y1);
            Envelope e = RobustClipEnvelopeComputer::getEnvelope(ga.get(), gb.get(), &target);
            out.count("CE"); if (!e.equals(&target)) out.count("ce_envelope_grown");
            out.emit("CE | " + boxTok(b) + " | " + ta + " | " + tb, std::to_string(key(e.getMinX())) + " " + std::to_string(key(e.getMaxX())) + " " + std::to_string(key(e.getMinY())) + " " + std::to_string(key(e.getMaxY())));
            continue; }
        // ---- EI: EdgeNodingBuilder with a recording noder
        bool noClip = r.chance(8); double f0 = 0, f1 = 0, f2 = 0, f3 = 0;
        if (r.chance(60)) { static const double F[] = {0.3, 0.5, 0.7, 0.125, 0.9}; f0 = F[r.below(5)]; f1 = F[r.below(5)]; f2 = F[r.below(5)]; f3 = F[r.below(5)]; out.count("ei_box_off_lattice"); }
        BoxD b = mapBox((double) wx0 - f0, (double) wy0 - f1, (double) wx1 + f2, (double) wy1 + f3, m); Envelope env(b.x0, b.x1, b.y0, b.y1);
        if (!noClip) {       // distribution: how many rings are really clipped, how often the clipped point list has the other orientation, how many lines are limited
            RingClipper rc(&env);
            std::function<void(const Geometry*)> scan = [&](const Geometry* g) { if (!g) return;
                if (auto* p = dynamic_cast<const geos::geom::Polygon*>(g)) { std::vector<const geos::geom::LinearRing*> rs = {p->getExteriorRing()}; for (size_t q = 0; q < p->getNumInteriorRing(); q++) rs.push_back(p->getInteriorRingN(q));
                    for (auto* rg : rs) { if (rg->isEmpty() || env.disjoint(rg->getEnvelopeInternal()) || env.covers(rg->getEnvelopeInternal())) continue; out.count("ei_ring_clipped");
                        auto cl = rc.clip(rg->getCoordinatesRO()); if (cl->size() >= 4 && geos::algorithm::Orientation::isCCW(cl.get()) != geos::algorithm::Orientation::isCCW(rg->getCoordinatesRO())) out.count("ei_clipped_ring_has_other_orientation"); } }
                else if (auto* l = dynamic_cast<const geos::geom::LineString*>(g)) { if (l->getNumPoints() > 20 && !env.disjoint(l->getEnvelopeInternal()) && !env.covers(l->getEnvelopeInternal())) out.count("ei_line_limited"); }
                else for (size_t q = 0; q < g->getNumGeometries(); q++) if (g->getGeometryN(q) != g) scan(g->getGeometryN(q)); };
            scan(ga.get()); scan(gb.get()); }
        RecNoder rec; geos::geom::PrecisionModel pm; std::string exp;
        try { EdgeNodingBuilder enb(&pm, &rec); if (!noClip) enb.setClipEnvelope(&env); enb.build(ga.get(), gb.get()); exp = rec.rec.empty() ? "-" : rec.rec; }
        catch (const std::exception&) { exp = "exception"; }
        out.count("EI"); out.count("ei_segment_strings", rec.n);
        out.emit("EI | " + (noClip ? std::string("-") : boxTok(b)) + " | " + ta + " | " + tb, exp);
    }
}

} // namespace c03clip
