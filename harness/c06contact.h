// C06: inputs whose buffer OUTLINE TOUCHES ITSELF in single noded vertices (used only by harness/c06.cpp, stream `contact`).
// Generic-position inputs never produce such a node; two legal and common families do:
//   (T) valid polygons whose holes touch the shell / each other / an island in single points, buffered with distance 0 (and a few
//       other distances): the result has the same rings, so its maximal edge rings pass twice through the contact nodes;
//   (L) lattice-exact inputs (integer coordinates under a lattice symmetry, integer translation and power-of-two scale, all exact
//       in binary64) buffered with a distance that is a half-integer number of lattice units: the round caps / joins of features
//       that are exactly 2d apart along an axis share exactly one generated vertex (the arc vertices at multiples of 90 degrees
//       are exact), e.g. grid points buffered by half the grid spacing enclose four-cornered pockets.
#pragma once
#include "gridgen.h"
#include <set>

namespace vh {

inline void bboxOf(const std::vector<IPt>& rg, long& x0, long& y0, long& x1, long& y1) {
    x0 = x1 = rg[0].x; y0 = y1 = rg[0].y;
    for (auto& p : rg) { x0 = std::min(x0, p.x); x1 = std::max(x1, p.x); y0 = std::min(y0, p.y); y1 = std::max(y1, p.y); } }

// family T: a polygon with 1..3 holes each of which shares exactly one point with the shell (a shell vertex or a lattice point in the
// interior of a shell edge) or with an earlier hole; optionally a second polygon that touches the first in one point from outside or
// sits in a hole touching its ring.  Everything is accepted only when GEOS calls it valid.
inline bool touchingRings(GridGen& gen, Rng& r, GGeom& outG, Out* out) {
    for (int tries = 0; tries < 16; tries++) {
        GElem e; e.kind = 2; auto shell = gen.ring(); for (auto& p : shell) { p.x *= 4; p.y *= 4; }
        e.rings.push_back(shell);
        long x0, y0, x1, y1; bboxOf(shell, x0, y0, x1, y1);
        if (x1 - x0 < 8 || y1 - y0 < 8) continue;
        if (!gen.validElem(e)) continue;
        auto inner = gen.interiorPoints(e); if (inner.size() < 6) continue;
        int want = r.range(1, 3); int onVertex = 0, onEdge = 0, onHole = 0;
        for (int k = 0; k < 20 && (int) e.rings.size() - 1 < want; k++) {
            IPt c; int kind = (int) r.below(3);
            if (kind == 2 && e.rings.size() < 2) kind = (int) r.below(2);
            if (kind == 0) c = shell[r.below(shell.size())];
            else if (kind == 1) { size_t i = r.below(shell.size() - 1); long dx = shell[i + 1].x - shell[i].x, dy = shell[i + 1].y - shell[i].y; long g = gcdl(dx, dy);
                if (g < 2) continue; long t = r.range(1, (int) g - 1); c = IPt{shell[i].x + dx / g * t, shell[i].y + dy / g * t}; }
            else { auto& hr = e.rings[1 + r.below(e.rings.size() - 1)]; c = hr[r.below(hr.size())]; }
            // the other two corners: interior lattice points near the contact point (small holes leave room for several)
            long reach = r.range(2, 5); std::vector<IPt> near; for (auto& p : inner) if (std::labs(p.x - c.x) <= reach && std::labs(p.y - c.y) <= reach) near.push_back(p);
            if (near.size() < 2) continue;
            std::vector<IPt> ps = {c, near[r.below(near.size())], near[r.below(near.size())]};
            if (r.chance(30)) ps.push_back(near[r.below(near.size())]);
            auto hl = GridGen::hull(ps); if (hl.empty()) continue;
            bool has = false; for (auto& p : hl) if (p == c) has = true; if (!has) continue;
            gen.vary(hl, true);
            GElem t = e; t.rings.push_back(hl);
            if (gen.validElem(t)) { e = t; (kind == 0 ? onVertex : kind == 1 ? onEdge : onHole)++; } }
        if (e.rings.size() < 2) continue;
        GGeom g; g.container = 0; g.elems.push_back(e);
        if (r.chance(35)) {            // a second polygon touching the first in one point: outside the shell, or an island inside a hole
            for (int k = 0; k < 10; k++) {
                auto& rg = e.rings[r.below(e.rings.size())]; IPt c = rg[r.below(rg.size())];
                std::vector<IPt> ps = {c}; for (int j = 0; j < 2; j++) ps.push_back(IPt{c.x + r.range(-3, 3), c.y + r.range(-3, 3)});
                auto hl = GridGen::hull(ps); if (hl.empty()) continue; gen.vary(hl, true);
                GElem q; q.kind = 2; q.rings.push_back(hl); GGeom g2 = g; g2.container = 1; g2.elems.push_back(q);
                if (gen.valid(g2)) { g = g2; if (out) out->count("touch_second_polygon"); break; } } }
        if (out) { if (onVertex) out->count("touch_hole_at_shell_vertex", onVertex); if (onEdge) out->count("touch_hole_on_shell_edge", onEdge); if (onHole) out->count("touch_hole_at_hole", onHole); }
        outG = g; return true; }
    return false; }

// family L: lattice-exact input + the distance in HALF lattice units (m2 = 2 d)
inline GGeom latticeExact(GridGen& gen, Rng& r, long& m2, Out* out) {
    GGeom g; int k = (int) r.below(100);
    if (k < 45) {                      // grid points with spacing s (a filled 2x2 block encloses a pocket when d = s/2)
        long s = r.range(1, 3); int w = r.range(2, 4), h = r.range(1, 4); int fill = r.range(60, 100);
        g.container = 1;
        for (int i = 0; i < w; i++) for (int j = 0; j < h; j++) if (r.chance(fill)) { GElem e; e.kind = 0; e.rings.push_back({IPt{i * s, j * s}}); g.elems.push_back(e); }
        if (g.elems.size() < 2) { g.elems.clear(); for (int i = 0; i < 2; i++) for (int j = 0; j < 2; j++) { GElem e; e.kind = 0; e.rings.push_back({IPt{i * s, j * s}}); g.elems.push_back(e); } }
        m2 = r.chance(75) ? s : r.range(1, 4);
        if (r.chance(25)) { gen.span = 4; GGeom x = gen.geom(r.chance(50) ? 1 : 2, false, false); GGeom c; c.container = 2; c.elems = g.elems; for (auto& e : x.elems) c.elems.push_back(e); g = c; if (out) out->count("lattice_points_plus_element"); }
        else if (out) out->count("lattice_points"); }
    else { gen.span = r.range(3, 6); g = gen.geom(k < 70 ? 1 : k < 90 ? 2 : 3, true, false); m2 = r.range(1, 4); if (out) out->count("lattice_geometry"); }
    return g; }

// does a vertex belong to two different rings of one polygon of the (polygonal) result?  (the outline touches itself in a vertex)
inline long ringContacts(const Geometry* g) {
    long n = 0;
    for (size_t i = 0; i < g->getNumGeometries(); i++) {
        auto p = dynamic_cast<const Polygon*>(g->getGeometryN(i)); if (!p || p->isEmpty()) continue;
        std::map<std::pair<uint64_t, uint64_t>, size_t> seen;
        auto add = [&](const LinearRing* lr, size_t idx) { auto cs = lr->getCoordinatesRO();
            for (size_t k = 0; k + 1 < cs->size(); k++) { auto key = std::make_pair(bits(cs->getAt(k).x), bits(cs->getAt(k).y)); auto it = seen.find(key);
                if (it == seen.end()) seen[key] = idx; else if (it->second != idx) n++; } };
        add(p->getExteriorRing(), 0);
        for (size_t h = 0; h < p->getNumInteriorRing(); h++) add(p->getInteriorRingN(h), h + 1); }
    return n; }

} // namespace vh
