// Shared helpers for correspondence harnesses: PRNG, exact double <-> hex, case/expect writers.
#pragma once
#include <cstdint>
#include <cstdio>
#include <cstdlib>
#include <cstring>
#include <cmath>
#include <string>
#include <vector>
#include <map>
#include <algorithm>
#include <sstream>

namespace vh {

struct Rng {
    uint64_t s;
    // the seed is passed through the splitmix finalizer so that seeds n and n+1 give unrelated streams
    // (the raw state advances by a constant, so un-mixed consecutive seeds would be the same stream shifted)
    static uint64_t mix(uint64_t z) {
        z += 0x9E3779B97F4A7C15ULL;
        z = (z ^ (z >> 30)) * 0xBF58476D1CE4E5B9ULL;
        z = (z ^ (z >> 27)) * 0x94D049BB133111EBULL;
        return z ^ (z >> 31);
    }
    explicit Rng(uint64_t seed) : s(mix(mix(seed) ^ 0x5DEECE66DULL)) {}
    uint64_t next() {
        uint64_t z = (s += 0x9E3779B97F4A7C15ULL);
        z = (z ^ (z >> 30)) * 0xBF58476D1CE4E5B9ULL;
        z = (z ^ (z >> 27)) * 0x94D049BB133111EBULL;
        return z ^ (z >> 31);
    }
    // uniform in [0,n)
    uint64_t below(uint64_t n) { return n ? next() % n : 0; }
    int range(int lo, int hi) { return lo + (int) below((uint64_t)(hi - lo + 1)); }
    bool chance(int pct) { return (int) below(100) < pct; }
    double unit() { return (double)(next() >> 11) * (1.0 / 9007199254740992.0); }
};

inline uint64_t bits(double d) { uint64_t u; std::memcpy(&u, &d, 8); return u; }
inline double frombits(uint64_t u) { double d; std::memcpy(&d, &u, 8); return d; }
inline std::string hex(double d) { char b[20]; std::snprintf(b, sizeof b, "%016llx", (unsigned long long) bits(d)); return b; }
inline std::string hexbytes(const unsigned char* p, size_t n) {
    static const char* H = "0123456789abcdef"; std::string s; s.reserve(2 * n);
    for (size_t i = 0; i < n; i++) { s.push_back(H[p[i] >> 4]); s.push_back(H[p[i] & 15]); } return s;
}

struct Out {
    FILE* cases; FILE* expect; size_t n = 0;
    std::map<std::string, long> stat;
    explicit Out(const std::string& base) {
        cases = std::fopen((base + ".cases").c_str(), "w");
        expect = std::fopen((base + ".expect").c_str(), "w");
        if (!cases || !expect) { std::perror("open"); std::exit(3); }
    }
    void emit(const std::string& c, const std::string& e) {
        std::fputs(c.c_str(), cases); std::fputc('\n', cases);
        std::fputs(e.c_str(), expect); std::fputc('\n', expect); n++;
    }
    void count(const std::string& k, long v = 1) { stat[k] += v; }
    ~Out() {
        std::fclose(cases); std::fclose(expect);
        for (auto& kv : stat) std::printf("STAT %s=%ld\n", kv.first.c_str(), kv.second);
        std::printf("STAT cases=%zu\n", n);
    }
};

} // namespace vh
