// C06 correspondence harness: buffers / offset curves of generated valid inputs, fillet counting, parameter handling.
//   c06 buffer <seed> <n> <outbase>     one GEOSBuffer* / GEOSOffsetCurve / GEOSSingleSidedBuffer call per case
//   c06 contact <seed> <n> <outbase>    same calls on inputs whose buffer outline touches itself in single noded vertices (c06contact.h)
//   c06 rings <seed> <n> <outbase>      ring assembly (MaximalEdgeRing / MinimalEdgeRing / PolygonBuilder) called directly on noded lattice arrangements
//   c06 fillet <seed> <n> <outbase>     raw offset curve of a two-segment line: number of fillet vertices
//   c06 params <seed> <n> <outbase>     accept/reject + stored / effective parameters through the C API
//   c06 replay <file>                   re-runs the call of each "B | input | parameters ..." line, prints "case ## expect"
#include "gridgen.h"
#include "c06contact.h"
#include "c06rings.h"
#include <geos/operation/buffer/BufferParameters.h>
#include <geos/operation/buffer/OffsetCurve.h>
#include <geos/algorithm/Angle.h>
#include <cstdarg>
#include <fstream>
#include <iostream>
#include <climits>
#include <functional>
using namespace vh;
using geos::operation::buffer::BufferParameters;

static void notice(const char*, ...) {}
static void errorh(const char*, ...) {}

// general similarity with double coefficients
struct DX { double a = 1, b = 0, c = 0, d = 1, tx = 0, ty = 0;
    void apply(const IPt& p, double& x, double& y) const { x = a * (double) p.x + b * (double) p.y + tx; y = c * (double) p.x + d * (double) p.y + ty; } };
static std::string seqTokD(const std::vector<IPt>& ps, const DX& t) {
    std::string s = "xy " + std::to_string(ps.size());
    for (auto& p : ps) { double x, y; t.apply(p, x, y); s += " " + hex(x) + " " + hex(y); } return s; }
static std::string elemTokD(const GElem& e, const DX& t) {
    if (e.kind == 0) return e.empty ? "P xy 0" : "P " + seqTokD(e.rings[0], t);
    if (e.kind == 1) return e.empty ? "L xy 0" : "L " + seqTokD(e.rings[0], t);
    if (e.empty) return "Y 1 xy 0";
    std::string s = "Y " + std::to_string(e.rings.size()); for (auto& rg : e.rings) s += " " + seqTokD(rg, t); return s; }
static std::string geomTokD(const GGeom& g, const DX& t) {
    if (g.container == 0) return "0 " + elemTokD(g.elems[0], t);
    std::string tag = "GC";
    if (g.container == 1) tag = g.elems.empty() ? "GC" : (g.elems[0].kind == 0 ? "MP" : g.elems[0].kind == 1 ? "ML" : "MY");
    std::string s = "0 " + tag + " " + std::to_string(g.elems.size());
    for (auto& e : g.elems) s += " " + elemTokD(e, t); return s; }

static std::vector<std::string> splitBar(const std::string& line) { std::vector<std::string> parts; size_t p = 0;
    while (true) { size_t q = line.find(" | ", p); if (q == std::string::npos) { parts.push_back(line.substr(p)); break; } parts.push_back(line.substr(p, q - p)); p = q + 3; } return parts; }

struct Par { std::string mode = "buf"; int api = 0; double d = 1; int q = 8, cap = 1, join = 1; double mitre = 5.0; int ss = 0, left = 1, pv = 1; };

static std::string parTok(const Par& p) {
    return "mode=" + p.mode + " api=" + std::to_string(p.api) + " d=" + hex(p.d) + " q=" + std::to_string(p.q) + " cap=" + std::to_string(p.cap) + " join=" + std::to_string(p.join) +
           " mitre=" + hex(p.mitre) + " ss=" + std::to_string(p.ss) + " left=" + std::to_string(p.left) + " pv=" + std::to_string(p.pv); }

static bool parsePar(const std::string& s, Par& p) {
    std::istringstream is(s); std::string t;
    while (is >> t) { size_t k = t.find('='); if (k == std::string::npos) continue; std::string key = t.substr(0, k), v = t.substr(k + 1);
        try {
            if (key == "mode") p.mode = v; else if (key == "api") p.api = std::stoi(v); else if (key == "d") p.d = frombits(std::stoull(v, nullptr, 16));
            else if (key == "q") p.q = std::stoi(v); else if (key == "cap") p.cap = std::stoi(v); else if (key == "join") p.join = std::stoi(v);
            else if (key == "mitre") p.mitre = frombits(std::stoull(v, nullptr, 16)); else if (key == "ss") p.ss = std::stoi(v);
            else if (key == "left") p.left = std::stoi(v); else if (key == "pv") p.pv = std::stoi(v);
        } catch (...) { return false; } }
    return true; }

// the call itself
static GEOSGeometry* call(GEOSContextHandle_t h, const GEOSGeometry* g, const Par& p) {
    if (p.mode == "oc") return GEOSOffsetCurve_r(h, g, p.d, p.q, p.join, p.mitre);
    if (p.mode == "ssb") return GEOSSingleSidedBuffer_r(h, g, p.d, p.q, p.join, p.mitre, p.left);
    if (p.api == 0) return GEOSBuffer_r(h, g, p.d, p.q);
    if (p.api == 1) return GEOSBufferWithStyle_r(h, g, p.d, p.q, p.cap, p.join, p.mitre);
    GEOSBufferParams* bp = GEOSBufferParams_create_r(h);
    GEOSBufferParams_setQuadrantSegments_r(h, bp, p.q); GEOSBufferParams_setEndCapStyle_r(h, bp, p.cap); GEOSBufferParams_setJoinStyle_r(h, bp, p.join);
    GEOSBufferParams_setMitreLimit_r(h, bp, p.mitre); GEOSBufferParams_setSingleSided_r(h, bp, p.ss);
    GEOSGeometry* r = GEOSBufferWithParams_r(h, g, bp, p.d); GEOSBufferParams_destroy_r(h, bp); return r; }

// polygons of g form a valid MultiPolygon (interiors pairwise disjoint)?
static int polysValid(GEOSContextHandle_t h, const Geometry* g) {
    std::vector<std::unique_ptr<Geometry>> ps;
    std::function<void(const Geometry*)> walk = [&](const Geometry* x) {
        if (x->getGeometryTypeId() == geos::geom::GEOS_POLYGON) { if (!x->isEmpty()) ps.push_back(x->clone()); return; }
        if (x->getNumGeometries() > 1 || x->getGeometryTypeId() >= geos::geom::GEOS_MULTIPOINT) for (size_t i = 0; i < x->getNumGeometries(); i++) walk(x->getGeometryN(i)); };
    walk(g);
    if (ps.size() <= 1) return 1;
    auto mp = g->getFactory()->createMultiPolygon(std::move(ps));
    return GEOSisValid_r(h, (GEOSGeometry*) mp.get()) == 1 ? 1 : 0; }

static size_t nCoords(const Geometry* g) { return g->getNumPoints(); }

// run one case: returns the full case line
static std::string runCase(GEOSContextHandle_t h, const std::string& tin, const Geometry* g, Par p, Out* out) {
    p.pv = polysValid(h, g);
    GEOSGeometry* r = call(h, (const GEOSGeometry*) g, p);
    std::string st, tres;
    if (!r) { st = "st=null valid=0"; tres = "0 GC 0"; if (out) out->count("result_null"); }
    else {
        int v = GEOSisValid_r(h, r);
        st = std::string("st=ok valid=") + (v == 1 ? "1" : "0");
        tres = dumpGeom((Geometry*) r);
        if (out) { out->count(std::string("result_") + ((Geometry*) r)->getGeometryType() + (((Geometry*) r)->isEmpty() ? "_empty" : ""));
            size_t n = nCoords((Geometry*) r); out->count(n < 20 ? "result_pts_lt20" : n < 100 ? "result_pts_lt100" : n < 500 ? "result_pts_lt500" : "result_pts_ge500");
            if (((Geometry*) r)->getGeometryTypeId() == geos::geom::GEOS_POLYGON && ((Polygon*) r)->getNumInteriorRing() > 0) out->count("result_has_holes");
            if (ringContacts((Geometry*) r) > 0) out->count("result_outline_touches_itself"); }
        GEOSGeom_destroy_r(h, r); }
    return "B | " + tin + " | " + parTok(p) + " | " + st + " | " + tres; }

// polygon with one or two holes: the grid generator rarely produces holes, so build them here: a shell scaled by 4 and
// small rings placed inside it, accepted when GEOS calls the polygon valid
static bool holedPolygon(GridGen& gen, Rng& r, GElem& outE) {
    for (int tries = 0; tries < 16; tries++) {
        GElem e; e.kind = 2; auto shell = gen.ring(); for (auto& p : shell) { p.x *= 4; p.y *= 4; }
        e.rings.push_back(shell);
        long x0 = shell[0].x, x1 = x0, y0 = shell[0].y, y1 = y0; for (auto& p : shell) { x0 = std::min(x0, p.x); x1 = std::max(x1, p.x); y0 = std::min(y0, p.y); y1 = std::max(y1, p.y); }
        if (x1 - x0 < 4 || y1 - y0 < 4) continue;
        int want = r.range(1, 2);
        for (int k = 0; k < 12 && (int) e.rings.size() - 1 < want; k++) {
            int saved = gen.span; gen.span = r.range(1, 3); auto h = gen.ring(); gen.span = saved;
            int sc = r.range(1, 3); long ox = r.range((int) x0, (int) x1), oy = r.range((int) y0, (int) y1);
            for (auto& p : h) { p.x = p.x * sc + ox; p.y = p.y * sc + oy; }
            GElem t = e; t.rings.push_back(h);
            if (gen.validElem(t)) e = t; }
        if (e.rings.size() > 1) { outE = e; return true; } }
    return false; }

static double pick(Rng& r, std::initializer_list<double> l) { auto it = l.begin(); std::advance(it, r.below(l.size())); return *it; }

int main(int argc, char** argv) {
    if (argc < 3) return 2;
    std::string stream = argv[1];
    GEOSContextHandle_t h = GEOS_init_r(); GEOSContext_setNoticeHandler_r(h, notice); GEOSContext_setErrorHandler_r(h, errorh);
    auto gf = GeometryFactory::getDefaultInstance();
    if (stream == "replay") {
        std::ifstream f(argv[2]); std::string line;
        while (std::getline(f, line)) { if (line.empty()) continue; auto parts = splitBar(line);
            if (parts.size() >= 3 && parts[0] == "B") {
                Par p; if (!parsePar(parts[2], p)) { std::cout << "invalid\n"; continue; }
                std::string tin = parts[1];
                if (tin.rfind("WKT ", 0) == 0) { GEOSGeometry* w = GEOSGeomFromWKT_r(h, tin.substr(4).c_str()); if (!w) { std::cout << "invalid\n"; continue; } tin = dumpGeom((Geometry*) w); GEOSGeom_destroy_r(h, w); }
                std::unique_ptr<Geometry> g; try { g = buildGeom(tin, gf); } catch (...) { std::cout << "invalid\n"; continue; }
                if (GEOSisValid_r(h, (GEOSGeometry*) g.get()) != 1) { std::cout << "invalid\n"; continue; }
                std::cout << runCase(h, tin, g.get(), p, nullptr) << " ## ok\n"; }
            else std::cout << "invalid\n"; }
        GEOS_finish_r(h); return 0; }
    if (argc < 5) return 2;
    uint64_t seed = std::stoull(argv[2]); long n = std::stol(argv[3]); Out out(argv[4]); Rng r(seed);

    if (stream == "buffer") {
        GridGen gen(r, h, &out);
        for (long i = 0; i < n; i++) {
            gen.span = r.chance(60) ? 6 : (r.chance(50) ? 3 : 12);
            gen.setPartner(GGeom{}, 0);
            Par p; bool nested = false;
            int mode = (int) r.below(100);
            GGeom A;
            if (mode < 80) { p.mode = "buf"; int k = (int) r.below(100); A = gen.geom(k < 12 ? 0 : k < 40 ? 1 : k < 75 ? 2 : 3, true, true);
                if (k >= 40 && k < 58) { GElem e; if (holedPolygon(gen, r, e)) { A = GGeom{}; A.container = 0; A.elems.push_back(e); out.count("holed_polygon"); } }
                if (r.chance(5)) {   // nested frames (or their rings as concentric closed lines): the result has shells inside holes of other shells
                    A = gen.nestedFrames(); nested = true;
                    if (r.chance(40)) { GGeom L; L.container = 1; for (auto& e : A.elems) for (auto& rg : e.rings) { GElem l; l.kind = 1; l.rings.push_back(rg); L.elems.push_back(l); } A = L; out.count("concentric_closed_lines"); } } }
            else if (mode < 86) { p.mode = "buf"; p.ss = 1; bool multi = r.chance(55); A = gen.geom(1, multi, false);          // single-sided through BufferParams: lineal input,
                if (multi) out.count("singlesided_multipart_input"); }                                    // more often than not with several parts (their one-sided buffers are unioned)
            else if (mode < 95) { p.mode = "oc"; A.container = 0; A.elems.push_back(r.chance(70) ? gen.line() : gen.polygon()); }      // the offset curve is defined per element: single elements only
            else { p.mode = "ssb"; A.container = 0; A.elems.push_back(gen.line()); }
            // arbitrary-double similarity: rotation, scale 1e-3..1e6, moderate offset
            DX t; double mag = std::pow(10.0, r.range(-3, 5) + r.unit()); double th = r.chance(20) ? 0.0 : r.unit() * 6.283185307179586;
            t.a = mag * std::cos(th); t.b = -mag * std::sin(th); t.c = mag * std::sin(th); t.d = mag * std::cos(th);
            if (th == 0.0) { t.b = 0; t.c = 0; }
            bool lineal = p.mode != "buf" || p.ss;      // single-sided buffers / offset curves: keep |d| well above the coordinate resolution
            double off = r.chance(35) ? 0.0 : mag * std::pow(10.0, r.range(0, lineal ? 1 : 4)); t.tx = off * (r.unit() - 0.5) * 2; t.ty = off * (r.unit() - 0.5) * 2;
            std::string tin = geomTokD(A, t);
            std::unique_ptr<Geometry> g;
            try { g = buildGeom(tin, gf); } catch (...) { out.count("build_rejected"); continue; }
            if (GEOSisValid_r(h, (GEOSGeometry*) g.get()) != 1) { out.count("invalid_skipped"); continue; }
            if (g->isEmpty()) { out.count("empty_skipped"); continue; }
            const Envelope* env = g->getEnvelopeInternal();
            double size = std::max(env->getWidth(), env->getHeight()); if (!(size > 0)) size = mag;
            // distance: 1e-6 .. 1e3 times the input size, both signs
            double rel = std::pow(10.0, r.range(-6, 2) + r.unit());
            if (r.chance(50)) rel = std::pow(10.0, r.range(-2, 0) + r.unit());            // the interesting middle range more often
            if (lineal && rel < 1e-3) rel = std::pow(10.0, -3.0 * r.unit());
            if (nested) rel = 0.004 + 0.02 * r.unit();          // small enough for the frames to stay apart
            p.d = size * rel;
            bool hasPoly = g->getDimension() == 2;
            if (p.mode == "buf" && !p.ss) {
                if (hasPoly ? r.chance(40) : r.chance(6)) { if (r.chance(75)) rel = std::pow(10.0, -3.0 * r.unit() * r.unit() - 0.5); p.d = -size * rel; }   // erosion: mostly distances that leave something
                if (hasPoly && r.chance(4)) p.d = 0.0; }
            else if (p.mode == "ssb") { p.left = r.chance(50) ? 1 : 0; }
            else if (r.chance(50)) p.d = -p.d;
            // quadrant segments
            { int k = (int) r.below(100); p.q = k < 55 ? r.range(1, 32) : k < 75 ? 8 : k < 85 ? r.range(1, 5) : k < 92 ? r.range(6, 7) : k < 96 ? r.range(33, 64) : r.range(-3, 0); }
            if (p.mode == "buf") {
                p.api = p.ss ? 2 : (int) r.below(3);
                if (p.api > 0) { p.cap = r.range(1, 3); p.join = r.chance(50) ? 1 : r.range(2, 3); p.mitre = pick(r, {5.0, 1.0, 2.0, 10.0, 0.5, 1.5, 3.0}); if (r.chance(10)) p.mitre = 0.25 + 8 * r.unit(); }
            } else { p.join = r.chance(60) ? 1 : r.range(2, 3); p.mitre = pick(r, {5.0, 1.0, 2.0, 10.0}); }
            { FILE* cf = std::fopen((std::string(argv[4]) + ".current").c_str(), "w"); if (cf) { std::fprintf(cf, "B | %s | %s\n", tin.c_str(), parTok(p).c_str()); std::fclose(cf); } }
            size_t before = nCoords(g.get());
            std::string line = runCase(h, tin, g.get(), p, &out);
            out.count(std::string("in_") + g->getGeometryType());
            out.count("mode_" + p.mode + (p.ss ? "_singlesided" : ""));
            out.count(p.d > 0 ? "d_positive" : p.d < 0 ? "d_negative" : "d_zero");
            { double lr = std::log10(rel); out.count(lr < -4 ? "drel_1e-6..1e-4" : lr < -2 ? "drel_1e-4..1e-2" : lr < 0 ? "drel_1e-2..1" : lr < 1 ? "drel_1..10" : "drel_10..1e3"); }
            out.count(p.q < 1 ? "q_lt1" : p.q <= 5 ? "q_1..5" : p.q <= 7 ? "q_6..7" : p.q == 8 ? "q_8" : p.q <= 32 ? "q_9..32" : "q_gt32");
            if (p.mode == "buf" && p.api > 0) { out.count("cap_" + std::to_string(p.cap)); out.count("join_" + std::to_string(p.join)); }
            if (p.mode == "buf") out.count("api_" + std::to_string(p.api));
            out.count(before < 6 ? "in_pts_lt6" : before < 15 ? "in_pts_lt15" : "in_pts_ge15");
            if (th == 0.0) out.count("axis_parallel");
            if (line.size() > 400000) { out.count("skipped_big"); continue; }
            out.emit(line, "ok");
        }
    }
    else if (stream == "contact") {
        // every case: an input whose buffer outline touches itself in single vertices for the distance chosen (families T and L of
        // c06contact.h); same calls and the same case lines as stream `buffer`
        GridGen gen(r, h, &out);
        for (long i = 0; i < n; i++) {
            gen.span = r.chance(60) ? 6 : (r.chance(50) ? 3 : 12);
            gen.setPartner(GGeom{}, 0);
            Par p; p.mode = "buf"; std::string tin; double size = 1, rel = 1; bool famT = r.chance(45);
            if (famT) {
                GGeom A; if (!touchingRings(gen, r, A, &out)) { out.count("touch_generation_failed"); continue; }
                // arbitrary-double similarity (the shared vertices stay bit-identical: they are the same lattice point)
                DX t; double mag = std::pow(10.0, r.range(-3, 5) + r.unit()); double th = r.chance(30) ? 0.0 : r.unit() * 6.283185307179586;
                t.a = mag * std::cos(th); t.b = -mag * std::sin(th); t.c = mag * std::sin(th); t.d = mag * std::cos(th);
                if (th == 0.0) { t.b = 0; t.c = 0; out.count("axis_parallel"); }
                double off = r.chance(35) ? 0.0 : mag * std::pow(10.0, r.range(0, 3)); t.tx = off * (r.unit() - 0.5) * 2; t.ty = off * (r.unit() - 0.5) * 2;
                tin = geomTokD(A, t);
                long x0, y0, x1, y1; bboxOf(A.elems[0].rings[0], x0, y0, x1, y1); size = mag * (double) std::max(x1 - x0, y1 - y0);
                int k = (int) r.below(100);
                if (k < 60) p.d = 0.0;
                else { rel = std::pow(10.0, r.range(-5, -2) + r.unit()); p.d = (k < 80 ? 1 : -1) * size * rel; }
                out.count("family_touching_rings"); }
            else {
                long m2 = 1; GGeom A = latticeExact(gen, r, m2, &out);
                Xform t; t.sym = (int) r.below(8); if (r.chance(50)) { t.tx = r.range(-1000, 1000); t.ty = r.range(-1000, 1000); } t.k = r.chance(50) ? 0 : r.range(-10, 10);
                tin = GridGen::geomTok(A, t);
                p.d = std::ldexp((double) m2 / 2.0, t.k);
                bool hasPoly = false; for (auto& e : A.elems) if (e.kind == 2 && !e.empty) hasPoly = true;
                if (hasPoly && r.chance(35)) p.d = -p.d;
                out.count("family_lattice_exact"); }
            std::unique_ptr<Geometry> g;
            try { g = buildGeom(tin, gf); } catch (...) { out.count("build_rejected"); continue; }
            if (GEOSisValid_r(h, (GEOSGeometry*) g.get()) != 1) { out.count("invalid_skipped"); continue; }
            if (g->isEmpty()) { out.count("empty_skipped"); continue; }
            { int k = (int) r.below(100); p.q = k < 40 ? 8 : k < 90 ? r.range(1, 32) : r.range(1, 5); }
            p.api = (int) r.below(3);
            if (p.api > 0) { p.cap = r.chance(70) ? 1 : r.range(1, 3); p.join = r.chance(70) ? 1 : r.range(2, 3); p.mitre = pick(r, {5.0, 1.0, 2.0, 10.0}); }
            { FILE* cf = std::fopen((std::string(argv[4]) + ".current").c_str(), "w"); if (cf) { std::fprintf(cf, "B | %s | %s\n", tin.c_str(), parTok(p).c_str()); std::fclose(cf); } }
            std::string line = runCase(h, tin, g.get(), p, &out);
            out.count(std::string("in_") + g->getGeometryType());
            out.count(p.d > 0 ? "d_positive" : p.d < 0 ? "d_negative" : "d_zero");
            out.count(p.q <= 5 ? "q_1..5" : p.q <= 7 ? "q_6..7" : p.q == 8 ? "q_8" : "q_9..32");
            if (p.api > 0) { out.count("cap_" + std::to_string(p.cap)); out.count("join_" + std::to_string(p.join)); }
            if (line.size() > 400000) { out.count("skipped_big"); continue; }
            out.emit(line, "ok");
        }
    }
    else if (stream == "rings") {
        GridGen gen(r, h, &out);
        for (long i = 0; i < n; i++) {
            gen.span = r.chance(60) ? 6 : (r.chance(50) ? 3 : 12);
            gen.setPartner(GGeom{}, 0);
            GGeom A; int k = (int) r.below(100);
            if (k < 60) { if (!touchingRings(gen, r, A, &out)) { out.count("touch_generation_failed"); continue; } out.count("arr_touching_rings"); }
            else if (k < 85) { A = gen.geom(2, false, false); out.count("arr_grid_polygons"); }
            else { A = gen.nestedFrames(); out.count("arr_nested_frames"); }
            if (!gen.valid(A)) { out.count("invalid_skipped"); continue; }
            int cut = (int) r.below(3); out.count("cut_" + std::to_string(cut));
            auto es = nodedEdges(A, cut, r, &out);
            if (es.empty()) { out.count("empty_skipped"); continue; }
            out.count(es.size() < 8 ? "edges_lt8" : es.size() < 20 ? "edges_lt20" : "edges_ge20");
            // the arrangement itself travels along (part `T ...`, ignored by the model) so that the check can replay it as buffer(input, 0)
            out.emit(edgesTok(es) + " | T " + GridGen::geomTok(A, Xform{}), ringsDirect(es, gf, &out) + " | " + ringsBuilder(es, gf, &out));
        }
    }
    else if (stream == "fillet") {
        using geos::operation::buffer::OffsetCurve; using geos::algorithm::Angle;
        for (long i = 0; i < n; i++) {
            int q; { int k = (int) r.below(100); q = k < 70 ? r.range(1, 32) : k < 85 ? r.range(33, 100) : r.range(-2, 0); }
            int qe = q < 1 ? 1 : q; double quantum = Angle::PI_OVER_2 / qe;
            // turn angle (right turn = outside turn for the left offset)
            double turn; { int k = (int) r.below(100);
                if (k < 40) turn = 0.02 + r.unit() * 3.10;
                else if (k < 70) turn = quantum * (r.range(1, 2 * qe) + (r.chance(50) ? 0.5 : 0.0)) + (r.unit() - 0.5) * 1e-3 * quantum;      // near the rounding boundaries
                else if (k < 85) turn = quantum * (0.5 + r.unit());                                                                               // one-segment fillets: the 1.5·quantum supremum
                else turn = quantum * r.unit() * 0.6; }
            if (!(turn > 0.02 && turn < 3.12)) { out.count("angle_out_of_range"); continue; }
            double dir0 = r.unit() * 6.283185307179586, l0 = 1 + 20 * r.unit(), l1 = 1 + 20 * r.unit(), mag = std::pow(10.0, r.range(-2, 4));
            double bx = (r.unit() - 0.5) * 100 * mag, by = (r.unit() - 0.5) * 100 * mag;
            CoordinateSequence cs; cs.add(Coordinate(bx - l0 * mag * std::cos(dir0), by - l0 * mag * std::sin(dir0))); cs.add(Coordinate(bx, by));
            double dir1 = dir0 - turn; cs.add(Coordinate(bx + l1 * mag * std::cos(dir1), by + l1 * mag * std::sin(dir1)));
            auto ls = gf->createLineString(std::move(cs));
            double d = mag * std::pow(10.0, r.range(-2, 0) + r.unit());
            BufferParameters bp; bp.setQuadrantSegments(q);
            std::unique_ptr<CoordinateSequence> raw;
            try { raw = OffsetCurve::rawOffsetCurve(*ls, d, bp); } catch (...) { out.count("raw_failed"); continue; }
            // rawOffsetCurve returns start, end-of-first-offset, fillet vertices, start-of-second-offset, end, and (OffsetSegmentString::getCoordinates
            // closes every list) the start point again
            if (!raw || raw->size() < 5 || !(raw->getAt(0) == raw->getAt(raw->size() - 1))) { out.count("raw_collapsed"); continue; }
            // the code's own arithmetic on the points it was given: p = corner, p0 = end of first offset, p1 = start of second offset
            const Coordinate& c = ls->getCoordinatesRO()->getAt(1);
            const Coordinate& p0 = raw->getAt(1); const Coordinate& p1 = raw->getAt(raw->size() - 3);
            double startAngle = std::atan2(p0.y - c.y, p0.x - c.x), endAngle = std::atan2(p1.y - c.y, p1.x - c.x);
            if (startAngle <= endAngle) startAngle += Angle::PI_TIMES_2;         // CLOCKWISE
            double total = std::fabs(startAngle - endAngle);
            double tq = total / quantum;
            long interior = (long) raw->size() - 5;
            out.count(interior == 0 ? "interior_0" : interior < 4 ? "interior_1..3" : interior < 16 ? "interior_4..15" : "interior_ge16");
            out.count(q < 1 ? "q_lt1" : q <= 32 ? "q_1..32" : "q_gt32");
            if (tq >= 0.5 && tq < 1.5) out.count("one_segment_fillet");
            // also report the largest angular gap actually present (in millionths of the quantum) as a distribution statistic
            out.emit("F " + hex(tq), std::to_string(interior));
        }
    }
    else if (stream == "params") {
        auto rint = [&]() -> int { static const int sp[] = {INT_MIN, -7, -1, 0, 1, 2, 3, 4, 5, 8, 16, 100, INT_MAX}; return r.chance(70) ? sp[r.below(13)] : r.range(-3, 40); };
        auto rsmallq = [&]() -> int { return r.chance(20) ? r.range(-3, 0) : r.range(1, 40); };
        auto rstyle = [&]() -> int { static const int sp[] = {INT_MIN, -7, -1, 0, 1, 2, 3, 4, 5, 100, INT_MAX}; return r.chance(40) ? sp[r.below(11)] : r.range(0, 4); };
        auto rmitre = [&]() -> double { switch (r.below(12)) { case 0: return std::numeric_limits<double>::quiet_NaN(); case 1: return INFINITY; case 2: return -INFINITY; case 3: return -1.0; case 4: return 0.0;
            case 5: return 5.0; case 6: return 1.0; case 7: return 1.3; case 8: return 1.5; case 9: return 2.0; case 10: return 10.0; default: { double v; do { v = r.unit() * 4; } while (std::fabs(v - 1.41421356) < 1e-3); return v; } } };
        GEOSGeometry* pt = GEOSGeomFromWKT_r(h, "POINT(3 4)");
        GEOSGeometry* sqr = GEOSGeomFromWKT_r(h, "POLYGON((0 0,10 0,10 10,0 10,0 0))");
        GEOSGeometry* ell = GEOSGeomFromWKT_r(h, "LINESTRING(0 0,10 0,10 10)");
        auto npts = [&](GEOSGeometry* g) -> std::string { if (!g) return "x"; std::string s = std::to_string(((Geometry*) g)->getNumPoints()); GEOSGeom_destroy_r(h, g); return s; };
        auto corner = [&](GEOSGeometry* g, long base, long div) -> std::string { if (!g) return "x"; long k = (long) ((Geometry*) g)->getNumPoints(); GEOSGeom_destroy_r(h, g); return std::to_string((k - base) / div); };
        for (long i = 0; i < n; i++) {
            int kind = (int) r.below(100);
            if (kind < 40) {                // setter sequence on an object
                GEOSBufferParams* bp = GEOSBufferParams_create_r(h); std::string cs = "S", codes; int k = r.range(0, 6);
                for (int j = 0; j < k; j++) { int rc = 0;
                    switch (r.below(5)) { case 0: { int v = rint(); rc = GEOSBufferParams_setQuadrantSegments_r(h, bp, v); cs += " | q " + std::to_string(v); break; }
                        case 1: { int v = rstyle(); rc = GEOSBufferParams_setEndCapStyle_r(h, bp, v); cs += " | c " + std::to_string(v); break; }
                        case 2: { int v = rstyle(); rc = GEOSBufferParams_setJoinStyle_r(h, bp, v); cs += " | j " + std::to_string(v); break; }
                        case 3: { double v = rmitre(); rc = GEOSBufferParams_setMitreLimit_r(h, bp, v); cs += " | m " + hex(v); break; }
                        default: { int v = r.chance(50) ? r.range(-2, 2) : rint(); rc = GEOSBufferParams_setSingleSided_r(h, bp, v); cs += " | s " + std::to_string(v); } }
                    codes += rc == 1 ? '1' : '0'; }
                const BufferParameters* b = (const BufferParameters*) bp;
                std::string stored = std::to_string(b->getQuadrantSegments()) + " " + std::to_string((int) b->getEndCapStyle()) + " " + std::to_string((int) b->getJoinStyle()) + " " + hex(b->getMitreLimit()) + " " + (b->isSingleSided() ? "1" : "0");
                std::string probes = "-";
                if (!b->isSingleSided() && b->getQuadrantSegments() <= 64) {
                    probes = npts(GEOSBufferWithParams_r(h, pt, bp, 1.0)) + " " + corner(GEOSBufferWithParams_r(h, sqr, bp, 1.0), 1, 4); out.count("setters_probed"); }
                GEOSBufferParams_destroy_r(h, bp);
                out.count("kind_setters"); out.emit(cs, codes + " | " + stored + " | probes " + probes);
            } else if (kind < 65) {
                int q = rsmallq(), cap = rstyle(), join = rstyle(); double m = rmitre();
                GEOSGeometry* a = GEOSBufferWithStyle_r(h, pt, 1.0, q, cap, join, m);
                std::string e; if (!a) { e = "rej"; out.count("withstyle_rejected"); } else { e = "ok " + npts(a) + " " + corner(GEOSBufferWithStyle_r(h, sqr, 1.0, q, cap, join, m), 1, 4); }
                out.count("kind_withstyle"); out.emit("W " + std::to_string(q) + " " + std::to_string(cap) + " " + std::to_string(join) + " " + hex(m), e);
            } else if (kind < 75) {
                int q = rsmallq(); GEOSGeometry* a = GEOSBuffer_r(h, pt, 1.0, q);
                std::string e = !a ? "rej" : "ok " + npts(a) + " " + corner(GEOSBuffer_r(h, sqr, 1.0, q), 1, 4);
                out.count("kind_buffer"); out.emit("G " + std::to_string(q), e);
            } else if (kind < 88) {
                int q = rsmallq(), join = rstyle(); double m = rmitre();
                GEOSGeometry* a = GEOSOffsetCurve_r(h, ell, -1.0, q, join, m);
                std::string e = !a ? "null" : "ok " + corner(a, 2, 1);
                out.count("kind_offsetcurve"); out.emit("O " + std::to_string(q) + " " + std::to_string(join) + " " + hex(m), e);
            } else {
                int q = rsmallq(), join = rstyle(), left = r.chance(50) ? r.range(-1, 1) : rint(); double m = rmitre();
                GEOSGeometry* a = GEOSSingleSidedBuffer_r(h, ell, 1.0, q, join, m, left);
                std::string e;
                if (!a) e = "null";
                else { const Geometry* gg = (const Geometry*) a; auto cs = gg->getCoordinates(); bool isLeft = false; for (size_t k = 0; k < cs->size(); k++) if (cs->getAt(k).y > 0.5 && cs->getAt(k).x < 9.5) isLeft = true;
                    e = isLeft ? "ok L" : "ok R " + std::to_string((long) cs->size() - 2); GEOSGeom_destroy_r(h, a); }
                out.count("kind_singlesided"); out.emit("D " + std::to_string(q) + " " + std::to_string(join) + " " + hex(m) + " " + std::to_string(left), e);
            }
        }
        GEOSGeom_destroy_r(h, pt); GEOSGeom_destroy_r(h, sqr); GEOSGeom_destroy_r(h, ell);
    }
    else return 2;
    GEOS_finish_r(h); return 0;
}
