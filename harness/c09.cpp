// C09 correspondence harness: WKB / HEX writer and reader of the library built from the current tree.
//   wkb-write            generated GTrees x every writer configuration, through GEOSWKBWriter_* and the
//                        context-level legacy functions; expect = HEX of the bytes GEOS wrote
//   wkb-read             valid encodings, structure-aware mutations, random bytes, HEX text;
//                        expect = "err" | "crash" (caught SIGSEGV) | dumped tree (reader object and legacy function must agree)
//   wkb-roundtrip        write then read inside GEOS; expect = dumped re-read tree (the driver prints what the
//   wkb-roundtrip-mixed  property promises for the input); -mixed uses components of differing dimensions
//   replay <file>        lines "<stream> <case>" -> prints "<expect>" per line
// Every case line is self-contained: expect is a function of the case line only (see evalCase).
#include "gtree.h"
#include <geos_c.h>
#include <csetjmp>
#include <csignal>
#include <cstdarg>
#include <fstream>
#include <iostream>

using namespace vh;

static GEOSContextHandle_t H;
static void quiet(const char*, ...) {}

static sigjmp_buf g_jmp; static volatile sig_atomic_t g_armed = 0; static long g_crashes = 0;
static void on_segv(int sig) { if (g_armed) { g_armed = 0; siglongjmp(g_jmp, 1); } std::signal(sig, SIG_DFL); std::raise(sig); }

static std::string HEXUP(const unsigned char* p, size_t n) {
    static const char* T = "0123456789ABCDEF"; std::string s; s.reserve(2 * n);
    for (size_t i = 0; i < n; i++) { s.push_back(T[p[i] >> 4]); s.push_back(T[p[i] & 15]); } return s;
}
static bool unhex(const std::string& h, std::vector<unsigned char>& out) {
    if (h.size() % 2) return false; out.clear();
    auto v = [](char c) -> int { if (c >= '0' && c <= '9') return c - '0'; if (c >= 'a' && c <= 'f') return c - 'a' + 10; if (c >= 'A' && c <= 'F') return c - 'A' + 10; return -1; };
    for (size_t i = 0; i < h.size(); i += 2) { int a = v(h[i]), b = v(h[i + 1]); if (a < 0 || b < 0) return false; out.push_back((unsigned char)(a * 16 + b)); }
    return true;
}

struct WCfg { int dims; int order; int flavor; int srid; };     // order: 0 be / 1 le ; flavor: 1 ext / 2 iso
static std::string cfgToks(const WCfg& c) {
    return std::to_string(c.dims) + (c.order ? " le " : " be ") + (c.flavor == 1 ? "ext " : "iso ") + std::to_string(c.srid);
}
static bool parseCfg(const std::vector<std::string>& t, size_t& p, WCfg& c) {
    if (t.size() < p + 4) return false;
    c.dims = std::stoi(t[p]); c.order = (t[p + 1] == "le"); c.flavor = (t[p + 2] == "ext") ? 1 : 2; c.srid = std::stoi(t[p + 3]); p += 4; return true;
}
static std::string joinFrom(const std::vector<std::string>& t, size_t p) { std::string s; for (size_t i = p; i < t.size(); i++) { if (i > p) s += ' '; s += t[i]; } return s; }

// ---- writing through the C API.  api: W / WH = writer object (binary / HEX), L / LH = context-level legacy functions
static bool writeGeos(const std::string& api, const WCfg& c, const Geometry* g, std::vector<unsigned char>& bytes, std::string& hexText) {
    size_t sz = 0; unsigned char* buf = nullptr;
    bool hex = (api == "WH" || api == "LH");
    if (api[0] == 'W') {
        GEOSWKBWriter* w = GEOSWKBWriter_create_r(H);
        GEOSWKBWriter_setOutputDimension_r(H, w, c.dims);
        GEOSWKBWriter_setByteOrder_r(H, w, c.order);
        GEOSWKBWriter_setFlavor_r(H, w, c.flavor);
        GEOSWKBWriter_setIncludeSRID_r(H, w, (char) c.srid);
        buf = hex ? GEOSWKBWriter_writeHEX_r(H, w, (const GEOSGeometry*) g, &sz) : GEOSWKBWriter_write_r(H, w, (const GEOSGeometry*) g, &sz);
        GEOSWKBWriter_destroy_r(H, w);
    } else {
        GEOS_setWKBOutputDims_r(H, c.dims); GEOS_setWKBByteOrder_r(H, c.order);
        buf = hex ? GEOSGeomToHEX_buf_r(H, (const GEOSGeometry*) g, &sz) : GEOSGeomToWKB_buf_r(H, (const GEOSGeometry*) g, &sz);
    }
    if (!buf) return false;
    if (hex) { hexText.assign((const char*) buf, sz); if (!unhex(hexText, bytes)) { GEOSFree_r(H, buf); return false; } }
    else { bytes.assign(buf, buf + sz); hexText = HEXUP(buf, sz); }
    GEOSFree_r(H, buf);
    return true;
}

// ---- reading through the C API, guarded.  returns dump or "err"
static std::string dumpOrErr(GEOSGeometry* g) { if (!g) return "err"; std::string d = dumpGeom((const Geometry*) g); GEOSGeom_destroy_r(H, g); return d; }
static std::string readGeos(int path, const unsigned char* p, size_t n, const std::string* hexText) {
    // path 0: reader object, 1: legacy.  hexText != null: HEX entry points
    g_armed = 1;
    if (sigsetjmp(g_jmp, 1)) { g_crashes++; return "crash"; }   // SIGSEGV/SIGBUS inside the library: a result the model never predicts -> reported as a violation
    GEOSGeometry* g = nullptr;
    if (path == 0) {
        GEOSWKBReader* r = GEOSWKBReader_create_r(H);
        g = hexText ? GEOSWKBReader_readHEX_r(H, r, (const unsigned char*) hexText->data(), hexText->size()) : GEOSWKBReader_read_r(H, r, p, n);
        GEOSWKBReader_destroy_r(H, r);
    } else {
        g = hexText ? GEOSGeomFromHEX_buf_r(H, (const unsigned char*) hexText->data(), hexText->size()) : GEOSGeomFromWKB_buf_r(H, p, n);
    }
    g_armed = 0;
    return dumpOrErr(g);
}

static const GeometryFactory* GF() { return GeometryFactory::getDefaultInstance(); }

// ---------------------------------------------------------------- evaluation of one case line
static std::string evalWrite(const std::vector<std::string>& t) {
    size_t p = 1; WCfg c; if (t.empty() || !parseCfg(t, p, c)) return "bad-case";
    std::unique_ptr<Geometry> g;
    try { g = buildGeom(joinFrom(t, p), GF()); } catch (std::exception&) { return "reject"; }
    std::vector<unsigned char> b; std::string hx;
    if (!writeGeos(t[0], c, g.get(), b, hx)) return "write-failed";
    return hx;
}

// one writer object, two geometries in a row, then its settings read back: the writer's configuration must not depend on what it wrote
static std::string evalWriteSeq(const std::vector<std::string>& t) {
    size_t p = 1; WCfg c; if (t.empty() || !parseCfg(t, p, c)) return "bad-case";
    size_t sep = p; while (sep < t.size() && t[sep] != ";;") sep++; if (sep >= t.size()) return "bad-case";
    std::vector<std::string> ta(t.begin() + (long) p, t.begin() + (long) sep), tb(t.begin() + (long) sep + 1, t.end());
    std::unique_ptr<Geometry> ga, gb;
    try { ga = buildGeom(joinFrom(ta, 0), GF()); gb = buildGeom(joinFrom(tb, 0), GF()); } catch (std::exception&) { return "reject"; }
    bool hex = t[0] == "WH";
    GEOSWKBWriter* w = GEOSWKBWriter_create_r(H);
    GEOSWKBWriter_setOutputDimension_r(H, w, c.dims); GEOSWKBWriter_setByteOrder_r(H, w, c.order); GEOSWKBWriter_setFlavor_r(H, w, c.flavor); GEOSWKBWriter_setIncludeSRID_r(H, w, (char) c.srid);
    std::string out;
    for (const Geometry* g : {ga.get(), gb.get()}) { size_t sz = 0;
        unsigned char* buf = hex ? GEOSWKBWriter_writeHEX_r(H, w, (const GEOSGeometry*) g, &sz) : GEOSWKBWriter_write_r(H, w, (const GEOSGeometry*) g, &sz);
        if (!buf) { out += "write-failed "; continue; }
        if (hex) { std::string hx((const char*) buf, sz); for (auto& ch : hx) ch = (char) std::toupper((unsigned char) ch); out += hx + " "; } else out += HEXUP(buf, sz) + " ";
        GEOSFree_r(H, buf); }
    out += "s=" + std::to_string((int) GEOSWKBWriter_getIncludeSRID_r(H, w)) + " d=" + std::to_string(GEOSWKBWriter_getOutputDimension_r(H, w)) +
           " o=" + std::to_string(GEOSWKBWriter_getByteOrder_r(H, w)) + " f=" + std::to_string(GEOSWKBWriter_getFlavor_r(H, w));
    GEOSWKBWriter_destroy_r(H, w);
    return out;
}

static std::string evalRead(const std::vector<std::string>& t) {
    if (t.empty()) return "bad-case";
    std::string payload = t.size() > 1 ? t[1] : "";
    if (t[0] == "B") {
        std::vector<unsigned char> b; if (!unhex(payload, b)) return "bad-case";
        static unsigned char dummy = 0;
        const unsigned char* p = b.empty() ? &dummy : b.data();
        std::string a = readGeos(0, p, b.size(), nullptr), l = readGeos(1, p, b.size(), nullptr);
        return a == l ? a : "api-mismatch[" + a + "][" + l + "]";
    }
    if (t[0] == "H") {
        std::string a = readGeos(0, nullptr, 0, &payload), l = readGeos(1, nullptr, 0, &payload);
        return a == l ? a : "api-mismatch[" + a + "][" + l + "]";
    }
    return "bad-case";
}

static uint64_t fnv(const std::string& s) { uint64_t h = 1469598103934665603ULL; for (unsigned char c : s) { h ^= c; h *= 1099511628211ULL; } return h; }

static std::string evalRoundtrip(const std::vector<std::string>& t, const std::string& line) {
    size_t p = 0; WCfg c; if (!parseCfg(t, p, c)) return "bad-case";
    std::unique_ptr<Geometry> g;
    try { g = buildGeom(joinFrom(t, p), GF()); } catch (std::exception&) { return "reject"; }
    uint64_t h = fnv(line);
    bool legacyOK = (c.flavor == 1 && c.srid == 0);
    bool hex = (h & 1); bool legW = legacyOK && (h & 2); int rpath = (h & 4) ? 1 : 0;
    std::string api = std::string(legW ? "L" : "W") + (hex ? "H" : "");
    std::vector<unsigned char> b; std::string hx;
    if (!writeGeos(api, c, g.get(), b, hx)) return "write-failed";
    std::string back = hex ? readGeos(rpath, nullptr, 0, &hx) : readGeos(rpath, b.data(), b.size(), nullptr);
    if (back == "err" || back == "crash") return back;
    // re-writing the re-read geometry must reproduce the bytes
    g_armed = 0;
    GEOSGeometry* g2 = hex ? GEOSGeomFromHEX_buf_r(H, (const unsigned char*) hx.data(), hx.size()) : GEOSGeomFromWKB_buf_r(H, b.data(), b.size());
    if (!g2) return "err-second-read";
    std::vector<unsigned char> b2; std::string hx2;
    bool ok = writeGeos(api, c, (const Geometry*) g2, b2, hx2);
    GEOSGeom_destroy_r(H, g2);
    if (!ok) return back + " REWRITE-FAILED";
    if (b2 != b) return back + " REWRITE-DIFFERS";
    // the other byte order must decode to the same tree
    WCfg c2 = c; c2.order = 1 - c.order; std::vector<unsigned char> b3; std::string hx3;
    if (!writeGeos(api, c2, g.get(), b3, hx3)) return back + " OTHER-ORDER-WRITE-FAILED";
    std::string back3 = readGeos(rpath, b3.data(), b3.size(), nullptr);
    if (back3 != back) return back + " OTHER-ORDER-DIFFERS";
    return back;
}

static std::string evalCase(const std::string& stream, const std::string& line) {
    auto t = splitToks(line);
    if (stream == "wkb-write") return evalWrite(t);
    if (stream == "wkb-write-seq") return evalWriteSeq(t);
    if (stream == "wkb-read") return evalRead(t);
    if (stream == "wkb-roundtrip" || stream == "wkb-roundtrip-mixed") return evalRoundtrip(t, line);
    return "unknown-stream";
}

// ---------------------------------------------------------------- structure walker over a *valid* encoding (offsets of fields)
struct Arc { size_t off; uint32_t n; size_t cs; };
struct Fields { std::vector<size_t> order, type, count, srid; std::vector<Arc> arcs; };
struct Walker {
    const std::vector<unsigned char>& b; Fields& f; bool ok = true;
    Walker(const std::vector<unsigned char>& bb, Fields& ff) : b(bb), f(ff) {}
    uint32_t u32(size_t p, bool le) { if (p + 4 > b.size()) { ok = false; return 0; }
        return le ? (uint32_t) b[p] | ((uint32_t) b[p + 1] << 8) | ((uint32_t) b[p + 2] << 16) | ((uint32_t) b[p + 3] << 24)
                  : (uint32_t) b[p + 3] | ((uint32_t) b[p + 2] << 8) | ((uint32_t) b[p + 1] << 16) | ((uint32_t) b[p] << 24); }
    size_t geom(size_t p) {
        if (!ok || p >= b.size()) { ok = false; return p; }
        bool le = b[p] == 1; f.order.push_back(p); p++;
        uint32_t t = u32(p, le); f.type.push_back(p); p += 4;
        uint32_t code = (t & 0xffff) % 1000, rng = (t & 0xffff) / 1000;
        bool z = (t & 0x80000000u) || rng == 1 || rng == 3, m = (t & 0x40000000u) || rng == 2 || rng == 3;
        if (t & 0x20000000u) { f.srid.push_back(p); p += 4; }
        size_t cs = 16 + (z ? 8 : 0) + (m ? 8 : 0);
        switch (code) {
        case 1: return p + cs;
        case 2: case 8: { uint32_t n = u32(p, le); f.count.push_back(p); if (code == 8 && n >= 3 && p + 4 + (size_t) n * cs <= b.size()) f.arcs.push_back({p + 4, n, cs}); return p + 4 + (size_t) n * cs; }
        case 3: { uint32_t n = u32(p, le); f.count.push_back(p); p += 4;
                  for (uint32_t i = 0; i < n && ok; i++) { uint32_t k = u32(p, le); f.count.push_back(p); p += 4 + (size_t) k * cs; } return p; }
        case 4: case 5: case 6: case 7: case 9: case 10: case 11: case 12: {
                  uint32_t n = u32(p, le); f.count.push_back(p); p += 4;
                  for (uint32_t i = 0; i < n && ok; i++) p = geom(p); return p; }
        default: ok = false; return p; }
    }
};

static void put32(std::vector<unsigned char>& b, size_t p, uint32_t v, bool le) {
    if (p + 4 > b.size()) return;
    for (int i = 0; i < 4; i++) b[p + (le ? i : 3 - i)] = (unsigned char)(v >> (8 * i));
}

// one mutation of a valid encoding; returns a label
static std::string mutate(Rng& r, std::vector<unsigned char>& b, bool le) {
    Fields f; Walker w(b, f); w.geom(0);
    switch (r.below(14)) {
    case 12: case 13: if (!f.arcs.empty()) {   // X/Y of a circular-string point: values on which the arc-envelope arithmetic of the constructor may throw
                const Arc& a = f.arcs[r.below(f.arcs.size())]; size_t i = r.below(a.n), xy = r.below(2); size_t q = a.off + i * a.cs + 8 * xy; double v;
                switch (r.below(9)) { case 0: v = INFINITY; break; case 1: v = -INFINITY; break; case 2: v = std::numeric_limits<double>::quiet_NaN(); break;
                    case 3: v = std::ldexp(1.0 + r.unit(), r.range(500, 1023)) * (r.chance(50) ? 1 : -1); break; case 4: v = std::ldexp(1.0 + r.unit(), -r.range(500, 1070)); break;
                    case 5: v = 0.0; break; case 6: v = std::numeric_limits<double>::max(); break;
                    default: { size_t j = r.below(a.n); uint64_t u = 0; for (int k = 0; k < 8; k++) u |= (uint64_t) b[a.off + j * a.cs + 8 * xy + (le ? k : 7 - k)] << (8 * k); v = frombits(u);
                               size_t q2 = a.off + i * a.cs + 8 * (1 - xy), s2 = a.off + j * a.cs + 8 * (1 - xy); if (r.chance(70)) for (int k = 0; k < 8; k++) b[q2 + k] = b[s2 + k]; } }
                uint64_t u = bits(v); for (int k = 0; k < 8; k++) b[q + (le ? k : 7 - k)] = (unsigned char)(u >> (8 * k));
                return "mut_arc_xy"; } break;
    case 0: if (!f.type.empty()) { size_t p = f.type[r.below(f.type.size())]; uint32_t t = w.u32(p, le);
                uint32_t nc = (uint32_t) r.range(0, 14); uint32_t hi = t & 0xffff0000u; uint32_t rng = (t & 0xffff) / 1000;
                put32(b, p, hi | (rng * 1000 + nc), le); return "mut_type_code"; } break;
    case 1: if (!f.type.empty()) { size_t p = f.type[r.below(f.type.size())]; uint32_t t = w.u32(p, le);
                static const uint32_t bits[] = {0x80000000u, 0x40000000u, 0x20000000u, 0x10000000u, 0x00010000u, 0x08000000u};
                put32(b, p, t ^ bits[r.below(6)], le); return "mut_flag_bit"; } break;
    case 2: if (!f.type.empty()) { size_t p = f.type[r.below(f.type.size())]; uint32_t t = w.u32(p, le);
                uint32_t code = (t & 0xffff) % 1000; uint32_t hi = t & 0xffff0000u;
                put32(b, p, hi | (((uint32_t) r.range(0, 65)) * 1000 + code) % 65536, le); return "mut_iso_range"; } break;
    case 3: if (!f.count.empty()) { size_t p = f.count[r.below(f.count.size())]; uint32_t n = w.u32(p, le);
                static const int d[] = {-1, 1, 2, -2}; uint32_t v = r.chance(30) ? 0 : n + (uint32_t) d[r.below(4)];
                put32(b, p, v, le); return "mut_count_small"; } break;
    case 4: if (!f.count.empty()) { size_t p = f.count[r.below(f.count.size())];
                // counts around the reader's size guard: remaining / unit, +-1
                size_t rem = b.size() - (p + 4); static const size_t units[] = {4, 9, 16, 21, 24, 32};
                size_t u = units[r.below(6)]; uint32_t v = (uint32_t)(rem / u) + (uint32_t) r.range(-1, 1);
                put32(b, p, v, le); return "mut_count_guard"; } break;
    case 5: if (!f.count.empty()) { size_t p = f.count[r.below(f.count.size())];
                static const uint32_t big[] = {0xffffffffu, 0x80000000u, 0x7fffffffu, 0x10000000u, 65536u, 1000000u};
                put32(b, p, big[r.below(6)], le); return "mut_count_big"; } break;
    case 6: if (!b.empty()) { size_t k = r.below(b.size() + 1); b.resize(k); return "mut_truncate"; } break;
    case 7: if (!f.count.empty()) { size_t p = f.count[r.below(f.count.size())]; size_t k = p + r.below(6); if (k < b.size()) b.resize(k); return "mut_truncate_field"; } break;
    case 8: if (!f.order.empty()) { size_t p = f.order[r.below(f.order.size())];
                b[p] = r.chance(50) ? (unsigned char)(1 - (b[p] & 1)) : (unsigned char) r.range(2, 255); return "mut_order_byte"; } break;
    case 9: { int k = r.range(1, 4); for (int i = 0; i < k && !b.empty(); i++) b[r.below(b.size())] ^= (unsigned char)(1u << r.below(8)); return "mut_bitflips"; }
    case 10: { int k = r.range(1, 24); for (int i = 0; i < k; i++) b.push_back((unsigned char) r.below(256)); return "mut_trailing"; }
    default: if (!f.count.empty()) {   // make a coordinate of a ring / section differ: break closure / contiguity
                size_t p = f.count[r.below(f.count.size())] + 4; if (p + 8 <= b.size()) { b[p + r.below(8)] ^= 0x10; return "mut_first_ordinate"; } } break;
    }
    if (!b.empty()) b[r.below(b.size())] ^= 0xff;
    return "mut_byte";
}

// hand-made byte strings that sit exactly on the reader's guards
static std::vector<std::vector<unsigned char>> guardCorpus() {
    std::vector<std::vector<unsigned char>> v;
    auto hdr = [](uint32_t type, uint32_t n) { std::vector<unsigned char> b{1}; for (int i = 0; i < 4; i++) b.push_back((unsigned char)(type >> (8 * i))); for (int i = 0; i < 4; i++) b.push_back((unsigned char)(n >> (8 * i))); return b; };
    static const uint32_t types[] = {2, 3, 4, 5, 6, 7, 8, 9, 10, 11, 12};
    static const size_t units[] = {16, 4, 21, 9, 9, 9, 16, 9, 4, 9, 9};
    for (int i = 0; i < 11; i++) for (uint32_t n = 0; n <= 3; n++) for (int d = -1; d <= 1; d++) {
        long len = (long) n * (long) units[i] + d; if (len < 0) continue;
        auto b = hdr(types[i], n); b.resize(b.size() + (size_t) len, 0); v.push_back(b);
    }
    // the witness families of Props/C11.lean: d nested collections around a point; k nested over-claiming collections
    auto put = [](std::vector<unsigned char>& b, uint32_t x) { for (int i = 0; i < 4; i++) b.push_back((unsigned char)(x >> (8 * i))); };
    for (int d : {1, 2, 3, 50, 500, 3000}) { std::vector<unsigned char> b;
        for (int i = 0; i < d; i++) { b.push_back(1); put(b, 7); put(b, 1); }
        b.push_back(1); put(b, 1); for (int i = 0; i < 6; i++) b.push_back(0); b.push_back(0xf0); b.push_back(0x3f); for (int i = 0; i < 7; i++) b.push_back(0); b.push_back(0x40);
        v.push_back(b); }
    for (int k : {1, 2, 3, 5, 50, 400}) { std::vector<unsigned char> b;
        for (int j = k; j >= 1; j--) { b.push_back(1); put(b, 7); put(b, (uint32_t)(j - 1)); }
        v.push_back(b); }
    return v;
}

static std::string hexCase(Rng& r, const std::vector<unsigned char>& b) {
    static const char* U = "0123456789ABCDEF"; static const char* L = "0123456789abcdef";
    int mode = (int) r.below(3); std::string s;
    for (unsigned char c : b) { const char* T = mode == 0 ? U : mode == 1 ? L : (r.chance(50) ? U : L); s.push_back(T[c >> 4]); s.push_back(T[c & 15]); }
    return s;
}

int main(int argc, char** argv) {
    H = GEOS_init_r(); GEOSContext_setNoticeHandler_r(H, quiet); GEOSContext_setErrorHandler_r(H, quiet);
    struct sigaction sa; std::memset(&sa, 0, sizeof sa); sa.sa_handler = on_segv; sa.sa_flags = SA_NODEFER; sigaction(SIGSEGV, &sa, nullptr); sigaction(SIGBUS, &sa, nullptr);
    if (argc >= 3 && std::string(argv[1]) == "replay") {
        std::ifstream in(argv[2]); std::string line;
        while (std::getline(in, line)) { if (line.empty()) continue; size_t sp = line.find(' '); std::string st = line.substr(0, sp), cs = sp == std::string::npos ? "" : line.substr(sp + 1);
            std::cout << evalCase(st, cs) << "\n"; }
        return 0;
    }
    if (argc < 5) { std::fprintf(stderr, "usage: c09 <stream> <seed> <n> <outbase> | c09 replay <file>\n"); return 2; }
    std::string stream = argv[1]; uint64_t seed = std::stoull(argv[2]); long n = std::stol(argv[3]);
    { Out out(argv[4]); Rng r(seed);
    GenCfg plain; GenCfg mixed; mixed.mixedDims = true; GenCfg deep; deep.maxDepth = 5; deep.maxPts = 4;
    GTreeGen gp(r, plain, &out), gm(r, mixed, &out), gd(r, deep, &out);
    auto genLine = [&](int mixPct) -> std::string {
        for (;;) { std::string line = r.chance(mixPct) ? gm.geom() : (r.chance(15) ? gd.geom() : gp.geom());
            try { auto g = buildGeom(line, GF()); (void) g; return line; } catch (std::exception&) { out.count("gen_rejected_by_constructor"); } } };
    // shapes the shared generator never makes but the constructors accept (each is a documented or suspected deviation)
    auto special = [&]() -> std::string {
        auto nanv = [&]() { switch (r.below(4)) { case 0: return std::string("7ff8000000000000"); case 1: return std::string("fff8000000000000");
                                                   case 2: return std::string("7ff8000000000001"); default: return hex(frombits(0x7ff0000000000000ULL | (r.next() & 0xfffffffffffffULL) | 1ULL)); } };
        std::string g;
        switch (r.below(5)) {
        case 0: { bool z = r.chance(50), m = r.chance(50); g = "P " + GTreeGen::flags(z, m) + " 1 " + nanv() + " " + nanv(); if (z) g += " " + hex(gp.ord()); if (m) g += " " + hex(gp.ord()); out.count("special_nan_point"); break; }
        case 1: g = r.chance(50) ? "K 1 L xy 0" : "K 1 C xyz 0"; out.count("special_compound_empty_section"); break;
        case 2: g = "Y 2 xy 0 xy 0"; out.count("special_empty_polygon_with_hole"); break;
        case 3: g = "U 2 L xyz 0 C xy 0"; out.count("special_empty_curvepolygon"); break;
        default: g = "U 1 C xym 0"; out.count("special_empty_curvepolygon"); break; }
        switch (r.below(4)) { case 0: break; case 1: g = "GC 2 P xy 1 3ff0000000000000 4000000000000000 " + g; break;
                              case 2: g = "GC 2 " + g + " P xy 0"; break; default: g = "GC 1 GC 1 " + g; break; }
        return std::to_string(r.chance(50) ? 0 : r.range(1, 9999)) + " " + g; };
    auto randCfg = [&]() { WCfg c; c.dims = r.range(2, 4); c.order = (int) r.below(2); c.flavor = r.chance(50) ? 1 : 2; c.srid = (int) r.below(2); return c; };

    if (stream == "wkb-write") {
        for (long i = 0; i < n; i++) {
            std::string line = genLine(30);
            for (int d = 2; d <= 4; d++) for (int o = 0; o < 2; o++) for (int f = 1; f <= 2; f++) for (int s = 0; s < 2; s++) {
                WCfg c{d, o, f, s}; std::string api = r.chance(50) ? "W" : "WH";
                std::string cs = api + " " + cfgToks(c) + " " + line; out.emit(cs, evalCase(stream, cs)); out.count("api_" + api);
            }
            for (int k = 0; k < 2; k++) { WCfg c{r.range(2, 4), (int) r.below(2), 1, 0}; std::string api = r.chance(50) ? "L" : "LH";
                std::string cs = api + " " + cfgToks(c) + " " + line; out.emit(cs, evalCase(stream, cs)); out.count("api_" + api); }
        }
    } else if (stream == "wkb-write-seq") {
        for (long i = 0; i < n; i++) {
            std::string a = r.chance(60) ? special() : genLine(20), b = genLine(20);
            WCfg c = randCfg(); if (r.chance(60)) c.srid = 1; std::string api = r.chance(50) ? "W" : "WH";
            std::string cs = api + " " + cfgToks(c) + " " + a + " ;; " + b; out.emit(cs, evalCase(stream, cs)); out.count("api_" + api); out.count(c.srid ? "include_srid" : "no_srid");
        }
    } else if (stream == "wkb-read") {
        for (auto& cb : guardCorpus()) { std::string cs = "B " + HEXUP(cb.data(), cb.size()); std::string e = evalCase(stream, cs); out.emit(cs, e);
            out.count("src_guard_corpus"); out.count(e == "err" ? "result_err" : "result_ok"); }
        for (long i = 0; i < n; i++) {
            std::vector<unsigned char> b; std::string label; bool le = true;
            int kind = (int) r.below(100);
            if (kind < 10) { int len = r.range(0, 40); for (int k = 0; k < len; k++) b.push_back((unsigned char) r.below(256));
                if (len > 0 && r.chance(70)) b[0] = (unsigned char) r.below(2);
                if (len > 4 && r.chance(70)) { bool l = b[0] == 1; uint32_t t = (uint32_t) r.range(0, 13) + (r.chance(30) ? 1000u * (uint32_t) r.range(0, 3) : 0) ; if (r.chance(30)) t |= 0x80000000u; put32(b, 1, t, l); }
                label = "src_random_bytes"; }
            else {
                std::string line = genLine(25); WCfg c = randCfg(); le = c.order == 1;
                auto g = buildGeom(line, GF()); std::string hx; if (!writeGeos("W", c, g.get(), b, hx)) continue;
                if (kind < 40) label = "src_valid";
                else { label = mutate(r, b, le); if (r.chance(25)) label = mutate(r, b, le) + "+2"; }
            }
            std::string cs;
            if (r.chance(20)) { std::string hx = hexCase(r, b);
                if (r.chance(15) && !hx.empty()) { if (r.chance(50)) { hx.pop_back(); out.count("hex_odd_length"); } else { static const char bad[] = "gGxz#:@/`"; hx[r.below(hx.size())] = bad[r.below(9)]; out.count("hex_bad_char"); } }
                cs = "H " + hx; out.count("entry_hex"); }
            else { cs = "B " + HEXUP(b.data(), b.size()); out.count("entry_binary"); }
            std::string e = evalCase(stream, cs); out.emit(cs, e);
            out.count(label); out.count(e == "err" ? "result_err" : e == "crash" ? "result_crash" : "result_ok"); out.count(std::string(e == "err" ? "err_" : "ok_") + label);
        }
    } else if (stream == "wkb-roundtrip" || stream == "wkb-roundtrip-mixed") {
        int mix = stream == "wkb-roundtrip" ? 0 : 100;
        for (long i = 0; i < n; i++) {
            std::string line = (mix && r.chance(6)) ? special() : genLine(mix);
            for (int k = 0; k < 3; k++) { WCfg c = randCfg(); if (k == 0) c.dims = 4;
                std::string cs = cfgToks(c) + " " + line; std::string e = evalCase(stream, cs); out.emit(cs, e);
                out.count("dims_" + std::to_string(c.dims)); if (e == "err") out.count("roundtrip_read_err"); }
        }
    } else { std::fprintf(stderr, "unknown stream %s\n", stream.c_str()); return 2; }
    out.count("crash_caught", g_crashes);
    }
    GEOS_finish_r(H);
    return 0;
}
