// C12 correspondence harness: random LEGAL C API call sequences under ASan+UBSan+LSan.
//
//   c12 api-seq <seed> <n> <outbase>      n sequences; <outbase>.cases = one observed sequence per line,
//                                         <outbase>.expect = "ok" per line (the Lean driver must agree)
//   c12 replay  <file>                    run the script lines of <file>, print the observed sequence lines
//   c12 list                              names of the entry points the generator can call
//   c12 ctor-own <seed> <n> <outbase> | replay-own <file>      the constructors that take ownership, one call per case (see c12_own.h)
//
// Every sequence runs in a forked child; the child reports each call before ("B") and after ("A") on a pipe,
// so a crash / sanitizer report / hang is attributed to the call that was running.  Legality of a sequence is
// decided by a mirror of the ownership discipline of lean/GeosModel/Model/Api/Heap.lean (live flag, owner,
// borrows); the driver re-checks every sequence against the Lean model itself.
//
// Line format (calls separated by " ; "):
//   SEQ ; <fn> <tok>… => <ret> m<0|1> R<ids|-> a<id|-> s<first:res|-> M<ids|-> O<0|1> ; … ; END <ok|leak@where:path@fn|crash:kind@where|hang@>
//   (leak: where = allocating GEOS function "<" its GEOS caller; a sequence that ends with a leak report is run a second time with every allocation
//    tagged by the running call (sanitizer malloc hook); the report then names the call `fn` that allocated the leaked object and whether that call
//    had reported an error (path = on-error-path) or returned normally (on-normal-path); outside-calls / unattributed otherwise)
//   (O1: an index argument was beyond the size of the object it indexes)
//   two more facts follow O: F<ids|-> the consumed arguments (ownership handed to GEOS) that were passed to the deallocator while the call ran
//   (sanitizer free hook; a call that is refused must have freed everything it was given), and Q<hits>:<scan>|Q- for GEOSSTRtree_query_r: the
//   number of callback invocations and the number of inserted, not removed items whose envelope intersects the query envelope (only when all
//   envelopes involved are finite or null)
//   Interruption is part of the legal API: the pseudo call `GEOS_interruptRegisterCallback i:<k>` arms the NEXT call of the sequence:
//   a callback registered with GEOS_interruptRegisterCallback counts the checkpoint polls of that call and calls GEOS_interruptRequest()
//   at the k-th one; when the call has returned the callback is unregistered and GEOS_interruptCancel() is called.  The armed call must
//   end like any other: a result, or the error value with a message; no crash, no leak, nothing else modified.
//   tok : o<id> object | a:<id,id,…> array | n NULL | d:<16 hex> double | i:<int> | s:<hex bytes> string/bytes | _ other
//   ret : p0 NULL | p1 pointer | c:<n> char | i:<n> int | d:<16 hex> | v void | X:<crash:kind|hang|oom> the call did not return
#include "common.h"
#include "gtree.h"
#include <geos_c.h>
#include <geos/geom/Surface.h>
#include <geos/operation/cluster/Clusters.h>
#include <cstdarg>
#include <cfloat>
#include <climits>
#include <csignal>
#include <functional>
#include <fstream>
#include <iostream>
#include <set>
#include <sys/types.h>
#include <sys/wait.h>
#include <sys/time.h>
#include <sys/resource.h>
#include <poll.h>
#include <unistd.h>
#include <fcntl.h>

using namespace vh;

extern "C" const char* __asan_default_options() {
    return "exitcode=86:detect_leaks=1:allocator_may_return_null=1:max_allocation_size_mb=1500:handle_abort=1:detect_stack_use_after_return=0:malloc_context_size=12";
}
extern "C" int __lsan_do_recoverable_leak_check();
extern "C" int __sanitizer_install_malloc_and_free_hooks(void (*)(const volatile void*, size_t), void (*)(const volatile void*));
// leak attribution (second pass only): every allocation is tagged with the number of the call that was running (-2: harness code between calls)
struct AllocRec { uintptr_t p; long call; };
static const size_t ATAB = (size_t) 1 << 21;
static AllocRec g_atab[ATAB]; static long g_curCall = -2; static bool g_atabOverflow = false; static bool g_tagAllocs = false;
// consumed arguments of the running call (addresses complemented, see below): did the callee hand them to the deallocator?
static uintptr_t g_watch[32]; static int g_nwatch = 0; static unsigned g_freedMask = 0;
// (addresses are stored complemented: the table must not look like a set of pointers to the leak detector)
static void allocHook(const volatile void* p, size_t) { if (!p || !g_tagAllocs) return; uintptr_t k = ~(uintptr_t) p; size_t i = (size_t) ((uintptr_t) p >> 4) & (ATAB - 1);
    for (size_t n = 0; n < 4096; n++, i = (i + 1) & (ATAB - 1)) if (g_atab[i].p == 0 || g_atab[i].p == k) { g_atab[i].p = k; g_atab[i].call = g_curCall; return; }
    g_atabOverflow = true; }
// (tagging: an address that is allocated again overwrites its entry; a leaked one is never allocated again)
static void freeHook(const volatile void* p) { if (!g_nwatch) return; uintptr_t k = ~(uintptr_t) p; for (int i = 0; i < g_nwatch; i++) if (g_watch[i] == k) g_freedMask |= 1u << i; }
static long allocCallOf(uintptr_t a) { uintptr_t k = ~a; size_t i = (size_t) (a >> 4) & (ATAB - 1); for (size_t n = 0; n < 4096; n++, i = (i + 1) & (ATAB - 1)) { if (g_atab[i].p == k) return g_atab[i].call; if (g_atab[i].p == 0) break; } return -3; }
extern "C" const char* __lsan_default_options() { return "exitcode=23:print_suppressions=0:report_objects=1"; }
extern "C" const char* __ubsan_default_options() { return "print_stacktrace=1"; }

// ----------------------------------------------------------------------------------------------- slots (mirror of the heap model)
enum K { GEOM, CS, PREP, TREE, WKTR, WKTW, WKBR, WKBW, JSONR, JSONW, BUFP, MVP, BUF, CLUSTER };

struct Slot {
    K kind; void* p; bool live; int owner; std::vector<int> borrows; std::string img;
};

struct Val {                       // one actual argument
    char k = '_';                  // o a n d i s _
    int id = -1; std::vector<int> ids; double d = 0; long i = 0; std::string s;
};

struct Ret {
    char cls = 'v'; bool null = false; long ival = 0; double dval = 0;
    std::vector<std::pair<K, void*>> objs; bool borrowed = false;
};

static int g_msgs = 0;
static void noticeh(const char*, ...) {}
static void errorh(const char*, ...) { g_msgs++; }
// interruption: the registered callback is invoked at every checkpoint poll (GEOS_CHECK_FOR_INTERRUPTS) and requests at the k-th
static long g_armK = 0, g_polls = 0, g_fired = 0;
static long g_pendingArm = 0;     // set by the pseudo call, consumed by the next call
static void interruptcb() { if (++g_polls == g_armK) { g_fired = 1; GEOS_interruptRequest(); } }

struct Ctx {
    GEOSContextHandle_t h = nullptr;
    std::vector<Slot> slots;
    GEOSGeometry* G(const Val& v) const { return v.k == 'o' ? (GEOSGeometry*) slots[v.id].p : nullptr; }
    GEOSCoordSequence* S(const Val& v) const { return v.k == 'o' ? (GEOSCoordSequence*) slots[v.id].p : nullptr; }
    void* P(const Val& v) const { return v.k == 'o' ? slots[v.id].p : nullptr; }
    std::vector<GEOSGeometry*> GA(const Val& v) const { std::vector<GEOSGeometry*> r; for (int i : v.ids) r.push_back((GEOSGeometry*) slots[i].p); return r; }
    int root(int i) const { return slots[i].owner >= 0 ? slots[i].owner : i; }
    bool borrowed(int i) const { for (auto& s : slots) if (s.live) for (int b : s.borrows) if (b == i) return true; return false; }
    bool exclOk(int i) const { return slots[i].live && slots[i].owner < 0 && !borrowed(i); }
};

static Ret rPtr(K k, void* p) { Ret r; r.cls = 'p'; r.null = !p; if (p) r.objs.push_back({k, p}); return r; }
static Ret rGeom(GEOSGeometry* g) { return rPtr(GEOM, g); }
static Ret rView(K k, const void* p) { Ret r = rPtr(k, (void*) p); r.borrowed = true; return r; }
static Ret rChar(char c) { Ret r; r.cls = 'c'; r.ival = (unsigned char) c; return r; }
static Ret rInt(long i) { Ret r; r.cls = 'i'; r.ival = i; return r; }
static Ret rDbl(double d) { Ret r; r.cls = 'd'; r.dval = d; return r; }
static Ret rVoid() { return Ret(); }

typedef std::function<Ret(Ctx&, std::vector<Val>&)> CallFn;
struct Fn { std::string name; std::vector<std::string> spec; CallFn call; int weight; std::string cat; };
static std::vector<Fn> FNS;
static std::map<std::string, int> FNIDX;

static std::vector<std::string> words(const std::string& s) { std::istringstream is(s); std::vector<std::string> v; std::string t; while (is >> t) v.push_back(t); return v; }
static void reg(const char* name, const char* spec, const char* cat, int weight, CallFn f) {
    FNIDX[name] = (int) FNS.size(); FNS.push_back(Fn{name, words(spec), f, weight, cat});
}

// spec codes -> (slot kind, mode)   mode: c const, m mut, x consume, r retain
struct PSpec { bool isObj = false, isArr = false; K kind = GEOM; char mode = 'c'; };
static PSpec pspec(const std::string& c) {
    PSpec p;
    static const std::map<std::string, std::pair<K, char>> M = {
        {"g", {GEOM, 'c'}}, {"G", {GEOM, 'm'}}, {"gX", {GEOM, 'x'}}, {"gR", {GEOM, 'r'}},
        {"cs", {CS, 'c'}}, {"csM", {CS, 'm'}}, {"csX", {CS, 'x'}},
        {"prep", {PREP, 'c'}}, {"prepX", {PREP, 'x'}}, {"tree", {TREE, 'm'}}, {"treeX", {TREE, 'x'}},
        {"wktr", {WKTR, 'm'}}, {"wktrX", {WKTR, 'x'}}, {"wktw", {WKTW, 'm'}}, {"wktwX", {WKTW, 'x'}},
        {"wkbr", {WKBR, 'm'}}, {"wkbrX", {WKBR, 'x'}}, {"wkbw", {WKBW, 'm'}}, {"wkbwc", {WKBW, 'c'}}, {"wkbwX", {WKBW, 'x'}},
        {"jr", {JSONR, 'm'}}, {"jrX", {JSONR, 'x'}}, {"jw", {JSONW, 'm'}}, {"jwX", {JSONW, 'x'}},
        {"bp", {BUFP, 'm'}}, {"bpc", {BUFP, 'c'}}, {"bpX", {BUFP, 'x'}}, {"mvp", {MVP, 'm'}}, {"mvpc", {MVP, 'c'}}, {"mvpX", {MVP, 'x'}},
        {"bufX", {BUF, 'x'}}, {"item", {GEOM, 'r'}}, {"ci", {CLUSTER, 'c'}}, {"ciX", {CLUSTER, 'x'}} };
    auto it = M.find(c);
    if (it != M.end()) { p.isObj = true; p.kind = it->second.first; p.mode = it->second.second; return p; }
    if (c == "g?") { p.isObj = true; p.kind = GEOM; p.mode = 'c'; return p; }
    if (c == "gA") { p.isObj = p.isArr = true; p.kind = GEOM; p.mode = 'c'; return p; }
    if (c == "gZ") { p.isObj = p.isArr = true; p.kind = GEOM; p.mode = 'x'; return p; }
    return p;
}

// ----------------------------------------------------------------------------------------------- literal pools
static const char* WKT_POOL[] = {
    // ordinary
    "POINT (1 2)", "POINT (0 0)", "LINESTRING (0 0, 10 10)", "LINESTRING (0 10, 10 0, 5 5)", "LINEARRING (0 0, 4 0, 4 4, 0 0)",
    "LINEARRING (1 1, 2 1, 2 2, 1 1)", "POLYGON ((0 0, 10 0, 10 10, 0 10, 0 0))", "POLYGON ((0 0, 10 0, 10 10, 0 10, 0 0), (2 2, 4 2, 4 4, 2 4, 2 2))",
    "POLYGON ((5 5, 15 5, 15 15, 5 15, 5 5))", "MULTIPOINT ((0 0), (5 5), (10 0))", "MULTILINESTRING ((0 0, 5 5), (5 5, 10 0), (0 5, 10 5))",
    "MULTIPOLYGON (((0 0, 3 0, 3 3, 0 3, 0 0)), ((5 5, 8 5, 8 8, 5 8, 5 5)))", "GEOMETRYCOLLECTION (POINT (1 1), LINESTRING (0 0, 2 2), POLYGON ((0 0, 1 0, 1 1, 0 0)))",
    "GEOMETRYCOLLECTION (GEOMETRYCOLLECTION (POINT (3 3)), MULTIPOINT ((1 1), (2 2)))", "POINT Z (1 2 3)", "POINT M (1 2 4)", "POINT ZM (1 2 3 4)",
    "LINESTRING Z (0 0 1, 5 5 2, 10 0 3)", "LINESTRING M (0 0 1, 10 10 2)", "POLYGON Z ((0 0 1, 4 0 1, 4 4 1, 0 0 1))",
    // empty at any level
    "POINT EMPTY", "LINESTRING EMPTY", "LINEARRING EMPTY", "POLYGON EMPTY", "MULTIPOINT EMPTY", "MULTILINESTRING EMPTY", "MULTIPOLYGON EMPTY",
    "GEOMETRYCOLLECTION EMPTY", "POINT Z EMPTY", "LINESTRING ZM EMPTY", "GEOMETRYCOLLECTION (POINT EMPTY)", "MULTIPOINT (EMPTY, (1 1))",
    "MULTIPOLYGON (EMPTY, ((0 0, 1 0, 1 1, 0 0)))", "MULTILINESTRING (EMPTY, (0 0, 1 1))", "GEOMETRYCOLLECTION (LINESTRING EMPTY, POLYGON EMPTY, GEOMETRYCOLLECTION EMPTY)",
    "GEOMETRYCOLLECTION (GEOMETRYCOLLECTION (GEOMETRYCOLLECTION EMPTY))", "CIRCULARSTRING EMPTY", "COMPOUNDCURVE EMPTY", "CURVEPOLYGON EMPTY", "MULTICURVE EMPTY", "MULTISURFACE EMPTY",
    // non-finite ordinates
    "POINT (NaN NaN)", "POINT (Inf 0)", "POINT (0 -Inf)", "LINESTRING (0 0, NaN 1)", "LINESTRING (0 0, Inf Inf)", "LINESTRING (-Inf 0, Inf 0)",
    "POLYGON ((0 0, 1 0, NaN NaN, 0 0))", "POLYGON ((0 0, Inf 0, 0 Inf, 0 0))", "MULTIPOINT ((NaN 0), (1 1))", "LINESTRING Z (0 0 NaN, 1 1 Inf)",
    "GEOMETRYCOLLECTION (POINT (NaN NaN), LINESTRING (0 0, 1 1))", "LINEARRING (0 0, NaN 0, 1 1, 0 0)",
    // invalid topology
    "POLYGON ((0 0, 2 2, 2 0, 0 2, 0 0))", "POLYGON ((0 0, 4 0, 4 4, 0 4, 0 0), (10 10, 11 10, 11 11, 10 10))", "POLYGON ((0 0, 4 0, 4 4, 0 4, 0 0), (0 0, 4 0, 4 4, 0 4, 0 0))",
    "MULTIPOLYGON (((0 0, 2 0, 2 2, 0 2, 0 0)), ((1 1, 3 1, 3 3, 1 3, 1 1)))", "POLYGON ((0 0, 1 0, 0 0, 0 0))", "POLYGON ((0 0, 4 0, 4 4, 2 4, 2 8, 2 4, 0 4, 0 0))",
    "LINEARRING (0 0, 2 2, 2 0, 0 2, 0 0)", "POLYGON ((0 0, 10 0, 10 10, 0 10, 0 0), (5 0, 6 5, 4 5, 5 0))",
    // zero length / single point components
    "LINESTRING (1 1, 1 1)", "LINESTRING (0 0, 0 0, 0 0)", "MULTILINESTRING ((0 0, 0 0), (1 1, 2 2))", "POLYGON ((1 1, 1 1, 1 1, 1 1))", "MULTIPOINT ((1 1))",
    "GEOMETRYCOLLECTION (POINT (1 1))", "MULTILINESTRING ((0 0, 1 1))", "MULTIPOLYGON (((0 0, 0 0, 0 0, 0 0)))", "LINEARRING (3 3, 3 3, 3 3, 3 3)",
    // curved
    "CIRCULARSTRING (0 0, 1 1, 2 0)", "CIRCULARSTRING (0 0, 1 1, 2 0, 3 -1, 4 0)", "CIRCULARSTRING (0 0, 0 0, 0 0)", "COMPOUNDCURVE (CIRCULARSTRING (0 0, 1 1, 2 0), (2 0, 3 0))",
    "COMPOUNDCURVE ((0 0, 2 0), CIRCULARSTRING (2 0, 1 1, 0 0))", "CURVEPOLYGON (CIRCULARSTRING (0 0, 1 1, 2 0, 1 -1, 0 0))", "CURVEPOLYGON (COMPOUNDCURVE (CIRCULARSTRING (0 0, 1 1, 2 0), (2 0, 0 0)))",
    "CURVEPOLYGON ((0 0, 10 0, 10 10, 0 10, 0 0), CIRCULARSTRING (4 4, 5 5, 6 4, 5 3, 4 4))", "MULTICURVE ((0 0, 1 1), CIRCULARSTRING (0 0, 1 1, 2 0))",
    "MULTISURFACE (CURVEPOLYGON (CIRCULARSTRING (0 0, 1 1, 2 0, 1 -1, 0 0)), ((10 10, 11 10, 11 11, 10 10)))", "GEOMETRYCOLLECTION (CIRCULARSTRING (0 0, 1 1, 2 0), POINT (1 1))",
    "CIRCULARSTRING (0 0, NaN 1, 2 0)", "CIRCULARSTRING (0 0, 1e300 1e300, 2 0)",
    // huge / tiny coordinates
    "POINT (1e300 1e300)", "LINESTRING (-1e300 -1e300, 1e300 1e300)", "POLYGON ((0 0, 1e300 0, 1e300 1e300, 0 1e300, 0 0))", "LINESTRING (0 0, 1e-300 1e-300)",
    "POLYGON ((-1e308 -1e308, 1e308 -1e308, 1e308 1e308, -1e308 1e308, -1e308 -1e308))", "MULTIPOINT ((1e300 0), (0 1e300), (-1e300 0))", "LINESTRING (0 0, 1e300 1, 2 1e-300)",
    "POLYGON ((0 0, 1e-320 0, 1e-320 1e-320, 0 0))",
    // configured pairs: argument geometries in a particular relative position (a line whose vertices are strictly inside a concave / holed polygon
    // while a segment leaves it; nested frames; a polygon with two holes inside a clip window)
    "POLYGON ((0 0, 10 0, 10 10, 7 10, 7 3, 3 3, 3 10, 0 10, 0 0))", "LINESTRING (1.5 8, 8.5 8)", "MULTILINESTRING ((1.5 8, 8.5 8), (1 9, 9 9))", "LINESTRING (1 3, 5 3)",
    "MULTIPOLYGON (((0 0, 20 0, 20 20, 0 20, 0 0), (2 2, 18 2, 18 18, 2 18, 2 2)), ((4 4, 16 4, 16 16, 4 16, 4 4), (6 6, 14 6, 14 14, 6 14, 6 6)))",
    "POLYGON ((-5 -5, 30 -5, 30 30, -5 30, -5 -5), (2 2, 4 2, 4 4, 2 4, 2 2), (6 6, 8 6, 8 8, 6 8, 6 6))",
    // empty one level below a non-empty parent: an EMPTY hole ring (legal WKT), alone, next to a real hole, inside multi / collection parents
    "POLYGON ((0 0, 10 0, 10 10, 0 10, 0 0), EMPTY)", "POLYGON ((0 0, 10 0, 10 10, 0 10, 0 0), EMPTY, (2 2, 4 2, 4 4, 2 4, 2 2))", "POLYGON ((0 0, 10 0, 10 10, 0 10, 0 0), (2 2, 4 2, 4 4, 2 4, 2 2), EMPTY)",
    "MULTIPOLYGON (((0 0, 10 0, 10 10, 0 10, 0 0), EMPTY), ((20 20, 30 20, 30 30, 20 20)))", "GEOMETRYCOLLECTION (POLYGON ((0 0, 4 0, 4 4, 0 0), EMPTY), LINESTRING (1 1, 9 9))",
    "POLYGON Z ((0 0 1, 10 0 1, 10 10 1, 0 10 1, 0 0 1), EMPTY)", "CURVEPOLYGON ((0 0, 10 0, 10 10, 0 10, 0 0), EMPTY)", "CURVEPOLYGON (CIRCULARSTRING (0 0, 1 1, 2 0, 1 -1, 0 0), EMPTY)",
    "MULTISURFACE (((0 0, 10 0, 10 10, 0 10, 0 0), EMPTY))" };
static const int N_WKT = sizeof WKT_POOL / sizeof WKT_POOL[0];
static const char* WKT_CLASS(int i) { return i < 20 ? "ordinary" : i < 41 ? "empty" : i < 53 ? "nonfinite" : i < 61 ? "invalid" : i < 70 ? "zerolen" : i < 83 ? "curved" : i < 91 ? "huge" : i < 97 ? "configured" : "emptyhole"; }
// ---- structured literals, generated (deterministic, not random): all live in the frame [0,100]^2 so that any container / content pair is in
// an interesting relative position.  Containers: comb polygons (2..5 teeth; 2 teeth = a U), squares with a grid of holes (rows at y = 80, 50, 20),
// the same holes in a shell much larger than the frame, nested frames.  Contents: lines / strips / point sets whose vertices are strictly inside
// every container while their segments cross notches / holes, and some that stay inside.
struct GenPool { std::vector<std::string> cont, content, all, holed; };
static std::string num(double d) { char b[40]; snprintf(b, sizeof b, "%.10g", d); return b; }
static std::string ringOf(const std::vector<std::pair<double, double>>& v) { std::string s = "("; for (size_t i = 0; i < v.size(); i++) { if (i) s += ", "; s += num(v[i].first) + " " + num(v[i].second); } return s + ")"; }
static std::string combRing(int n) {
    double u = 100.0 / (2 * n - 1); std::vector<std::pair<double, double>> v = {{0, 0}, {100, 0}, {100, 100}};
    for (int i = n - 1; i >= 0; i--) { double x0 = 2 * i * u, x1 = (2 * i + 1) * u; if (i < n - 1) { v.push_back({x1, 30}); v.push_back({x1, 100}); } v.push_back({i ? x0 : 0.0, 100}); if (i) v.push_back({x0, 30}); }
    v.push_back({0, 0}); return ringOf(v);
}
static std::string holeRings(int nx, int rows) {
    static const double Y[] = {80, 50, 20}; std::string s;
    for (int j = 0; j < rows; j++) for (int i = 0; i < nx; i++) { double cx = 100.0 * (i + 1) / (nx + 1), cy = Y[j];
        s += ", " + ringOf({{cx - 5, cy - 5}, {cx + 5, cy - 5}, {cx + 5, cy + 5}, {cx - 5, cy + 5}, {cx - 5, cy - 5}}); }
    return s;
}
static GenPool buildGenPool() {
    GenPool g;
    for (int n = 2; n <= 5; n++) g.cont.push_back("POLYGON (" + combRing(n) + ")");
    g.cont.push_back("POLYGON (" + combRing(3) + ", (40 5, 60 5, 60 25, 40 25, 40 5))");
    static const int GR[][2] = {{2, 1}, {3, 1}, {2, 2}, {3, 2}, {4, 3}};
    for (auto& gr : GR) {
        g.cont.push_back("POLYGON ((0 0, 100 0, 100 100, 0 100, 0 0)" + holeRings(gr[0], gr[1]) + ")");
        g.cont.push_back("POLYGON ((-50 -50, 150 -50, 150 150, -50 150, -50 -50)" + holeRings(gr[0], gr[1]) + ")");
    }
    g.cont.push_back("MULTIPOLYGON (((0 0, 100 0, 100 100, 0 100, 0 0), (1 1, 99 1, 99 99, 1 99, 1 1)), ((2 2, 98 2, 98 98, 2 98, 2 2)" + holeRings(3, 2) + "))");
    g.cont.push_back("GEOMETRYCOLLECTION (POLYGON ((-50 -50, 150 -50, 150 150, -50 150, -50 -50)" + holeRings(3, 2) + "), POINT (3 80))");
    g.cont.push_back("MULTIPOLYGON (((-50 -50, 150 -50, 150 150, -50 150, -50 -50)" + holeRings(2, 2) + "), ((200 0, 300 0, 300 100, 200 100, 200 0)" + holeRings(2, 1) + "))");
    g.cont.push_back("POLYGON ((0 0, 100 0, 100 100, 0 100, 0 0))");
    static const char* C[] = {
        "LINESTRING (3 80, 97 80)", "LINESTRING (3 50, 97 50)", "LINESTRING (3 80, 3 10, 97 10, 97 80)", "MULTILINESTRING ((3 80, 97 80), (3 10, 97 10))", "MULTILINESTRING ((3 10, 97 10), (3 12, 97 12))",
        "POLYGON ((3 78, 97 78, 97 82, 3 82, 3 78))", "POLYGON ((2 2, 8 2, 8 8, 2 8, 2 2))", "POLYGON ((3 3, 97 3, 97 97, 3 97, 3 3))", "MULTIPOINT ((3 80), (97 80), (50 10))", "LINESTRING (3 80, 50 95, 97 80)",
        "LINESTRING (0 80, 97 80)", "GEOMETRYCOLLECTION (LINESTRING (3 80, 97 80), POINT (3 10))", "LINEARRING (3 80, 97 80, 50 10, 3 80)", "MULTIPOLYGON (((3 78, 97 78, 97 82, 3 82, 3 78)), ((3 8, 97 8, 97 12, 3 12, 3 8)))",
        "LINESTRING (3 20, 97 20, 97 50, 3 50)", "POINT (3 80)", "LINESTRING (-10 80, 110 80)" };
    for (auto c : C) g.content.push_back(c);
    g.all = g.cont; g.all.insert(g.all.end(), g.content.begin(), g.content.end());
    for (auto& c : g.cont) { size_t n = 0, q = 0; while ((q = c.find("), (", q)) != std::string::npos) { n++; q += 4; } if (n >= 2) g.holed.push_back(c); }   // at least two holes
    return g;
}
static const GenPool& genPool() { static GenPool g = buildGenPool(); return g; }
// poll numbers at which an armed interruption is requested
static const long COUNT_ONLY = 1000000;      // an armed k that is never reached: the callback only counts
static const long KPOOL[] = { 1, 1, 1, 2, 2, 2, 3, 3, 4, 4, 5, 6, 7, 8, 10, 13, 20, 40, 100 };
// envelope-relative positions for coordinate-like parameters (clip windows, query points)
static const double FPOOL[] = { -0.25, -0.1, 0.0, 0.05, 0.1, 0.25, 0.4, 0.5, 0.6, 0.75, 0.9, 0.95, 1.0, 1.1, 1.25 };
static const size_t LONGLEN[] = { 1000, 1020, 1022, 1023, 1024, 1025, 1500, 2047, 2048, 3000, 4096, 5000 };
static const char* BAD_WKT[] = { "", "POINT", "POINT (1", "POLYGON ((0 0, 1 1))", "LINESTRING (0 0)", "GEOMETRYCOLLECTION (POINT (1 1)", "FOO (1 1)", "POINT (1 2 3 4 5)",
    "LINEARRING (0 0, 1 1, 2 2)", "CIRCULARSTRING (0 0, 1 1)", "COMPOUNDCURVE ((0 0, 1 1), (5 5, 6 6))", "CURVEPOLYGON ((0 0, 1 1, 2 2))", "POINT (1e400 1)", "MULTIPOINT (1 1, 2 2", "POLYGON (EMPTY, (0 0, 1 0, 1 1, 0 0))" };
static const char* PATTERNS[] = { "T*F**FFF*", "FF*FF****", "T********", "TTTTTTTTT", "*********", "0FFFFFFF2", "", "T", "XXXXXXXXX", "T*F**FFF*T", "212101212" };
static const char* HEX_POOL[] = { "0101000000000000000000F03F0000000000000040", "0101000000000000000000F87F000000000000F87F", "010100000000", "01", "", "zz", "0107000000FFFFFFFF",
    "010200000002000000000000000000000000000000000000000000000000002440000000000000244 0", "0103000000010000000400000000000000000000000000000000000000000000000000F03F0000000000000000000000000000F03F000000000000F03F00000000000000000000000000000000",
    "01020000000100000000000000000000000000000000000000", "0104000000020000000101000000000000000000F03F000000000000F03F0101000000000000000000F07F000000000000F0FF", "0108000000030000000000000000000000000000000000000000000000000000F03F000000000000F03F00000000000000400000000000000000",
    "00000000013FF00000000000004000000000000000", "0101000020E6100000000000000000F03F0000000000000040", "01EB03000001000000" };
static const char* JSON_POOL[] = { "{\"type\":\"Point\",\"coordinates\":[1,2]}", "{\"type\":\"Point\",\"coordinates\":[]}", "{\"type\":\"LineString\",\"coordinates\":[[0,0],[1,1]]}",
    "{\"type\":\"Polygon\",\"coordinates\":[[[0,0],[1,0],[1,1],[0,0]]]}", "{\"type\":\"GeometryCollection\",\"geometries\":[]}", "{\"type\":\"Feature\",\"geometry\":null,\"properties\":{}}",
    "{\"type\":\"FeatureCollection\",\"features\":[]}", "{", "", "[]", "{\"type\":\"Point\"}", "{\"type\":\"Polygon\",\"coordinates\":[[[0,0],[1,1]]]}", "{\"type\":\"Point\",\"coordinates\":[1e400,2]}", "null",
    "{\"type\":\"MultiPoint\",\"coordinates\":[[0,0],[\"a\",1]]}" };
static const double DPOOL[] = { NAN, INFINITY, -INFINITY, 0.0, -0.0, 1.0, -1.0, 0.5, 2.0, 10.0, 1e-300, 1e300, -1e300, 1e-9, DBL_MAX, 4.9e-324, 0.1, 100.0, -0.5, 3.0 };
// "tolerance-like" parameters whose cost is proportional to extent/value: no tiny positive values (listed exclusion)
static const double TPOOL[] = { NAN, INFINITY, -INFINITY, 0.0, -0.0, 1.0, -1.0, 0.5, 2.0, 10.0, 1e300, -1e300, 0.1, 100.0 };
static const long IPOOL[] = { 0, 1, -1, 2, 3, 4, 5, 6, 7, 8, 15, 16, 100, 255, 256, -2, INT_MAX, INT_MIN, 65536, 1000000 };
// count-like parameters (quadrant segments, levels, point counts): no huge positive values (listed exclusion)
static const long QPOOL[] = { 0, 1, -1, 2, 4, 8, 16, 32, -8, INT_MIN, 3, 5 };

static std::string hexs(const std::string& s) { return hexbytes((const unsigned char*) s.data(), s.size()); }
static std::string unhex(const std::string& h) { std::string o; for (size_t i = 0; i + 1 < h.size(); i += 2) o.push_back((char) std::stoi(h.substr(i, 2), nullptr, 16)); return o; }

// ----------------------------------------------------------------------------------------------- callbacks
static long g_cntObs = -1, g_cntExp = -1;   // a count reported by the last call and the same count recomputed by the harness another way (fact Q)
static long g_lastHits = -1;     // callback invocations of the last GEOSSTRtree_query_r
static void qcb(void* item, void* ud) { ((std::vector<void*>*) ud)->push_back(item); }
static int xycb(double* x, double* y, void* ud) { long m = (long) (intptr_t) ud; if (m == 1) { *x += 1; *y -= 1; } else if (m == 2) { *x = NAN; } else if (m == 3) return 0; return 1; }
static int xyzcb(double* x, double* y, double* z, void* ud) { long m = (long) (intptr_t) ud; if (m == 1) { *x += 1; *y -= 1; *z = 7; } else if (m == 3) return 0; return 1; }
static int distcb(const void* a, const void* b, double* d, void* ud) {
    GEOSContextHandle_t h = (GEOSContextHandle_t) ud; return GEOSDistance_r(h, (const GEOSGeometry*) a, (const GEOSGeometry*) b, d); }

// ----------------------------------------------------------------------------------------------- the entry-point table
#define H c.h
#define A(k) a[k]
static void registerAll() {
    // ---- binary predicates (char, 2 on exception)
#define PRED2(f) reg(#f, "g g", "pred", 3, [](Ctx& c, std::vector<Val>& a) { return rChar(f(H, c.G(A(0)), c.G(A(1)))); });
    PRED2(GEOSDisjoint_r) PRED2(GEOSTouches_r) PRED2(GEOSIntersects_r) PRED2(GEOSCrosses_r) PRED2(GEOSWithin_r) PRED2(GEOSContains_r)
    PRED2(GEOSOverlaps_r) PRED2(GEOSEquals_r) PRED2(GEOSCovers_r) PRED2(GEOSCoveredBy_r) PRED2(GEOSEqualsIdentical_r)
    reg("GEOSEqualsExact_r", "g g d", "pred", 3, [](Ctx& c, std::vector<Val>& a) { return rChar(GEOSEqualsExact_r(H, c.G(A(0)), c.G(A(1)), A(2).d)); });
    reg("GEOSDistanceWithin_r", "g g d", "pred", 3, [](Ctx& c, std::vector<Val>& a) { return rChar(GEOSDistanceWithin_r(H, c.G(A(0)), c.G(A(1)), A(2).d)); });
    reg("GEOSRelatePattern_r", "g g s:pat", "pred", 3, [](Ctx& c, std::vector<Val>& a) { return rChar(GEOSRelatePattern_r(H, c.G(A(0)), c.G(A(1)), A(2).s.c_str())); });
    reg("GEOSRelatePatternMatch_r", "s:pat s:pat", "pred", 1, [](Ctx& c, std::vector<Val>& a) { return rChar(GEOSRelatePatternMatch_r(H, A(0).s.c_str(), A(1).s.c_str())); });
    reg("GEOSRelate_r", "g g", "pred", 3, [](Ctx& c, std::vector<Val>& a) { return rPtr(BUF, GEOSRelate_r(H, c.G(A(0)), c.G(A(1)))); });
    reg("GEOSRelateBoundaryNodeRule_r", "g g i", "pred", 2, [](Ctx& c, std::vector<Val>& a) { return rPtr(BUF, GEOSRelateBoundaryNodeRule_r(H, c.G(A(0)), c.G(A(1)), (int) A(2).i)); });
    // ---- unary predicates
#define PRED1(f) reg(#f, "g", "pred", 3, [](Ctx& c, std::vector<Val>& a) { return rChar(f(H, c.G(A(0)))); });
    PRED1(GEOSisEmpty_r) PRED1(GEOSisSimple_r) PRED1(GEOSisRing_r) PRED1(GEOSHasZ_r) PRED1(GEOSHasM_r) PRED1(GEOSisClosed_r) PRED1(GEOSisValid_r)
    reg("GEOSisValidReason_r", "g", "pred", 2, [](Ctx& c, std::vector<Val>& a) { return rPtr(BUF, GEOSisValidReason_r(H, c.G(A(0)))); });
    reg("GEOSisValidDetail_r", "g i _ _", "pred", 2, [](Ctx& c, std::vector<Val>& a) {
        char* reason = nullptr; GEOSGeometry* loc = nullptr; char r = GEOSisValidDetail_r(H, c.G(A(0)), (int) A(1).i, &reason, &loc);
        Ret x = rChar(r); if (reason) GEOSFree_r(H, reason); if (loc) x.objs.push_back({GEOM, loc}); return x; });
    // ---- unary constructive  g -> geom
#define UN(f, w) reg(#f, "g", "constr", w, [](Ctx& c, std::vector<Val>& a) { return rGeom(f(H, c.G(A(0)))); });
    UN(GEOSEnvelope_r, 3) UN(GEOSConvexHull_r, 3) UN(GEOSBoundary_r, 3) UN(GEOSGetCentroid_r, 3) UN(GEOSPointOnSurface_r, 3) UN(GEOSUnaryUnion_r, 3)
    UN(GEOSLineMerge_r, 2) UN(GEOSLineMergeDirected_r, 2) UN(GEOSReverse_r, 3) UN(GEOSMakeValid_r, 3) UN(GEOSBuildArea_r, 2) UN(GEOSGeom_clone_r, 3)
    UN(GEOSMinimumRotatedRectangle_r, 2) UN(GEOSMinimumWidth_r, 2) UN(GEOSMinimumClearanceLine_r, 2) UN(GEOSNode_r, 2) UN(GEOSGeom_extractUniquePoints_r, 2)
    UN(GEOSConstrainedDelaunayTriangulation_r, 2) UN(GEOSDisjointSubsetUnion_r, 2) UN(GEOSCoverageUnion_r, 2) UN(GEOSGeomGetStartPoint_r, 2) UN(GEOSGeomGetEndPoint_r, 2)
    UN(GEOSUnionCascaded_r, 1)
#define UND(f, w, spec) reg(#f, spec, "constr", w, [](Ctx& c, std::vector<Val>& a) { return rGeom(f(H, c.G(A(0)), A(1).d)); });
    UND(GEOSSimplify_r, 3, "g d") UND(GEOSTopologyPreserveSimplify_r, 3, "g d") UND(GEOSDensify_r, 2, "g dt") UND(GEOSInterpolate_r, 3, "g d") UND(GEOSInterpolateNormalized_r, 3, "g d")
    UND(GEOSRemoveRepeatedPoints_r, 2, "g d") UND(GEOSUnaryUnionPrec_r, 2, "g d") UND(GEOSMaximumInscribedCircle_r, 2, "g dt")
    reg("GEOSBuffer_r", "g d iq", "constr", 4, [](Ctx& c, std::vector<Val>& a) { return rGeom(GEOSBuffer_r(H, c.G(A(0)), A(1).d, (int) A(2).i)); });
    reg("GEOSBufferWithStyle_r", "g d iq i i d", "constr", 3, [](Ctx& c, std::vector<Val>& a) { return rGeom(GEOSBufferWithStyle_r(H, c.G(A(0)), A(1).d, (int) A(2).i, (int) A(3).i, (int) A(4).i, A(5).d)); });
    reg("GEOSOffsetCurve_r", "g d iq i d", "constr", 3, [](Ctx& c, std::vector<Val>& a) { return rGeom(GEOSOffsetCurve_r(H, c.G(A(0)), A(1).d, (int) A(2).i, (int) A(3).i, A(4).d)); });
    reg("GEOSSingleSidedBuffer_r", "g d iq i d i", "constr", 2, [](Ctx& c, std::vector<Val>& a) { return rGeom(GEOSSingleSidedBuffer_r(H, c.G(A(0)), A(1).d, (int) A(2).i, (int) A(3).i, A(4).d, (int) A(5).i)); });
    reg("GEOSBufferWithParams_r", "g bpc d", "constr", 3, [](Ctx& c, std::vector<Val>& a) { return rGeom(GEOSBufferWithParams_r(H, c.G(A(0)), (GEOSBufferParams*) c.P(A(1)), A(2).d)); });
    reg("GEOSMakeValidWithParams_r", "g mvpc", "constr", 3, [](Ctx& c, std::vector<Val>& a) { return rGeom(GEOSMakeValidWithParams_r(H, c.G(A(0)), (GEOSMakeValidParams*) c.P(A(1)))); });
    reg("GEOSConcaveHull_r", "g d i", "constr", 2, [](Ctx& c, std::vector<Val>& a) { return rGeom(GEOSConcaveHull_r(H, c.G(A(0)), A(1).d, (unsigned) A(2).i)); });
    reg("GEOSConcaveHullByLength_r", "g d i", "constr", 2, [](Ctx& c, std::vector<Val>& a) { return rGeom(GEOSConcaveHullByLength_r(H, c.G(A(0)), A(1).d, (unsigned) A(2).i)); });
    reg("GEOSConcaveHullOfPolygons_r", "g d i i", "constr", 2, [](Ctx& c, std::vector<Val>& a) { return rGeom(GEOSConcaveHullOfPolygons_r(H, c.G(A(0)), A(1).d, (unsigned) A(2).i, (unsigned) A(3).i)); });
    reg("GEOSPolygonHullSimplify_r", "g i d", "constr", 2, [](Ctx& c, std::vector<Val>& a) { return rGeom(GEOSPolygonHullSimplify_r(H, c.G(A(0)), (unsigned) A(1).i, A(2).d)); });
    reg("GEOSPolygonHullSimplifyMode_r", "g i i d", "constr", 2, [](Ctx& c, std::vector<Val>& a) { return rGeom(GEOSPolygonHullSimplifyMode_r(H, c.G(A(0)), (unsigned) A(1).i, (unsigned) A(2).i, A(3).d)); });
    reg("GEOSDelaunayTriangulation_r", "g d i", "constr", 2, [](Ctx& c, std::vector<Val>& a) { return rGeom(GEOSDelaunayTriangulation_r(H, c.G(A(0)), A(1).d, (int) A(2).i)); });
    reg("GEOSVoronoiDiagram_r", "g g? d i", "constr", 2, [](Ctx& c, std::vector<Val>& a) { return rGeom(GEOSVoronoiDiagram_r(H, c.G(A(0)), c.G(A(1)), A(2).d, (int) A(3).i)); });
    reg("GEOSLargestEmptyCircle_r", "g g? dt", "constr", 2, [](Ctx& c, std::vector<Val>& a) { return rGeom(GEOSLargestEmptyCircle_r(H, c.G(A(0)), c.G(A(1)), A(2).d)); });
    reg("GEOSMinimumBoundingCircle_r", "g _ _", "constr", 2, [](Ctx& c, std::vector<Val>& a) {
        double r = 0; GEOSGeometry* ctr = nullptr; Ret x = rGeom(GEOSMinimumBoundingCircle_r(H, c.G(A(0)), &r, &ctr)); if (ctr) x.objs.push_back({GEOM, ctr}); return x; });
    reg("GEOSClipByRect_r", "g dx dy dx dy", "constr", 3, [](Ctx& c, std::vector<Val>& a) { return rGeom(GEOSClipByRect_r(H, c.G(A(0)), A(1).d, A(2).d, A(3).d, A(4).d)); });
    reg("GEOSLineSubstring_r", "g d d", "constr", 2, [](Ctx& c, std::vector<Val>& a) { return rGeom(GEOSLineSubstring_r(H, c.G(A(0)), A(1).d, A(2).d)); });
    reg("GEOSGeom_setPrecision_r", "g d i", "constr", 3, [](Ctx& c, std::vector<Val>& a) { return rGeom(GEOSGeom_setPrecision_r(H, c.G(A(0)), A(1).d, (int) A(2).i)); });
    reg("GEOSGeomGetPointN_r", "g i", "constr", 2, [](Ctx& c, std::vector<Val>& a) { return rGeom(GEOSGeomGetPointN_r(H, c.G(A(0)), (int) A(1).i)); });
    reg("GEOSGeom_transformXY_r", "g _ i", "constr", 2, [](Ctx& c, std::vector<Val>& a) { return rGeom(GEOSGeom_transformXY_r(H, c.G(A(0)), xycb, (void*) (intptr_t) (A(2).i & 3))); });
    reg("GEOSGeom_transformXYZ_r", "g _ i", "constr", 2, [](Ctx& c, std::vector<Val>& a) { return rGeom(GEOSGeom_transformXYZ_r(H, c.G(A(0)), xyzcb, (void*) (intptr_t) (A(2).i & 3))); });
    reg("GEOSPolygonize_full_r", "g _ _ _", "constr", 2, [](Ctx& c, std::vector<Val>& a) {
        GEOSGeometry *cu = nullptr, *da = nullptr, *inv = nullptr; Ret x = rGeom(GEOSPolygonize_full_r(H, c.G(A(0)), &cu, &da, &inv));
        if (cu) x.objs.push_back({GEOM, cu}); if (da) x.objs.push_back({GEOM, da}); if (inv) x.objs.push_back({GEOM, inv}); return x; });
    // ---- coverages (the documentation asks for a collection of polygonal members; any geometry is passed)
    reg("GEOSCoverageIsValid_r", "g d _", "pred", 2, [](Ctx& c, std::vector<Val>& a) {
        GEOSGeometry* inv = nullptr; Ret x = rInt(GEOSCoverageIsValid_r(H, c.G(A(0)), A(1).d, &inv)); if (inv) x.objs.push_back({GEOM, inv}); return x; });
    reg("GEOSCoverageSimplifyVW_r", "g d i", "constr", 2, [](Ctx& c, std::vector<Val>& a) { return rGeom(GEOSCoverageSimplifyVW_r(H, c.G(A(0)), A(1).d, (int) A(2).i)); });
    // ---- binary constructive
#define BIN(f, w) reg(#f, "g g", "constr", w, [](Ctx& c, std::vector<Val>& a) { return rGeom(f(H, c.G(A(0)), c.G(A(1)))); });
    BIN(GEOSIntersection_r, 4) BIN(GEOSDifference_r, 3) BIN(GEOSSymDifference_r, 3) BIN(GEOSUnion_r, 4) BIN(GEOSSharedPaths_r, 2)
#define BIND(f, w) reg(#f, "g g d", "constr", w, [](Ctx& c, std::vector<Val>& a) { return rGeom(f(H, c.G(A(0)), c.G(A(1)), A(2).d)); });
    BIND(GEOSIntersectionPrec_r, 2) BIND(GEOSDifferencePrec_r, 2) BIND(GEOSSymDifferencePrec_r, 2) BIND(GEOSUnionPrec_r, 2) BIND(GEOSSnap_r, 2)
    reg("GEOSNearestPoints_r", "g g", "constr", 2, [](Ctx& c, std::vector<Val>& a) { return rPtr(CS, GEOSNearestPoints_r(H, c.G(A(0)), c.G(A(1)))); });
    // ---- arrays of const geometries
    reg("GEOSPolygonize_r", "gA n", "constr", 2, [](Ctx& c, std::vector<Val>& a) { auto v = c.GA(A(0)); return rGeom(GEOSPolygonize_r(H, v.data(), (unsigned) v.size())); });
    reg("GEOSPolygonize_valid_r", "gA n", "constr", 2, [](Ctx& c, std::vector<Val>& a) { auto v = c.GA(A(0)); return rGeom(GEOSPolygonize_valid_r(H, v.data(), (unsigned) v.size())); });
    reg("GEOSPolygonizer_getCutEdges_r", "gA n", "constr", 1, [](Ctx& c, std::vector<Val>& a) { auto v = c.GA(A(0)); return rGeom(GEOSPolygonizer_getCutEdges_r(H, v.data(), (unsigned) v.size())); });
    // ---- measures  (int, 0 on exception) with double out
#define MEAS1(f) reg(#f, "g _", "measure", 2, [](Ctx& c, std::vector<Val>& a) { double d = 0; return rInt(f(H, c.G(A(0)), &d)); });
    MEAS1(GEOSArea_r) MEAS1(GEOSLength_r) MEAS1(GEOSGeomGetLength_r) MEAS1(GEOSMinimumClearance_r) MEAS1(GEOSGeomGetX_r) MEAS1(GEOSGeomGetY_r) MEAS1(GEOSGeomGetZ_r) MEAS1(GEOSGeomGetM_r)
    MEAS1(GEOSGeom_getXMin_r) MEAS1(GEOSGeom_getYMin_r) MEAS1(GEOSGeom_getXMax_r) MEAS1(GEOSGeom_getYMax_r)
    reg("GEOSGeom_getExtent_r", "g _ _ _ _", "measure", 2, [](Ctx& c, std::vector<Val>& a) { double x0, y0, x1, y1; return rInt(GEOSGeom_getExtent_r(H, c.G(A(0)), &x0, &y0, &x1, &y1)); });
#define MEAS2(f) reg(#f, "g g _", "measure", 2, [](Ctx& c, std::vector<Val>& a) { double d = 0; return rInt(f(H, c.G(A(0)), c.G(A(1)), &d)); });
    MEAS2(GEOSDistance_r) MEAS2(GEOSDistanceIndexed_r) MEAS2(GEOSHausdorffDistance_r) MEAS2(GEOSFrechetDistance_r)
    reg("GEOSHausdorffDistanceDensify_r", "g g dt _", "measure", 1, [](Ctx& c, std::vector<Val>& a) { double d = 0; return rInt(GEOSHausdorffDistanceDensify_r(H, c.G(A(0)), c.G(A(1)), A(2).d, &d)); });
    reg("GEOSFrechetDistanceDensify_r", "g g dt _", "measure", 1, [](Ctx& c, std::vector<Val>& a) { double d = 0; return rInt(GEOSFrechetDistanceDensify_r(H, c.G(A(0)), c.G(A(1)), A(2).d, &d)); });
    reg("GEOSProject_r", "g g", "measure", 2, [](Ctx& c, std::vector<Val>& a) { return rDbl(GEOSProject_r(H, c.G(A(0)), c.G(A(1)))); });
    reg("GEOSProjectNormalized_r", "g g", "measure", 2, [](Ctx& c, std::vector<Val>& a) { return rDbl(GEOSProjectNormalized_r(H, c.G(A(0)), c.G(A(1)))); });
    reg("GEOSHilbertCode_r", "g g iq _", "measure", 1, [](Ctx& c, std::vector<Val>& a) { unsigned code = 0; return rInt(GEOSHilbertCode_r(H, c.G(A(0)), c.G(A(1)), (unsigned) A(2).i, &code)); });
    reg("GEOSOrientationIndex_r", "d d d d d d", "measure", 1, [](Ctx& c, std::vector<Val>& a) { return rInt(GEOSOrientationIndex_r(H, A(0).d, A(1).d, A(2).d, A(3).d, A(4).d, A(5).d)); });
    reg("GEOSSegmentIntersection_r", "d d d d d d d d _ _", "measure", 1, [](Ctx& c, std::vector<Val>& a) { double x, y; return rInt(GEOSSegmentIntersection_r(H, A(0).d, A(1).d, A(2).d, A(3).d, A(4).d, A(5).d, A(6).d, A(7).d, &x, &y)); });
    // ---- integer accessors
#define ACC(f) reg(#f, "g", "access", 2, [](Ctx& c, std::vector<Val>& a) { return rInt(f(H, c.G(A(0)))); });
    ACC(GEOSGeomTypeId_r) ACC(GEOSGetSRID_r) ACC(GEOSGetNumGeometries_r) ACC(GEOSGetNumInteriorRings_r) ACC(GEOSGeomGetNumPoints_r) ACC(GEOSGetNumCoordinates_r)
    ACC(GEOSGeom_getDimensions_r) ACC(GEOSGeom_getCoordinateDimension_r)
    reg("GEOSGeom_getPrecision_r", "g", "access", 1, [](Ctx& c, std::vector<Val>& a) { return rDbl(GEOSGeom_getPrecision_r(H, c.G(A(0)))); });
    reg("GEOSGeomType_r", "g", "access", 2, [](Ctx& c, std::vector<Val>& a) { return rPtr(BUF, GEOSGeomType_r(H, c.G(A(0)))); });
    // ---- views (owned by parent, must not be freed)
    reg("GEOSGetGeometryN_r", "g i", "view", 5, [](Ctx& c, std::vector<Val>& a) { return rView(GEOM, GEOSGetGeometryN_r(H, c.G(A(0)), (int) A(1).i)); });
    reg("GEOSGetExteriorRing_r", "g", "view", 4, [](Ctx& c, std::vector<Val>& a) { return rView(GEOM, GEOSGetExteriorRing_r(H, c.G(A(0)))); });
    reg("GEOSGetInteriorRingN_r", "g i", "view", 4, [](Ctx& c, std::vector<Val>& a) { return rView(GEOM, GEOSGetInteriorRingN_r(H, c.G(A(0)), (int) A(1).i)); });
    reg("GEOSGeom_getCoordSeq_r", "g", "view", 4, [](Ctx& c, std::vector<Val>& a) { return rView(CS, GEOSGeom_getCoordSeq_r(H, c.G(A(0)))); });
    // ---- mutators of a geometry
    reg("GEOSSetSRID_r", "G i", "mutate", 5, [](Ctx& c, std::vector<Val>& a) { GEOSSetSRID_r(H, c.G(A(0)), (int) A(1).i); return rVoid(); });
    reg("GEOSNormalize_r", "G", "mutate", 3, [](Ctx& c, std::vector<Val>& a) { return rInt(GEOSNormalize_r(H, c.G(A(0)))); });
    reg("GEOSOrientPolygons_r", "G i", "mutate", 2, [](Ctx& c, std::vector<Val>& a) { return rInt(GEOSOrientPolygons_r(H, c.G(A(0)), (int) A(1).i)); });
    reg("GEOSGeom_setUserData_r", "G _", "mutate", 1, [](Ctx& c, std::vector<Val>& a) { GEOSGeom_setUserData_r(H, c.G(A(0)), (void*) &FNS); return rVoid(); });
    reg("GEOSGeom_getUserData_r", "g", "access", 1, [](Ctx& c, std::vector<Val>& a) { void* p = GEOSGeom_getUserData_r(H, c.G(A(0))); Ret r; r.cls = 'p'; r.null = !p; return r; });
    reg("GEOSGeom_releaseCollection_r", "G _", "mutate", 2, [](Ctx& c, std::vector<Val>& a) {
        unsigned n = 0; GEOSGeometry** arr = GEOSGeom_releaseCollection_r(H, c.G(A(0)), &n); Ret r; r.cls = 'p'; r.null = !arr;
        if (arr) { for (unsigned i = 0; i < n; i++) r.objs.push_back({GEOM, arr[i]}); GEOSFree_r(H, arr); } return r; });
    // ---- constructors
    reg("GEOSGeomFromWKT_r", "s:wkt", "create", 14, [](Ctx& c, std::vector<Val>& a) { return rGeom(GEOSGeomFromWKT_r(H, A(0).s.c_str())); });
    reg("GEOSGeom_createPointFromXY_r", "dx dy", "create", 2, [](Ctx& c, std::vector<Val>& a) { return rGeom(GEOSGeom_createPointFromXY_r(H, A(0).d, A(1).d)); });
    reg("GEOSGeom_createRectangle_r", "dx dy dx dy", "create", 2, [](Ctx& c, std::vector<Val>& a) { return rGeom(GEOSGeom_createRectangle_r(H, A(0).d, A(1).d, A(2).d, A(3).d)); });
#define MK0(f) reg(#f, "", "create", 1, [](Ctx& c, std::vector<Val>& a) { (void) a; return rGeom(f(H)); });
    MK0(GEOSGeom_createEmptyPoint_r) MK0(GEOSGeom_createEmptyLineString_r) MK0(GEOSGeom_createEmptyPolygon_r) MK0(GEOSGeom_createEmptyCircularString_r)
    MK0(GEOSGeom_createEmptyCompoundCurve_r) MK0(GEOSGeom_createEmptyCurvePolygon_r)
    reg("GEOSGeom_createEmptyCollection_r", "i", "create", 2, [](Ctx& c, std::vector<Val>& a) { return rGeom(GEOSGeom_createEmptyCollection_r(H, (int) A(0).i)); });
#define MKCS(f) reg(#f, "csX", "create", 3, [](Ctx& c, std::vector<Val>& a) { return rGeom(f(H, c.S(A(0)))); });
    MKCS(GEOSGeom_createPoint_r) MKCS(GEOSGeom_createLineString_r) MKCS(GEOSGeom_createLinearRing_r) MKCS(GEOSGeom_createCircularString_r)
    reg("GEOSGeom_createPolygon_r", "gX gZ n", "create", 4, [](Ctx& c, std::vector<Val>& a) { auto v = c.GA(A(1)); return rGeom(GEOSGeom_createPolygon_r(H, c.G(A(0)), v.data(), (unsigned) v.size())); });
    reg("GEOSGeom_createCurvePolygon_r", "gX gZ n", "create", 3, [](Ctx& c, std::vector<Val>& a) { auto v = c.GA(A(1)); return rGeom(GEOSGeom_createCurvePolygon_r(H, c.G(A(0)), v.data(), (unsigned) v.size())); });
    reg("GEOSGeom_createCollection_r", "ict gZ n", "create", 4, [](Ctx& c, std::vector<Val>& a) { auto v = c.GA(A(1)); return rGeom(GEOSGeom_createCollection_r(H, (int) A(0).i, v.data(), (unsigned) v.size())); });
    reg("GEOSGeom_createCompoundCurve_r", "gZ n", "create", 3, [](Ctx& c, std::vector<Val>& a) { auto v = c.GA(A(0)); return rGeom(GEOSGeom_createCompoundCurve_r(H, v.data(), (unsigned) v.size())); });
    reg("GEOSGeom_destroy_r", "gX", "destroy", 4, [](Ctx& c, std::vector<Val>& a) { GEOSGeom_destroy_r(H, c.G(A(0))); return rVoid(); });
    reg("GEOSFree_r", "bufX", "destroy", 6, [](Ctx& c, std::vector<Val>& a) { GEOSFree_r(H, c.P(A(0))); return rVoid(); });
    // ---- coordinate sequences
    reg("GEOSCoordSeq_create_r", "iq iq", "cs", 4, [](Ctx& c, std::vector<Val>& a) { return rPtr(CS, GEOSCoordSeq_create_r(H, (unsigned) A(0).i, (unsigned) A(1).i)); });
    reg("GEOSCoordSeq_copyFromBuffer_r", "s:dbl _ i i", "cs", 2, [](Ctx& c, std::vector<Val>& a) {
        int hz = A(2).i & 1, hm = A(3).i & 1; size_t stride = 2 + hz + hm; size_t n = (A(0).s.size() / 8) / stride;
        return rPtr(CS, GEOSCoordSeq_copyFromBuffer_r(H, (const double*) A(0).s.data(), (unsigned) n, hz, hm)); });
    reg("GEOSCoordSeq_clone_r", "cs", "cs", 2, [](Ctx& c, std::vector<Val>& a) { return rPtr(CS, GEOSCoordSeq_clone_r(H, c.S(A(0)))); });
    reg("GEOSCoordSeq_destroy_r", "csX", "destroy", 2, [](Ctx& c, std::vector<Val>& a) { GEOSCoordSeq_destroy_r(H, c.S(A(0))); return rVoid(); });
    reg("GEOSCoordSeq_setX_r", "csM i d", "cs", 2, [](Ctx& c, std::vector<Val>& a) { return rInt(GEOSCoordSeq_setX_r(H, c.S(A(0)), (unsigned) A(1).i, A(2).d)); });
    reg("GEOSCoordSeq_setY_r", "csM i d", "cs", 2, [](Ctx& c, std::vector<Val>& a) { return rInt(GEOSCoordSeq_setY_r(H, c.S(A(0)), (unsigned) A(1).i, A(2).d)); });
    reg("GEOSCoordSeq_setZ_r", "csM i d", "cs", 1, [](Ctx& c, std::vector<Val>& a) { return rInt(GEOSCoordSeq_setZ_r(H, c.S(A(0)), (unsigned) A(1).i, A(2).d)); });
    reg("GEOSCoordSeq_setXY_r", "csM i d d", "cs", 6, [](Ctx& c, std::vector<Val>& a) { return rInt(GEOSCoordSeq_setXY_r(H, c.S(A(0)), (unsigned) A(1).i, A(2).d, A(3).d)); });
    reg("GEOSCoordSeq_setXYZ_r", "csM i d d d", "cs", 2, [](Ctx& c, std::vector<Val>& a) { return rInt(GEOSCoordSeq_setXYZ_r(H, c.S(A(0)), (unsigned) A(1).i, A(2).d, A(3).d, A(4).d)); });
    reg("GEOSCoordSeq_setOrdinate_r", "csM i i d", "cs", 2, [](Ctx& c, std::vector<Val>& a) { return rInt(GEOSCoordSeq_setOrdinate_r(H, c.S(A(0)), (unsigned) A(1).i, (unsigned) A(2).i, A(3).d)); });
#define CSGET(f) reg(#f, "cs i _", "cs", 1, [](Ctx& c, std::vector<Val>& a) { double d = 0; return rInt(f(H, c.S(A(0)), (unsigned) A(1).i, &d)); });
    CSGET(GEOSCoordSeq_getX_r) CSGET(GEOSCoordSeq_getY_r) CSGET(GEOSCoordSeq_getZ_r)
    reg("GEOSCoordSeq_getXY_r", "cs i _ _", "cs", 1, [](Ctx& c, std::vector<Val>& a) { double x, y; return rInt(GEOSCoordSeq_getXY_r(H, c.S(A(0)), (unsigned) A(1).i, &x, &y)); });
    reg("GEOSCoordSeq_getXYZ_r", "cs i _ _ _", "cs", 1, [](Ctx& c, std::vector<Val>& a) { double x, y, z; return rInt(GEOSCoordSeq_getXYZ_r(H, c.S(A(0)), (unsigned) A(1).i, &x, &y, &z)); });
    reg("GEOSCoordSeq_getOrdinate_r", "cs i i _", "cs", 1, [](Ctx& c, std::vector<Val>& a) { double d; return rInt(GEOSCoordSeq_getOrdinate_r(H, c.S(A(0)), (unsigned) A(1).i, (unsigned) A(2).i, &d)); });
    reg("GEOSCoordSeq_getSize_r", "cs _", "cs", 1, [](Ctx& c, std::vector<Val>& a) { unsigned n; return rInt(GEOSCoordSeq_getSize_r(H, c.S(A(0)), &n)); });
    reg("GEOSCoordSeq_getDimensions_r", "cs _", "cs", 1, [](Ctx& c, std::vector<Val>& a) { unsigned n; return rInt(GEOSCoordSeq_getDimensions_r(H, c.S(A(0)), &n)); });
    reg("GEOSCoordSeq_isCCW_r", "cs _", "cs", 2, [](Ctx& c, std::vector<Val>& a) { char v; return rInt(GEOSCoordSeq_isCCW_r(H, c.S(A(0)), &v)); });
    reg("GEOSCoordSeq_copyToBuffer_r", "cs _ i i", "cs", 1, [](Ctx& c, std::vector<Val>& a) {
        unsigned n = 0; GEOSCoordSeq_getSize_r(H, c.S(A(0)), &n); std::vector<double> buf((size_t) n * 4 + 4);
        return rInt(GEOSCoordSeq_copyToBuffer_r(H, c.S(A(0)), buf.data(), (int) (A(2).i & 1), (int) (A(3).i & 1))); });
    // x / y / z / m arrays: the double buffer is cut into four equal parts; z and m are passed or NULL by the two low bits of the point count
    reg("GEOSCoordSeq_copyFromArrays_r", "s:dbl _ _ _ _", "cs", 2, [](Ctx& c, std::vector<Val>& a) {
        size_t n = (A(0).s.size() / 8) / 4; const double* b = (const double*) A(0).s.data();
        return rPtr(CS, GEOSCoordSeq_copyFromArrays_r(H, b, b + n, (n & 1) ? b + 2 * n : nullptr, (n & 2) ? b + 3 * n : nullptr, (unsigned) n)); });
    reg("GEOSCoordSeq_copyToArrays_r", "cs _ _ _ _", "cs", 1, [](Ctx& c, std::vector<Val>& a) {
        unsigned n = 0; GEOSCoordSeq_getSize_r(H, c.S(A(0)), &n); std::vector<double> x(n + 1), y(n + 1), z(n + 1), m(n + 1);
        return rInt(GEOSCoordSeq_copyToArrays_r(H, c.S(A(0)), x.data(), y.data(), (n & 1) ? z.data() : nullptr, (n & 2) ? m.data() : nullptr)); });
    // ---- prepared geometries
    reg("GEOSPrepare_r", "gR", "prep", 6, [](Ctx& c, std::vector<Val>& a) { return rPtr(PREP, (void*) GEOSPrepare_r(H, c.G(A(0)))); });
    reg("GEOSPreparedGeom_destroy_r", "prepX", "destroy", 2, [](Ctx& c, std::vector<Val>& a) { GEOSPreparedGeom_destroy_r(H, (const GEOSPreparedGeometry*) c.P(A(0))); return rVoid(); });
#define PPRED(f) reg(#f, "prep g", "prep", 2, [](Ctx& c, std::vector<Val>& a) { return rChar(f(H, (const GEOSPreparedGeometry*) c.P(A(0)), c.G(A(1)))); });
    PPRED(GEOSPreparedContains_r) PPRED(GEOSPreparedContainsProperly_r) PPRED(GEOSPreparedCoveredBy_r) PPRED(GEOSPreparedCovers_r) PPRED(GEOSPreparedCrosses_r)
    PPRED(GEOSPreparedDisjoint_r) PPRED(GEOSPreparedIntersects_r) PPRED(GEOSPreparedOverlaps_r) PPRED(GEOSPreparedTouches_r) PPRED(GEOSPreparedWithin_r)
    reg("GEOSPreparedContainsXY_r", "prep dx dy", "prep", 2, [](Ctx& c, std::vector<Val>& a) { return rChar(GEOSPreparedContainsXY_r(H, (const GEOSPreparedGeometry*) c.P(A(0)), A(1).d, A(2).d)); });
    reg("GEOSPreparedIntersectsXY_r", "prep dx dy", "prep", 2, [](Ctx& c, std::vector<Val>& a) { return rChar(GEOSPreparedIntersectsXY_r(H, (const GEOSPreparedGeometry*) c.P(A(0)), A(1).d, A(2).d)); });
    reg("GEOSPreparedRelate_r", "prep g", "prep", 2, [](Ctx& c, std::vector<Val>& a) { return rPtr(BUF, GEOSPreparedRelate_r(H, (const GEOSPreparedGeometry*) c.P(A(0)), c.G(A(1)))); });
    reg("GEOSPreparedRelatePattern_r", "prep g s:pat", "prep", 2, [](Ctx& c, std::vector<Val>& a) { return rChar(GEOSPreparedRelatePattern_r(H, (const GEOSPreparedGeometry*) c.P(A(0)), c.G(A(1)), A(2).s.c_str())); });
    reg("GEOSPreparedNearestPoints_r", "prep g", "prep", 2, [](Ctx& c, std::vector<Val>& a) { return rPtr(CS, GEOSPreparedNearestPoints_r(H, (const GEOSPreparedGeometry*) c.P(A(0)), c.G(A(1)))); });
    reg("GEOSPreparedDistance_r", "prep g _", "prep", 2, [](Ctx& c, std::vector<Val>& a) { double d; return rInt(GEOSPreparedDistance_r(H, (const GEOSPreparedGeometry*) c.P(A(0)), c.G(A(1)), &d)); });
    reg("GEOSPreparedDistanceWithin_r", "prep g d", "prep", 2, [](Ctx& c, std::vector<Val>& a) { return rChar(GEOSPreparedDistanceWithin_r(H, (const GEOSPreparedGeometry*) c.P(A(0)), c.G(A(1)), A(2).d)); });
    // ---- STRtree (items are geometries that must outlive the tree)
    reg("GEOSSTRtree_create_r", "iq", "tree", 4, [](Ctx& c, std::vector<Val>& a) { return rPtr(TREE, GEOSSTRtree_create_r(H, (size_t) (unsigned) A(0).i)); });
    reg("GEOSSTRtree_insert_r", "tree g item", "tree", 8, [](Ctx& c, std::vector<Val>& a) { GEOSSTRtree_insert_r(H, (GEOSSTRtree*) c.P(A(0)), c.G(A(1)), c.P(A(2))); return rVoid(); });
    reg("GEOSSTRtree_build_r", "tree", "tree", 2, [](Ctx& c, std::vector<Val>& a) { return rInt(GEOSSTRtree_build_r(H, (GEOSSTRtree*) c.P(A(0)))); });
    reg("GEOSSTRtree_query_r", "tree g _ _", "tree", 4, [](Ctx& c, std::vector<Val>& a) { std::vector<void*> r; GEOSSTRtree_query_r(H, (GEOSSTRtree*) c.P(A(0)), c.G(A(1)), qcb, &r); g_lastHits = (long) r.size(); return rVoid(); });
    reg("GEOSSTRtree_iterate_r", "tree _ _", "tree", 2, [](Ctx& c, std::vector<Val>& a) { std::vector<void*> r; GEOSSTRtree_iterate_r(H, (GEOSSTRtree*) c.P(A(0)), qcb, &r); return rVoid(); });
    reg("GEOSSTRtree_nearest_r", "tree g", "tree", 4, [](Ctx& c, std::vector<Val>& a) { return rView(GEOM, GEOSSTRtree_nearest_r(H, (GEOSSTRtree*) c.P(A(0)), c.G(A(1)))); });
    reg("GEOSSTRtree_nearest_generic_r", "tree item g _ _", "tree", 2, [](Ctx& c, std::vector<Val>& a) {
        const void* p = GEOSSTRtree_nearest_generic_r(H, (GEOSSTRtree*) c.P(A(0)), c.P(A(1)), c.G(A(2)), distcb, (void*) H); Ret r; r.cls = 'p'; r.null = !p; return r; });
    reg("GEOSSTRtree_remove_r", "tree g item", "tree", 3, [](Ctx& c, std::vector<Val>& a) { return rChar(GEOSSTRtree_remove_r(H, (GEOSSTRtree*) c.P(A(0)), c.G(A(1)), c.P(A(2)))); });
    reg("GEOSSTRtree_destroy_r", "treeX", "destroy", 2, [](Ctx& c, std::vector<Val>& a) { GEOSSTRtree_destroy_r(H, (GEOSSTRtree*) c.P(A(0))); return rVoid(); });
    // ---- readers / writers
    reg("GEOSWKTReader_create_r", "", "io", 2, [](Ctx& c, std::vector<Val>&) { return rPtr(WKTR, GEOSWKTReader_create_r(H)); });
    reg("GEOSWKTReader_destroy_r", "wktrX", "destroy", 1, [](Ctx& c, std::vector<Val>& a) { GEOSWKTReader_destroy_r(H, (GEOSWKTReader*) c.P(A(0))); return rVoid(); });
    reg("GEOSWKTReader_read_r", "wktr s:wktany", "io", 5, [](Ctx& c, std::vector<Val>& a) { return rGeom(GEOSWKTReader_read_r(H, (GEOSWKTReader*) c.P(A(0)), A(1).s.c_str())); });
    reg("GEOSWKTReader_setFixStructure_r", "wktr i", "io", 1, [](Ctx& c, std::vector<Val>& a) { GEOSWKTReader_setFixStructure_r(H, (GEOSWKTReader*) c.P(A(0)), (char) (A(1).i & 1)); return rVoid(); });
    reg("GEOSWKTWriter_create_r", "", "io", 2, [](Ctx& c, std::vector<Val>&) { return rPtr(WKTW, GEOSWKTWriter_create_r(H)); });
    reg("GEOSWKTWriter_destroy_r", "wktwX", "destroy", 1, [](Ctx& c, std::vector<Val>& a) { GEOSWKTWriter_destroy_r(H, (GEOSWKTWriter*) c.P(A(0))); return rVoid(); });
    reg("GEOSWKTWriter_write_r", "wktw g", "io", 5, [](Ctx& c, std::vector<Val>& a) { return rPtr(BUF, GEOSWKTWriter_write_r(H, (GEOSWKTWriter*) c.P(A(0)), c.G(A(1)))); });
    reg("GEOSWKTWriter_setTrim_r", "wktw i", "io", 1, [](Ctx& c, std::vector<Val>& a) { GEOSWKTWriter_setTrim_r(H, (GEOSWKTWriter*) c.P(A(0)), (char) (A(1).i & 1)); return rVoid(); });
    reg("GEOSWKTWriter_setRoundingPrecision_r", "wktw i", "io", 2, [](Ctx& c, std::vector<Val>& a) { GEOSWKTWriter_setRoundingPrecision_r(H, (GEOSWKTWriter*) c.P(A(0)), (int) A(1).i); return rVoid(); });
    reg("GEOSWKTWriter_setOutputDimension_r", "wktw i", "io", 2, [](Ctx& c, std::vector<Val>& a) { GEOSWKTWriter_setOutputDimension_r(H, (GEOSWKTWriter*) c.P(A(0)), (int) A(1).i); return rVoid(); });
    reg("GEOSWKTWriter_getOutputDimension_r", "wktw", "io", 1, [](Ctx& c, std::vector<Val>& a) { return rInt(GEOSWKTWriter_getOutputDimension_r(H, (GEOSWKTWriter*) c.P(A(0)))); });
    reg("GEOSWKTWriter_setOld3D_r", "wktw i", "io", 1, [](Ctx& c, std::vector<Val>& a) { GEOSWKTWriter_setOld3D_r(H, (GEOSWKTWriter*) c.P(A(0)), (int) A(1).i); return rVoid(); });
    reg("GEOSGeomToWKT_r", "g", "io", 2, [](Ctx& c, std::vector<Val>& a) { return rPtr(BUF, GEOSGeomToWKT_r(H, c.G(A(0)))); });
    reg("GEOSWKBReader_create_r", "", "io", 2, [](Ctx& c, std::vector<Val>&) { return rPtr(WKBR, GEOSWKBReader_create_r(H)); });
    reg("GEOSWKBReader_destroy_r", "wkbrX", "destroy", 1, [](Ctx& c, std::vector<Val>& a) { GEOSWKBReader_destroy_r(H, (GEOSWKBReader*) c.P(A(0))); return rVoid(); });
    reg("GEOSWKBReader_readHEX_r", "wkbr s:hex n", "io", 4, [](Ctx& c, std::vector<Val>& a) { return rGeom(GEOSWKBReader_readHEX_r(H, (GEOSWKBReader*) c.P(A(0)), (const unsigned char*) A(1).s.data(), A(1).s.size())); });
    reg("GEOSWKBReader_read_r", "wkbr s:wkb n", "io", 4, [](Ctx& c, std::vector<Val>& a) { return rGeom(GEOSWKBReader_read_r(H, (GEOSWKBReader*) c.P(A(0)), (const unsigned char*) A(1).s.data(), A(1).s.size())); });
    reg("GEOSWKBReader_setFixStructure_r", "wkbr i", "io", 1, [](Ctx& c, std::vector<Val>& a) { GEOSWKBReader_setFixStructure_r(H, (GEOSWKBReader*) c.P(A(0)), (char) (A(1).i & 1)); return rVoid(); });
    reg("GEOSGeomFromWKB_buf_r", "s:wkb n", "io", 2, [](Ctx& c, std::vector<Val>& a) { return rGeom(GEOSGeomFromWKB_buf_r(H, (const unsigned char*) A(0).s.data(), A(0).s.size())); });
    reg("GEOSGeomFromHEX_buf_r", "s:hex n", "io", 2, [](Ctx& c, std::vector<Val>& a) { return rGeom(GEOSGeomFromHEX_buf_r(H, (const unsigned char*) A(0).s.data(), A(0).s.size())); });
    reg("GEOSWKBWriter_create_r", "", "io", 2, [](Ctx& c, std::vector<Val>&) { return rPtr(WKBW, GEOSWKBWriter_create_r(H)); });
    reg("GEOSWKBWriter_destroy_r", "wkbwX", "destroy", 1, [](Ctx& c, std::vector<Val>& a) { GEOSWKBWriter_destroy_r(H, (GEOSWKBWriter*) c.P(A(0))); return rVoid(); });
    reg("GEOSWKBWriter_write_r", "wkbw g _", "io", 4, [](Ctx& c, std::vector<Val>& a) { size_t n = 0; return rPtr(BUF, GEOSWKBWriter_write_r(H, (GEOSWKBWriter*) c.P(A(0)), c.G(A(1)), &n)); });
    reg("GEOSWKBWriter_writeHEX_r", "wkbw g _", "io", 4, [](Ctx& c, std::vector<Val>& a) { size_t n = 0; return rPtr(BUF, GEOSWKBWriter_writeHEX_r(H, (GEOSWKBWriter*) c.P(A(0)), c.G(A(1)), &n)); });
    reg("GEOSWKBWriter_setOutputDimension_r", "wkbw i", "io", 2, [](Ctx& c, std::vector<Val>& a) { GEOSWKBWriter_setOutputDimension_r(H, (GEOSWKBWriter*) c.P(A(0)), (int) A(1).i); return rVoid(); });
    reg("GEOSWKBWriter_getOutputDimension_r", "wkbwc", "io", 1, [](Ctx& c, std::vector<Val>& a) { return rInt(GEOSWKBWriter_getOutputDimension_r(H, (const GEOSWKBWriter*) c.P(A(0)))); });
    reg("GEOSWKBWriter_setByteOrder_r", "wkbw i", "io", 2, [](Ctx& c, std::vector<Val>& a) { GEOSWKBWriter_setByteOrder_r(H, (GEOSWKBWriter*) c.P(A(0)), (int) A(1).i); return rVoid(); });
    reg("GEOSWKBWriter_getByteOrder_r", "wkbwc", "io", 1, [](Ctx& c, std::vector<Val>& a) { return rInt(GEOSWKBWriter_getByteOrder_r(H, (const GEOSWKBWriter*) c.P(A(0)))); });
    reg("GEOSWKBWriter_setFlavor_r", "wkbw i", "io", 2, [](Ctx& c, std::vector<Val>& a) { GEOSWKBWriter_setFlavor_r(H, (GEOSWKBWriter*) c.P(A(0)), (int) A(1).i); return rVoid(); });
    reg("GEOSWKBWriter_getFlavor_r", "wkbwc", "io", 1, [](Ctx& c, std::vector<Val>& a) { return rInt(GEOSWKBWriter_getFlavor_r(H, (const GEOSWKBWriter*) c.P(A(0)))); });
    reg("GEOSWKBWriter_setIncludeSRID_r", "wkbw i", "io", 2, [](Ctx& c, std::vector<Val>& a) { GEOSWKBWriter_setIncludeSRID_r(H, (GEOSWKBWriter*) c.P(A(0)), (char) (A(1).i & 1)); return rVoid(); });
    reg("GEOSWKBWriter_getIncludeSRID_r", "wkbwc", "io", 1, [](Ctx& c, std::vector<Val>& a) { return rChar(GEOSWKBWriter_getIncludeSRID_r(H, (const GEOSWKBWriter*) c.P(A(0)))); });
    reg("GEOSGeomToWKB_buf_r", "g _", "io", 2, [](Ctx& c, std::vector<Val>& a) { size_t n = 0; return rPtr(BUF, GEOSGeomToWKB_buf_r(H, c.G(A(0)), &n)); });
    reg("GEOSGeomToHEX_buf_r", "g _", "io", 2, [](Ctx& c, std::vector<Val>& a) { size_t n = 0; return rPtr(BUF, GEOSGeomToHEX_buf_r(H, c.G(A(0)), &n)); });
    reg("GEOSGeoJSONReader_create_r", "", "io", 2, [](Ctx& c, std::vector<Val>&) { return rPtr(JSONR, GEOSGeoJSONReader_create_r(H)); });
    reg("GEOSGeoJSONReader_destroy_r", "jrX", "destroy", 1, [](Ctx& c, std::vector<Val>& a) { GEOSGeoJSONReader_destroy_r(H, (GEOSGeoJSONReader*) c.P(A(0))); return rVoid(); });
    reg("GEOSGeoJSONReader_readGeometry_r", "jr s:json", "io", 4, [](Ctx& c, std::vector<Val>& a) { return rGeom(GEOSGeoJSONReader_readGeometry_r(H, (GEOSGeoJSONReader*) c.P(A(0)), A(1).s.c_str())); });
    reg("GEOSGeoJSONWriter_create_r", "", "io", 2, [](Ctx& c, std::vector<Val>&) { return rPtr(JSONW, GEOSGeoJSONWriter_create_r(H)); });
    reg("GEOSGeoJSONWriter_destroy_r", "jwX", "destroy", 1, [](Ctx& c, std::vector<Val>& a) { GEOSGeoJSONWriter_destroy_r(H, (GEOSGeoJSONWriter*) c.P(A(0))); return rVoid(); });
    reg("GEOSGeoJSONWriter_writeGeometry_r", "jw g i", "io", 4, [](Ctx& c, std::vector<Val>& a) { return rPtr(BUF, GEOSGeoJSONWriter_writeGeometry_r(H, (GEOSGeoJSONWriter*) c.P(A(0)), c.G(A(1)), (int) A(2).i)); });
    // ---- clustering: a cluster-information object owns the index arrays it hands out
#define CLU(f, spec, call) reg(#f, spec, "cluster", 1, [](Ctx& c, std::vector<Val>& a) { return rPtr(CLUSTER, call); });
    CLU(GEOSClusterDBSCAN_r, "g d iq", GEOSClusterDBSCAN_r(H, c.G(A(0)), A(1).d, (unsigned) A(2).i))
    CLU(GEOSClusterGeometryDistance_r, "g d", GEOSClusterGeometryDistance_r(H, c.G(A(0)), A(1).d))
    CLU(GEOSClusterGeometryIntersects_r, "g", GEOSClusterGeometryIntersects_r(H, c.G(A(0))))
    CLU(GEOSClusterEnvelopeDistance_r, "g d", GEOSClusterEnvelopeDistance_r(H, c.G(A(0)), A(1).d))
    CLU(GEOSClusterEnvelopeIntersects_r, "g", GEOSClusterEnvelopeIntersects_r(H, c.G(A(0))))
    reg("GEOSClusterInfo_getNumClusters_r", "ci", "cluster", 1, [](Ctx& c, std::vector<Val>& a) { return rInt((long) GEOSClusterInfo_getNumClusters_r(H, (const GEOSClusterInfo*) c.P(A(0)))); });
    // the size of cluster i is recounted from the cluster ids of the inputs (C++ view of the same object): fact Q<size>:<inputs whose id is i>
    reg("GEOSClusterInfo_getClusterSize_r", "ci i", "cluster", 1, [](Ctx& c, std::vector<Val>& a) {
        const GEOSClusterInfo* ci = (const GEOSClusterInfo*) c.P(A(0)); size_t i = (size_t) A(1).i; int m0 = g_msgs;
        long sz = (long) GEOSClusterInfo_getClusterSize_r(H, ci, i);
        if (g_msgs == m0) { auto ids = ((const geos::operation::cluster::Clusters*) ci)->getClusterIds(); long n = 0; for (auto id : ids) if (id == i) n++; g_cntObs = sz; g_cntExp = n; }
        return rInt(sz); });
    reg("GEOSClusterInfo_getInputsForClusterN_r", "ci i", "cluster", 1, [](Ctx& c, std::vector<Val>& a) { return rView(BUF, GEOSClusterInfo_getInputsForClusterN_r(H, (const GEOSClusterInfo*) c.P(A(0)), (size_t) A(1).i)); });
    reg("GEOSClusterInfo_getClustersForInputs_r", "ci", "cluster", 1, [](Ctx& c, std::vector<Val>& a) { return rPtr(BUF, GEOSClusterInfo_getClustersForInputs_r(H, (const GEOSClusterInfo*) c.P(A(0)))); });
    reg("GEOSClusterInfo_destroy_r", "ciX", "destroy", 1, [](Ctx& c, std::vector<Val>& a) { GEOSClusterInfo_destroy_r(H, (GEOSClusterInfo*) c.P(A(0))); return rVoid(); });
    // ---- interruption (global, non-reentrant part of the API): arms the next call of the sequence, see the head of this file
    reg("GEOS_interruptRegisterCallback", "ik", "interrupt", 0, [](Ctx& c, std::vector<Val>& a) { (void) c; g_pendingArm = A(0).i > 0 ? A(0).i : 0; return rVoid(); });
    // ---- parameter objects
    reg("GEOSBufferParams_create_r", "", "params", 3, [](Ctx& c, std::vector<Val>&) { return rPtr(BUFP, GEOSBufferParams_create_r(H)); });
    reg("GEOSBufferParams_destroy_r", "bpX", "destroy", 1, [](Ctx& c, std::vector<Val>& a) { GEOSBufferParams_destroy_r(H, (GEOSBufferParams*) c.P(A(0))); return rVoid(); });
    reg("GEOSBufferParams_setEndCapStyle_r", "bp i", "params", 2, [](Ctx& c, std::vector<Val>& a) { return rInt(GEOSBufferParams_setEndCapStyle_r(H, (GEOSBufferParams*) c.P(A(0)), (int) A(1).i)); });
    reg("GEOSBufferParams_setJoinStyle_r", "bp i", "params", 2, [](Ctx& c, std::vector<Val>& a) { return rInt(GEOSBufferParams_setJoinStyle_r(H, (GEOSBufferParams*) c.P(A(0)), (int) A(1).i)); });
    reg("GEOSBufferParams_setMitreLimit_r", "bp d", "params", 2, [](Ctx& c, std::vector<Val>& a) { return rInt(GEOSBufferParams_setMitreLimit_r(H, (GEOSBufferParams*) c.P(A(0)), A(1).d)); });
    reg("GEOSBufferParams_setQuadrantSegments_r", "bp iq", "params", 2, [](Ctx& c, std::vector<Val>& a) { return rInt(GEOSBufferParams_setQuadrantSegments_r(H, (GEOSBufferParams*) c.P(A(0)), (int) A(1).i)); });
    reg("GEOSBufferParams_setSingleSided_r", "bp i", "params", 2, [](Ctx& c, std::vector<Val>& a) { return rInt(GEOSBufferParams_setSingleSided_r(H, (GEOSBufferParams*) c.P(A(0)), (int) A(1).i)); });
    reg("GEOSMakeValidParams_create_r", "", "params", 3, [](Ctx& c, std::vector<Val>&) { return rPtr(MVP, GEOSMakeValidParams_create_r(H)); });
    reg("GEOSMakeValidParams_destroy_r", "mvpX", "destroy", 1, [](Ctx& c, std::vector<Val>& a) { GEOSMakeValidParams_destroy_r(H, (GEOSMakeValidParams*) c.P(A(0))); return rVoid(); });
    reg("GEOSMakeValidParams_setMethod_r", "mvp i01", "params", 2, [](Ctx& c, std::vector<Val>& a) { return rInt(GEOSMakeValidParams_setMethod_r(H, (GEOSMakeValidParams*) c.P(A(0)), (GEOSMakeValidMethods) A(1).i)); });
    reg("GEOSMakeValidParams_setKeepCollapsed_r", "mvp i", "params", 2, [](Ctx& c, std::vector<Val>& a) { return rInt(GEOSMakeValidParams_setKeepCollapsed_r(H, (GEOSMakeValidParams*) c.P(A(0)), (int) A(1).i)); });
}
#undef H
#undef A

// ----------------------------------------------------------------------------------------------- images (bit-exact; SRID included)
static std::string imageOf(const Slot& s) {
    try {
        if (s.kind == GEOM) return dumpGeom((const geos::geom::Geometry*) s.p);
        if (s.kind == CS) { std::vector<std::string> t; dumpSeq((const geos::geom::CoordinateSequence*) s.p, t); std::string r; for (auto& x : t) { r += x; r += ' '; } return r; }
    } catch (std::exception& e) { return std::string("image-exception:") + e.what(); }
    return "";
}
static const char* KNAME[] = {"geom", "cs", "prep", "tree", "wktr", "wktw", "wkbr", "wkbw", "jsonr", "jsonw", "bufp", "mvp", "buf", "cluster"};

// known big family: an index parameter beyond the size of the object it indexes (used to name the class, not to avoid it)
static bool oobIndex(const Fn& f, const Ctx& c, const std::vector<Val>& a) {
    using namespace geos::geom;
    try {
        if (f.name == "GEOSGetGeometryN_r" || f.name == "GEOSGetInteriorRingN_r" || f.name == "GEOSGeomGetPointN_r") {
            const Geometry* g = (const Geometry*) c.slots[a[0].id].p; long n = a[1].i; if (n < 0) return false;
            if (f.name == "GEOSGetGeometryN_r") { auto gc = dynamic_cast<const GeometryCollection*>(g); return gc && (size_t) n >= gc->getNumGeometries(); }
            if (f.name == "GEOSGetInteriorRingN_r") { auto su = dynamic_cast<const Surface*>(g); return su && (size_t) n >= su->getNumInteriorRing(); }
            auto sc = dynamic_cast<const SimpleCurve*>(g); return sc && (size_t) n >= sc->getNumPoints();
        }
        if (f.name == "GEOSClusterInfo_getClusterSize_r" || f.name == "GEOSClusterInfo_getInputsForClusterN_r") {
            auto cl = (const geos::operation::cluster::Clusters*) c.slots[a[0].id].p; return (size_t) a[1].i >= cl->getNumClusters(); }
        if (f.name.rfind("GEOSCoordSeq_get", 0) == 0 || f.name.rfind("GEOSCoordSeq_set", 0) == 0) {
            if (f.spec.size() < 2 || f.spec[1] != "i") return false;
            const CoordinateSequence* cs = (const CoordinateSequence*) c.slots[a[0].id].p; return (size_t) (unsigned) a[1].i >= cs->size();
        }
    } catch (...) {}
    return false;
}

// ----------------------------------------------------------------------------------------------- executing one call (child side)
struct Exec {
    long callNo = 0; std::set<long> skipCalls;   // generation: calls (by running number) that must not be executed again (they crashed)
    Ctx c; int out = 1;                       // fd for records
    std::map<int, int> name2slot;             // script result names -> actual slot ids (replay); identity in generation
    std::map<std::string, long> istat;        // interruption statistics
    long lastPolls = 0;                       // checkpoint polls seen during the last armed call
    // mirror of the contents of every tree (for the Q fact): envelope given at insertion, item address (complemented), usable flag
    struct TreeItem { double x0, y0, x1, y1; bool null, finite; uintptr_t item; };
    struct TreeMirror { std::vector<TreeItem> items; bool unsure = false; bool built = false; };
    std::map<int, TreeMirror> trees;
    static TreeItem envItem(const GEOSGeometry* g, const void* item) { const geos::geom::Envelope* en = ((const geos::geom::Geometry*) g)->getEnvelopeInternal(); TreeItem t;
        t.null = en->isNull(); t.x0 = t.y0 = t.x1 = t.y1 = 0; if (!t.null) { t.x0 = en->getMinX(); t.y0 = en->getMinY(); t.x1 = en->getMaxX(); t.y1 = en->getMaxY(); }
        t.finite = t.null || (std::isfinite(t.x0) && std::isfinite(t.y0) && std::isfinite(t.x1) && std::isfinite(t.y1)); t.item = ~(uintptr_t) item; return t; }
    bool leakAttr = false;                    // second pass over a leaking sequence: allocations are tagged with the running call; one marker per call on stderr
    void leakMark(long no, const std::string& fn, int msgs) { std::string m = "\n@@CALL " + std::to_string(no) + " " + fn + " " + std::to_string(msgs) + "\n";
        if (write(2, m.data(), m.size()) < 0) _exit(97); }
    void put(const std::string& s) { std::string t = s + "\n"; size_t off = 0; while (off < t.size()) { ssize_t k = write(out, t.data() + off, t.size() - off); if (k <= 0) _exit(97); off += (size_t) k; } }

    static std::string tok(const Val& v) {
        switch (v.k) {
            case 'o': return "o" + std::to_string(v.id);
            case 'a': { std::string s = "a:"; for (size_t i = 0; i < v.ids.size(); i++) { if (i) s += ","; s += std::to_string(v.ids[i]); } return s; }
            case 'n': return "n";
            case 'd': return "d:" + hex(v.d);
            case 'i': return "i:" + std::to_string(v.i);
            case 's': return "s:" + hexs(v.s);
            default: return "_"; }
    }

    // the mirror of `legal` for the object arguments of one call
    bool legalArgs(const Fn& f, const std::vector<Val>& a) const {
        // documented precondition: once a tree was built (build / query / nearest / remove) "no more items may be added"
        if (f.name == "GEOSSTRtree_insert_r" && !a.empty() && a[0].k == 'o') { auto it = trees.find(a[0].id); if (it != trees.end() && it->second.built) return false; }
        std::vector<int> excl, ro;
        for (size_t k = 0; k < f.spec.size(); k++) {
            PSpec p = pspec(f.spec[k]); if (!p.isObj) continue;
            std::vector<int> ids; if (a[k].k == 'o') ids.push_back(a[k].id); else if (a[k].k == 'a') ids = a[k].ids; else continue;
            for (int i : ids) {
                if (i < 0 || i >= (int) c.slots.size() || !c.slots[i].live || c.slots[i].kind != p.kind) return false;
                if (p.mode == 'x' || p.mode == 'm') { if (!c.exclOk(i)) return false; excl.push_back(i); } else ro.push_back(i);
            }
        }
        std::set<int> es(excl.begin(), excl.end()); if (es.size() != excl.size()) return false;
        for (int i : ro) if (es.count(c.root(i))) return false;
        return true;
    }

    // run one call, emit "B"/"A" records; returns false when the call was skipped
    bool doCall(const Fn& f, std::vector<Val>& a, const std::vector<int>& resNames) {
        long arm = 0; if (f.cat != "interrupt") { arm = g_pendingArm; g_pendingArm = 0; }     // an armed interruption belongs to exactly the next call, executed or not
        if (!legalArgs(f, a)) return false;
        long no = callNo++;
        if (skipCalls.count(no)) return false;
        std::string line = f.name; for (auto& v : a) line += " " + tok(v);
        bool oob = oobIndex(f, c, a);
        put("B " + std::to_string(no) + " " + (oob ? "#oob" : "#") + " " + line);
        // SRID of the first read geometry argument
        int firstSrid = 0; bool haveFirst = false;
        for (size_t k = 0; k < f.spec.size() && !haveFirst; k++) { PSpec p = pspec(f.spec[k]);
            if (p.isObj && p.kind == GEOM && (p.mode == 'c' || p.mode == 'r') && f.spec[k] != "item") {
                if (a[k].k == 'o') { firstSrid = ((const geos::geom::Geometry*) c.slots[a[k].id].p)->getSRID(); haveFirst = true; }
                else if (a[k].k == 'a' && !a[k].ids.empty()) { firstSrid = ((const geos::geom::Geometry*) c.slots[a[k].ids[0]].p)->getSRID(); haveFirst = true; }
                else if (a[k].k == 'a' || a[k].k == 'n') break; } }
        std::vector<int> consumed, mutated, retained; int firstObj = -1;
        for (size_t k = 0; k < f.spec.size(); k++) { PSpec p = pspec(f.spec[k]); if (!p.isObj) continue;
            std::vector<int> ids; if (a[k].k == 'o') ids.push_back(a[k].id); else if (a[k].k == 'a') ids = a[k].ids;
            for (int i : ids) { if (firstObj < 0) firstObj = i; if (p.mode == 'x') consumed.push_back(i); else if (p.mode == 'm') mutated.push_back(i); else if (p.mode == 'r') retained.push_back(c.root(i)); } }
        int ownerOfView = firstObj >= 0 ? c.root(firstObj) : -1;
        g_msgs = 0;
        // consumed geometries / coordinate sequences: watched by the free hook while the call runs
        std::vector<int> watched; g_nwatch = 0; g_freedMask = 0;
        for (int i : consumed) if ((c.slots[i].kind == GEOM || c.slots[i].kind == CS) && g_nwatch < 32) { g_watch[g_nwatch++] = ~(uintptr_t) c.slots[i].p; watched.push_back(i); }
        // GEOSSTRtree_query_r: what a scan of the inserted items gives
        std::string Q = "Q-"; TreeItem qenv{}; bool isQuery = f.name == "GEOSSTRtree_query_r", isInsert = f.name == "GEOSSTRtree_insert_r", isRemove = f.name == "GEOSSTRtree_remove_r";
        if (isQuery || isInsert || isRemove) qenv = envItem(c.G(a[1]), isQuery ? nullptr : c.P(a[2]));
        g_lastHits = -1; g_cntObs = g_cntExp = -1;
        if (arm > 0) { g_armK = arm; g_polls = 0; g_fired = 0; GEOS_interruptCancel(); GEOS_interruptRegisterCallback(interruptcb); }
        g_curCall = no;
        Ret r = f.call(c, a);
        g_curCall = -2;
        int msgs = g_msgs;
        unsigned freedMask = g_freedMask; g_nwatch = 0; for (auto& w : g_watch) w = 0;
        std::string F = "F"; { bool anyF = false; for (size_t i = 0; i < watched.size(); i++) if (freedMask & (1u << i)) { F += (anyF ? "," : "") + std::to_string(watched[i]); anyF = true; } if (!anyF) F += "-"; }
        if (isInsert && !msgs) trees[a[0].id].items.push_back(qenv);
        if ((f.name == "GEOSSTRtree_build_r" || isQuery || isRemove || f.name == "GEOSSTRtree_nearest_r" || f.name == "GEOSSTRtree_nearest_generic_r") && a[0].k == 'o') trees[a[0].id].built = true;
        if (isRemove) { TreeMirror& tm = trees[a[0].id]; if (msgs) tm.unsure = true; else if (r.ival == 1) { std::vector<size_t> cand; for (size_t i = 0; i < tm.items.size(); i++) if (tm.items[i].item == qenv.item) cand.push_back(i);
            if (cand.size() == 1) tm.items.erase(tm.items.begin() + (long) cand[0]); else tm.unsure = true; } }
        if (isQuery && !msgs && arm == 0 && g_lastHits >= 0) { TreeMirror& tm = trees[a[0].id]; bool usable = !tm.unsure && qenv.finite; long scan = 0;
            for (auto& t : tm.items) { if (!t.finite) usable = false; if (!t.null && !qenv.null && !(t.x0 > qenv.x1 || t.x1 < qenv.x0 || t.y0 > qenv.y1 || t.y1 < qenv.y0)) scan++; }
            if (usable) Q = "Q" + std::to_string(g_lastHits) + ":" + std::to_string(scan); }
        else if (!isQuery && !msgs && arm == 0 && g_cntObs >= 0) Q = "Q" + std::to_string(g_cntObs) + ":" + std::to_string(g_cntExp);
        if (arm > 0) { GEOS_interruptRegisterCallback(nullptr); GEOS_interruptCancel(); g_armK = 0; lastPolls = g_polls;
            istat["interrupt_armed_calls"]++; istat["interrupt_polls_seen"] += g_polls; if (g_polls) istat["interrupt_armed_calls_that_poll"]++;
            if (g_fired) { istat["interrupt_requested"]++; istat[msgs ? "interrupt_ended_with_error_and_message" : "interrupt_absorbed_call_completed"]++; } }
        // ---- effects on the mirror
        std::set<int> ex(consumed.begin(), consumed.end()); ex.insert(mutated.begin(), mutated.end());
        for (size_t i = 0; i < c.slots.size(); i++) { Slot& s = c.slots[i]; if (!s.live) continue;
            if (std::find(consumed.begin(), consumed.end(), (int) i) != consumed.end()) s.live = false;
            else if (std::find(mutated.begin(), mutated.end(), (int) i) != mutated.end()) s.borrows.insert(s.borrows.end(), retained.begin(), retained.end());
            else if (s.owner >= 0 && ex.count(s.owner)) s.live = false;
            // the address of a dead object is forgotten: an object that GEOS was given and did not free must not stay reachable from this table
            // (the leak detector reports unreachable memory only)
            if (!s.live) { s.p = nullptr; if (s.kind == TREE) trees.erase((int) i); } }
        // ---- result slots
        std::string rtok;
        switch (r.cls) { case 'p': rtok = r.null ? "p0" : "p1"; break; case 'c': rtok = "c:" + std::to_string(r.ival); break; case 'i': rtok = "i:" + std::to_string(r.ival); break;
                         case 'd': rtok = "d:" + hex(r.dval); break; default: rtok = "v"; }
        std::string R = "R", alias = "a-";
        std::vector<int> newIds;
        for (size_t k = 0; k < r.objs.size(); k++) {
            if (!r.borrowed) for (size_t i = 0; i < c.slots.size(); i++) if (c.slots[i].live && c.slots[i].p == r.objs[k].second) alias = "a" + std::to_string(i);
            Slot s; s.kind = r.objs[k].first; s.p = r.objs[k].second; s.live = true; s.owner = r.borrowed ? ownerOfView : -1; if (!r.borrowed) s.borrows = retained;
            c.slots.push_back(s); int id = (int) c.slots.size() - 1; newIds.push_back(id);
            if (k < resNames.size()) name2slot[resNames[k]] = id;
            R += (k ? "," : "") + std::to_string(id);
        }
        if (r.objs.empty()) R += "-";
        std::string srid = "s-";
        if (haveFirst && !r.objs.empty() && r.objs[0].first == GEOM && !r.borrowed)
            srid = "s" + std::to_string(firstSrid) + ":" + std::to_string(((const geos::geom::Geometry*) r.objs[0].second)->getSRID());
        // ---- images: which live objects changed?
        std::string M = "M"; bool any = false;
        for (size_t i = 0; i < c.slots.size(); i++) { Slot& s = c.slots[i]; if (!s.live || (s.kind != GEOM && s.kind != CS)) continue;
            std::string im = imageOf(s);
            bool isNew = std::find(newIds.begin(), newIds.end(), (int) i) != newIds.end();
            if (!isNew && im != s.img) { M += (any ? "," : "") + std::to_string(i); any = true; }
            s.img = im; }
        if (!any) M += "-";
        put("A " + rtok + " m" + (msgs ? "1" : "0") + " " + R + " " + alias + " " + srid + " " + M + (oob ? " O1" : " O0") + " " + F + " " + Q);
        if (leakAttr) leakMark(no, f.name, msgs ? 1 : 0);
        return true;
    }
};

// ----------------------------------------------------------------------------------------------- generator (child side)
struct Gen {
    Rng& r; Exec& e; std::map<std::string, long>& stat;
    Gen(Rng& rr, Exec& ee, std::map<std::string, long>& st) : r(rr), e(ee), stat(st) {}
    std::vector<int> liveOf(K k, bool excl, const std::set<int>& avoidRoots) {
        std::vector<int> v; for (size_t i = 0; i < e.c.slots.size(); i++) { const Slot& s = e.c.slots[i];
            if (!s.live || s.kind != k) continue; if (excl && !e.c.exclOk((int) i)) continue; if (avoidRoots.count(e.c.root((int) i))) continue; v.push_back((int) i); } return v;
    }
    double dbl(bool tol) { if (r.chance(25)) return (r.unit() - 0.5) * std::pow(10.0, r.range(-2, 3)); if (tol) return TPOOL[r.below(sizeof TPOOL / sizeof TPOOL[0])]; return DPOOL[r.below(sizeof DPOOL / sizeof DPOOL[0])]; }
    // pathological-but-legal text: one very long token (around and well beyond the sizes of fixed message buffers) in an otherwise
    // ordinary input.  Most variants are rejected with a message that echoes the token; some are valid input.
    std::string longText(const std::string& kind) {
        size_t n = r.chance(8) ? 70000 : LONGLEN[r.below(sizeof LONGLEN / sizeof LONGLEN[0])]; if (r.chance(30)) n += r.below(64);
        std::string w(n, (char) ('A' + r.below(26)));
        stat["lit_longtoken_" + kind]++;
        if (kind == "wkt" || kind == "wktany") switch (r.below(8)) {
            case 0: return w + " (1 1)";                                   // unknown type
            case 1: return "POINT (" + w + " 1)";                          // a word where a number is expected
            case 2: return "LINESTRING " + w;                              // a word where Z / M / EMPTY / ( is expected
            case 3: return "POINT (1 1 " + w + ")";                        // a word where ) or , is expected
            case 4: return "POLYGON ((0 0, 1 0, 1 1, 0 0) " + w;           // a word where ) is expected
            case 5: return "POINT (1." + std::string(n, '0') + "1 2)";     // valid: a very long number
            case 6: { std::string t = "LINESTRING ("; for (size_t i = 0; i < std::min<size_t>(n / 12 + 2, 200); i++) { if (i) t += ", "; t += std::to_string(i % 97) + " " + std::to_string((i * 7) % 89); } return t + ")"; }   // valid: many vertices (capped: this zigzag crosses itself ~k^2/4 times, and operations whose OUTPUT is quadratic in k cannot be "prompt" for thousands of vertices)
            default: return "GEOMETRYCOLLECTION (POINT (1 1), " + w + " EMPTY)"; }
        if (kind == "json") switch (r.below(5)) {
            case 0: return "{\"type\":\"" + w + "\",\"coordinates\":[1,2]}";
            case 1: return "{\"type\":\"Point\",\"coordinates\":[" + std::string(n, '1') + ",2]}";
            case 2: return w;
            case 3: return "{\"type\":\"Point\",\"" + w + "\":1,\"coordinates\":[1,2]}";          // valid: a long foreign member name
            default: return "{\"type\":\"Point\",\"coordinates\":[1," + w + "]}"; }
        if (kind == "hex") switch (r.below(4)) {
            case 0: return std::string(n, 'F');
            case 1: return "0101000000000000000000F03F0000000000000040" + w;
            case 2: return std::string(n, '0');
            default: return w; }
        if (kind == "wkb") { std::string b = r.chance(50) ? unhex("0101000000000000000000F03F0000000000000040") : std::string(); return b + std::string(n, r.chance(50) ? (char) 0xFF : (char) 0); }
        if (kind == "pat") return r.chance(50) ? std::string(n, 'T') : "T*F**FFF*" + w;
        return w;
    }
    std::string str(const std::string& kind) {
        if (kind != "dbl" && r.chance(kind == "wkt" ? 4 : 8)) return longText(kind);
        if (kind == "wkt") {
            if (r.chance(22)) { stat["lit_structured"]++; auto& g = genPool().all; return g[r.below(g.size())]; }
            int i = (int) r.below(N_WKT); stat[std::string("lit_") + WKT_CLASS(i)]++; return WKT_POOL[i]; }
        if (kind == "wktany") { if (r.chance(25)) { stat["lit_badwkt"]++; return BAD_WKT[r.below(sizeof BAD_WKT / sizeof BAD_WKT[0])]; } return str("wkt"); }
        if (kind == "pat") return PATTERNS[r.below(sizeof PATTERNS / sizeof PATTERNS[0])];
        if (kind == "json") return JSON_POOL[r.below(sizeof JSON_POOL / sizeof JSON_POOL[0])];
        if (kind == "hex") return HEX_POOL[r.below(sizeof HEX_POOL / sizeof HEX_POOL[0])];
        if (kind == "wkb") { std::string h = HEX_POOL[r.below(sizeof HEX_POOL / sizeof HEX_POOL[0])]; std::string b; try { b = unhex(h); } catch (...) { b = h; }
            if (r.chance(20) && !b.empty()) b.resize(r.below(b.size())); if (r.chance(10) && !b.empty()) b[r.below(b.size())] = (char) r.below(256); return b; }
        if (kind == "dbl") { int n = (int) r.below(9); std::string b; for (int i = 0; i < n * 2; i++) { double d = dbl(false); b.append((const char*) &d, 8); } return b; }
        return "";
    }
    // a coordinate-like parameter: half of the time placed relative to the envelope of a live geometry (the first geometry argument if there is one)
    bool envOf(int id, double& x0, double& y0, double& x1, double& y1) {
        if (id < 0 || id >= (int) e.c.slots.size() || !e.c.slots[id].live || e.c.slots[id].kind != GEOM) return false;
        const geos::geom::Envelope* en = ((const geos::geom::Geometry*) e.c.slots[id].p)->getEnvelopeInternal();
        if (!en || en->isNull() || !std::isfinite(en->getMinX()) || !std::isfinite(en->getMaxX()) || !std::isfinite(en->getMinY()) || !std::isfinite(en->getMaxY())) return false;
        x0 = en->getMinX(); y0 = en->getMinY(); x1 = en->getMaxX(); y1 = en->getMaxY(); return true;
    }
    // choose arguments; false if the function cannot be called legally now
    bool pick(const Fn& f, std::vector<Val>& a) {
        a.assign(f.spec.size(), Val());
        std::set<int> exclRoots, used;
        bool haveEnv = false, triedEnv = false; double ex0 = 0, ey0 = 0, ex1 = 0, ey1 = 0; size_t lastFx = (size_t) -1, lastFy = (size_t) -1;
        // pass 1: consumed / modified
        for (size_t k = 0; k < f.spec.size(); k++) { PSpec p = pspec(f.spec[k]); if (!p.isObj || (p.mode != 'x' && p.mode != 'm')) continue;
            auto cand = liveOf(p.kind, true, used);
            if (p.isArr) { int n = r.chance(30) ? 0 : (int) r.below(4); a[k].k = 'a';
                for (int j = 0; j < n && !cand.empty(); j++) { size_t q = r.below(cand.size()); a[k].ids.push_back(cand[q]); used.insert(cand[q]); exclRoots.insert(cand[q]); cand.erase(cand.begin() + (long) q); } }
            else { if (cand.empty()) return false; int id = cand[r.below(cand.size())]; if (r.chance(60)) id = cand.back(); a[k].k = 'o'; a[k].id = id; used.insert(id); exclRoots.insert(id); } }
        // pass 2: read-only objects and scalars
        for (size_t k = 0; k < f.spec.size(); k++) { const std::string& code = f.spec[k]; PSpec p = pspec(code);
            if (p.isObj) { if (p.mode == 'x' || p.mode == 'm') continue;
                auto cand = liveOf(p.kind, false, exclRoots);
                if (code == "g?" && r.chance(40)) { a[k].k = 'n'; continue; }
                if (p.isArr) { a[k].k = 'a'; int n = r.chance(20) ? 0 : (int) r.below(4); for (int j = 0; j < n && !cand.empty(); j++) a[k].ids.push_back(cand[r.below(cand.size())]); continue; }
                if (forceGeom >= 0 && p.kind == GEOM && std::find(cand.begin(), cand.end(), forceGeom) != cand.end()) { a[k].k = 'o'; a[k].id = forceGeom; forceGeom = -1; continue; }
                if (forceGeom >= 0 && p.kind == PREP) { int pid = -1; for (int c2 : cand) if (!e.c.slots[c2].borrows.empty() && e.c.slots[c2].borrows[0] == forceGeom) pid = c2; if (pid >= 0) { a[k].k = 'o'; a[k].id = pid; forceGeom = -1; continue; } }
                if (cand.empty()) return false; a[k].k = 'o'; a[k].id = r.chance(50) ? cand[cand.size() - 1 - r.below(std::min<size_t>(cand.size(), 3))] : cand[r.below(cand.size())]; continue; }
            if (code == "d" || code == "dt") { a[k].k = 'd'; a[k].d = dbl(code == "dt"); }
            else if (code == "dx" || code == "dy") { a[k].k = 'd'; a[k].d = dbl(false);
                if (!haveEnv && !triedEnv) { triedEnv = true; int gid = -1; for (size_t q = 0; q < f.spec.size() && gid < 0; q++) if (a[q].k == 'o' && e.c.slots[a[q].id].kind == GEOM) gid = a[q].id;
                    if (gid < 0) for (size_t q = 0; q < f.spec.size() && gid < 0; q++) if (a[q].k == 'o' && e.c.slots[a[q].id].kind == PREP && !e.c.slots[a[q].id].borrows.empty()) gid = e.c.slots[a[q].id].borrows[0];
                    if (gid < 0) { auto cand = liveOf(GEOM, false, {}); if (!cand.empty()) gid = cand[r.below(cand.size())]; }
                    haveEnv = r.chance(envPct) && envOf(gid, ex0, ey0, ex1, ey1); if (haveEnv) stat["coord_params_envelope_relative"]++; }
                if (haveEnv) { size_t nf = sizeof FPOOL / sizeof FPOOL[0]; bool isx = code == "dx"; size_t& lastI = isx ? lastFx : lastFy;
                    size_t fi = r.below(nf); if (lastI != (size_t) -1 && fi <= lastI && r.chance(85)) fi = std::min(nf - 1, lastI + 1 + r.below(nf - lastI));   // a second x / y is mostly beyond the first: a proper window
                    lastI = fi; double fr = r.chance(15) ? r.unit() * 1.4 - 0.2 : FPOOL[fi];
                    a[k].d = isx ? ex0 + fr * (ex1 - ex0) : ey0 + fr * (ey1 - ey0); } }
            else if (code == "i") { a[k].k = 'i'; a[k].i = r.chance(30) ? r.range(-2, 9) : IPOOL[r.below(sizeof IPOOL / sizeof IPOOL[0])]; }
            else if (code == "ict") { static const long CT[] = {4, 5, 6, 7, 11, 12}; a[k].k = 'i'; a[k].i = r.chance(65) ? CT[r.below(6)] : r.chance(30) ? r.range(-2, 14) : IPOOL[r.below(sizeof IPOOL / sizeof IPOOL[0])]; }   // collection type: mostly a collection type id
            else if (code == "i01") { a[k].k = 'i'; a[k].i = (long) r.below(2); }   // enum-TYPED C parameter: only its enumerators (listed exclusion)
            else if (code == "iq") { a[k].k = 'i'; a[k].i = r.chance(30) ? r.range(0, 6) : QPOOL[r.below(sizeof QPOOL / sizeof QPOOL[0])]; }
            else if (code.rfind("s:", 0) == 0) { a[k].k = 's'; a[k].s = str(code.substr(2)); }
            else if (code == "n") { a[k].k = 'i'; a[k].i = k ? (a[k - 1].k == 'a' ? (long) a[k - 1].ids.size() : (long) a[k - 1].s.size()) : 0; }
            else a[k].k = '_'; }
        return true;
    }
    void destroyAll() {   // borrowers first, then everything caller-owned; views die with their parents
        static const std::map<K, const char*> D = { {GEOM, "GEOSGeom_destroy_r"}, {CS, "GEOSCoordSeq_destroy_r"}, {PREP, "GEOSPreparedGeom_destroy_r"}, {TREE, "GEOSSTRtree_destroy_r"},
            {WKTR, "GEOSWKTReader_destroy_r"}, {WKTW, "GEOSWKTWriter_destroy_r"}, {WKBR, "GEOSWKBReader_destroy_r"}, {WKBW, "GEOSWKBWriter_destroy_r"}, {JSONR, "GEOSGeoJSONReader_destroy_r"},
            {JSONW, "GEOSGeoJSONWriter_destroy_r"}, {BUFP, "GEOSBufferParams_destroy_r"}, {MVP, "GEOSMakeValidParams_destroy_r"}, {BUF, "GEOSFree_r"}, {CLUSTER, "GEOSClusterInfo_destroy_r"} };
        for (int round = 0; round < 4; round++)
            for (int i = (int) e.c.slots.size() - 1; i >= 0; i--) { if (!e.c.exclOk(i)) continue;
                const Fn& f = FNS[FNIDX[D.at(e.c.slots[i].kind)]]; std::vector<Val> a(1); a[0].k = 'o'; a[0].id = i; e.doCall(f, a, {}); }
    }
    // ---- scenario openings: arguments in a particular relative position, so that the rarely taken branches of the prepared predicates, the
    // window operations and the message path are reached in every run.  All calls go through doCall like any other.
    int call1(const char* fn, std::vector<Val> a) { auto it = FNIDX.find(fn); if (it == FNIDX.end()) return -1; size_t before = e.c.slots.size();
        if (!e.doCall(FNS[it->second], a, {})) return -1; return e.c.slots.size() > before ? (int) e.c.slots.size() - 1 : -2; }
    static Val S(const std::string& w) { Val v; v.k = 's'; v.s = w; return v; }
    static Val O(int id) { Val v; v.k = 'o'; v.id = id; return v; }
    static Val I(long i) { Val v; v.k = 'i'; v.i = i; return v; }
    // arm the next call: an interruption is requested at its k-th checkpoint poll
    void armAt(long k) { call1("GEOS_interruptRegisterCallback", {I(k)}); stat["interrupt_arm_pseudo_calls"]++; }
    void arm() { armAt(KPOOL[r.below(sizeof KPOOL / sizeof KPOOL[0])]); }
    // targeted interruption: the call once with a callback that only counts its polls (k beyond reach), then the same call again interrupted at a
    // uniformly chosen one of them
    bool callProbed(const Fn& f, std::vector<Val>& a) {
        armAt(COUNT_ONLY); e.lastPolls = 0; bool ok = e.doCall(f, a, {}); long P = e.lastPolls;
        if (ok && P > 0) { stat["interrupt_targeted_calls"]++; armAt(1 + (long) r.below((uint64_t) std::min(P, COUNT_ONLY - 1))); std::vector<Val> b = a; e.doCall(f, b, {}); }
        return ok;
    }
    // armPct: how often the call is interrupted (half blind k from the pool, half targeted)
    bool callMaybeArmed(const Fn& f, std::vector<Val>& a, int armPct) { if (interruptible(f) && r.chance(armPct)) { if (r.chance(50)) return callProbed(f, a); arm(); } return e.doCall(f, a, {}); }
    bool interruptible(const Fn& f) const { return f.cat == "pred" || f.cat == "constr" || f.cat == "prep" || f.cat == "measure" || f.cat == "mutate" || f.cat == "io" || f.cat == "tree" || f.cat == "create" || f.cat == "cluster"; }
    int forceGeom = -1;       // pick(): use this object for the first read-only geometry parameter
    int envPct = 65;          // pick(): how often coordinate-like parameters are placed relative to the envelope of the geometry argument
    // a call of `fn` with arguments chosen by pick(), its first geometry argument being `gid`; armed with probability armPct
    int callOn(const char* fn, int gid, int armPct) { auto it = FNIDX.find(fn); if (it == FNIDX.end()) return -1; const Fn& f = FNS[it->second]; std::vector<Val> a;
        forceGeom = gid; bool ok = pick(f, a); forceGeom = -1; if (!ok) return -1;
        size_t before = e.c.slots.size(); if (!callMaybeArmed(f, a, armPct)) return -1; return e.c.slots.size() > before ? (int) e.c.slots.size() - 1 : -2; }
    // container / content pair: a prepared container and every prepared / binary predicate and some overlays on the pair
    void scenarioPair() {
        static const char* P[] = {"POLYGON ((0 0, 10 0, 10 10, 7 10, 7 3, 3 3, 3 10, 0 10, 0 0))", "POLYGON ((0 0, 10 0, 10 10, 0 10, 0 0), (2 2, 4 2, 4 4, 2 4, 2 2))",
            "MULTIPOLYGON (((0 0, 20 0, 20 20, 0 20, 0 0), (2 2, 18 2, 18 18, 2 18, 2 2)), ((4 4, 16 4, 16 16, 4 16, 4 4), (6 6, 14 6, 14 14, 6 14, 6 6)))",
            "POLYGON ((-5 -5, 30 -5, 30 30, -5 30, -5 -5), (2 2, 4 2, 4 4, 2 4, 2 2), (6 6, 8 6, 8 8, 6 8, 6 6))"};
        static const char* L[] = {"LINESTRING (1.5 8, 8.5 8)", "MULTILINESTRING ((1.5 8, 8.5 8), (1 9, 9 9))", "LINESTRING (1 3, 5 3)", "POLYGON ((1 1, 9 1, 9 2, 1 2, 1 1))", "MULTIPOINT ((1 1), (5 5), (9 9))"};
        bool small = r.chance(25); const GenPool& g = genPool();
        int p = call1("GEOSGeomFromWKT_r", {S(small ? std::string(P[r.below(4)]) : g.cont[r.below(g.cont.size())])});
        int l = call1("GEOSGeomFromWKT_r", {S(small ? std::string(L[r.below(5)]) : g.content[r.below(g.content.size())])}); if (p < 0 || l < 0) return;
        if (r.chance(15)) std::swap(p, l);
        int pr = call1("GEOSPrepare_r", {O(p)}); if (pr < 0) return;
        static const char* PP[] = {"GEOSPreparedContains_r", "GEOSPreparedContainsProperly_r", "GEOSPreparedCoveredBy_r", "GEOSPreparedCovers_r", "GEOSPreparedCrosses_r", "GEOSPreparedDisjoint_r",
            "GEOSPreparedIntersects_r", "GEOSPreparedOverlaps_r", "GEOSPreparedTouches_r", "GEOSPreparedWithin_r"};
        for (int round = 0; round < 2; round++) for (auto fn : PP) if (r.chance(75)) { std::vector<Val> a = {O(pr), O(l)}; callMaybeArmed(FNS[FNIDX[fn]], a, 12); }
        static const char* BP[] = {"GEOSContains_r", "GEOSCovers_r", "GEOSIntersects_r", "GEOSWithin_r", "GEOSCrosses_r", "GEOSTouches_r", "GEOSRelate_r", "GEOSIntersection_r", "GEOSDifference_r", "GEOSSymDifference_r", "GEOSUnion_r",
            "GEOSPreparedRelate_r", "GEOSPreparedNearestPoints_r"};
        for (auto fn : BP) if (r.chance(35)) { bool prep = std::string(fn).rfind("GEOSPrepared", 0) == 0; std::vector<Val> a = {O(prep ? pr : p), O(l)}; callMaybeArmed(FNS[FNIDX[fn]], a, 35); }
        stat["scenario_pair"]++;
    }
    // a container with holes and window / unary operations placed relative to its envelope, many of them interrupted at the k-th poll
    void scenarioWindow() {
        const GenPool& g = genPool(); auto& pool = r.chance(75) ? g.holed : g.cont; int p = call1("GEOSGeomFromWKT_r", {S(pool[r.below(pool.size())])}); if (p < 0) return;
        if (r.chance(50)) call1("GEOSPrepare_r", {O(p)});
        envPct = 92; int n = r.range(4, 9); for (int i = 0; i < n; i++) callOn("GEOSClipByRect_r", p, 75); envPct = 65;
        static const char* U[] = {"GEOSBuffer_r", "GEOSConvexHull_r", "GEOSMakeValid_r", "GEOSUnaryUnion_r", "GEOSPointOnSurface_r", "GEOSisValid_r", "GEOSBoundary_r", "GEOSSimplify_r", "GEOSPreparedContainsXY_r", "GEOSNode_r", "GEOSBuildArea_r",
            "GEOSMaximumInscribedCircle_r", "GEOSGetCentroid_r", "GEOSisSimple_r", "GEOSDelaunayTriangulation_r", "GEOSPolygonize_full_r"};
        for (auto fn : U) if (r.chance(30)) callOn(fn, p, 60);
        stat["scenario_window"]++;
    }
    // readers fed with one very long token
    void scenarioLongText() {
        int wr = call1("GEOSWKTReader_create_r", {}), jr = call1("GEOSGeoJSONReader_create_r", {}), br = call1("GEOSWKBReader_create_r", {});
        for (int i = 0; i < 2; i++) {
            if (wr >= 0) call1("GEOSWKTReader_read_r", {O(wr), S(longText("wkt"))});
            call1("GEOSGeomFromWKT_r", {S(longText("wkt"))});
            if (jr >= 0 && r.chance(70)) call1("GEOSGeoJSONReader_readGeometry_r", {O(jr), S(longText("json"))});
            if (br >= 0 && r.chance(70)) { std::string h = longText("hex"); call1("GEOSWKBReader_readHEX_r", {O(br), S(h), I((long) h.size())}); }
            if (br >= 0 && r.chance(40)) { std::string h = longText("wkb"); call1("GEOSWKBReader_read_r", {O(br), S(h), I((long) h.size())}); }
            if (r.chance(40)) { std::string h = longText("hex"); call1("GEOSGeomFromHEX_buf_r", {S(h), I((long) h.size())}); }
        }
        auto gs = liveOf(GEOM, false, {}); if (gs.size() >= 1 && r.chance(60)) call1("GEOSRelatePattern_r", {O(gs[0]), O(gs[gs.size() - 1]), S(longText("pat"))});
        stat["scenario_longtext"]++;
    }
    static Val D(double d) { Val v; v.k = 'd'; v.d = d; return v; }
    static Val ARR(const std::vector<int>& ids) { Val v; v.k = 'a'; v.ids = ids; return v; }
    static Val U() { return Val(); }
    int lit(const std::string& wkt) { return call1("GEOSGeomFromWKT_r", {S(wkt)}); }
    // a coordinate sequence of n points (2 or 3 dimensions); closed: the last point repeats the first
    int seqOf(int n, bool closed) { int cs = call1("GEOSCoordSeq_create_r", {I(n), I(r.chance(80) ? 2 : 3)}); if (cs < 0) return -1;
        for (int i = 0; i < n; i++) { bool lastPt = closed && i == n - 1 && n > 1; double x = lastPt ? 0 : (double) (i % 3) * 4 + (i / 3), y = lastPt ? 0 : (double) ((i + 1) % 3) * 3 - (i / 3);
            if (i == 0) { x = 0; y = 0; } call1("GEOSCoordSeq_setXY_r", {O(cs), I(i), D(x), D(y)}); }
        return cs; }
    // ---- ownership on refusal: every constructor that takes ownership of its arguments is called with argument lists that it accepts and
    // with lists it must refuse (a member of the wrong class at position k of n, an empty shell with holes, sections that do not join, a sequence
    // of the wrong size / not closed).  Refused or not, the arguments are gone for the caller: GEOS must have freed them (F fact, leak check).
    void scenarioCtorOwnership() {
        static const char* PT[] = {"POINT (1 2)", "POINT EMPTY", "POINT Z (1 2 3)"};
        static const char* LS[] = {"LINESTRING (0 0, 5 5)", "LINESTRING EMPTY", "LINESTRING (5 5, 9 0, 9 9)", "LINEARRING (0 0, 4 0, 4 4, 0 0)"};
        static const char* RG[] = {"LINEARRING (0 0, 40 0, 40 40, 0 40, 0 0)", "LINEARRING (1 1, 2 1, 2 2, 1 1)", "LINEARRING (5 5, 6 5, 6 6, 5 5)", "LINEARRING EMPTY", "LINEARRING (10 10, 12 10, 12 12, 10 10)"};
        static const char* PG[] = {"POLYGON ((0 0, 10 0, 10 10, 0 10, 0 0))", "POLYGON EMPTY", "POLYGON ((0 0, 10 0, 10 10, 0 10, 0 0), (2 2, 4 2, 4 4, 2 4, 2 2))"};
        static const char* CU[] = {"CIRCULARSTRING (0 0, 1 1, 2 0)", "COMPOUNDCURVE (CIRCULARSTRING (0 0, 1 1, 2 0), (2 0, 3 0))", "LINESTRING (2 0, 3 3)", "CIRCULARSTRING EMPTY", "CIRCULARSTRING (0 0, 2 2, 4 0, 2 -2, 0 0)"};
        static const char* SU[] = {"CURVEPOLYGON (CIRCULARSTRING (0 0, 1 1, 2 0, 1 -1, 0 0))", "POLYGON ((0 0, 1 0, 1 1, 0 0))", "CURVEPOLYGON EMPTY"};
        static const char* OTHER[] = {"MULTIPOINT ((0 0), (5 5))", "GEOMETRYCOLLECTION (POINT (1 1))", "GEOMETRYCOLLECTION EMPTY", "MULTIPOLYGON EMPTY", "MULTILINESTRING ((0 0, 1 1))", "MULTICURVE ((0 0, 1 1))", "MULTISURFACE EMPTY"};
        struct Cls { const char** v; int n; }; const Cls CLS[] = {{PT, 3}, {LS, 4}, {RG, 5}, {PG, 3}, {CU, 5}, {SU, 3}, {OTHER, 7}};
        auto any = [&](int cls) { return lit(CLS[cls].v[r.below((uint64_t) CLS[cls].n)]); };
        auto other = [&](int cls) { int o = (int) r.below(7); if (o == cls) o = (o + 1 + (int) r.below(6)) % 7; return any(o); };
        // n members of class cls; with probability badPct the member at a uniformly chosen position is of another class
        auto members = [&](int cls, int n, int badPct) { std::vector<int> ids; int bad = r.chance(badPct) && n > 0 ? (int) r.below((uint64_t) n) : -1;
            for (int i = 0; i < n; i++) { int id = i == bad ? other(cls) : any(cls); if (id >= 0) ids.push_back(id); } return ids; };
        int rounds = r.range(3, 7);
        for (int round = 0; round < rounds; round++) {
            switch (r.below(8)) {
            case 0: case 1: { static const int T[][2] = {{4, 0}, {5, 1}, {6, 3}, {11, 4}, {12, 5}, {7, 6}}; auto& t = T[r.below(6)]; int n = r.range(1, 4);
                auto ids = members(t[1], n, 70); long type = r.chance(12) ? (long) r.range(-1, 14) : (long) t[0];
                call1("GEOSGeom_createCollection_r", {I(type), ARR(ids), I((long) ids.size())}); stat["ctor_collection"]++; break; }
            case 2: { int shell = r.chance(30) ? other(2) : any(2); if (shell < 0) break; auto holes = members(2, r.range(0, 3), 55);
                call1("GEOSGeom_createPolygon_r", {O(shell), ARR(holes), I((long) holes.size())}); stat["ctor_polygon"]++; break; }
            case 3: { int shell = r.chance(30) ? any(r.chance(50) ? 0 : 3) : any(r.chance(50) ? 2 : 4); if (shell < 0) break; std::vector<int> holes; int n = r.range(0, 3), bad = r.chance(55) && n ? (int) r.below((uint64_t) n) : -1;
                for (int i = 0; i < n; i++) { int id = i == bad ? any(r.chance(50) ? 0 : 5) : any(r.chance(50) ? 2 : 4); if (id >= 0) holes.push_back(id); }
                call1("GEOSGeom_createCurvePolygon_r", {O(shell), ARR(holes), I((long) holes.size())}); stat["ctor_curvepolygon"]++; break; }
            case 4: { // sections that join end to start, one of them possibly of another class / not joining / empty
                int n = r.range(1, 4), bad = r.chance(65) ? (int) r.below((uint64_t) n) : -1; std::vector<int> ids;
                for (int i = 0; i < n; i++) { std::string w; double x = 4.0 * i;
                    if (i == bad) { switch (r.below(4)) { case 0: w = "POINT (0 0)"; break; case 1: w = "LINESTRING (100 100, 101 101)"; break; case 2: w = "LINESTRING EMPTY"; break; default: w = "COMPOUNDCURVE ((0 0, 4 0))"; } }
                    else if (r.chance(50)) w = "LINESTRING (" + num(x) + " 0, " + num(x + 4) + " 0)"; else w = "CIRCULARSTRING (" + num(x) + " 0, " + num(x + 2) + " 2, " + num(x + 4) + " 0)";
                    int id = lit(w); if (id >= 0) ids.push_back(id); }
                call1("GEOSGeom_createCompoundCurve_r", {ARR(ids), I((long) ids.size())}); stat["ctor_compoundcurve"]++; break; }
            default: { static const char* F[] = {"GEOSGeom_createPoint_r", "GEOSGeom_createLineString_r", "GEOSGeom_createLinearRing_r", "GEOSGeom_createCircularString_r"};
                int n = r.range(0, 6); int cs = seqOf(n, r.chance(50)); if (cs < 0) break; call1(F[r.below(4)], {O(cs)}); stat["ctor_from_sequence"]++; break; }
            }
        }
        stat["scenario_ctor_ownership"]++;
    }
    // ---- a tree with a boundary node capacity and 0..30 items: build, query windows, nearest, iterate, remove, repeated insertion of one item before the build
    void scenarioTree() {
        static const long CAP[] = {2, 2, 3, 4, 4, 5, 10, 10, 16, 0, 0, 1, -1, INT_MIN, 100, 2, 3, 10, 4, 6, 7, 8, 9, 10, 2};
        int t = call1("GEOSSTRtree_create_r", {I(CAP[r.below(sizeof CAP / sizeof CAP[0])])}); if (t < 0) return;
        static const int NI[] = {0, 1, 2, 3, 5, 10, 30}; int n = NI[r.below(7)]; std::vector<int> items;
        for (int i = 0; i < n; i++) { int g; double x = (double) ((i * 7) % 23), y = (double) ((i * 5) % 17);
            if (r.chance(8)) g = lit("POINT EMPTY"); else if (r.chance(60)) g = call1("GEOSGeom_createPointFromXY_r", {D(x), D(y)}); else g = call1("GEOSGeom_createRectangle_r", {D(x), D(y), D(x + 3), D(y + 2)});
            if (g < 0) continue; items.push_back(g); call1("GEOSSTRtree_insert_r", {O(t), O(g), O(g)}); }
        // the documentation of query / nearest / remove: "The tree will automatically be constructed if necessary, after which no more items
        // may be added" -- an insertion after the tree was built breaks a documented precondition and is not generated
        bool built = false;
        if (r.chance(40)) { call1("GEOSSTRtree_build_r", {O(t)}); built = true; }
        int q = call1("GEOSGeom_createRectangle_r", {D(-1), D(-1), D(40), D(40)}); int q2 = call1("GEOSGeom_createRectangle_r", {D(3), D(2), D(11), D(9)}); int q3 = lit("POINT (7 1)");
        int ops = r.range(3, 8);
        for (int i = 0; i < ops; i++) { int qq = r.chance(40) ? q : r.chance(50) ? q2 : q3; if (qq < 0) continue;
            switch (r.below(6)) {
            case 0: case 1: call1("GEOSSTRtree_query_r", {O(t), O(qq), U(), U()}); built = true; break;
            case 2: call1("GEOSSTRtree_nearest_r", {O(t), O(qq)}); built = true; break;
            case 3: call1("GEOSSTRtree_iterate_r", {O(t), U(), U()}); built = true; break;
            case 4: if (!items.empty()) { int it = items[r.below(items.size())]; call1("GEOSSTRtree_remove_r", {O(t), O(it), O(it)}); built = true; } break;
            default: if (!items.empty() && !built) { int it = items[r.below(items.size())]; call1("GEOSSTRtree_insert_r", {O(t), O(it), O(it)}); } break; } }
        if (q >= 0) call1("GEOSSTRtree_query_r", {O(t), O(q), U(), U()});
        stat["scenario_tree"]++;
    }
    // ---- clustering of a collection; cluster indices at and around the number of clusters
    void scenarioCluster() {
        static const char* C[] = {"MULTIPOINT ((0 0), (1 0), (10 10), (11 10), (30 30))", "GEOMETRYCOLLECTION (POINT (0 0), LINESTRING (0 0, 5 5), POLYGON ((20 20, 30 20, 30 30, 20 20)), POINT (25 22))",
            "GEOMETRYCOLLECTION EMPTY", "POINT (1 1)", "MULTIPOLYGON (((0 0, 3 0, 3 3, 0 3, 0 0)), ((2 2, 8 2, 8 8, 2 8, 2 2)), ((50 50, 51 50, 51 51, 50 50)))", "MULTIPOINT (EMPTY, (1 1), (2 2))", "MULTIPOINT ((NaN 0), (1 1))"};
        int g = lit(C[r.below(7)]); if (g < 0) return;
        static const char* F[] = {"GEOSClusterDBSCAN_r", "GEOSClusterGeometryDistance_r", "GEOSClusterGeometryIntersects_r", "GEOSClusterEnvelopeDistance_r", "GEOSClusterEnvelopeIntersects_r"};
        // distances around the spacing of the literals (1, about 14, about 28), so that clusters AND noise inputs occur; DBSCAN with minPoints 0..5
        static const double EPS[] = {0, 1, 1.5, 2, 6, 15, 100, -1}; int fk = (int) r.below(5); int ci;
        if (r.chance(25)) ci = callOn(F[fk], g, 10);
        else if (fk == 0) ci = call1(F[0], {O(g), D(EPS[r.below(8)]), I((long) r.below(6))});
        else if (fk == 1 || fk == 3) ci = call1(F[fk], {O(g), D(EPS[r.below(8)])});
        else ci = call1(F[fk], {O(g)});
        if (ci < 0) return;
        call1("GEOSClusterInfo_getNumClusters_r", {O(ci)});
        long nc = (long) ((const geos::operation::cluster::Clusters*) e.c.slots[ci].p)->getNumClusters();
        int ops = r.range(3, 7);
        for (int i = 0; i < ops; i++) { static const long OFF[] = {0, 0, 1, -1, -2, 2, 100000000, -1000}; long idx = r.chance(70) ? (long) r.below((uint64_t) (nc + 1)) + (r.chance(25) ? OFF[r.below(8)] : 0) : nc + OFF[r.below(8)];
            switch (r.below(3)) { case 0: call1("GEOSClusterInfo_getClusterSize_r", {O(ci), I(idx)}); break; case 1: call1("GEOSClusterInfo_getInputsForClusterN_r", {O(ci), I(idx)}); break;
                default: call1("GEOSClusterInfo_getClustersForInputs_r", {O(ci)}); } }
        // every cluster's size, the last one included (recounted from the ids of the inputs: fact Q)
        if (r.chance(60)) for (long i = 0; i < nc && i < 8; i++) call1("GEOSClusterInfo_getClusterSize_r", {O(ci), I(i)});
        stat["scenario_cluster"]++;
    }
    // ---- SRID propagation per geometry class: one literal of every class (empty and not) gets a non-zero SRID and is then given as FIRST argument to
    // several constructive calls (clone, transform, reverse, envelope, ... : whatever the table classifies as constructive with a leading geometry)
    void scenarioSrid() {
        static const char* W[] = {"POINT (1 2)", "POINT EMPTY", "LINESTRING (0 0, 2 2, 4 0)", "LINESTRING EMPTY", "LINEARRING (0 0, 4 0, 4 4, 0 0)", "POLYGON ((0 0, 6 0, 6 6, 0 6, 0 0), (1 1, 2 1, 2 2, 1 1))",
            "POLYGON EMPTY", "MULTIPOINT ((0 0), (3 3))", "MULTILINESTRING ((0 0, 1 1), (2 2, 3 5))", "MULTIPOLYGON (((0 0, 2 0, 2 2, 0 0)), ((5 5, 7 5, 7 7, 5 5)))", "GEOMETRYCOLLECTION (POINT (1 1), LINESTRING (0 0, 3 3))",
            "GEOMETRYCOLLECTION EMPTY", "CIRCULARSTRING (0 0, 1 1, 2 0)", "CIRCULARSTRING EMPTY", "COMPOUNDCURVE ((0 0, 2 0), CIRCULARSTRING (2 0, 3 1, 4 0))", "COMPOUNDCURVE EMPTY", "COMPOUNDCURVE ((0 0, 2 0, 2 2))",
            "CURVEPOLYGON (COMPOUNDCURVE (CIRCULARSTRING (0 0, 1 1, 2 0), (2 0, 0 0)))", "CURVEPOLYGON EMPTY", "MULTICURVE ((0 0, 1 1), CIRCULARSTRING (0 0, 1 1, 2 0))", "MULTICURVE EMPTY",
            "MULTISURFACE (((0 0, 1 0, 1 1, 0 0)), CURVEPOLYGON (CIRCULARSTRING (5 5, 6 6, 7 5, 6 4, 5 5)))", "MULTISURFACE EMPTY", "GEOMETRYCOLLECTION (COMPOUNDCURVE ((0 0, 2 0, 2 2)), POINT (1 1))"};
        int g = lit(W[r.below(sizeof W / sizeof W[0])]); if (g < 0) return;
        static const long SR[] = {4326, 1, 32633, -1, 2147483647};
        call1("GEOSSetSRID_r", {O(g), I(SR[r.below(5)])});
        std::vector<size_t> cand; for (size_t k = 0; k < FNS.size(); k++) if (FNS[k].cat == "constr" && !FNS[k].spec.empty() && FNS[k].spec[0] == "g") cand.push_back(k);
        static const char* FIRST[] = {"GEOSGeom_clone_r", "GEOSGeom_transformXY_r", "GEOSGeom_transformXYZ_r"};
        int calls = r.range(3, 7);
        for (int i = 0; i < calls && !cand.empty(); i++) {
            const Fn& f = (i == 0 || r.chance(25)) ? FNS[FNIDX[FIRST[r.below(3)]]] : FNS[cand[r.below(cand.size())]];
            std::vector<Val> a; if (!pick(f, a)) continue;
            if (g >= (int) e.c.slots.size() || !e.c.slots[g].live) break;
            a[0] = O(g); e.doCall(f, a, {}); }
        stat["scenario_srid"]++;
    }
    void run(int len) {
        // C12_FOCUS=<entry point>: make one function dominate (used to look for a failing call after a table proof broke)
        if (const char* fo = getenv("C12_FOCUS")) { auto it = FNIDX.find(fo); if (it != FNIDX.end()) { long tot = 0; for (auto& f : FNS) tot += f.weight; FNS[it->second].weight = (int) tot; } }
        long total = 0; for (auto& f : FNS) total += f.weight;
        // start with a few literals so that most functions are callable
        int nlit = r.range(2, 4);
        for (int i = 0; i < nlit; i++) { const Fn& f = FNS[FNIDX["GEOSGeomFromWKT_r"]]; std::vector<Val> a; if (pick(f, a)) e.doCall(f, a, {}); }
        { int sc = (int) r.below(100); if (sc < 14) scenarioPair(); else if (sc < 24) scenarioWindow(); else if (sc < 29) scenarioLongText();
          else if (sc < 38) scenarioCtorOwnership(); else if (sc < 44) scenarioTree(); else if (sc < 48) scenarioCluster(); else if (sc < 55) scenarioSrid(); }
        for (int step = 0; step < len; step++) {
            for (int tries = 0; tries < 20; tries++) {
                long w = (long) r.below((uint64_t) total); size_t k = 0; while (w >= FNS[k].weight) { w -= FNS[k].weight; k++; }
                const Fn& f = FNS[k]; std::vector<Val> a;
                if (!pick(f, a)) continue;
                if (callMaybeArmed(f, a, 10)) { break; }
            }
            // keep the pool bounded: free some buffers / old geometries
            int live = 0; for (auto& s : e.c.slots) if (s.live && s.owner < 0) live++;
            if (live > 14) { for (int i = 0; i < (int) e.c.slots.size() && live > 10; i++) if (e.c.exclOk(i) && r.chance(50)) {
                static const std::map<K, const char*> D = { {GEOM, "GEOSGeom_destroy_r"}, {CS, "GEOSCoordSeq_destroy_r"}, {BUF, "GEOSFree_r"} };
                auto it = D.find(e.c.slots[i].kind); if (it == D.end()) continue; const Fn& f = FNS[FNIDX[it->second]]; std::vector<Val> a(1); a[0].k = 'o'; a[0].id = i; e.doCall(f, a, {}); live--; } }
        }
        destroyAll();
    }
};

// ----------------------------------------------------------------------------------------------- script interpreter (child side, replay)
static bool parseTok(const std::string& t, Val& v, const std::map<int, int>& names) {
    if (t == "_") { v.k = '_'; return true; }
    if (t == "n") { v.k = 'n'; return true; }
    if (t[0] == 'o') { int n = std::stoi(t.substr(1)); auto it = names.find(n); if (it == names.end()) return false; v.k = 'o'; v.id = it->second; return true; }
    if (t.rfind("a:", 0) == 0) { v.k = 'a'; std::string rest = t.substr(2); std::istringstream is(rest); std::string x;
        while (std::getline(is, x, ',')) if (!x.empty()) { auto it = names.find(std::stoi(x)); if (it == names.end()) return false; v.ids.push_back(it->second); } return true; }
    if (t.rfind("d:", 0) == 0) { v.k = 'd'; v.d = frombits(std::stoull(t.substr(2), nullptr, 16)); return true; }
    if (t.rfind("i:", 0) == 0) { v.k = 'i'; v.i = std::stol(t.substr(2)); return true; }
    if (t.rfind("s:", 0) == 0) { v.k = 's'; v.s = unhex(t.substr(2)); return true; }
    return false;
}

static void runScript(Exec& e, const std::string& line, std::map<std::string, long>& stat) {
    // split on " ; "
    std::vector<std::string> calls; { size_t p = 0; while (true) { size_t q = line.find(" ; ", p); calls.push_back(line.substr(p, q == std::string::npos ? q : q - p)); if (q == std::string::npos) break; p = q + 3; } }
    for (auto& cs : calls) {
        auto w = words(cs); if (w.empty() || w[0] == "SEQ" || w[0] == "END") continue;
        auto it = FNIDX.find(w[0]); if (it == FNIDX.end()) { stat["replay_unknown_fn"]++; continue; }
        const Fn& f = FNS[it->second];
        size_t arrow = std::find(w.begin(), w.end(), "=>") - w.begin();
        if (arrow - 1 != f.spec.size()) { stat["replay_bad_arity"]++; continue; }
        std::vector<Val> a(f.spec.size()); bool ok = true;
        for (size_t k = 0; k < f.spec.size() && ok; k++) ok = parseTok(w[1 + k], a[k], e.name2slot);
        // array sizes follow the (possibly renamed) array
        for (size_t k = 1; k < f.spec.size(); k++) if (f.spec[k] == "n" && a[k - 1].k == 'a') a[k].i = (long) a[k - 1].ids.size();
        if (!ok) { stat["replay_skipped"]++; continue; }
        std::vector<int> resNames;
        for (size_t k = arrow + 1; k < w.size(); k++) if (w[k][0] == 'R' && w[k] != "R-") { std::istringstream is(w[k].substr(1)); std::string x; while (std::getline(is, x, ',')) resNames.push_back(std::stoi(x)); }
        if (!e.doCall(f, a, resNames)) stat["replay_skipped"]++;
    }
    Rng r(1); Gen g(r, e, stat); g.destroyAll();
}

// ----------------------------------------------------------------------------------------------- parent: run a child, assemble the observed line
struct ChildResult { std::string line; std::string endClass; std::string stderrTail; int ncalls = 0; long failedCallNo = -1; };

// the qualified name of a stack frame line if it is GEOS code ("" otherwise; "harness" for harness code)
static std::string cleanFrame(const std::string& l) {
    size_t in = l.find(" in "); if (in == std::string::npos) return "";
    std::string fn = l.substr(in + 4);
    bool geosFrame = fn.find("geos::") != std::string::npos || fn.find("geos_nlohmann::") != std::string::npos || fn.rfind("GEOS", 0) == 0;   // by name, never by path
    if (!geosFrame) return "";
    if (fn.rfind("operator()", 0) == 0 || fn.rfind("execute<", 0) == 0 || fn.rfind("std::", 0) == 0 || fn.rfind("__", 0) == 0 || fn.rfind("_M_", 0) == 0) return "";
    if (fn.find("vh::") != std::string::npos || fn.find("/verif/harness") != std::string::npos) return "harness";
    // keep the qualified function name only: drop the source location, template arguments, parameter list, return type
    size_t loc = fn.find(" /"); if (loc != std::string::npos) fn = fn.substr(0, loc);
    std::string o; int depth = 0; for (char ch : fn) { if (ch == '<') depth++; else if (ch == '>') depth--; else if (depth == 0) o.push_back(ch); }
    size_t par = o.find('('); if (par != std::string::npos) o = o.substr(0, par);
    while (!o.empty() && o.back() == ' ') o.pop_back();
    size_t sp = o.rfind(' '); if (sp != std::string::npos) o = o.substr(sp + 1);
    size_t abi = o.find("[abi:"); if (abi != std::string::npos) o = o.substr(0, abi);
    // trivial accessors say nothing about the cause: name their caller instead
    static const char* ACC[] = { "geos::geom::CoordinateSequence::getAt", "geos::geom::CoordinateSequence::front", "geos::geom::CoordinateSequence::back",
        "geos::geom::CoordinateSequence::getX", "geos::geom::CoordinateSequence::getY", "geos::geom::CoordinateSequence::getOrdinate", "geos::geom::SimpleCurve::getCoordinateN",
        "geos::geom::CoordinateSequence::operator[]", "geos::geom::Coordinate::operator=", "geos::geom::CoordinateXY::operator=", "geos::geom::Coordinate::Coordinate", "geos::geom::CoordinateXY::CoordinateXY" };
    bool acc = false; for (auto a : ACC) if (o == a) acc = true;
    if (acc || o.rfind("std::", 0) == 0 || o.rfind("__gnu", 0) == 0 || (o.find("::") == std::string::npos && o.rfind("GEOS", 0) != 0)) return "";
    return o;
}

// first stack frame that is GEOS code (function name without arguments), e.g. geos::geom::Point::Point.
// withCaller: followed by "<" and the next different GEOS frame of the same stack (used for leaks: the allocating function alone does not
// tell which of its callers forgot to free)
static std::string whereOf(const std::string& err, size_t from, bool withCaller = false) {
    size_t p = from;
    while ((p = err.find("\n    #", p)) != std::string::npos) {
        size_t e = err.find('\n', p + 1); std::string l = err.substr(p + 1, e == std::string::npos ? e : e - p - 1); p += 1;
        std::string o = cleanFrame(l); if (o.empty()) continue;
        if (!withCaller || o == "harness") return o;
        // the rest of this stack: consecutive frame lines
        size_t q = e;
        while (q != std::string::npos && err.compare(q, 6, "\n    #") == 0) { size_t e2 = err.find('\n', q + 1); std::string l2 = err.substr(q + 1, e2 == std::string::npos ? e2 : e2 - q - 1); q = e2;
            std::string c = cleanFrame(l2); if (c.empty() || c == o || c == "harness") continue; return o + "<" + c; }
        return o;
    }
    return "";
}

// second pass: "where:path@fn" of the leak to report ("" if this run shows no leak).  where = allocating GEOS function "<" its GEOS caller;
// path says how the call that allocated the leaked object ended; fn is that call.  A leak on the normal path is reported before one on an error path.
static std::string attributeLeak(const std::string& err) {
    std::map<long, std::pair<std::string, int>> calls; size_t p = 0; const std::string MK = "\n@@CALL ";
    while ((p = err.find(MK, p)) != std::string::npos) { size_t eol = err.find('\n', p + 1); if (eol == std::string::npos) break; auto w = words(err.substr(p + MK.size(), eol - p - MK.size()));
        if (w.size() >= 3) calls[std::stol(w[0])] = {w[1], atoi(w[2].c_str())}; p = eol; }
    size_t x = err.find("\n@@CALL -1 EXIT"); if (x == std::string::npos) return ""; size_t y = err.find("\n@@ENDREPORT", x); if (y == std::string::npos) return "";
    std::string sec = err.substr(x, y - x);
    std::map<std::string, long> allocCall; { size_t q = 0; while ((q = sec.find("\n@@ALLOC 0x", q)) != std::string::npos) { size_t eol = sec.find('\n', q + 1); auto w = words(sec.substr(q + 1, eol - q - 1)); if (w.size() == 3) allocCall[w[1]] = std::stol(w[2]); q = eol; } }
    std::string best; int bestRank = 9; size_t q = 0;
    while ((q = sec.find("Direct leak of", q)) != std::string::npos) {
        size_t e = sec.find("\n\n", q); std::string blk = sec.substr(q, e == std::string::npos ? e : e - q + 1); std::string w = whereOf(blk, 0, true);
        // the objects of this block
        std::string path = "unattributed", fn = "?"; int rank = 3;
        size_t o = e == std::string::npos ? e : sec.find("Objects leaked above:", e); size_t nextBlk = sec.find(" leak of", q + 14);
        if (o != std::string::npos && (nextBlk == std::string::npos || o < nextBlk)) { size_t oe = sec.find("\n\n", o); std::string objs = sec.substr(o, oe == std::string::npos ? oe : oe - o); std::istringstream is(objs); std::string l;
            while (std::getline(is, l)) { if (l.rfind("0x", 0) != 0) continue; auto it = allocCall.find(l.substr(0, l.find(' '))); if (it == allocCall.end()) continue;
                auto c = calls.find(it->second); int rk; std::string pa, f2;
                if (c == calls.end()) { rk = 1; pa = "outside-calls"; f2 = "END"; } else { rk = c->second.second ? 2 : 0; pa = c->second.second ? "on-error-path" : "on-normal-path"; f2 = c->second.first; }
                if (rk < rank) { rank = rk; path = pa; fn = f2; } } }
        std::string c = w + ":" + path + "@" + fn; if (rank < bestRank || (rank == bestRank && c < best)) { best = c; bestRank = rank; }
        q += 14; }
    return best;
}

static std::string classifyStderr(const std::string& err0) {
    std::string err = err0;
    if (err.find("\n@@CALL ") != std::string::npos) { std::string a = attributeLeak(err); if (!a.empty()) return "leak@" + a; }
    if (err.find("LeakSanitizer: detected memory leaks") != std::string::npos) return "leak@" + whereOf(err, err.find("LeakSanitizer: detected memory leaks"), true) + ":unattributed";
    size_t p = err.find("AddressSanitizer: ");
    if (p != std::string::npos) { size_t q = p + 18; size_t e = q; while (e < err.size() && (isalnum((unsigned char) err[e]) || err[e] == '-' || err[e] == '_')) e++; std::string k = err.substr(q, e - q);
        if (k == "allocation-size-too-big" || k == "out-of-memory" || k == "requested" || k == "calloc-overflow" || k == "allocator" || k == "failed") return "oom";
        if (k == "SEGV" || k == "heap-buffer-overflow" || k == "heap-use-after-free" || k == "stack-buffer-overflow" || k == "global-buffer-overflow" || k == "container-overflow" ||
            k == "stack-use-after-return" || k == "stack-use-after-scope" || k == "double-free" || k == "attempting" || k == "unknown-crash" || k == "bad-free") k = "memory-error";
        return "crash:asan-" + k + "@" + whereOf(err, p); }
    if (err.find("runtime error:") != std::string::npos) { size_t q = err.find("runtime error:") + 15; size_t e = err.find('\n', q); std::string m = err.substr(q, e - q), o;
        // slug: drop numbers / addresses / quoted type names
        for (size_t a; (a = m.find("0x")) != std::string::npos;) { size_t b = a + 2; while (b < m.size() && isxdigit((unsigned char) m[b])) b++; m.erase(a, b - a); }
        bool inq = false; for (size_t i = 0; i < m.size() && o.size() < 48; i++) { char ch = m[i]; if (ch == '\'') { inq = !inq; continue; } if (inq) continue;
            if (isdigit((unsigned char) ch) || ch == '-' || ch == '+' || ch == '*') continue; if (ch == 'x' && i && m[i - 1] == '0') continue; if (ch == ' ' || ch == ',' || ch == ':') { if (!o.empty() && o.back() != '_') o.push_back('_'); continue; } o.push_back(ch); }
        while (!o.empty() && o.back() == '_') o.pop_back();
        return "crash:ubsan-" + o + "@" + whereOf(err, q); }
    if (err.find("LeakSanitizer has encountered a fatal error") != std::string::npos) return "lsan-unavailable";
    return "";
}

// CPU seconds (user+system) consumed so far by a process; -1 if unknown.  Time limits are on CPU time so that a loaded
// machine does not turn slow calls into "hangs"; a wall-clock limit 15x as long catches a child that sleeps forever.
static double cpuSeconds(pid_t pid) {
    char path[64]; snprintf(path, sizeof path, "/proc/%d/stat", (int) pid); std::ifstream f(path); std::string st; std::getline(f, st);
    size_t rp = st.rfind(')'); if (rp == std::string::npos) return -1; std::istringstream is(st.substr(rp + 2)); std::string t; std::vector<std::string> w; while (is >> t) w.push_back(t);
    if (w.size() < 13) return -1; return (double) (std::stoull(w[11]) + std::stoull(w[12])) / (double) sysconf(_SC_CLK_TCK);
}

static ChildResult runChild1(const std::function<void(Exec&, std::map<std::string, long>&)>& body, double perCallTimeout, std::map<std::string, long>& stat, bool leakAttr) {
    ChildResult res; int pfd[2]; if (pipe(pfd) != 0) { perror("pipe"); exit(3); }
    char errPath[64]; snprintf(errPath, sizeof errPath, "/tmp/c12-err-%d-XXXXXX", (int) getpid()); int efd = mkstemp(errPath);
    fflush(nullptr);                  // the child must not inherit unflushed stdio buffers (it exits through exit())
    pid_t pid = fork();
    if (pid == 0) {
        close(pfd[0]); dup2(efd, 2); close(efd);
        struct rlimit rl; rl.rlim_cur = rl.rlim_max = 0; setrlimit(RLIMIT_CORE, &rl);
        Exec e; e.out = pfd[1]; e.leakAttr = leakAttr;
        g_tagAllocs = leakAttr; __sanitizer_install_malloc_and_free_hooks(allocHook, freeHook);
        e.c.h = GEOS_init_r(); GEOSContext_setNoticeHandler_r(e.c.h, noticeh); GEOSContext_setErrorHandler_r(e.c.h, errorh);
        std::map<std::string, long> st;
        body(e, st);
        GEOS_finish_r(e.c.h);
        for (auto& kv : e.istat) st[kv.first] += kv.second;
        for (auto& kv : st) e.put("S " + kv.first + " " + std::to_string(kv.second));
        e.put("Z");
        close(pfd[1]);
        if (leakAttr) {   // the leak report now, into a file; then "@@ALLOC <address> <call>" for every leaked object it lists
            e.leakMark(-1, "EXIT", 0);
            char tp[64]; snprintf(tp, sizeof tp, "/tmp/c12-lk-%d-XXXXXX", (int) getpid()); int tfd = mkstemp(tp); int save = dup(2);
            if (tfd >= 0 && save >= 0) { dup2(tfd, 2); __lsan_do_recoverable_leak_check(); dup2(save, 2); close(save);
                std::string rep; { lseek(tfd, 0, SEEK_SET); char tmp[65536]; ssize_t k; while ((k = read(tfd, tmp, sizeof tmp)) > 0) rep.append(tmp, (size_t) k); } close(tfd); unlink(tp);
                std::string outp = rep + "\n"; size_t q = 0;
                while ((q = rep.find("\n0x", q)) != std::string::npos) { size_t eol = rep.find('\n', q + 1); std::string l = rep.substr(q + 1, eol == std::string::npos ? eol : eol - q - 1); q += 1;
                    if (l.find(" bytes)") == std::string::npos) continue; uintptr_t a = (uintptr_t) std::stoull(l.substr(2), nullptr, 16);
                    outp += "@@ALLOC " + l.substr(0, l.find(' ')) + " " + std::to_string(allocCallOf(a)) + "\n"; }
                if (g_atabOverflow) outp += "@@ALLOC-TABLE-OVERFLOW\n";
                outp += "@@ENDREPORT\n";
                if (write(2, outp.data(), outp.size()) < 0) _exit(97); }
        }
        exit(0);                       // runs LeakSanitizer
    }
    close(pfd[1]); close(efd);
    std::string buf, pendingB, pendingFlag; long pendingNo = -1; std::vector<std::string> done; bool gotZ = false, hang = false;
    struct timeval t0; gettimeofday(&t0, nullptr); double last = 0;
    auto now = [&]() { struct timeval t; gettimeofday(&t, nullptr); return (double) (t.tv_sec - t0.tv_sec) + 1e-6 * (double) (t.tv_usec - t0.tv_usec); };
    last = now(); double lastCpu = 0;
    while (true) {
        struct pollfd pf; pf.fd = pfd[0]; pf.events = POLLIN; int pr = poll(&pf, 1, 200);
        if (pr > 0) { char tmp[65536]; ssize_t k = read(pfd[0], tmp, sizeof tmp); if (k <= 0) break; buf.append(tmp, (size_t) k); last = now(); { double c = cpuSeconds(pid); if (c >= 0) lastCpu = c; }
            size_t p; while ((p = buf.find('\n')) != std::string::npos) { std::string l = buf.substr(0, p); buf.erase(0, p + 1);
                if (l[0] == 'B') { auto w = words(l); pendingNo = std::stol(w[1]); pendingFlag = w[2].substr(1); size_t off = l.find(w[2], 2 + w[1].size()) + w[2].size() + 1; pendingB = l.substr(off); }
                else if (l[0] == 'A') { done.push_back(pendingB + " => " + l.substr(2)); pendingB.clear(); }
                else if (l[0] == 'S') { auto w = words(l); if (w.size() == 3) stat[w[1]] += std::stol(w[2]); }
                else if (l[0] == 'Z') gotZ = true; } }
        else { double c = cpuSeconds(pid);
            if ((c >= 0 && c - lastCpu > perCallTimeout) || now() - last > 15 * perCallTimeout) { hang = true; kill(pid, SIGKILL); break; } }
    }
    close(pfd[0]);
    int status = 0;
    // the exit handlers (LeakSanitizer) get their own allowance
    double tw = now();
    double cw = cpuSeconds(pid);
    while (true) { pid_t w = waitpid(pid, &status, WNOHANG); if (w == pid) break; double c = cpuSeconds(pid);
        if ((c >= 0 && cw >= 0 && c - cw > 60) || now() - tw > 900) { kill(pid, SIGKILL); waitpid(pid, &status, 0); hang = true; break; } usleep(2000); }
    std::string err; { std::ifstream f(errPath); std::stringstream ss; ss << f.rdbuf(); err = ss.str(); } unlink(errPath);
    std::string cls = classifyStderr(err), endc = "ok", callFail;
    bool exitedOk = WIFEXITED(status) && WEXITSTATUS(status) == 0;
    if (hang) { if (!pendingB.empty()) callFail = "hang@"; else endc = "hang@"; }
    else if (!exitedOk) {
        std::string kind = cls;
        if (kind.empty()) { if (WIFSIGNALED(status)) kind = "crash:signal-" + std::to_string(WTERMSIG(status)) + "@"; else kind = "crash:exit-" + std::to_string(WEXITSTATUS(status)) + "@"; }
        if (kind == "lsan-unavailable") { endc = "ok"; stat["lsan_unavailable"]++; }
        else if (kind.rfind("leak", 0) == 0) endc = kind;
        else if (!pendingB.empty()) callFail = kind;
        else endc = gotZ ? kind : kind;
    }
    std::string line = "SEQ";
    for (auto& d : done) line += " ; " + d;
    if (!callFail.empty()) { if (!pendingFlag.empty() && callFail.rfind("crash", 0) == 0) callFail = "crash:oob-index@"; line += " ; " + pendingB + " => X:" + callFail; res.failedCallNo = pendingNo; }
    line += " ; END " + endc;
    res.line = line; res.endClass = !callFail.empty() ? callFail : endc; res.ncalls = (int) done.size();
    { size_t x = err.find("\n@@CALL -1 EXIT"); if (x != std::string::npos) err = err.substr(x); }
    res.stderrTail = err.size() > 6000 ? err.substr(0, 6000) : err;
    return res;
}

// a sequence that ends with a leak report runs a second time with a leak check after every call (attribution to a call and its outcome)
static ChildResult runChild(const std::function<void(Exec&, std::map<std::string, long>&)>& body, double perCallTimeout, std::map<std::string, long>& stat) {
    std::map<std::string, long> st1; ChildResult r = runChild1(body, perCallTimeout, st1, false);
    if (r.endClass.rfind("leak@", 0) == 0 && r.failedCallNo < 0) {
        // (some operations are not deterministic on non-finite input — containers ordered by address — so the second pass may differ: try a few times)
        bool done = false;
        for (int attempt = 0; attempt < 3 && !done; attempt++) { std::map<std::string, long> st2; ChildResult r2 = runChild1(body, perCallTimeout, st2, true);
            if (getenv("C12_DEBUG")) fprintf(stderr, "[pass2] endClass=%s ncalls=%d/%d failed=%ld\n%s\n", r2.endClass.c_str(), r2.ncalls, r.ncalls, r2.failedCallNo, r2.stderrTail.c_str());
            if (r2.endClass.rfind("leak@", 0) == 0 && r2.endClass.find(":unattributed") == std::string::npos && r2.failedCallNo < 0 && r2.ncalls == r.ncalls) { r = r2; done = true; } }
        st1[done ? "leak_sequences_attributed" : "leak_sequences_not_reproduced_in_second_pass"]++; }
    for (auto& kv : st1) stat[kv.first] += kv.second;
    return r;
}

#include "c12_own.h"

int main(int argc, char** argv) {
    registerAll();
    if (argc >= 3 && (std::string(argv[1]) == "ctor-own" || std::string(argv[1]) == "replay-own")) return own::mainOwn(argc, argv);
    if (argc >= 2 && std::string(argv[1]) == "list") { for (auto& f : FNS) printf("%s%s\n", f.cat == "interrupt" ? "#global " : "", f.name.c_str()); return 0; }
    if (argc < 3) { fprintf(stderr, "usage: c12 api-seq <seed> <n> <outbase> | replay <file> [-v] | list\n"); return 2; }
    std::string stream = argv[1];
    double timeout = getenv("C12_CALL_TIMEOUT") ? atof(getenv("C12_CALL_TIMEOUT")) : 20.0;
    if (stream == "replay") {
        std::ifstream f(argv[2]); std::string line; bool verbose = argc > 3;
        while (std::getline(f, line)) { if (line.empty()) continue; std::map<std::string, long> st;
            ChildResult r = runChild([&](Exec& e, std::map<std::string, long>& s) { runScript(e, line, s); }, timeout, st);
            std::cout << r.line << "\n"; if (verbose) std::cerr << r.stderrTail << "\n"; }
        return 0;
    }
    if (argc < 5 || stream != "api-seq") { fprintf(stderr, "unknown stream\n"); return 2; }
    uint64_t seed = std::stoull(argv[2]); long n = std::stol(argv[3]); Out out(argv[4]);
    std::set<std::string> seenFns;
    for (long i = 0; i < n; i++) {
        std::map<std::string, long> st; std::set<long> skips; ChildResult r;
        // a call that did not return is recorded, then the same sequence is generated again without that call, so that
        // known crashes do not hide what comes after them
        for (int attempt = 0; attempt < 8; attempt++) {
            st.clear();
            r = runChild([&](Exec& e, std::map<std::string, long>& s) { e.skipCalls = skips; Rng rr(seed * 7919 + (uint64_t) i); Gen g(rr, e, s); g.run(rr.range(8, 40)); }, timeout, st);
            out.emit(r.line, "ok");
            if (r.failedCallNo < 0) break;
            out.count("sequences_rerun_after_abnormal_call");
            skips.insert(r.failedCallNo);
        }
        for (auto& kv : st) out.count(kv.first, kv.second);
        out.count("calls", r.ncalls); out.count("end_" + r.endClass.substr(0, r.endClass.find(':')));
        // per-function coverage and outcome classes
        size_t p = 0; while ((p = r.line.find(" ; ", p)) != std::string::npos) { p += 3; size_t q = r.line.find(' ', p); std::string fn = r.line.substr(p, q - p); if (fn == "END") break; seenFns.insert(fn);
            size_t ar = r.line.find(" => ", p); size_t nx = r.line.find(" ; ", p); if (ar != std::string::npos && ar < nx) { std::string rest = r.line.substr(ar + 4, nx - ar - 4);
                if (rest.find(" m1") != std::string::npos) out.count("outcome_error_with_message"); else if (rest[0] == 'X') out.count("outcome_abnormal"); else out.count("outcome_normal"); } }
    }
    out.count("distinct_entry_points_this_shard", (long) seenFns.size());
    out.count("entry_points_in_table", (long) FNS.size());
    { std::ofstream f(std::string(argv[4]) + ".fns"); for (auto& s : seenFns) f << s << "\n"; }
    return 0;
}
