// C08 correspondence harness: pairs of geometries on an integer grid (then scaled by 2^k / translated, which
// keeps every ordinate and every intermediate of the exact specification representable) are sent through
// every distance entry point of the C API; the case line carries the inputs *and* the implementation's
// answers, the Lean driver (drv_c08 distance) evaluates the exact specification and answers `ok` or the
// violated clause, so the expected line is always `ok`.
//   c08 distance <seed> <n> <outbase>
// About 7% of the pairs are "pythagorean": the two geometries lie in opposite quadrants about their facing bounding-box corners,
// which are vertices separated by (a*k, b*k) for a Pythagorean triple (a,b,c) and a random odd k up to ~2^30/c — the true distance
// is exactly c*k (representable) while the squares of the coordinate differences need more than 53 bits.
//   c08 replay   <file>          lines "<sridA geomA> <sridB geomB> [R ...]" -> full case lines on stdout
#include "gtree.h"
#include <geos_c.h>
#include <cstdarg>
#include <fstream>
#include <iostream>
#include <functional>
#include <unistd.h>
#include <sys/wait.h>

using namespace vh;
typedef long long ll;

static void notice(const char*, ...) {}
static void errorh(const char*, ...) {}

// ------------------------------------------------------------------ exact integer helpers (generator only)
struct P { ll x, y; };
static bool operator==(const P& a, const P& b) { return a.x == b.x && a.y == b.y; }
static ll det(P a, P b, P c) { return (b.x - a.x) * (c.y - a.y) - (b.y - a.y) * (c.x - a.x); }
static int sgn(ll v) { return v > 0 ? 1 : v < 0 ? -1 : 0; }
static bool inBox(P a, P b, P p) { return std::min(a.x, b.x) <= p.x && p.x <= std::max(a.x, b.x) && std::min(a.y, b.y) <= p.y && p.y <= std::max(a.y, b.y); }
static bool onSeg(P a, P b, P p) { return det(a, b, p) == 0 && inBox(a, b, p); }
static bool segInter(P a, P b, P c, P d) {
    int d1 = sgn(det(a, b, c)), d2 = sgn(det(a, b, d)), d3 = sgn(det(c, d, a)), d4 = sgn(det(c, d, b));
    if (d1 * d2 < 0 && d3 * d4 < 0) return true;
    return onSeg(a, b, c) || onSeg(a, b, d) || onSeg(c, d, a) || onSeg(c, d, b);
}
typedef std::vector<P> Ring;
// 1 inside, 0 boundary, -1 outside (closed ring)
static int pip(P p, const Ring& r) {
    int cnt = 0;
    for (size_t i = 0; i + 1 < r.size(); i++) {
        P a = r[i], b = r[i + 1];
        if (onSeg(a, b, p)) return 0;
        if (a.y <= p.y && p.y < b.y) { if (det(a, b, p) > 0) cnt++; }
        else if (b.y <= p.y && p.y < a.y) { if (det(a, b, p) < 0) cnt++; }
    }
    return (cnt & 1) ? 1 : -1;
}
static bool ringSimple(const Ring& r) {
    size_t n = r.size() - 1; if (n < 3) return false;
    for (size_t i = 0; i < n; i++) if (r[i] == r[i + 1]) return false;
    for (size_t i = 0; i < n; i++) for (size_t j = i + 1; j < n; j++) {
        bool adj = (j == i + 1) || (i == 0 && j == n - 1);
        if (!adj) { if (segInter(r[i], r[i + 1], r[j], r[j + 1])) return false; }
        else {
            // adjacent edges may share only the common vertex
            P s = (j == i + 1) ? r[j] : r[0];
            P a = (j == i + 1) ? r[i] : r[j], b = (j == i + 1) ? r[j + 1] : r[1];
            if (det(a, s, b) == 0 && ((a.x - s.x) * (b.x - s.x) + (a.y - s.y) * (b.y - s.y)) > 0) return false; // spike
        }
    }
    ll a2 = 0; for (size_t i = 0; i < n; i++) a2 += r[i].x * r[i + 1].y - r[i + 1].x * r[i].y;
    return a2 != 0;
}
static bool ringsDisjoint(const Ring& a, const Ring& b) {
    for (size_t i = 0; i + 1 < a.size(); i++) for (size_t j = 0; j + 1 < b.size(); j++) if (segInter(a[i], a[i + 1], b[j], b[j + 1])) return false;
    return true;
}

// ------------------------------------------------------------------ integer geometry
struct IG {
    std::string tag;                  // P L R Y MP ML MY GC
    std::vector<Ring> seqs;           // P: one seq (0/1 pts), L/R: one seq, Y: rings (seqs[0] = shell; empty polygon: one empty seq)
    std::vector<IG> kids;
};
static void forEachPt(IG& g, const std::function<void(P&)>& f) { for (auto& s : g.seqs) for (auto& p : s) f(p); for (auto& k : g.kids) forEachPt(k, f); }
static void collectVerts(const IG& g, std::vector<P>& out) { for (auto& s : g.seqs) for (auto& p : s) out.push_back(p); for (auto& k : g.kids) collectVerts(k, out); }
static void collectEdges(const IG& g, std::vector<std::pair<P, P>>& out) {
    if (g.tag != "P") for (auto& s : g.seqs) for (size_t i = 0; i + 1 < s.size(); i++) out.push_back({s[i], s[i + 1]});
    for (auto& k : g.kids) collectEdges(k, out);
}
static void collectPolys(const IG& g, std::vector<const IG*>& out) { if (g.tag == "Y" && !g.seqs[0].empty()) out.push_back(&g); for (auto& k : g.kids) collectPolys(k, out); }
static bool isEmptyIG(const IG& g) { std::vector<P> v; collectVerts(g, v); return v.empty(); }

struct Xf { int sym; ll tx, ty; int k; bool fp = false; double a = 1, b = 0, fx = 0, fy = 0; };   // fp: full-precision similarity x' = a x - b y + fx, y' = b x + a y + fy
static P applySym(int s, P p) { if (s & 1) std::swap(p.x, p.y); if (s & 2) p.x = -p.x; if (s & 4) p.y = -p.y; return p; }
static std::string ordTok(const Xf& x, ll v) { return hex(std::ldexp((double) v, x.k)); }
static void emitSeq(const Xf& x, const Ring& s, std::string& out) {
    out += " xy " + std::to_string(s.size());
    for (auto p : s) { P q = applySym(x.sym, p);
        if (x.fp) { double X = x.a * (double) q.x - x.b * (double) q.y + x.fx, Y = x.b * (double) q.x + x.a * (double) q.y + x.fy; out += " " + hex(X) + " " + hex(Y); }
        else out += " " + ordTok(x, q.x + x.tx) + " " + ordTok(x, q.y + x.ty); }
}
static void emitG(const Xf& x, const IG& g, std::string& out) {
    if (g.tag == "P" || g.tag == "L" || g.tag == "R") { out += " " + g.tag; emitSeq(x, g.seqs[0], out); return; }
    if (g.tag == "Y") { out += " Y " + std::to_string(g.seqs.size()); for (auto& s : g.seqs) emitSeq(x, s, out); return; }
    out += " " + g.tag + " " + std::to_string(g.kids.size());
    for (auto& k : g.kids) emitG(x, k, out);
}
static std::string tokens(const Xf& x, const IG& g) { std::string s = "0"; emitG(x, g, s); return s; }

// ------------------------------------------------------------------ generators
struct Gen {
    Rng& r; Out& out;
    Gen(Rng& rr, Out& o) : r(rr), out(o) {}
    P rp(int R) { return P{r.range(-R, R), r.range(-R, R)}; }
    IG point(int R) { IG g; g.tag = "P"; g.seqs.push_back({rp(R)}); return g; }
    IG emptyOf(const std::string& tag) { IG g; g.tag = tag; if (tag == "P" || tag == "L" || tag == "Y") g.seqs.push_back({}); return g; }
    IG line(int R) {
        IG g; g.tag = "L"; Ring s; P p = rp(R); s.push_back(p);
        int n = r.range(1, 7);
        if (r.chance(1)) { s.push_back(p); out.count("gen_zero_length_line"); g.seqs.push_back(s); return g; }
        bool axis = r.chance(30);
        for (int i = 0; i < n; i++) {
            P q;
            do { q = p; if (axis) { if (r.chance(50)) q.x += r.range(-5, 5); else q.y += r.range(-5, 5); } else { q.x += r.range(-5, 5); q.y += r.range(-5, 5); } }
            while (q == p && !r.chance(4));       // a repeated vertex now and then
            s.push_back(q); p = q;
        }
        if (s.size() >= 4 && r.chance(12)) { s.push_back(s[0]); out.count("gen_closed_line"); }
        g.seqs.push_back(s); return g;
    }
    Ring rect(P c, int w, int h) { return Ring{{c.x, c.y}, {c.x + w, c.y}, {c.x + w, c.y + h}, {c.x, c.y + h}, {c.x, c.y}}; }
    Ring star(P c, int rad) {
        static const P dirs[16] = {{1,0},{2,1},{1,1},{1,2},{0,1},{-1,2},{-1,1},{-2,1},{-1,0},{-2,-1},{-1,-1},{-1,-2},{0,-1},{1,-2},{1,-1},{2,-1}};
        for (int attempt = 0; attempt < 50; attempt++) {
            std::vector<int> idx; for (int i = 0; i < 16; i++) if (r.chance(45)) idx.push_back(i);
            if (idx.size() < 3) continue;
            bool ok = true;
            for (size_t i = 0; i < idx.size(); i++) { int a = idx[i], b = idx[(i + 1) % idx.size()]; int gap = (b - a + 16) % 16; if (gap == 0) gap = 16; if (gap >= 8) ok = false; }
            if (!ok) continue;
            Ring s; for (int i : idx) { int m = r.range(1, std::max(1, rad)); s.push_back(P{c.x + m * dirs[i].x, c.y + m * dirs[i].y}); }
            s.push_back(s[0]);
            if (r.chance(50)) std::reverse(s.begin(), s.end());
            if (ringSimple(s)) return s;
        }
        return rect(c, 3, 3);
    }
    IG polygon(int R) {
        IG g; g.tag = "Y"; Ring shell;
        int kind = (int) r.below(10);
        if (kind < 4) { shell = rect(rp(R), r.range(1, 10), r.range(1, 10)); if (r.chance(50)) std::reverse(shell.begin(), shell.end()); out.count("gen_poly_rect"); }
        else if (kind < 9) { shell = star(rp(R), r.range(2, 6)); out.count("gen_poly_star"); }
        else { P a = rp(R), b, c; do { b = P{a.x + r.range(-6, 6), a.y + r.range(-6, 6)}; c = P{a.x + r.range(-6, 6), a.y + r.range(-6, 6)}; } while (det(a, b, c) == 0); shell = Ring{a, b, c, a}; out.count("gen_poly_triangle"); }
        g.seqs.push_back(shell);
        int want = r.chance(45) ? r.range(1, 3) : 0;
        ll minx = shell[0].x, maxx = minx, miny = shell[0].y, maxy = miny;
        for (auto p : shell) { minx = std::min(minx, p.x); maxx = std::max(maxx, p.x); miny = std::min(miny, p.y); maxy = std::max(maxy, p.y); }
        for (int t = 0; t < 12 && (int) g.seqs.size() - 1 < want; t++) {
            P c{r.range((int) minx, (int) maxx), r.range((int) miny, (int) maxy)};
            Ring h;
            if (r.chance(60)) h = rect(c, r.range(1, 3), r.range(1, 3));
            else { P b{c.x + r.range(-2, 2), c.y + r.range(-2, 2)}, d{c.x + r.range(-2, 2), c.y + r.range(-2, 2)}; if (det(c, b, d) == 0) continue; h = Ring{c, b, d, c}; }
            bool ok = true;
            for (auto p : h) if (pip(p, shell) != 1) ok = false;
            if (ok && !ringsDisjoint(h, shell)) ok = false;
            for (size_t k = 1; ok && k < g.seqs.size(); k++) {
                if (!ringsDisjoint(h, g.seqs[k])) ok = false;
                else if (pip(h[0], g.seqs[k]) != -1 || pip(g.seqs[k][0], h) != -1) ok = false;
            }
            if (ok) { g.seqs.push_back(h); out.count("gen_hole"); }
        }
        return g;
    }
    // bounding box helper
    static void bbox(const IG& g, ll& minx, ll& maxx, ll& miny, ll& maxy) {
        std::vector<P> v; collectVerts(g, v); minx = miny = (ll) 1e18; maxx = maxy = -(ll) 1e18;
        for (auto p : v) { minx = std::min(minx, p.x); maxx = std::max(maxx, p.x); miny = std::min(miny, p.y); maxy = std::max(maxy, p.y); }
    }
    static void shift(IG& g, ll dx, ll dy) { forEachPt(g, [&](P& p) { p.x += dx; p.y += dy; }); }
    IG multi(const std::string& tag, int R) {
        IG g; g.tag = tag; int k = r.range(1, 4); ll cursor = -R;
        for (int i = 0; i < k; i++) {
            if (r.chance(12)) { g.kids.push_back(emptyOf(tag == "MP" ? "P" : tag == "ML" ? "L" : "Y")); out.count("gen_empty_element"); continue; }
            if (tag == "MP") g.kids.push_back(point(R));
            else if (tag == "ML") g.kids.push_back(line(R));
            else { IG p = polygon(4); ll a, b, c, d; bbox(p, a, b, c, d); shift(p, cursor - a, r.range(-3, 3)); cursor += (b - a) + r.range(1, 4); g.kids.push_back(p); }   // disjoint envelopes => valid multipolygon
        }
        if (isEmptyIG(g)) { g.kids.push_back(tag == "MP" ? point(R) : tag == "ML" ? line(R) : polygon(R)); }
        return g;
    }
    IG collection(int R, int depth) {
        IG g; g.tag = "GC"; int k = r.range(1, 4);
        for (int i = 0; i < k; i++) {
            if (r.chance(15)) { static const char* e[] = {"P", "L", "Y", "MP", "ML", "MY", "GC"}; g.kids.push_back(emptyOf(e[r.below(7)])); out.count("gen_empty_element"); continue; }
            g.kids.push_back(any(R, depth + 1));
        }
        if (isEmptyIG(g)) g.kids.push_back(any(R, 5));
        return g;
    }
    IG any(int R, int depth) {
        int k = (int) r.below(depth >= 2 ? 6 : 7);
        switch (k) {
            case 0: return point(R);
            case 1: return line(R);
            case 2: return polygon(R);
            case 3: return multi("MP", R);
            case 4: return multi("ML", R);
            case 5: return multi("MY", R);
            default: return collection(R, depth);
        }
    }
    IG ofType(int t, int R) {
        switch (t) { case 0: return point(R); case 1: return line(R); case 2: return polygon(R); case 3: return multi("MP", R);
                     case 4: return multi("ML", R); case 5: return multi("MY", R); default: return collection(R, 0); }
    }
    // large inputs: enough facet sequences for multi-level R-trees (node capacity 10, 6 segments per sequence)
    IG big(int R) {
        out.count("gen_big");
        switch (r.below(3)) {
            case 0: { IG g; g.tag = "MP"; int n = r.range(15, 70); for (int i = 0; i < n; i++) g.kids.push_back(point(R)); return g; }
            case 1: { IG g; g.tag = "L"; Ring s; P p = rp(R); s.push_back(p); int n = r.range(40, 120);
                      for (int i = 0; i < n; i++) { P q = p; q.x += r.range(-3, 3); q.y += r.range(-3, 3); if (q.x > R) q.x -= 4; if (q.x < -R) q.x += 4; if (q.y > R) q.y -= 4; if (q.y < -R) q.y += 4; if (q == p) q.x += 1; s.push_back(q); p = q; }
                      g.seqs.push_back(s); return g; }
            default: { IG g; g.tag = "ML"; int n = r.range(8, 22); for (int i = 0; i < n; i++) { IG l = line(R); if (l.seqs[0].size() == 2 && l.seqs[0][0] == l.seqs[0][1]) l.seqs[0][1].x += 1; g.kids.push_back(l); } return g; }
        }
    }
    // a geometry inside the quadrant x <= 0, y <= 0 that has a vertex at the origin = the (max x, max y) corner of its envelope
    IG cornered(int type, int scale) {
        IG g;
        auto down = [&](P p) { P q; do { q = P{p.x - r.range(0, 5) * scale, p.y - r.range(0, 5) * scale}; } while (q == p); return q; };
        if (type == 0) { g.tag = "P"; g.seqs.push_back({P{0, 0}}); return g; }
        if (type == 1) {
            g.tag = "L"; Ring a, b; P p{0, 0};
            int na = r.range(0, 3), nb = r.range(na == 0 ? 1 : 0, 3);
            for (int i = 0; i < na; i++) { p = down(p); a.push_back(p); }
            p = P{0, 0}; for (int i = 0; i < nb; i++) { p = down(p); b.push_back(p); }
            Ring sq(a.rbegin(), a.rend()); sq.push_back(P{0, 0}); for (auto q : b) sq.push_back(q);
            g.seqs.push_back(sq); return g;
        }
        if (type == 2) {
            g.tag = "Y"; ll w = r.range(1, 6) * scale, hh = r.range(1, 6) * scale; Ring shell;
            switch (r.below(3)) {
                case 0: shell = Ring{{-w, -hh}, {0, -hh}, {0, 0}, {-w, 0}, {-w, -hh}}; break;
                case 1: shell = Ring{{0, 0}, {-w, 0}, {0, -hh}, {0, 0}}; break;
                default: { P b{-w, -r.range(0, 3) * scale}, c{-r.range(0, 3) * scale, -hh}; if (det(P{0, 0}, b, c) == 0) c.x -= scale; shell = Ring{{0, 0}, b, c, {0, 0}}; }
            }
            if (r.chance(50)) std::reverse(shell.begin(), shell.end());
            g.seqs.push_back(shell);
            if (shell.size() == 5 && w >= 3 * scale && hh >= 3 * scale && r.chance(50)) { g.seqs.push_back(Ring{{-w + scale, -hh + scale}, {-scale, -hh + scale}, {-scale, -scale}, {-w + scale, -scale}, {-w + scale, -hh + scale}}); out.count("gen_hole"); }
            return g;
        }
        // multi / collection: one cornered element plus others strictly deeper in the quadrant
        int et = type == 3 ? 0 : type == 4 ? 1 : type == 5 ? 2 : (int) r.below(3);
        g.tag = type == 3 ? "MP" : type == 4 ? "ML" : type == 5 ? "MY" : "GC";
        IG first = cornered(et, scale);
        IG rest = type == 3 ? multi("MP", 8) : type == 4 ? multi("ML", 8) : type == 5 ? multi("MY", 8) : collection(8, 1);
        forEachPt(rest, [&](P& p) { p.x *= scale; p.y *= scale; });
        { ll a, b, c, d; bbox(rest, a, b, c, d); if (a <= b) shift(rest, -b - (8 + r.range(0, 20)) * scale, -d - (8 + r.range(0, 20)) * scale); }
        bool front = r.chance(50);
        if (front) g.kids.push_back(first);
        for (auto& k : rest.kids) g.kids.push_back(k);
        if (!front) g.kids.push_back(first);
        return g;
    }
    // a small geometry around the origin (for containment configurations)
    IG small() {
        switch (r.below(4)) {
            case 0: { IG g; g.tag = "P"; g.seqs.push_back({P{0, 0}}); return g; }
            case 1: { IG g; g.tag = "L"; g.seqs.push_back({P{0, 0}, P{r.range(-2, 2), r.range(-2, 2)}}); if (g.seqs[0][0] == g.seqs[0][1]) g.seqs[0][1].x += 1; return g; }
            case 2: { IG g; g.tag = "Y"; g.seqs.push_back(rect(P{0, 0}, r.range(1, 2), r.range(1, 2))); return g; }
            default: { IG g; g.tag = "MP"; g.kids.push_back(point(1)); g.kids.push_back(point(1)); return g; }
        }
    }
};

// ------------------------------------------------------------------ running the implementation on one pair
static std::string num(int ok, double v) { return ok ? hex(v) : std::string("E"); }
static std::string npTok(GEOSContextHandle_t h, GEOSCoordSequence* cs) {
    if (!cs) return "E";
    double x0, y0, x1, y1; unsigned n = 0; GEOSCoordSeq_getSize_r(h, cs, &n);
    if (n != 2) { GEOSCoordSeq_destroy_r(h, cs); return "E"; }
    GEOSCoordSeq_getXY_r(h, cs, 0, &x0, &y0); GEOSCoordSeq_getXY_r(h, cs, 1, &x1, &y1); GEOSCoordSeq_destroy_r(h, cs);
    return hex(x0) + " " + hex(y0) + " " + hex(x1) + " " + hex(y1);
}
static std::string npTokV(GEOSContextHandle_t h, GEOSCoordSequence* cs, double* v, bool& have) {
    have = false;
    if (!cs) return "E";
    unsigned n = 0; GEOSCoordSeq_getSize_r(h, cs, &n);
    if (n != 2) { GEOSCoordSeq_destroy_r(h, cs); return "E"; }
    GEOSCoordSeq_getXY_r(h, cs, 0, &v[0], &v[1]); GEOSCoordSeq_getXY_r(h, cs, 1, &v[2], &v[3]); GEOSCoordSeq_destroy_r(h, cs);
    have = true;
    return hex(v[0]) + " " + hex(v[1]) + " " + hex(v[2]) + " " + hex(v[3]);
}
// if dx^2 + dy^2 is the square of a representable double, that double (exact integer arithmetic on the mantissas)
static bool exactHyp(double dx, double dy, double& t) {
    dx = std::fabs(dx); dy = std::fabs(dy);
    if (!std::isfinite(dx) || !std::isfinite(dy) || (dx == 0 && dy == 0)) return false;
    auto split = [](double v, unsigned long long& m, int& e) { if (v == 0) { m = 0; e = 0; return; } int ee; double f = std::frexp(v, &ee);
        m = (unsigned long long) std::ldexp(f, 53); e = ee - 53; while ((m & 1) == 0) { m >>= 1; e++; } };
    unsigned long long mx, my; int ex, ey; split(dx, mx, ex); split(dy, my, ey);
    int e = mx == 0 ? ey : my == 0 ? ex : std::min(ex, ey);
    auto bits = [](unsigned long long m) { int b = 0; while (m) { b++; m >>= 1; } return b; };
    if ((mx && bits(mx) + (ex - e) > 62) || (my && bits(my) + (ey - e) > 62)) return false;
    unsigned __int128 X = mx ? (unsigned __int128) mx << (ex - e) : 0, Y = my ? (unsigned __int128) my << (ey - e) : 0;
    unsigned __int128 s = X * X + Y * Y;
    unsigned __int128 r = (unsigned __int128) std::sqrt((long double) s);
    while (r * r > s) r--;
    while ((r + 1) * (r + 1) <= s) r++;
    if (r * r != s || r >= ((unsigned __int128) 1 << 53)) return false;
    t = std::ldexp((double) (unsigned long long) r, e);
    return std::isfinite(t) && t > 0;
}
static std::string tf(char c) { return c == 1 ? "1" : c == 0 ? "0" : "E"; }

struct Sink { int fd; std::string buf; Sink& operator+=(const std::string& t) { if (fd >= 0) { ssize_t w = write(fd, t.data(), t.size()); (void) w; } else buf += t; return *this; } };

// appends " key value..." pieces to the sink as each call returns (so that a crash leaves the prefix behind)
static void runPairTo(Sink& s, GEOSContextHandle_t h, const GeometryFactory* gf, const std::string& ta, const std::string& tb) {
    auto ga = buildGeom(ta, gf); auto gb = buildGeom(tb, gf);
    const GEOSGeometry* A = reinterpret_cast<const GEOSGeometry*>(ga.get());
    const GEOSGeometry* B = reinterpret_cast<const GEOSGeometry*>(gb.get());
    double d = 0, v = 0; int ok;
    ok = GEOSDistance_r(h, A, B, &d); s += " d " + num(ok, d); int dok = ok;
    ok = GEOSDistance_r(h, B, A, &v); s += " ds " + num(ok, v);
    ok = GEOSDistanceIndexed_r(h, A, B, &v); s += " di " + num(ok, v);
    ok = GEOSDistanceIndexed_r(h, B, A, &v); s += " dis " + num(ok, v);
    const GEOSPreparedGeometry* pa = GEOSPrepare_r(h, A); const GEOSPreparedGeometry* pb = GEOSPrepare_r(h, B);
    ok = GEOSPreparedDistance_r(h, pa, B, &v); s += " pa " + num(ok, v);
    ok = GEOSPreparedDistance_r(h, pb, A, &v); s += " pb " + num(ok, v);
    double npv[4] = {0, 0, 0, 0}; bool haveNp = false;
    s += " np " + npTokV(h, GEOSNearestPoints_r(h, A, B), npv, haveNp);
    s += " nps " + npTok(h, GEOSNearestPoints_r(h, B, A));
    s += " npa " + npTok(h, GEOSPreparedNearestPoints_r(h, pa, B));
    s += " npb " + npTok(h, GEOSPreparedNearestPoints_r(h, pb, A));
    std::vector<double> ts;
    if (dok && d > 0) {
        // at, one ulp below and one ulp above the reported distance; and, when the reported nearest points are at an exactly representable
        // distance (e.g. a Pythagorean offset), at / below / above that exact value as well
        ts = {d * (1 - 1e-9), d, d * (1 + 1e-9), d * 0.5, d * 2, std::nextafter(d, 0.0), std::nextafter(d, INFINITY)};
        double te = 0;
        if (haveNp && exactHyp(npv[2] - npv[0], npv[3] - npv[1], te) && te != d) { ts.push_back(te); ts.push_back(std::nextafter(te, 0.0)); ts.push_back(std::nextafter(te, INFINITY)); }
    }
    else { double m = 1; const Envelope* e = ga->getEnvelopeInternal(); if (!e->isNull()) m = std::max(std::fabs(e->getMaxX()), 1e-300); ts = {0.0, m * 1e-9}; }
    for (double t : ts) {
        s += " w " + hex(t) + " " + tf(GEOSDistanceWithin_r(h, A, B, t));
        s += " wa " + hex(t) + " " + tf(GEOSPreparedDistanceWithin_r(h, pa, B, t));
        s += " wb " + hex(t) + " " + tf(GEOSPreparedDistanceWithin_r(h, pb, A, t));
    }
    ok = GEOSHausdorffDistance_r(h, A, B, &v); s += " h " + num(ok, v);
    ok = GEOSHausdorffDistance_r(h, B, A, &v); s += " hs " + num(ok, v);
    // densify fractions: each segment is cut into n = nearest integer to 1/frac equal parts; fractions with a tie are avoided
    static const struct { double f; int n; } FR[] = {{0.5, 2}, {0.25, 4}, {0.3, 3}, {0.15, 7}, {0.6, 2}, {0.7, 1}, {0.28, 4}, {0.65, 2}, {1.0, 1}, {0.35, 3}, {0.22, 5}, {0.45, 2}};
    unsigned long frc = 1469598103u; for (char ch : ta + tb) frc = (frc ^ (unsigned char) ch) * 16777619u;     // per-pair, replayable
    const auto& f1 = FR[(frc >> 8) % 12]; const auto& f2 = FR[(frc >> 16) % 12];
    ok = GEOSHausdorffDistanceDensify_r(h, A, B, f1.f, &v); s += " hd " + std::to_string(f1.n) + " " + num(ok, v);
    ok = GEOSHausdorffDistanceDensify_r(h, B, A, f2.f, &v); s += " hsd " + std::to_string(f2.n) + " " + num(ok, v);
    ok = GEOSFrechetDistance_r(h, A, B, &v); s += " f " + num(ok, v);
    ok = GEOSFrechetDistance_r(h, B, A, &v); s += " fs " + num(ok, v);
    ok = GEOSFrechetDistanceDensify_r(h, A, B, f2.f, &v); s += " fd " + std::to_string(f2.n) + " " + num(ok, v);
    ok = GEOSFrechetDistanceDensify_r(h, B, A, f1.f, &v); s += " fsd " + std::to_string(f1.n) + " " + num(ok, v);
    GEOSPreparedGeom_destroy_r(h, pa); GEOSPreparedGeom_destroy_r(h, pb);
    s += dok && d == 0 ? " Z" : " NZ";
}

// run one pair in a forked child; a crash of the library is reported as the token `crash` after the
// answers obtained so far
static std::string runPair(GEOSContextHandle_t h, const GeometryFactory* gf, const std::string& ta, const std::string& tb, Out* out) {
    int fds[2]; if (pipe(fds) != 0) throw std::runtime_error("pipe");
    fflush(nullptr);
    pid_t pid = fork();
    if (pid == 0) {
        close(fds[0]); Sink sk{fds[1], ""};
        try { runPairTo(sk, h, gf, ta, tb); } catch (std::exception& e) { sk += " harness-exception"; }
        close(fds[1]); _exit(0);
    }
    close(fds[1]); std::string got; char buf[4096]; ssize_t n;
    while ((n = read(fds[0], buf, sizeof buf)) > 0) got.append(buf, (size_t) n);
    close(fds[0]); int st = 0; waitpid(pid, &st, 0);
    bool crashed = !(WIFEXITED(st) && WEXITSTATUS(st) == 0);
    bool zero = false;
    if (!crashed) { if (got.size() >= 3 && got.substr(got.size() - 3) == " NZ") got.resize(got.size() - 3); else if (got.size() >= 2 && got.substr(got.size() - 2) == " Z") { got.resize(got.size() - 2); zero = true; } }
    else got += " crash";
    if (out) { out->count(crashed ? "impl_crash" : zero ? "impl_distance_zero" : "impl_distance_positive"); }
    return ta + " " + tb + " R" + got;
}

static std::string typeName(const IG& g) { return g.tag; }

int main(int argc, char** argv) {
    if (argc < 3) { fprintf(stderr, "usage\n"); return 2; }
    std::string stream = argv[1];
    GEOSContextHandle_t h = GEOS_init_r();
    GEOSContext_setNoticeHandler_r(h, notice); GEOSContext_setErrorHandler_r(h, errorh);
    auto gf = GeometryFactory::create();
    if (stream == "replay") {
        std::ifstream f(argv[2]); std::string line;
        while (std::getline(f, line)) {
            if (line.empty()) continue;
            auto v = splitToks(line); Toks tk(v);
            // re-serialise the two geometries from the token stream
            auto take = [&]() { size_t p0 = tk.p; tk.next(); buildG(tk, gf.get()); std::string s; for (size_t i = p0; i < tk.p; i++) { if (i > p0) s += ' '; s += v[i]; } return s; };
            std::string ta = take(), tb = take();
            std::cout << runPair(h, gf.get(), ta, tb, nullptr) << "\n";
        }
        GEOS_finish_r(h); return 0;
    }
    if (argc < 5 || (stream != "distance" && stream != "distance-fp")) { fprintf(stderr, "usage\n"); return 2; }
    bool fpStream = stream == "distance-fp";
    uint64_t seed = std::stoull(argv[2]); long n = std::stol(argv[3]); Out out(argv[4]);
    // vh::Rng(seed) and vh::Rng(seed+1) are the same splitmix sequence shifted by one draw, and run_stream hands
    // consecutive seeds to its shards: derive a decorrelated state so that shards do not repeat each other's cases
    Rng r0(seed); uint64_t s2 = r0.next(); s2 ^= r0.next() << 1; Rng r(s2);
    Gen gen(r, out);
    for (long i = 0; i < n; i++) {
        int ta = (int) r.below(7), tb = (int) r.below(7);
        IG A = gen.ofType(ta, 8), B = gen.ofType(tb, 8);
        if (r.chance(6)) { A = gen.big(r.chance(50) ? 12 : 40); ta = A.tag == "MP" ? 3 : A.tag == "L" ? 1 : 4; if (r.chance(60)) { B = gen.big(r.chance(50) ? 12 : 40); tb = B.tag == "MP" ? 3 : B.tag == "L" ? 1 : 4; } }
        std::string cfg;
        std::vector<P> va, vb; collectVerts(A, va); collectVerts(B, vb);
        int c = (int) r.below(100);
        if (r.chance(7)) {                  // exact Pythagorean offset between facing envelope corners
            static const int PY[][3] = {{3, 4, 5}, {5, 12, 13}, {8, 15, 17}, {7, 24, 25}, {20, 21, 29}, {12, 35, 37}, {9, 40, 41}, {28, 45, 53}, {11, 60, 61}, {33, 56, 65}};
            const int* t = PY[r.below(10)];
            int bitsK = r.chance(12) ? r.range(1, 24) : r.range(27, 31);
            ll top = ((ll) 1 << bitsK) / t[2]; if (top < 1) top = 1;
            ll k = (top / 2 + (ll) r.below((uint64_t) (top - top / 2 + 1))) | 1;
            int scale = r.chance(60) ? 1 : r.chance(50) ? r.range(2, 1000) : (int) std::min<ll>(1000000, std::max<ll>(1, k / r.range(3, 50)));
            ta = (int) r.below(7); tb = (int) r.below(7);
            A = gen.cornered(ta, scale); B = gen.cornered(tb, r.chance(50) ? scale : 1);
            forEachPt(B, [&](P& p) { p.x = -p.x; p.y = -p.y; });
            bool sw = r.chance(50);
            Gen::shift(B, (sw ? t[1] : t[0]) * k, (sw ? t[0] : t[1]) * k);
            cfg = "pythagorean"; { ll big = std::max(t[0], t[1]) * k; out.count(big * big >= ((ll) 1 << 53) ? "pyth_squares_over_53_bits" : "pyth_squares_exact"); }
            out.count(std::string("pyth_triple_") + std::to_string(t[2])); c = -1;
        }
        if (c < 0) {}
        else if (c < 18) {                       // far apart (often with overlapping envelopes in one axis)
            ll dx = r.chance(70) ? r.range(25, 200) * (r.chance(50) ? 1 : -1) : 0, dy = (dx == 0 || r.chance(50)) ? r.range(25, 200) * (r.chance(50) ? 1 : -1) : 0;
            Gen::shift(B, dx, dy); cfg = "far";
        } else if (c < 40) { Gen::shift(B, r.range(-12, 12), r.range(-12, 12)); cfg = "near"; }
        else if (c < 52) { P a = va[r.below(va.size())], b = vb[r.below(vb.size())]; Gen::shift(B, a.x - b.x, a.y - b.y); cfg = "touch_vertex_vertex"; }
        else if (c < 64) {
            std::vector<std::pair<P, P>> ea; collectEdges(A, ea); P target = va[r.below(va.size())]; cfg = "touch_vertex_vertex";
            if (!ea.empty()) { auto e = ea[r.below(ea.size())]; ll g = std::__gcd(std::llabs(e.second.x - e.first.x), std::llabs(e.second.y - e.first.y));
                if (g > 1) { ll k = r.range(1, (int) g - 1); target = P{e.first.x + k * (e.second.x - e.first.x) / g, e.first.y + k * (e.second.y - e.first.y) / g}; cfg = "touch_vertex_on_edge"; } }
            P b = vb[r.below(vb.size())]; Gen::shift(B, target.x - b.x, target.y - b.y);
        } else if (c < 84) {                // containment: B small, placed inside a polygon of A (or inside one of its holes)
            std::vector<const IG*> polys; collectPolys(A, polys);
            if (polys.empty()) { A = gen.polygon(8); polys.clear(); collectPolys(A, polys); ta = 2; }
            // enlarge A so that there is room
            forEachPt(A, [&](P& p) { p.x *= 3; p.y *= 3; });
            const IG* py = polys[r.below(polys.size())];
            bool inHole = py->seqs.size() > 1 && r.chance(35);
            const Ring& ring = inHole ? py->seqs[1 + r.below(py->seqs.size() - 1)] : py->seqs[0];
            ll minx = ring[0].x, maxx = minx, miny = ring[0].y, maxy = miny;
            for (auto p : ring) { minx = std::min(minx, p.x); maxx = std::max(maxx, p.x); miny = std::min(miny, p.y); maxy = std::max(maxy, p.y); }
            P at{0, 0}; bool found = false;
            for (int t = 0; t < 60 && !found; t++) { at = P{r.range((int) minx, (int) maxx), r.range((int) miny, (int) maxy)};
                if (pip(at, ring) == 1) { found = true; if (!inHole) for (size_t k = 1; k < py->seqs.size(); k++) if (pip(at, py->seqs[k]) != -1) found = false; } }
            if (r.chance(70)) { B = gen.small(); tb = B.tag == "P" ? 0 : B.tag == "L" ? 1 : B.tag == "Y" ? 2 : 3; }
            else { ll a, b2, c2, d2; Gen::bbox(B, a, b2, c2, d2); Gen::shift(B, -(a + b2) / 2, -(c2 + d2) / 2); }
            Gen::shift(B, at.x, at.y);
            cfg = inHole ? "inside_hole" : "inside_polygon"; if (!found) cfg = "near";
        } else if (c < 92) {                // shared linework / identical
            int m = (int) r.below(3);
            if (m == 0) { B = A; tb = ta; cfg = "identical"; }
            else { std::vector<std::pair<P, P>> ea; collectEdges(A, ea);
                if (ea.empty()) { B = A; tb = ta; cfg = "identical"; }
                else { auto e = ea[r.below(ea.size())]; IG l; l.tag = "L"; P d{e.second.x - e.first.x, e.second.y - e.first.y};
                    int k0 = r.range(-1, 1), k1 = r.range(1, 2); l.seqs.push_back({P{e.first.x + k0 * d.x, e.first.y + k0 * d.y}, P{e.first.x + k1 * d.x, e.first.y + k1 * d.y}});
                    if (l.seqs[0][0] == l.seqs[0][1]) l.seqs[0][1].x += 1;
                    if (m == 2) { ll off = r.range(1, 3); if (d.x == 0) Gen::shift(l, off, 0); else if (d.y == 0) Gen::shift(l, 0, off); else Gen::shift(l, 0, off); cfg = "parallel_to_edge"; } else cfg = "collinear_with_edge";
                    B = l; tb = 1; } }
        } else { Gen::shift(B, r.range(-30, 30), r.range(-30, 30)); cfg = "near"; }
        if (r.chance(50)) { std::swap(A, B); std::swap(ta, tb); }
        Xf x; x.sym = (int) r.below(8);
        switch (r.below(5)) { case 0: case 1: x.tx = x.ty = 0; break; case 2: x.tx = r.range(-50, 50); x.ty = r.range(-50, 50); break;
                              case 3: x.tx = r.range(-5000, 5000); x.ty = r.range(-5000, 5000); break; default: x.tx = 1000000 + r.range(-999, 999); x.ty = -2000000 + r.range(-999, 999); }
        x.k = r.chance(50) ? 0 : r.range(-30, 30);
        if (fpStream) {
            // full-precision coordinates: the same shapes under a similarity with arbitrary double coefficients.  A contact that is
            // not vertex-to-vertex would not survive the rounding of the map (it becomes a 1e-16 gap or overlap), so such pairs
            // keep the grid transform; shared vertices, proper crossings and containment do survive.
            std::vector<P> wa, wb; collectVerts(A, wa); collectVerts(B, wb);
            std::vector<std::pair<P, P>> ea, eb; collectEdges(A, ea); collectEdges(B, eb);
            bool fragile = false;
            for (auto& e : eb) for (auto& v : wa) if (onSeg(e.first, e.second, v) && !(v == e.first) && !(v == e.second)) fragile = true;
            for (auto& e : ea) for (auto& v : wb) if (onSeg(e.first, e.second, v) && !(v == e.first) && !(v == e.second)) fragile = true;
            if (!fragile) {
                x.fp = true; double ang = r.unit() * 6.283185307179586, sc = std::pow(10.0, r.unit() * 8 - 4);
                x.a = std::cos(ang) * sc; x.b = std::sin(ang) * sc;
                double off = r.chance(40) ? 0 : std::pow(10.0, r.unit() * 6) * sc; x.fx = (r.unit() - 0.5) * off; x.fy = (r.unit() - 0.5) * off;
                out.count("fp_similarity");
            } else out.count("fp_kept_on_grid_fragile_contact");
        }
        out.count("cfg_" + cfg); out.count("types_" + typeName(A) + "_" + typeName(B));
        out.count(x.k == 0 ? "scale_1" : "scale_2^k"); out.count(x.tx == 0 && x.ty == 0 ? "translate_0" : std::llabs(x.tx) > 100000 ? "translate_1e6" : "translate_small");
        std::string sa = tokens(x, A), sb = tokens(x, B);
        try { out.emit(runPair(h, gf.get(), sa, sb, &out), "ok"); }
        catch (std::exception& e) { out.count("harness_exception"); out.emit(sa + " " + sb + " R", std::string("harness-exception")); }
    }
    GEOS_finish_r(h);
    return 0;
}
