import Driver.ValidLib
import Driver.C05Nest
import Driver.C05Pair
import Driver.C05Self
/-! Driver executable for C05 (`drv_c05`): stream `valid-grid` compares GEOS observations with the reference rules;
stream `ref` prints the reference verdicts of a bare geometry line. -/

def main (args : List String) : IO UInt32 := do
  match args with
  | ["valid-grid"] => Driver.loop (← IO.getStdin) (← IO.getStdout) Driver.C05.check; return 0
  | ["node-topo"] => Driver.loop (← IO.getStdin) (← IO.getStdout) Driver.C05.nodeTopo; return 0
  | ["ring-nested"] => Driver.loop (← IO.getStdin) (← IO.getStdout) Driver.C05.ringNested; return 0
  | ["pair-rule"] => Driver.loop (← IO.getStdin) (← IO.getStdout) Driver.C05.pairRuleLine; return 0
  | ["self-node"] => Driver.loop (← IO.getStdin) (← IO.getStdout) Driver.C05.selfNodeLine; return 0
  | ["nested-tester"] => Driver.loop (← IO.getStdin) (← IO.getStdout) Driver.C05.nestedTesterLine; return 0
  | ["ring-nested-dbg"] => Driver.loop (← IO.getStdin) (← IO.getStdout) Driver.C05.ringNestedDbg; return 0
  | ["ref"] => Driver.loop (← IO.getStdin) (← IO.getStdout) Driver.C05.refOnly; return 0
  | _ => IO.eprintln "usage: drv_c05 valid-grid|node-topo|ring-nested|pair-rule|self-node|nested-tester|ref"; return 2
