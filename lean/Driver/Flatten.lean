import Driver.Common
import Driver.GTreeIO
import GeosModel.Base.F64
import GeosModel.Model.Relate.Ref
/-! Shared by the topology drivers: token splitting, exact scaling of a pair of GTrees to integer `Flat`s. -/
namespace Driver.Flatten
open GeosModel GeosModel.Relate GeosModel.Kernel

/-- split a list of tokens at "|" -/
def splitBar (l : List String) : List (List String) :=
  let (cur, acc) := l.foldl (fun (st : List String × List (List String)) t =>
    if t == "|" then ([], st.1.reverse :: st.2) else (t :: st.1, st.2)) ([], [])
  (cur.reverse :: acc).reverse

def seqOrds (s : CSeq) : List UInt64 := s.pts.flatMap fun c => [c.x, c.y]

partial def ordsOf : G → List UInt64
  | .point s | .lineString s | .linearRing s | .circularString s => seqOrds s
  | .polygon sh hs => seqOrds sh ++ hs.flatMap seqOrds
  | .compoundCurve gs | .curvePolygon gs | .multiPoint gs | .multiLineString gs | .multiPolygon gs
  | .multiCurve gs | .multiSurface gs | .collection gs => gs.flatMap ordsOf

partial def hasCurve : G → Bool
  | .circularString _ | .compoundCurve _ | .curvePolygon _ | .multiCurve _ | .multiSurface _ => true
  | .multiPoint gs | .multiLineString gs | .multiPolygon gs | .collection gs => gs.any hasCurve
  | _ => false

structure FlatZ where
  f : Flat
  zeroLen : Bool      -- a zero-length line was turned into a point

partial def flattenG (toI : UInt64 → Int) (acc : FlatZ) : G → FlatZ
  | .point s =>
    match s.pts with
    | [] => acc
    | c :: _ => { acc with f := { acc.f with pts := acc.f.pts ++ [⟨toI c.x, toI c.y⟩] } }
  | .lineString s | .linearRing s =>
    let ps : List Pt := s.pts.map fun c => ⟨toI c.x, toI c.y⟩
    match ps with
    | [] => acc
    | p :: r =>
      if r.all (· == p) then { f := { acc.f with pts := acc.f.pts ++ [p] }, zeroLen := true }
      else { acc with f := { acc.f with lines := acc.f.lines ++ [ps] } }
  | .polygon sh hs =>
    if sh.pts.isEmpty then acc else
      let ring (s : CSeq) : List Pt := s.pts.map fun c => ⟨toI c.x, toI c.y⟩
      { acc with f := { acc.f with polys := acc.f.polys ++ [ring sh :: (hs.filter (!·.pts.isEmpty)).map ring] } }
  | .multiPoint gs | .multiLineString gs | .multiPolygon gs | .collection gs => gs.foldl (flattenG toI) acc
  | _ => acc


/-- both geometries over one common power of two; `none` if some ordinate is not finite -/
def flattenPair (ga gb : G) : Option (FlatZ × FlatZ) :=
  let ords := ordsOf ga ++ ordsOf gb
  match ords.mapM F64.dyadic with
  | none => none
  | some ds =>
    let e0 := F64.minExp ds
    let toI (u : UInt64) : Int := match F64.dyadic u with | some d => F64.scaleTo e0 d | none => 0
    some (flattenG toI ⟨Flat.empty, false⟩ ga, flattenG toI ⟨Flat.empty, false⟩ gb)

/-- largest absolute coordinate (in the integer units of the flattened pair) -/
def maxAbs (A B : Flat) : Int :=
  let coords (f : Flat) : List Int := (f.pts ++ f.lines.flatten ++ f.polys.flatten.flatten).flatMap fun p => [p.x.natAbs, p.y.natAbs]
  (coords A ++ coords B).foldl max 1

/-- is point `p` within rounding distance of the line through segment `s`?  "Rounding distance" = relative 1e-6 of the
segment length, or `tol` (a few ulps of the largest coordinate, in integer units).  Exact integer test. -/
def nearLine (tol : Int) (s : Seg) (p : Pt) : Bool :=
  let d := det s.p s.q p
  decide (d * d * 1000000000000 ≤ s.sqLen * s.sqLen) || decide (d * d ≤ tol * tol * s.sqLen)

/-- do a segment of A and a segment of B (nearly) overlap collinearly over a positive length? -/
def nearOverlap (tol : Int) (A B : Flat) : Bool :=
  A.segs.any fun s => B.segs.any fun t =>
    nearLine tol s t.p && nearLine tol s t.q &&
    (let a := s.dotv s.p t.p; let b := s.dotv s.p t.q
     let lo := min a b; let hi := max a b
     decide (lo < s.sqLen) && decide (hi > 0) && decide (lo < hi))

def flatVertices (f : Flat) : List Pt := f.pts ++ f.lines.flatten ++ f.polys.flatten.flatten

/-- is some vertex of `A` within rounding distance of (the relative interior of) a segment of `B`? -/
def nearVertexOnSeg (tol : Int) (A B : Flat) : Bool :=
  (flatVertices A).any fun v => B.segs.any fun t =>
    v != t.p && v != t.q && nearLine tol t v &&
    (let a := t.dotv t.p v; decide (0 ≤ a) && decide (a ≤ t.sqLen))

/-- the pair has a (near-)degenerate contact beyond shared vertices -/
def nearIncidence (A B : Flat) : Bool :=
  let tol := max 1 (maxAbs A B / 70368744177664)      -- 2^46: 64 ulps of the largest coordinate
  nearOverlap tol A B || nearOverlap tol B A || nearVertexOnSeg tol A B || nearVertexOnSeg tol B A

/-- like `nearLine`, but the point is *not exactly* on the line of `s` (a genuine rounding-distance incidence) -/
def nearLineInexact (tol : Int) (s : Seg) (p : Pt) : Bool := nearLine tol s p && det s.p s.q p != 0

/-- some (near-)degenerate contact is *inexact*: a vertex within rounding distance of a segment's interior without being
exactly on it, or two segments collinear to rounding over a positive length without being exactly collinear.  Exact
incidences (determinant 0) are decided exactly by the robust predicates and are not counted. -/
def inexactIncidence (A B : Flat) : Bool :=
  let tol := max 1 (maxAbs A B / 70368744177664)
  let ov (A B : Flat) : Bool :=
    A.segs.any fun s => B.segs.any fun t =>
      nearLine tol s t.p && nearLine tol s t.q && (det s.p s.q t.p != 0 || det s.p s.q t.q != 0) &&
      (let a := s.dotv s.p t.p; let b := s.dotv s.p t.q
       let lo := min a b; let hi := max a b
       decide (lo < s.sqLen) && decide (hi > 0) && decide (lo < hi))
  let vs (A B : Flat) : Bool :=
    (flatVertices A).any fun v => B.segs.any fun t =>
      v != t.p && v != t.q && nearLineInexact tol t v &&
      (let a := t.dotv t.p v; decide (0 ≤ a) && decide (a ≤ t.sqLen))
  ov A B || ov B A || vs A B || vs B A

/-- two segments overlap collinearly, exactly, over a positive length -/
def exactOverlap (A B : Flat) : Bool :=
  A.segs.any fun s => B.segs.any fun t =>
    det s.p s.q t.p == 0 && det s.p s.q t.q == 0 &&
    (let a := s.dotv s.p t.p; let b := s.dotv s.p t.q
     let lo := min a b; let hi := max a b
     decide (lo < s.sqLen) && decide (hi > 0) && decide (lo < hi))

end Driver.Flatten
