import Driver.Common
import Driver.GTreeIO
import GeosModel.Base.F64
import GeosModel.Model.Relate.Ref
import GeosModel.Model.Relate.Pred
import GeosModel.Model.Relate.EnvExit
import GeosModel.Model.Relate.PrepPoly
import GeosModel.Base.Env
import Driver.Flatten
/-! Driver for C01 (and the matrix part of C02): evaluates the reference DE-9IM on a grid pair and
compares every observation the harness made on GEOS with what the definitions assign to that matrix. -/
namespace Driver.C01
open GeosModel GeosModel.Relate GeosModel.Kernel Driver.Flatten

def kv (l : List String) : List (String × String) :=
  l.filterMap fun t => match t.splitOn "=" with
    | [k, v] => some (k, v)
    | _ => none

def b01 (b : Bool) : Char := if b then '1' else '0'

/-- the ten named predicates in the harness order: intersects disjoint touches crosses within contains overlaps equals covers coveredBy -/
def namedPreds (m : IM) (dA dB : Int) : String :=
  String.ofList [b01 m.isIntersects, b01 m.isDisjoint, b01 (m.isTouches dA dB), b01 (m.isCrosses dA dB), b01 m.isWithin,
    b01 m.isContains, b01 (m.isOverlaps dA dB), b01 (m.isEquals dA dB), b01 m.isCovers, b01 m.isCoveredBy]

/-- prepared order: intersects disjoint touches crosses within contains overlaps covers coveredBy containsProperly -/
def preparedPreds (m : IM) (dA dB : Int) : String :=
  String.ofList [b01 m.isIntersects, b01 m.isDisjoint, b01 (m.isTouches dA dB), b01 (m.isCrosses dA dB), b01 m.isWithin,
    b01 m.isContains, b01 (m.isOverlaps dA dB), b01 m.isCovers, b01 m.isCoveredBy, b01 (m.matchesPat "T**FF*FF*".toList)]

def check (line : String) : String :=
  match splitBar (Driver.tokens line) with
  | [["R"], ta, tb, obs] =>
    match Driver.GTreeIO.parseGeom ta, Driver.GTreeIO.parseGeom tb with
    | some (ga, []), some (gb, []) =>
      if hasCurve ga.g || hasCurve gb.g then "skip curved" else
      let ords := ordsOf ga.g ++ ordsOf gb.g
      match ords.mapM F64.dyadic with
      | none => "skip non-finite"
      | some ds =>
        let e0 := F64.minExp ds
        let toI (u : UInt64) : Int := match F64.dyadic u with | some d => F64.scaleTo e0 d | none => 0
        let A := flattenG toI ⟨Flat.empty, false⟩ ga.g
        let B := flattenG toI ⟨Flat.empty, false⟩ gb.g
        let dA := A.f.dimReal; let dB := B.f.dimReal
        let o := kv obs
        let get (k : String) : String := (o.lookup k).getD "?"
        let zl := A.zeroLen || B.zeroLen
        let m2 := refIM .mod2 A.f B.f
        -- structural feature used to classify findings: do a segment of A and a segment of B overlap collinearly?
        let ovl := A.f.segs.any fun s => B.f.segs.any fun t => segRel s.p s.q t.p t.q == SegRel.overlap
        let bad (k i r : String) : Option String :=
          if i == r then none else some s!"bad {k} impl={i} ref={r} dims={dA},{dB} ovl={if ovl then 1 else 0}"
        let rules : List (String × BNRule) := [("m1", .mod2), ("m2", .endpoint), ("m3", .multivalent), ("m4", .monovalent)]
        let ruleChecks : List (Option String) := rules.map fun (k, r) =>
          if zl && r != .mod2 then none else bad k (get k) (refIM r A.f B.f).toStr
        let bothEmpty := A.f.isEmpty && B.f.isEmpty
        let preds := namedPreds m2 dA dB
        let pchecks :=
          if bothEmpty then
            -- known quirk: equals(EMPTY, EMPTY) is true by fiat although FFFFFFFF2 does not match T*F**FFF*
            [bad "P-both-empty" ((get "P").toList.eraseIdx 7 |> String.ofList) (preds.toList.eraseIdx 7 |> String.ofList),
             (if (get "P").toList[7]? == some '1' then some "bad equals-both-empty impl=1 ref=0" else none)]
          else [bad "P" (get "P") preds]
        let pats : List (Option String) := ((get "pat").splitOn ",").map fun t =>
          match t.splitOn ":" with
          | [p, res] => let e := b01 (m2.matchesPat p.toList); bad s!"pat:{p}" res (String.ofList [e, e])
          | _ => some "bad pat-format"
        let all := ruleChecks ++ [bad "m" (get "m") m2.toStr, bad "pm" (get "pm") m2.toStr,
                    bad "mt" (get "mt") m2.transpose.toStr] ++ pchecks ++ [bad "Q" (get "Q") (preparedPreds m2 dA dB)] ++ pats
        match all.filterMap id with
        | [] => "ok"
        | e :: _ => e
    | _, _ => "parse-error"
  | _ => "bad-line"

/-- stream refmatrix: just the reference matrix (mod-2 rule) of a pair; used to cross-validate the oracle against
the expected matrices written by hand in the repository's XML suites -/
def refOnly (line : String) : String :=
  match splitBar (Driver.tokens line) with
  | ["R"] :: ta :: tb :: _ =>
    match Driver.GTreeIO.parseGeom ta, Driver.GTreeIO.parseGeom tb with
    | some (ga, []), some (gb, []) =>
      if hasCurve ga.g || hasCurve gb.g then "skip curved" else
      match flattenPair ga.g gb.g with
      | some (A, B) => (refIM .mod2 A.f B.f).toStr
      | none => "skip non-finite"
    | _, _ => "parse-error"
  | _ => "bad-line"

/-! #### stream pred-sm -/

def parseKind (s : String) : Option Kind :=
  match s.splitOn ":" with
  | ["intersects"] => some .intersects | ["disjoint"] => some .disjoint | ["contains"] => some .contains
  | ["within"] => some .within | ["covers"] => some .covers | ["coveredBy"] => some .coveredBy
  | ["crosses"] => some .crosses | ["equalsTopo"] => some .equalsTopo | ["overlaps"] => some .overlaps
  | ["touches"] => some .touches
  | ["pattern", p] => some (.pattern (patOfChars p.toList))
  | _ => none

def parseBox : List String → Option Env
  | ["n"] => some none
  | [a, b, c, d] => do some (some ⟨← a.toInt?, ← b.toInt?, ← c.toInt?, ← d.toInt?⟩)
  | _ => none

def envEquals : Env → Env → Bool
  | none, o => o.isNone
  | some a, some o => a == o
  | some _, none => false

def stChar (s : PState) : Char := match s.value with | none => 'u' | some true => 't' | some false => 'f'

def loc3 (c : Char) : Option Loc3 := if c == '0' then some .I else if c == '1' then some .B else if c == '2' then some .E else none

def predSM (line : String) : String :=
  match splitBar (Driver.tokens line) with
  | [["S", k, dA, dB], ea, eb, ups] =>
    match parseKind k, dA.toInt?, dB.toInt?, parseBox ea, parseBox eb with
    | some k, some dA, some dB, some ea, some eb =>
      let facts : EnvFacts := { intersects := Env.inter ea eb, aCoversB := Env.covers ea eb, bCoversA := Env.covers eb ea,
                                equal := envEquals ea eb, bothNull := ea.isNone && eb.isNone }
      let s0 := (PState.new k).initDim dA dB
      let s1 := s0.initEnv facts
      let (s, tr) := ups.foldl (fun (st : PState × List Char) u =>
        match u.toList with
        | [a, b, d] =>
          match loc3 a, loc3 b, (String.ofList [d]).toInt? with
          | some a, some b, some d => let s' := st.1.update a b d; (s', stChar s' :: st.2)
          | _, _, _ => st
        | _ => st) (s1, [stChar s1, stChar s0])
      -- requirement flags of the kind (Model/Relate/EnvExit.lean), then the trace of the state machine
      let flags := String.ofList [b01 (k.requireCovers true), b01 (k.requireCovers false), b01 (k.requireExteriorCheck true),
                                  b01 (k.requireExteriorCheck false), b01 k.requireInteraction]
      flags ++ " " ++ String.ofList ((stChar s.finish :: tr).reverse)
    | _, _, _, _, _ => "parse-error"
  | _ => "bad-line"

def parseIMStr (s : String) : Option IM :=
  match s.toList.map (fun c => if c == 'F' then (-1 : Int) else if c == '0' then 0 else if c == '1' then 1 else if c == '2' then 2 else -9) with
  | [a, b, c, d, e, f, g, h, i] => if [a, b, c, d, e, f, g, h, i].any (· == -9) then none else some ⟨a, b, c, d, e, f, g, h, i⟩
  | _ => none

/-- stream `immatrix`: `geom::IntersectionMatrix` answers from the model of Base/IM (the object of the `named_*_eq_pattern` theorems) -/
def imMatrix (line : String) : String :=
  match Driver.tokens line with
  | ["M", m, dA, dB, pat] =>
    match parseIMStr m, dA.toInt?, dB.toInt? with
    | some m, some dA, some dB =>
      let b (v : Bool) : Char := if v then '1' else '0'
      let preds := [m.isDisjoint, m.isIntersects, m.isTouches dA dB, m.isCrosses dA dB, m.isWithin, m.isContains,
                    m.isEquals dA dB, m.isOverlaps dA dB, m.isCovers, m.isCoveredBy]
      let mt := m.matchesPat pat.toList
      String.ofList (preds.map b) ++ " " ++ String.ofList [b mt, b mt] ++ " " ++ m.transpose.toStr
    | _, _, _ => "parse-error"
  | _ => "bad-line"

/-! #### stream prep-core: the four prepared-polygon fast-path classes and the `PreparedPolygon` wrappers, from the decision core of
Model/Relate/PrepPoly.lean on the facts the harness computed exactly on the lattice -/
open GeosModel.PrepPoly in
def prepCore (line : String) : String :=
  match splitBar (Driver.tokens line) with
  | [["K"], _, _, obs] =>
    let o := kv obs
    let get (k : String) : String := (o.lookup k).getD "?"
    let flag (k : String) : Option Bool := match get k with | "1" => some true | "0" => some false | _ => none
    let locs (k : String) : Option (List Loc3) :=
      if get k == "-" then some [] else (get k).toList.mapM fun c => if c == 'I' then some Loc3.I else if c == 'B' then some Loc3.B else if c == 'E' then some Loc3.E else none
    match locs "tl", locs "rl", flag "si", flag "pr", flag "np", flag "fc", flag "fv", flag "pie", flag "pu", flag "d2", flag "pg", flag "ss",
          (get "n").toNat?, flag "ec", flag "ei", flag "rect" with
    | some tl, some rl, some si, some pr, some np, some fc, some fv, some pie, some pu, some d2, some pg, some ss, some n, some ec, some ei, some rect =>
      let sh : Shape := { puntalIE := pie, puntal := pu, dim2 := d2, polygonal := pg, targetSingleShell := ss, numPoints := n }
      let f : Facts := { testLocs := tl, segInt := si, proper := pr, nonProper := np, repLocs := rl }
      let c := eval true sh f fc
      let v := eval false sh f fv
      let p := containsProperly sh f
      let i := intersects sh f
      let direct := String.ofList [b01 c, b01 v, b01 p, b01 i]
      let wrapped := if rect then "----" else
        String.ofList [b01 (wrapCovers ec c), b01 (wrapCovers ec v), b01 (wrapCovers ec p), b01 (wrapIntersects ei i)]
      direct ++ " " ++ wrapped
    | _, _, _, _, _, _, _, _, _, _, _, _, _, _, _, _ => "parse-error"
  | _ => "bad-line"

end Driver.C01

def main (args : List String) : IO UInt32 := do
  match args with
  | ["relate-grid"] => Driver.loop (← IO.getStdin) (← IO.getStdout) Driver.C01.check; return 0
  | ["refmatrix"] => Driver.loop (← IO.getStdin) (← IO.getStdout) Driver.C01.refOnly; return 0
  | ["pred-sm"] => Driver.loop (← IO.getStdin) (← IO.getStdout) Driver.C01.predSM; return 0
  | ["prep-core"] => Driver.loop (← IO.getStdin) (← IO.getStdout) Driver.C01.prepCore; return 0
  | ["immatrix"] => Driver.loop (← IO.getStdin) (← IO.getStdout) Driver.C01.imMatrix; return 0
  | _ => IO.eprintln "usage: drv_c01 relate-grid"; return 2
