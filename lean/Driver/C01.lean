import Driver.Common
import Driver.GTreeIO
import GeosModel.Base.F64
import GeosModel.Model.Relate.Ref
/-! Driver for C01 (and the matrix part of C02): evaluates the reference DE-9IM on a grid pair and
compares every observation the harness made on GEOS with what the definitions assign to that matrix. -/
namespace Driver.C01
open GeosModel GeosModel.Relate GeosModel.Kernel

/-- split a list of tokens at "|" -/
def splitBar (l : List String) : List (List String) :=
  let (cur, acc) := l.foldl (fun (st : List String × List (List String)) t =>
    if t == "|" then ([], st.1.reverse :: st.2) else (t :: st.1, st.2)) ([], [])
  (cur.reverse :: acc).reverse

def seqOrds (s : CSeq) : List UInt64 := s.pts.flatMap fun c => [c.x, c.y]

partial def ordsOf : G → List UInt64
  | .point s | .lineString s | .linearRing s | .circularString s => seqOrds s
  | .polygon sh hs => seqOrds sh ++ hs.flatMap seqOrds
  | .compoundCurve gs | .curvePolygon gs | .multiPoint gs | .multiLineString gs | .multiPolygon gs
  | .multiCurve gs | .multiSurface gs | .collection gs => gs.flatMap ordsOf

partial def hasCurve : G → Bool
  | .circularString _ | .compoundCurve _ | .curvePolygon _ | .multiCurve _ | .multiSurface _ => true
  | .multiPoint gs | .multiLineString gs | .multiPolygon gs | .collection gs => gs.any hasCurve
  | _ => false

structure FlatZ where
  f : Flat
  zeroLen : Bool      -- a zero-length line was turned into a point

partial def flattenG (toI : UInt64 → Int) (acc : FlatZ) : G → FlatZ
  | .point s =>
    match s.pts with
    | [] => acc
    | c :: _ => { acc with f := { acc.f with pts := acc.f.pts ++ [⟨toI c.x, toI c.y⟩] } }
  | .lineString s | .linearRing s =>
    let ps : List Pt := s.pts.map fun c => ⟨toI c.x, toI c.y⟩
    match ps with
    | [] => acc
    | p :: r =>
      if r.all (· == p) then { f := { acc.f with pts := acc.f.pts ++ [p] }, zeroLen := true }
      else { acc with f := { acc.f with lines := acc.f.lines ++ [ps] } }
  | .polygon sh hs =>
    if sh.pts.isEmpty then acc else
      let ring (s : CSeq) : List Pt := s.pts.map fun c => ⟨toI c.x, toI c.y⟩
      { acc with f := { acc.f with polys := acc.f.polys ++ [ring sh :: (hs.filter (!·.pts.isEmpty)).map ring] } }
  | .multiPoint gs | .multiLineString gs | .multiPolygon gs | .collection gs => gs.foldl (flattenG toI) acc
  | _ => acc

def kv (l : List String) : List (String × String) :=
  l.filterMap fun t => match t.splitOn "=" with
    | [k, v] => some (k, v)
    | _ => none

def b01 (b : Bool) : Char := if b then '1' else '0'

/-- the ten named predicates in the harness order: intersects disjoint touches crosses within contains overlaps equals covers coveredBy -/
def namedPreds (m : IM) (dA dB : Int) : String :=
  String.ofList [b01 m.isIntersects, b01 m.isDisjoint, b01 (m.isTouches dA dB), b01 (m.isCrosses dA dB), b01 m.isWithin,
    b01 m.isContains, b01 (m.isOverlaps dA dB), b01 (m.isEquals dA dB), b01 m.isCovers, b01 m.isCoveredBy]

/-- prepared order: intersects disjoint touches crosses within contains overlaps covers coveredBy containsProperly -/
def preparedPreds (m : IM) (dA dB : Int) : String :=
  String.ofList [b01 m.isIntersects, b01 m.isDisjoint, b01 (m.isTouches dA dB), b01 (m.isCrosses dA dB), b01 m.isWithin,
    b01 m.isContains, b01 (m.isOverlaps dA dB), b01 m.isCovers, b01 m.isCoveredBy, b01 (m.matchesPat "T**FF*FF*".toList)]

def check (line : String) : String :=
  match splitBar (Driver.tokens line) with
  | [["R"], ta, tb, obs] =>
    match Driver.GTreeIO.parseGeom ta, Driver.GTreeIO.parseGeom tb with
    | some (ga, []), some (gb, []) =>
      if hasCurve ga.g || hasCurve gb.g then "skip curved" else
      let ords := ordsOf ga.g ++ ordsOf gb.g
      match ords.mapM F64.dyadic with
      | none => "skip non-finite"
      | some ds =>
        let e0 := F64.minExp ds
        let toI (u : UInt64) : Int := match F64.dyadic u with | some d => F64.scaleTo e0 d | none => 0
        let A := flattenG toI ⟨Flat.empty, false⟩ ga.g
        let B := flattenG toI ⟨Flat.empty, false⟩ gb.g
        let dA := A.f.dimReal; let dB := B.f.dimReal
        let o := kv obs
        let get (k : String) : String := (o.lookup k).getD "?"
        let zl := A.zeroLen || B.zeroLen
        let m2 := refIM .mod2 A.f B.f
        let bad (k i r : String) : Option String := if i == r then none else some s!"bad {k} impl={i} ref={r} dims={dA},{dB}"
        let rules : List (String × BNRule) := [("m1", .mod2), ("m2", .endpoint), ("m3", .multivalent), ("m4", .monovalent)]
        let ruleChecks : List (Option String) := rules.map fun (k, r) =>
          if zl && r != .mod2 then none else bad k (get k) (refIM r A.f B.f).toStr
        let bothEmpty := A.f.isEmpty && B.f.isEmpty
        let preds := namedPreds m2 dA dB
        let pchecks :=
          if bothEmpty then
            -- known quirk: equals(EMPTY, EMPTY) is true by fiat although FFFFFFFF2 does not match T*F**FFF*
            [bad "P-both-empty" ((get "P").toList.eraseIdx 7 |> String.ofList) (preds.toList.eraseIdx 7 |> String.ofList),
             (if (get "P").toList[7]? == some '1' then some "bad equals-both-empty impl=1 ref=0" else none)]
          else [bad "P" (get "P") preds]
        let pats : List (Option String) := ((get "pat").splitOn ",").map fun t =>
          match t.splitOn ":" with
          | [p, res] => let e := b01 (m2.matchesPat p.toList); bad s!"pat:{p}" res (String.ofList [e, e])
          | _ => some "bad pat-format"
        let all := ruleChecks ++ [bad "m" (get "m") m2.toStr, bad "pm" (get "pm") m2.toStr,
                    bad "mt" (get "mt") m2.transpose.toStr] ++ pchecks ++ [bad "Q" (get "Q") (preparedPreds m2 dA dB)] ++ pats
        match all.filterMap id with
        | [] => "ok"
        | e :: _ => e
    | _, _ => "parse-error"
  | _ => "bad-line"

end Driver.C01

def main (args : List String) : IO UInt32 := do
  match args with
  | ["relate-grid"] => Driver.loop (← IO.getStdin) (← IO.getStdout) Driver.C01.check; return 0
  | _ => IO.eprintln "usage: drv_c01 relate-grid"; return 2
