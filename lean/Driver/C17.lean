import Driver.ValidLib
import GeosModel.Model.Fix.Spec
import GeosModel.Model.Fix.Holes
import GeosModel.Base.IM
/-! Driver for C17 (`drv_c17`), stream `makevalid`:
`M | <input> | <output or NULL> | method=L|S keep=0|1 ov=<GEOSisValid(out)> idem=<1|0|E|->`.
Input and output doubles are scaled exactly to one integer grid; the contract of Model/Fix/Spec.lean and the
dispatch model Model/Fix/Dispatch.lean are evaluated on them.  Prints `ok` or the first broken clause. -/
namespace Driver.C17
open GeosModel GeosModel.Relate GeosModel.Kernel GeosModel.Valid GeosModel.Fix Driver.Flatten Driver.C05

def closedPts (l : List Pt) : Bool := isClosedSeq l

def cleanOf (s : VSeq) : List Pt := cleanSeq s.pts (if s.fin.isEmpty then s.pts.map (fun _ => true) else s.fin)

def obsKind : Option G → Area
  | some (.multiPolygon gs) => if gs.isEmpty then .empty else .multiPolygon
  | some (.polygon sh _) => if sh.pts.isEmpty then .empty else .polygon
  | _ => .empty

def tyOfG : G → Ty
  | .point _ => .point | .lineString _ => .lineString | .linearRing _ => .linearRing | .polygon .. => .polygon
  | .multiPoint _ => .multiPoint | .multiLineString _ => .multiLineString | .multiPolygon _ => .multiPolygon
  | _ => .collection

partial def gEmpty : G → Bool
  | .point s | .lineString s | .linearRing s | .circularString s => s.pts.isEmpty
  | .polygon sh _ => sh.pts.isEmpty
  | .compoundCurve gs | .curvePolygon gs | .multiPoint gs | .multiLineString gs | .multiPolygon gs
  | .multiCurve gs | .multiSurface gs | .collection gs => gs.all gEmpty

partial def resOfG : G → Res
  | .collection gs => if gs.isEmpty then .atom .collection true else .coll (gs.map resOfG)
  | g => .atom (tyOfG g) (gEmpty g)

partial def showRes : Res → String
  | .atom t e => s!"{reprStr t}{if e then ":empty" else ""}"
  | .coll ks => "[" ++ ",".intercalate (ks.map showRes) ++ "]"

/-- model result vs observed result: equal, where a MultiPolygon whose union came out as a mixed collection (the model only
knows its type, `.atom .collection false`) matches any observed collection — at every nesting depth -/
partial def resSame : Res → Res → Bool
  | .atom .collection false, .coll _ => true
  | .coll a, .coll b => a.length == b.length && (a.zip b).all (fun (x, y) => resSame x y)
  | a, b => showRes a == showRes b

def polyShape (rings : List VSeq) (areaKind : Area) (holesKind : Area) : Shape :=
  match rings with
  | [] => .polygon true .empty 0 0 .empty
  | sh :: hs =>
    let c := cleanOf sh
    let hasArea := closedPts c && ringHasArea c
    .polygon sh.pts.isEmpty (if hasArea then areaKind else .empty) c.length hs.length (if hasArea then holesKind else .empty)

/-- shape of an input for the dispatch model; areal kinds that only the overlay engine decides (polygon vs
multipolygon, holes erasing everything) are taken from the observed output `obs` -/
partial def shapeOf (vg : VG) (obs : Option G) : Shape :=
  match vg with
  | .point s => .point s.pts.isEmpty s.bad.isNone
  | .line s => .line s.pts.isEmpty (cleanOf s).length
  | .ring s =>
    let c := cleanOf s
    .ring s.pts.isEmpty c.length (closedPts c && (validRef false (.ring ⟨c, none, []⟩)).valid)
  | .polygon rings =>
    let k := obsKind obs
    polyShape rings (if k == .empty then .polygon else k) k
  | .multiPoint ps => .multiPoint (ps.map fun s => .point s.pts.isEmpty s.bad.isNone)
  | .multiLine ls => .multiLine (ls.map fun s => .line s.pts.isEmpty (cleanOf s).length)
  | .multiPolygon polys =>
    -- whether the holes of an element erase it completely is decided by the overlay engine: taken from the observation
    -- (an empty result), the area clause checks independently that nothing should be there
    let erased := match obs with | some g => gEmpty g | none => false
    .multiPolygon (polys.map fun rings => polyShape rings .polygon (if erased then .empty else .polygon))
      (match obs with | some g => tyOfG g | none => .multiPolygon)
  | .collection gs =>
    let kids : List (Option G) := match obs with
      | some (.collection os) => if os.length == gs.length then os.map some else gs.map fun _ => none
      | _ => gs.map fun _ => none
    .collection ((gs.zip kids).map fun (g, o) => shapeOf g o)

partial def seqsOf : VG → List VSeq
  | .point s | .line s | .ring s => [s]
  | .polygon rings => rings
  | .multiPoint ps | .multiLine ps => ps
  | .multiPolygon polys => polys.flatten
  | .collection gs => gs.flatMap seqsOf

/-- the finite vertices of an input (non-finite ones are stored as (0,0) and must be ignored) -/
def finiteVertsOf (vg : VG) : List Pt :=
  (seqsOf vg).flatMap fun s =>
    (s.pts.zip (if s.fin.isEmpty then s.pts.map (fun _ => true) else s.fin)).filterMap fun (p, f) => if f then some p else none

/-- structural features of an input, for finding signatures: `ring` = contains a LinearRing element that is not valid,
`ptring` = contains a polygon ring all of whose points coincide -/
partial def inFeatures (vg : VG) : String :=
  let rec badRing : VG → Bool
    | .ring s => !(validRef false (.ring s)).valid
    | .collection gs => gs.any badRing
    | _ => false
  let rec ptRing : VG → Bool
    | .polygon rings => rings.any fun s => !s.pts.isEmpty && (dedup s.pts).length == 1
    | .multiPolygon polys => polys.any fun rings => rings.any fun s => !s.pts.isEmpty && (dedup s.pts).length == 1
    | .collection gs => gs.any ptRing
    | _ => false
  -- some polygon ring runs over one of its own edges more than once (two of its segments overlap collinearly)
  let retrace : Bool := (Driver.C05.polysOf vg).any fun rings => rings.any fun r =>
    let es := (edges r).filter fun e => e.1 != e.2
    (pairsOf es).any fun (a, b) => segRel a.1 a.2 b.1 b.2 == SegRel.overlap
  s!"ring={if badRing vg then 1 else 0} ptring={if ptRing vg then 1 else 0} retrace={if retrace then 1 else 0}"

/-- some polygon ring of the input has faces of positive AND of negative winding number: the condition under which
`BufferOp::bufferByZero(geom, true)` has two non-empty orientation buffers to put together (the mechanism of the recorded
"adjacent lobes" finding) -/
def mixedWinding (ring : List Pt) : Bool :=
  let segs := segsOf ring
  let ws : List Int := segs.flatMap fun s =>
    let ps := splitParams s segs []
    (ps.zip ps.tail).flatMap fun (l1, l2) =>
      let lm := Q.mid l1 l2
      -- `sideWind` counts crossings that END on the side asked for as +1: the two sides use opposite orientation conventions
      [sideWind ring s lm true, - sideWind ring s lm false]
  ws.any (· > 0) && ws.any (· < 0)

def lobesOf (vg : VG) : Bool := (Driver.C05.polysOf vg).any fun rings => rings.any mixedWinding

/-- some polygon ring runs over one of its own edges again IN THE SAME DIRECTION (two of its segments overlap collinearly and
point the same way): a piece of real boundary walked more than once — a spike laid along an edge — as opposed to a zero-width
cut or free spike, whose two passes have opposite directions (the mechanism of the recorded "retraced edge" finding) -/
def sameDirRetrace (vg : VG) : Bool := (Driver.C05.polysOf vg).any fun rings => rings.any fun r =>
  let es := (edges r).filter fun e => e.1 != e.2
  (pairsOf es).any fun (a, b) => segRel a.1 a.2 b.1 b.2 == SegRel.overlap &&
    decide ((a.2.x - a.1.x) * (b.2.x - b.1.x) + (a.2.y - a.1.y) * (b.2.y - b.1.y) > 0)

/-- some polygon has a shell ring that crosses itself properly (so it is rebuilt from computed, rounded nodes) and a hole ring that meets
that shell only in isolated points, with no proper crossing and no overlap: whether `classifyHoles` finds the hole to "intersect"
the REPAIRED shell then depends on rounding (the mechanism of the recorded "touching hole becomes area" finding) -/
def holeTouchesCrossingShell (vg : VG) : Bool := (Driver.C05.polysOf vg).any fun rings =>
  match rings with
  | sh :: holes =>
    let se := (edges sh).filter fun e => e.1 != e.2
    let shellSelfCross := (pairsOf se).any fun (a, b) => segRel a.1 a.2 b.1 b.2 == SegRel.point true
    shellSelfCross && holes.any fun h =>
      let he := (edges h).filter fun e => e.1 != e.2
      let rels := he.flatMap fun a => se.map fun b => segRel a.1 a.2 b.1 b.2
      rels.any (· == SegRel.point false) && !rels.any (· == SegRel.point true) && !rels.any (· == SegRel.overlap)
  | [] => false

def kvOf (l : List String) : List (String × String) := Driver.C05.kv l

def hptStr (p : HPt) : String := s!"{p.x}/{p.w},{p.y}/{p.w}"

def check (line : String) : String :=
  match splitBar (Driver.tokens line) with
  | [["M"], ti, to, obs] =>
    let o := kvOf obs
    let get (k : String) : String := (o.lookup k).getD "?"
    match Driver.GTreeIO.parseGeom ti with
    | some (gi, []) =>
      if hasCurve gi.g then "skip curved" else
      if to == ["TIMEOUT"] || to == ["CRASH"] then
        s!"bad {if to == ["TIMEOUT"] then "no-termination" else "crash-in-child"} method={get "method"} keep={get "keep"} type={reprStr (tyOfG gi.g)} finite={if (ordsOf gi.g).all F64.isFinite then 1 else 0}" else
      if to == ["NULL"] then
        let (_, toI0) := scaleG gi.g
        let f := match toVG toI0 gi.g with | some v => inFeatures v | none => "ring=? ptring=?"
        s!"bad null-result method={get "method"} keep={get "keep"} type={reprStr (tyOfG gi.g)} finite={if (ordsOf gi.g).all F64.isFinite then 1 else 0} {f}" else
      match Driver.GTreeIO.parseGeom to with
      | some (go, []) =>
        if hasCurve go.g then "skip curved-output" else
        let both : G := .collection [gi.g, go.g]
        let (_, toI) := scaleG both
        match toVG toI gi.g, toVG toI go.g with
        | some vi, some vo =>
          let inFinite := (ordsOf gi.g).all F64.isFinite
          let outFinite := (ordsOf go.g).all F64.isFinite
          let mx := maxAbsG toI both
          let tol : Int := mx / 68719476736 + 1          -- 2^-36 of the largest coordinate, at least one grid unit
          let pi := partsOf vi
          let po := partsOf vo
          let isStruct := get "method" == "S"
          let keep := get "keep" == "1"
          let vOut := validRef false vo
          let tag := s!"method={get "method"} keep={get "keep"} type={reprStr (tyOfG gi.g)} finite={if inFinite then 1 else 0} {inFeatures vi} emptyout={if gEmpty go.g then 1 else 0} kraw={get "kraw"}"
          let finiteVerts : List Pt := finiteVertsOf vi
          let checks : List (Unit → Option String) := [
            fun _ => if outFinite then none else some "bad nonfinite-output",
            fun _ => if vOut.valid then none else some s!"bad output-invalid code={codesStr vOut.codes} lobes={if lobesOf vi then 1 else 0}",
            fun _ => if get "ov" == "1" then none else some s!"bad isvalid-disagrees-with-ref ov={get "ov"}",
            fun _ => if po.dim ≤ pi.dim then none else some s!"bad dimension in={pi.dim} out={po.dim}",
            fun _ => if envWithin tol (envOf po.vertices) (envOf finiteVerts) then none else some "bad envelope",
            fun _ =>
              if !(inFinite && (validRef false vi).valid) then none else
              let A := pi.toFlat; let B := po.toFlat
              if A.isEmpty && B.isEmpty then none
              else if (refIM .mod2 A B).isEquals A.dimReal B.dimReal then none
              else some s!"bad valid-input-changed im={(refIM .mod2 A B).toStr}",
            fun _ =>
              if isStruct then none else
              match finiteVerts.find? (fun v => !covers tol po v) with
              | none => none
              | some v => some s!"bad vertex-lost {v.x},{v.y}",
            fun _ =>
              if !isStruct || !inFinite then none else
              match areaMismatch 24 pi.polys po.polys with
              | none => none
              | some x => some s!"bad area sample={hptStr x} expected={if expectedIn x (pi.polys.map prepPolygon) then 1 else 0} rsame={if sameDirRetrace vi then 1 else 0} htouch={if holeTouchesCrossingShell vi then 1 else 0}",
            fun _ =>
              -- "collapses are kept exactly when requested" inside collections (regression check of finding F5): where the
              -- model (`fix`) and the behaviour before the fix of fixCollection (`fixDropping`) part, the implementation must
              -- side with `fix`
              if !isStruct || !inFinite || !keep then none else
              let shape := shapeOf vi (some go.g)
              let wanted := showRes (Fix.fix keep shape)
              if wanted == showRes (Fix.fixDropping keep shape) then none else
              let seen := showRes (resOfG go.g)
              if resSame (Fix.fix keep shape) (resOfG go.g) then none
              else some s!"bad keep-collapsed incoll=1 wt={wanted.replace "GeosModel.Fix.Ty." ""} it={seen.replace "GeosModel.Fix.Ty." ""}",
            fun _ =>
              if !isStruct || !inFinite then none else
              let model := Fix.fix keep (shapeOf vi (some go.g))
              let seen := resOfG go.g
              let same := resSame model seen
              if same then none else some s!"bad dispatch model={showRes model} impl={showRes seen} mt={(showRes model).replace "GeosModel.Fix.Ty." ""} it={(showRes seen).replace "GeosModel.Fix.Ty." ""}",
            fun _ => if get "idem" == "1" then none else some s!"bad idempotence idem={get "idem"}"]
          let rec first : List (Unit → Option String) → String
            | [] => "ok"
            | c :: cs => match c () with
              | some e => e ++ " " ++ tag
              | none => first cs
          first checks
        | _, _ => "skip unsupported"
      | _ => "parse-error-output"
    | _ => "parse-error-input"
  | _ => "bad-line"

/-- stream `hole-class`: `H | <polygon> | <digits>`: the lists the real `classifyHoles` built against `Holes.classifyLoop` with the
exact oracle `holeMeetsShell` (closed non-zero-winding regions of the raw rings have a common point) -/
def checkHoleClass (line : String) : String :=
  match splitBar (Driver.tokens line) with
  | [["H"], ti, obs] =>
    match Driver.GTreeIO.parseGeom ti with
    | some (gi, []) =>
      if !(ordsOf gi.g).all F64.isFinite then "skip nonfinite" else
      let (_, toI) := scaleG gi.g
      match toVG toI gi.g with
      | some (.polygon (sh :: hs)) =>
        let shell := sh.pts
        let holes := hs.map (·.pts)
        let model : String :=
          if !ringHasArea shell then "shell-empty"
          else if holes.isEmpty then "-"
          else
            let idx := List.range holes.length
            let c := Fix.Holes.classifyLoop (fun i => holeMeetsShell shell (holes.getD i [])) idx
            String.mk (idx.map fun i => if c.1.contains i then '1' else '0')
        let impl := obs.headD "?"
        if impl == model then "ok"
        else
          let vg : VG := .polygon (sh :: hs)
          s!"bad hole-class impl={impl} model={model} method=S keep=0 finite=1 rsame={if sameDirRetrace vg then 1 else 0} lobes={if lobesOf vg then 1 else 0}"
      | _ => "skip not-a-polygon"
    | _ => "parse-error-input"
  | _ => "bad-line"

end Driver.C17

def main (args : List String) : IO UInt32 := do
  match args with
  | ["makevalid"] => Driver.loop (← IO.getStdin) (← IO.getStdout) Driver.C17.check; return 0
  | ["hole-class"] => Driver.loop (← IO.getStdin) (← IO.getStdout) Driver.C17.checkHoleClass; return 0
  | _ => IO.eprintln "usage: drv_c17 makevalid|hole-class"; return 2
