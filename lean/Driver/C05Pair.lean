import Driver.C05Nest
import GeosModel.Model.Valid.PairRule
/-! Stream `pair-rule` of the C05 driver: `Q flag same i j | x y … | x y …` (two closed integer rings without repeated points;
`same = 1`: both segments are taken from the first ring) → the Lean copy of
`PolygonIntersectionAnalyzer::findInvalidIntersection` for segment `i` of the first and segment `j` of the second ring
(`-1` = no invalid intersection, else the error code).  The reference rule `pairRule` is evaluated as well; a difference
(impossible by `findInvalidIntersection_eq_pairRule`) is appended as `ref=…`. -/
namespace Driver.C05
open GeosModel GeosModel.Kernel GeosModel.Valid Driver.Flatten

def codeStr : Option Nat → String
  | some c => toString c
  | none => "-1"

def pairRuleLine (line : String) : String :=
  match splitBar (Driver.tokens line) with
  | [["Q", fl, sm, si, sj], t1, t2] =>
    match parsePts t1, parsePts t2, si.toNat?, sj.toNat? with
    | some a, some b, some i, some j =>
      let flag := fl == "1"
      let same := sm == "1"
      let sa := ringSegs 0 0 a
      let sb := if same then sa else ringSegs 1 1 b
      match sa[i]?, sb[j]? with
      | some s, some t =>
        let m := findInvalidIntersection flag s t
        let r := (pairRule flag s t).map (·.1)
        if m == r then codeStr m else s!"{codeStr m} ref={codeStr r}"
      | _, _ => "bad-index"
    | _, _, _, _ => "parse-error"
  | _ => "bad-line"

end Driver.C05
