import Driver.Common
import Driver.GTreeIO
import Driver.Flatten
import GeosModel.Base.F64
import GeosModel.Model.Overlay.Clip
import GeosModel.Model.Kernel.CCW
/-! Driver for the stream `overlay-input` of C03 (harness/c03clip.h): evaluates `Model/Overlay/Clip.lean` —
LineLimiter as an object, RobustClipEnvelopeComputer, EdgeNodingBuilder's input preparation — on the doubles of the
case (ordinates as `F64.key`; the crossing points of `RingClipper` in binary64 arithmetic). -/
namespace Driver.C03Clip
open GeosModel GeosModel.Kernel GeosModel.Overlay.Clip Driver.Flatten

def bitsOfKey (k : Int) : UInt64 :=
  if k < 0 then UInt64.ofNat (-k).toNat ||| 0x8000000000000000 else UInt64.ofNat k.toNat
def fl (k : Int) : Float := Float.ofBits (bitsOfKey k)
def ky (f : Float) : Int := F64.key f.toBits

/-- `RingClipper::intersectionLineY` -/
def lineY (a b : Pt) (y : Float) : Float :=
  let m := (fl b.x - fl a.x) / (fl b.y - fl a.y)
  let intercept := (y - fl a.y) * m
  fl a.x + intercept
/-- `RingClipper::intersectionLineX` -/
def lineX (a b : Pt) (x : Float) : Float :=
  let m := (fl b.y - fl a.y) / (fl b.x - fl a.x)
  let intercept := (x - fl a.x) * m
  fl a.y + intercept
/-- `RingClipper::intersection(a, b, edgeIndex)` -/
def ixF (bx : Box) (k : Nat) (a b : Pt) : Pt :=
  if k == 0 then ⟨ky (lineY a b (fl bx.miny)), bx.miny⟩
  else if k == 1 then ⟨bx.maxx, ky (lineX a b (fl bx.maxx))⟩
  else if k == 2 then ⟨ky (lineY a b (fl bx.maxy)), bx.maxy⟩
  else ⟨bx.minx, ky (lineX a b (fl bx.minx))⟩

def keyPt (c : Coord) : Pt := ⟨F64.key c.x, F64.key c.y⟩
def keysOf (s : CSeq) : List Pt := s.pts.map keyPt

def pairUp : List Int → List Pt
  | x :: y :: r => ⟨x, y⟩ :: pairUp r
  | _ => []

/-- `Orientation::isCCW` of the original ring: exact integers over one common power of two, `CCW.isCCW` (the C07 model) -/
def ringCCW (s : CSeq) : Bool :=
  match F64.scaleAll (s.pts.flatMap fun c => [c.x, c.y]) with
  | some (_, is) => CCW.isCCW (pairUp is)
  | none => false

/-- the non-empty polygons in traversal order (`add` / `addCollection`) -/
partial def polysOf : G → List (List CSeq)
  | .polygon sh hs => if sh.pts.isEmpty then [] else [sh :: hs]
  | .multiPolygon gs | .collection gs | .multiLineString gs | .multiPoint gs => gs.flatMap polysOf
  | _ => []

partial def linesOf : G → List CSeq
  | .lineString s | .linearRing s => [s]
  | .multiPolygon gs | .collection gs | .multiLineString gs | .multiPoint gs => gs.flatMap linesOf
  | _ => []

def parseBox : List String → Option Box
  | [a, b, c, d] => do
    let a ← Driver.parseHex64 a; let b ← Driver.parseHex64 b; let c ← Driver.parseHex64 c; let d ← Driver.parseHex64 d
    some ⟨F64.key a, F64.key b, F64.key c, F64.key d⟩
  | _ => none

def parsePts : List String → Option (List Pt)
  | [] => some []
  | x :: y :: r => do
    let x ← Driver.parseHex64 x; let y ← Driver.parseHex64 y
    let rest ← parsePts r
    some (⟨F64.key x, F64.key y⟩ :: rest)
  | _ => none

def showSeq (l : List Pt) : String :=
  toString l.length ++ String.join (l.map fun p => s!" {p.x} {p.y}")

def showEdge (idx : Nat) (e : EdgeIn) : String :=
  s!"E {idx} {e.dim} {e.depthDelta} {if e.isHole then 1 else 0} {showSeq e.pts}"

/-- `EdgeNodingBuilder::add(g, idx)` for the operand kinds of the stream (polygonal or lineal, no GeometryCollection) -/
def edgesOf (clip : Option Box) (idx : Nat) (g : G) : List String :=
  let ix : Nat → Pt → Pt → Pt := match clip with
    | some c => ixF c
    | none => fun _ a _ => a
  let polyEdges := (polysOf g).flatMap fun rings =>
    match rings with
    | [] => []
    | sh :: hs =>
      -- `add(g)` / `addPolygon`: a polygon whose envelope (= the shell's) misses the clip envelope is skipped as a whole
      if isClippedCompletely clip (envOfPts (keysOf sh)) then [] else
      addPolygonRing clip ix (keysOf sh) (ringCCW sh) false ++ hs.flatMap fun h => addPolygonRing clip ix (keysOf h) (ringCCW h) true
  let lineEdges := addLines clip ⟨none, none, []⟩ ((linesOf g).map keysOf)
  (polyEdges ++ lineEdges).map (showEdge idx)

def check (line : String) : String :=
  match splitBar (Driver.tokens line) with
  | ["LS"] :: bt :: lineToks =>
    match parseBox bt, lineToks.mapM (fun t => parsePts (t.drop 1)) with
    | some b, some lines =>
      let outs := limitSeq (boxHasPt b) (boxMeetsSeg b) ⟨none, none, []⟩ lines
      Driver.joinWith " / " (outs.map fun secs =>
        if secs.isEmpty then "-" else Driver.joinWith " " (secs.map fun s => "S " ++ showSeq s))
    | _, _ => "parse-error"
  | [["CE"], bt, ta, tb] =>
    match parseBox bt, Driver.GTreeIO.parseGeom ta, (if tb == ["-"] then some none else (Driver.GTreeIO.parseGeom tb).map some) with
    | some t, some (ga, []), some gb =>
      let ps (g : G) : List (List (List Pt)) := (polysOf g).map fun rings => rings.map keysOf
      let b := robustClipEnv t (ps ga.g) (match gb with | some (g, _) => ps g.g | none => [])
      s!"{b.minx} {b.maxx} {b.miny} {b.maxy}"
    | _, _, _ => "parse-error"
  | [["EI"], bt, ta, tb] =>
    match (if bt == ["-"] then some none else (parseBox bt).map some), Driver.GTreeIO.parseGeom ta,
          (if tb == ["-"] then some none else (Driver.GTreeIO.parseGeom tb).map some) with
    | some clip, some (ga, []), some gb =>
      let es := edgesOf clip 0 ga.g ++ (match gb with | some (g, _) => edgesOf clip 1 g.g | none => [])
      if es.isEmpty then "-" else Driver.joinWith " " es
    | _, _, _ => "parse-error"
  | _ => "bad-line"

end Driver.C03Clip
