import Driver.Common
import Driver.GTreeIO
import GeosModel.Base.F64
import GeosModel.Model.WKT.Dims
import GeosModel.Model.Num.Fixed
import GeosModel.Model.Num.Parse
import GeosModel.Model.WKT.Write
import GeosModel.Model.WKT.Read
import GeosModel.Model.WKT.Spec
import GeosModel.Model.WKT.Cxx
import GeosModel.Model.GeoJSON.Roundtrip
/-! Driver for C10 (`drv_c10 <stream>`):
  fmt        `<bits16> <precision -1..> <trim 0|1>`      → `<printDouble string | -> <writer string> <bits of strtod(writer string)>`
  wkt-write  `<trim> <precision> <dim> <old3d> <srid> <gtree…>` → the model writer's string
  wkt-read   the WKT text                                 → `0 <gtree…>` of the model reader, or `ERR`
-/
namespace Driver.C10
open GeosModel GeosModel.WKT

def hex64n (n : Nat) : String := Driver.GTreeIO.hex64 (UInt64.ofNat n)

def fmt (line : String) : String :=
  match Driver.tokens line with
  | [b, p, t] =>
    match Driver.parseHex64 b, p.toInt?, t.toNat? with
    | some bits, some prec, some tr =>
      let trim := tr != 0
      let s1 := if trim && prec ≥ 0 then String.ofList (Num.writeTrimmedNumber bits.toNat prec.toNat) else "-"
      let cfg : Cfg := { trim := trim, precision := clampPrecision prec }
      let s2l := Num.writeNumber bits.toNat trim (decimalPlaces cfg)
      let rb := match Num.strtod s2l with
        | some r => hex64n r
        | none => "notnumber"
      s!"{s1} {String.ofList s2l} {rb}"
    | _, _, _ => "bad-line"
  | _ => "bad-line"

def parseCfg : List String → Option (Cfg × List String)
  | t :: p :: d :: o :: r => do
    let t ← t.toNat?; let p ← p.toInt?; let d ← d.toNat?; let o ← o.toNat?
    some ({ trim := t != 0, precision := clampPrecision p, outDim := d, old3D := o != 0 }, r)
  | _ => none

def wktWrite (line : String) : String :=
  match parseCfg (Driver.tokens line) with
  | some (cfg, r) =>
    match Driver.GTreeIO.parseGeom r with
    | some (g, []) => write cfg g.g
    | _ => "bad-gtree"
  | none => "bad-line"

/-- `<n> | <trim> <prec> <dim> <old3d> <pmDigits> <scale bits> <mask> <gtree> | …` — a sequence written by ONE reused writer; the model writer is
stateless, so every element is answered on its own: `R:<text> F:<text>` (reused and fresh writer must both give it) -/
def wktWriteSeq (line : String) : String :=
  match line.splitOn " | " with
  | _ :: steps =>
    let outs := steps.map fun st =>
      match parseCfg (Driver.tokens st) with
      | some (cfg, msd :: _scale :: _mask :: r) =>
        match msd.toInt?, Driver.GTreeIO.parseGeom r with
        | some d, some (g, []) => let s := write { cfg with pmDigits := d } g.g; s!"R:{s} F:{s}"
        | _, _ => "bad-gtree"
      | _ => "bad-line"
    " ;; ".intercalate outs
  | [] => "bad-line"

def wktRead (line : String) : String :=
  match read line with
  | .ok g => Driver.GTreeIO.showGeom ⟨0, g⟩
  | .error _ => "ERR"

/-- the ordinate a reader gets back from the text the writer produced for `b` -/
def reread (cfg : Cfg) (b : UInt64) : UInt64 :=
  match Num.strtod (Num.writeNumber b.toNat cfg.trim (decimalPlaces cfg)) with
  | some r => UInt64.ofNat r
  | none => 0xdeadbeefdeadbeef

/-- write → read through the model; for ISO tags the result is also compared with the specification
`project` / `dimOK` (a deviation is made visible as `MODEL-DIFFERS-FROM-SPEC`) -/
def wktRt (line : String) : String :=
  match parseCfg (Driver.tokens line) with
  | some (cfg, r) =>
    match Driver.GTreeIO.parseGeom r with
    | some (g, []) =>
      let back := read (write cfg g.g)
      let out := match back with
        | .ok g' => Driver.GTreeIO.showGeom ⟨0, g'⟩
        | .error _ => "ERR"
      if cfg.old3D then out
      else
        let expected := if dimOK cfg g.g then Driver.GTreeIO.showGeom ⟨0, project cfg (reread cfg) g.g⟩ else "ERR"
        if expected == out then out else s!"MODEL-DIFFERS-FROM-SPEC {out} SPEC {expected}"
    | _ => "bad-gtree"
  | none => "bad-line"

/-- why the reader rejects the writer's output for this case (used for finding signatures) -/
def wktClass (line : String) : String :=
  match parseCfg (Driver.tokens line) with
  | some (cfg, r) =>
    match Driver.GTreeIO.parseGeom r with
    | some (g, []) =>
      match read (write cfg g.g) with
      | .ok _ => "accepted"
      | .error _ =>
        if !dimOK { cfg with old3D := false } g.g then "mixed-dimension-collection"
        else if cfg.old3D then "old3d-nested-tagged-member"
        else "other"
    | _ => "bad-gtree"
  | none => "bad-line"

/-- `<indent> <srid> <gtree>` → the tree GeoJSON write+read is specified to return -/
def geojson (line : String) : String :=
  match Driver.tokens line with
  | _ :: r =>
    match Driver.GTreeIO.parseGeom r with
    | some (g, []) =>
      match GeoJSON.roundtrip g.g with
      | some g' => Driver.GTreeIO.showGeom ⟨0, g'⟩
      | none => "WRITE-ERR"
    | _ => "bad-gtree"
  | _ => "bad-line"

/-! ### stream `wkt-red`: the documented dimension dropping (`WKTWriter::setRemoveEmptyDimensions(true)`, output dimension 4);
the rule is `Model/WKT/Dims.lean` (theorems in `Props/C10Dims.lean`) -/

/-- `<gtree>` → `z=<0|1> m=<0|1>` -/
def wktRed (line : String) : String :=
  match Driver.GTreeIO.parseGeom (Driver.tokens line) with
  | some (g, []) =>
    s!"z={if GeosModel.WKT.Dims.writesZ g.g then 1 else 0} m={if GeosModel.WKT.Dims.writesM g.g then 1 else 0}"
  | _ => "bad-gtree"

def handlers : List (String × (String → String)) :=
  [("fmt", fmt), ("wkt-write", wktWrite), ("wkt-write-seq", wktWriteSeq), ("wkt-read", wktRead), ("wkt-rt", wktRt), ("wkt-class", wktClass), ("geojson", geojson), ("wkt-red", wktRed)]

end Driver.C10

def main (args : List String) : IO UInt32 := do
  match args with
  | [stream] =>
    match Driver.C10.handlers.lookup stream with
    | some f =>
      Driver.loop (← IO.getStdin) (← IO.getStdout) f
      return 0
    | none => IO.eprintln s!"unknown stream {stream}"; return 2
  | _ => IO.eprintln "usage: drv_c10 <stream>"; return 2
