import Driver.Common
import Driver.GTreeIO
import Driver.Flatten
import Driver.C03Clip
import GeosModel.Base.F64
import GeosModel.Base.Env
import GeosModel.Model.Overlay.Core
import GeosModel.Model.Overlay.Spec
/-! Driver for C03: evaluates the exact point-set specification of overlay (Model/Overlay/Spec.lean) and the modelled
decision functions (Model/Overlay/Core.lean) on (A, B, result GEOS returned).

    O | <A> | <B> | <op>:<variant> <valid> <exc> <R tokens | -> | ...

prints `ok` or `bad <op:variant> <clause> <detail> gc=.. mixed=.. near=.. new=..` for the first violated clause. -/
namespace Driver.C03
open GeosModel GeosModel.Relate GeosModel.Kernel GeosModel.Overlay Driver.Flatten

/-- GEOS `getDimension()`: empty atomic geometries keep their dimension, an empty collection has −1 -/
partial def dimG : G → Int
  | .point _ => 0
  | .lineString _ | .linearRing _ | .circularString _ | .compoundCurve _ => 1
  | .polygon _ _ | .curvePolygon _ => 2
  | .multiPoint _ => 0
  | .multiLineString _ | .multiCurve _ => 1
  | .multiPolygon _ | .multiSurface _ => 2
  | .collection gs => gs.foldl (fun d g => max d (dimG g)) (-1)

partial def isEmptyG : G → Bool
  | .point s | .lineString s | .linearRing s | .circularString s => s.pts.isEmpty
  | .polygon sh _ => sh.pts.isEmpty
  | .compoundCurve gs | .curvePolygon gs | .multiPoint gs | .multiLineString gs | .multiPolygon gs
  | .multiCurve gs | .multiSurface gs | .collection gs => gs.all isEmptyG

def isGC : G → Bool
  | .collection _ => true
  | _ => false

/-- number of distinct dimensions among the non-empty atoms -/
partial def atomDims : G → List Int
  | .multiPoint gs | .multiLineString gs | .multiPolygon gs | .collection gs => (gs.flatMap atomDims).eraseDups
  | g => if isEmptyG g then [] else [dimG g]

/-- is the result in the "most specific" form `GeometryFactory::buildGeometry` produces: an atom, or a homogeneous
Multi of ≥ 2 non-empty atoms, or a heterogeneous collection of ≥ 2 non-empty atoms -/
def isCanonicalResult : G → Bool
  | .point _ | .lineString _ | .polygon _ _ => true
  | .multiPoint gs | .multiLineString gs | .multiPolygon gs => decide (gs.length ≥ 2) && gs.all (!isEmptyG ·)
  | .collection gs => decide (gs.length ≥ 2) && gs.all (fun g => !isEmptyG g && !isGC g) && decide ((gs.map G.typeId).eraseDups.length ≥ 2)
  | _ => false

/-- `(dimension, isEmpty)` of the atomic elements -/
partial def atomsOf : G → List (Int × Bool)
  | .multiPoint gs | .multiLineString gs | .multiPolygon gs | .collection gs => gs.flatMap atomsOf
  | g => [(dimG g, isEmptyG g)]

def shapeOf (g : G) : Shape := ⟨isGC g, dimG g, atomsOf g⟩

def emptyKinds : List (G × Int) :=
  let e : CSeq := ⟨false, false, []⟩
  [(.point e, 0), (.lineString e, 1), (.polygon e [], 2), (.collection [], -1), (.multiPolygon [], 2),
   (.multiLineString [], 1), (.multiPoint [], 0)]

structure Operand where
  g : G
  f : Flat

structure Rec where
  opv : String
  valid : String
  exc : String
  r : Option G

def parseRec (t : List String) : Option Rec :=
  match t with
  | opv :: valid :: exc :: rest =>
    if rest == ["-"] then some ⟨opv, valid, exc, none⟩
    else match Driver.GTreeIO.parseGeom rest with
      | some (g, []) => some ⟨opv, valid, exc, some g.g⟩
      | _ => none
  | _ => none

def clipOrds (opv : String) : List UInt64 :=
  match opv.splitOn ":" with
  | ["clip", _, a, b, c, d] => [a, b, c, d].filterMap Driver.parseHex64
  | _ => []

def envOf (f : Flat) : Env :=
  match flatVertices f with
  | [] => none
  | p :: r => some (r.foldl (fun (b : Box) q => ⟨min b.minx q.x, max b.maxx q.x, min b.miny q.y, max b.maxy q.y⟩) ⟨p.x, p.x, p.y, p.y⟩)

def fl (x : Int) (e0 : Int) : String :=
  let f : Float := Float.ofInt x
  toString (f * Float.exp2 (Float.ofInt e0))

def showPt (p : HPt) (e0 : Int) : String :=
  let x : Float := Float.ofInt p.x / Float.ofInt p.w * Float.exp2 (Float.ofInt e0)
  let y : Float := Float.ofInt p.y / Float.ofInt p.w * Float.exp2 (Float.ofInt e0)
  s!"({x},{y})"

/-- first cell the checker rejects, for the message -/
def firstBad (T : Tol) (op : Op) (A B R : Flat) (e0 : Int) : String :=
  let cs := cells A B R
  let E := expectedLocus op cs (nodes op A B R cs)
  let tolOK (c : Cell) (left : Bool) := !T.exact && faceExcused T op A B R c left
  let lowOK (p : HPt) (a b r : Bool) := !T.exact && lowerExcused T op A B R E p a b r
  match cs.find? (fun c => !((c.lR == c.faceL op) || tolOK c true) || !((c.rR == c.faceR op) || tolOK c false)) with
  | some c =>
    let left := !((c.lR == c.faceL op) || tolOK c true)
    let inR := if left then c.lR else c.rR
    s!"face inR={inR} side={if left then "L" else "R"} at={showPt c.m e0} inA={if left then c.lA else c.rA} inB={if left then c.lB else c.rB}"
  | none =>
    match cs.find? (fun c => !((c.inR == c.expected op) || lowOK c.m c.inA c.inB c.inR)) with
    | some c => s!"edge inR={c.inR} at={showPt c.m e0} inA={c.inA} inB={c.inB}"
    | none =>
      match (nodes op A B R cs).find? (fun n => !(n.ok || lowOK n.v n.inA n.inB n.inR)) with
      | some n => s!"node inR={n.inR} at={showPt n.v e0} inA={n.inA} inB={n.inB}"
      | none => "none"

/-! clip: `RectangleIntersection::clip` keeps the part of A inside the OPEN rectangle, closed up:
closure (A ∩ interior rect).  Checked exactly (faces, 1-cells, nodes) when no new vertex is needed, faces only otherwise. -/
def clipCellExpected (c : Cell) : Bool := (c.inA && c.lB && c.rB) || (c.lA && c.lB) || (c.rA && c.rB)
def clipAccepts (T : Tol) (A B R : Flat) : Bool :=
  let cs := cells A B R
  -- RectangleIntersection interpolates new vertices in plain floating point: faces always get the tolerance band
  let T' : Tol := { T with exact := false }
  let facesOK := cs.all fun c => ((c.lR == (c.lA && c.lB)) || faceExcused T' .inter A B R c true) &&
                                 ((c.rR == (c.rA && c.rB)) || faceExcused T' .inter A B R c false)
  -- 1-cells and nodes are compared (exactly) only when every vertex of the result is an input vertex or a rectangle corner
  let inVerts := flatVertices A ++ flatVertices B
  let noNew := (flatVertices R).all fun v => inVerts.contains v
  if !noNew then facesOK else
  facesOK && cs.all (fun c => c.inR == clipCellExpected c) &&
  (nodePts A B R cs).all fun v =>
    let inc := cs.filter fun c => c.a == v || c.b == v
    let iso := inc.isEmpty
    let a := inClNode A v (inc.flatMap fun c => [c.lA, c.rA]) iso
    let r := inClNode R v (inc.flatMap fun c => [c.lR, c.rR]) iso
    let bOpen := if iso then B.polys.any (inPolyH v) else inc.all fun c => c.lB && c.rB
    r == ((a && bOpen) || inc.any clipCellExpected || (iso && A.polys.any (inPolyH v) && B.polys.any (inPolyH v)))

def opOf (base : String) : Option Op :=
  match base with
  | "int" => some .inter | "uni" => some .union | "dif" => some .diff | "sym" => some .symdiff
  | "uu" | "uc" | "dsu" | "cu" => some .union
  | "clip" => some .inter
  | _ => none

structure Outcome where
  msg : Option String          -- none = ok
  area2 : Option Int           -- twice the area of the result (valid polygonal results)
  exactPass : Bool
  needNew : Bool := false

def b01 (b : Bool) : String := if b then "1" else "0"

def check (stats : Bool) (line : String) : String :=
  match splitBar (Driver.tokens line) with
  | ["O"] :: ta :: tb :: recToks =>
    match Driver.GTreeIO.parseGeom ta, Driver.GTreeIO.parseGeom tb, recToks.mapM parseRec with
    | some (ga, []), some (gb, []), some recs =>
      if hasCurve ga.g || hasCurve gb.g then "skip curved" else
      let ords := ordsOf ga.g ++ ordsOf gb.g ++ recs.flatMap (fun r => (match r.r with | some g => ordsOf g | none => []) ++ clipOrds r.opv)
      match ords.mapM F64.dyadic with
      | none => "bad non-finite ordinate in a result"
      | some ds =>
        let e0 := F64.minExp ds
        let toI (u : UInt64) : Int := match F64.dyadic u with | some d => F64.scaleTo e0 d | none => 0
        let flat (g : G) : Flat := (flattenG toI ⟨Flat.empty, false⟩ g).f
        let A : Operand := ⟨ga.g, flat ga.g⟩
        let B : Operand := ⟨gb.g, flat gb.g⟩
        let mag := maxAbs A.f B.f
        let grid := gridExact ((flatVertices A.f ++ flatVertices B.f).flatMap fun p => [p.x, p.y])
        let gcFlag := isGC ga.g || isGC gb.g
        let mixed := decide ((atomDims ga.g).length > 1) || decide ((atomDims gb.g).length > 1)
        let near := nearIncidence A.f B.f
        -- a (near-)incidence that is NOT exact: exact incidences (determinant 0) are decided exactly by the robust predicates
        let inexact := near && inexactIncidence A.f B.f
        let feats (needNew : Bool) := s!"gc={b01 gcFlag} mixed={b01 mixed} near={b01 near} inexact={b01 inexact} new={b01 needNew}"
        let evalRec (r : Rec) : Outcome :=
          match r.opv.splitOn ":" with
          | base :: var :: _ =>
            let emptyOp (k : String) : Operand := match emptyKinds[k.toNat! % 7]? with | some (g, _) => ⟨g, Flat.empty⟩ | none => ⟨.collection [], Flat.empty⟩
            let (X, Y) : Operand × Operand :=
              if base == "clip" then
                match clipOrds r.opv with
                | [x0, y0, x1, y1] =>
                  let p (x y : UInt64) : Pt := ⟨toI x, toI y⟩
                  (A, ⟨.collection [], ⟨[], [], [[[p x0 y0, p x1 y0, p x1 y1, p x0 y1, p x0 y0]]]⟩⟩)
                | _ => (A, ⟨.collection [], Flat.empty⟩)
              else if var == "ab" then (A, B) else if var == "ba" then (B, A) else if var == "aa" then (A, A)
              else if var.startsWith "ae" then (A, emptyOp (String.ofList (var.toList.drop 2))) else if var.startsWith "ea" then (emptyOp (String.ofList (var.toList.drop 2)), A)
              else if var == "gab" then (⟨.collection [ga.g, gb.g], ⟨A.f.pts ++ B.f.pts, A.f.lines ++ B.f.lines, A.f.polys ++ B.f.polys⟩⟩, ⟨.collection [], Flat.empty⟩)
              else (A, ⟨.collection [], Flat.empty⟩)
            -- exactness is demanded only for grid-exact inputs whose overlay needs no new vertex
            let needNew := !grid || needsNewVertex X.f Y.f
            let bad (m : String) : Outcome := ⟨some s!"bad {r.opv} {m} {feats needNew} dims={dimG X.g},{dimG Y.g}", none, false, needNew⟩
            match opOf base with
            | none => bad "unknown-op"
            | some op =>
              if r.exc != "-" then bad s!"exception {r.exc}" else
              match r.r with
              | none => bad "no-result"
              | some rg =>
                if hasCurve rg then bad "curved-result" else
                let R := flat rg
                -- geos_c.h: GEOSClipByRect is "not guaranteed to return valid results"
                if base != "clip" && r.valid != "1" then bad s!"invalid valid={r.valid}" else
                if base != "clip" && !lightValid R then bad "invalid light-check" else
                let binary := base == "int" || base == "uni" || base == "dif" || base == "sym"
                let (dX, dY) := overlayDims (shapeOf X.g) (shapeOf Y.g)
                let eX := isEmptyG X.g; let eY := isEmptyG Y.g
                let rd := resultDimension op dX dY
                let emptyRule := isEmptyResult op eX eY (envDisjoint (envOf X.f) (envOf Y.f))
                let rEmpty := isEmptyG rg
                if binary && emptyRule && !rEmpty then bad "emptyrule result-not-empty" else
                if binary && rEmpty && (emptyResultType rd).isSome && emptyResultType rd != some rg.typeId then bad s!"emptytype type={rg.typeId} dim={rd}" else
                if binary && !rEmpty && dimG rg > rd then bad s!"dim result={dimG rg} rule={rd}" else
                if binary && !rEmpty && !isCanonicalResult rg then bad s!"type not-most-specific type={rg.typeId}" else
                let T : Tol := ⟨mag, !needNew⟩
                -- the verdict is `Overlay.accepts` (Props/C03.lean: overlay_check_sound)
                let pass := if base == "clip" then clipAccepts T X.f Y.f R else accepts T op X.f Y.f R
                if !pass then
                  (if base == "clip" then bad "clip" else bad (firstBad T op X.f Y.f R e0))
                else
                  let exactPass := if needNew then acceptsExact op X.f Y.f R else true
                  ⟨none, some (flatArea2 R), exactPass, needNew⟩
          | _ => ⟨some s!"bad {r.opv} format", none, false, false⟩
        let outs := recs.map fun r => (r.opv, evalRec r)
        let recMsgs := outs.filterMap (fun (_, o) => o.msg)
        -- inclusion–exclusion and its relatives on exact areas (inputs that are not GeometryCollections)
        let areaMsgs : List String :=
          if gcFlag then [] else
          let get (k : String) : Option (Int × Bool) := (outs.lookup k).bind fun o => o.area2.map fun a => (a, o.exactPass)
          let aA := flatArea2 A.f; let aB := flatArea2 B.f
          let slack : Int := 8 * mag * (ringLenL1 A.f + ringLenL1 B.f)      -- ×1e-9, doubled-area units
          let close (x y : Int) (exact : Bool) : Bool := if exact then x == y else decide ((x - y).natAbs * 1000000000 ≤ slack)
          let needNew := !grid || needsNewVertex A.f B.f
          let chk (name : String) (l r : Option (Int × Bool)) : Option String :=
            match l, r with
            | some (x, e1), some (y, e2) => if close x y (e1 && e2 && !needNew) then none else some s!"bad {name} area lhs2={fl x (2 * e0)} rhs2={fl y (2 * e0)} {feats needNew}"
            | _, _ => none
          let add (a b : Option (Int × Bool)) : Option (Int × Bool) := match a, b with | some (x, e1), some (y, e2) => some (x + y, e1 && e2) | _, _ => none
          let sub (a b : Option (Int × Bool)) : Option (Int × Bool) := match a, b with | some (x, e1), some (y, e2) => some (x - y, e1 && e2) | _, _ => none
          let cA : Option (Int × Bool) := some (aA, true); let cB : Option (Int × Bool) := some (aB, true)
          [chk "incl-excl:ab" (add cA cB) (add (get "uni:ab") (get "int:ab")),
           chk "dif:ab" (get "dif:ab") (sub cA (get "int:ab")),
           chk "sym:ab" (get "sym:ab") (sub (get "uni:ab") (get "int:ab")),
           chk "dif:ba" (get "dif:ba") (sub cB (get "int:ba")),
           chk "incl-excl:ba" (add cA cB) (add (get "uni:ba") (get "int:ba"))].filterMap id
        if stats then
          let n := outs.length
          let ok := (outs.filter fun (_, o) => o.msg.isNone).length
          let ex := (outs.filter fun (_, o) => o.msg.isNone && o.exactPass).length
          let nn := (outs.filter fun (_, o) => o.needNew).length
          s!"records={n} ok={ok} exact_match={ex} within_tolerance_only={ok - ex} needs_new_vertex={nn}"
        else
        match recMsgs ++ areaMsgs with
        | [] => "ok"
        | l => Driver.joinWith " ;; " l
    | _, _, _ => "parse-error"
  | _ => "bad-line"

/-! #### stream overlay-core: the modelled decision functions against the real ones -/

def parseBox : List String → Option Env
  | ["n"] => some none
  | [a, b, c, d] => do some (some ⟨← a.toInt?, ← b.toInt?, ← c.toInt?, ← d.toInt?⟩)
  | _ => none

def loc3 (s : String) : Option Loc3 := if s == "0" then some .I else if s == "1" then some .B else if s == "2" then some .E else none

def core (line : String) : String :=
  match splitBar (Driver.tokens line) with
  | [["R", op, a, b]] =>
    match op.toInt?, loc3 a, loc3 b with
    | some op, some a, some b => b01 (isResultOfOpCode op a b)
    | _, _, _ => "parse-error"
  | [["D", op, a, b]] =>
    match op.toInt?.bind Op.ofCode, a.toInt?, b.toInt? with
    | some op, some a, some b => toString (resultDimension op a b)
    | _, _, _ => "parse-error"
  | [["T", d]] =>
    match d.toInt? with
    | some d => match emptyResultType d with | some t => toString t | none => "assert"
    | none => "parse-error"
  | [["E", op], ta, tb] =>
    match op.toInt?.bind Op.ofCode, parseBox ta, parseBox tb with
    | some op, some ea, some eb => b01 (isEmptyResult op ea.isNone eb.isNone (envDisjoint ea eb))
    | _, _, _ => "parse-error"
  | _ => "bad-line"

end Driver.C03

def main (args : List String) : IO UInt32 := do
  match args with
  | ["overlay-grid"] | ["overlay-dbl"] | ["overlay"] => Driver.loop (← IO.getStdin) (← IO.getStdout) (Driver.C03.check false); return 0
  | ["overlay-core"] => Driver.loop (← IO.getStdin) (← IO.getStdout) Driver.C03.core; return 0
  | ["overlay-input"] => Driver.loop (← IO.getStdin) (← IO.getStdout) Driver.C03Clip.check; return 0
  | ["overlay-stats"] => Driver.loop (← IO.getStdin) (← IO.getStdout) (Driver.C03.check true); return 0
  | _ => IO.eprintln "usage: drv_c03 overlay-grid|overlay-dbl"; return 2
