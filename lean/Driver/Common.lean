/-! Line-protocol helpers shared by all driver streams (core Lean only). -/
namespace Driver

def hexDigit (c : Char) : Option Nat :=
  if '0' ≤ c ∧ c ≤ '9' then some (c.toNat - '0'.toNat)
  else if 'a' ≤ c ∧ c ≤ 'f' then some (c.toNat - 'a'.toNat + 10)
  else if 'A' ≤ c ∧ c ≤ 'F' then some (c.toNat - 'A'.toNat + 10)
  else none

def parseHexNat (s : String) : Option Nat :=
  if s.isEmpty then none else
  s.foldl (fun acc c => match acc, hexDigit c with
    | some a, some d => some (a * 16 + d)
    | _, _ => none) (some 0)

def parseHex64 (s : String) : Option UInt64 :=
  if s.length != 16 then none else (parseHexNat s).map UInt64.ofNat

/-- order-preserving integer image of a non-NaN double given by its bits (−0 and +0 coincide) -/
def f64Key (u : UInt64) : Int :=
  if u >>> 63 == 1 then -(((u &&& 0x7fffffffffffffff).toNat : Nat) : Int) else ((u.toNat : Nat) : Int)

def tokens (line : String) : List String :=
  (line.splitOn " ").filter (· ≠ "")

def joinWith (sep : String) (l : List String) : String := sep.intercalate l

partial def loop (h : IO.FS.Stream) (out : IO.FS.Stream) (f : String → String) : IO Unit := do
  let line ← h.getLine
  if line.isEmpty then return ()
  let l := if line.back == '\n' then line.dropRight 1 else line
  out.putStrLn (f l)
  loop h out f

end Driver
