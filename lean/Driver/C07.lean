import Driver.Common
import GeosModel.Base.F64
import GeosModel.Base.Kernel
import GeosModel.Model.Kernel.Filter
import GeosModel.Model.Kernel.RayCount
import GeosModel.Model.Kernel.PolyLocate
import GeosModel.Model.Kernel.SegSeg
import GeosModel.Model.Kernel.CCW
import GeosModel.Model.Kernel.PointLocator
import Driver.GTreeIO
/-!
Driver for C07 (`drv_c07 <stream>`).  Doubles arrive as hex bits, are scaled to integers over one common
power of two (`F64.scaleAll`), and both the specification (`Kernel.*`) and the ported models are evaluated.
Where the specification and the ported model disagree the answer carries `MODEL-DIFFERS-FROM-SPEC`
(never expected: their equality is a theorem of Props/C07).
-/
namespace Driver.C07
open GeosModel GeosModel.Kernel GeosModel.Filter

def parseHexes (l : List String) : Option (List UInt64) := l.mapM Driver.parseHex64

/-- number of trailing zero bits of a positive natural (fuel-bounded) -/
def tz : Nat → Nat → Nat
  | 0, _ => 0
  | fuel + 1, n => if n == 0 then 0 else if n % 2 == 1 then 0 else 1 + tz fuel (n / 2)

/-- divide out the largest common power of two: `(e0, ints) ↦ (e0 + g, ints / 2^g)` -/
def stripCommon (e0 : Int) (l : List Int) : Int × List Int :=
  let nz := l.filter (· != 0)
  match nz with
  | [] => (0, l)
  | _ =>
    let g := nz.foldl (fun acc n => min acc (tz 4096 n.natAbs)) 4096
    (e0 + g, l.map (fun n => n / (2 : Int) ^ g))

def pts : List Int → List Pt
  | x :: y :: r => ⟨x, y⟩ :: pts r
  | _ => []

def dyOf (u : UInt64) : Dy :=
  match F64.dyadic u with
  | some (m, e) => Dy.mk' m e
  | none => Dy.zero

def showInt (i : Int) : String := toString i

/-! ### orientation -/

structure OCase where
  implFilter : Int
  bits : List UInt64

def parseO (line : String) : Option OCase :=
  match Driver.tokens line with
  | "O" :: f :: hs => do
    let f ← f.toInt?
    let bs ← parseHexes hs
    if bs.length == 6 then some ⟨f, bs⟩ else none
  | _ => none

def exactSign (bs : List UInt64) : Option Int := do
  let (_, ints) ← F64.scaleAll bs
  match pts ints with
  | [a, b, c] => some (orient a b c)
  | _ => none

def fsTok (f ex : Int) : String := if f == 2 || f == ex then "fs:ok" else s!"fs:BAD({f})"

/-- grid stream: the answer is the exact sign; the model (filter + DD over roundNE, on the `n * 2^k`
representation the theorems use) must agree with it -/
def orientGrid (line : String) : String :=
  match parseO line with
  | none => "bad-line"
  | some c =>
    match F64.scaleAll c.bits with
    | none => "nonfinite"
    | some (e0, ints) =>
      let (k, ns) := stripCommon e0 ints
      match pts ns with
      | [a, b, p] =>
        let ex := orient a b p
        let onGrid := ns.all (fun n => n.natAbs ≤ gridBound)
        let model := orientationIndexGrid roundNE k a b p
        let modelSwap := orientationIndexGrid roundNE k b a p
        let extra := (if onGrid then "" else " NOT-ON-GRID") ++
          (if model == ex && modelSwap == -ex then "" else s!" MODEL-DIFFERS-FROM-SPEC:{model}:{modelSwap}")
        s!"{ex} {-ex} {ex} {fsTok c.implFilter ex} as:ok{extra}"
      | _ => "bad-line"

/-- arbitrary finite doubles: the answer is the model of the implementation -/
def orientArb (line : String) : String :=
  match parseO line with
  | none => "bad-line"
  | some c =>
    match c.bits.map dyOf, exactSign c.bits with
    | [ax, ay, bx, by', px, py], some ex =>
      let model := orientationIndex roundNE ax ay bx by' px py
      let modelSwap := orientationIndex roundNE bx by' ax ay px py
      s!"{model} {modelSwap} {model} {fsTok c.implFilter ex} as:ok"
    | _, _ => "nonfinite"

/-- helper: exact sign only -/
def orientExact (line : String) : String :=
  match parseO line with
  | none => "bad-line"
  | some c => match exactSign c.bits with | some ex => showInt ex | none => "nonfinite"

/-- the filter model on the decoded doubles (informational stream) -/
def orientFilter (line : String) : String :=
  match parseO line with
  | none => "bad-line"
  | some c =>
    match c.bits.map dyOf with
    | [ax, ay, bx, by', px, py] => showInt (orientationIndexFilter roundNE ax ay bx by' px py)
    | _ => "bad-line"

/-! ### point in ring -/

def locTok : Loc → String
  | .interior => "I" | .boundary => "B" | .exterior => "E"

def ringLine (line : String) : String :=
  match Driver.tokens line with
  | "R" :: simple :: n :: hs =>
    match n.toNat?, parseHexes hs with
    | some n, some bs =>
      if bs.length != 2 * n + 2 then "bad-line" else
      match F64.scaleAll bs with
      | none => "nonfinite"
      | some (_, ints) =>
        match pts ints with
        | p :: ring =>
          let spec := locateInRing p ring
          let model := RayCount.locatePointInRing p ring
          let onl := (edges ring).any (fun e => onSegment e.1 e.2 p)
          let onlModel := RayCount.isOnLine p ring
          let modelPL := PointLocator.locate p (.poly [ring])
          let extra := if model == spec && onl == onlModel && (simple != "1" || modelPL == spec) then ""
            else s!" MODEL-DIFFERS-FROM-SPEC:{locTok model}:{onlModel}:{locTok modelPL}"
          let s := locTok spec
          let base := s!"{s} {s} {if onl then 1 else 0} {if spec == .exterior then 0 else 1}"
          (if simple == "1" then base ++ s!" {s} {s} {if spec == .exterior then 0 else 1} {s}" else base) ++ extra
        | [] => "bad-line"
    | _, _ => "bad-line"
  | _ => "bad-line"

/-! ### point in polygon with holes -/

/-- split a flat point list into rings of the given lengths -/
def splitRings : List Nat → List Pt → Option (List (List Pt))
  | [], [] => some []
  | [], _ => none
  | n :: ns, ps => if ps.length < n then none else (splitRings ns (ps.drop n)).map (fun r => ps.take n :: r)

/-- read `n hex*2n` groups -/
partial def ringGroups : List String → Option (List Nat × List String)
  | [] => some ([], [])
  | n :: rest =>
    match n.toNat? with
    | none => none
    | some k =>
      if rest.length < 2 * k then none else
      match ringGroups (rest.drop (2 * k)) with
      | none => none
      | some (ns, hs) => some (k :: ns, rest.take (2 * k) ++ hs)

def polyLine (line : String) : String :=
  match Driver.tokens line with
  | "Y" :: nr :: px :: py :: rest =>
    match nr.toNat?, ringGroups rest with
    | some nr, some (ns, hs) =>
      if ns.length != nr || nr == 0 then "bad-line" else
      match parseHexes (px :: py :: hs) with
      | none => "bad-line"
      | some bs =>
        match F64.scaleAll bs with
        | none => "nonfinite"
        | some (_, ints) =>
          match pts ints with
          | p :: all =>
            match splitRings ns all with
            | none => "bad-line"
            | some rings =>
              let spec := locateInPolygon p rings
              let model := PolyLocate.locatePointInPolygon p rings
              let modelI := PolyLocate.locateIndexed p rings
              let modelPL := PointLocator.locate p (.poly rings)
              let extra := if model == spec && modelI == spec && modelPL == spec then ""
                else s!" MODEL-DIFFERS-FROM-SPEC:{locTok model}:{locTok modelI}:{locTok modelPL}"
              let s := locTok spec
              let hit := if spec == .exterior then 0 else 1
              let inn := if spec == .interior then 1 else 0
              s!"{s} {s} {hit} {hit} {inn} {inn} {s} {hit}" ++ extra
          | [] => "bad-line"
    | _, _ => "bad-line"
  | _ => "bad-line"

/-! ### the general-purpose PointLocator on any geometry -/

partial def ordsG : G → List UInt64
  | .point s | .lineString s | .linearRing s | .circularString s => s.pts.flatMap fun c => [c.x, c.y]
  | .polygon sh hs => (sh :: hs).flatMap fun s => s.pts.flatMap fun c => [c.x, c.y]
  | .compoundCurve gs | .curvePolygon gs | .multiPoint gs | .multiLineString gs | .multiPolygon gs
  | .multiCurve gs | .multiSurface gs | .collection gs => gs.flatMap ordsG

partial def toGeo (toI : UInt64 → Int) : G → Option PointLocator.Geo
  | .point s => some (.point (s.pts.head?.map fun c => ⟨toI c.x, toI c.y⟩))
  | .lineString s | .linearRing s => some (.line (s.pts.map fun c => ⟨toI c.x, toI c.y⟩))
  | .polygon sh hs => some (.poly ((sh :: hs).map fun s => s.pts.map fun c => ⟨toI c.x, toI c.y⟩))
  | .multiPoint gs | .multiLineString gs | .multiPolygon gs | .collection gs => (gs.mapM (toGeo toI)).map .coll
  | _ => none

/-- exact specification of the location in one atomic element (used to cross-check the model): polygons by
`Kernel.locateInPolygon`, lines by "end point of an open chain / on a segment", points by equality -/
def specLeaf (p : Pt) : PointLocator.Geo → Option Loc
  | .point c => some (if c == some p then .interior else .exterior)
  | .line pts =>
    let closed := pts.head? == pts.getLast?
    some (if !closed && (pts.head? == some p || pts.getLast? == some p) then .boundary
          else if (edges pts).any (fun e => onSegment e.1 e.2 p) then .interior else .exterior)
  | .poly rings => some (locateInPolygon p rings)
  | .coll _ => none

def plocLine (line : String) : String :=
  match Driver.tokens line with
  | "G" :: px :: py :: "|" :: rest =>
    match Driver.parseHex64 px, Driver.parseHex64 py, Driver.GTreeIO.parseGeom rest with
    | some bx, some by', some (gm, []) =>
      match (bx :: by' :: ordsG gm.g).mapM F64.dyadic with
      | none => "nonfinite"
      | some ds =>
        let e0 := F64.minExp ds
        let toI (u : UInt64) : Int := match F64.dyadic u with | some d => F64.scaleTo e0 d | none => 0
        match toGeo toI gm.g with
        | none => "bad-line"
        | some g =>
          let p : Pt := ⟨toI bx, toI by'⟩
          let isRing := match gm.g with | .linearRing _ => true | _ => false
          let loc := PointLocator.locate p g isRing
          -- atomic top-level geometries: the model must be the exact specification
          let extra := match specLeaf p g with
            | some sp => if PointLocator.isEmpty g || sp == loc then "" else s!" MODEL-DIFFERS-FROM-SPEC:{locTok sp}"
            | none => ""
          let hit := if loc == .exterior then 0 else 1
          s!"{locTok loc} {hit} {hit}" ++ extra
    | _, _, _ => "bad-line"
  | _ => "bad-line"

/-! ### segment / segment -/

def hex64 (u : UInt64) : String :=
  let s := (Nat.toDigits 16 u.toNat)
  String.ofList (List.replicate (16 - s.length) '0' ++ s)

/-- the first input endpoint with the same coordinates, printed with its original bits -/
def hexPt : List UInt64 → List Pt → Pt → String
  | x :: y :: r, p :: ps, q => if p == q then s!"{hex64 x} {hex64 y}" else hexPt r ps q
  | _, _, _ => "??"

def segLine (line : String) : String :=
  match Driver.tokens line with
  | "S" :: rest =>
    if rest.length != 10 then "bad-line" else
    let hs := rest.take 8
    let obs := rest.drop 8
    match parseHexes hs with
    | none => "bad-line"
    | some bs =>
      -- the implementation's proper intersection point (if any) is scaled together with the inputs
      let obsBits := if obs.all (· != "-") then parseHexes obs else some []
      match obsBits with
      | none => "bad-line"
      | some ob =>
        match F64.scaleAll (bs ++ ob) with
        | none => "nonfinite"
        | some (_, ints) =>
          match pts ints with
          | p1 :: p2 :: q1 :: q2 :: tail =>
            let r := SegSeg.computeIntersect p1 p2 q1 q2
            let spec := segRel p1 p2 q1 q2
            let extra := if r.classify == spec then "" else " MODEL-DIFFERS-FROM-SPEC"
            let ptsTok := " ".intercalate (r.reported.map (hexPt bs [p1, p2, q1, q2]))
            let properTok :=
              match r.rat, tail with
              | some rp, [o] =>
                let inEnv := inBox p1 p2 o && inBox q1 q2 o
                let mag := ([p1, p2, q1, q2].map (fun p => max p.x.natAbs p.y.natAbs)).foldl max 0
                let tol := fun (v num : Int) => decide ((v * rp.w - num).natAbs * 100000000000000 ≤ mag * rp.w.natAbs)
                let close := tol o.x rp.x && tol o.y rp.y
                let exactIn := rp.inBox p1 p2 && rp.inBox q1 q2 && rp.onLine p1 p2 && rp.onLine q1 q2
                s!" in:{if inEnv then 1 else 0} close:{if close then 1 else 0}" ++ (if exactIn then "" else " MODEL-DIFFERS-FROM-SPEC:ratpt")
              | some _, _ => " in:? close:?"
              | none, _ => ""
            let capi := if r.code == 0 then "c:-1" else "c:1"
            s!"{r.code} {if r.proper then 1 else 0}" ++ (if ptsTok.isEmpty then "" else " " ++ ptsTok) ++ properTok ++ " " ++ capi ++ " cp:ok" ++ extra
          | _ => "bad-line"
  | _ => "bad-line"

/-! ### ring orientation -/

def ccwLine (line : String) : String :=
  match Driver.tokens line with
  | "C" :: simple :: n :: hs =>
    match n.toNat?, parseHexes hs with
    | some n, some bs =>
      if bs.length != 2 * n then "bad-line" else
      match F64.scaleAll bs with
      | none => "nonfinite"
      | some (_, ints) =>
        let ring := pts ints
        let model := CCW.isCCW ring
        let a := area2 ring
        -- for simple rings of non-zero area the answer must be the sign of the signed area
        let aTok := if simple == "1" && a != 0 && model != decide (a > 0) then "a:BAD" else "a:ok"
        let b := if model then 1 else 0
        s!"{b} {b} {aTok}"
    | _, _ => "bad-line"
  | _ => "bad-line"

def handlers : List (String × (String → String)) :=
  [ ("orient", orientGrid), ("orientarb", orientArb), ("orientx", orientExact), ("orientf", orientFilter),
    ("ring", ringLine), ("poly", polyLine), ("ploc", plocLine), ("segseg", segLine), ("ccw", ccwLine) ]

end Driver.C07

def main (args : List String) : IO UInt32 := do
  match args with
  | [stream] =>
    match Driver.C07.handlers.lookup stream with
    | some f =>
      Driver.loop (← IO.getStdin) (← IO.getStdout) f
      return 0
    | none => IO.eprintln s!"unknown stream {stream}"; return 2
  | _ => IO.eprintln "usage: drv_c07 <stream>"; return 2
