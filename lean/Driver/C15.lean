import Driver.Common
import GeosModel.Base.Env
import GeosModel.Model.Index.STR
import GeosModel.Model.Index.Quad
/-! Driver for C15: replays an STRtree history on the model (`GeosModel.STR.Tree` over `Env`). -/
namespace Driver.C15
open GeosModel GeosModel.STR

structure It where
  id : Int
  px : Int
  py : Int
deriving BEq, Repr

instance : BEq It := ⟨fun a b => a.id == b.id⟩

def keyX (n : Node Env It) : Int := match n.bounds with | some b => b.minx + b.maxx | none => 0
def keyY (n : Node Env It) : Int := match n.bounds with | some b => b.miny + b.maxy | none => 0

def cfg : Cfg Env It :=
  { ops := { inter := Env.inter, union := Env.union }
    isNull := Env.isNull
    sortX := fun l => l.mergeSort (fun a b => keyX a ≤ keyX b)
    sortY := fun l => l.mergeSort (fun a b => keyY a ≤ keyY b) }

def parseCoord (mode : String) (s : String) : Option Int :=
  if mode == "i" then s.toInt? else (Driver.parseHex64 s).map Driver.f64Key

/-- parse an envelope: `n` or four coordinates; returns (env, rest) -/
def parseEnv (mode : String) : List String → Option (Env × List String)
  | "n" :: r => some (none, r)
  | a :: b :: c :: d :: r => do
      let a ← parseCoord mode a; let b ← parseCoord mode b; let c ← parseCoord mode c; let d ← parseCoord mode d
      some (some ⟨a, b, c, d⟩, r)
  | _ => none

def showIds (l : List It) : String :=
  Driver.joinWith "," (((l.map (·.id)).mergeSort (· ≤ ·)).map toString)

def sqDist (x y : Int) (i : It) : Int := (i.px - x) * (i.px - x) + (i.py - y) * (i.py - y)

/-- squared distance from the point (x,y) to a box (0 inside) — the exact square of `Envelope::distance` -/
def boxSqDist (x y : Int) : Env → Int
  | none => 0
  | some b =>
    let dx := if x < b.minx then b.minx - x else if x > b.maxx then x - b.maxx else 0
    let dy := if y < b.miny then b.miny - y else if y > b.maxy then y - b.maxy else 0
    dx * dx + dy * dy

partial def go (mode : String) (t : Tree Env It) (acc : List String) : List String → List String
  | [] => acc.reverse
  | "I" :: id :: r =>
    match id.toInt?, parseEnv mode r with
    | some id, some (e, r') =>
      let (px, py) := match e with | some b => (b.minx, b.miny) | none => (0, 0)
      go mode (t.insert cfg e ⟨id, px, py⟩) ("i" :: acc) r'
    | _, _ => ("bad-op" :: acc).reverse
  | "B" :: r => go mode (t.build cfg) ("b" :: acc) r
  | "Q" :: r =>
    match parseEnv mode r with
    | some (e, r') => let (t', res) := t.query cfg e; go mode t' (("q:" ++ showIds res) :: acc) r'
    | none => ("bad-op" :: acc).reverse
  | "R" :: id :: r =>
    match id.toInt?, parseEnv mode r with
    | some id, some (e, r') =>
      let (t', ok) := t.remove cfg e ⟨id, 0, 0⟩
      go mode t' ((if ok then "r:1" else "r:0") :: acc) r'
    | _, _ => ("bad-op" :: acc).reverse
  | "T" :: r => go mode t (("t:" ++ showIds t.iterate) :: acc) r
  | "J" :: r => let (t', res) := t.items cfg; go mode t' (("j:" ++ showIds res) :: acc) r
  | "V" :: r =>
    match parseEnv mode r with
    | some (e, r') => let (t', res) := t.query cfg e; go mode t' (("v:" ++ showIds res) :: acc) r'
    | none => ("bad-op" :: acc).reverse
  | "N" :: x :: y :: r =>
    match x.toInt?, y.toInt? with
    | some x, some y =>
      let t' := t.build cfg
      let fuel := 4 * (t'.pending.length + 2) * (t'.pending.length + 2) + 64
      let res := nearestRoot (fun (a b : Int) => decide (a ≤ b)) (boxSqDist x y) (sqDist x y) fuel t'.root
      -- brute force over the live entries (the specification)
      let brute := (t'.live.map (fun e => sqDist x y e.item)).foldl
        (fun (m : Option Int) d => match m with | none => some d | some m => some (min m d)) none
      let s := match res, brute with
        | none, none => "n:none"
        | some (d, _), some bd => if d == bd then s!"n:{d}:1" else s!"n:MODEL-DIFFERS-FROM-SPEC:{d}:{bd}"
        | some (d, _), none => s!"n:MODEL-DIFFERS-FROM-SPEC:{d}:none"
        | none, some bd => s!"n:MODEL-DIFFERS-FROM-SPEC:none:{bd}"
      go mode t' (s :: acc) r
    | _, _ => ("bad-op" :: acc).reverse
  | "M" :: id :: x :: y :: r =>
    -- nearest OTHER item: the query item is the stored item `id`, the supplied metric puts an item far from itself
    match id.toInt?, x.toInt?, y.toInt? with
    | some qid, some x, some y =>
      let t' := t.build cfg
      let fuel := 4 * (t'.pending.length + 2) * (t'.pending.length + 2) + 64
      let selfD : Int := 1000000000000000000
      let dist := fun (i : It) => if i.id == qid then selfD else sqDist x y i
      let res := nearestRoot (fun (a b : Int) => decide (a ≤ b)) (boxSqDist x y) dist fuel t'.root
      let brute := (t'.live.map (fun e => dist e.item)).foldl
        (fun (m : Option Int) d => match m with | none => some d | some m => some (min m d)) none
      let s := match res, brute with
        | none, none => "m:none"
        | some (d, _), some bd =>
          if d != bd then s!"m:MODEL-DIFFERS-FROM-SPEC:{d}:{bd}" else if d == selfD then "m:self:1" else s!"m:{d}:1"
        | some (d, _), none => s!"m:MODEL-DIFFERS-FROM-SPEC:{d}:none"
        | none, some bd => s!"m:MODEL-DIFFERS-FROM-SPEC:none:{bd}"
      go mode t' (s :: acc) r
    | _, _, _ => ("bad-op" :: acc).reverse
  | _ => ("bad-op" :: acc).reverse

def history (line : String) : String :=
  match Driver.tokens line with
  | "H" :: cap :: mode :: ops | "HX" :: cap :: mode :: ops =>
    match cap.toNat? with
    | some cap => Driver.joinWith " " (go mode (Tree.empty cap) [] ops)
    | none => "bad-line"
  | _ => "bad-line"

def bit (b : Bool) : String := if b then "1" else "0"

/-! #### the other indexes: check the reported result of every query against the brute-force filter -/

structure OItem where
  id : Int
  b : Box
  live : Bool

def parseIds (s : String) : List Int := if s == "-" then [] else (s.splitOn ",").filterMap (·.toInt?)
def parsePairs (s : String) : List (Int × Int) :=
  if s == "-" then [] else (s.splitOn ",").filterMap fun t => match t.splitOn ":" with
    | [a, b] => do some (← a.toInt?, ← b.toInt?)
    | _ => none

/-- exact kinds must return exactly the matching live items; `quad` / `hot` may return extra candidates -/
partial def otherGo (kind : String) (items : List OItem) : List String → String
  | [] => "ok"
  | "I" :: id :: a :: b :: c :: d :: r =>
    match id.toInt?, a.toInt?, b.toInt?, c.toInt?, d.toInt? with
    | some id, some a, some b, some c, some d => otherGo kind (items ++ [⟨id, ⟨a, b, c, d⟩, true⟩]) r
    | _, _, _, _, _ => "bad-op"
  | "R" :: id :: ok :: r =>
    match id.toInt? with
    | some id =>
      let live := items.any fun it => it.id == id && it.live
      -- removing a live (envelope, item) pair must succeed; removing a pair that is not live must fail
      if (ok == "1") != live then s!"bad remove id={id} impl={ok} live={live}" else
        -- one live entry with that id (and an identical envelope if duplicated) disappears
        let rec kill : List OItem → List OItem
          | [] => []
          | it :: t => if it.id == id && it.live then { it with live := false } :: t else it :: kill t
        otherGo kind (if live then kill items else items) r
    | none => "bad-op"
  | "A" :: res :: "Z" :: n :: r =>
    -- the whole content (Quadtree::queryAll, size): exactly the live items
    let got := (parseIds res).mergeSort (· ≤ ·)
    let want := ((items.filter (·.live)).map (·.id)).mergeSort (· ≤ ·)
    if got != want then s!"bad {kind} all got {got} want {want}"
    else if n.toNat? != some want.length then s!"bad {kind} size {n} want {want.length}"
    else otherGo kind items r
  | "Q" :: a :: b :: c :: d :: res :: r =>
    match a.toInt?, b.toInt?, c.toInt?, d.toInt? with
    | some a, some b, some c, some d =>
      let oneD := kind == "sir" || kind == "spi"
      let hit (it : OItem) : Bool :=
        it.live && (if oneD then decide (a ≤ it.b.maxx) && decide (b ≥ it.b.minx)
                    else Env.inter (some it.b) (some ⟨a, b, c, d⟩))
      if kind == "kd" || kind == "hot" then
        let got := parsePairs res
        -- hot pixel queries are expanded by one pixel (1/scale = 1): never miss; may return more
        let want := ((items.filter hit).map fun it => (it.b.minx, it.b.miny)).eraseDups
        let missed := want.filter (fun w => !got.contains w)
        let extra := got.filter (fun g => !want.contains g)
        if !missed.isEmpty then s!"bad {kind} missed {missed}"
        else if kind == "kd" && !extra.isEmpty then s!"bad kd extra {extra}"
        else otherGo kind items r
      else
        let got := (parseIds res).mergeSort (· ≤ ·)
        let want := ((items.filter hit).map (·.id)).mergeSort (· ≤ ·)
        let missed := want.filter (fun w => !got.contains w)
        if !missed.isEmpty then s!"bad {kind} missed {missed}"
        else if kind != "quad" && got != want then s!"bad {kind} got {got} want {want}"
        else otherGo kind items r
    | _, _, _, _ => "bad-op"
  | _ => "bad-op"

/-! #### quadtree (harness stream `quadnode`, lines `N f|r ops…`): the model of Model/Index/Quad.lean run on the same
operations; results are compared in order (the traversal order is part of the model).  Ordinates are scaled by 4. -/

def parseBox4 : List String → Option (Box × List String)
  | a :: b :: c :: d :: r => do
      let a ← a.toInt?; let b ← b.toInt?; let c ← c.toInt?; let d ← d.toInt?
      some (⟨4 * a, 4 * b, 4 * c, 4 * d⟩, r)
  | _ => none

def showSeq (l : List Int) : String := if l.isEmpty then "-" else Driver.joinWith "," (l.map toString)

open GeosModel.Quad in
partial def quadGo (facade : Bool) (r : QT Int) (acc : List String) : List String → List String
  | [] => acc.reverse
  | "I" :: id :: rest =>
    match id.toInt?, parseBox4 rest with
    | some id, some (b, rest') =>
      match (if facade then treeInsert 2 r b id else rootInsert 4 r b id) with
      | some r' => quadGo facade r' ("i" :: acc) rest'
      | none => ("i:ASSERT" :: acc).reverse
    | _, _ => ("bad-op" :: acc).reverse
  | "R" :: id :: rest =>
    match id.toInt?, parseBox4 rest with
    | some id, some (b, rest') =>
      let p := if facade then treeRemove 2 r b id else r.remove (some b) id
      quadGo facade p.1 ((if p.2 then "r:1" else "r:0") :: acc) rest'
    | _, _ => ("bad-op" :: acc).reverse
  | "Q" :: rest =>
    match parseBox4 rest with
    | some (b, rest') => quadGo facade r (("q:" ++ showSeq (r.query (some b))) :: acc) rest'
    | none => ("bad-op" :: acc).reverse
  | "V" :: rest =>
    match parseBox4 rest with
    | some (b, rest') => quadGo facade r (("v:" ++ showSeq (r.query (some b))) :: acc) rest'
    | none => ("bad-op" :: acc).reverse
  | "A" :: rest => quadGo facade r (("a:" ++ showSeq r.allItems) :: acc) rest
  | "S" :: rest =>
    let s := if facade then s!"s:{r.size}:{r.depth}"
             else s!"s:{r.size}:{r.depth}:{bit r.hasChildren}{bit r.hasItems}{bit r.isPrunable}"
    quadGo facade r (s :: acc) rest
  | _ => ("bad-op" :: acc).reverse

def other (line : String) : String :=
  match Driver.tokens line with
  | "X" :: kind :: _cap :: ops => otherGo kind [] ops
  | "N" :: mode :: ops => Driver.joinWith " " (quadGo (mode == "f") GeosModel.Quad.emptyRoot [] ops)
  | _ => "bad-line"

/-! #### envelope predicates and node flags (harness stream `envpreds`, lines `E mode envA envB x y`) -/

/-- where each ordinate of `r` comes from: `n` null, `=` both, `a`, `b`, `?` neither -/
def origin (r a b : Env) : String :=
  match r with
  | none => "nnnn"
  | some rb =>
    let one (rv : Int) (av bv : Option Int) : String :=
      let ea := av == some rv
      let eb := bv == some rv
      if ea && eb then "=" else if ea then "a" else if eb then "b" else "?"
    one rb.minx (a.map (·.minx)) (b.map (·.minx)) ++ one rb.maxx (a.map (·.maxx)) (b.map (·.maxx)) ++
    one rb.miny (a.map (·.miny)) (b.map (·.miny)) ++ one rb.maxy (a.map (·.maxy)) (b.map (·.maxy))

def nodeFlags (n : Node Env Unit) (q : Env) : String :=
  let del := match n with | .leaf e => e.deleted | .branch _ _ => false
  bit n.isLeaf ++ bit del ++ bit (!n.isLeaf) ++ bit (Env.inter n.bounds q)

def envCase (mode : String) (rest : List String) : String :=
  match parseEnv mode rest with
  | some (a, r1) =>
    match parseEnv mode r1 with
    | some (b, [xs, ys]) =>
      match parseCoord mode xs, parseCoord mode ys with
      | some x, some y =>
        let i := Env.inter a b
        let c := Env.covers a b
        let p := Env.containsPt a x y
        let u := Env.union a b
        let leaf : Node Env Unit := .leaf ⟨a, (), false⟩
        let rm : Node Env Unit := .leaf ⟨a, (), true⟩
        let par : Node Env Unit := .branch u [leaf, .leaf ⟨b, (), false⟩]
        s!"null={bit a.isNull}{bit a.isNull} int={bit i}{bit i}{bit i}{bit i} cov={bit c}{bit c} pt={bit p}{bit p}{bit p}{bit p}" ++
        s!" exp={origin u a b}{origin u a b}{origin u a b} leaf={nodeFlags leaf b} rm={nodeFlags rm b}" ++
        s!" par={nodeFlags par a}{nodeFlags par b}{origin u a b}"
      | _, _ => "bad-line"
    | _ => "bad-line"
  | none => "bad-line"

def slices (line : String) : String :=
  match Driver.tokens line with
  | "E" :: mode :: rest => envCase mode rest
  | "K" :: leaves =>
    -- the leaf array in storage order, `id` live / `id*` removed: run the model of `Iterator` over it (in order)
    let es : List (Entry Env Int) := leaves.filterMap fun s =>
      if s.endsWith "*" then (s.dropRight 1).toInt?.map (fun i => ⟨none, i, true⟩) else s.toInt?.map (fun i => ⟨none, i, false⟩)
    if es.length != leaves.length then "bad-line" else
    showSeq (itemsLoop es.length (itBegin es))
  | ["S", cap, n] =>
    match cap.toNat?, n.toNat? with
    | some cap, some n =>
      let s := sliceCount cap n
      s!"{s} {if n == 0 || s == 0 then 0 else sliceCapacity n s} {treeSize cap n}"
    | _, _ => "bad-line"
  | _ => "bad-line"

end Driver.C15
