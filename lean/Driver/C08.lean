import Driver.Common
import Driver.GTreeIO
import GeosModel.Base.F64
import GeosModel.Model.Distance.Spec
import GeosModel.Model.Distance.BB
/-!
Driver for C08 (`drv_c08 distance`).  A case line is

  `<sridA geomA> <sridB geomB> R <key args>*`

where the part after `R` is what the implementation answered for this pair (doubles as bit patterns).
The driver scales all ordinates to integers over a common power of two, evaluates the exact
specification (`GeosModel.Distance`) and prints `ok`, or `FAIL` followed by the violated clauses.

keys:  d ds (GEOSDistance A,B / B,A)   di dis (GEOSDistanceIndexed)   pa pb (GEOSPreparedDistance, prepared A / B)
       np nps npa npb x0 y0 x1 y1 | E  (nearest points: A,B / B,A / prepared A / prepared B)
       w t r | wa t r | wb t r         (DistanceWithin / PreparedDistanceWithin at threshold t, r ∈ 0 1 E)
       h hs | hd n v | hsd n v         (Hausdorff A,B / B,A / densified by 1/n)
       f fs | fd n v | fsd n v         (Fréchet likewise)
-/
open GeosModel GeosModel.Kernel GeosModel.Distance

namespace Driver.C08

/-- exact rational, `den > 0` -/
structure R where
  num : Int
  den : Int

def R.le (a b : R) : Bool := decide (a.num * b.den ≤ b.num * a.den)
def R.add (a b : R) : R := ⟨a.num * b.den + b.num * a.den, a.den * b.den⟩
def R.sub (a b : R) : R := ⟨a.num * b.den - b.num * a.den, a.den * b.den⟩
def R.mul (a b : R) : R := ⟨a.num * b.num, a.den * b.den⟩
def R.abs (a : R) : R := ⟨a.num.natAbs, a.den⟩

def pow2 (n : Nat) : Int := (2 : Int) ^ n

/-- the double `m·2^e` in units of `2^e0` -/
def R.ofDyadic (e0 : Int) (d : Int × Int) : R :=
  if d.1 == 0 then ⟨0, 1⟩
  else if d.2 ≥ e0 then ⟨d.1 * pow2 (d.2 - e0).toNat, 1⟩
  else ⟨d.1, pow2 (e0 - d.2).toNat⟩

def relTol : R := ⟨2, 1000000000000⟩      -- 2e-12 on the root  (4e-12 on the square)

/-- `|r² − d²| ≤ 4e-12·d²` and `r = 0 ↔ d = 0` -/
def closeExact (r : R) (d2 : Q) : Bool :=
  let r2n := r.num * r.num
  let r2d := r.den * r.den
  let diff := (r2n * d2.den - d2.num * r2d).natAbs
  decide (0 ≤ r.num) && ((r.num == 0) == (d2.num == 0)) &&
    decide ((diff : Int) * 1000000000000 ≤ 4 * d2.num * r2d)

/-- rational approximation of `√q` from below, absolute error < 2^-64 units -/
def sqrtR (q : Q) : R :=
  let s : Nat := 2 ^ 64
  ⟨(Nat.sqrt (q.num.toNat * q.den.toNat * s * s) : Nat), q.den * (s : Int)⟩

/-- `|r − d| ≤ 2e-12·d + slack` -/
def closeAbs (r d slack : R) : Bool :=
  R.le (R.abs (R.sub r d)) (R.add (R.mul relTol d) slack)

def scaleComp (k : Int) : Comp → Comp
  | .pt p => .pt ⟨p.x * k, p.y * k⟩
  | .line ps => .line (ps.map fun p => ⟨p.x * k, p.y * k⟩)
  | .poly rs => .poly (rs.map fun r => r.map fun p => ⟨p.x * k, p.y * k⟩)

def scaleGeom (k : Int) (g : IGeom) : IGeom := g.map (scaleComp k)

def qScale (k : Int) (q : Q) : Q := ⟨q.num * (k * k), q.den, q.pos⟩     -- value × k²

structure Ctx where
  e0 : Int
  A : IGeom
  B : IGeom
  m : Int                  -- largest |ordinate| (units of 2^e0), at least 1
  d2 : Option Q            -- point-set distance²
  fd2 : Option Q           -- facet distance²
  rep : List (String × String) := []   -- the distances the implementation reported: key (d / pa / pb) ↦ bits

def dyad (s : String) : Option (Int × Int) := (Driver.parseHex64 s).bind F64.dyadic

def checkDist (c : Ctx) (name : String) (spec : Option Q) (v : String) : List String :=
  match spec, dyad v with
  | some q, some d => if closeExact (R.ofDyadic c.e0 d) q then [] else [name]
  | _, _ => [name ++ "-undefined"]

/-- nearest points: `p0` must lie on `g0`, `p1` on `g1` (within `m·2^-40`), and realise the distance -/
def checkNearest (c : Ctx) (name : String) (g0 g1 : IGeom) (xs : List String) : List String :=
  match xs.mapM dyad, c.d2 with
  | some [x0, y0, x1, y1], some d2 =>
    let nz := [x0, y0, x1, y1].filter (fun d => d.1 != 0)
    let e1 := if nz.isEmpty then c.e0 else min c.e0 (F64.minExp nz)
    let k := pow2 (c.e0 - e1).toNat
    let g0' := scaleGeom k g0
    let g1' := scaleGeom k g1
    let p0 : Pt := ⟨F64.scaleTo e1 x0, F64.scaleTo e1 y0⟩
    let p1 : Pt := ⟨F64.scaleTo e1 x1, F64.scaleTo e1 y1⟩
    let mk := c.m * k
    let onTol (q : Option Q) : Bool := match q with
      | some q => decide (q.num * pow2 80 ≤ mk * mk * q.den)
      | none => false
    let tol : R := ⟨mk, pow2 40⟩
    let real := closeAbs (sqrtR (Q.ofInt (sqDist p0 p1))) (sqrtR (qScale k d2)) (R.add tol tol)
    (if onTol (ptDist2 p0 g0') then [] else [name ++ "-first-not-on-geometry"]) ++
    (if onTol (ptDist2 p1 g1') then [] else [name ++ "-second-not-on-geometry"]) ++
    (if real then [] else [name ++ "-not-realising-distance"])
  | _, _ => [name ++ "-undefined"]

/-- within-distance at threshold `t`: decided when `t` is clearly below / above, or exactly at, the true distance.
Exactly at the true distance the answer must be `true` — unless the distance the implementation itself reports through the
corresponding entry point (`repKey`: GEOSDistance for `w`, GEOSPreparedDistance for `wa` / `wb`) is larger than `t` (it may be
off by an ulp, which the 1e-12 clause allows): then `false` agrees with the reported distance and is accepted. -/
def checkWithin (c : Ctx) (name repKey : String) (t res : String) : List String :=
  match dyad t, c.d2 with
  | some td, some d2 =>
    let tr := R.ofDyadic c.e0 td
    if tr.num < 0 then [] else
    let repAbove : Bool := match (c.rep.lookup repKey).bind dyad with
      | some rd => let rr := R.ofDyadic c.e0 rd; !(R.le rr tr)
      | none => false
    let t2n := tr.num * tr.num
    let t2d := tr.den * tr.den
    -- compare t² with d²
    let lhs := t2n * d2.den
    let rhs := d2.num * t2d
    let big : Int := 1000000000000
    let expected : Option Bool :=
      if lhs == rhs then (if repAbove then none else some true)
      else if lhs * big > rhs * (big + 4) then some true
      else if lhs * big < rhs * (big - 4) then some false
      else none
    match expected, res with
    | some true, "1" => []
    | some false, "0" => []
    | none, "0" => []
    | none, "1" => []
    | some true, _ => [name ++ "-false-but-distance<=threshold"]
    | some false, _ => [name ++ "-true-but-distance>threshold"]
    | none, _ => [name ++ "-error"]
  | _, _ => [name ++ "-undefined"]

def checkHausdorff (c : Ctx) (name : String) (n : Nat) (A B : IGeom) (v : String) : List String :=
  let k : Int := if n ≤ 1 then 1 else n
  match hausdorff2 n (scaleGeom k A) (scaleGeom k B), dyad v with
  | some h2, some d =>
    let r := R.mul (R.ofDyadic c.e0 d) ⟨k, 1⟩
    if closeAbs r (sqrtR h2) ⟨c.m * k, pow2 44⟩ then [] else [name]
  | _, _ => [name ++ "-undefined"]

def checkFrechet (c : Ctx) (name : String) (n : Nat) (A B : IGeom) (v : String) : List String :=
  let k : Int := if n ≤ 1 then 1 else n
  let ps := verts (scaleGeom k A)
  let qs := verts (scaleGeom k B)
  let ps := if n ≤ 1 then ps else densify n ps
  let qs := if n ≤ 1 then qs else densify n qs
  match frechet2 ps qs, dyad v with
  | some f2, some d =>
    let r := R.mul (R.ofDyadic c.e0 d) ⟨k, 1⟩
    -- vertex-to-vertex distances are exact differences; densified points are *computed* points (p0 + j·((p1−p0)/n)),
    -- off by an ulp of the coordinate, so they get the absolute slack computed points get elsewhere
    let good := if n ≤ 1 then closeExact r (Q.ofInt f2) else closeAbs r (sqrtR (Q.ofInt f2)) ⟨c.m * k, pow2 44⟩
    if good then [] else [name]
  | _, _ => [name ++ "-undefined"]

partial def checks (c : Ctx) : List String → List String
  | [] => []
  | "d" :: v :: r => checkDist c "distance" c.d2 v ++ checks c r
  | "ds" :: v :: r => checkDist c "distance-swapped" c.d2 v ++ checks c r
  | "di" :: v :: r => checkDist c "indexed" c.fd2 v ++ checks c r
  | "dis" :: v :: r => checkDist c "indexed-swapped" c.fd2 v ++ checks c r
  | "pa" :: v :: r => checkDist c "prepared-a" c.d2 v ++ checks c r
  | "pb" :: v :: r => checkDist c "prepared-b" c.d2 v ++ checks c r
  | "np" :: "E" :: r => "nearest-error" :: checks c r
  | "nps" :: "E" :: r => "nearest-swapped-error" :: checks c r
  | "npa" :: "E" :: r => "nearest-prepared-a-error" :: checks c r
  | "npb" :: "E" :: r => "nearest-prepared-b-error" :: checks c r
  | "np" :: a :: b :: x :: y :: r => checkNearest c "nearest" c.A c.B [a, b, x, y] ++ checks c r
  | "nps" :: a :: b :: x :: y :: r => checkNearest c "nearest-swapped" c.B c.A [a, b, x, y] ++ checks c r
  | "npa" :: a :: b :: x :: y :: r => checkNearest c "nearest-prepared-a" c.A c.B [a, b, x, y] ++ checks c r
  | "npb" :: a :: b :: x :: y :: r => checkNearest c "nearest-prepared-b" c.B c.A [a, b, x, y] ++ checks c r
  | "w" :: t :: v :: r => checkWithin c "within" "d" t v ++ checks c r
  | "wa" :: t :: v :: r => checkWithin c "within-prepared-a" "pa" t v ++ checks c r
  | "wb" :: t :: v :: r => checkWithin c "within-prepared-b" "pb" t v ++ checks c r
  | "h" :: v :: r => checkHausdorff c "hausdorff" 1 c.A c.B v ++ checks c r
  | "hs" :: v :: r => checkHausdorff c "hausdorff-swapped" 1 c.B c.A v ++ checks c r
  | "hd" :: n :: v :: r => checkHausdorff c "hausdorff-densify" (n.toNat?.getD 1) c.A c.B v ++ checks c r
  | "hsd" :: n :: v :: r => checkHausdorff c "hausdorff-densify-swapped" (n.toNat?.getD 1) c.B c.A v ++ checks c r
  | "f" :: v :: r => checkFrechet c "frechet" 1 c.A c.B v ++ checks c r
  | "fs" :: v :: r => checkFrechet c "frechet-swapped" 1 c.B c.A v ++ checks c r
  | "fd" :: n :: v :: r => checkFrechet c "frechet-densify" (n.toNat?.getD 1) c.A c.B v ++ checks c r
  | "fsd" :: n :: v :: r => checkFrechet c "frechet-densify-swapped" (n.toNat?.getD 1) c.B c.A v ++ checks c r
  | "crash" :: _ => ["impl-crash"]
  | "harness-exception" :: _ => ["harness-exception"]
  | k :: _ => ["bad-key-" ++ k]

def dedup (l : List String) : List String := l.eraseDups

def distance (line : String) : String :=
  match Driver.GTreeIO.parseGeom (Driver.tokens line) with
  | none => "bad-line"
  | some (ga, rest) =>
    match Driver.GTreeIO.parseGeom rest with
    | none => "bad-line"
    | some (gb, rest) =>
      match rest with
      | "R" :: res =>
        if hasCurve ga.g || hasCurve gb.g then "unsupported-curve" else
        match (ordsOf ga.g ++ ordsOf gb.g).mapM F64.dyadic with
        | none => "non-finite"
        | some ds =>
          let e0 := F64.minExp ds
          let f : UInt64 → Int := fun u => match F64.dyadic u with | some d => F64.scaleTo e0 d | none => 0
          let A := compsOf f ga.g
          let B := compsOf f gb.g
          let m := (ds.map (fun d => (F64.scaleTo e0 d).natAbs)).foldl max 1
          let rec repOf : List String → List (String × String)
            | k :: v :: r => if k == "d" || k == "pa" || k == "pb" then (k, v) :: repOf (v :: r) else repOf (v :: r)
            | _ => []
          let c : Ctx := { e0, A, B, m := m, d2 := dist2 A B, fd2 := facetDist2 A B, rep := repOf res }
          -- the branch-and-bound model must agree with the brute-force specification
          let bb := match bbFacetDist2 4 A B, c.fd2 with
            | some x, some y => if Q.eqv x y then [] else ["MODEL-bb-differs-from-spec"]
            | none, none => []
            | _, _ => ["MODEL-bb-differs-from-spec"]
          let fails := dedup (bb ++ checks c res)
          if fails.isEmpty then "ok" else "FAIL " ++ Driver.joinWith "," fails
      | _ => "bad-line"

end Driver.C08

def main (args : List String) : IO UInt32 := do
  match args with
  | ["distance-fp"] =>
    Driver.loop (← IO.getStdin) (← IO.getStdout) Driver.C08.distance
    return 0
  | ["distance"] =>
    Driver.loop (← IO.getStdin) (← IO.getStdout) Driver.C08.distance
    return 0
  | _ => IO.eprintln "usage: drv_c08 distance"; return 2
