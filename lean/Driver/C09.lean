import Driver.Common
import Driver.GTreeIO
import GeosModel.Model.WKB.Spec
/-! Driver for C09 (exe `drv_c09`): runs the WKB model on the harness's cases.
  wkb-write            <api> <dims> <be|le> <ext|iso> <0|1> <srid geom…>   -> HEX of `write`
  wkb-write-seq        <api> <cfg> <srid geomA…> ;; <srid geomB…>           -> HEX(A) HEX(B) s= d= o= f=  (one reused writer)
  wkb-read             B <hex bytes> | H <hex text>                        -> err | <srid geom…>
  wkb-roundtrip        <dims> <be|le> <ext|iso> <0|1> <srid geom…>         -> `docSpec` (the property's promise)
  wkb-roundtrip-model  same                                               -> `read (write c g)` of the model
  wkb-classify         same                                               -> which undocumented normalisations apply
The token grammar has a single spelling `U 0` for every empty curve polygon (`vh::dumpGeom` prints it for
any empty one, `vh::buildGeom` makes the factory's XY one from it), so on input `U 0` becomes the factory's
object (empty XY linear ring as shell) and on output every empty curve polygon is printed as `U 0`. -/
namespace Driver.C09
open GeosModel GeosModel.WKB Driver.GTreeIO

/-! ### the arc oracle: `Float` transcription of the exception conditions of
`SimpleCurve::computeEnvelopeInternal(false)` → `CircularArcs::expandEnvelope` → `getCenter`,
`Orientation::index` (throws iff its third point is not finite), `Quadrant::quadrant` (throws iff its two
points are equal).  Lean's `Float` is the platform's IEEE binary64, same operations in the same order. -/

def eq2 (a b : Float × Float) : Bool := a.1 == b.1 && a.2 == b.2

def getCenter (p0 p1 p2 : Float × Float) : Float × Float :=
  if eq2 p0 p2 then (0.5 * (p0.1 + p1.1), 0.5 * (p0.2 + p1.2)) else
  let ax := p1.1 - p2.1; let ay := p1.2 - p2.2
  let bx := p2.1 - p0.1; let by' := p2.2 - p0.2
  let cx := p0.1 - p1.1; let cy := p0.2 - p1.2
  let d1 := -(bx * cx + by' * cy)
  let d2 := -(cx * ax + cy * ay)
  let d3 := -(ax * bx + ay * by')
  let e1 := d2 * d3; let e2 := d3 * d1; let e3 := d1 * d2
  let e := e1 + e2 + e3
  let gx := p0.1 + p1.1 + p2.1; let gy := p0.2 + p1.2 + p2.2
  let hx := (e1 * p0.1 + e2 * p1.1 + e3 * p2.1) / e
  let hy := (e1 * p0.2 + e2 * p1.2 + e3 * p2.2) / e
  (0.5 * (gx - hx), 0.5 * (gy - hy))

def quadrant (c p : Float × Float) : Nat :=
  if p.1 >= c.1 then (if p.2 >= c.2 then 0 else 3) else (if p.2 >= c.2 then 1 else 2)

def finite2 (p : Float × Float) : Bool := p.1.isFinite && p.2.isFinite

def arcThrows (p0 p1 p2 : Float × Float) : Bool :=
  let c := getCenter p0 p1 p2
  if eq2 c p0 || eq2 c p1 then false
  else if c.1.isNaN then false
  else if !finite2 p1 then true
  else if eq2 p2 c then true
  else if quadrant c p0 == quadrant c p2 then !finite2 p2 else false

def arcsThrow : List (Float × Float) → Bool
  | p0 :: p1 :: p2 :: rest => arcThrows p0 p1 p2 || arcsThrow (p1 :: p2 :: rest)
  | _ => false

/-- the oracle handed to the model -/
def arcF : ArcOracle := fun xy => arcsThrow (xy.map fun p => (Float.ofBits p.1, Float.ofBits p.2))

mutual
  partial def normIn : G → G
    | .curvePolygon [] => .curvePolygon [.linearRing ⟨false, false, []⟩]
    | .curvePolygon gs => .curvePolygon (gs.map normIn)
    | .compoundCurve gs => .compoundCurve (gs.map normIn)
    | .multiPoint gs => .multiPoint (gs.map normIn)
    | .multiLineString gs => .multiLineString (gs.map normIn)
    | .multiPolygon gs => .multiPolygon (gs.map normIn)
    | .collection gs => .collection (gs.map normIn)
    | .multiCurve gs => .multiCurve (gs.map normIn)
    | .multiSurface gs => .multiSurface (gs.map normIn)
    | g => g
end

partial def normOut : G → G
  | .curvePolygon gs => if gIsEmpty (.curvePolygon gs) then .curvePolygon [] else .curvePolygon (gs.map normOut)
  | .compoundCurve gs => .compoundCurve (gs.map normOut)
  | .multiPoint gs => .multiPoint (gs.map normOut)
  | .multiLineString gs => .multiLineString (gs.map normOut)
  | .multiPolygon gs => .multiPolygon (gs.map normOut)
  | .collection gs => .collection (gs.map normOut)
  | .multiCurve gs => .multiCurve (gs.map normOut)
  | .multiSurface gs => .multiSurface (gs.map normOut)
  | g => g

def showOut (g : Geom) : String := showGeom ⟨g.srid, normOut g.g⟩

def parseCfg : List String → Option (Cfg × List String)
  | d :: o :: f :: s :: r => do
    let d ← d.toNat?
    let o ← (match o with | "be" => some Order.be | "le" => some Order.le | _ => none)
    let f ← (match f with | "ext" => some Flavor.ext | "iso" => some Flavor.iso | _ => none)
    let s ← (match s with | "0" => some false | "1" => some true | _ => none)
    some (⟨d, o, f, s⟩, r)
  | _ => none

def parseCase (toks : List String) : Option (Cfg × Geom) := do
  let (c, r) ← parseCfg toks
  let (g, _) ← parseGeom r
  some (c, ⟨g.srid, normIn g.g⟩)

def parseHexBytes (s : String) : Option (List UInt8) := hexDecode s.toList

def showRes : Except Err Geom → String
  | .ok g => showOut g
  | .error _ => "err"

/-! classification of the undocumented normalisations an input triggers (for finding signatures) -/
mutual
  partial def classes : G → List String
    | .point s =>
      if s.pts.any (fun p => isNaNBits p.x && isNaNBits p.y &&
          !(p.x == nanBits && p.y == nanBits && (!s.hasZ || p.z == nanBits) && (!s.hasM || p.m == nanBits)))
      then ["nan-point-payload"] else []
    | .polygon sh hs =>
      (if hs.any (fun h => !sameFlags sh h) then ["polygon-ring-dims-promoted"] else []) ++
      (if sh.pts.isEmpty && !hs.isEmpty then ["empty-polygon-holes-dropped"] else [])
    | .compoundCurve gs =>
      (match gs with
       | g :: rest => if rest.any (fun h => !sameFlags (seqOf g) (seqOf h)) then ["compound-section-dims-promoted"] else []
       | [] => [])
    | .curvePolygon gs =>
      (if gIsEmpty (.curvePolygon gs) then
        (match gs with
         | [.linearRing _] => []
         | _ => ["empty-curvepolygon-normalised"])
       else []) ++ classesL gs
    | .multiPoint gs => classesL gs
    | .multiLineString gs => classesL gs
    | .multiPolygon gs => classesL gs
    | .collection gs => classesL gs
    | .multiCurve gs => classesL gs
    | .multiSurface gs => classesL gs
    | _ => []
  partial def classesL : List G → List String
    | [] => []
    | g :: gs => classes g ++ classesL gs
end

def handle (stream : String) (line : String) : String :=
  let toks := Driver.tokens line
  match stream with
  | "wkb-write" =>
    match toks with
    | _api :: r =>
      match parseCase r with
      | some (c, g) => String.ofList (hexEncode (write c g))
      | none => "bad-case"
    | [] => "bad-case"
  | "wkb-write-seq" =>
    -- one writer, two geometries, then the settings read back: `write` is a function of (config, geometry) only
    match toks with
    | _api :: r =>
      let cfg := r.take 4
      let rest := r.drop 4
      let a := rest.takeWhile (· != ";;")
      let b := (rest.dropWhile (· != ";;")).drop 1
      match parseCase (cfg ++ a), parseCase (cfg ++ b) with
      | some (c, ga), some (_, gb) =>
        let d := cfg[0]?.getD "?"
        let o := if cfg[1]? == some "le" then "1" else "0"
        let f := if cfg[2]? == some "ext" then "1" else "2"
        let sr := cfg[3]?.getD "?"
        String.ofList (hexEncode (write c ga)) ++ " " ++ String.ofList (hexEncode (write c gb)) ++ s!" s={sr} d={d} o={o} f={f}"
      | _, _ => "bad-case"
    | [] => "bad-case"
  | "wkb-read" =>
    match toks with
    | ["B", h] =>
      match parseHexBytes h with
      | some bs => showRes (read arcF bs)
      | none => "bad-case"
    | ["B"] => showRes (read arcF [])
    | ["H", t] => showRes (readHex arcF t.toList)
    | ["H"] => showRes (readHex arcF [])
    | _ => "bad-case"
  | "wkb-roundtrip" =>
    match parseCase toks with
    | some (c, g) => showOut (docSpec c g)
    | none => "bad-case"
  | "wkb-roundtrip-model" =>
    match parseCase toks with
    | some (c, g) =>
      match read arcF (write c g) with
      | .ok g' =>
        let back := showOut g'
        if write c g' != write c g then back ++ " REWRITE-DIFFERS"
        else match read arcF (write { c with order := (match c.order with | .le => .be | .be => .le) } g) with
          | .ok g'' => if showOut g'' == back then back else back ++ " OTHER-ORDER-DIFFERS"
          | .error _ => back ++ " OTHER-ORDER-DIFFERS"
      | .error _ => "err"
    | none => "bad-case"
  | "wkb-classify" =>
    match parseCase toks with
    | some (_, g) =>
      let cs := (classes g.g).eraseDups
      if cs.isEmpty then "none" else Driver.joinWith "," cs
    | none => "bad-case"
  | _ => "unknown-stream"

end Driver.C09

def main (args : List String) : IO UInt32 := do
  match args with
  | [stream] =>
    let stdin ← IO.getStdin
    let stdout ← IO.getStdout
    Driver.loop stdin stdout (Driver.C09.handle stream)
    return 0
  | _ =>
    IO.eprintln "usage: drv_c09 <stream>"
    return 2
