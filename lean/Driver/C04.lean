import Driver.Common
import Driver.GTreeIO
import Driver.Flatten
import GeosModel.Base.F64
import GeosModel.Model.Precision.Round
import GeosModel.Model.Precision.HotPixel
import GeosModel.Model.Precision.Reduce
import GeosModel.Model.Precision.Near
import GeosModel.Model.Precision.Collapse
/-! Driver for C04 (exe `drv_c04`).

* `precise`   : `<newScale> <v>*`                        → `<scale> <makePrecise v>*`  (bits; floating model)
* `hotpixel` (`hotpixel-div`: alternative scaling convention)  : `<sf> <ptx> <pty> <p0x> <p0y> <p1x> <p1y>` → 4 chars: intersects(p0) intersects(p1) intersects(p0,p1) intersects(p1,p0)
* `prec-ops`  : `O <op> <flags> <g> | A | B | <ok|ex> R | valid=<0|1|->` → `ok` / `bad <what> …` / `skip <why>`
* `prec-ops-stat` : same input, answers `ok far=<n> in=<n> verts=<n>` (distribution only)
* `collapse`  : `K <g> | A | B | he=<x><y> | I | U | D | S | D(B,A)` (results as `ok R` / `ex -`; `he` = hasEdgesFor(0) hasEdgesFor(1) of the
                real `EdgeNodingBuilder`) → `ok` / `bad collapse-model …` / `bad collapse-law …` / `bad exception …`
-/
namespace Driver.C04
open GeosModel GeosModel.Precision GeosModel.Relate GeosModel.Kernel Driver.Flatten
open GeosModel.F64 (Val)

def hex64 := Driver.GTreeIO.hex64

/-! ### precise -/
def precise (line : String) : String :=
  match (Driver.tokens line).mapM Driver.parseHex64 with
  | some (s :: vs) =>
    let pm := PM.setScale (F64.decode s)
    Driver.joinWith " " (hex64 (encode pm.scale) :: vs.map fun v => hex64 (pm.makePreciseBits v))
  | _ => "parse-error"

/-! ### hotpixel -/

/-- bring finite values to integers over one common power of two -/
def toInts (vs : List Val) : Option (List Int) := do
  let qs ← vs.mapM vToRat?
  let d := qs.foldl (fun acc q => max acc q.den) 1
  some (qs.map fun q => q.num * ((d / q.den : Nat) : Int))

def b2c (b : Bool) : Char := if b then '1' else '0'

def hotpixel (byDivision : Bool) (line : String) : String :=
  match (Driver.tokens line).mapM Driver.parseHex64 with
  | some [sf, ptx, pty, p0x, p0y, p1x, p1y] =>
    let sf := F64.decode sf
    let d := F64.decode
    let isOne := vFeq sf one
    -- scale(val) = val * scaleFactor (the code as it is); `byDivision`: the alternative convention val / gridSize with
    -- gridSize = snapToInt(1/scaleFactor) for scaleFactor < 1 (what PrecisionModel::makePrecise does), used by the check
    -- only to tell a change of scaling convention from a wrong pixel rule
    let gs := snapToInt (divF one sf) tol1em5
    let scv (v : Val) : Val := if byDivision && vLt sf one then divF v gs else mulF v sf
    let sc (v : UInt64) : Val := scv (d v)
    -- constructor: hpx = pt.x, or scaleRound(pt.x) = util::round(pt.x * scaleFactor) when scaleFactor != 1
    let hpx := if isOne then d ptx else javaRoundF (scv (d ptx))
    let hpy := if isOne then d pty else javaRoundF (scv (d pty))
    let minx := subF hpx halfF; let maxx := addF hpx halfF
    let miny := subF hpy halfF; let maxy := addF hpy halfF
    match toInts [minx, maxx, miny, maxy, sc p0x, sc p0y, sc p1x, sc p1y] with
    | some [a, b, c, e, x0, y0, x1, y1] =>
      let h : Px := ⟨a, b, c, e⟩
      String.ofList [b2c (intersectsPt h x0 y0), b2c (intersectsPt h x1 y1),
                 b2c (intersectsScaled h x0 y0 x1 y1), b2c (intersectsScaled h x1 y1 x0 y0)]
    | _ => "nonfinite"
  | _ => "parse-error"

/-! ### prec-ops -/

def parseOp : String → Option (SetOp × Bool)      -- (set operation, isSetPrecision)
  | "I" => some (.inter, false) | "U" => some (.union, false) | "D" => some (.diff, false)
  | "S" => some (.symdiff, false) | "UU" => some (.first, false) | "SP" => some (.first, true)
  | _ => none

def parseGeomOpt (t : List String) : Option (Option G) :=
  match t with
  | ["-"] => some none
  | _ => match Driver.GTreeIO.parseGeom t with
    | some (g, []) => some (some g.g)
    | _ => none

def showH (x : HPt) : String := s!"{x.x}/{x.y}/{x.w}"

def leafStr (l : Leaf) : String :=
  s!"{l.kind}{if l.first then "f" else "h"}:" ++ Driver.joinWith "," (l.pts.map fun p => hex64 p.1 ++ "_" ++ hex64 p.2)

def firstDiff (a b : List Leaf) : String :=
  match (a.zip b).find? (fun p => p.1 != p.2) with
  | some (x, y) => s!"model={leafStr x} impl={leafStr y}"
  | none => s!"count model={a.length} impl={b.length}"

def precOps (stat : Bool) (line : String) : String :=
  match splitBar (Driver.tokens line) with
  | [hdr, ta, tb, tr, tx] =>
    -- an optional fifth header token `pre=<hex>` (the input already carries a precision model of that grid size) does not change the contract
    match hdr.take 4, parseGeomOpt ta, parseGeomOpt tb with
    | ["O", op, flags, gh], some (some A), some Bo =>
      match parseOp op, flags.toNat?, Driver.parseHex64 gh with
      | some (sop, isSP), some fl, some gbits =>
        match tr with
        | "ex" :: _ => "bad exception"
        | "ok" :: rt =>
          match Driver.GTreeIO.parseGeom rt with
          | some (Rg, []) =>
            let R := Rg.g
            let B := Bo.getD (.collection [])
            let gv := vFabs (F64.decode gbits)
            if !(vIsFin gv) || vIsZero gv then "skip grid-size-not-positive-finite" else
            let pm := PM.ofGridSize gv
            let inOrds := ordsOf A ++ ordsOf B
            let rOrds := ordsOf R
            if !(inOrds.all F64.isFinite) then "skip nonfinite-input" else
            -- resolution hypothesis: |v * scale| < 2^52 for every input ordinate
            let big : Val := .fin false (pow2 52) 0
            if inOrds.any (fun u => !(vLt (vFabs (mulF (F64.decode u) pm.scale)) big)) then "skip resolution" else
            if hasCurve A || hasCurve B then "skip curve" else
            -- (1) every ordinate of the result is a fixed point of makePrecise, bit for bit
            match rOrds.find? (fun u => !(pm.onGrid u)) with
            | some u => s!"bad offgrid {hex64 u} makePrecise={hex64 (pm.makePreciseBits u)}"
            | none =>
            -- GEOSGeom_getPrecision_r of a setPrecision result: 1.0 / scale of the model the result carries
            let precTok := tx.find? (·.startsWith "prec=")
            let precBad : Bool := match precTok with
              | some t => (t.drop 5).toString != hex64 (encode (divF one pm.scale))
              | none => false
            if precBad then s!"bad getPrecision expected={hex64 (encode (divF one pm.scale))} {precTok.getD ""}" else
            let pointw := isSP && fl % 2 == 1
            let keep := isSP && (fl / 2) % 2 == 1 && !pointw
            if pointw then
              -- (2) NO_TOPO: every vertex to its grid point, same leaves, same order, nothing else
              let exp := leavesG (pointwise pm A)
              let got := leavesG R
              if exp != got then "bad pointwise " ++ firstDiff exp got
              else if stat then s!"ok far=0 in=0 verts={rOrds.length / 2} mode=pointwise" else "ok"
            else
            -- (3) default / KEEP_COLLAPSED: non-polygonal leaves are predicted exactly
            let lineBad : Option String :=
              if isSP then
                let exp := reduceLeavesG keep pm A
                let got := (leavesG R).filter (·.kind != 2)
                if exp != got then some ("bad line-reduce " ++ firstDiff exp got) else none
              else none
            match lineBad with
            | some s => s
            | none =>
            let collapsedKept := keep && (leavesG R).any fun l => l.kind == 1 &&
              match l.pts with | p :: r => r.all (· == p) | [] => false
            -- (4) validity as reported by GEOSisValid (not required of KEEP_COLLAPSED output that kept a collapsed line)
            if tx.contains "valid=0" && !collapsedKept then "bad invalid-result" else
            -- exact scaling of A, B, R and g
            match (inOrds ++ rOrds ++ [encode gv]).mapM F64.dyadic with
            | none => "skip nonfinite"
            | some ds =>
              let e0 := F64.minExp ds
              let toI (u : UInt64) : Int := match F64.dyadic u with | some d => F64.scaleTo e0 d | none => 0
              let fA := (flattenG toI ⟨Flat.empty, false⟩ A).f
              let fB := (flattenG toI ⟨Flat.empty, false⟩ B).f
              let fR := (flattenG toI ⟨Flat.empty, false⟩ R).f
              let gI := toI (encode gv)
              if !(lightValid fR) && !collapsedKept then "bad ring-check" else
              -- (5) identical classification farther than 2g from all input boundaries
              let rep := nearCheck sop fA fB fR (4 * gI * gI) 8 (6 * gI + 2)
              match rep.bad, rep.strayed with
              | some (x, e, g), _ => s!"bad far-sample {showH x} unit=2^{e0} expected={e} got={g}"
              | none, some x => s!"bad stray-vertex {showH x} unit=2^{e0}"
              | none, none =>
                if stat then s!"ok far={rep.far} in={rep.inside} verts={rOrds.length / 2} mode={if keep then "keep" else "default"}" else "ok"
          | _ => "parse-error result"
        | _ => "parse-error status"
      | _, _, _ => "parse-error header"
    | _, _, _ => "parse-error geometry"
  | _ => "bad-line"

/-! ### collapse -/

def nzBits (u : UInt64) : UInt64 := if u == 0x8000000000000000 then 0 else u

/-- the images of all vertices of a geometry under the floating `makePrecise` -/
def roundedVerts (pm : PM) (g : G) : List (UInt64 × UInt64) :=
  (leavesG g).flatMap fun l => l.pts.map fun p => (nzBits (pm.makePreciseBits p.1), nzBits (pm.makePreciseBits p.2))

def polyOnly (g : G) : Bool := let ls := leavesG g; !ls.isEmpty && ls.all (·.kind == 2)
def edgeBearing (g : G) : Bool := let ls := leavesG g; !ls.isEmpty && ls.all (·.kind != 0)

def parseRes (t : List String) : Option (Option G) :=
  match t with
  | "ex" :: _ => some none
  | "ok" :: rt => match Driver.GTreeIO.parseGeom rt with
    | some (g, []) => some (some g.g)
    | _ => none
  | _ => none

def collapseLine (line : String) : String :=
  match splitBar (Driver.tokens line) with
  | [hdr, ta, tb, he, tI, tU, tD, tS, tR] =>
    match hdr, parseGeomOpt ta, parseGeomOpt tb, he with
    | ["K", gh], some (some A), some (some B), [heTok] =>
      match Driver.parseHex64 gh, parseRes tI, parseRes tU, parseRes tD, parseRes tS, parseRes tR with
      | some gbits, some rI, some rU, some rD, some rS, some rR =>
        let gv := vFabs (F64.decode gbits)
        if !(vIsFin gv) || vIsZero gv then "skip grid-size-not-positive-finite" else
        let pm := PM.ofGridSize gv
        match rI, rU, rD, rS, rR with
        | some rI, some rU, some rD, some rS, some rR =>
          let flags := (heTok.drop 3).toString.toList
          let h0 := flags[0]? ; let h1 := flags[1]?
          -- the model of "no edge survives": every vertex rounds to one grid point (Collapse.allSame; chain_collapses_iff)
          let same0 := Collapse.allSame id (roundedVerts pm A)
          let same1 := Collapse.allSame id (roundedVerts pm B)
          let dom0 := polyOnly A && edgeBearing B
          let dom1 := polyOnly B && edgeBearing A
          let empty (r : G) : Bool := (leavesG r).isEmpty
          -- results are compared up to the sign of zero ordinates
          let leavesG (r : G) : List Leaf := (Precision.leavesG r).map fun l => { l with pts := l.pts.map fun p => (nzBits p.1, nzBits p.2) }
          if dom0 && same0 && h0 != some '0' then "bad collapse-model operand=0 all-vertices-round-to-one-point-but-edges-survive"
          else if dom1 && same1 && h1 != some '0' then "bad collapse-model operand=1 all-vertices-round-to-one-point-but-edges-survive"
          else if dom1 && h1 == some '0' && !(empty rI) then "bad collapse-law second-operand-has-no-edges intersection-not-empty"
          else if dom1 && h1 == some '0' && !(empty rR) then "bad collapse-law second-operand-has-no-edges difference(B,A)-not-empty"
          else if dom1 && h1 == some '0' && leavesG rU != leavesG rD then "bad collapse-law second-operand-has-no-edges union!=difference " ++ firstDiff (leavesG rU) (leavesG rD)
          else if dom1 && h1 == some '0' && leavesG rU != leavesG rS then "bad collapse-law second-operand-has-no-edges union!=symdifference " ++ firstDiff (leavesG rU) (leavesG rS)
          else if dom0 && h0 == some '0' && !(empty rI) then "bad collapse-law first-operand-has-no-edges intersection-not-empty"
          else if dom0 && h0 == some '0' && !(empty rD) then "bad collapse-law first-operand-has-no-edges difference-not-empty"
          else if dom0 && h0 == some '0' && leavesG rU != leavesG rS then "bad collapse-law first-operand-has-no-edges union!=symdifference " ++ firstDiff (leavesG rU) (leavesG rS)
          else "ok"
        | _, _, _, _, _ =>
          let which := Driver.joinWith "," ((["I", "U", "D", "S", "D(B,A)"].zip [rI, rU, rD, rS, rR]).filterMap fun p => if p.2.isNone then some p.1 else none)
          s!"bad exception {which}"
      | _, _, _, _, _, _ => "parse-error"
    | _, _, _, _ => "parse-error header"
  | _ => "bad-line"

end Driver.C04

def main (args : List String) : IO UInt32 := do
  match args with
  | ["precise"] => Driver.loop (← IO.getStdin) (← IO.getStdout) Driver.C04.precise; return 0
  | ["hotpixel"] => Driver.loop (← IO.getStdin) (← IO.getStdout) (Driver.C04.hotpixel false); return 0
  | ["hotpixel-div"] => Driver.loop (← IO.getStdin) (← IO.getStdout) (Driver.C04.hotpixel true); return 0
  | ["prec-ops"] => Driver.loop (← IO.getStdin) (← IO.getStdout) (Driver.C04.precOps false); return 0
  | ["prec-ops-stat"] => Driver.loop (← IO.getStdin) (← IO.getStdout) (Driver.C04.precOps true); return 0
  | ["collapse"] => Driver.loop (← IO.getStdin) (← IO.getStdout) Driver.C04.collapseLine; return 0
  | _ => IO.eprintln "usage: drv_c04 precise|hotpixel|prec-ops|prec-ops-stat"; return 2
