import Driver.Common
import GeosModel.Base.F64
import GeosModel.Base.Kernel
import GeosModel.Model.LinRef.Map
import GeosModel.Model.LinRef.Project
import GeosModel.Model.Lines.Merge
import GeosModel.Model.Lines.Noding
import GeosModel.Model.Lines.HoleAssign
/-! Driver for C19 (`drv_c19 <stream>`): streams `linref`, `merge`, `node`, `polygonize`, `sharedpaths`.

`linref`  — the Float instance of the linear-referencing model answers with result *bits* (compared bit for bit with GEOS).
others    — the case line carries input and the output of GEOS; the driver evaluates the exact contract checkers of
            Model/Lines over integers (all doubles of the case scaled by one common power of two) and answers
            `ok` or `violated:<clause>`.  -/
namespace Driver.C19
open GeosModel GeosModel.Kernel GeosModel.Lines

/-! ### parsing -/

abbrev RawPt := UInt64 × UInt64

def parsePts : Nat → List String → Option (List RawPt × List String)
  | 0, r => some ([], r)
  | n + 1, a :: b :: r => do
    let x ← Driver.parseHex64 a
    let y ← Driver.parseHex64 b
    let (ps, r) ← parsePts n r
    some ((x, y) :: ps, r)
  | _, _ => none

def parseLines : Nat → List String → Option (List (List RawPt) × List String)
  | 0, r => some ([], r)
  | k + 1, n :: r => do
    let n ← n.toNat?
    let (ps, r) ← parsePts n r
    let (ls, r) ← parseLines k r
    some (ps :: ls, r)
  | _, _ => none

/-- `k line*k` -/
def parseLineSet : List String → Option (List (List RawPt) × List String)
  | k :: r => do parseLines (← k.toNat?) r
  | [] => none

def expectBar : List String → Option (List String)
  | "|" :: r => some r
  | _ => none

/-- common scaling of all doubles of a case: the exponent and a converter -/
def scaler (all : List RawPt) : Option (RawPt → Pt) := do
  let ds ← (all.flatMap fun p => [p.1, p.2]).mapM F64.dyadic
  let e0 := F64.minExp ds
  some fun p =>
    match F64.dyadic p.1, F64.dyadic p.2 with
    | some dx, some dy => ⟨F64.scaleTo e0 dx, F64.scaleTo e0 dy⟩
    | _, _ => ⟨0, 0⟩

/-- exponent of the leading bit of a non-zero dyadic m·2^e -/
def topExp (d : Int × Int) : Int := d.2 + (Nat.log2 d.1.natAbs : Nat)

/-- scaling for the *tolerance-based* oracles only: ordinates more than 100 binary orders of magnitude below the largest one
(e.g. denormals next to ordinary coordinates) are flushed to zero — a perturbation far below the 1e-9 relative tolerance —
so that the integers stay below 2^153 and every Float conversion of a squared distance or determinant stays finite.
Returns the exponent of the integer unit and the converter. -/
def scalerFlush (all : List RawPt) : Option (Int × (RawPt → Pt)) := do
  let ds ← (all.flatMap fun p => [p.1, p.2]).mapM F64.dyadic
  let nz := ds.filter fun d => d.1 != 0
  let emax := nz.foldl (fun m d => max m (topExp d)) (match nz with | d :: _ => topExp d | [] => 0)
  let keep := fun (d : Int × Int) => d.1 != 0 && decide (emax - 100 ≤ topExp d)
  let e0 := F64.minExp (ds.filter keep)
  let conv := fun (u : UInt64) => match F64.dyadic u with
    | some d => if keep d then F64.scaleTo e0 d else 0
    | none => 0
  some (e0, fun p => ⟨conv p.1, conv p.2⟩)

def maxAbs (ps : List Pt) : Int := ps.foldl (fun m p => max m (max p.x.natAbs p.y.natAbs)) 0

/-! ### linref (Float instance) -/

def fOf (u : UInt64) : Float := Float.ofBits u
def hexF (f : Float) : String :=
  let s := Nat.toDigits 16 f.toBits.toNat
  String.ofList (List.replicate (16 - s.length) '0' ++ s)

def toGeo (ls : List (List RawPt)) : LinRef.Geo Float := ls.map fun l => l.map fun p => ⟨fOf p.1, fOf p.2⟩

def showP (p : Option (LinRef.P2 Float)) : String :=
  match p with
  | some q => hexF q.x ++ " " ++ hexF q.y
  | none => "null"

def linref (line : String) : String :=
  match Driver.tokens line with
  | op :: r =>
    match parseLineSet r with
    | some (ls, rest) =>
      let g := toGeo ls
      let sq := Float.sqrt
      match op, rest with
      | "P", [x, y] =>
        match Driver.parseHex64 x, Driver.parseHex64 y with
        | some x, some y =>
          let d := LinRef.project sq g ⟨fOf x, fOf y⟩
          let len := LinRef.totalLen (LinRef.lineOf sq g)
          hexF d ++ " " ++ hexF (LinRef.projectNormalized d len)
        | _, _ => "bad-line"
      | "I", [d] =>
        match Driver.parseHex64 d with
        | some d => showP (LinRef.interpolate sq g (fOf d))
        | none => "bad-line"
      | "N", [d] =>
        match Driver.parseHex64 d with
        | some d => showP (LinRef.interpolate sq g (fOf d * LinRef.totalLen (LinRef.lineOf sq g)))
        | none => "bad-line"
      | "X", [a, b] =>
        -- C++ API `LengthIndexedLine::extractLine(a, b)`: indices from the whole documented domain
        match Driver.parseHex64 a, Driver.parseHex64 b with
        | some a, some b =>
          let ls := (LinRef.extractLine (LinRef.lineOf sq g) (fOf a) (fOf b)).map fun ln => ln.map (LinRef.coordAt g)
          Driver.joinWith " " (toString ls.length :: ls.flatMap fun l => toString l.length :: l.map showP)
        | _, _ => "bad-line"
      | "G", [d] =>
        -- `LengthLocationMap::getLocation(d)` and `getLength` of that location
        match Driver.parseHex64 d with
        | some d =>
          let l := LinRef.lineOf sq g
          let a := LinRef.getLocation l (fOf d)
          toString a.comp ++ " " ++ toString a.seg ++ " " ++ hexF a.frac ++ " " ++ hexF (LinRef.getLength l a)
        | none => "bad-line"
      | "F", [x, y] =>
        -- `LineSegment::segmentFraction` of the first segment of the first line
        match Driver.parseHex64 x, Driver.parseHex64 y, g with
        | some x, some y, (p0 :: p1 :: _) :: _ => hexF (LinRef.segmentFraction p0 p1 ⟨fOf x, fOf y⟩)
        | _, _, _ => "bad-line"
      | "C", [a] =>
        -- `LengthIndexedLine::clampIndex(a)` and `isValidIndex(a)`
        match Driver.parseHex64 a with
        | some a =>
          let l := LinRef.lineOf sq g
          let len := LinRef.totalLen l
          hexF (LinRef.clampIndex l (fOf a)) ++ " " ++ (if fOf a ≥ 0.0 && fOf a ≤ len then "1" else "0")
        | none => "bad-line"
      | "S", [a, b] =>
        match Driver.parseHex64 a, Driver.parseHex64 b with
        | some a, some b =>
          match LinRef.lineSubstring sq g (fOf a) (fOf b) with
          | none => "err"
          | some ls =>
            Driver.joinWith " " (toString ls.length :: ls.flatMap fun l => toString l.length :: l.map showP)
        | _, _ => "bad-line"
      | _, _ => "bad-line"
    | none => "bad-line"
  | [] => "bad-line"

/-! ### round trip oracle: the point interpolated at the projected distance is a nearest point (exact distances) -/

/-- exact squared distance point–segment as a rational (num, den), den > 0 -/
def sqDistSeg (p a b : Pt) : Int × Int :=
  if a == b then (sqDist p a, 1)
  else
    let d := dot a b p
    let l2 := sqDist a b
    if d ≤ 0 then (sqDist p a, 1) else if l2 ≤ d then (sqDist p b, 1)
    else let dt := det a b p; (dt * dt, l2)

def ratLe (a b : Int × Int) : Bool := a.1 * b.2 ≤ b.1 * a.2

def ratToFloat (a : Int × Int) : Float := Float.ofInt a.1 / Float.ofInt a.2

/-- `RT lines | px py | qx qy` : q = GEOSInterpolate(GEOSProject(p)); answer ok iff dist(p,q) ≤ mindist(p, line) + 1e-9·M -/
def roundtrip (line : String) : String :=
  match Driver.tokens line with
  | "RT" :: r =>
    match parseLineSet r with
    | some (ls, rest) =>
      match expectBar rest with
      | some [px, py, "|", qx, qy] =>
        match Driver.parseHex64 px, Driver.parseHex64 py, Driver.parseHex64 qx, Driver.parseHex64 qy with
        | some px, some py, some qx, some qy =>
          let all := (px, py) :: (qx, qy) :: ls.flatten
          match scalerFlush all with
          | some (_, sc) =>
            let p := sc (px, py); let q := sc (qx, qy)
            let segs := (ls.map fun l => l.map sc).flatMap segsOf
            match segs with
            | [] => "no-segments"
            | s0 :: _ =>
              let best := segs.foldl (fun m s => let d := sqDistSeg p s.a s.b; if ratLe d m then d else m) (sqDistSeg p s0.a s0.b)
              let m := Float.ofInt (maxAbs (all.map sc))
              let dq := Float.sqrt (Float.ofInt (sqDist p q))
              let db := Float.sqrt (ratToFloat best)
              -- q must also lie on the line (within the same tolerance)
              let onLine := segs.any fun s => Float.sqrt (ratToFloat (sqDistSeg q s.a s.b)) ≤ 1e-9 * m
              if !onLine then "violated:interpolated-point-off-line"
              else if dq ≤ db + 1e-9 * m then "ok" else "violated:not-nearest"
          | none => "violated:non-finite-result"
        | _, _, _, _ => "bad-line"
      | _ => "bad-line"
    | none => "bad-line"
  | _ => "bad-line"

/-- arc-length positions (Float) at which point `q` lies on the line (within tol): one per segment that contains it -/
def arcPositions (segs : List Seg) (q : Pt) (tol : Float) : List Float :=
  let rec go : List Seg → Float → List Float → List Float
    | [], _, acc => acc
    | s :: r, pre, acc =>
      let len := Float.sqrt (Float.ofInt (sqDist s.a s.b))
      let acc := if Float.sqrt (ratToFloat (sqDistSeg q s.a s.b)) ≤ tol then (pre + Float.sqrt (Float.ofInt (sqDist s.a q))) :: acc else acc
      go r (pre + len) acc
  go segs 0 []

def polyLen (ls : List (List Pt)) : Float :=
  (ls.flatMap segsOf).foldl (fun t s => t + Float.sqrt (Float.ofInt (sqDist s.a s.b))) 0

/-- property-level oracles for interpolate / substring (support for the search after a `linref` disagreement):
  `IL lines d | qx qy`        q = GEOSInterpolate(d): q lies on the line at arc length clamp(d) (negative from the end)
  `SL lines f0 f1 | lines`    GEOSLineSubstring: every vertex on the line, length = |f1 − f0| · length
tolerance 1e-9 · (coordinate magnitude + length), all in integer units of the common scale -/
def oracle (line : String) : String :=
  match Driver.tokens line with
  | "RT" :: _ => roundtrip line
  | "IL" :: r =>
    match parseLineSet r with
    | some (ls, [d, "|", qx, qy]) =>
      match Driver.parseHex64 d, Driver.parseHex64 qx, Driver.parseHex64 qy with
      | some d, some qx, some qy =>
        let all := (qx, qy) :: ls.flatten
        match (all.flatMap fun p => [p.1, p.2]).mapM F64.dyadic with
        | none => "violated:non-finite-result"
        | some _ =>
          match scalerFlush all with
          | none => "non-finite"
          | some (e0, sc) =>
            let unit := Float.scaleB 1.0 e0             -- value of one integer unit
            let segs := (ls.map fun l => l.map sc).flatMap segsOf
            let L := polyLen (ls.map fun l => l.map sc)
            let m := Float.ofInt (maxAbs (all.map sc))
            let tol := 1e-9 * (m + L)
            let dU := fOf d / unit
            let want := let f := if dU < 0 then L + dU else dU; if f < 0 then 0 else if f > L then L else f
            let pos := arcPositions segs (sc (qx, qy)) tol
            if pos.isEmpty then "violated:interpolated-point-off-line"
            else if pos.any (fun a => Float.abs (a - want) ≤ tol) then "ok" else "violated:interpolated-point-at-wrong-distance"
      | _, _, _ => "bad-line"
    | _ => "bad-line"
  | "XL" :: r =>
    -- `LengthIndexedLine::extractLine(a, b)`: a negative index is measured from the end, then both are clamped to
    -- [0, length]; the result runs along the line from the clamped start to the clamped end
    match parseLineSet r with
    | some (ls, a :: b :: "|" :: st :: rest) =>
      match Driver.parseHex64 a, Driver.parseHex64 b, parseLineSet rest with
      | some a, some b, some (out, []) =>
        if st != "ok" then "violated:extract-line-threw" else
        match scalerFlush (ls.flatten ++ out.flatten) with
        | none => "violated:non-finite-result"
        | some (e0, sc) =>
          let unit := Float.scaleB 1.0 e0
          let inp := ls.map fun l => l.map sc
          let o := out.map fun l => l.map sc
          let segs := inp.flatMap segsOf
          let L := polyLen inp
          let m := Float.ofInt (maxAbs ((ls.flatten ++ out.flatten).map sc))
          let tol := 1e-9 * (m + L)
          let clamp := fun (d : Float) =>
            let dU := d / unit
            let f := if dU < 0 then L + dU else dU
            if f < 0 then 0 else if f > L then L else f
          let wa0 := clamp (fOf a)
          let wb0 := clamp (fOf b)
          -- `end < start`: the lines are computed from end to start and each one is reversed (their order is kept)
          let rev := wb0 < wa0
          let wa := if rev then wb0 else wa0
          let wb := if rev then wa0 else wb0
          let o := if rev then o.map List.reverse else o
          if !(o.flatten.all fun q => !(arcPositions segs q tol).isEmpty) then "violated:substring-vertex-off-line"
          else if !(Float.abs (polyLen o - Float.abs (wb - wa)) ≤ tol) then "violated:substring-length"
          else
            match o.head?.bind (·.head?), o.getLast?.bind (·.getLast?) with
            | some p0, some p1 =>
              if !((arcPositions segs p0 tol).any fun x => Float.abs (x - wa) ≤ tol) then "violated:substring-start-not-at-clamped-index"
              else if !((arcPositions segs p1 tol).any fun x => Float.abs (x - wb) ≤ tol) then "violated:substring-end-not-at-clamped-index"
              else "ok"
            | _, _ => if Float.abs (wb - wa) ≤ tol then "ok" else "violated:substring-empty"   -- a zero-length request may yield no line
      | _, _, _ => "bad-line"
    | _ => "bad-line"
  | "CL" :: r =>
    -- `LengthIndexedLine::clampIndex(a)`: negative = from the end; the result lies in [0, length]
    match parseLineSet r with
    | some (ls, [a, "|", v]) =>
      match Driver.parseHex64 a, Driver.parseHex64 v with
      | some a, some v =>
        match scalerFlush ls.flatten with
        | none => "non-finite"
        | some (e0, sc) =>
          let unit := Float.scaleB 1.0 e0
          let L := polyLen (ls.map fun l => l.map sc)
          let m := Float.ofInt (maxAbs (ls.flatten.map sc))
          let tol := 1e-9 * (m + L)
          let dU := fOf a / unit
          let f := if dU < 0 then L + dU else dU
          let want := if f < 0 then 0 else if f > L then L else f
          if Float.abs (fOf v / unit - want) ≤ tol then "ok" else "violated:clamp-index"
      | _, _ => "bad-line"
    | _ => "bad-line"
  | "SL" :: r =>
    match parseLineSet r with
    | some (ls, f0 :: f1 :: "|" :: rest) =>
      match Driver.parseHex64 f0, Driver.parseHex64 f1, parseLineSet rest with
      | some f0, some f1, some (out, []) =>
        match scalerFlush (ls.flatten ++ out.flatten) with
        | none => "violated:non-finite-result"
        | some (_, sc) =>
          let inp := ls.map fun l => l.map sc
          let o := out.map fun l => l.map sc
          let segs := inp.flatMap segsOf
          let L := polyLen inp
          let m := Float.ofInt (maxAbs ((ls.flatten ++ out.flatten).map sc))
          let tol := 1e-9 * (m + L)
          if !(o.flatten.all fun q => !(arcPositions segs q tol).isEmpty) then "violated:substring-vertex-off-line"
          else if Float.abs (polyLen o - Float.abs (fOf f1 - fOf f0) * L) ≤ tol then "ok" else "violated:substring-length"
      | _, _, _ => "bad-line"
    | _ => "bad-line"
  | _ => "bad-line"

/-! ### merge -/

def mkLines (sc : RawPt → Pt) (ls : List (List RawPt)) : List InLine :=
  (ls.zipIdx.map fun (l, i) => (⟨i, dedup (l.map sc)⟩ : InLine))

def nodeKey (m : Int) (p : Pt) : Int := (p.x + m) * (2 * m + 1) + (p.y + m)

def canonChains (cs : List (List Nat)) : List (List Nat) :=
  (cs.map fun c => c.mergeSort (· ≤ ·)).mergeSort (fun a b => decide (a ≤ b))

def mergeVerdictClauses (directed : Bool) (es : List Edge) (chains : List Chain) : String :=
  if !(chains.flatten.map (·.e)).isPerm es then "edge-multiset-differs"
  else if !chains.all (fun c => !c.isEmpty && walkOK es c) then "chain-not-through-degree-2-nodes"
  else if directed && !chains.all (fun c => c.all (·.fwd)) then "directed-line-reversed"
  else if !chains.all (chainOK directed es) then "line-stops-at-degree-2-node"
  else if !allPairs (pairOK directed es) chains then "two-lines-meet-at-degree-2-node"
  else "ok"

/-- `M directed lines | lines` -/
def merge (line : String) : String :=
  match Driver.tokens line with
  | "M" :: d :: r =>
    match parseLineSet r with
    | some (inp, rest) =>
      match expectBar rest >>= parseLineSet with
      | some (out, []) =>
        match scaler (inp.flatten ++ out.flatten) with
        | some sc =>
          let directed := d == "1"
          let lines := (mkLines sc inp).filter fun ln => 2 ≤ ln.pts.length
          let m := maxAbs ((inp.flatten ++ out.flatten).map sc) + 1
          let es := lines.map (lineEdge (nodeKey m))
          let outs := out.map fun o => o.map sc
          let dec0 := if directed then decomposeAll false lines outs [] else none
          let dec := match dec0 with | some d => some d | none => decomposeAll true lines outs []
          match dec with
          | none => "violated:output-not-made-of-input-lines"
          | some dec =>
            let chains : List Chain := dec.map fun d => d.filterMap fun (id, fwd) =>
              (es.find? (·.id == id)).map fun e => (⟨e, fwd⟩ : DEdge)
            let v := mergeVerdictClauses directed es chains
            if v != "ok" then "violated:" ++ v
            else if mergeCheck directed es chains != true then "violated:mergeCheck"
            else
              let model := mergeModel directed es
              if !mergeCheck directed es model then "MODEL-FAILS-CHECK"
              else if canonChains (model.map fun c => c.map (·.e.id)) != canonChains (chains.map fun c => c.map (·.e.id))
              then "violated:chains-differ-from-model"
              else "ok"
        | none => "non-finite"
      | _ => "bad-line"
    | none => "bad-line"
  | _ => "bad-line"

/-! ### node -/

/-- `N mode lines | status lines`   mode x = exact, t = 1e-9 · magnitude -/
def node (line : String) : String :=
  match Driver.tokens line with
  | "N" :: mode :: r =>
    match parseLineSet r with
    | some (inp, rest) =>
      match expectBar rest with
      | some ("threw" :: _) => "threw"
      | some ("ok" :: rest) =>
        match parseLineSet rest with
        | some (out, []) =>
          match scaler (inp.flatten ++ out.flatten) with
          | some sc =>
            let m := maxAbs ((inp.flatten ++ out.flatten).map sc)
            let tol : Tol := if mode == "x" then ⟨0, 1⟩ else ⟨m * m, 1000000000000000000⟩
            let v := nodeVerdict tol (inp.map fun l => l.map sc) (out.map fun l => l.map sc)
            if v != "ok" then "violated:" ++ v
            else if !nodeCheck tol (inp.map fun l => l.map sc) (out.map fun l => l.map sc) then "violated:nodeCheck"
            else "ok"
          | none => "non-finite"
        | _ => "bad-line"
      | _ => "bad-line"
    | none => "bad-line"
  | _ => "bad-line"

/-! ### polygonize -/

def parsePolys : Nat → List String → Option (List (List (List RawPt)) × List String)
  | 0, r => some ([], r)
  | k + 1, r => do
    let (rings, r) ← parseLineSet r
    let (ps, r) ← parsePolys k r
    some (rings :: ps, r)

abbrev RawLines := List (List RawPt)

def polygonizeCore (mode gv : String) (inp : RawLines) (polys : List RawLines) (dang cuts inv : RawLines) : String :=
  let all : List RawPt := inp.flatten ++ polys.flatten.flatten ++ dang.flatten ++ cuts.flatten ++ inv.flatten
  match scaler all with
  | none => "non-finite"
  | some sc =>
    let cv : RawLines → List (List Pt) := fun ls => ls.map fun l => l.map sc
    let lines : List InLine := mkLines sc inp
    let inSegs : List Seg := lines.flatMap fun ln => segsOf ln.pts
    if !nodedOK inSegs then "input-not-noded"
    else
      let m := maxAbs (all.map sc) + 1
      let o : PolyOut := ⟨polys.map cv, cv dang, cv cuts, cv inv⟩
      let v := polygonizeVerdict (mode == "f") (nodeKey m) lines o
      if v != "ok" then "violated:" ++ v
      else if !polyCore (mode == "f") lines o then "violated:polyCore"
      else if gv != "1" then "violated:GEOSisValid-false"
      else "ok"

def parsePolygonize (r : List String) : Option (RawLines × List RawLines × RawLines × RawLines × RawLines) := do
  let (inp, r) ← parseLineSet r
  let r ← expectBar r
  let (np, r) ← match r with | k :: r => k.toNat?.map (·, r) | [] => none
  let (polys, r) ← parsePolys np r
  let r ← expectBar r
  let (dang, r) ← parseLineSet r
  let r ← expectBar r
  let (cuts, r) ← parseLineSet r
  let r ← expectBar r
  let (inv, r) ← parseLineSet r
  if r.isEmpty then some (inp, polys, dang, cuts, inv) else none

/-- `Y mode geosValid lines | npoly (nrings ring*)* | dangles | cuts | invalid` -/
def polygonize (line : String) : String :=
  match Driver.tokens line with
  | "Y" :: mode :: gv :: r =>
    match parsePolygonize r with
    | some (inp, polys, dang, cuts, inv) => polygonizeCore mode gv inp polys dang cuts inv
    | none => "bad-line"
  | _ => "bad-line"

/-! ### shared paths -/

def sharedRun (g1 g2 same opp : RawLines) : String :=
  let all : List RawPt := g1.flatten ++ g2.flatten ++ same.flatten ++ opp.flatten
  match scaler all with
  | none => "non-finite"
  | some sc =>
    let f : RawLines → List (List Pt) := fun ls => ls.map fun l => l.map sc
    let v := sharedVerdict (f g1) (f g2) (f same) (f opp)
    if v != "ok" then "violated:" ++ v
    else if !Lines.sharedCore (f g1) (f g2) (f same) (f opp) then "violated:sharedCore"
    else "ok"

def parseShared (r : List String) : Option (RawLines × RawLines × Option (RawLines × RawLines)) := do
  let (g1, r) ← parseLineSet r
  let r ← expectBar r
  let (g2, r) ← parseLineSet r
  let r ← expectBar r
  match r with
  | "threw" :: _ => some (g1, g2, none)
  | "ok" :: r =>
    let (same, r) ← parseLineSet r
    let r ← expectBar r
    let (opp, r) ← parseLineSet r
    if r.isEmpty then some (g1, g2, some (same, opp)) else none
  | _ => none

/-- `H lines | lines | status same | opp` -/
def sharedpaths (line : String) : String :=
  match Driver.tokens line with
  | "H" :: r =>
    match parseShared r with
    | some (_, _, none) => "threw"
    | some (g1, g2, some (same, opp)) => sharedRun g1 g2 same opp
    | none => "bad-line"
  | _ => "bad-line"


/-! ### hole assignment (`EdgeRing::findEdgeRingContaining`) -/

def parseHoleAssign (r : List String) : Option (RawLines × RawLines × List RawLines) := do
  let (inp, r) ← parseLineSet r
  let r ← expectBar r
  let (shells, r) ← parseLineSet r
  let r ← expectBar r
  let (nh, r) ← match r with | k :: r => k.toNat?.map (·, r) | [] => none
  let (holes, r) ← parsePolys nh r
  if r.isEmpty then some (inp, shells, holes) else none

/-- `A arrangement | shells | nholes (variants)*nholes` → the model's shell index (or -1) for every hole ring variant -/
def holeassign (line : String) : String :=
  match Driver.tokens line with
  | "A" :: r =>
    match parseHoleAssign r with
    | some (inp, shells, holes) =>
      match scaler (inp.flatten ++ shells.flatten ++ holes.flatten.flatten) with
      | none => "non-finite"
      | some sc =>
        let sh : List (List Pt) := shells.map fun l => l.map sc
        let ans := holes.flatten.map fun h => toString (GeosModel.Lines.HoleAssign.findIndex (h.map sc) sh)
        if ans.isEmpty then "none" else Driver.joinWith " " ans
    | none => "bad-line"
  | _ => "bad-line"

end Driver.C19

def handlers : List (String × (String → String)) :=
  [ ("linref", Driver.C19.linref),
    ("oracle", Driver.C19.oracle),
    ("oracle_multi", Driver.C19.oracle),
    ("merge", Driver.C19.merge),
    ("node", Driver.C19.node),
    ("node_fp", Driver.C19.node),
    ("polygonize", Driver.C19.polygonize),
    ("sharedpaths", Driver.C19.sharedpaths),
    ("holeassign", Driver.C19.holeassign),
    -- object-reuse self-consistency: the models are pure functions of their input, so a repeated / incremental query agrees
    ("reuse", fun line => if line.startsWith "RU " then "consistent" else "bad-line") ]

def main (args : List String) : IO UInt32 := do
  match args with
  | [stream] =>
    match handlers.lookup stream with
    | some f =>
      Driver.loop (← IO.getStdin) (← IO.getStdout) f
      return 0
    | none => IO.eprintln s!"unknown stream {stream}"; return 2
  | _ => IO.eprintln "usage: drv_c19 <stream>"; return 2
