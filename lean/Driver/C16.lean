import Driver.Common
import Driver.GTreeIO
import GeosModel.Base.F64
import GeosModel.Base.Kernel
import GeosModel.Model.Tri.Check
import GeosModel.Model.Tri.Predicates
/-! Driver for C16 (`drv_c16 <stream>`): reads case lines carrying the input bits and the implementation's
output bits, runs the exact certificate checkers of `Model/Tri/Check.lean`, and answers `ok` or
`FAIL <clause> <offender>`.  The verdict is `isTriangulationOf`/`isDelaunay`/`isCDTOf`/… themselves; the
diagnosis below only names the first violated clause for the report. -/
namespace Driver.C16
open GeosModel GeosModel.Kernel GeosModel.Tri Driver.GTreeIO

abbrev Bits2 := UInt64 × UInt64

def seqBits (s : CSeq) : List Bits2 := s.pts.map (fun c => (c.x, c.y))

/-- all points of a MultiPoint / Point / LineString input, in input order -/
partial def inputPts : G → List Bits2
  | .point s => seqBits s
  | .lineString s => seqBits s
  | .linearRing s => seqBits s
  | .multiPoint gs => gs.flatMap inputPts
  | .multiLineString gs => gs.flatMap inputPts
  | .collection gs => gs.flatMap inputPts
  | _ => []

/-- bring groups of double points (and extra scalars) to one integer scale -/
def scaleGroups (extra : List UInt64) (groups : List (List Bits2)) : Option (Int × List Int × List (List Pt)) := do
  let flat := extra ++ groups.flatMap (fun g => g.flatMap (fun p => [p.1, p.2]))
  let (e0, ints) ← F64.scaleAll flat
  -- strip the common power of two (doubles carry 53-bit mantissas, so `scaleAll`'s unit is far below the grid unit)
  let tz (n : Int) : Nat := if n == 0 then 4096 else
    let m := n.natAbs
    (List.range 1200).foldl (fun k i => if k == i && m % (2 ^ (i + 1)) == 0 then i + 1 else k) 0
  let k := ints.foldl (fun k n => min k (tz n)) 4096
  let k := if k == 4096 then 0 else k
  let ints := ints.map (fun n => n / (2 : Int) ^ k)
  let e0 := e0 + k
  let ex := ints.take extra.length
  let rest := ints.drop extra.length
  let rec pts : Nat → List Int → List Pt × List Int
    | 0, r => ([], r)
    | n + 1, x :: y :: r => let (ps, r') := pts n r; (⟨x, y⟩ :: ps, r')
    | _ + 1, r => ([], r)
  let rec go : List (List Bits2) → List Int → List (List Pt)
    | [], _ => []
    | g :: gs, r => let (ps, r') := pts g.length r; ps :: go gs r'
  some (e0, ex, go groups rest)

def showPt (p : Pt) : String := s!"({p.x},{p.y})"
def showTri (t : Tri) : String := s!"{showPt t.a}{showPt t.b}{showPt t.c}"
def showRing (r : List Pt) : String := String.join (r.map showPt)

/-- `T <geom>` / `T ERR` style section: returns the parsed output (none = ERR) and the rest -/
def parseOut (tag : String) : List String → Option (Option G × List String)
  | t :: "ERR" :: r => if t == tag then some (none, r) else none
  | t :: r => if t == tag then (parseGeom r).map (fun (g, r') => (some g.g, r')) else none
  | [] => none

/-- triangles of a GeometryCollection of Polygons with 4-point shells and no holes -/
def trisOf : G → Option (List (List Bits2))
  | .collection gs => gs.mapM (fun g => match g with
      | .polygon sh [] => if sh.pts.length == 4 then some (seqBits sh) else none
      | _ => none)
  | _ => none

def edgesOfML : G → Option (List (List Bits2))
  | .multiLineString gs => gs.mapM (fun g => match g with
      | .lineString s => if s.pts.length == 2 then some (seqBits s) else none
      | _ => none)
  | _ => none

def mkTri : List Pt → Option Tri
  | [a, b, c, d] => if a = d then some ⟨a, b, c⟩ else none
  | _ => none

/-! ### Delaunay -/

def firstBad {α : Type} (l : List α) (p : α → Bool) : Option α := l.find? (fun x => !p x)

def diagnoseTiles (V : List Pt) (ts : List Tri) (B : List Edge) (A2 : Int) : String :=
  let T := elemEdges V (triEdges ts)
  let BE := elemEdges V B
  if !noDupE T then
    match T.find? (fun e => cntE e T > 1) with
    | some e => s!"edge-used-twice edge={showPt e.1}{showPt e.2}"
    | none => "edge-used-twice"
  else if !chainEq T BE then
    let L := T ++ BE.map swap
    match cancel L.length L with
    | e :: _ => s!"edge-unpaired edge={showPt e.1}{showPt e.2} in-tris={memE e T}"
    | [] => "edge-unpaired"
  else if sumInt (ts.map Tri.det) ≠ A2 then s!"area-mismatch tris={sumInt (ts.map Tri.det)} region={A2}"
  else
    let rec pair : List Tri → String
      | [] => "overlap"
      | t :: r => match r.find? (fun u => !interiorDisjoint t u) with
        | some u => s!"overlap tri={showTri t} tri2={showTri u}"
        | none => pair r
    pair ts

def diagnoseTriangulation (sites : List Pt) (tris : List Tri) : String :=
  let ts := tris.map Tri.ccw
  let h := hull sites
  match firstBad tris (fun t => t.det ≠ 0) with
  | some t => s!"degenerate-triangle tri={showTri t}"
  | none =>
  match firstBad (allCorners tris) (fun p => memB p sites) with
  | some p => s!"corner-not-a-site pt={showPt p}"
  | none =>
  match (if tris.isEmpty then none else firstBad sites (fun s => memB s (allCorners tris))) with
  | some p => s!"site-not-a-corner site={showPt p}"
  | none =>
  if !hullOK sites h then s!"hull-certificate hull={showRing h}"
  else diagnoseTiles sites ts (loopEdges h) (sumInt ((loopEdges h).map cross))

def diagnoseDelaunay (sites : List Pt) (tris : List Tri) : String :=
  match (tris.map Tri.ccw).find? (fun t => !sites.all (fun s => decide (inCircleDet t.a t.b t.c s ≤ 0))) with
  | some t =>
    match sites.find? (fun s => inCircleDet t.a t.b t.c s > 0) with
    | some s => s!"not-delaunay tri={showTri t} site={showPt s} incircle={inCircleDet t.a t.b t.c s}"
    | none => "not-delaunay"
  | none => "not-delaunay"

/-- the whole Delaunay case: `sites` (input order, with duplicates), tolerance `tol` (same integer scale),
triangle output, edge output -/
def checkDelaunayCase (sites : List Pt) (tol : Int) (tris : List Tri) (edges : List Edge) : String :=
  let us := dedup sites
  let R := dedup (allCorners tris ++ edges.flatMap (fun e => [e.1, e.2]))
  match firstBad R (fun p => memB p us) with
  | some p => s!"FAIL vertex-not-a-site pt={showPt p}"
  | none =>
  -- every site is retained or within the snapping tolerance of a retained one
  let covered : Bool :=
    if R.isEmpty then us.isEmpty || us.any (fun s => us.all (fun t => decide (sqDist s t ≤ tol * tol)))
    else us.all (fun s => R.any (fun c => decide (sqDist s c ≤ tol * tol)))
  if !covered then
    match firstBad us (fun s => R.any (fun c => decide (sqDist s c ≤ tol * tol))) with
    | some s => s!"FAIL site-dropped site={showPt s}"
    | none => "FAIL site-dropped"
  else if !isTriangulationOf R tris then "FAIL " ++ diagnoseTriangulation R tris
  else if !isDelaunay R tris then "FAIL " ++ diagnoseDelaunay R tris
  else
    let expected := if tris.isEmpty then pathEdges R else edgesOf tris
    if !sameEdgeSet edges expected then
      let n := edges.map normE
      match firstBad n (fun e => memE e expected), firstBad expected (fun e => memE e n) with
      | some e, _ => s!"FAIL edge-not-in-triangulation edge={showPt e.1}{showPt e.2}"
      | _, some e => s!"FAIL edge-missing edge={showPt e.1}{showPt e.2}"
      | _, _ => "FAIL edge-repeated"
    else "ok"

def delaunay (line : String) : String :=
  match Driver.tokens line with
  | "D" :: tol :: r =>
    match Driver.parseHex64 tol, parseGeom r with
    | some tolB, some (inp, r) =>
      match parseOut "T" r with
      | some (tg, r) =>
        match parseOut "E" r with
        | some (eg, []) =>
          match tg, eg with
          | some tg, some eg =>
            match trisOf tg, edgesOfML eg with
            | some tb, some eb =>
              match scaleGroups [tolB] ([inputPts inp.g] ++ tb ++ eb) with
              | some (e0, [tolI], sites :: rest) =>
                let trisP := rest.take tb.length
                let edgesP := rest.drop tb.length
                match trisP.mapM mkTri with
                | some tris =>
                  let edges := edgesP.filterMap (fun l => match l with | [a, b] => some (a, b) | _ => none)
                  let res := checkDelaunayCase sites tolI tris edges
                  if res == "ok" then "ok" else s!"{res} unit=2^{e0}"
                | none => "FAIL triangle-ring-not-closed"
              | _ => "FAIL non-finite-ordinate"
            | _, _ => "FAIL output-shape"
          | _, _ => "FAIL impl-error"
        | _ => "bad-line"
      | none => "bad-line"
    | _, _ => "bad-line"
  | _ => "bad-line"

/-! ### constrained Delaunay -/

def ringsOf : G → Option (List (List Bits2))
  | .polygon sh hs => some (seqBits sh :: hs.map seqBits)
  | _ => none

def checkCdtCase (rings : List (List Pt)) (tris : List Tri) : String :=
  if isCDTOf rings tris then
    if isConstrainedDelaunay tris then "ok"
    else
      let ts := tris.map Tri.ccw
      let bad := ts.findSome? (fun t => (ts.find? (fun u =>
        t.edges.any (fun e => memE (swap e) u.edges) && !u.corners.all (fun p => decide (inCircleDet t.a t.b t.c p ≤ 0)))).map (fun u => (t, u)))
      match bad with
      | some (t, u) => s!"FAIL not-constrained-delaunay tri={showTri t} tri2={showTri u}"
      | none => "FAIL not-constrained-delaunay"
  else
    let ts := tris.map Tri.ccw
    let V := rings.flatMap id
    match firstBad tris (fun t => t.det ≠ 0) with
    | some t => s!"FAIL degenerate-triangle tri={showTri t}"
    | none =>
    match firstBad (allCorners tris) (fun p => memB p V) with
    | some p => s!"FAIL corner-not-a-vertex pt={showPt p}"
    | none =>
    if !tiles V ts (polyBoundary rings) (polyArea2 rings) then "FAIL " ++ diagnoseTiles V ts (polyBoundary rings) (polyArea2 rings)
    else
      match firstBad tris (fun t => decide (locateInPolygon (centroid3 t) (rings.map (fun r => r.map scale3)) = Loc.interior)) with
      | some t => s!"FAIL centroid-outside tri={showTri t}"
      | none => "FAIL unknown"

/-- the non-empty component polygons of a collection input, in the order of `PolygonExtracter` (depth first); members of
other types are ignored by the triangulator -/
partial def polysOf : G → List (List (List Bits2))
  | .polygon sh hs => if sh.pts.isEmpty then [] else [seqBits sh :: hs.map seqBits]
  | .multiPolygon gs => gs.flatMap polysOf
  | .collection gs => gs.flatMap polysOf
  | _ => []

/-- collection input: the verdict is `isCDTOfCollection`; the diagnosis names the first triangle without a unique owner or
the first component whose group fails, with the single-polygon diagnosis of that group -/
def checkCdtCollection (polys : List (List (List Pt))) (tris : List Tri) : String :=
  if isCDTOfCollection polys tris then "ok"
  else
    match firstBad tris (fun t => (polys.filter (fun rings => ownedBy rings t)).length == 1) with
    | some t =>
      let k := (polys.filter (fun rings => ownedBy rings t)).length
      s!"FAIL triangle-owned-by-{k}-components tri={showTri t}"
    | none =>
      let idx := (List.range polys.length).zip polys
      match idx.find? (fun ir => !(isCDTOf ir.2 (trisIn ir.2 tris) && isConstrainedDelaunay (trisIn ir.2 tris))) with
      | some (i, rings) =>
        let r := checkCdtCase rings (trisIn rings tris)
        (if r.startsWith "FAIL " then r else "FAIL unknown") ++ s!" component={i}"
      | none => "FAIL unknown"

def cdt (line : String) : String :=
  match Driver.tokens line with
  | "C" :: r =>
    match parseGeom r with
    | some (inp, r) =>
      match parseOut "T" r with
      | some (some tg, []) =>
        match inp.g with
        | .polygon _ _ =>
          match ringsOf inp.g, trisOf tg with
          | some rb, some tb =>
            match scaleGroups [] (rb ++ tb) with
            | some (e0, _, all) =>
              let rings := all.take rb.length
              match (all.drop rb.length).mapM mkTri with
              | some tris =>
                let res := checkCdtCase rings tris
                if res == "ok" then "ok" else s!"{res} unit=2^{e0}"
              | none => "FAIL triangle-ring-not-closed"
            | none => "FAIL non-finite-ordinate"
          | _, _ => "FAIL output-shape"
        | _ =>
          match trisOf tg with
          | some tb =>
            let pb := polysOf inp.g
            let ringGroups := pb.flatMap id
            match scaleGroups [] (ringGroups ++ tb) with
            | some (e0, _, all) =>
              -- regroup the scaled rings by component
              let rec regroup : List (List (List Bits2)) → List (List Pt) → List (List (List Pt))
                | [], _ => []
                | c :: cs, rest => rest.take c.length :: regroup cs (rest.drop c.length)
              let polys := regroup pb (all.take ringGroups.length)
              match (all.drop ringGroups.length).mapM mkTri with
              | some tris =>
                let res := checkCdtCollection polys tris
                if res == "ok" then "ok" else s!"{res} unit=2^{e0}"
              | none => "FAIL triangle-ring-not-closed"
            | none => "FAIL non-finite-ordinate"
          | none => "FAIL output-shape"
      | some (none, []) => "FAIL impl-error"
      | _ => "bad-line"
    | none => "bad-line"
  | _ => "bad-line"

/-! ### Voronoi -/

def cellsOf : G → Option (List (List Bits2))
  | .collection gs => gs.mapM (fun g => match g with
      | .polygon sh [] => some (seqBits sh)
      | _ => none)
  | _ => none

def diagnoseCell (sites : List Pt) (env : Box) (M : Int) (site : Pt) (ring : List Pt) : String :=
  if !convexRing ring then s!"cell-not-convex cell={showRing ring}"
  else if !strictlyInConvex ring site then s!"cell-misses-its-site site={showPt site}"
  else match sites.find? (fun t => t ≠ site && inClosedConvex ring t) with
  | some t => s!"cell-contains-other-site site={showPt site} other={showPt t}"
  | none =>
  match ring.findSome? (fun v => (sites.find? (fun t => !nearOK M v site t)).map (fun t => (v, t))) with
  | some (v, t) => s!"cell-vertex-closer-to-other-site site={showPt site} vertex={showPt v} other={showPt t}"
  | none =>
  match ring.find? (fun v => !(decide ((env.minx - v.x) * 1000000000 ≤ M) && decide ((v.x - env.maxx) * 1000000000 ≤ M) &&
      decide ((env.miny - v.y) * 1000000000 ≤ M) && decide ((v.y - env.maxy) * 1000000000 ≤ M))) with
  | some v => s!"cell-outside-envelope vertex={showPt v}"
  | none => "cell-unknown"

def checkVoronoiCase (sites : List Pt) (ordered : Bool) (clip : Option Box) (cells : List (List Pt)) : String :=
  let us := dedup sites
  match diagramEnv sites clip with
  | none => if cells.isEmpty then "ok" else "FAIL cells-for-empty-input"
  | some env =>
    if env.area2 == 0 then "ok-degenerate-envelope" else
    -- pair each cell with its site
    let paired : Option (List (Pt × List Pt)) :=
      if ordered then (if cells.length == sites.length then some (sites.zip cells) else none)
      else cells.mapM (fun c => (cellSite us c).map (fun s => (s, c)))
    match paired with
    | none =>
      if ordered then s!"FAIL cell-count cells={cells.length} sites={sites.length}"
      else match cells.find? (fun c => (cellSite us c).isNone) with
        | some c => s!"FAIL cell-without-unique-site cell={showRing c} inside={((us.filter (strictlyInConvex c)).length)}"
        | none => "FAIL cell-without-unique-site"
    | some ps =>
      if voronoiOK sites env ps then "ok"
      else
        match ps.find? (fun c => !(memB c.1 us && cellOK us env (slackScale us env) c.1 c.2)) with
        | some c => "FAIL " ++ diagnoseCell us env (slackScale us env) c.1 c.2
        | none =>
          if dedup (ps.map (·.1)) ≠ ps.map (·.1) then "FAIL two-cells-one-site"
          else match us.find? (fun s => !memB s (ps.map (·.1))) with
          | some s => s!"FAIL site-without-cell site={showPt s}"
          | none =>
            let A := sumInt (ps.map (fun c => (area2 c.2).natAbs))
            s!"FAIL area-mismatch cells={A} envelope={env.area2}"

def voronoi (line : String) : String :=
  match Driver.tokens line with
  | "V" :: tol :: flags :: r =>
    let clipR : Option (List UInt64 × List String) := match r with
      | "N" :: r => some ([], r)
      | "B" :: a :: b :: c :: d :: r => do
        let a ← Driver.parseHex64 a; let b ← Driver.parseHex64 b; let c ← Driver.parseHex64 c; let d ← Driver.parseHex64 d
        some ([a, b, c, d], r)
      | _ => none
    match Driver.parseHex64 tol, flags.toNat?, clipR with
    | some _, some flags, some (clipB, r) =>
      match parseGeom r with
      | some (inp, r) =>
        let ordered := flags &&& 2 != 0
        let ib := inputPts inp.g
        -- duplicates in the input (exact bit patterns differ only for ±0, which the generator never produces)
        match parseOut "O" r with
        | some (none, []) =>
          match scaleGroups [] [ib] with
          | some (_, _, [sites]) => if ordered && (dedup sites).length != sites.length then "ok-error" else "FAIL impl-error"
          | _ => "FAIL impl-error"
        | some (some og, []) =>
          match cellsOf og with
          | none => "FAIL cell-not-a-polygon"
          | some cb =>
            match scaleGroups clipB ([ib] ++ cb) with
            | some (e0, cl, sites :: cells) =>
              let clip : Option Box := match cl with
                | [a, b, c, d] => some ⟨a, b, c, d⟩
                | _ => none
              if ordered && (dedup sites).length != sites.length then "FAIL ordered-with-duplicates-did-not-fail"
              else
                let res := checkVoronoiCase sites ordered clip cells
                if res.startsWith "ok" then res else s!"{res} unit=2^{e0}"
            | _ => "FAIL non-finite-ordinate"
        | _ => "bad-line"
      | none => "bad-line"
    | _, _, _ => "bad-line"
  | _ => "bad-line"

/-- stream `predicates`: `PR <8 hex doubles>` (points a b c d) → what the models of the implementation's decision functions
(`Model/Tri/Predicates.lean`, `Kernel.det`) answer: `isInCircleRobust isInCircleNormalized isInCircleNonRobust isCCW rightOf leftOf isInCircle`
(locations numbered as `geom::Location`).  All of them are invariant under the common scaling of `scaleGroups`. -/
def predicates (line : String) : String :=
  let locNum : Loc3 → Nat := fun l => match l with | .I => 0 | .B => 1 | .E => 2
  let b2n : Bool → Nat := fun b => if b then 1 else 0
  match Driver.tokens line with
  | "PR" :: ws =>
    match ws.mapM Driver.parseHex64 with
    | some [ax, ay, bx, by', cx, cy, dx, dy] =>
      match scaleGroups [] [[(ax, ay), (bx, by'), (cx, cy), (dx, dy)]] with
      | some (_, _, [[a, b, c, d]]) =>
        s!"{locNum (robustInCircleLoc a b c d)} {locNum (inCircleLoc a b c d)} {locNum (inCircleLoc b a c d)} " ++
        s!"{b2n (decide (0 < Kernel.det a b c))} {b2n (decide (Kernel.det b c a < 0))} {b2n (decide (0 < Kernel.det b c a))} {b2n (flipInCircle a b c d)}"
      | _ => "bad-scale"
    | _ => "bad-line"
  | _ => "bad-line"

end Driver.C16

def main (args : List String) : IO UInt32 := do
  let handlers : List (String × (String → String)) :=
    [("delaunay", Driver.C16.delaunay), ("cdt", Driver.C16.cdt), ("voronoi", Driver.C16.voronoi), ("predicates", Driver.C16.predicates),
     -- object-reuse self-consistency: the specification is a function of the sites, so repeated queries of one builder agree
     ("reuse", fun line => if line.startsWith "RU " then "consistent" else "bad-line")]
  match args with
  | [stream] =>
    match handlers.lookup stream with
    | some f =>
      Driver.loop (← IO.getStdin) (← IO.getStdout) f
      return 0
    | none => IO.eprintln s!"unknown stream {stream}"; return 2
  | _ => IO.eprintln "usage: drv_c16 <stream>"; return 2
