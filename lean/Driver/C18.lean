import Driver.Common
import Driver.GTreeIO
import GeosModel.Base.F64
import GeosModel.Base.Kernel
import GeosModel.Base.GTree
import GeosModel.Model.Simplify.DP
import GeosModel.Model.Simplify.Dist
import GeosModel.Model.Simplify.Contracts
import GeosModel.Model.Simplify.VertexIndex
import GeosModel.Model.Simplify.Jump
/-!
Driver for C18 (`drv_c18 <stream>`):
* `dp`       — runs the Douglas–Peucker model instantiated with hardware doubles (`Float`) and the formula of
               `Distance::pointToSegment`; prints the flattened result geometry (must equal GEOSSimplify_r bit for bit);
* `tps`      — checks the contract of GEOSTopologyPreserveSimplify_r on (input, tolerance, output);
* `hull`     — checks the contract of GEOSPolygonHullSimplify(Mode)_r;
* `coverage` — checks the contract of GEOSCoverageSimplifyVW_r.
The contract checkers are `GeosModel.Simplify.*` (exact integer arithmetic after scaling all doubles to a common
power of two); their meaning is stated by the `*_check_sound` theorems in Props/C18.lean.
-/
namespace Driver.C18
open GeosModel GeosModel.Kernel GeosModel.Simplify

/-- a vertex: the two ordinates as bit patterns (what is printed) -/
structure P where
  xb : UInt64
  yb : UInt64
deriving BEq, Repr, Inhabited

def P.x (p : P) : Float := Float.ofBits p.xb
def P.y (p : P) : Float := Float.ofBits p.yb

def P.xy (p : P) : Cxx.XY Float := ⟨p.x, p.y⟩

/-- `algorithm::Distance::pointToSegment(p, A, B)`: the generic model `DP.pointToSegment` (Model/Simplify/Dist.lean, the
target of the bridge theorems of Props/C18Gen.lean) at hardware doubles -/
def pointToSegment (p A B : P) : Float := DP.pointToSegment (R := Float) p.xy A.xy B.xy

/-- the instance the C++ runs: `DP.cxxOps` at `Float` (doubles, `>` and `<=`, `-1.0`, `operator==`) on the vertices' values -/
def floatOps : DP.Ops P Float :=
  { dist := fun a b p => (DP.cxxOps (R := Float)).dist a.xy b.xy p.xy
    gt := (DP.cxxOps (R := Float)).gt
    le := (DP.cxxOps (R := Float)).le
    init := (DP.cxxOps (R := Float)).init
    eq := fun a b => (DP.cxxOps (R := Float)).eq a.xy b.xy }

def ptsOf (s : CSeq) : List P := s.pts.map fun c => ⟨c.x, c.y⟩

/-! ### flattened output -/

inductive Leaf where
  | pt (p : P)
  | line (pts : List P)
  | ring (pts : List P)
  | poly (rings : List (List P))

def showPts (l : List P) : List String :=
  toString l.length :: l.flatMap fun p => [GTreeIO.hex64 p.xb, GTreeIO.hex64 p.yb]

def showLeaf : Leaf → List String
  | .pt p => ["P", GTreeIO.hex64 p.xb, GTreeIO.hex64 p.yb]
  | .line l => "L" :: showPts l
  | .ring l => "R" :: showPts l
  | .poly rs => ["Y", toString rs.length] ++ rs.flatMap showPts

def showLeaves (ls : List Leaf) : String :=
  if ls.isEmpty then "EMPTY" else Driver.joinWith " " (ls.flatMap showLeaf)

/-! ### exact view of vertices (for the validity gate and the contract streams) -/

/-- all ordinates of the given rings as integers over one common power of two -/
def scaleRings (rs : List (List P)) : Option (List (List Pt)) := do
  let ords := rs.flatMap fun r => r.flatMap fun p => [p.xb, p.yb]
  let (_, ints) ← F64.scaleAll ords
  let rec rebuild : List (List P) → List Int → List (List Pt)
    | [], _ => []
    | r :: rs, is =>
      let n := r.length
      let mine := is.take (2 * n)
      let rec mk : List Int → List Pt
        | x :: y :: t => ⟨x, y⟩ :: mk t
        | _ => []
      mk mine :: rebuild rs (is.drop (2 * n))
  some (rebuild rs ints)

/-- group a flat list of rings back into polygons of the given ring counts -/
def regroup {α : Type} : List Nat → List α → List (List α)
  | [], _ => []
  | n :: ns, l => l.take n :: regroup ns (l.drop n)

/-- the rough polygons are *certainly* valid (so `createValidArea` must return them unchanged):
rings simple, no two rings in contact, holes strictly inside their shell and not nested, polygons not nested. -/
def certainlyValid (polys : List (List (List P))) : Bool :=
  match scaleRings (polys.flatMap id) with
  | none => false
  | some rings =>
    let ps := regroup (polys.map (·.length)) rings
    strictlyValidPolys ps

/-! ### the DP transformer (`DPTransformer` over `GeometryTransformer`) -/

def dpSeq (tol : Float) (preserve : Bool) (s : CSeq) : List P :=
  DP.simplify floatOps tol preserve (ptsOf s)

/-- `transformPolygon`: `none` = the polygon vanishes; `some (rings, weird)`; `weird` = shell collapsed but a hole survived -/
def dpPolygon (tol : Float) (sh : CSeq) (hs : List CSeq) : Option (List (List P)) × Bool :=
  let shell := dpSeq tol false sh
  let holes := (hs.map (dpSeq tol false)).filter (fun h => 4 ≤ h.length)
  if shell.length < 4 then (none, !holes.isEmpty) else (some (shell :: holes), false)

/-- result: leaves, and whether some area component is not certainly valid (then GEOS may have repaired it with buffer(0)) -/
partial def dpG (tol : Float) : G → List Leaf × Bool
  | .point s => ((ptsOf s).map Leaf.pt, false)
  | .lineString s => if s.pts.isEmpty then ([], false) else ([.line (dpSeq tol true s)], false)
  | .linearRing s =>
    if s.pts.isEmpty then ([], false) else
    let r := dpSeq tol false s
    ([if r.length < 4 then .line r else .ring r], false)
  | .polygon sh hs =>
    match dpPolygon tol sh hs with
    | (none, weird) => ([], weird)
    | (some rs, _) => ([.poly rs], !certainlyValid [rs])
  | .multiPolygon gs =>
    let rs := gs.map fun g => match g with
      | .polygon sh hs => dpPolygon tol sh hs
      | _ => (none, true)
    let polys := rs.filterMap (·.1)
    (polys.map Leaf.poly, rs.any (·.2) || !certainlyValid polys)
  | .multiPoint gs | .multiLineString gs | .collection gs =>
    let rs := gs.map (dpG tol)
    (rs.flatMap (·.1), rs.any (·.2))
  | _ => ([], true)

partial def hasSeq : G → Bool
  | .multiPoint gs | .multiLineString gs | .multiPolygon gs | .collection gs => gs.any hasSeq
  | _ => true

def splitBar : List String → List String × List String
  | [] => ([], [])
  | "|" :: r => ([], r)
  | a :: r => let (x, y) := splitBar r; (a :: x, y)

/-- `D tolbits srid geom… [| flattened GEOS output…]`; with `gateOnly` prints whether the vertex-for-vertex comparison applies -/
def dpLineG (gateOnly : Bool) (line : String) : String :=
  match Driver.tokens line with
  | "D" :: tb :: rest =>
    match Driver.parseHex64 tb with
    | none => "bad-line"
    | some tbits =>
      let tol := Float.ofBits tbits
      let (gt, geosOut) := splitBar rest
      match GTreeIO.parseGeom gt with
      | some (g, []) =>
        -- DouglasPeuckerSimplifier::setDistanceTolerance: tol < 0 throws; the line simplifier throws on NaN
        -- (it is constructed for every coordinate sequence, so only a geometry without any component escapes)
        if tol < 0.0 || (tol.isNaN && hasSeq g.g) then "ERR"
        else
          let (leaves, unsure) := dpG tol g.g
          if gateOnly then (if unsure then "unsure" else "sure")
          else if unsure then Driver.joinWith " " geosOut else showLeaves leaves
      | _ => "bad-geom"
  | _ => "bad-line"

def dpLine : String → String := dpLineG false

/-! ### property-level oracle for GEOSSimplify_r results (used by the check when the model and GEOS disagree) -/

def parseFlatPts : Nat → List String → Option (List P × List String)
  | 0, r => some ([], r)
  | n + 1, x :: y :: r => do
    let xb ← Driver.parseHex64 x
    let yb ← Driver.parseHex64 y
    let (ps, r) ← parseFlatPts n r
    some (⟨xb, yb⟩ :: ps, r)
  | _, _ => none

def parseFlatRings : Nat → List String → Option (List (List P) × List String)
  | 0, r => some ([], r)
  | k + 1, n :: r => do
    let (ps, r) ← parseFlatPts (← n.toNat?) r
    let (rs, r) ← parseFlatRings k r
    some (ps :: rs, r)
  | _, _ => none

partial def parseFlat : List String → Option (List Leaf)
  | [] => some []
  | ["EMPTY"] => some []
  | "P" :: x :: y :: r => do let l ← parseFlat r; some (.pt ⟨← Driver.parseHex64 x, ← Driver.parseHex64 y⟩ :: l)
  | "L" :: n :: r => do let (ps, r) ← parseFlatPts (← n.toNat?) r; let l ← parseFlat r; some (.line ps :: l)
  | "R" :: n :: r => do let (ps, r) ← parseFlatPts (← n.toNat?) r; let l ← parseFlat r; some (.ring ps :: l)
  | "Y" :: k :: r => do let (rs, r) ← parseFlatRings (← k.toNat?) r; let l ← parseFlat r; some (.poly rs :: l)
  | _ => none

def isSubP : List P → List P → Bool
  | [], _ => true
  | _ :: _, [] => false
  | a :: as, b :: bs => if a == b then isSubP as bs else isSubP (a :: as) bs

def segPairs : List P → List (P × P)
  | a :: b :: r => (a, b) :: segPairs (b :: r)
  | _ => []

/-- every input vertex within `lim` of the output polyline, by the code's own distance function -/
def allNear (lim : Float) (inp out : List P) : Bool :=
  inp.all fun p => (segPairs out).any fun s => decide (pointToSegment p s.1 s.2 ≤ lim)

/-- the sentence of the property for one open line -/
def oracleLine (tol : Float) (inp out : List P) : Option String :=
  if !isSubP out inp then some "line-not-a-subsequence"
  else if out.head? != inp.head? || out.getLast? != inp.getLast? then some "line-endpoint-lost"
  else if inp.length ≥ 2 && !allNear tol inp out then some "line-vertex-beyond-tolerance"
  else none

/-- … and for one ring (start vertex may go; 2·tol) -/
def oracleRing (tol : Float) (inp out : List P) : Option String :=
  let ci := inp.dropLast
  let co := out.dropLast
  if !((List.range (max ci.length 1)).any fun k => isSubP co (ci.rotateLeft k)) then some "ring-not-a-cyclic-subsequence"
  else if !allNear (2.0 * tol * (1.0 + 1.0e-9)) inp out then some "ring-vertex-beyond-2tol"
  else none

partial def inLeaves : G → List Leaf
  | .point s => (ptsOf s).map Leaf.pt
  | .lineString s => if s.pts.isEmpty then [] else [.line (ptsOf s)]
  | .linearRing s => if s.pts.isEmpty then [] else [.ring (ptsOf s)]
  | .polygon sh hs => if sh.pts.isEmpty then [] else [.poly (ptsOf sh :: hs.map ptsOf)]
  | .multiPoint gs | .multiLineString gs | .multiPolygon gs | .collection gs => gs.flatMap inLeaves
  | _ => []

/-- align input and output leaves; polygons whose ring structure changed (collapse, buffer(0) repair) are not judged -/
def oracleLeaves (tol : Float) : List Leaf → List Leaf → String
  | [], [] => "ok"
  | .pt _ :: is, .pt _ :: os => oracleLeaves tol is os
  | .line i :: is, .line o :: os =>
    match oracleLine tol i o with
    | some e => "FAIL:" ++ e
    | none => oracleLeaves tol is os
  | .ring i :: is, .ring o :: os | .ring i :: is, .line o :: os =>
    match oracleRing tol i o with
    | some e => "FAIL:" ++ e
    | none => oracleLeaves tol is os
  | .poly irs :: is, .poly ors :: os =>
    -- a polygon that kept its ring structure: every ring is judged; a ring that is not a vertex subsequence was
    -- rebuilt by buffer(0) (self-intersecting DP result) and is not judged
    if irs.length != ors.length then "n/a"
    else
      let rs := (irs.zip ors).map fun (i, o) => oracleRing tol i o
      if rs.any (· == some "ring-not-a-cyclic-subsequence") then "n/a"
      else match rs.find? (·.isSome) with
        | some (some e) => "FAIL:" ++ e
        | _ => oracleLeaves tol is os
  | .poly _ :: _, _ => "n/a"
  | _, .poly _ :: _ => "n/a"
  | .line _ :: _, _ => "FAIL:line-lost"
  | _, _ => "n/a"

/-- `D tolbits srid geom | flat GEOS output` → `ok`, `n/a` or `FAIL:<which part of the property>` -/
def dpOracle (line : String) : String :=
  match Driver.tokens line with
  | "D" :: tb :: rest =>
    match Driver.parseHex64 tb with
    | none => "bad-line"
    | some tbits =>
      let tol := Float.ofBits tbits
      let (gt, geosOut) := splitBar rest
      match GTreeIO.parseGeom gt with
      | some (g, []) =>
        if tol < 0.0 || (tol.isNaN && hasSeq g.g) then (if geosOut == ["ERR"] then "ok" else "FAIL:bad-tolerance-accepted")
        else if geosOut == ["ERR"] then "FAIL:threw"
        else match parseFlat geosOut with
          | some out => oracleLeaves tol (inLeaves g.g) out
          | none => "bad-line"
      | _ => "bad-geom"
  | _ => "bad-line"

/-! ### contract streams -/

/-- lines and polygons of a geometry, in traversal order (`none`: a type the contract streams do not use) -/
partial def extract : G → Option (List (List P) × List (List (List P)))
  | .lineString s => some ([ptsOf s], [])
  | .polygon sh hs => some ([], [ptsOf sh :: hs.map ptsOf])
  | .multiLineString gs | .multiPolygon gs | .collection gs => do
    let rs ← gs.mapM extract
    some (rs.flatMap (·.1), rs.flatMap (·.2))
  | _ => none

/-- scale the ordinates of several vertex lists to integers over one common power of two -/
def scaleSeqs (ss : List (List P)) : Option (List (List Pt)) := scaleRings ss

structure Exact where
  inLines : List (List Pt)
  inPolys : List (List (List Pt))
  outLines : List (List Pt)
  outPolys : List (List (List Pt))

def exactView (i o : List (List P) × List (List (List P))) : Option Exact := do
  let seqs := i.1 ++ i.2.flatMap id ++ o.1 ++ o.2.flatMap id
  let sc ← scaleSeqs seqs
  let n1 := i.1.length
  let n2 := (i.2.flatMap id).length
  let n3 := o.1.length
  let il := sc.take n1
  let ip := regroup (i.2.map (·.length)) ((sc.drop n1).take n2)
  let ol := ((sc.drop (n1 + n2)).take n3)
  let op := regroup (o.2.map (·.length)) (sc.drop (n1 + n2 + n3))
  some ⟨il, ip, ol, op⟩

def firstFail (cs : List (String × Bool)) : String :=
  match cs.find? (fun c => !c.2) with
  | some c => "FAIL:" ++ c.1
  | none => "FAIL:unclassified"

/-- index of `p` (by bits) in `l` -/
def idxOfP (l : List P) (p : P) : Option Nat :=
  let i := l.findIdx (· == p)
  if i < l.length then some i else none

/-- Float tolerance test of one open component: every input vertex strictly between two consecutive output vertices
is within `tol` of the output segment, measured by `pointToSegment` and `<=` exactly as the code does -/
def openWithin (tol : Float) (inp out : List P) : Bool :=
  let rec go : List P → Bool
    | u :: v :: r =>
      (match idxOfP inp u, idxOfP inp v with
       | some i, some j => ((inp.drop (i + 1)).take (j - i - 1)).all fun p => decide (pointToSegment p u v ≤ tol)
       | _, _ => false) && go (v :: r)
    | _ => true
  go out

/-- ring: spans are cyclic; the span that swallowed the ring start vertex is allowed 2·tol (plus rounding slack) -/
def ringWithin (tol : Float) (inp out : List P) : Bool :=
  let ci := inp.dropLast
  let co := out.dropLast
  let n := ci.length
  let rec go : List P → Bool
    | u :: v :: r =>
      (match idxOfP ci u, idxOfP ci v with
       | some i, some j =>
         let len := if i < j then j - i else n - i + j
         let rot := ci.rotateLeft i
         let mid := (rot.take len).drop 1
         let wraps := decide (j ≤ i) && decide (j ≠ 0)
         let lim := if wraps then 2.0 * tol * (1.0 + 1.0e-9) else tol
         mid.all fun p => decide (pointToSegment p u v ≤ lim)
       | _, _ => false) && go (v :: r)
    | _ => true
  go (co ++ co.take 1)

def parseIO (rest : List String) : Option (Geom × Option Geom) :=
  let (a, b) := splitBar rest
  match GTreeIO.parseGeom a with
  | some (gi, []) =>
    if b == ["ERR"] then some (gi, none) else
    match GTreeIO.parseGeom b with
    | some (go, []) => some (gi, some go)
    | _ => none
  | _ => none

/-- `T tolbits IN | OUT` -/
def tpsLine (line : String) : String :=
  match Driver.tokens line with
  | "T" :: tb :: rest =>
    match Driver.parseHex64 tb, parseIO rest with
    | some tbits, some (gi, some go) =>
      let tol := Float.ofBits tbits
      match extract gi.g, extract go.g with
      | some i, some o =>
        match exactView i o with
        | some e =>
          if !strictlyValid e.inLines e.inPolys then "bad-input"
          else
            let exact := tpsCheck e.inLines e.outLines e.inPolys e.outPolys
            let tolOK := zipAll (fun a b => openWithin tol a b) i.1 o.1 &&
                         zipAll (zipAll fun a b => ringWithin tol a b) i.2 o.2
            if exact && tolOK then "ok"
            else firstFail
              [("line-subsequence/endpoints/count", zipAll tpsLineOK e.inLines e.outLines),
               ("ring-subsequence/count", zipAll (zipAll tpsRingOK) e.inPolys e.outPolys),
               ("output-not-valid(crossing/contact/nesting)", strictlyValid e.outLines e.outPolys),
               ("tolerance", tolOK)]
        | none => "bad-coords"
      | _, _ => "FAIL:output-type"
    | some _, some (_, none) => "FAIL:threw"
    | _, _ => "bad-line"
  | _ => "bad-line"

/-- `H outer mode parambits IN | OUT` (mode `v` = vertex fraction, `a` = area delta ratio) -/
def hullLine (line : String) : String :=
  match Driver.tokens line with
  | "H" :: outer :: mode :: pb :: rest =>
    match Driver.parseHex64 pb, parseIO rest with
    | some pbits, some (gi, some go) =>
      let param := Float.abs (Float.ofBits pbits)
      let isOuter := outer == "1"
      match extract gi.g, extract go.g with
      | some i, some o =>
        match exactView i o with
        | some e =>
          if !strictlyValidPolys e.inPolys then "bad-input"
          else
            let identity := (mode == "v" && param ≥ 1.0) || (mode == "a" && param == 0.0)
            let idOK := !identity || decide (e.inPolys = e.outPolys)
            if hullCheck isOuter e.inPolys e.outPolys && idOK && o.1.isEmpty then "ok"
            else firstFail
              [("ring-hull(subset/containment/crossing)/count", zipAll (polyHullOK isOuter) e.inPolys e.outPolys),
               ("output-not-valid", strictlyValidPolys e.outPolys),
               ("identity-parameter", idOK)]
        | none => "bad-coords"
      | _, _ => "FAIL:output-type"
    | some _, some (_, none) => "FAIL:threw"
    | _, _ => "bad-line"
  | _ => "bad-line"

/-- `C preserveBoundary tolbits IN | OUT` -/
def covLine (line : String) : String :=
  match Driver.tokens line with
  | "C" :: pb :: tb :: rest =>
    match Driver.parseHex64 tb, parseIO rest with
    | some _, some (gi, some go) =>
      match extract gi.g, extract go.g with
      | some i, some o =>
        match exactView i o with
        | some e =>
          if !covInputOK e.inPolys then "bad-input"
          else if covCheck (pb == "1") e.inPolys e.outPolys then "ok"
          else
            let inRings := e.inPolys.flatMap id
            let outRings := e.outPolys.flatMap id
            let inAll := inRings.flatMap segs
            let outAll := outRings.flatMap segs
            firstFail
              [("ring(subset/edge-matching)/count", zipAll (zipAll fun a b => covRingOK inAll outAll a b) e.inPolys e.outPolys),
               ("node-moved", zipAll (zipAll fun a b => covNodesOK inRings a b) e.inPolys e.outPolys),
               ("boundary-changed", pb != "1" || zipAll (zipAll fun a b => covBoundaryOK inAll a b) e.inPolys e.outPolys),
               ("ring-self-touch", outRings.all (fun r => decide ((core r).Nodup))),
               ("segments-cross-or-overlap", allPairs segOKCov (outAll.map normSeg).eraseDups)]
        | none => "bad-coords"
      | _, _ => "FAIL:output-type"
    | some _, some (_, none) => "FAIL:threw"
    | _, _ => "bad-line"
  | _ => "bad-line"

/-! ### direct streams: `ComponentJumpChecker::hasJump`, `VertexSequencePackedRtree` -/

def takeHex : Nat → List String → Option (List UInt64 × List String)
  | 0, r => some ([], r)
  | n + 1, x :: r => do
    let u ← Driver.parseHex64 x
    let (us, r) ← takeHex n r
    some (u :: us, r)
  | _, _ => none

/-- `k` components `xy n x y …` → their bit patterns -/
def takeComps : Nat → List String → Option (List (List UInt64) × List String)
  | 0, r => some ([], r)
  | k + 1, "xy" :: n :: r => do
    let (us, r) ← takeHex (2 * (← n.toNat?)) r
    let (cs, r) ← takeComps k r
    some (us :: cs, r)
  | _, _ => none

def pairUp : List Int → List Pt
  | x :: y :: r => ⟨x, y⟩ :: pairUp r
  | _ => []

/-- `J s self start end seg(4) k comps…` / `J e self seg1(4) seg2(4) seg(4) k comps…` → `0` / `1` -/
def jumpLine (line : String) : String :=
  match Driver.tokens line with
  | "J" :: var :: selfS :: rest =>
    let r : Option String := do
      let self ← selfS.toNat?
      let (start, stop, rest) ← (if var == "s" then
          match rest with
          | a :: b :: r => do some ((← a.toNat?), (← b.toNat?), r)
          | _ => none
        else some (0, 0, rest))
      let nseg := if var == "s" then 4 else 12
      let (segBits, rest) ← takeHex nseg rest
      match rest with
      | k :: rest =>
        let (comps, _) ← takeComps (← k.toNat?) rest
        -- all ordinates over one common power of two
        let (_, ints) ← F64.scaleAll (segBits ++ comps.flatMap id)
        let segPts := pairUp (ints.take nseg)
        let compPts := regroup (comps.map (·.length / 2)) (pairUp (ints.drop nseg))
        -- the component point of an unsimplified TaggedLineString is its vertex 1
        let cps := (List.range compPts.length).zip (compPts.map fun c => c.getD 1 ⟨0, 0⟩)
        let lineP := compPts.getD self []
        if var == "s" then
          match segPts with
          | [a, b] => some (if Jump.hasJumpSection cps self lineP start stop (a, b) then "1" else "0")
          | _ => none
        else
          match segPts with
          | [a, b, c, d, e, f] => some (if Jump.hasJumpSegs cps self (a, b) (c, d) (e, f) then "1" else "0")
          | _ => none
      | _ => none
    r.getD "bad-line"
  | _ => "bad-line"

def showEnv : Env → String
  | none => "-"
  | some b => s!"{b.minx},{b.maxx},{b.miny},{b.maxy}"

/-- the operations `r i` / `q minx maxx miny maxy` in turn; collects the query answers -/
def vsOps : Nat → List String → VSPR.Tree → List String → Option (VSPR.Tree × List String)
  | 0, _, t, acc => some (t, acc.reverse)
  | n + 1, "r" :: i :: r, t, acc => do vsOps n r (VSPR.remove t (← i.toNat?)) acc
  | n + 1, "q" :: a :: b :: c :: d :: r, t, acc => do
    let q : Env := some ⟨F64.key (← Driver.parseHex64 a), F64.key (← Driver.parseHex64 b), F64.key (← Driver.parseHex64 c), F64.key (← Driver.parseHex64 d)⟩
    let res := VSPR.query t q
    vsOps n r t (("q" ++ String.join (res.map fun i => " " ++ toString i) ++ ";") :: acc)
  | _, _, _, _ => none

/-- `V n pts… nops ops…` → the query answers and the final `bounds` array -/
def vsIndexLine (line : String) : String :=
  match Driver.tokens line with
  | "V" :: n :: rest =>
    let r : Option String := do
      let (us, rest) ← takeHex (2 * (← n.toNat?)) rest
      let rec mk : List UInt64 → List (Int × Int)
        | x :: y :: r => (F64.key x, F64.key y) :: mk r
        | _ => []
      match rest with
      | k :: rest =>
        let t0 := VSPR.build (mk us)
        -- checked assumption of the theorems of Props/C18Index.lean: the tree as built is well-formed
        if !VSPR.wfCheck t0 then some "MODEL-TREE-NOT-WELL-FORMED" else
        let (t, answers) ← vsOps (← k.toNat?) rest t0 []
        some (String.join answers ++ "b" ++ String.join (t.bounds.map fun e => " " ++ showEnv e))
      | _ => none
    r.getD "bad-line"
  | _ => "bad-line"

end Driver.C18

def handlers : List (String × (String → String)) :=
  [("dp", Driver.C18.dpLine), ("dpgate", Driver.C18.dpLineG true), ("dporacle", Driver.C18.dpOracle), ("tps", Driver.C18.tpsLine), ("hull", Driver.C18.hullLine), ("coverage", Driver.C18.covLine),
   ("jump", Driver.C18.jumpLine), ("vsindex", Driver.C18.vsIndexLine)]

def main (args : List String) : IO UInt32 := do
  match args with
  | [stream] =>
    match handlers.lookup stream with
    | some f =>
      Driver.loop (← IO.getStdin) (← IO.getStdout) f
      return 0
    | none => IO.eprintln s!"unknown stream {stream}"; return 2
  | _ => IO.eprintln "usage: drv_c18 <stream>"; return 2
