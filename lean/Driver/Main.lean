import Driver.Common
import Driver.C15
import Driver.GTreeIO
/-! `geosdrv <stream>`: reads one case per line on stdin, writes the model's answer per line. -/
def handlers : List (String × (String → String)) :=
  [ ("strtree", Driver.C15.history),
    ("strslices", Driver.C15.slices),
    ("otheridx", Driver.C15.other),
    ("gtree-echo", fun l => match Driver.GTreeIO.parseGeom (Driver.tokens l) with
        | some (g, []) => Driver.GTreeIO.showGeom g
        | _ => "parse-error") ]

def main (args : List String) : IO UInt32 := do
  match args with
  | [stream] =>
    match handlers.lookup stream with
    | some f =>
      Driver.loop (← IO.getStdin) (← IO.getStdout) f
      return 0
    | none => IO.eprintln s!"unknown stream {stream}"; return 2
  | _ => IO.eprintln "usage: geosdrv <stream>"; return 2
