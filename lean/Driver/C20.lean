import Driver.Common
import Driver.GTreeIO
import GeosModel.Model.Norm.Normalize
import GeosModel.Model.Norm.Orientation
import GeosModel.Model.Norm.Classify
/-! Driver for C20 (exe `drv_c20`).
  normalize   N g0 | g1 | …            -> nf0 | nf1 | … # idem=b canon=b eqx=b eqi=b      (model normal forms and the model's own oracle flags)
  normclass   N g0 | g1 | …            -> class=<hypothesis class of g0>
Each `g` is `srid geom…` in the GTree token grammar. -/
namespace Driver.C20
open GeosModel GeosModel.Norm Driver.GTreeIO

def splitBar (toks : List String) : List (List String) :=
  let rec go (cur : List String) (acc : List (List String)) : List String → List (List String)
    | [] => (cur.reverse :: acc).reverse
    | "|" :: r => go [] (cur.reverse :: acc) r
    | t :: r => go (t :: cur) acc r
  go [] [] toks

def parseGroup (toks : List String) : Option (List Geom) :=
  (splitBar toks).mapM fun ts => match parseGeom ts with
    | some (g, []) => some g
    | _ => none

def b01 (b : Bool) : String := if b then "1" else "0"

def showNF (srid : Int) : Option G → String
  | none => "unsupported"
  | some g => showGeom ⟨srid, g⟩

def geomBEq (a b : G) : Bool := showG a == showG b

def normalizeLine (line : String) : String :=
  match Driver.tokens line with
  | "N" :: rest =>
    match parseGroup rest with
    | none => "parse-error"
    | some gs =>
      let nfs := gs.map fun g => (g.srid, normalizeApi geosCfg g.g)
      let strs := nfs.map fun (s, n) => showNF s n
      let idem := nfs.all fun (_, n) => match n with
        | none => true
        | some h => geomBEq (normalize geosCfg h) h
      let canon := match strs with
        | [] => true
        | s0 :: r => r.all (· == s0)
      let (eqx, eqi) := match nfs with
        | (_, some h0) :: r =>
          (r.all (fun (_, n) => match n with | some h => equalsExact geosCfg h0 h | none => false),
           r.all (fun (_, n) => match n with | some h => equalsIdentical geosIdCfg h0 h | none => false))
        | _ => (true, true)
      Driver.joinWith " | " strs ++ s!" # idem={b01 idem} canon={b01 canon} eqx={b01 eqx} eqi={b01 eqi}"
  | _ => "bad-line"

def classLine (line : String) : String :=
  match Driver.tokens line with
  | "N" :: rest =>
    match parseGroup rest with
    | some (g :: _) => "class=" ++ hypClass geosCfg g.g
    | _ => "parse-error"
  | _ => "bad-line"

def handle (stream : String) : String → String :=
  match stream with
  | "normalize" => normalizeLine
  | "normclass" => classLine
  | _ => fun _ => "unknown-stream"

end Driver.C20

def main (args : List String) : IO UInt32 := do
  match args with
  | [stream] =>
    let stdin ← IO.getStdin
    let stdout ← IO.getStdout
    Driver.loop stdin stdout (Driver.C20.handle stream)
    return 0
  | _ =>
    IO.eprintln "usage: drv_c20 <stream>"
    return 2
