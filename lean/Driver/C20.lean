import Driver.Common
import Driver.GTreeIO
import GeosModel.Model.Norm.Normalize
import GeosModel.Model.Norm.Orientation
import GeosModel.Model.Norm.Classify
import GeosModel.Model.Construct.Check
import GeosModel.Model.Construct.InteriorPoint
import GeosModel.Base.F64
import GeosModel.Base.Kernel
/-! Driver for C20 (exe `drv_c20`).
  normalize   N g0 | g1 | …            -> nf0 | nf1 | … # idem=b canon=b eqx=b eqi=b      (model normal forms and the model's own oracle flags)
  normclass   N g0 | g1 | …            -> class=<hypothesis class of g0>
  compare     P a | b                  -> sign(a.compareTo(b)) sign(b.compareTo(a)) sign(a.compareTo(a))
  construct   K kind | G g | H hull | E env | C centroid | S pos valid | B k sup… R r cx cy | M mrr | W mw
                                       -> ok | violated:<conditions>     (exact certificate checkers on the GEOS outputs)
  invariants  I kind | G g | R rev | RR revrev | N norm | CL clone | A a×4 | L l×4 | NP n×4 | NG n×4 | D d×4 | X f×6
                                       -> ok | violated:<conditions>
  pos         same line format as construct with only the G and S sections (rectilinear / lattice generators)
  sequence    Q kind | G g | O op args… result… | O … : a program over registers (r0 = g) — creating ops cl / rv / nm / bd /
              sub, the in-place NM, observers (env, area, len, np, …) and the queries eqx / eqi / cmp — with the
              implementation's answers; the stateless model must give the same answers whatever was called before
                                       -> ok | violated:<conditions>
Each `g` is `srid geom…` in the GTree token grammar (or `err` where an operation threw). -/
namespace Driver.C20
open GeosModel GeosModel.Norm Driver.GTreeIO

def splitBar (toks : List String) : List (List String) :=
  let rec go (cur : List String) (acc : List (List String)) : List String → List (List String)
    | [] => (cur.reverse :: acc).reverse
    | "|" :: r => go [] (cur.reverse :: acc) r
    | t :: r => go (t :: cur) acc r
  go [] [] toks

def parseGroup (toks : List String) : Option (List Geom) :=
  (splitBar toks).mapM fun ts => match parseGeom ts with
    | some (g, []) => some g
    | _ => none

def b01 (b : Bool) : String := if b then "1" else "0"

def showNF (srid : Int) : Option G → String
  | none => "unsupported"
  | some g => showGeom ⟨srid, g⟩

def geomBEq (a b : G) : Bool := showG a == showG b

def normalizeLine (line : String) : String :=
  match Driver.tokens line with
  | "N" :: rest =>
    match parseGroup rest with
    | none => "parse-error"
    | some gs =>
      let nfs := gs.map fun g => (g.srid, normalizeApi geosCfg g.g)
      let strs := nfs.map fun (s, n) => showNF s n
      let idem := nfs.all fun (_, n) => match n with
        | none => true
        | some h => geomBEq (normalize geosCfg h) h
      let canon := match strs with
        | [] => true
        | s0 :: r => r.all (· == s0)
      let (eqx, eqi) := match nfs with
        | (_, some h0) :: r =>
          (r.all (fun (_, n) => match n with | some h => equalsExact geosCfg h0 h | none => false),
           r.all (fun (_, n) => match n with | some h => equalsIdentical geosIdCfg h0 h | none => false))
        | _ => (true, true)
      Driver.joinWith " | " strs ++ s!" # idem={b01 idem} canon={b01 canon} eqx={b01 eqx} eqi={b01 eqi}"
  | _ => "bad-line"

def classLine (line : String) : String :=
  match Driver.tokens line with
  | "N" :: rest =>
    match parseGroup rest with
    | some (g :: _) => "class=" ++ hypClass geosCfg g.g
    | _ => "parse-error"
  | _ => "bad-line"


/-! ## exact geometry for the checkers -/
open GeosModel.Kernel GeosModel.Construct

/-- sections of a case line: tag ↦ tokens -/
def sections (toks : List String) : List (String × List String) :=
  (splitBar toks).filterMap fun ts => match ts with | t :: r => some (t, r) | [] => none

def sec (ss : List (String × List String)) (tag : String) : Option (List String) := ss.lookup tag

def parseGeomOpt (ts : List String) : Option G :=
  match parseGeom ts with
  | some (g, []) => some g.g
  | _ => none

mutual
  partial def seqsOf : G → List CSeq
    | .point s => [s]
    | .lineString s => [s]
    | .linearRing s => [s]
    | .circularString s => [s]
    | .polygon sh hs => sh :: hs
    | .compoundCurve gs => gs.flatMap seqsOf
    | .curvePolygon gs => gs.flatMap seqsOf
    | .multiPoint gs => gs.flatMap seqsOf
    | .multiLineString gs => gs.flatMap seqsOf
    | .multiPolygon gs => gs.flatMap seqsOf
    | .multiCurve gs => gs.flatMap seqsOf
    | .multiSurface gs => gs.flatMap seqsOf
    | .collection gs => gs.flatMap seqsOf
end

def coordsOf (g : G) : List Coord := (seqsOf g).flatMap (·.pts)
def xyBits (cs : List Coord) : List UInt64 := cs.flatMap fun p => [p.x, p.y]

/-- conversion of doubles to integers over the common power of two of `bits` -/
structure Conv where
  e0 : Int
def Conv.int (cv : Conv) (u : UInt64) : Int := match F64.dyadic u with | some d => F64.scaleTo cv.e0 d | none => 0
def Conv.pt (cv : Conv) (p : Coord) : Pt := ⟨cv.int p.x, cv.int p.y⟩
def Conv.pts (cv : Conv) (l : List Coord) : List Pt := l.map cv.pt
def mkConv (bits : List UInt64) : Option Conv := (F64.scaleAll bits).map fun (e0, _) => ⟨e0⟩

def children : G → List G
  | .compoundCurve gs => gs | .curvePolygon gs => gs | .multiPoint gs => gs | .multiLineString gs => gs
  | .multiPolygon gs => gs | .multiCurve gs => gs | .multiSurface gs => gs | .collection gs => gs
  | _ => []

/-- polygons (as shell :: holes), lines, points of a geometry, flattened -/
partial def polysOf : G → List (List CSeq)
  | .polygon sh hs => if sh.pts.isEmpty then [] else [sh :: hs]
  | g => (children g).flatMap polysOf
partial def linesOf : G → List CSeq
  | .lineString s => if s.pts.isEmpty then [] else [s]
  | .linearRing s => if s.pts.isEmpty then [] else [s]
  | g => (children g).flatMap linesOf
partial def pointsOf : G → List Coord
  | .point s => s.pts
  | g => (children g).flatMap pointsOf

def absI (n : Int) : Int := (n.natAbs : Int)

def scaleOf (pts : List Pt) : Int := max 1 (maxL 0 (pts.flatMap fun p => [absI p.x, absI p.y]))

/-- hull output as seen by the checker -/
def hullOut (cv : Conv) : G → Option HullOut
  | .point s => match s.pts with | [] => some .empty | [p] => some (.point (cv.pt p)) | _ => none
  | .lineString s => match s.pts with | [] => some .empty | [a, b] => some (.segment (cv.pt a) (cv.pt b)) | _ => none
  | .polygon sh [] => if sh.pts.isEmpty then some .empty else some (.ring (cv.pts sh.pts))
  | .collection [] => some .empty
  | .multiPoint [] => some .empty
  | .multiLineString [] => some .empty
  | .multiPolygon [] => some .empty
  | _ => none

def tolQ (scale : Int) : Q := ⟨scale, 1000000000⟩      -- 1e-9 · scale

/-- `|a − b| ≤ rel·max(a,b) + abs²`-style closeness of two non-negative squared quantities:
`a ≤ b(1+4e-9) + eps` and `b ≤ a(1+4e-9) + eps` with `eps = (1e-9·scale)²` -/
def nearSq (a b : Q) (scale : Int) : Bool :=
  let eps : Q := ⟨scale * scale, 1000000000 * 1000000000⟩
  let f : Q := ⟨250000001, 250000000⟩
  a.le ((b.mul f).add eps) && b.le ((a.mul f).add eps)

/-- signed-ring list for the area centroid (`Centroid::addShell` / `addHole`) -/
def centroidRings (cv : Conv) (polys : List (List CSeq)) : List (Int × List Pt) :=
  polys.flatMap fun rs => match rs with
    | [] => []
    | sh :: hs =>
      let shp := cv.pts sh.pts
      ((if isCCWPts shp then (-1 : Int) else 1), shp) ::
        (hs.filter (fun h => !h.pts.isEmpty)).map fun h => let hp := cv.pts h.pts; ((if isCCWPts hp then (1 : Int) else -1), hp)

def segLen2 (e : Pt × Pt) : Int := sqDist e.1 e.2

/-- the linework `Centroid` accumulates (polygon rings and lines), per sequence -/
def centroidSeqs (cv : Conv) (g : G) : List (List Pt) :=
  ((polysOf g).flatMap fun rs => (rs.filter (fun r => !r.pts.isEmpty)).map fun r => cv.pts r.pts) ++ (linesOf g).map fun s => cv.pts s.pts

/-- exact (to 2^-80 relative in the line case) centroid following `Centroid`'s dimension fallback -/
def centroidSpec (cv : Conv) (g : G) : Option (Q × Q) :=
  match centroidArea (centroidRings cv (polysOf g)) with
  | some c => some c
  | none =>
    let seqs := centroidSeqs cv g
    let segs := seqs.flatMap edges
    match centroidLine 80 segs with
    | some c => some c
    | none =>
      -- zero-length linework counts as a point (its first coordinate)
      let extra := seqs.filterMap fun s => s.head?
      centroidPts (cv.pts (pointsOf g) ++ extra)

def checkCentroid (cv : Conv) (g : G) (out : G) (scale : Int) : Bool :=
  match centroidSpec cv g, out with
  | none, .point s => s.pts.isEmpty
  | some (cx, cy), .point s =>
    match s.pts with
    | [p] => Q.near (Q.ofInt (cv.int p.x)) cx (tolQ scale) && Q.near (Q.ofInt (cv.int p.y)) cy (tolQ scale)
    | _ => false
  | _, _ => false

def ringsOfPoly (cv : Conv) (rs : List CSeq) : List (List Pt) := (rs.filter fun r => !r.pts.isEmpty).map fun r => cv.pts r.pts

def polyArea2 (rs : List (List Pt)) : Int :=
  match rs with
  | [] => 0
  | sh :: hs => absI (area2 sh) - hs.foldl (fun acc h => acc + absI (area2 h)) 0

def firstCoordOK (polys : List (List (List Pt))) (q : Pt) : Bool :=
  polys.any fun rs => match rs with | (p :: _) :: _ => decide (p = q) | _ => false

/-- `scale · 2^80 / 1e9` : the 1e-9 tolerance in the units of `nearestOK 80` -/
def tolN (scale : Int) : Nat := scale.toNat * 2 ^ 80 / 1000000000

/-- point on surface / interior point.
* property (label `point-on-surface`): for a valid geometry with a polygon of positive area the answer lies in the
  strict interior of one of its polygons (`posCheck`)
* model (labels `…-model`): `InteriorPointArea` (grid inputs: the answer is the midpoint of a widest section of the
  modelled scan line of one of the polygons, its ordinate equal to the modelled scan ordinate exactly),
  `InteriorPointLine` (an interior vertex when there is one, else an end point; nearest to the centroid),
  `InteriorPointPoint` (a point nearest to the centroid); the class is chosen by `getDimension()` like the code does -/
def checkPos (cv : Conv) (g : G) (out : G) (valid grid : Bool) (scale : Int) : List String :=
  match out with
  | .point s =>
    let dim := dimP1 g
    let polysAll := (polysOf g).map (ringsOfPoly cv)
    let areal := polysAll.filter fun rs => polyArea2 rs > 0
    match s.pts with
    | [] =>
      if dim == 3 then
        (if valid && !areal.isEmpty then ["point-on-surface"] else if polysAll.isEmpty then [] else ["pos-empty-model"])
      else if dim == 2 then (if (linesOf g).isEmpty then [] else ["pos-empty-model"])
      else if dim == 1 then (if (pointsOf g).isEmpty then [] else ["pos-empty-model"])
      else []
    | [p] =>
      let q := cv.pt p
      if dim == 3 then
        let prop := if !areal.isEmpty && valid && !(areal.any fun rs => posCheck rs q) then ["point-on-surface"] else []
        let model :=
          if polysAll.isEmpty then ["pos-area-model"] else
          if !grid then (if areal.isEmpty && !memB q (polysAll.flatMap fun rs => rs.flatMap id) then ["pos-area-model"] else []) else
          let cands := ipaCandidates polysAll
          let maxW := ipaMaxWidth polysAll
          let tol := tolQ scale
          let okCand := cands.any fun c =>
            decide (2 * q.y = c.2.1) && Q.near (Q.ofInt q.x) c.1 tol && (Q.sub maxW c.2.2).le tol && (⟨0, 1⟩ : Q).lt c.2.2
          let okFirst := maxW.le tol && firstCoordOK polysAll q
          if okCand || okFirst then [] else ["pos-area-model"]
        prop ++ model
      else if dim == 2 then
        let lines := (linesOf g).map fun l => cv.pts l.pts
        let cands := lineCandidates lines
        if !memB q cands then ["pos-line-model"] else
        match centroidSpec cv g with
        | some c => if nearestOK 80 (tolN scale) cands c q then [] else ["pos-line-nearest-model"]
        | none => []
      else if dim == 1 then
        let pts := cv.pts (pointsOf g)
        if !memB q pts then ["pos-point-model"] else
        match centroidSpec cv g with
        | some c => if nearestOK 80 (tolN scale) pts c q then [] else ["pos-point-nearest-model"]
        | none => []
      else ["pos-empty-model"]
    | _ => ["pos-shape-model"]
  | _ => ["pos-shape-model"]

def parseHexes : List String → Option (List UInt64) := fun l => l.mapM Driver.parseHex64

structure Mbc where
  sup : List Coord
  radius : UInt64
  cx : UInt64
  cy : UInt64
  hasCentre : Bool

def parseMbc : List String → Option Mbc
  | k :: r => do
    let k ← k.toNat?
    let supToks := r.take (2 * k)
    let rest := r.drop (2 * k)
    let sup ← parseHexes supToks
    let rec pair : List UInt64 → List Coord
      | x :: y :: r => ⟨x, y, nanBits, nanBits⟩ :: pair r
      | _ => []
    match rest with
    | ["R", rad, "none"] => do let rad ← Driver.parseHex64 rad; some ⟨pair sup, rad, 0, 0, false⟩
    | ["R", rad, cx, cy] => do
      let rad ← Driver.parseHex64 rad; let cx ← Driver.parseHex64 cx; let cy ← Driver.parseHex64 cy
      some ⟨pair sup, rad, cx, cy, true⟩
    | _ => none
  | _ => none

/-- tolerant version of `mbcCheck` for full-precision inputs (near-cocircular points): support ⊆ inputs, every
input within `r(1+2e-9) + 1e-9·scale` of the exact centre, non-obtuse up to `1e-9·scale²` -/
def mbcApprox (pts sup : List Pt) (scale : Int) : Bool :=
  sup.all (fun a => memB a pts) &&
  match mbcCentre sup, sup with
  | some (cx, cy), a :: _ =>
    let d2 := fun (p : Pt) =>
      let dx := Q.sub (Q.ofInt p.x) cx
      let dy := Q.sub (Q.ofInt p.y) cy
      Q.add (Q.mul dx dx) (Q.mul dy dy)
    let r2 := d2 a
    let eps : Q := ⟨scale * scale, 1000000000 * 1000000000⟩
    let f : Q := ⟨250000001, 250000000⟩
    let slack : Int := -(scale * scale)
    pts.all (fun p => (d2 p).le ((r2.mul f).add eps)) &&
    (match sup with
     | [a, b, c] => decide (slack ≤ dot a b c * 1000000000) && decide (slack ≤ dot b a c * 1000000000) &&
                    decide (slack ≤ dot c a b * 1000000000)
     | _ => true)
  | _, _ => false

def checkMbc (cv : Conv) (exact : Bool) (pts : List Pt) (m : Mbc) (scale : Int) : List String :=
  let sup := cv.pts m.sup
  if !(mbcCheck pts sup || (!exact && mbcApprox pts sup scale)) then
    [if sup.isEmpty && !pts.isEmpty && pts.all (fun p => decide (p = pts.headD ⟨0, 0⟩)) then "mbc-support(all-points-equal)" else "mbc-support"] else
  match mbcCentre sup with
  | none => if m.hasCentre then ["mbc-centre"] else []
  | some (cx, cy) =>
    if !m.hasCentre then ["mbc-centre"] else
    let okc := Q.near (Q.ofInt (cv.int m.cx)) cx (tolQ scale) && Q.near (Q.ofInt (cv.int m.cy)) cy (tolQ scale)
    -- radius² against the exact squared distance from the exact centre to the first support point
    let r := Q.ofInt (cv.int m.radius)
    let a := sup.headD ⟨0, 0⟩
    let dx := Q.sub (Q.ofInt a.x) cx
    let dy := Q.sub (Q.ofInt a.y) cy
    let r2 := Q.add (Q.mul dx dx) (Q.mul dy dy)
    let okr := nearSq (Q.mul r r) r2 scale
    (if okc then [] else ["mbc-centre"]) ++ (if okr then [] else ["mbc-radius"])

/-- the hull ring has a corner whose turning angle has a sine below 1e-12 (nearly collinear consecutive vertices) -/
def nearCollinearCorner (r : List Pt) : Bool :=
  (cornerTurns r).any fun t =>
    let d := det t.1 t.2.1 t.2.2
    decide (d * d * 1000000000000 * 1000000000000 ≤ sqDist t.1 t.2.1 * sqDist t.2.1 t.2.2)

def hullClass (pts : List Pt) (hull : Option HullOut) (scale : Int) : String :=
  match hull with
  | some (.ring r) =>
    let thin := match minWidth2 pts r with
      | some w => w.le ⟨scale * scale, 1000000 * 1000000⟩
      | none => true
    if thin then "(thin-hull)" else if nearCollinearCorner r then "(near-collinear-hull-vertices)" else ""
  | _ => ""

def checkMinWidth (cv : Conv) (pts : List Pt) (hull : Option HullOut) (out : G) (scale : Int) : List String :=
  let len2 : Option Int := match out with
    | .lineString s => match s.pts with
      | [] => if pts.isEmpty then some 0 else none
      | [a, b] => some (sqDist (cv.pt a) (cv.pt b))
      | _ => none
    | _ => none
  match len2 with
  | none => ["minwidth-shape"]
  | some l2 =>
    let exact : Q := match hull with
      | some (.ring r) => (minWidth2 pts r).getD ⟨0, 1⟩
      | _ => ⟨0, 1⟩
    if nearSq (Q.ofInt l2) exact scale then [] else ["minwidth-value" ++ hullClass pts hull scale]

def checkMinRect (cv : Conv) (pts : List Pt) (hull : Option HullOut) (out : G) (scale : Int) : List String :=
  let outPts := cv.pts (coordsOf out)
  -- the rectangle corners are intersections of lines given by `a·y − b·x = c` with un-translated coordinates;
  -- their rounding noise is far above 1e-9 of the coordinate magnitude, so 1e-6 is used here
  let tol2 : Q := ⟨scale * scale, 1000000 * 1000000⟩
  match hull with
  | some (.ring r) =>
    match out with
    | .polygon sh [] =>
      let rp := cv.pts sh.pts
      if rp.length != 5 then ["minrect-shape"] else
      let a2 := absI (area2 rp)
      let exact := (minRectArea pts r).getD ⟨0, 1⟩
      -- areas: |A − A*| ≤ 1e-9·(A* + scale²)
      let okA := Q.near ⟨a2, 2⟩ exact (Q.mul ⟨1, 1000000⟩ (Q.add exact (Q.ofInt (scale * scale))))
      -- containment: every input point within 1e-9·scale of the inner side of every rectangle edge
      let sgn : Int := if area2 rp ≥ 0 then 1 else -1
      let okC := (edges rp).all fun e =>
        let l2 := sqDist e.1 e.2
        pts.all fun p =>
          let d := sgn * det e.1 e.2 p
          decide (d ≥ 0) || Q.le ⟨d * d, 1⟩ (Q.mul tol2 (Q.ofInt l2))
      -- thin hulls and hulls with nearly collinear consecutive vertices are reported as their own classes
      let sfx := hullClass pts hull scale
      (if okA then [] else ["minrect-area" ++ sfx]) ++ (if okC then [] else ["minrect-contains" ++ sfx])
    | _ => ["minrect-shape"]
  | _ =>
    -- degenerate input (hull is empty, a point or a segment): zero-area output holding every input point
    let okZero := match out with
      | .polygon sh [] => absI (area2 (cv.pts sh.pts)) == 0
      | .lineString _ => true
      | .point _ => true
      | _ => false
    let okC := match boxOf pts, boxOf outPts with
      | none, none => true
      | some b, some b' =>
        let t := scale   -- 1e-9·scale, compared after multiplying by 1e9
        decide ((b.minx - b'.minx) * 1000000000 ≥ -t) && decide ((b'.maxx - b.maxx) * 1000000000 ≥ -t) &&
        decide ((b.miny - b'.miny) * 1000000000 ≥ -t) && decide ((b'.maxy - b.maxy) * 1000000000 ≥ -t)
      | _, _ => false
    (if okZero then [] else ["minrect-shape"]) ++ (if okC then [] else ["minrect-contains"])

def verdict (bad : List String) : String :=
  if bad.isEmpty then "ok" else "violated:" ++ Driver.joinWith "," bad.eraseDups

def geomSec (ss : List (String × List String)) (tag : String) : Option (Option G) :=
  match sec ss tag with
  | none => none
  | some ["err"] => some none
  | some ts => (parseGeomOpt ts).map some

def constructLine (line : String) : String :=
  let ss := sections (Driver.tokens line)
  match geomSec ss "G" with
  | some (some g) =>
    let outs := ["H", "E", "C", "M", "W"].filterMap fun t => match geomSec ss t with | some (some o) => some o | _ => none
    let posSec := sec ss "S"
    let (posG, valid) : Option G × Bool := match posSec with
      | some ts => match ts.reverse with
        | v :: r => (parseGeomOpt r.reverse, v == "1")
        | [] => (none, false)
      | none => (none, false)
    let mbc := (sec ss "B").bind parseMbc
    let mbcBits : List UInt64 := match mbc with
      | some m => xyBits m.sup ++ [m.radius] ++ (if m.hasCentre then [m.cx, m.cy] else [])
      | none => []
    let allBits := xyBits (coordsOf g) ++ outs.flatMap (fun o => xyBits (coordsOf o)) ++
      (match posG with | some o => xyBits (coordsOf o) | none => []) ++ mbcBits
    match mkConv allBits with
    | none => "non-finite"
    | some cv =>
      let pts := cv.pts (coordsOf g)
      let scale := scaleOf pts
      let hull : Option HullOut := match geomSec ss "H" with | some (some o) => hullOut cv o | _ => none
      let bad : List String :=
        (match geomSec ss "H" with
         | some (some _) => (match hull with
            | some h => if (if sec ss "K" == some ["grid"] then hullCheck pts h else hullCheckWeak pts h) then [] else
                -- an exactly collinear run of output vertices points at the inexact orientation predicate
                [if (match h with | .ring r => (cornerTurns r).any (fun t => det t.1 t.2.1 t.2.2 == 0) | _ => false)
                 then "hull(exactly-collinear-hull-vertices)" else "hull"]
            | none => ["hull-shape"])
         | some none => ["hull-error"] | none => []) ++
        (match geomSec ss "E" with
         | some (some o) => if envCheck pts (cv.pts (coordsOf o)) then [] else ["envelope"]
         | some none => ["envelope-error"] | none => []) ++
        (match geomSec ss "C" with
         | some (some o) => if checkCentroid cv g o scale then [] else ["centroid"]
         | some none => ["centroid-error"] | none => []) ++
        (match posSec, posG with
         | some ["err"], _ => ["pos-error"]
         | some _, some o => checkPos cv g o valid (sec ss "K" == some ["grid"]) scale
         | some _, none => ["pos-parse"]
         | none, _ => []) ++
        (match sec ss "B", mbc with
         | some ["err"], _ => ["mbc-error"]
         | some _, some m => checkMbc cv (sec ss "K" == some ["grid"]) pts m scale
         | some _, none => ["mbc-parse"]
         | none, _ => []) ++
        (match geomSec ss "W" with
         | some (some o) => checkMinWidth cv pts hull o scale
         | some none => ["minwidth-error"] | none => []) ++
        (match geomSec ss "M" with
         | some (some o) => checkMinRect cv pts hull o scale
         | some none => ["minrect-error"] | none => [])
      verdict bad
  | _ => "parse-error"


/-! ## invariants -/

/-- value of a double divided by `2^shift`, as a rational (0 for non-finite) -/
def dyadicQ (u : UInt64) (shift : Int) : Q :=
  match F64.dyadic u with
  | none => ⟨0, 1⟩
  | some (m, e) => if m == 0 then ⟨0, 1⟩ else
    if e - shift ≥ 0 then ⟨m * (2 : Int) ^ (e - shift).toNat, 1⟩ else ⟨m, 2 ^ (shift - e).toNat⟩

/-- twice the area `Geometry::getArea` approximates, in squared integer units -/
def exactArea2 (cv : Conv) (g : G) : Int :=
  ((polysOf g).map fun rs => polyArea2 (ringsOfPoly cv rs)).foldl (· + ·) 0

/-- lower bound of the length `Geometry::getLength` approximates, times `2^80`, and the number of segments -/
def exactLen (cv : Conv) (g : G) : Nat × Nat :=
  let segs := (centroidSeqs cv g).flatMap edges
  (segs.foldl (fun acc e => acc + sqrtScaled 80 (sqDist e.1 e.2).natAbs) 0, segs.length)

def tok4 (ts : List String) : Option (String × String × String × String) :=
  match ts with | [a, b, c, d] => some (a, b, c, d) | _ => none

def eqTok (ts : List String) : Bool := match ts with | a :: r => r.all (fun x => x == a || x == "x") | [] => true

def invariantsLine (line : String) : String :=
  let ss := sections (Driver.tokens line)
  let exact := sec ss "I" == some ["grid"]
  match sec ss "G" with
  | none => "parse-error"
  | some gts =>
    match parseGeom gts with
    | some (gg, []) =>
      let g := gg.g
      let gdump := showGeom gg
      let str := fun (tag : String) => match sec ss tag with | some ts => Driver.joinWith " " ts | none => "?"
      let curved := unsupported g
      let nrm := normalizeApi geosCfg g
      let bad1 : List String :=
        (if str "R" == showGeom ⟨gg.srid, reverse g⟩ then [] else ["reverse-model"]) ++
        (if str "RR" == gdump then [] else ["reverse-reverse"]) ++
        (if str "CL" == gdump then [] else ["clone"]) ++
        (if str "N" == (match nrm with | some h => showGeom ⟨gg.srid, h⟩ | none => "err") then [] else ["normalize-model"])
      -- counts and dimension
      let np := (sec ss "NP").getD []
      let ng := (sec ss "NG").getD []
      let dm := (sec ss "D").getD []
      let bad2 : List String :=
        (if np.head? == some (toString (numPoints g)) then [] else ["numpoints-model"]) ++
        (if eqTok np then [] else
          [if hypClass geosCfg g == "repeated-min-vertex" then "numpoints-invariant(repeated-min-vertex)" else "numpoints-invariant"]) ++
        (if ng.head? == some (toString (numGeoms g)) then [] else ["numgeoms-model"]) ++
        (if eqTok ng then [] else ["numgeoms-invariant"]) ++
        (if dm.head? == some (toString ((dimP1 g : Int) - 1)) then [] else ["dimension-model"]) ++
        (if eqTok dm then [] else ["dimension-invariant"])
      -- equality predicates
      let xs := (sec ss "X").getD []
      let bstr := fun (b : Bool) => if b then "1" else "0"
      let revg := reverse g
      let expectX : List String :=
        [bstr (equalsExact geosCfg g g), bstr (equalsExact geosCfg g revg),
         (match nrm with | some h => bstr (equalsExact geosCfg g h) | none => "x"),
         bstr (equalsIdentical geosIdCfg g g), bstr (equalsIdentical geosIdCfg g revg),
         (match nrm with | some h => bstr (equalsIdentical geosIdCfg g h) | none => "x")]
      let bad3 : List String := if xs == expectX then [] else ["equals-model"]
      -- area and length against the exact values
      let bad4 : List String :=
        if curved then [] else
        match mkConv (xyBits (coordsOf g)) with
        | none => ["non-finite"]
        | some cv =>
          let pts := cv.pts (coordsOf g)
          let scale := scaleOf pts
          let a2 := exactArea2 cv g
          let (l80, nseg) := exactLen cv g
          let areaExact : Q := ⟨a2, 2⟩
          let lenExact : Q := ⟨l80, 2 ^ 80⟩
          let tolA : Q := if exact then ⟨0, 1⟩ else ⟨scale * scale, 1000000000⟩
          let tolL : Q := Q.add (Q.mul ⟨1, 1000000000⟩ (Q.add lenExact (Q.ofInt scale))) ⟨nseg + 1, 2 ^ 80⟩
          let okA := ((sec ss "A").getD []).all fun t => t == "x" ||
            (match Driver.parseHex64 t with | some u => Q.near (dyadicQ u (2 * cv.e0)) areaExact tolA | none => false)
          let okL := ((sec ss "L").getD []).all fun t => t == "x" ||
            (match Driver.parseHex64 t with | some u => Q.near (dyadicQ u cv.e0) lenExact tolL | none => false)
          (if okA then [] else ["area"]) ++ (if okL then [] else ["length"])
      verdict (bad1 ++ bad2 ++ bad3 ++ bad4)
    | _ => "parse-error"


/-! ## sequences of operations on an object and its copies -/

def fnv (s : String) : UInt64 :=
  s.toUTF8.foldl (fun h b => (h ^^^ b.toUInt64) * 0x100000001b3) 0xcbf29ce484222325

def dumpNoSrid (g : G) : String := Driver.joinWith " " (showG g)

/-- `getGeometryN(k)`: the k-th element of a collection, the geometry itself (k = 0) otherwise -/
def subGeom (g : G) (k : Nat) : Option G :=
  match g with
  | .multiPoint gs => gs[k]? | .multiLineString gs => gs[k]? | .multiPolygon gs => gs[k]?
  | .multiCurve gs => gs[k]? | .multiSurface gs => gs[k]? | .collection gs => gs[k]?
  | g => if k == 0 then some g else none

/-- the coordinates `getEnvelopeInternal()` looks at: a polygon's envelope is its shell's -/
partial def envCoords : G → List Coord
  | .polygon sh _ => sh.pts
  | g => match children g with
    | [] => coordsOf g
    | ks => ks.flatMap envCoords

/-- bounds of the XY of the envelope coordinates as integer keys (minx, miny, maxx, maxy) -/
def keyBox (g : G) : Option (Int × Int × Int × Int) :=
  match envCoords g with
  | [] => none
  | p :: r =>
    let xs := r.map fun c => F64.key c.x
    let ys := r.map fun c => F64.key c.y
    some (minL (F64.key p.x) xs, minL (F64.key p.y) ys, maxL (F64.key p.x) xs, maxL (F64.key p.y) ys)

/-- a ring with one or two points: `normalize()` can leave one behind (each call drops a vertex of a ring whose
smallest vertex is repeated — the known `repeated-min-vertex` behaviour), and the `LinearRing` constructor, which
`reverse()` goes through, rejects it -/
partial def hasShortRing : G → Bool
  | .linearRing s => 0 < s.pts.length && s.pts.length < 3
  | .polygon sh hs => (sh :: hs).any fun s => 0 < s.pts.length && s.pts.length < 3
  | g => (children g).any hasShortRing

/-- `GEOSReverse_r`: error, or the reversed geometry -/
def reverseApi (g : G) : Option G := if hasShortRing g then none else some (reverse g)

structure SeqState where
  regs : Array (Option G)
  seen : List (String × String)
  bad : List String

def SeqState.reg (st : SeqState) (i : String) : Option G := (i.toNat?.bind fun k => st.regs[k]?).join

def SeqState.push (st : SeqState) (g : Option G) (res : String) (label : String) : SeqState :=
  let st := { st with regs := st.regs.push g }
  if (res == "x") == g.isNone then st else { st with bad := label :: st.bad }

/-- an observation must not depend on what was called before: equal values give equal answers -/
def SeqState.observe (st : SeqState) (obs : String) (g : G) (res : String) : SeqState :=
  let key := obs ++ " " ++ dumpNoSrid g
  match st.seen.lookup key with
  | some r0 => if r0 == res then st else { st with bad := s!"sequence-unstable({obs})" :: st.bad }
  | none => { st with seen := (key, res) :: st.seen }

def sgnStr (v : Int) : String := if v < 0 then "-1" else if v > 0 then "1" else "0"

def seqObserve (st : SeqState) (flag : SeqState → Bool → String → SeqState) (obs i : String) (res : List String) : SeqState :=
    match st.reg i with
    | none => flag st (res == ["x"]) "sequence-bad-op-model"
    | some g =>
      let r := Driver.joinWith " " res
      let st := st.observe obs g r
      let model : Option String :=
        if obs == "np" then some (toString (numPoints g))
        else if obs == "ng" then some (toString (numGeoms g))
        else if obs == "dim" then some (toString ((dimP1 g : Int) - 1))
        else if obs == "emp" then some (b01 (coordsOf g).isEmpty)
        else if obs == "dmp" then some (hex64 (fnv (dumpNoSrid g)))
        else none
      let st := match model with
        | some m => flag st (m == r) s!"sequence-{obs}-model"
        | none => st
      if obs == "env" && !unsupported g then
        let ok := match keyBox g, res.mapM Driver.parseHex64 with
          | none, _ => res == ["x"]
          | some (a, b, c, d), some [x0, y0, x1, y1] => F64.key x0 == a && F64.key y0 == b && F64.key x1 == c && F64.key y1 == d
          | _, _ => false
        flag st ok "sequence-envelope-model"
      else st

def seqStep (g0 : G) (st : SeqState) (op : List String) : SeqState :=
  let flag := fun (st : SeqState) (ok : Bool) (label : String) => if ok then st else { st with bad := label :: st.bad }
  match op with
  | ["bd", res] => st.push (some g0) res "sequence-build-model"
  | ["cl", i, res] => st.push (st.reg i) res "sequence-clone-model"
  | ["rv", i, res] => st.push ((st.reg i).bind reverseApi) res "sequence-reverse-model"
  | ["nm", i, res] => st.push ((st.reg i).bind (normalizeApi geosCfg)) res "sequence-normalize-model"
  | ["sub", i, k, res] => st.push ((st.reg i).bind fun g => k.toNat?.bind (subGeom g)) res "sequence-sub-model"
  | ["NM", i, res] =>
    match i.toNat?, st.reg i with
    | some k, some g =>
      (match normalizeApi geosCfg g with
       | some h => flag { st with regs := st.regs.set! k (some h) } (res == "ok") "sequence-normalize-model"
       | none => flag st (res == "x") "sequence-normalize-model")
    | _, _ => flag st (res == "x") "sequence-bad-op-model"
  | [q, i, j, res] =>
    if q != "eqx" && q != "eqi" && q != "cmp" then seqObserve st flag q i [j, res] else
    match st.reg i, st.reg j with
    | some a, some b =>
      let same := dumpNoSrid a == dumpNoSrid b
      if q == "eqx" || q == "eqi" then
        let m := if q == "eqx" then equalsExact geosCfg a b else equalsIdentical geosIdCfg a b
        if res == b01 m then st
        else if same && res == "0" then { st with bad := s!"sequence-equals(identical-values)" :: st.bad }
        else { st with bad := "sequence-equals-model" :: st.bad }
      else if q == "cmp" then
        if res == sgnStr (cmpG geosCfg a b) then st
        else if same then { st with bad := "sequence-compare(identical-values)" :: st.bad }
        else { st with bad := "sequence-compare-model" :: st.bad }
      else flag st false "sequence-bad-op-model"
    | _, _ => flag st (res == "x") "sequence-bad-op-model"
  | obs :: i :: res => seqObserve st flag obs i res
  | _ => flag st false "sequence-bad-op-model"

def sequenceLine (line : String) : String :=
  let ss := sections (Driver.tokens line)
  match (sec ss "G").bind fun ts => match parseGeom ts with | some (g, []) => some g.g | _ => none with
  | none => "parse-error"
  | some g =>
    let ops := ss.filterMap fun (t, r) => if t == "O" then some r else none
    let st := ops.foldl (seqStep g) ⟨#[some g], [], []⟩
    verdict st.bad.reverse

def compareLine (line : String) : String :=
  match Driver.tokens line with
  | "P" :: rest =>
    match parseGroup rest with
    | some [a, b] =>
      let sg := fun (v : Int) => if v < 0 then "-1" else if v > 0 then "1" else "0"
      s!"{sg (cmpG geosCfg a.g b.g)} {sg (cmpG geosCfg b.g a.g)} {sg (cmpG geosCfg a.g a.g)}"
    | _ => "parse-error"
  | _ => "bad-line"

def handle (stream : String) : String → String :=
  match stream with
  | "normalize" => normalizeLine
  | "normclass" => classLine
  | "construct" => constructLine
  | "pos" => constructLine
  | "sequence" => sequenceLine
  | "compare" => compareLine
  | "invariants" => invariantsLine
  | _ => fun _ => "unknown-stream"

end Driver.C20

def main (args : List String) : IO UInt32 := do
  match args with
  | [stream] =>
    let stdin ← IO.getStdin
    let stdout ← IO.getStdout
    Driver.loop stdin stdout (Driver.C20.handle stream)
    return 0
  | _ =>
    IO.eprintln "usage: drv_c20 <stream>"
    return 2
