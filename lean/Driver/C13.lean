import Driver.Common
import GeosModel.Model.Conc.Interleave
import GeosModel.Model.Conc.Cells
import GeosModel.Model.Conc.IndexedLocate
import GeosModel.Generated.Globals
/-! Driver for C13.
* `threads`: a case of the multi-threaded harness, abstracted to the process-wide cells its calls touch
  (`requested`, `callback`, the default factory's `_refCount`), is run on the interleaving model under
  several schedules; prints `ok` when every schedule gives every thread its sequential transcript
  (the model's prediction of what the harness must observe), `schedule-dependent` otherwise.
* `inventory`: prints the generated inventory (name, kind, type class) one cell per line — used by the check
  to cross-examine the exception list (no stdin). -/
namespace Driver.C13
open GeosModel.Conc

/-- cells of the abstraction: 0 = Interrupt `requested`, 1 = Interrupt `callback`, 2 = `_refCount` -/
def eventsOf : Char → List Event
  | 'n' => [.write 0 0, .rmw 2 1]                                  -- GEOS_init_r: Interrupt::cancel(); context's point2d
  | 'x' => [.rmw 2 (-1)]                                           -- GEOS_finish_r
  | 'g' => [.rmw 2 1, .out 1, .rmw 2 (-1)]                         -- creates and destroys private geometries
  | 'p' => [.rmw 2 1, .read 1, .read 0, .out 2, .rmw 2 (-1)]       -- polls: reads callback and requested
  | 'r' => [.out 3]                                                -- read-only call on a shared immutable geometry
  | _ => []

def progOf (scripts : List String) : Prog := fun t =>
  match scripts[t]? with
  | some s => s.toList.flatMap eventsOf
  | none => []

/-- run to completion choosing the next thread among the unfinished ones with `pick` -/
def runAll (n : Nat) (pick : Nat → Nat → Nat) : Nat → Nat → St → St
  | 0, _, s => s
  | fuel + 1, i, s =>
    let live := (List.range n).filter (fun t => !(s.rest t).isEmpty)
    match live with
    | [] => s
    | _ =>
      let t := live[pick i live.length % live.length]?.getD 0
      match step s t with
      | some s' => runAll n pick fuel (i + 1) s'
      | none => s

def lcg (seed : Nat) (i : Nat) : Nat := ((seed + i) * 6364136223846793005 + 1442695040888963407) / 65536 % 4294967296

def checkCase (scripts : List String) (seed : Nat) : String :=
  let n := scripts.length
  let p := progOf scripts
  let mem0 : CellId → Val := fun _ => 0
  let total := (List.range n).foldl (fun a t => a + (p t).length) 0
  let picks : List (Nat → Nat → Nat) :=
    [fun _ _ => 0, fun _ k => k - 1, fun i _ => i, fun i _ => lcg seed i, fun i _ => lcg (seed + 7) (3 * i), fun i _ => lcg (seed * 31 + 5) i,
     fun i _ => lcg (seed + 99) (i / 2)]
  let okFor (pick : Nat → Nat → Nat) : Bool :=
    let s := runAll n pick (total + 1) 0 (St.init mem0 p)
    (List.range n).all (fun t => (s.rest t).isEmpty && s.out t == seqTranscript mem0 (p t))
  if picks.all okFor then "ok" else "schedule-dependent"

def threads (line : String) : String :=
  match Driver.tokens line with
  | "T" :: _n :: seed :: "|" :: rest =>
    let scripts := (rest.filter (· ≠ ";"))
    checkCase scripts (seed.toNat?.getD 1)
  | _ => "bad-line"

/-! ### stream `sharedlocate`: the location letters of every thread's points, from rings and points alone -/
open GeosModel.Kernel in
def takePts : Nat → List Int → Option (List Pt × List Int)
  | 0, r => some ([], r)
  | n + 1, x :: y :: r => (takePts n r).map (fun (ps, r') => (⟨x, y⟩ :: ps, r'))
  | _ + 1, _ => none

open GeosModel.Kernel in
def takeGroups : Nat → List Int → Option (List (List Pt) × List Int)
  | 0, r => some ([], r)
  | n + 1, k :: r => do
    let (ps, r') ← takePts k.toNat r
    let (gs, r'') ← takeGroups n r'
    some (ps :: gs, r'')
  | _ + 1, [] => none

def letter : GeosModel.Kernel.Loc → Char
  | .interior => 'I'
  | .boundary => 'B'
  | .exterior => 'E'

def sharedlocate (line : String) : String :=
  match Driver.tokens line with
  | "SL" :: t :: _rounds :: nr :: rest =>
    match t.toNat?, nr.toNat?, rest.mapM String.toInt? with
    | some t, some nr, some ints =>
      match takeGroups nr ints with
      | some (rings, r) =>
        match takeGroups t r with
        | some (pts, []) =>
          Driver.joinWith ";" (pts.map (fun qs =>
            if qs.isEmpty then "-" else String.ofList (qs.map (fun q => letter (GeosModel.Conc.Locate.locate rings q)))))
        | _ => "bad-line"
      | none => "bad-line"
    | _, _, _ => "bad-line"
  | _ => "bad-line"

def kindStr : CellKind → String
  | .global => "global" | .functionStatic => "functionStatic" | .guard => "guard" | .mutableMember => "mutableMember"
def tyStr : TyClass → String
  | .atomic => "atomic" | .mutex => "mutex" | .threadLocal => "threadLocal" | .constAfterInit => "constAfterInit"
  | .guard => "guard" | .plain => "plain"

end Driver.C13

def main (args : List String) : IO UInt32 := do
  let stdin ← IO.getStdin
  let stdout ← IO.getStdout
  match args with
  | ["threads"] => Driver.loop stdin stdout Driver.C13.threads; return 0
  | ["sharedlocate"] => Driver.loop stdin stdout Driver.C13.sharedlocate; return 0
  | ["inventory"] =>
    for c in GeosModel.Generated.Globals.cells do
      stdout.putStrLn s!"{c.name}\t{Driver.C13.kindStr c.kind}\t{Driver.C13.tyStr c.ty}\t{c.lib}\t{c.loc}\t{c.decl}"
    return 0
  | _ => IO.eprintln "usage: drv_c13 threads|sharedlocate|inventory"; return 2
