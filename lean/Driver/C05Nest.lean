import Driver.ValidLib
import GeosModel.Model.Valid.RingNested
/-! Stream `ring-nested` of the C05 driver: `R x y x y … | x y x y …` (test ring | target ring, integer coordinates) →
the Lean copy of `PolygonTopologyAnalyzer::isRingNested` (`1`, `0`, `X` = the C++ would throw).  When the two rings are
simple and do not cross or overlap (the precondition under which `IsValidOp` calls the function; decided with the
intersection rule of the reference evaluator) the answer is also compared with the exact containment reference
`ringInRing` (every piece of the test ring between consecutive cuts lies strictly inside the target ring); a difference
is appended as `ref=…` and so shows up as a disagreement with the implementation's bare answer. -/
namespace Driver.C05
open GeosModel GeosModel.Kernel GeosModel.Valid Driver.Flatten

def parsePts : List String → Option (List Pt)
  | [] => some []
  | x :: y :: r =>
    match x.toInt?, y.toInt?, parsePts r with
    | some a, some b, some t => some (⟨a, b⟩ :: t)
    | _, _, _ => none
  | _ => none

/-- `dbg`: also say whether the containment reference was applicable (`ref:all/any`) or not (`ref:na`) -/
def ringNestedCore (dbg : Bool) (line : String) : String :=
  match splitBar (Driver.tokens line) with
  | ["R" :: t1, t2] =>
    match parsePts t1, parsePts t2 with
    | some test, some target =>
      let m := match isRingNested test target with
        | some b => b01 b
        | none => "X"
      let dt := dedup test
      let dg := dedup target
      if dt.length < 4 || dg.length < 4 || !isClosedSeq dt || !isClosedSeq dg then (if dbg then s!"{m} ref:na" else m)
      else if (areaIntersections false (polySegs [[dt], [dg]])).isSome then (if dbg then s!"{m} ref:na" else m)
      else
        let mids := cellMids dt (ringGeomSegs dg)
        let all := mids.all fun x => insideRingH x dg
        let any := mids.any fun x => insideRingH x dg
        if all != any then s!"{m} refsplit"
        else if b01 all != m then s!"{m} ref={b01 all}"
        else if dbg then s!"{m} ref:{b01 all}" else m
    | _, _ => "parse-error"
  | _ => "bad-line"

def ringNested (line : String) : String := ringNestedCore false line
def ringNestedDbg (line : String) : String := ringNestedCore true line

end Driver.C05
