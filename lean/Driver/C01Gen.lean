import GeosModel.Base.IM
import GeosModel.Generated.IMPreds
/-!
`drv_c01gen`: exhaustive comparison of the regenerated `IntersectionMatrix` predicates (Generated/IMPreds.lean) with the
hand-written model (Base/IM) over the whole finite domain that occurs: entries in {F,0,1,2} (and True = −2 for `matches`),
dimension arguments in −1..2, all pattern symbols.  Used by checks/C01.py to look for a distinguishing argument when a
`gen_*_eq` proof no longer checks.  Prints one line per differing function (`DIFF <fn> <arguments> generated=.. model=..`)
and `SCAN-DONE <count>`.
-/
open GeosModel GeosModel.Generated

def vals : List Int := [-1, 0, 1, 2]
def dimsL : List Int := [-1, 0, 1, 2]

def mats : List IM := Id.run do
  let mut out : List IM := []
  for a in vals do for b in vals do for c in vals do for d in vals do for e in vals do for f in vals do
    for g in vals do for h in vals do
      out := ⟨a, b, c, d, e, f, g, h, 2⟩ :: out
  return out

def firstDiff1 (name : String) (g md : IM → Bool) : Option String :=
  match mats.find? (fun m => g m != md m) with
  | some m => some s!"DIFF {name} matrix={m.toStr} generated={g m} model={md m}"
  | none => none

def firstDiff2 (name : String) (g md : IM → Int → Int → Bool) : Option String := Id.run do
  for a in dimsL do for b in dimsL do
    match mats.find? (fun m => g m a b != md m a b) with
    | some m => return some s!"DIFF {name} matrix={m.toStr} dimA={a} dimB={b} generated={g m a b} model={md m a b}"
    | none => pure ()
  return none

def main : IO UInt32 := do
  let mut diffs : List String := []
  for v in [-3, -2, -1, 0, 1, 2, 3] do for c in ['*', 'T', 'F', '0', '1', '2', 'x', 't'] do
    if IMPreds.matchesDim v c != IM.matchesSym v c then
      diffs := s!"DIFF matches value={v} symbol={c} generated={IMPreds.matchesDim v c} model={IM.matchesSym v c}" :: diffs
  let unary : List (String × (IM → Bool) × (IM → Bool)) :=
    [("isDisjoint", IMPreds.isDisjoint, IM.isDisjoint), ("isIntersects", IMPreds.isIntersects, IM.isIntersects),
     ("isWithin", IMPreds.isWithin, IM.isWithin), ("isContains", IMPreds.isContains, IM.isContains),
     ("isCovers", IMPreds.isCovers, IM.isCovers), ("isCoveredBy", IMPreds.isCoveredBy, IM.isCoveredBy)]
  for (n, g, md) in unary do
    match firstDiff1 n g md with | some s => diffs := s :: diffs | none => pure ()
  let binary : List (String × (IM → Int → Int → Bool) × (IM → Int → Int → Bool)) :=
    [("isTouches", IMPreds.isTouches, IM.isTouches), ("isCrosses", IMPreds.isCrosses, IM.isCrosses),
     ("isEquals", IMPreds.isEquals, IM.isEquals), ("isOverlaps", IMPreds.isOverlaps, IM.isOverlaps)]
  for (n, g, md) in binary do
    match firstDiff2 n g md with | some s => diffs := s :: diffs | none => pure ()
  for d in diffs.reverse do IO.println d
  IO.println s!"SCAN-DONE {diffs.length}"
  return 0
