import Driver.C05Pair
import GeosModel.Model.Valid.SelfNode
import GeosModel.Model.Valid.NestedTester
/-! Streams `self-node` and `nested-tester` of the C05 driver.

`self-node`: `S shell | x y … | i j i j …` — one closed integer ring without repeated points, used as a shell (`1`) or as a
hole (`0`), and the sequence of segment-index pairs `PolygonIntersectionAnalyzer::processIntersections` was called with
(flag on) → the Lean copy's recorded code (`-1` none) and interior self node (`x y` or `-`)
(`GeosModel.Valid.selfTouchVerdict`).

`nested-tester`: `T | x y … ; x y … / x y … | r` — the elements of an integer MultiPolygon (`/` between elements, `;` between
rings, shell first) and what `IndexedNestedPolygonTester` answered (`0`, `1 x y`, `X` = exception) → `ok` when that is what
the Lean copy `GeosModel.Valid.isNested` answers.  The spatial index hands the candidates to the C++ loop in an order the
model does not fix, so for the reported point every candidate that yields a nested point for the first element that has one
is accepted (the boolean must be equal). -/
namespace Driver.C05
open GeosModel GeosModel.Kernel GeosModel.Valid Driver.Flatten

def pairsOfIdx : List String → Option (List (Nat × Nat))
  | [] => some []
  | a :: b :: r =>
    match a.toNat?, b.toNat?, pairsOfIdx r with
    | some i, some j, some t => some ((i, j) :: t)
    | _, _, _ => none
  | _ => none

def ptStr (p : Pt) : String := s!"{p.x} {p.y}"

def selfNodeLine (line : String) : String :=
  match splitBar (Driver.tokens line) with
  | [["S", sh], t1, t2] =>
    match parsePts t1, pairsOfIdx t2 with
    | some ring, some idx =>
      let segs := ringSegs 0 0 ring
      match idx.mapM (fun ij => match segs[ij.1]?, segs[ij.2]? with
          | some s, some t => some (s, t)
          | _, _ => none) with
      | some pairs =>
        let v := selfTouchVerdict (sh == "1") ring pairs
        let node := match v.2 with
          | some p => ptStr p
          | none => "-"
        s!"{codeStr v.1} {node}"
      | none => "bad-index"
    | _, _ => "parse-error"
  | _ => "bad-line"

/-- split a token list at a separator token -/
def splitAt (sep : String) (l : List String) : List (List String) :=
  let r := l.foldl (fun (acc : List (List String) × List String) t =>
    if t == sep then (acc.1 ++ [acc.2], []) else (acc.1, acc.2 ++ [t])) ([], [])
  r.1 ++ [r.2]

def parsePolys (toks : List String) : Option (List Poly) :=
  (splitAt "/" toks).mapM fun pt => (splitAt ";" pt).mapM parsePts

/-- the results of the inner loop of `isNested` for every element, in element order -/
def hitLists (pre : List Poly) : List Poly → List (List (Option (Option Pt)))
  | [] => []
  | a :: post => ((pre ++ post).filterMap (candidate a)) :: hitLists (pre ++ [a]) post

def nestedTesterLine (line : String) : String :=
  match splitBar (Driver.tokens line) with
  | [["T"], t1, impl] =>
    match parsePolys t1 with
    | some polys =>
      let lists := hitLists [] polys
      -- the first element whose candidates give a nested point or an exception decides
      let first := lists.find? fun l => l.any fun x => match x with
        | none => true
        | some (some _) => true
        | some none => false
      let model := isNested polys
      let modelStr := match model with
        | none => "X"
        | some none => "0"
        | some (some p) => s!"1 {ptStr p}"
      match first with
      | none => if impl == ["0"] && model == some none then "ok" else s!"bad model={modelStr}"
      | some l =>
        let pts := l.filterMap fun x => x.join
        let throws := l.any (·.isNone)
        let consistent := match model with       -- the deterministic model's answer is one of the admissible ones
          | none => throws
          | some none => false
          | some (some p) => pts.contains p
        if !consistent then s!"bad driver-inconsistent model={modelStr}"
        else match impl with
          | ["X"] => if throws then "ok" else s!"bad model={modelStr}"
          | ["1", x, y] =>
            match x.toInt?, y.toInt? with
            | some a, some b => if pts.contains ⟨a, b⟩ then "ok" else s!"bad model={modelStr} admissible={" ".intercalate (pts.map ptStr)}"
            | _, _ => "parse-error"
          | _ => s!"bad model={modelStr}"
    | none => "parse-error"
  | _ => "bad-line"

end Driver.C05
