import Driver.Common
import Driver.GTreeIO
import Driver.Flatten
import GeosModel.Base.F64
import GeosModel.Model.Relate.Ref
import GeosModel.Model.Buffer.Fillet
import GeosModel.Model.Buffer.Params
import GeosModel.Model.Buffer.Spec
import GeosModel.Model.Buffer.Rings
/-!
Driver for C06.

* stream `buffer`: one buffer / offset-curve call per line (input tokens, parameters, GEOS's result tokens).  The
  driver scales everything to integers, builds exact rational sample locations, asks the specification
  (`Model/Buffer/Spec.lean`) whether each location must be inside / outside, decides membership in the RETURNED
  geometry exactly (even–odd over homogeneous points) and reports the first contradiction.
* stream `rings`: noded edge sets with result flags; the rings `Model/Buffer/Rings.lean` assembles (as directed-edge cycles with
  their shell / hole flag) against MaximalEdgeRing / MinimalEdgeRing called directly and against PolygonBuilder's polygons.
* stream `fillet`: `nSegs` / number of emitted arc vertices of `addDirectedFillet` against `Model/Buffer/Fillet.lean`.
* stream `params`: accept / reject and stored / effective parameters against `Model/Buffer/Params.lean`.
-/
deriving instance Inhabited for GeosModel.Relate.Seg

namespace Driver.C06
open GeosModel GeosModel.Relate GeosModel.Kernel GeosModel.Buffer Driver.Flatten

def kv (l : List String) : List (String × String) :=
  l.filterMap fun t => match t.splitOn "=" with
    | [k, v] => some (k, v)
    | _ => none

/-! ### small exact helpers -/

def ratOfDyadic (d : Int × Int) (e0 : Int) : Rat :=
  -- value m·2^e in units of 2^e0
  if d.2 ≥ e0 then ((d.1 * (2 : Int) ^ (d.2 - e0).toNat : Int) : Rat)
  else (d.1 : Rat) / (((2 : Int) ^ (e0 - d.2).toNat : Int) : Rat)

def ratAbs (r : Rat) : Rat := if r < 0 then -r else r

/-- a dyadic rational within a factor `1 ± 2⁻⁴⁰` of `r > 0`, not larger (`up = false`) / not smaller (`up = true`) than `r` -/
def approxDyadic (r : Rat) (up : Bool) : Rat :=
  if r ≤ 0 then 0 else
  let nb := r.num.toNat.log2
  let db := r.den.log2
  -- r ≈ 2^(nb-db); scale so that the integer part has about 44 bits
  let k : Int := 44 - ((nb : Int) - (db : Int))
  let scaled : Rat := if k ≥ 0 then r * (((2 : Int) ^ k.toNat : Int) : Rat) else r / (((2 : Int) ^ (-k).toNat : Int) : Rat)
  let i : Int := if up then scaled.ceil else scaled.floor
  if k ≥ 0 then (i : Rat) / (((2 : Int) ^ k.toNat : Int) : Rat) else (i : Rat) * (((2 : Int) ^ (-k).toNat : Int) : Rat)

/-- `p = v + (ux, uy)·s` as a normalised homogeneous point (`v` integer, `s` rational) -/
def offsetPt (vx vy : Rat) (ux uy : Rat) : HPt :=
  let x := vx + ux; let y := vy + uy
  let w : Int := (Int.lcm x.den y.den : Nat)
  HPt.norm ⟨x.num * (w / x.den), y.num * (w / y.den), w⟩

/-- unit directions with rational coordinates (Pythagorean triples, all symmetries) -/
def unitDirs : List (Rat × Rat) :=
  let base : List (Int × Int × Int) := [(1, 0, 1), (3, 4, 5), (5, 12, 13), (8, 15, 17), (7, 24, 25), (20, 21, 29), (12, 35, 37), (9, 40, 41)]
  base.flatMap fun (a, b, c) =>
    let l : List (Int × Int) := [(a, b), (-a, b), (a, -b), (-a, -b), (b, a), (-b, a), (b, -a), (-b, -a)]
    l.eraseDups.map fun (x, y) => ((x : Rat) / (c : Rat), (y : Rat) / (c : Rat))

/-- radical inverse of `i` in base `b` -/
def radInv (b : Nat) (i : Nat) : Rat :=
  let rec go (fuel i : Nat) (f acc : Rat) : Rat :=
    match fuel with
    | 0 => acc
    | fuel + 1 => if i == 0 then acc else go fuel (i / b) (f / (b : Rat)) (acc + f / (b : Rat) * ((i % b : Nat) : Rat))
  go 64 i 1 0

def rotate {α} (l : List α) (k : Nat) : List α := if l.isEmpty then l else let k := k % l.length; l.drop k ++ l.take k

/-- every `step`-th element starting at `off`, at most `n` -/
def pick {α} (l : List α) (n off : Nat) : List α :=
  if l.length ≤ n then l else
  let step := l.length / n
  ((List.range n).filterMap fun i => l[(off + i * step) % l.length]?)

/-- approximate `√(n/d)` in per-mille of `ref` (for reporting only) -/
def permille (q : Q) (ref2 : Q) : Nat :=
  -- sqrt(q/ref2)*1000
  if ref2.n ≤ 0 || q.n < 0 || q.d ≤ 0 || ref2.d ≤ 0 then 0 else
  let num := q.n.toNat * ref2.d.toNat * 1000000
  let den := q.d.toNat * ref2.n.toNat
  if den == 0 then 0 else (num / den).sqrt

def showH (p : HPt) : String := s!"{p.x}/{p.w},{p.y}/{p.w}"

/-! ### the result geometry -/

def ringPts (toI : UInt64 → Int) (s : CSeq) : List Pt := s.pts.map fun c => ⟨toI c.x, toI c.y⟩

/-- polygons of a polygonal result; `none` if the result is not Polygon / MultiPolygon -/
def resultPolys (toI : UInt64 → Int) : G → Option (List (List (List Pt)))
  | .polygon sh hs => if sh.pts.isEmpty then some [] else some [ringPts toI sh :: (hs.filter (!·.pts.isEmpty)).map (ringPts toI)]
  | .multiPolygon gs => gs.foldlM (fun acc g => match g with
      | .polygon sh hs => if sh.pts.isEmpty then some acc else some (acc ++ [ringPts toI sh :: (hs.filter (!·.pts.isEmpty)).map (ringPts toI)])
      | _ => none) []
  | _ => none

/-- lines of a lineal result -/
partial def resultLines (toI : UInt64 → Int) : G → Option (List (List Pt))
  | .lineString s | .linearRing s => some (if s.pts.isEmpty then [] else [ringPts toI s])
  | .multiLineString gs | .collection gs => gs.foldlM (fun acc g => (resultLines toI g).map (acc ++ ·)) []
  | _ => none

/-- light exact ring check: closed, at least 4 points, no repeated consecutive point, non-zero area -/
def ringOK (r : List Pt) : Bool :=
  r.length ≥ 4 && r.head? == r.getLast? && (edges r).all (fun e => e.1 != e.2) && area2 r != 0

/-- exact simplicity of one ring (quadratic; only used on small rings): non-adjacent edges do not meet -/
def ringSimple (r : List Pt) : Bool :=
  let es := (edges r).toArray
  let n := es.size
  (List.range n).all fun i => (List.range n).all fun j =>
    if j ≤ i + 1 || (i == 0 && j == n - 1) then true
    else segRel es[i]!.1 es[i]!.2 es[j]!.1 es[j]!.2 == SegRel.disjoint

/-! ### stream buffer -/

structure Case where
  mode : String
  d : Rat              -- signed distance in integer units
  q : Int
  cap : Int
  join : Int
  mitre : UInt64
  ss : Bool
  left : Bool
  polyValid : Bool

structure Radii where
  rIn : Rat            -- documented inner radius (may be ≤ 0)
  rInG : Rat           -- gross inner radius
  rOut : Rat
  rOutG : Rat
  fJoin2 : Rat
  fCap2 : Rat
  tol : Rat

def sq (r : Rat) : Rat := r * r
def optSq (r : Rat) : Option Q := if r > 0 then some (qOfRat (sq r)) else none

def mitreRat (m : UInt64) : Option Rat :=
  match F64.dyadic m with
  | some d => some (ratOfDyadic d 0)
  | none => none

/-- squared factor by which a join may exceed the distance: mitre apex ≤ limit·d, limited mitre ≤ √(1+limit²)·d -/
def joinFactor2 (j : Join) (m : UInt64) : Rat :=
  match j with
  | .mitre => match mitreRat m with
    | some l => if l < 0 then 1 else 1 + l * l
    | none => 1
  | _ => 1

def capFactor2 (c : Cap) : Rat := if c == .square then 2 else 1

def mkRadii (c : Case) (qEff : Int) (join : Join) (cap : Cap) (maxAbs : Int) : Radii :=
  let ad := ratAbs c.d
  -- 16 ulps of the largest coordinate (coordinates are doubles: nothing finer than that can be promised)
  let lg : Int := (maxAbs.toNat.log2 : Int) - 48
  let tol : Rat := if lg ≥ 0 then (((2 : Int) ^ lg.toNat : Int) : Rat) else 1 / (((2 : Int) ^ (-lg).toNat : Int) : Rat)
  { rIn := innerDoc qEff * ad - tol, rInG := innerStep qEff * ad - tol,
    rOut := outerDoc * ad + tol, rOutG := outerSimp * ad + tol,
    fJoin2 := joinFactor2 join c.mitre, fCap2 := capFactor2 cap, tol := tol }

structure Probe where
  p : HPt
  kind : String

/-- sample locations for one case -/
def probes (A : Flat) (F : Feat) (r : Radii) (ad : Rat) (salt : Nat) : List Probe :=
  let vertsAll := (A.pts ++ A.lines.flatten ++ A.polys.flatten.flatten).eraseDups
  let segsAll := F.segs.map (·.s)
  let xs := vertsAll.map (·.x); let ys := vertsAll.map (·.y)
  match xs, ys with
  | x0 :: _, y0 :: _ =>
    let xmin := xs.foldl min x0; let xmax := xs.foldl max x0
    let ymin := ys.foldl min y0; let ymax := ys.foldl max y0
    -- (a) low-discrepancy points in the inflated envelope
    let infl : Rat := approxDyadic (ad * 2 + r.tol) true
    let lox : Rat := (xmin : Rat) - infl; let loy : Rat := (ymin : Rat) - infl
    let wx : Rat := ((xmax - xmin : Int) : Rat) + 2 * infl; let wy : Rat := ((ymax - ymin : Int) : Rat) + 2 * infl
    let halton := (List.range 72).map fun i =>
      Probe.mk (offsetPt lox loy (wx * radInv 2 (i + 1 + salt % 7)) (wy * radInv 3 (i + 1 + salt % 5))) "halton"
    -- (b)/(c) radii just inside the must-contain band and just outside the must-exclude band
    let delta : Rat := 1 / 2000
    let rin := if r.rIn > 0 then approxDyadic (r.rIn * (1 - delta)) false else 0
    let rout := if ad == 0 then approxDyadic (r.tol * 8192) true else approxDyadic (r.rOut * (1 + delta)) true
    let routJ := if r.fJoin2 > 1 then approxDyadic (r.rOut * (1 + delta) * ((((r.fJoin2 * 1000000).ceil.toNat.sqrt + 1 : Nat) : Rat) / 1000)) true else rout
    let dirs := rotate unitDirs salt
    let vs := pick vertsAll 10 salt
    let around := vs.flatMap fun v =>
      let ds := pick dirs 10 (salt + v.x.natAbs % 13)
      ds.flatMap fun (ux, uy) =>
        (if rin > 0 then [Probe.mk (offsetPt v.x v.y (ux * rin) (uy * rin)) "vertex-in"] else []) ++
        [Probe.mk (offsetPt v.x v.y (ux * rout) (uy * rout)) "vertex-out"] ++
        (if routJ != rout then [Probe.mk (offsetPt v.x v.y (ux * routJ) (uy * routJ)) "vertex-out-join"] else [])
    -- along the normals of segments
    let ss := pick segsAll 14 (salt / 3)
    let taus : List Rat := [1 / 2, 1 / 9, 8 / 9, 0, 1]
    let normals := ss.flatMap fun s =>
      let dx : Int := s.q.x - s.p.x; let dy : Int := s.q.y - s.p.y
      let l := s.sqLen.toNat
      -- √l ≈ isq / 2^20
      let isq := (l * 2 ^ 40).sqrt
      if isq == 0 then [] else
      let inv : Rat := (((2 : Int) ^ 20 : Int) : Rat) / (isq : Rat)       -- ≈ 1/√l
      let tsel := pick taus 2 (salt + l % 5)
      tsel.flatMap fun t =>
        let mx : Rat := (s.p.x : Rat) + t * (dx : Rat); let my : Rat := (s.p.y : Rat) + t * (dy : Rat)
        let mk (rad : Rat) (sgn : Rat) (k : String) : Probe :=
          let sc := approxDyadic (rad * inv) (k == "segment-out")
          Probe.mk (offsetPt mx my (-(dy : Rat) * sc * sgn) ((dx : Rat) * sc * sgn)) k
        (if rin > 0 then [mk rin 1 "segment-in", mk rin (-1) "segment-in"] else []) ++
        [mk rout 1 "segment-out", mk rout (-1) "segment-out"]
    halton ++ around ++ normals
  | _, _ => []

def getInt (o : List (String × String)) (k : String) : Option Int := (o.lookup k).bind String.toInt?

/-- check the sample locations; returns the first contradiction -/
def checkSamples (c : Case) (A : Flat) (res : List (List (List Pt))) (maxAbs : Int) (salt : Nat) (big : Bool) (stats : Bool := false) : Option String :=
  let cfgCap := effCap c.cap; let cfgJoin := effJoin c.join
  let qEff := quadSegsEff c.q
  let r := mkRadii c qEff cfgJoin cfgCap maxAbs
  let ad := ratAbs c.d
  let fJ := qOfRat r.fJoin2; let fC := qOfRat r.fCap2
  let m2 := qOfRat (sq (ad / 1000000 + r.tol))
  let F : Feat := if c.d > 0 then featOf cfgCap cfgJoin false A else featPolys cfgJoin A
  let Fprobe : Feat := if c.d > 0 then F else featOf cfgCap cfgJoin false A
  let ps := probes A Fprobe r ad salt
  -- Round joins with round / square caps: the ideal buffer contains the Minkowski sum, so the inner claims hold in
  -- every regime.  Flat caps and mitre / bevel joins "only really make sense for relatively small buffer distances"
  -- (OffsetSegmentGenerator.cpp): their inner claims are made only while |d| ≤ the shortest input segment, and with
  -- a 10 % margin (the input simplification by d/100 moves offset segments of concave corners).
  let strict := cfgJoin == .round && (cfgCap == .round || cfgCap == .square)
  let verdict (p : HPt) (gross : Bool) : Verdict :=
    let rinR : Rat := if gross then r.rInG else r.rIn
    let rin := if strict then optSq rinR else if big then none else optSq (rinR * 9 / 10)
    let rout := qOfRat (sq (if gross then r.rOutG else r.rOut))
    if c.d > 0 then verdictPos F p rin rout m2 fJ fC
    else if c.d < 0 then verdictNeg F p rin rout m2 fJ c.polyValid
    else if c.polyValid then verdictZero F p (qOfRat (sq (r.tol * 4096)))
    else .free          -- buffer(0) of overlapping polygons is outside the property ("a zero-distance buffer of a valid polygon")
  let d2 := qOfRat (sq ad)
  let rec go : List Probe → Option String
    | [] => none
    | pr :: rest =>
      let v := verdict pr.p false
      if v == .free then go rest else
      let w := locateResult res pr.p
      let bad := (v == .mustIn && w == .outside) || (v == .mustOut && w == .inside)
      if !bad then go rest else
      let vg := verdict pr.p true
      let tier := if vg == v then "gross" else "doc"
      let clause := if v == .mustIn then "inner" else "outer"
      let ratio := match Fprobe.dist2 pr.p with | some dd => permille dd d2 | none => 0
      some s!"bad {clause} tier={tier} at={pr.kind} q={qEff} sign={if c.d > 0 then 1 else if c.d < 0 then -1 else 0} ratio={ratio} sample={showH pr.p}"
  if stats then
    -- tallies for the evidence: how many locations were asserted inside / outside / left free / fell on the result boundary
    let t := ps.foldl (fun (t : Nat × Nat × Nat × Nat) pr =>
      match verdict pr.p false with
      | .free => (t.1, t.2.1, t.2.2.1 + 1, t.2.2.2)
      | v => if locateResult res pr.p == .boundary then (t.1, t.2.1, t.2.2.1, t.2.2.2 + 1)
             else if v == .mustIn then (t.1 + 1, t.2.1, t.2.2.1, t.2.2.2) else (t.1, t.2.1 + 1, t.2.2.1, t.2.2.2)) (0, 0, 0, 0)
    some s!"stats in={t.1} out={t.2.1} free={t.2.2.1} bnd={t.2.2.2}"
  else go ps

/-- vertices of an offset curve / single-sided result: within the distance bound and on the requested side -/
def checkVertices (c : Case) (A : Flat) (vs : List Pt) (maxAbs : Int) (lower : Bool) (leftSide : Bool) (polyInput : Bool) (big : Bool) : Option String :=
  let cfgJoin := effJoin c.join
  let qEff := quadSegsEff c.q
  let r := mkRadii c qEff cfgJoin .round maxAbs
  let F := featOf .round cfgJoin true A
  let ad := ratAbs c.d
  let hi2 := qOfRat (sq r.rOut * (if r.fJoin2 > 1 then r.fJoin2 else 1))
  let hi2G := qOfRat (sq r.rOutG * (if r.fJoin2 > 1 then r.fJoin2 else 1))
  let lo2 := optSq r.rIn; let lo2G := optSq r.rInG
  let d2 := qOfRat (sq ad)
  let sideTol : Rat := ad / 1000000 + r.tol
  let sideTol2 := qOfRat (sq sideTol)
  let rec go : List Pt → Option String
    | [] => none
    | v :: rest =>
      let p := HPt.ofPt v
      match F.dist2 p with
      | none => none
      | some dm =>
        let ratio := permille dm d2
        if !dm.le hi2 then some s!"bad far tier={if dm.le hi2G then "doc" else "gross"} q={qEff} ratio={ratio} vertex={showH p}"
        else if lower && (match lo2 with | some l => !l.le dm | none => false) then
          some s!"bad near tier={if (match lo2G with | some l => !l.le dm | none => false) then "gross" else "doc"} q={qEff} ratio={ratio} vertex={showH p}"
        else
          -- side: the vertex lies in the one-sided band of some segment: within the distance bound of it and on the
          -- requested side of its line (or on the line, within tolerance)
          let cand := (F.segs.map (·.s)).filter fun s => (d2Seg p s).le hi2
          let okSide := polyInput || big || cand.isEmpty || cand.any fun s =>
            let dt := detH s.p s.q p
            let sg := if leftSide then dt else -dt
            decide (sg ≥ 0) || (Q.le ⟨dt * dt, s.sqLen⟩ sideTol2)
          if okSide then go rest else
            -- a wrong-side vertex within reach of an end point of a line is the cap edge of the two-sided flat-cap buffer
            let ends := A.lines.flatMap fun l => (l.head?.toList ++ l.getLast?.toList)
            let atEnd := ends.any fun e => (d2Pt p e).le hi2
            some s!"bad {if atEnd then "side-end" else "side"} q={qEff} ratio={ratio} vertex={showH p}"
  go vs

/-- single-sided buffer of lines (area result), only while |d| ≤ the shortest segment: half-way into the band on the
requested side of a segment's midpoint must be inside the result; the mirror location on the other side must be outside
unless another segment is within reach -/
def checkBand (c : Case) (A : Flat) (res : List (List (List Pt))) (maxAbs : Int) (leftSide : Bool) (salt : Nat) : Option String :=
  let cfgJoin := effJoin c.join
  let r := mkRadii c (quadSegsEff c.q) cfgJoin .round maxAbs
  let ad := ratAbs c.d
  let segs := A.lineSegs
  let reach := qOfRat (sq r.rOut * (if r.fJoin2 > 1 then r.fJoin2 else 1))
  let half := approxDyadic (ad / 2) false
  let rec go : List Seg → Option String
    | [] => none
    | s :: rest =>
      let dx : Int := s.q.x - s.p.x; let dy : Int := s.q.y - s.p.y
      let isq := (s.sqLen.toNat * 2 ^ 40).sqrt
      if isq == 0 then go rest else
      let inv : Rat := (((2 : Int) ^ 20 : Int) : Rat) / (isq : Rat)
      let sc := approxDyadic (half * inv) false
      let sgn : Rat := if leftSide then 1 else -1
      let mx : Rat := ((s.p.x + s.q.x : Int) : Rat) / 2; let my : Rat := ((s.p.y + s.q.y : Int) : Rat) / 2
      let pin := offsetPt mx my (-(dy : Rat) * sc * sgn) ((dx : Rat) * sc * sgn)
      let pout := offsetPt mx my ((dy : Rat) * sc * sgn) (-(dx : Rat) * sc * sgn)
      -- the claim is made only when the location is not across another nearby segment (sharp inside turns fold the band over)
      let sameSide := segs.all fun t =>
        !((d2Seg pin t).le reach) ||
        (let dt := detH t.p t.q pin; if leftSide then decide (dt ≥ 0) else decide (dt ≤ 0))
      if sameSide && locateResult res pin == .outside then some s!"bad band-in sample={showH pin}"
      else
        let othersFar := segs.all fun t => t == s || reach.le (d2Seg pout t)
        if othersFar && locateResult res pout == .inside then some s!"bad band-out sample={showH pout}"
        else go rest
  go (pick segs 16 salt)

def checkBuffer (stats : Bool) (line : String) : String :=
  match splitBar (Driver.tokens line) with
  | [["B"], tin, par, st, tres] =>
    let o := kv (par ++ st)
    let get (k : String) : String := (o.lookup k).getD "?"
    match Driver.GTreeIO.parseGeom tin, Driver.parseHex64 (get "d"), Driver.parseHex64 (get "mitre") with
    | some (gin, []), some dbits, some mbits =>
      match Driver.GTreeIO.parseGeom tres with
      | some (gres, []) =>
        let ords := ordsOf gin.g ++ ordsOf gres.g
        match ords.mapM F64.dyadic, F64.dyadic dbits with
        | some ds, some dd =>
          let e0 := F64.minExp ds
          let toI (u : UInt64) : Int := match F64.dyadic u with | some d => F64.scaleTo e0 d | none => 0
          let A := (flattenG toI ⟨Flat.empty, false⟩ gin.g).f
          let c : Case := { mode := get "mode", d := ratOfDyadic dd e0, q := (getInt o "q").getD 8, cap := (getInt o "cap").getD 1,
                            join := (getInt o "join").getD 1, mitre := mbits, ss := get "ss" == "1", left := get "left" == "1",
                            polyValid := get "pv" == "1" }
          let maxAbs := (ds.map fun d => (F64.scaleTo e0 d).natAbs).foldl max 1
          let salt := (dbits.toNat / 8 + c.q.natAbs * 7 + ords.length) % 1000
          -- structural features for finding signatures: is |d| larger than the shortest input segment?  is a closed line present?
          let segL := (A.segs.map (·.sqLen)).filter (· > 0)
          let minL : Int := segL.foldl min (segL.headD 0)
          let big := !segL.isEmpty && decide (sq c.d > (minL : Rat))
          let closed := A.lines.any fun l => l.length ≥ 4 && l.head? == l.getLast?
          -- |d| below 2⁻²⁰ of the largest coordinate: the 12-digit rung of BufferOp's precision ladder is then coarser than 10⁻⁶ d
          let tiny := c.d != 0 && decide (ratAbs c.d * 1048576 < (maxAbs : Rat))
          -- is the input linework "not simple": two segments of the lines meet anywhere except consecutive segments of one line at
          -- their common vertex (and a closed line's first and last segment at the closing vertex), or a line repeats a point
          let lineSegs : List (Nat × Nat × Nat × Bool × Seg) := (A.lines.zipIdx).flatMap fun (l, li) =>
            let es := segsOf l
            let isClosed := l.head? == l.getLast?
            (es.zipIdx).map fun (e, si) => (li, si, es.length, isClosed, e)
          let arr := lineSegs.toArray
          let repeated := A.lines.any fun l => (edges l).any fun e => e.1 == e.2
          -- ... or a vertex of a line lies within rounding distance (64 ulps of the largest coordinate) of a segment it is not an
          -- end point of: contact that the arbitrary-double similarity map has rounded apart
          let lg : Int := (maxAbs.log2 : Int) - 46
          let nearTol : Rat := if lg ≥ 0 then (((2 : Int) ^ lg.toNat : Int) : Rat) else 1 / (((2 : Int) ^ (-lg).toNat : Int) : Rat)
          let nearTol2 := qOfRat (nearTol * nearTol)
          let nearTouch := A.lines.flatten.any fun v => lineSegs.any fun (_, _, _, _, e) =>
            v != e.p && v != e.q && (d2Seg (HPt.ofPt v) e).le nearTol2
          -- ... or (tag `near`) a vertex comes within |d| of a segment it is not an end point of: the one-sided band folds onto the line
          let d2q := qOfRat (sq c.d)
          let selfNear := A.lines.flatten.any fun v => lineSegs.any fun (_, _, _, _, e) =>
            v != e.p && v != e.q && (d2Seg (HPt.ofPt v) e).le d2q
          let selfX := repeated || nearTouch || (List.range arr.size).any fun i => (List.range arr.size).any fun j =>
            if j ≤ i then false
            else
              let (li, si, n, cl, a) := arr[i]!
              let (lj, sj, _, _, b) := arr[j]!
              let r := segRel a.p a.q b.p b.q
              if li == lj && sj == si + 1 then
                -- consecutive segments: retracing exactly, or (rounded coordinates) reversing within 10⁻⁶ rad
                r == SegRel.overlap ||
                (let ux := a.q.x - a.p.x; let uy := a.q.y - a.p.y; let vx := b.q.x - b.p.x; let vy := b.q.y - b.p.y
                 let cr := ux * vy - uy * vx
                 decide (ux * vx + uy * vy < 0) && decide (cr * cr * 1000000000000 ≤ a.sqLen * b.sqLen))
              else if li == lj && cl && si == 0 && sj == n - 1 then r == SegRel.overlap
              else r != SegRel.disjoint
          let tag (e : String) : String := if e == "ok" || e.startsWith "stats" then e else e ++ s!" reg={if big then "big" else "small"} closed={if closed then 1 else 0} selfx={if selfX then 1 else 0} parts={A.lines.length} tiny={if tiny then 1 else 0} near={if selfNear then 1 else 0}"
          tag <|
          if get "st" != "ok" then s!"bad null mode={get "mode"}" else
          if c.mode == "buf" then
            match resultPolys toI gres.g with
            | none => "bad type"
            | some res =>
              if get "valid" != "1" then "bad invalid" else
              let rings := res.flatten
              if !rings.all ringOK then "bad ring" else
              if !(rings.all fun r => r.length > 80 || ringSimple r) then "bad ring-self-intersection" else
              if c.ss then
                let left := c.d > 0
                match checkVertices c A rings.flatten (Int.ofNat maxAbs) false left (!A.polys.isEmpty) big with
                | some e => e ++ " mode=ss"
                | none =>
                  if big || !A.polys.isEmpty || !A.pts.isEmpty then "ok" else
                  match checkBand c A res (Int.ofNat maxAbs) left salt with
                  | some e => e ++ " mode=ss"
                  | none => "ok"
              else
                match checkSamples c A res (Int.ofNat maxAbs) salt big stats with
                | some e => e
                | none => "ok"
          else
            -- offset curve / GEOSSingleSidedBuffer: lineal result
            match resultLines toI gres.g with
            | none => "bad type"
            | some ls =>
              if get "valid" != "1" then "bad invalid" else
              let left := if c.mode == "ssb" then c.left else c.d > 0
              -- lower bound: only for GEOSOffsetCurve with round joins (bevels / mitres cut corners; GEOSSingleSidedBuffer has flat caps whose
              -- edges legitimately come closer) and only while |d| ≤ the shortest segment
              match checkVertices c A ls.flatten (Int.ofNat maxAbs) (c.mode == "oc" && effJoin c.join == .round && !big) left (!A.polys.isEmpty) big with
              | some e => e ++ s!" mode={c.mode}"
              | none => "ok"
        | _, _ => "skip non-finite"
      | _ => "parse-error result"
    | _, _, _ => "parse-error"
  | _ => "bad-line"

/-! ### stream fillet: `F q tbits` → `nSegs interior` -/

def checkFillet (line : String) : String :=
  match Driver.tokens line with
  | ["F", tb] =>
    match (Driver.parseHex64 tb).bind F64.dyadic with
    | some d =>
      let t := ratOfDyadic d 0
      -- the double quotient carries rounding error: answer "edge" next to a rounding boundary of t + 1/2
      let x := t + 1 / 2
      let fr := x - (x.floor : Rat)
      if fr < 1 / 1000000 || fr > 999999 / 1000000 then "edge"
      else s!"{filletInterior t}"
    | none => "parse-error"
  | _ => "bad-line"

/-! ### stream rings: `G | k x0 y0 … f b | …` → `S:ids;H:ids;… | same` -/

def parseREdge (ts : List String) : Option Rings.REdge :=
  match ts.mapM String.toInt? with
  | some (k :: rest) =>
    let n := k.toNat
    if rest.length != 2 * n + 2 || n < 2 then none else
    let rec pts : Nat → List Int → List Pt
      | 0, _ => []
      | m + 1, x :: y :: r => ⟨x, y⟩ :: pts m r
      | _, _ => []
    let fl := rest.drop (2 * n)
    some { pts := pts n rest, fwd := fl[0]? == some 1, bwd := fl[1]? == some 1 }
  | _ => none

def canonRing (g : Rings.Graph) (r : List Nat) : String :=
  let m := r.foldl min (r.headD 0)
  let i := (r.findIdx? (· == m)).getD 0
  (if Rings.isHole g r then "H:" else "S:") ++ ",".intercalate ((r.drop i ++ r.take i).map toString)

def checkRings (line : String) : String :=
  match splitBar (Driver.tokens line) with
  | ["G"] :: es =>
    match (es.filter fun p => p.head? != some "T").mapM parseREdge with
    | some edges =>
      let g : Rings.Graph := { edges := edges.toArray }
      if !Rings.linksInjective g then "links-not-injective" else
      let sorted (l : List String) : List String := (l.toArray.qsort (· < ·)).toList
      let dash (l : List String) : String := if l.isEmpty then "-" else ";".intercalate l
      let direct := match Rings.assemble g with
        | none => "throw"
        | some rs => dash (sorted (rs.map (canonRing g)))
      let built := match Rings.polygons g with
        | none => "throw"
        | some ps => dash (sorted (ps.map fun p => canonRing g p.shell ++ "[" ++ "/".intercalate (sorted (p.holes.map (canonRing g))) ++ "]"))
      direct ++ " | " ++ built
    | none => "parse-error"
  | _ => "bad-line"

/-! ### stream params -/

def parseSetter : List String → Option Setter
  | ["q", v] => v.toInt?.map .quad
  | ["c", v] => v.toInt?.map .cap
  | ["j", v] => v.toInt?.map .join
  | ["m", v] => (Driver.parseHex64 v).map .mitre
  | ["s", v] => v.toInt?.map .single
  | _ => none

def showCfg (c : Config) : String :=
  s!"{c.quadSegs} {c.endCap} {c.join} {Driver.GTreeIO.hex64 c.mitre} {if c.singleSided then 1 else 0}"

def optNat : Option Nat → String
  | some n => toString n
  | none => "x"

def probesOf (c : Config) : String := s!"{pointProbe c} {optNat (cornerProbe c)}"

def checkParams (line : String) : String :=
  match splitBar (Driver.tokens line) with
  | ["S"] :: sets =>
    -- setter sequence on a GEOSBufferParams object: return codes, the stored object, then two probe buffers
    match sets.mapM parseSetter with
    | some ss =>
      let (c, rs) := runSetters Config.default ss
      let codes := String.ofList (rs.map fun b => if b then '1' else '0')
      let pr := if !c.singleSided && c.quadSegs ≤ 64 then probesOf c else "-"
      s!"{codes} | {showCfg c} | probes {pr}"
    | none => "parse-error"
  | [["W", q, cap, join, m]] =>
    match q.toInt?, cap.toInt?, join.toInt?, Driver.parseHex64 m with
    | some q, some cap, some join, some m =>
      match (Entry.withStyle q cap join m).config with
      | none => "rej"
      | some c => s!"ok {probesOf c}"
    | _, _, _, _ => "parse-error"
  | [["G", q]] =>
    match q.toInt? with
    | some q => match (Entry.buffer q).config with
      | none => "rej"
      | some c => s!"ok {probesOf c}"
    | none => "parse-error"
  | [["O", q, join, m]] =>
    match q.toInt?, join.toInt?, Driver.parseHex64 m with
    | some q, some join, some m =>
      match (Entry.offsetCurve q join m).config.bind cornerProbe with
      | none => "null"
      | some k => s!"ok {k}"
    | _, _, _ => "parse-error"
  | [["D", q, join, m, l]] =>
    match q.toInt?, join.toInt?, Driver.parseHex64 m, l.toInt? with
    | some q, some join, some m, some l =>
      match (Entry.singleSidedBuffer q join m l).config with
      | none => "null"
      | some c =>
        -- the two-sided flat-cap buffer is built first, so the outside join exists whichever side is asked for
        match cornerProbe c with
        | none => "null"
        | some k => if leftSideOf l then "ok L" else s!"ok R {k}"
    | _, _, _, _ => "parse-error"
  | _ => "bad-line"

end Driver.C06

def main (args : List String) : IO UInt32 := do
  match args with
  | ["buffer"] | ["contact"] => Driver.loop (← IO.getStdin) (← IO.getStdout) (Driver.C06.checkBuffer false); return 0
  | ["buffer-stats"] => Driver.loop (← IO.getStdin) (← IO.getStdout) (Driver.C06.checkBuffer true); return 0
  | ["rings"] => Driver.loop (← IO.getStdin) (← IO.getStdout) Driver.C06.checkRings; return 0
  | ["fillet"] => Driver.loop (← IO.getStdin) (← IO.getStdout) Driver.C06.checkFillet; return 0
  | ["params"] => Driver.loop (← IO.getStdin) (← IO.getStdout) Driver.C06.checkParams; return 0
  | _ => IO.eprintln "usage: drv_c06 buffer|fillet|params"; return 2
