import Driver.Common
import Driver.GTreeIO
import GeosModel.Base.F64
import GeosModel.Model.Relate.Agree
import GeosModel.Model.Relate.RectFast
import GeosModel.Model.Relate.ScratchPoint
import GeosModel.Model.Relate.Converse
import GeosModel.Base.Env
import Driver.Flatten
/-! Driver for C02: evaluates `consistent` (Model/Relate/Agree.lean) on the observation the harness made,
plus the rectangle-variant and XY-form equalities. -/
namespace Driver.C02
open GeosModel GeosModel.Relate Driver.Flatten

/-- (hasPoints, hasLines(non zero-length), hasZeroLenLines, hasAreas) ignoring empties -/
partial def classify (acc : Bool × Bool × Bool × Bool) : G → Bool × Bool × Bool × Bool
  | .point s => if s.pts.isEmpty then acc else (true, acc.2.1, acc.2.2.1, acc.2.2.2)
  | .lineString s | .linearRing s =>
    match s.pts with
    | [] => acc
    | p :: r =>
      let zero := r.all fun c => F64.key c.x == F64.key p.x && F64.key c.y == F64.key p.y
      if zero then (acc.1, acc.2.1, true, acc.2.2.2) else (acc.1, true, acc.2.2.1, acc.2.2.2)
  | .polygon sh _ => if sh.pts.isEmpty then acc else (acc.1, acc.2.1, acc.2.2.1, true)
  | .multiPoint gs | .multiLineString gs | .multiPolygon gs | .collection gs => gs.foldl classify acc
  | _ => acc

/-- `RelateGeometry::getDimensionReal` and emptiness -/
def dimReal (g : G) : Int × Bool :=
  let (p, l, z, a) := classify (false, false, false, false) g
  if !(p || l || z || a) then (-1, true)
  else if a then (2, false) else if l then (1, false) else (0, false)

def parseIM (s : String) : Option IM :=
  match s.toList.map (fun c => if c == 'F' then (-1 : Int) else if c == '0' then 0 else if c == '1' then 1 else if c == '2' then 2 else -9) with
  | [a, b, c, d, e, f, g, h, i] => if [a, b, c, d, e, f, g, h, i].any (· == -9) then none else some ⟨a, b, c, d, e, f, g, h, i⟩
  | _ => none

def parseBools (s : String) : Option (List Bool) :=
  s.toList.mapM fun c => if c == '1' then some true else if c == '0' then some false else none

def kv (l : List String) : List (String × String) :=
  l.filterMap fun t => match t.splitOn "=" with
    | [k, v] => some (k, v)
    | _ => none

/-- positions (0-based) where two answer lists differ, joined by '+' -/
def diffIdx (a b : List Bool) : String :=
  "+".intercalate (((List.range (max a.length b.length)).filter fun i => a[i]? != b[i]?).map toString)

def check (line : String) : String :=
  match splitBar (Driver.tokens line) with
  | [["D"], ta, tb, obs] =>
    match Driver.GTreeIO.parseGeom ta, Driver.GTreeIO.parseGeom tb with
    | some (ga, []), some (gb, []) =>
      let (dA, ea) := dimReal ga.g
      let (dB, eb) := dimReal gb.g
      let o := kv obs
      let get (k : String) : String := (o.lookup k).getD "?"
      let pats := ((get "pat").splitOn ",").filterMap fun t =>
        match t.splitOn ":" with
        | [p, res] => match res.toList with
          | [a, b] => some (p.toList, a == '1', b == '1', a == 'E' || b == 'E')
          | _ => none
        | _ => none
      match parseIM (get "m"), parseIM (get "mt"), parseIM (get "pm"), parseBools (get "P"), parseBools (get "PB"),
            parseBools (get "Q"), parseBools (get "QB"), parseBools (get "self") with
      | some m, some mt, some pm, some p, some pb, some q, some qb, some self =>
        if pats.any (·.2.2.2) then "bad exception-in-pattern" else
        let ob : Obs := { dA, dB, aEmpty := ea, bEmpty := eb, m, mt, pm, p, pb, q, qb,
                          pats := pats.map (fun x => (x.1, x.2.1, x.2.2.1)), self }
        let nov := match flattenPair ga.g gb.g with
          | some (A, B) => if inexactIncidence A.f B.f then "1" else if nearIncidence A.f B.f then (if exactOverlap A.f B.f then "xo" else "x") else "0"
          | none => "?"
        if !consistent ob then
          -- name the first conjunct that fails
          let why :=
            if mt != m.transpose then s!"transpose m={m.toStr} mt={mt.toStr}"
            else if pm != m then s!"prepared-relate m={m.toStr} pm={pm.toStr}"
            else if (if ea && eb then dropEquals p != dropEquals (predsOf m dA dB) else p != predsOf m dA dB) then s!"named-vs-matrix m={m.toStr} P={get "P"} dims={dA},{dB}"
            else if (if ea && eb then dropEquals pb != dropEquals (predsOf mt dB dA) else pb != predsOf mt dB dA) then s!"named-vs-matrix-swapped mt={mt.toStr} PB={get "PB"} dims={dB},{dA}"
            else if q != prepPredsOf m dA dB then s!"prepared-vs-matrix m={m.toStr} Q={get "Q"} dims={dA},{dB} qdiff={diffIdx q (prepPredsOf m dA dB)}"
            else if qb != prepPredsOf mt dB dA then s!"prepared-vs-matrix-swapped mt={mt.toStr} QB={get "QB"} dims={dB},{dA} qdiff={diffIdx qb (prepPredsOf mt dB dA)}"
            else if !(ob.pats.all fun (pp, r, pr) => r == m.matchesPat pp && pr == r) then s!"pattern m={m.toStr} pat={get "pat"}"
            else s!"self-relations self={get "self"}"
          -- for the self relations the contact that matters is inside A: a vertex of A within rounding distance of another segment of A
          let novSelf := match flattenPair ga.g ga.g with
            | some (A, _) => if inexactIncidence A.f A.f then "1" else "0"
            | none => "?"
          -- a (near-)degenerate contact INSIDE one of the two geometries (a vertex within rounding distance of another segment of the same
          -- geometry, not exactly on it): the noding robustness family again, but not visible in the cross-geometry `nov`
          let snov := match flattenPair ga.g gb.g with
            | some (A, B) => if inexactIncidence A.f A.f || inexactIncidence B.f B.f then "1" else "0"
            | none => "?"
          "bad " ++ why ++ " nov=" ++ (if why.startsWith "self-relations" then novSelf else nov) ++ " snov=" ++ snov
        else if get "QR" != get "Q" then s!"bad prepared-order-dependent Q={get "Q"} QR={get "QR"} nov={nov}"
        else if ea && eb && (get "P").toList[7]? == some '1' && m.toStr == "FFFFFFFF2" then "bad equals-both-empty"
        else
          let rect := get "rect"
          let rectBad := rect != "-" && rect != s!"{get "P"}:{get "Q"}:{get "PB"}"
          if rectBad then s!"bad rectangle-variant rect={rect} expected={get "P"}:{get "Q"}:{get "PB"} nov={nov}"
          else
            let xy := get "xy"
            -- the walk of XY queries: every group is containsXY intersectsXY, prepared contains / intersects of a fresh POINT, unprepared ones
            let walk := if get "xys" == "?" then [] else (get "xys").splitOn ","
            let walkBad := (List.range walk.length).zip walk |>.find? fun (_, grp) =>
              match grp.toList with
              | [a, b, c, d, e, f] => !(a == c && c == e && b == d && d == f && (a == '0' || a == '1') && (b == '0' || b == '1'))
              | _ => true
            match xy.toList, walkBad with
            | [a, b, c, d], none => if a == c && b == d then "ok" else s!"bad xy-forms xy={xy} nov={nov}"
            | _, some (k, grp) => s!"bad xy-sequence k={k} group={grp} xys={get "xys"} nov={nov}"
            | _, none => if xy == "-" then "ok" else "bad xy-format"
      | _, _, _, _, _, _, _, _ => "bad exception-or-unparsable-observation"
    | _, _ => "parse-error"
  | _ => "bad-line"

/-! #### stream im-algebra: `geom::IntersectionMatrix` as a matrix, from the model of Base/IM (the object of the transposition algebra) -/

def loc3 (c : Char) : Option Loc3 := if c == '0' then some .I else if c == '1' then some .B else if c == '2' then some .E else none
def dimOf (c : Char) : Option Int := if c == 'F' then some (-1) else if c == '0' then some 0 else if c == '1' then some 1 else if c == '2' then some 2 else none

def imAlgebra (line : String) : String :=
  match Driver.tokens line with
  | "A" :: m :: pat :: cell :: ops =>
    let step (acc : Option IM) (t : String) : Option IM := do
      let m ← acc
      match t.toList with
      | ['t'] => some m.transpose
      | ['s', a, b, d] => some (m.set (← loc3 a) (← loc3 b) (← dimOf d))
      | ['l', a, b, d] => some (m.raise (← loc3 a) (← loc3 b) (← dimOf d))
      | _ => none
    match ops.foldl step (parseIM m), cell.toList with
    | some mf, [ca, cb] =>
      match loc3 ca, loc3 cb with
      | some a, some b =>
        let p := if pat == "-" then [] else pat.toList
        -- `matches` of the transposed matrix with the transposed pattern has the same answer (theorem matchesPat_transpose)
        let mt := if p.length == 9 then (if mf.matchesPat p then "1" else "0") else "X"
        s!"{mf.toStr} {mf.get a b} {mt}{mt}"
      | _, _ => "parse-error"
    | _, _ => "parse-error"
  | _ => "bad-line"

/-! #### stream rect-fast: `RectangleIntersects::intersects` and its callers against Model/Relate/RectFast on lattice input -/
open GeosModel.Kernel GeosModel.RectFast in
def parsePts : Nat → List String → Option (List Pt × List String)
  | 0, r => some ([], r)
  | n + 1, x :: y :: r => do
    let xi ← x.toInt?
    let yi ← y.toInt?
    let (ps, r') ← parsePts n r
    some (⟨xi, yi⟩ :: ps, r')
  | _, _ => none

def parseSeq : List String → Option (List GeosModel.Kernel.Pt × List String)
  | n :: r => do parsePts (← n.toNat?) r
  | [] => none

def parseRings : Nat → List String → Option (List (List GeosModel.Kernel.Pt) × List String)
  | 0, r => some ([], r)
  | n + 1, r => do
    let (ring, r1) ← parseSeq r
    let (rs, r2) ← parseRings n r1
    some (ring :: rs, r2)

open GeosModel.RectFast in
def parseElem : List String → Option Elem
  | ["-"] => none
  | "P" :: r => match parseSeq r with
    | some (ps, []) => some (.point ps)
    | _ => none
  | "L" :: r => match parseSeq r with
    | some (ps, []) => some (.line ps)
    | _ => none
  | "Y" :: n :: r => match n.toNat? with
    | some k => match parseRings k r with
      | some (rings, []) => some (.polygon rings)
      | _ => none
    | none => none
  | _ => none

def splitOnTok (sep : String) (l : List String) : List (List String) :=
  let (acc, cur) := l.foldl (fun (st : List (List String) × List String) t => if t == sep then (st.1 ++ [st.2], []) else (st.1, st.2 ++ [t])) ([], [])
  acc ++ [cur]

open GeosModel.RectFast in
def rectFast (line : String) : String :=
  match splitBar (Driver.tokens line) with
  | ["F" :: rect, elems, flags] =>
    match parseSeq rect with
    | some (ring, []) =>
      let es := if elems == ["-"] then some [] else (splitOnTok ";" elems).mapM parseElem
      match es with
      | some g =>
        let o := kv flags
        let valid := o.lookup "v" == some "1"
        let swapped := o.lookup "swap" == some "1"
        let c (b : Bool) : String := if b then "1" else "0"
        let m := rectIntersects ring g
        -- Geometry::intersects(g, rect) with g itself a rectangle runs the fast path with the roles exchanged
        let m3 := match swapped, g with
          | true, [.polygon [gring]] => rectIntersects gring [.polygon [ring]]
          | _, _ => m
        let ans := c m ++ c m ++ c m3 ++ c m
        -- on valid input the fast path must also agree with the witnessed-intersection reference
        if valid && refIntersects ring g != m then s!"{ans} reference-differs stage={rectStage ring g} ref={c (refIntersects ring g)}" else ans
      | none => "parse-error"
    | _ => "parse-error"
  | _ => "bad-line"

/-! #### stream point-setxy: one `geom::Point` overwritten by `setXY`, against Model/Relate/ScratchPoint (ordinates as raw bit patterns:
the model only copies them) -/
open GeosModel.ScratchPoint in
def pointSetXY (line : String) : String :=
  let hexI (t : String) : Option Int := (Driver.parseHex64 t).map fun u => (u.toNat : Int)
  let showI (i : Int) : String := Driver.GTreeIO.hex64 (UInt64.ofNat i.toNat)
  let parseXY (t : String) : Option (Int × Int) := match t.splitOn ":" with
    | [a, b] => do some (← hexI a, ← hexI b)
    | _ => none
  match Driver.tokens line with
  | "S" :: start :: ops =>
    let s0 : Option PointSt := if start == "E" then some (fresh none) else (parseXY start).map fun c => fresh (some c)
    match s0, ops.mapM parseXY with
    | some s0, some ops =>
      let step (acc : PointSt × List String) (o : Int × Int) : PointSt × List String :=
        let s := setXY acc.1 o.1 o.2
        let d := match s.coords, s.env with
          | c :: _, some b => s!"P:{showI c.1}:{showI c.2}:{showI b.minx}:{showI b.maxx}:{showI b.miny}:{showI b.maxy}"
          | c :: _, none => s!"P:{showI c.1}:{showI c.2}:null"
          | [], _ => "E"
        (s, acc.2 ++ [d])
      " ".intercalate (ops.foldl step (s0, [])).2
    | _, _ => "parse-error"
  | _ => "bad-line"

/-! #### stream pred-converse: the real predicate classes, a predicate on (A,B) and its converse on (B,A), against Model/Relate/Pred + EnvExit +
Converse (theorems of Props/C02Conv: the two columns of the model agree in flags (mirrored), initialisation and final value) -/
def parseKind (s : String) : Option Kind :=
  match s.splitOn ":" with
  | ["intersects"] => some .intersects | ["disjoint"] => some .disjoint | ["contains"] => some .contains
  | ["within"] => some .within | ["covers"] => some .covers | ["coveredBy"] => some .coveredBy
  | ["crosses"] => some .crosses | ["equalsTopo"] => some .equalsTopo | ["overlaps"] => some .overlaps
  | ["touches"] => some .touches
  | ["pattern", p] => some (.pattern (patOfChars p.toList))
  | _ => none

def parseBox : List String → Option Env
  | ["n"] => some none
  | [a, b, c, d] => do some (some ⟨← a.toInt?, ← b.toInt?, ← c.toInt?, ← d.toInt?⟩)
  | _ => none

def envEquals : Env → Env → Bool
  | none, o => o.isNone
  | some a, some o => a == o
  | some _, none => false

def stChar (s : PState) : Char := match s.value with | none => 'u' | some true => 't' | some false => 'f'

def flagsOf (k : Kind) : String :=
  let b (v : Bool) : Char := if v then '1' else '0'
  String.ofList [b (k.requireCovers true), b (k.requireCovers false), b (k.requireExteriorCheck true), b (k.requireExteriorCheck false), b k.requireInteraction]

def predConverse (line : String) : String :=
  match splitBar (Driver.tokens line) with
  | [["V", k, dA, dB], ea, eb, ups] =>
    match parseKind k, dA.toInt?, dB.toInt?, parseBox ea, parseBox eb with
    | some k, some dA, some dB, some ea, some eb =>
      let facts : EnvFacts := { intersects := Env.inter ea eb, aCoversB := Env.covers ea eb, bCoversA := Env.covers eb ea,
                                equal := envEquals ea eb, bothNull := ea.isNone && eb.isNone }
      let us : List Upd := ups.filterMap fun u =>
        match u.toList with
        | [a, b, d] => match loc3 a, loc3 b, (String.ofList [d]).toInt? with
          | some a, some b, some d => some ⟨a, b, d⟩
          | _, _, _ => none
        | _ => none
      let s0 := (PState.new k).initDim dA dB
      let t0 := (PState.new k.converse).initDim dB dA
      let s1 := s0.initEnv facts
      let t1 := t0.initEnv facts.swap
      let s2 := (s1.run us).finish
      let t2 := (t1.run (us.map Upd.swap)).finish
      s!"{flagsOf k} {flagsOf k.converse} " ++ String.ofList [stChar s0, stChar t0, stChar s1, stChar t1] ++ " " ++ String.ofList [stChar s2, stChar t2]
    | _, _, _, _, _ => "parse-error"
  | _ => "bad-line"

end Driver.C02

def main (args : List String) : IO UInt32 := do
  match args with
  | ["relate-dbl"] => Driver.loop (← IO.getStdin) (← IO.getStdout) Driver.C02.check; return 0
  | ["im-algebra"] => Driver.loop (← IO.getStdin) (← IO.getStdout) Driver.C02.imAlgebra; return 0
  | ["rect-fast"] => Driver.loop (← IO.getStdin) (← IO.getStdout) Driver.C02.rectFast; return 0
  | ["pred-converse"] => Driver.loop (← IO.getStdin) (← IO.getStdout) Driver.C02.predConverse; return 0
  | ["point-setxy"] => Driver.loop (← IO.getStdin) (← IO.getStdout) Driver.C02.pointSetXY; return 0
  | _ => IO.eprintln "usage: drv_c02 relate-dbl"; return 2
