import Driver.Common
import Driver.GTreeIO
import GeosModel.Base.F64
import GeosModel.Model.Relate.Agree
import Driver.Flatten
/-! Driver for C02: evaluates `consistent` (Model/Relate/Agree.lean) on the observation the harness made,
plus the rectangle-variant and XY-form equalities. -/
namespace Driver.C02
open GeosModel GeosModel.Relate Driver.Flatten

/-- (hasPoints, hasLines(non zero-length), hasZeroLenLines, hasAreas) ignoring empties -/
partial def classify (acc : Bool × Bool × Bool × Bool) : G → Bool × Bool × Bool × Bool
  | .point s => if s.pts.isEmpty then acc else (true, acc.2.1, acc.2.2.1, acc.2.2.2)
  | .lineString s | .linearRing s =>
    match s.pts with
    | [] => acc
    | p :: r =>
      let zero := r.all fun c => F64.key c.x == F64.key p.x && F64.key c.y == F64.key p.y
      if zero then (acc.1, acc.2.1, true, acc.2.2.2) else (acc.1, true, acc.2.2.1, acc.2.2.2)
  | .polygon sh _ => if sh.pts.isEmpty then acc else (acc.1, acc.2.1, acc.2.2.1, true)
  | .multiPoint gs | .multiLineString gs | .multiPolygon gs | .collection gs => gs.foldl classify acc
  | _ => acc

/-- `RelateGeometry::getDimensionReal` and emptiness -/
def dimReal (g : G) : Int × Bool :=
  let (p, l, z, a) := classify (false, false, false, false) g
  if !(p || l || z || a) then (-1, true)
  else if a then (2, false) else if l then (1, false) else (0, false)

def parseIM (s : String) : Option IM :=
  match s.toList.map (fun c => if c == 'F' then (-1 : Int) else if c == '0' then 0 else if c == '1' then 1 else if c == '2' then 2 else -9) with
  | [a, b, c, d, e, f, g, h, i] => if [a, b, c, d, e, f, g, h, i].any (· == -9) then none else some ⟨a, b, c, d, e, f, g, h, i⟩
  | _ => none

def parseBools (s : String) : Option (List Bool) :=
  s.toList.mapM fun c => if c == '1' then some true else if c == '0' then some false else none

def kv (l : List String) : List (String × String) :=
  l.filterMap fun t => match t.splitOn "=" with
    | [k, v] => some (k, v)
    | _ => none

def check (line : String) : String :=
  match splitBar (Driver.tokens line) with
  | [["D"], ta, tb, obs] =>
    match Driver.GTreeIO.parseGeom ta, Driver.GTreeIO.parseGeom tb with
    | some (ga, []), some (gb, []) =>
      let (dA, ea) := dimReal ga.g
      let (dB, eb) := dimReal gb.g
      let o := kv obs
      let get (k : String) : String := (o.lookup k).getD "?"
      let pats := ((get "pat").splitOn ",").filterMap fun t =>
        match t.splitOn ":" with
        | [p, res] => match res.toList with
          | [a, b] => some (p.toList, a == '1', b == '1', a == 'E' || b == 'E')
          | _ => none
        | _ => none
      match parseIM (get "m"), parseIM (get "mt"), parseIM (get "pm"), parseBools (get "P"), parseBools (get "PB"),
            parseBools (get "Q"), parseBools (get "QB"), parseBools (get "self") with
      | some m, some mt, some pm, some p, some pb, some q, some qb, some self =>
        if pats.any (·.2.2.2) then "bad exception-in-pattern" else
        let ob : Obs := { dA, dB, aEmpty := ea, bEmpty := eb, m, mt, pm, p, pb, q, qb,
                          pats := pats.map (fun x => (x.1, x.2.1, x.2.2.1)), self }
        let nov := match flattenPair ga.g gb.g with
          | some (A, B) => if inexactIncidence A.f B.f then "1" else if nearIncidence A.f B.f then (if exactOverlap A.f B.f then "xo" else "x") else "0"
          | none => "?"
        if !consistent ob then
          -- name the first conjunct that fails
          let why :=
            if mt != m.transpose then s!"transpose m={m.toStr} mt={mt.toStr}"
            else if pm != m then s!"prepared-relate m={m.toStr} pm={pm.toStr}"
            else if (if ea && eb then dropEquals p != dropEquals (predsOf m dA dB) else p != predsOf m dA dB) then s!"named-vs-matrix m={m.toStr} P={get "P"} dims={dA},{dB}"
            else if (if ea && eb then dropEquals pb != dropEquals (predsOf mt dB dA) else pb != predsOf mt dB dA) then s!"named-vs-matrix-swapped mt={mt.toStr} PB={get "PB"} dims={dB},{dA}"
            else if q != prepPredsOf m dA dB then s!"prepared-vs-matrix m={m.toStr} Q={get "Q"} dims={dA},{dB}"
            else if qb != prepPredsOf mt dB dA then s!"prepared-vs-matrix-swapped mt={mt.toStr} QB={get "QB"} dims={dB},{dA}"
            else if !(ob.pats.all fun (pp, r, pr) => r == m.matchesPat pp && pr == r) then s!"pattern m={m.toStr} pat={get "pat"}"
            else s!"self-relations self={get "self"}"
          -- for the self relations the contact that matters is inside A: a vertex of A within rounding distance of another segment of A
          let novSelf := match flattenPair ga.g ga.g with
            | some (A, _) => if inexactIncidence A.f A.f then "1" else "0"
            | none => "?"
          "bad " ++ why ++ " nov=" ++ (if why.startsWith "self-relations" then novSelf else nov)
        else if get "QR" != get "Q" then s!"bad prepared-order-dependent Q={get "Q"} QR={get "QR"} nov={nov}"
        else if ea && eb && (get "P").toList[7]? == some '1' && m.toStr == "FFFFFFFF2" then "bad equals-both-empty"
        else
          let rect := get "rect"
          let rectBad := rect != "-" && rect != s!"{get "P"}:{get "Q"}:{get "PB"}"
          if rectBad then s!"bad rectangle-variant rect={rect} expected={get "P"}:{get "Q"}:{get "PB"} nov={nov}"
          else
            let xy := get "xy"
            match xy.toList with
            | [a, b, c, d] => if a == c && b == d then "ok" else s!"bad xy-forms xy={xy} nov={nov}"
            | _ => if xy == "-" then "ok" else "bad xy-format"
      | _, _, _, _, _, _, _, _ => "bad exception-or-unparsable-observation"
    | _, _ => "parse-error"
  | _ => "bad-line"

/-! #### stream im-algebra: `geom::IntersectionMatrix` as a matrix, from the model of Base/IM (the object of the transposition algebra) -/

def loc3 (c : Char) : Option Loc3 := if c == '0' then some .I else if c == '1' then some .B else if c == '2' then some .E else none
def dimOf (c : Char) : Option Int := if c == 'F' then some (-1) else if c == '0' then some 0 else if c == '1' then some 1 else if c == '2' then some 2 else none

def imAlgebra (line : String) : String :=
  match Driver.tokens line with
  | "A" :: m :: pat :: cell :: ops =>
    let step (acc : Option IM) (t : String) : Option IM := do
      let m ← acc
      match t.toList with
      | ['t'] => some m.transpose
      | ['s', a, b, d] => some (m.set (← loc3 a) (← loc3 b) (← dimOf d))
      | ['l', a, b, d] => some (m.raise (← loc3 a) (← loc3 b) (← dimOf d))
      | _ => none
    match ops.foldl step (parseIM m), cell.toList with
    | some mf, [ca, cb] =>
      match loc3 ca, loc3 cb with
      | some a, some b =>
        let p := if pat == "-" then [] else pat.toList
        -- `matches` of the transposed matrix with the transposed pattern has the same answer (theorem matchesPat_transpose)
        let mt := if p.length == 9 then (if mf.matchesPat p then "1" else "0") else "X"
        s!"{mf.toStr} {mf.get a b} {mt}{mt}"
      | _, _ => "parse-error"
    | _, _ => "parse-error"
  | _ => "bad-line"

end Driver.C02

def main (args : List String) : IO UInt32 := do
  match args with
  | ["relate-dbl"] => Driver.loop (← IO.getStdin) (← IO.getStdout) Driver.C02.check; return 0
  | ["im-algebra"] => Driver.loop (← IO.getStdin) (← IO.getStdout) Driver.C02.imAlgebra; return 0
  | _ => IO.eprintln "usage: drv_c02 relate-dbl"; return 2
