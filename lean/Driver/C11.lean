import Driver.Common
import Driver.GTreeIO
import GeosModel.Model.WKB.Spec
import GeosModel.Model.WKT.Read
import GeosModel.Model.Readers.Resource
/-! Driver for C11 (exe `drv_c11`).  Case lines are `<reader> <flag> <kind> <payload hex | ->`.
  wkb-fuzz | hex-fuzz | wkt-fuzz | geojson-fuzz
        flag M : `ok <srid gtree>` / `err` of the reader model (`WKB.read`, `WKB.readHex`, `WKT.readToks ∘ tokenize`)
        flag X : `nomodel` (crash-only input: GeoJSON, texts the `strtod` model does not cover, inputs > 16 KiB)
  resource   same case line -> `len=<n> depth=<n> alloc=<n>` of the resource-annotated models
             (WKB: `wkbDepth`, `allocOf`; WKT: `parenDepth` of the tokens; GeoJSON: bracket depth)
  wf-check   `<srid gtree>` -> `wf` | `ill-formed` (the constructor invariants `WKB.WFG` on a tree a reader returned)
  witness-eq `<family> <param> <hex>` -> `same` when the bytes / tokens are the Lean witness family of that name
             (`wkbNest`, `nestToks`: negative depth theorems; `wkbOver`: regression witness of `alloc_over_linear`)
The arc oracle is the C09 driver's `Float` transcription (copied: a driver file cannot be imported by another). -/
namespace Driver.C11
open GeosModel GeosModel.WKB Driver.GTreeIO

def eq2 (a b : Float × Float) : Bool := a.1 == b.1 && a.2 == b.2

def getCenter (p0 p1 p2 : Float × Float) : Float × Float :=
  if eq2 p0 p2 then (0.5 * (p0.1 + p1.1), 0.5 * (p0.2 + p1.2)) else
  let ax := p1.1 - p2.1; let ay := p1.2 - p2.2
  let bx := p2.1 - p0.1; let by' := p2.2 - p0.2
  let cx := p0.1 - p1.1; let cy := p0.2 - p1.2
  let d1 := -(bx * cx + by' * cy)
  let d2 := -(cx * ax + cy * ay)
  let d3 := -(ax * bx + ay * by')
  let e1 := d2 * d3; let e2 := d3 * d1; let e3 := d1 * d2
  let e := e1 + e2 + e3
  let gx := p0.1 + p1.1 + p2.1; let gy := p0.2 + p1.2 + p2.2
  let hx := (e1 * p0.1 + e2 * p1.1 + e3 * p2.1) / e
  let hy := (e1 * p0.2 + e2 * p1.2 + e3 * p2.2) / e
  (0.5 * (gx - hx), 0.5 * (gy - hy))

def quadrant (c p : Float × Float) : Nat :=
  if p.1 >= c.1 then (if p.2 >= c.2 then 0 else 3) else (if p.2 >= c.2 then 1 else 2)

def finite2 (p : Float × Float) : Bool := p.1.isFinite && p.2.isFinite

def arcThrows (p0 p1 p2 : Float × Float) : Bool :=
  let c := getCenter p0 p1 p2
  if eq2 c p0 || eq2 c p1 then false
  else if c.1.isNaN then false
  else if !finite2 p1 then true
  else if eq2 p2 c then true
  else if quadrant c p0 == quadrant c p2 then !finite2 p2 else false

def arcsThrow : List (Float × Float) → Bool
  | p0 :: p1 :: p2 :: rest => arcThrows p0 p1 p2 || arcsThrow (p1 :: p2 :: rest)
  | _ => false

def arcF : ArcOracle := fun xy => arcsThrow (xy.map fun p => (Float.ofBits p.1, Float.ofBits p.2))

partial def normOut : G → G
  | .curvePolygon gs => if gIsEmpty (.curvePolygon gs) then .curvePolygon [] else .curvePolygon (gs.map normOut)
  | .compoundCurve gs => .compoundCurve (gs.map normOut)
  | .multiPoint gs => .multiPoint (gs.map normOut)
  | .multiLineString gs => .multiLineString (gs.map normOut)
  | .multiPolygon gs => .multiPolygon (gs.map normOut)
  | .collection gs => .collection (gs.map normOut)
  | .multiCurve gs => .multiCurve (gs.map normOut)
  | .multiSurface gs => .multiSurface (gs.map normOut)
  | g => g

/-- some circular string of the tree trips the constructor's arc-envelope arithmetic -/
partial def anyArcThrows : G → Bool
  | .circularString s => arcF (xyOf s.pts)
  | .compoundCurve gs | .curvePolygon gs | .multiPoint gs | .multiLineString gs | .multiPolygon gs
  | .collection gs | .multiCurve gs | .multiSurface gs => gs.any anyArcThrows
  | _ => false

def bytesOf (h : String) : Option (List UInt8) := if h == "-" then some [] else hexDecode h.toList

/-- bytes of a text reader's input as characters (one character per byte, as the C++ sees them) -/
def charsOf (bs : List UInt8) : List Char := bs.map fun b => Char.ofNat b.toNat

def wkbAnswer (bs : List UInt8) : String :=
  match WKB.read arcF bs with
  | .ok g => "ok " ++ showGeom ⟨g.srid, normOut g.g⟩
  | .error _ => "err"

def hexAnswer (bs : List UInt8) : String :=
  match WKB.readHex arcF (charsOf bs) with
  | .ok g => "ok " ++ showGeom ⟨g.srid, normOut g.g⟩
  | .error _ => "err"

def wktAnswer (bs : List UInt8) : String :=
  match WKT.readToks (WKT.tokenize (charsOf bs)) with
  | .ok g => if anyArcThrows g then "err" else "ok " ++ showGeom ⟨0, g⟩
  | .error _ => "err"

def fuzz (line : String) : String :=
  match Driver.tokens line with
  | [reader, flag, _kind, h] =>
    if flag == "X" then "nomodel" else
    match bytesOf h with
    | none => "bad-case"
    | some bs =>
      match reader with
      | "wkb" => wkbAnswer bs
      | "hex" => hexAnswer bs
      | "wkt" => wktAnswer bs
      | _ => "nomodel"
  | _ => "bad-case"

def bracketDepth (cs : List Char) : Nat :=
  let step := fun (st : Nat × Nat × Bool × Bool) (c : Char) =>
    let (cur, best, inStr, esc) := st
    if inStr then (if esc then (cur, best, true, false) else if c = '\\' then (cur, best, true, true)
                   else if c = '"' then (cur, best, false, false) else (cur, best, true, false))
    else if c = '"' then (cur, best, true, false)
    else if c = '[' ∨ c = '{' then (cur + 1, max best (cur + 1), false, false)
    else if c = ']' ∨ c = '}' then (cur - 1, best, false, false)
    else (cur, best, false, false)
  (cs.foldl step (0, 0, false, false)).2.1

def resource (line : String) : String :=
  match Driver.tokens line with
  | [reader, _flag, _kind, h] =>
    match bytesOf h with
    | none => "bad-case"
    | some bs =>
      match reader with
      | "wkb" => s!"len={bs.length} depth={Readers.wkbDepth arcF bs} alloc={allocOf arcF bs}"
      | "hex" =>
        match hexDecode (charsOf bs) with
        | some b2 => s!"len={bs.length} depth={Readers.wkbDepth arcF b2} alloc={allocOf arcF b2}"
        | none => s!"len={bs.length} depth=0 alloc=0"
      | "wkt" => s!"len={bs.length} depth={Readers.parenDepth (WKT.tokenize (charsOf bs))} alloc=0"
      | _ => s!"len={bs.length} depth={bracketDepth (charsOf bs)} alloc=0"
  | _ => "bad-case"

/-- `<srid gtree>` (what a reader returned) -> does it satisfy the constructor invariants (`WFG`, the conclusion of
`reject_or_wf`)? -/
def wfCheck (line : String) : String :=
  match parseGeom (Driver.tokens line) with
  | some (g, []) => if WFG arcF g.g then "wf" else "ill-formed"
  | _ => "bad-gtree"

def witnessEq (line : String) : String :=
  match Driver.tokens line with
  | [fam, p, h] =>
    match p.toNat?, bytesOf h with
    | some n, some bs =>
      match fam with
      | "wkb-nest" => if bs == Readers.wkbNest n then "same" else "differs"
      | "wkb-over" => if bs == Readers.wkbOver n then "same" else "differs"
      | "hex-nest" => if hexDecode (charsOf bs) == some (Readers.wkbNest n) then "same" else "differs"
      | "wkt-nest" => if WKT.tokenize (charsOf bs) == Readers.nestToks n then "same" else "differs"
      | _ => "unknown-family"
    | _, _ => "bad-case"
  | _ => "bad-case"

end Driver.C11

def main (args : List String) : IO UInt32 := do
  match args with
  | [stream] =>
    let f : Option (String → String) :=
      if stream == "resource" then some Driver.C11.resource
      else if stream == "witness-eq" then some Driver.C11.witnessEq
      else if stream == "wf-check" then some Driver.C11.wfCheck
      else if stream.endsWith "-fuzz" then some Driver.C11.fuzz
      else none
    match f with
    | some f =>
      Driver.loop (← IO.getStdin) (← IO.getStdout) f
      return 0
    | none => IO.eprintln s!"unknown stream {stream}"; return 2
  | _ => IO.eprintln "usage: drv_c11 <stream>"; return 2
