import Driver.Common
import GeosModel.Base.GTree
/-! Token (de)serialisation of `GTree` for the line protocol.
  geom  := P seq | L seq | R seq | C seq | Y k seq*k | K k geom*k | U k geom*k
         | MP k geom*k | ML .. | MY .. | MC .. | MS .. | GC k geom*k
  seq   := (xy|xyz|xym|xyzm) n ord*(n*dims)          -- ord = 16 hex digits
  whole := srid geom
-/
namespace Driver.GTreeIO
open GeosModel

def flagsOf : String → Option (Bool × Bool)
  | "xy" => some (false, false) | "xyz" => some (true, false)
  | "xym" => some (false, true) | "xyzm" => some (true, true) | _ => none

def flagsStr (z m : Bool) : String :=
  match z, m with | false, false => "xy" | true, false => "xyz" | false, true => "xym" | true, true => "xyzm"

def hex64 (u : UInt64) : String :=
  let s := (Nat.toDigits 16 u.toNat)
  String.mk (List.replicate (16 - s.length) '0' ++ s)

def parsePts (z m : Bool) : Nat → List String → Option (List Coord × List String)
  | 0, r => some ([], r)
  | n + 1, r => do
    let (x, r) ← match r with | a :: r => (Driver.parseHex64 a).map (·, r) | [] => none
    let (y, r) ← match r with | a :: r => (Driver.parseHex64 a).map (·, r) | [] => none
    let (zv, r) ← if z then (match r with | a :: r => (Driver.parseHex64 a).map (·, r) | [] => none) else some (nanBits, r)
    let (mv, r) ← if m then (match r with | a :: r => (Driver.parseHex64 a).map (·, r) | [] => none) else some (nanBits, r)
    let (rest, r) ← parsePts z m n r
    some (⟨x, y, zv, mv⟩ :: rest, r)

def parseSeq : List String → Option (CSeq × List String)
  | f :: n :: r => do
    let (z, m) ← flagsOf f
    let n ← n.toNat?
    let (pts, r) ← parsePts z m n r
    some (⟨z, m, pts⟩, r)
  | _ => none

def parseSeqs : Nat → List String → Option (List CSeq × List String)
  | 0, r => some ([], r)
  | n + 1, r => do
    let (s, r) ← parseSeq r
    let (ss, r) ← parseSeqs n r
    some (s :: ss, r)

mutual
  partial def parseG : List String → Option (G × List String)
    | "P" :: r => (parseSeq r).map fun (s, r) => (.point s, r)
    | "L" :: r => (parseSeq r).map fun (s, r) => (.lineString s, r)
    | "R" :: r => (parseSeq r).map fun (s, r) => (.linearRing s, r)
    | "C" :: r => (parseSeq r).map fun (s, r) => (.circularString s, r)
    | "Y" :: k :: r => do
      let k ← k.toNat?
      let (ss, r) ← parseSeqs k r
      match ss with
      | sh :: hs => some (.polygon sh hs, r)
      | [] => none
    | "K" :: k :: r => do let (gs, r) ← parseGs (← k.toNat?) r; some (.compoundCurve gs, r)
    | "U" :: k :: r => do let (gs, r) ← parseGs (← k.toNat?) r; some (.curvePolygon gs, r)
    | "MP" :: k :: r => do let (gs, r) ← parseGs (← k.toNat?) r; some (.multiPoint gs, r)
    | "ML" :: k :: r => do let (gs, r) ← parseGs (← k.toNat?) r; some (.multiLineString gs, r)
    | "MY" :: k :: r => do let (gs, r) ← parseGs (← k.toNat?) r; some (.multiPolygon gs, r)
    | "MC" :: k :: r => do let (gs, r) ← parseGs (← k.toNat?) r; some (.multiCurve gs, r)
    | "MS" :: k :: r => do let (gs, r) ← parseGs (← k.toNat?) r; some (.multiSurface gs, r)
    | "GC" :: k :: r => do let (gs, r) ← parseGs (← k.toNat?) r; some (.collection gs, r)
    | _ => none
  partial def parseGs : Nat → List String → Option (List G × List String)
    | 0, r => some ([], r)
    | n + 1, r => do
      let (g, r) ← parseG r
      let (gs, r) ← parseGs n r
      some (g :: gs, r)
end

def parseGeom : List String → Option (Geom × List String)
  | s :: r => do
    let srid ← s.toInt?
    let (g, r) ← parseG r
    some (⟨srid, g⟩, r)
  | [] => none

def showSeq (s : CSeq) : List String :=
  [flagsStr s.hasZ s.hasM, toString s.pts.length] ++
  s.pts.flatMap fun c => [hex64 c.x, hex64 c.y] ++ (if s.hasZ then [hex64 c.z] else []) ++ (if s.hasM then [hex64 c.m] else [])

mutual
  partial def showG : G → List String
    | .point s => "P" :: showSeq s
    | .lineString s => "L" :: showSeq s
    | .linearRing s => "R" :: showSeq s
    | .circularString s => "C" :: showSeq s
    | .polygon sh hs => ["Y", toString (hs.length + 1)] ++ showSeq sh ++ hs.flatMap showSeq
    | .compoundCurve gs => ["K", toString gs.length] ++ showGs gs
    | .curvePolygon gs => ["U", toString gs.length] ++ showGs gs
    | .multiPoint gs => ["MP", toString gs.length] ++ showGs gs
    | .multiLineString gs => ["ML", toString gs.length] ++ showGs gs
    | .multiPolygon gs => ["MY", toString gs.length] ++ showGs gs
    | .multiCurve gs => ["MC", toString gs.length] ++ showGs gs
    | .multiSurface gs => ["MS", toString gs.length] ++ showGs gs
    | .collection gs => ["GC", toString gs.length] ++ showGs gs
  partial def showGs : List G → List String
    | [] => []
    | g :: gs => showG g ++ showGs gs
end

def showGeom (g : Geom) : String := Driver.joinWith " " (toString g.srid :: showG g.g)

end Driver.GTreeIO
