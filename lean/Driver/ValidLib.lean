import Driver.Common
import Driver.GTreeIO
import Driver.Flatten
import GeosModel.Base.F64
import GeosModel.Model.Valid.Ref
/-! Library part of the C05 driver (shared with C17): evaluates the reference validity / simplicity rules (Model/Valid/Ref.lean) on a geometry whose
doubles are scaled exactly to integers, and compares with what the harness observed on GEOS:
`V | <geom> | v0= c0= l0= v1= c1= l1= s= r= inv=`  (v: 1 valid 0 invalid 2 exception; c: error code; l: location
as two hex doubles joined by a comma; index 0/1 = self-touching-ring flag off/on; s = isSimple; r = isRing;
inv = result of the invariance oracle run by the harness).  Shared with C17 (`Driver.C05.toVG`, `checkLoc`). -/
namespace Driver.C05
open GeosModel GeosModel.Relate GeosModel.Kernel GeosModel.Valid Driver.Flatten

def finC (c : Coord) : Bool := F64.isFinite c.x && F64.isFinite c.y

def finiteOrds (g : G) : List (Int × Int) := (ordsOf g).filterMap F64.dyadic

def seqOf (toI : UInt64 → Int) (s : CSeq) : VSeq :=
  { pts := s.pts.map fun c => if finC c then ⟨toI c.x, toI c.y⟩ else ⟨0, 0⟩,
    bad := s.pts.findIdx? (fun c => !finC c),
    fin := s.pts.map finC }

def leafSeq : G → Option CSeq
  | .point s | .lineString s | .linearRing s => some s
  | _ => none

partial def toVG (toI : UInt64 → Int) : G → Option VG
  | .point s => some (.point (seqOf toI s))
  | .lineString s => some (.line (seqOf toI s))
  | .linearRing s => some (.ring (seqOf toI s))
  | .polygon sh hs => some (.polygon ((sh :: hs).map (seqOf toI)))
  | .multiPoint gs => some (.multiPoint ((gs.filterMap leafSeq).map (seqOf toI)))
  | .multiLineString gs => some (.multiLine ((gs.filterMap leafSeq).map (seqOf toI)))
  | .multiPolygon gs => some (.multiPolygon (gs.filterMap fun g => match g with
      | .polygon sh hs => some ((sh :: hs).map (seqOf toI))
      | _ => none))
  | .collection gs => (gs.mapM (toVG toI)).map VG.collection
  | _ => none

/-- scale a geometry: exponent of the common unit and the integer image -/
def scaleG (g : G) : Int × (UInt64 → Int) :=
  let e0 := F64.minExp (finiteOrds g)
  (e0, fun u => match F64.dyadic u with | some d => F64.scaleTo e0 d | none => 0)

def kv (l : List String) : List (String × String) :=
  l.filterMap fun t => match t.splitOn "=" with
    | [k, v] => some (k, v)
    | _ => none

/-- a finite double as a rational `n / d` in units of `2^e0` -/
def ratOf (e0 : Int) (u : UInt64) : Option (Int × Int) :=
  match F64.dyadic u with
  | none => none
  | some (m, e) =>
    if m == 0 then some (0, 1)
    else if e ≥ e0 then some (m * (2 : Int) ^ (e - e0).toNat, 1)
    else some (m, (2 : Int) ^ (e0 - e).toNat)

def absI (a : Int) : Int := if a < 0 then -a else a

/-- `|n/d − p/w| ≤ tn/td` -/
def nearQ (n d p w tn td : Int) : Bool := decide (absI (n * w - p * d) * td ≤ tn * d * w)

def maxAbsG (toI : UInt64 → Int) (g : G) : Int :=
  ((ordsOf g).filter F64.isFinite).foldl (fun acc u => max acc (absI (toI u))) 1

/-- is the reported location (two hex doubles) admissible?  `locs` exact, tolerance `2^-36` of the largest coordinate
("to rounding"); for the invalid-coordinate rule the location must itself be non-finite -/
def checkLoc (e0 : Int) (mx : Int) (v : Verdict) (loc : String) : Bool :=
  match (loc.splitOn ",").map Driver.parseHex64 with
  | [some ux, some uy] =>
    if v.badCoord then !(F64.isFinite ux && F64.isFinite uy)
    else
      match ratOf e0 ux, ratOf e0 uy with
      | some (nx, dx), some (ny, dy) =>
        v.locs.any fun p => nearQ nx dx p.x p.w mx 68719476736 && nearQ ny dy p.y p.w mx 68719476736
      | _, _ => false
  | _ => false

/-- all polygons of a geometry as de-duplicated ring lists (for the structural features of a disagreement) -/
partial def polysOf : VG → List (List (List Pt))
  | .polygon rings => [rings.map fun s => dedup s.pts]
  | .multiPolygon polys => polys.map fun rings => rings.map fun s => dedup s.pts
  | .collection gs => gs.flatMap polysOf
  | _ => []

/-- structural features: `st` some ring meets itself in non-adjacent segments; `rt` such a ring also meets another
ring of its polygon -/
def features (vg : VG) : String :=
  let segs := polySegs ((polysOf vg).filter fun rings => match rings with | sh :: _ => !sh.isEmpty | [] => false)
  let ps := pairsOf segs
  let meets (s t : RSeg) : Bool := segRel s.p s.q t.p t.q != SegRel.disjoint
  let selfRings := (ps.filterMap fun (s, t) =>
    if s.rid == t.rid && !adjacentIdx s.m s.k t.k && meets s t then some s.rid else none).eraseDups
  let rt := ps.any fun (s, t) => s.rid != t.rid && s.pid == t.pid && (selfRings.contains s.rid || selfRings.contains t.rid) && meets s t
  s!"st={if selfRings.isEmpty then 0 else 1} rt={if rt then 1 else 0}"

def codesStr (l : List Nat) : String := ",".intercalate (l.map toString)

/-- compare one flag setting -/
def checkValid (tag : String) (e0 mx : Int) (ref : Verdict) (alts : List Verdict) (v c l : String) : Option String :=
  if ref.valid then
    if v == "1" then none else some s!"bad valid{tag} impl={v}/{c} ref=valid"
  else if v != "0" then some s!"bad valid{tag} impl={v} ref=invalid:{codesStr ref.codes}"
  else
    let cOk := match c.toNat? with
      | some cn => ref.codes.contains cn || (ref.ambiguous && [2, 3, 4, 5, 6, 7].contains cn)
      | none => false
    -- not the first rule in IsValidOp's order, but a rule that IS broken, reported at a place where it is broken:
    -- that is what the property asks for
    let altOk := match c.toNat? with
      | some cn => alts.any fun a => a.codes.contains cn && checkLoc e0 mx a l
      | none => false
    if !cOk && altOk then none
    else if !cOk then some s!"bad code{tag} impl={c} ref={codesStr ref.codes}"
    else if ref.ambiguous && !(match c.toNat? with | some cn => ref.codes.contains cn | none => false) then none
    else if checkLoc e0 mx ref l then none
    else some s!"bad loc{tag} impl={l} code={c}"

def b01 (b : Bool) : String := if b then "1" else "0"

def check (line : String) : String :=
  match splitBar (Driver.tokens line) with
  | [["V"], tg, obs] =>
    match Driver.GTreeIO.parseGeom tg with
    | some (g, []) =>
      if hasCurve g.g then "skip curved" else
      let (e0, toI) := scaleG g.g
      match toVG toI g.g with
      | none => "skip unsupported"
      | some vg =>
        let o := kv obs
        let get (k : String) : String := (o.lookup k).getD "?"
        let mx := maxAbsG toI g.g
        let allFinite := (ordsOf g.g).all F64.isFinite
        let r0 := validRef false vg
        let r1 := validRef true vg
        let checks : List (Option String) := [
          checkValid "0" e0 mx r0 (allBroken false vg) (get "v0") (get "c0") (get "l0"),
          checkValid "1" e0 mx r1 (allBroken true vg) (get "v1") (get "c1") (get "l1"),
          (if !allFinite then none else
            let s := b01 (simpleRef vg)
            if get "s" == s then none else some s!"bad simple impl={get "s"} ref={s}"),
          (if !allFinite then none else
            let r := b01 (isRingRef vg)
            if get "r" == r then none else some s!"bad ring impl={get "r"} ref={r}"),
          (if get "inv" == "ok" then none else some s!"bad invariance {get "inv"}")]
        match checks.filterMap id with
        | [] => "ok"
        | e :: _ => e ++ " " ++ features vg
    | _ => "parse-error"
  | _ => "bad-line"

/-- stream `ref`: print the reference verdicts only (used for debugging and by C17's check for replays) -/
def refOnly (line : String) : String :=
  match Driver.GTreeIO.parseGeom (Driver.tokens line) with
  | some (g, []) =>
    let (_, toI) := scaleG g.g
    match toVG toI g.g with
    | none => "unsupported"
    | some vg =>
      let r0 := validRef false vg
      let r1 := validRef true vg
      s!"v0={b01 r0.valid} c0={codesStr r0.codes} amb0={b01 r0.ambiguous} v1={b01 r1.valid} c1={codesStr r1.codes} s={b01 (simpleRef vg)} r={b01 (isRingRef vg)}"
  | _ => "parse-error"

/-- stream `node-topo`: `N ox oy a0x a0y a1x a1y b0x b0y b1x b1y` → the Lean copy of PolygonNodeTopology -/
def nodeTopo (line : String) : String :=
  match (Driver.tokens line) with
  | "N" :: rest =>
    match rest.mapM String.toInt? with
    | some [ox, oy, a0x, a0y, a1x, a1y, b0x, b0y, b1x, b1y] =>
      let o : Pt := ⟨ox, oy⟩; let a0 : Pt := ⟨a0x, a0y⟩; let a1 : Pt := ⟨a1x, a1y⟩; let b0 : Pt := ⟨b0x, b0y⟩; let b1 : Pt := ⟨b1x, b1y⟩
      s!"{compareAngle o a0 a1} {compareAngle o b0 a0} {b01 (isCrossing o a0 a1 b0 b1)} {b01 (isInteriorSegment o a0 a1 b0)} {b01 (isInteriorSegment o a0 a1 b1)}"
    | _ => "parse-error"
  | _ => "bad-line"

end Driver.C05
