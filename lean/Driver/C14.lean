import Driver.Common
import GeosModel.Model.Interrupt.Proto
import GeosModel.Model.Interrupt.Unwind
/-! Driver for C14.
* `proto`: replays a call script (`S …`) on the model of `geos::util::Interrupt` (`runScript`).
* `ops`  : for an observed operation (`O op seed size N mode k`) prints what the protocol model predicts for
           the call made in `mode`, for the benign call that follows it, and the property's constant demands
           (inputs unchanged, nothing leaked). -/
namespace Driver.C14
open GeosModel.Interrupt

def parseAct : Char → Act
  | 'q' => .request
  | 'c' => .cancel
  | _ => .nothing

/-- `<len> [acts]` repeated `n` times -/
def parseTabs : Nat → List String → Option (List (List Act) × List String)
  | 0, r => some ([], r)
  | n + 1, len :: r =>
    match len.toNat? with
    | some 0 => (parseTabs n r).map (fun (t, r') => ([] :: t, r'))
    | some _ =>
      match r with
      | a :: r' => (parseTabs n r').map (fun (t, r'') => (a.toList.map parseAct :: t, r''))
      | [] => none
    | none => none
  | _, [] => none

def parseCall (s : String) : Option Call :=
  match s with
  | "q" => some .request
  | "c" => some .cancel
  | "k" => some .check
  | "p" => some .process
  | "i" => some .init
  | "gn" => some (.register none)
  | _ => if s.startsWith "g" then (s.drop 1).toNat?.map (fun n => Call.register (some n)) else none

def proto (line : String) : String :=
  match Driver.tokens line with
  | "S" :: ncb :: rest =>
    match ncb.toNat? with
    | some ncb =>
      match parseTabs ncb rest with
      | some (tab, "|" :: ops) =>
        match ops.mapM parseCall with
        | some calls => Driver.joinWith " " (runScript tab ⟨false, none, 0⟩ calls)
        | none => "bad-op"
      | _ => "bad-line"
    | none => "bad-line"
  | _ => "bad-line"

def showCall (N : Nat) (s : State) (o : Outcome Unit) : String :=
  let req := if check s then "1" else "0"
  match o with
  | .interrupted k => s!"int polls={k} req={req} msg=1"
  | .done _ => s!"done polls={N} req={req} same=1"

/-- interrupt state and callback in force when the operation is called in the given mode -/
def modeState (mode : String) (k : Nat) : Option State :=
  let s0 : State := ⟨false, none⟩
  match mode with
  | "clean" => some (registerCallback s0 (some never)).1
  | "at" => some (registerCallback s0 (some (requestAt k))).1
  | "pre" => some (request (registerCallback s0 (some never)).1)
  | "cancel" => some (cancel (request (registerCallback s0 (some never)).1))
  | "cbcancel" => some (request (registerCallback s0 (some (cancelAt k))).1)
  | "init" => some (geosInit (request (registerCallback s0 (some never)).1))
  | _ => none

def ops (line : String) : String :=
  match Driver.tokens line with
  | "O" :: _op :: _seed :: _size :: n :: mode :: k :: _site =>
    match n.toNat?, k.toNat?, modeState mode (k.toNat?.getD 0) with
    | some N, some _, some s =>
      let op : Op Unit := ⟨N, ()⟩
      let (s1, o1) := run s op
      let (s2, o2) := run (registerCallback s1 (some never)).1 op
      s!"{showCall N s1 o1} ; {showCall N s2 o2} ; inputs=1 leak=0"
    | _, _, _ => "bad-line"
  | _ => "bad-line"

/-! `unwind`: which exception leaves `ValidatingNoder::computeNodes` (`W inner output nl P j`).  An exception of the wrapped noder
is raised outside the `try` of `validate` (no frame); the validation raises `InterruptedException` when the callback requests
at one of its P polls, otherwise `TopologyException` when the output has a crossing; both unwind through `validateFrame`. -/
def excName : Exc → String
  | .interrupted => "interrupted" | .topology => "topology" | .illegalArgument => "illegalarg" | .geosOther => "geos"
  | .runtimeOther => "runtime" | .logic => "logic" | .stdOther => "std" | .nonStd => "unknown"

def parseExc : String → Option Exc
  | "interrupted" => some .interrupted | "topology" => some .topology | "illegalarg" => some .illegalArgument
  | "runtime" => some .runtimeOther | "logic" => some .logic | _ => none

def showFlow : Flow → String
  | .raised e => excName e ++ " msg=1"       -- `throw;` re-raises the same object: class and message unchanged
  | .absorbed => "none"

def unwindLine (line : String) : String :=
  match Driver.tokens line with
  | ["W", inner, output, _nl, p, j] =>
    match p.toNat?, j.toNat? with
    | some P, some j =>
      if inner != "none" then
        match parseExc inner with
        | some e => showFlow (unwind [] e)
        | none => "bad-line"
      else
        -- the validation is an operation with P polls whose result is "valid" / a TopologyException
        let (_, o) := run ⟨false, some (requestAt j)⟩ (⟨P, ()⟩ : Op Unit)
        match o with
        | .interrupted _ => showFlow (unwind [validateFrame] .interrupted)
        | .done _ => if output == "crossing" then showFlow (unwind [validateFrame] .topology) else "none"
    | _, _ => "bad-line"
  | _ => "bad-line"

end Driver.C14

def main (args : List String) : IO UInt32 := do
  let stdin ← IO.getStdin
  let stdout ← IO.getStdout
  match args with
  | ["proto"] => Driver.loop stdin stdout Driver.C14.proto; return 0
  | ["ops"] => Driver.loop stdin stdout Driver.C14.ops; return 0
  | ["unwind"] => Driver.loop stdin stdout Driver.C14.unwindLine; return 0
  | _ => IO.eprintln "usage: drv_c14 proto|ops|unwind"; return 2
