import Driver.Common
import GeosModel.Generated.Api
import GeosModel.Model.Api.Bridge
import GeosModel.Model.Api.Construct
import GeosModel.Model.Api.Precond
/-!
Driver for C12 (`drv_c12 api-seq`): replays an observed C API call sequence (written by `harness/c12.cpp`)
through the ownership-discipline model `GeosModel.Api.step`, with signatures and error values taken from
the generated table, and answers `ok` or the first violation `V <call#> <entry point> <reason>`.

Checked per call
* the call is legal for the model (the harness generates by a mirror of the discipline);
* the ids of the new objects are the ones the model allocates;
* error handler fired  ⇒ the returned value is the documented (else the implemented) error value and no
  object was created;  a NULL / 2 returned without a message is an undocumented outcome;
* the call did not return (crash / sanitizer report / hang) — never allowed;
* no live object other than the `modify` arguments changed its bit image; the result pointer is not the
  pointer of a live object; constructive results carry the SRID of the first geometry argument.
* a call that is refused (error value) must have handed every geometry / coordinate sequence it consumed to the
  deallocator while it ran (fact `F`: the harness watches the consumed addresses with the sanitizer's free hook): the
  model marks consumed objects dead whatever the outcome, so the caller cannot free them any more;
* `GEOSSTRtree_query_r` (fact `Q`): the callback ran once for every inserted, not removed item whose envelope intersects
  the query envelope.
At `END`: nothing may be alive in the model, and the child must have exited cleanly (no leak report).

`drv_c12 ctor-own`: one constructor call per line (harness/c12_own.h); the answer is the prediction of
`GeosModel.Api.Construct` — outcome, type id of the result, fate of every argument.

Interruption: `GEOS_interruptRegisterCallback i:<k>` is the harness's record of arming the next call (a callback that
requests an interruption at the k-th checkpoint poll; unregistered and cancelled when that call has returned).  It is
part of the global, non-reentrant API, takes and creates no object, and leaves the heap of the model unchanged.  The
armed call itself is checked like every other call: a result, or the error value together with a message.
-/
namespace Driver.C12
open GeosModel.Api GeosModel.Generated

/-- pointer results that may legitimately be NULL without an error -/
def nullOk : List String :=
  ["GEOSSTRtree_nearest_r", "GEOSSTRtree_nearest_generic_r", "GEOSGeom_getUserData_r", "GEOSGeom_releaseCollection_r"]

/-- global (non-reentrant) interruption entry points: no object argument, no result, the heap is unchanged -/
def interruptCalls : List String :=
  ["GEOS_interruptRegisterCallback", "GEOS_interruptRequest", "GEOS_interruptCancel"]

/-- `s` without its first `n` characters -/
def after (s : String) (n : Nat) : String := String.ofList (s.toList.drop n)

def parseIds (s : String) : Option (List Nat) :=
  if s.isEmpty || s == "-" then some []
  else (s.splitOn ",").filter (· ≠ "") |>.mapM String.toNat?

def parseTok (t : String) : Option Tok :=
  if t == "n" then some .null
  else if t.startsWith "o" then (after t 1).toNat?.map (fun i => .objs [i])
  else if t.startsWith "a:" then (parseIds (after t 2)).map .objs
  else some .other

inductive RetV where
  | p0 | p1 | v
  | num (n : Int)
  | dbl (bits : UInt64)
  | abnormal (cls : String)
deriving Repr, BEq

def parseRet (t : String) : Option RetV :=
  if t == "p0" then some .p0 else if t == "p1" then some .p1 else if t == "v" then some .v
  else if t.startsWith "c:" || t.startsWith "i:" then (after t 2).toInt?.map .num
  else if t.startsWith "d:" then (Driver.parseHex64 (after t 2)).map .dbl
  else if t.startsWith "X:" then some (.abnormal (after t 2))
  else none

/-- does the returned value equal the error value `e`? -/
def retIs (r : RetV) (e : ErrVal) : Bool :=
  match r, e with
  | .p0, .null => true
  | .num n, .int v => n == v
  | .dbl b, .int v => b == (Float.ofInt v).toBits
  | _, _ => false

/-- the error values a call of `e` may return: the documented one if there is one, else the implemented ones -/
def errVals (e : Entry) : List ErrVal :=
  match e.docErr with
  | some d => [d]
  | none => e.implErr.toList ++ e.manualRets

structure Facts where
  ret : RetV
  msg : Bool
  res : List Nat
  alias : Option Nat
  srid : Option (Int × Int)
  changed : List Nat
  oob : Bool
  /-- consumed arguments seen by the free hook while the call ran (`none`: fact not reported) -/
  freed : Option (List Nat) := none
  /-- `GEOSSTRtree_query_r`: callback invocations, items a scan finds -/
  query : Option (Nat × Nat) := none

def parseSrid (s : String) : Option (Option (Int × Int)) :=
  if s == "-" then some none
  else match s.splitOn ":" with
    | [a, b] => match a.toInt?, b.toInt? with
      | some a, some b => some (some (a, b))
      | _, _ => none
    | _ => none

def parseQuery (s : String) : Option (Option (Nat × Nat)) :=
  if s == "Q-" then some none
  else if s.startsWith "Q" then
    match (after s 1).splitOn ":" with
    | [a, b] => match a.toNat?, b.toNat? with
      | some a, some b => some (some (a, b))
      | _, _ => none
    | _ => none
  else none

def parseFacts7 : List String → Option Facts
  | [r, m, res, al, sr, ch, ob] => do
    let r ← parseRet r
    let msg ← if m == "m1" then some true else if m == "m0" then some false else none
    let res ← if res.startsWith "R" then parseIds (after res 1) else none
    let al ← if al == "a-" then some none else if al.startsWith "a" then (after al 1).toNat?.map some else none
    let sr ← if sr.startsWith "s" then parseSrid (after sr 1) else none
    let ch ← if ch.startsWith "M" then parseIds (after ch 1) else none
    some ⟨r, msg, res, al, sr, ch, ob == "O1", none, none⟩
  | _ => none

def parseFacts : List String → Option Facts
  | [r] => (parseRet r).map (fun r => ⟨r, false, [], none, none, [], false, none, none⟩)
  | [r, m, res, al, sr, ch, ob] => parseFacts7 [r, m, res, al, sr, ch, ob]
  | [r, m, res, al, sr, ch, ob, fr, q] => do
    let f ← parseFacts7 [r, m, res, al, sr, ch, ob]
    let fr ← if fr.startsWith "F" then parseIds (after fr 1) else none
    let q ← parseQuery q
    some { f with freed := some fr, query := q }
  | _ => none

/-- the consumed arguments that are geometries or coordinate sequences (what the harness watches) -/
def consumedData (c : Call) : List Nat :=
  (c.args.filter (fun a => a.mode == .consume && (a.kind == .geom || a.kind == .coordSeq))).flatMap (·.ids)

def splitArrow (ws : List String) : List String × List String :=
  (ws.takeWhile (· ≠ "=>"), (ws.dropWhile (· ≠ "=>")).drop 1)

def firstGeomIsSingle (e : Entry) : Bool :=
  match e.firstGeomParam with
  | some p => p.cls == .obj .geom
  | none => false

/-- a global interruption call: `none` = fine, `some why` = verdict -/
def interruptCall (lhs rhs : List String) : Option String :=
  match (lhs.drop 1).mapM parseTok, parseFacts rhs with
  | none, _ => some "bad-token"
  | _, none => some "bad-facts"
  | some toks, some f =>
    if toks.any (· != Tok.other) then some "tokens-do-not-fit-signature"
    else match f.ret with
      | .v => if f.msg || !f.res.isEmpty || !f.changed.isEmpty then some "bad-facts" else none
      | .abnormal cls => some cls
      | _ => some "bad-facts"

/-- the tree argument (first object token) of an STRtree call -/
def treeArg (lhs : List String) : Option Nat :=
  match lhs.drop 1 with
  | t :: _ => if t.startsWith "o" then (after t 1).toNat? else none
  | [] => none

/-- one call; `Except.error` carries the verdict that ends the replay (`ok` for a tolerated early end).  `built`: the trees
that were built so far; an insertion into one of them leaves the documented preconditions, nothing is demanded of the
rest of such a sequence. -/
def oneCallH (k : Nat) (h : Heap) (ws : List String) : Except String Heap := do
  let (lhs, rhs) := splitArrow ws
  let fname := lhs.headD "?"
  let bad (why : String) : Except String Heap := .error s!"V {k} {fname} {why}"
  if interruptCalls.contains fname then
    match interruptCall lhs rhs with
    | none => return h
    | some why => bad why
  else
  let some e := lookup apiTable fname | bad "unknown-entry-point"
  let some toks := (lhs.drop 1).mapM parseTok | bad "bad-token"
  let some c := e.toCall toks | bad "tokens-do-not-fit-signature"
  let some f := parseFacts rhs | bad "bad-facts"
  match f.ret with
  | .abnormal cls =>
    -- an allocation the sanitizer runtime refuses is `std::bad_alloc` (→ error value) in a normal build
    if cls == "oom" then throw "ok" else let _ ← bad cls
  | _ => pure ()
  -- an index beyond the object's size must be rejected with the error value and a message
  if f.oob && !f.msg then let _ ← bad "crash:oob-index@"
  let isErrVal := (errVals e).any (retIs f.ret)
  -- outcome class
  if f.msg && e.ret != RetClass.void && !isErrVal then let _ ← bad "UNDOCUMENTED:error-message-but-not-the-error-value"
  if f.msg && !f.res.isEmpty then let _ ← bad "UNDOCUMENTED:error-message-and-objects-created"
  let silentErr := !f.msg && (match e.ret, f.ret with
    | .ptr, .p0 => !nullOk.contains fname
    | .charBool, .num 2 => true
    | _, _ => false)
  if silentErr then let _ ← bad "UNDOCUMENTED:error-value-without-message"
  let obs : Obs := if f.msg || f.res.isEmpty && (match f.ret with | .p0 => true | _ => false) then .err else .ok f.res.length
  match step h c obs with
  | .error (.illegal why) => bad s!"illegal-for-model:{why}"
  | .ok (h', out) =>
    let ids := match out with | .result ids => ids | _ => []
    if ids != f.res then bad s!"result-ids-differ:model={ids}:impl={f.res}"
    else if f.alias.isSome then bad s!"result-aliases-live-object:{f.alias.getD 0}"
    else if !(f.changed.all (fun i => c.mutated.contains i)) then
      bad s!"const-or-unrelated-object-modified:{f.changed.filter (fun i => !c.mutated.contains i)}"
    else if obs == .err && (match f.freed with
        | some fr => !(consumedData c).all (fun i => fr.contains i)
        | none => false) then
      bad s!"consumed-argument-not-freed-by-refused-call:{(consumedData c).filter (fun i => !(f.freed.getD []).contains i)}"
    else if (match f.query with | some (hits, scan) => hits != scan | none => false) then
      bad (if fname == "GEOSSTRtree_query_r" then s!"tree-query-differs-from-scan:{(f.query.getD (0, 0)).1}:{(f.query.getD (0, 0)).2}"
           else s!"count-differs-from-recount:{(f.query.getD (0, 0)).1}:{(f.query.getD (0, 0)).2}")
    else
      match f.srid with
      | some (a, b) =>
        if e.isConstructive && firstGeomIsSingle e && a != b then
          bad s!"srid-not-propagated:{a}:{b}"
        else .ok h'
      | none => .ok h'

def oneCall (k : Nat) (st : Heap × List Nat) (ws : List String) : Except String (Heap × List Nat) := do
  let (lhs, _) := splitArrow ws
  let fname := lhs.headD "?"
  let t := if fname.startsWith "GEOSSTRtree_" then treeArg lhs else none
  match GeosModel.Api.TreeLife.step st.2 fname t with
  | none => throw "ok"     -- precondition "no more items may be added" broken by the caller: outside the property's quantifier
  | some built =>
    let h' ← oneCallH k st.1 ws
    return (h', built)

def splitCalls (ws : List String) : List (List String) :=
  let rec go (cur : List String) (acc : List (List String)) : List String → List (List String)
    | [] => (cur.reverse :: acc).reverse
    | ";" :: r => go [] (cur.reverse :: acc) r
    | w :: r => go (w :: cur) acc r
  go [] [] ws

def replay (line : String) : String :=
  match splitCalls (Driver.tokens line) with
  | ["SEQ"] :: calls =>
    let rec go (k : Nat) (st : Heap × List Nat) : List (List String) → String
      | [] => "V end - missing-END"
      | ["END", cls] :: _ =>
        if cls != "ok" then s!"V {k} END {cls}"
        else if st.1.any (·.live) then s!"V {k} END objects-alive-in-model-after-all-destroys"
        else "ok"
      | ws :: rest =>
        match oneCall k st ws with
        | .error v => v
        | .ok st' => go (k + 1) st' rest
    go 0 ([], []) calls
  | _ => "bad-line"

/-! ### stream `ctor-own` -/
open GeosModel.Api.Construct in
def parseCls : String → Option GCls
  | "pt" => some .point | "ls" => some .lineString | "lr" => some .linearRing | "cs" => some .circularString
  | "cc" => some .compoundCurve | "pg" => some .polygon | "cp" => some .curvePolygon | "mpt" => some .multiPoint
  | "mls" => some .multiLineString | "mpg" => some .multiPolygon | "mcu" => some .multiCurve | "msu" => some .multiSurface
  | "gc" => some .geometryCollection | _ => none

open GeosModel.Api.Construct in
/-- `null` or `<class>,<0|1>,<first>,<last>`; the outer `Option` is the parse result -/
def parseMember (t : String) : Option (Option Member) :=
  if t == "null" then some none
  else match t.splitOn "," with
    | [c, e, a, b] => do
      let cls ← parseCls c
      let a ← a.toNat?
      let b ← b.toNat?
      if e != "0" && e != "1" then none
      else some (some ⟨cls, e == "1", a, if cls == .linearRing then a else b⟩)
    | _ => none

open GeosModel.Api.Construct in
def parseCtor : List String → Option Ctor
  | "coll" :: t :: ms => do some (.coll (← t.toInt?) (← ms.mapM parseMember))
  | "poly" :: s :: hs => do some (.poly (← parseMember s) (← hs.mapM parseMember))
  | "cpoly" :: s :: hs => do some (.cpoly (← parseMember s) (← hs.mapM parseMember))
  | "ccurve" :: ms => do some (.ccurve (← ms.mapM parseMember))
  | ["point", n] => n.toNat?.map .point
  | ["line", n] => n.toNat?.map .line
  | ["circ", n] => n.toNat?.map .circ
  | ["ring", n, c] => if c == "c" || c == "o" then n.toNat?.map (.ring · (c == "c")) else none
  | _ => none

open GeosModel.Api.Construct in
def fateChar : Fate → Char
  | .null => '-' | .freed => 'F' | .moved => 'R' | .raw => 'L' | .held => 'H'

open GeosModel.Api.Construct in
def ctorOwn (line : String) : String :=
  if line == "LSAN" then "clean" else
  match parseCtor (Driver.tokens line) with
  | none => "bad-case"
  | some c =>
    let r := c.run
    let fs := if r.fates.isEmpty then "." else String.ofList (r.fates.map fateChar)
    match r.out with
    | .ok t => s!"ok {t} {fs}"
    | .err => s!"err {fs}"

end Driver.C12

def main (args : List String) : IO UInt32 := do
  match args with
  | ["api-seq"] =>
    Driver.loop (← IO.getStdin) (← IO.getStdout) Driver.C12.replay
    return 0
  | ["ctor-own"] =>
    Driver.loop (← IO.getStdin) (← IO.getStdout) Driver.C12.ctorOwn
    return 0
  | _ => IO.eprintln "usage: drv_c12 api-seq | ctor-own"; return 2
