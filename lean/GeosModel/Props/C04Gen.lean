import GeosModel.Model.Precision.HotPixel
import GeosModel.Generated.HotPixel
/-!
# C04 — the regenerated `HotPixel` tests are the model `hotpixel_iff` is about

`Generated/HotPixel.lean` is rewritten from `src/noding/snapround/HotPixel.cpp` / `HotPixel.h` by `translate/cxx2lean.py`
(spec `hotpixel`) on every run.  The C++ computes with `double`; the regenerated definitions are generic over the
carrier, and here they are instantiated with exact integers (`TOLERANCE` = `tol`, 1 in units of one half, which is how
the driver feeds the model; that the constant is 0.5 is checked by the translator) and proved equal to the hand-written
`Precision.intersectsScaled` / `Precision.intersectsPt`, the objects of `hotpixel_iff` and `hotpixel_pt_iff` in
`Props/C04.lean` — for every pixel, every segment, every scale factor, with the exact orientation sign in place of
`CGAlgorithmsDD::orientationIndex` (that function is C07's subject).
-/
namespace GeosModel.C04Gen
open GeosModel GeosModel.Precision GeosModel.Generated

/-- `HotPixel::intersectsScaled`, regenerated, over exact integers = the model -/
theorem gen_intersectsScaled_eq (hx hy tol p0x p0y p1x p1y : Int) :
    HotPixel.intersectsScaled (R := Int) orientIdx hx hy tol p0x p0y p1x p1y
      = Precision.intersectsScaled (Px.ofCentre hx hy tol) p0x p0y p1x p1y := by
  unfold HotPixel.intersectsScaled Precision.intersectsScaled Precision.intersectsOriented Px.ofCentre
  by_cases h : p1x < p0x <;> simp [Cxx.gt, Cxx.ge, Cxx.min, Cxx.max, h] <;> grind

/-- `HotPixel::intersects(p)`: scales the point by `scaleFactor`, then the half-open square test of the model -/
theorem gen_intersectsPt_eq (s hx hy tol x y : Int) :
    HotPixel.intersectsPt (R := Int) s hx hy tol ⟨x, y⟩
      = Precision.intersectsPt (Px.ofCentre hx hy tol) (x * s) (y * s) := by
  simp [HotPixel.intersectsPt, HotPixel.scale, Precision.intersectsPt, Px.ofCentre, Cxx.ge] <;> grind

/-- `HotPixel::intersects(p0, p1)`: both branches (`scaleFactor == 1.0` or not) are the model applied to the scaled
endpoints -/
theorem gen_intersectsSeg_eq (s hx hy tol x0 y0 x1 y1 : Int) :
    HotPixel.intersectsSeg (R := Int) orientIdx s hx hy tol ⟨x0, y0⟩ ⟨x1, y1⟩
      = Precision.intersectsScaled (Px.ofCentre hx hy tol) (x0 * s) (y0 * s) (x1 * s) (y1 * s) := by
  unfold HotPixel.intersectsSeg
  by_cases h : s = 1
  · subst h; simp [gen_intersectsScaled_eq]
  · simp [h, HotPixel.scale, gen_intersectsScaled_eq]

/-- the unit-½ pixel of the driver: `Px.ofCentre2 hx hy` is `Px.ofCentre (2hx) (2hy) 1` by definition -/
example (hx hy : Int) : Px.ofCentre2 hx hy = Px.ofCentre (2 * hx) (2 * hy) 1 := rfl

end GeosModel.C04Gen
