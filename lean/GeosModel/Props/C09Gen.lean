import GeosModel.Model.WKB.Cxx
import GeosModel.Proofs.WKB.Bits
import GeosModel.Generated.WkbWords
/-!
# C09 — the regenerated word-level decisions of `WKBWriter` / `WKBReader` are the ones the model is built from

`Generated/WkbWords.lean` is rewritten from `src/io/WKBWriter.cpp` / `src/io/WKBReader.cpp` / `src/io/ByteOrderValues.cpp` by `translate/cxx2lean.py`
(spec `wkb_words`, parser extensions `translate/cxx_ext.py`) on every run, statement by statement; the enumerators of
`WKBConstants.h` are read from the header each time.  Each theorem proves a regenerated function equal to the piece of
the hand-written model (`Model/WKB/Write.lean`, `Read.lean`, `Basic.lean`; vocabulary in `Model/WKB/Cxx.lean`) that
`read_write_canon` & co. (`Props/C09.lean`) are about — for **all** arguments:

* `getWkbType`            = `wkbCode` (the type code `writeG` puts in the header of each of the 13 types: `writeG_header`)
* `writeGeometryType`     = `typeWord` (ISO +1000/+2000, extended 0x80000000/0x40000000, SRID flag 0x20000000), as the
                            32-bit word `writeInt` emits; C++ `|` on `int` is 32-bit two's complement
* `writeSRID`             = the SRID word of `header` (extended flavour, `includeSRID`, SRID ≠ 0)
* both, serialised        = `header` (`gen_header_eq`)
* `getOutputOrdinates`    = `outOrd` (drop M, then Z; the `while` loop ends within two iterations)
* `getUnsigned`           = `getU32` (`ByteOrderValues.cpp`: mask, shift, or of the four bytes in the selected order)
* `readGeometry`, decode  = `decodeType` (+ the member `inputDimension` = 2 + Z + M)
* `readGeometry`, switch  = `kindOfCode` (unknown code ⇒ `ParseException`)
* `minMemSize`            = "fewer than `n × minUnit ty` bytes left ⇒ `ParseException`" (`readBody_guard`, `readCoordSeq_guard`
                            in `Props/C09.lean` show that these are the `tooSmall` guards of the model's reader)
-/
set_option linter.unusedSimpArgs false
namespace GeosModel.C09Gen
open GeosModel GeosModel.WKB GeosModel.Generated

/-- `WKBWriter::getWkbType` (total on the 13 type ids: the trailing `throw` is unreachable) -/
theorem gen_getWkbType_eq (t : TypeId) : WkbWords.getWkbType t = .ok (wkbCode t : Int) := by
  cases t <;> rfl

/-- `WKBWriter::writeGeometryType`: the one word it writes, as 32 bits, is `typeWord` with the effective SRID
(`includeSRID ? SRID : 0`), for every type code below 2^29 (the 12 real ones are below 13), both flavours, all flags -/
theorem gen_writeGeometryType_eq (f : Flavor) (oz om inc : Bool) (out : List Int) (code : Nat) (srid : Int)
    (hc : code < 536870912) :
    (WkbWords.writeGeometryType f.code (oz, om) inc out (code : Int) srid).map (List.map intToU32)
      = .ok (out.map intToU32 ++ [typeWord f oz om code (if inc then srid else 0)]) := by
  have hm : code % 4294967296 = code := Nat.mod_eq_of_lt (by omega)
  cases f <;> cases oz <;> cases om <;> cases inc <;> by_cases hs : srid = 0 <;>
    simp [WkbWords.writeGeometryType, Flavor.code, typeWord, OrdSet.hasZ, OrdSet.hasM, hs, Except.map,
      pure, Except.pure, bind, Except.bind,
      intToU32_int32Or, intToU32_u32AsInt, intToU32_ofNat, intToU32_lit, intToU32_add, hm, Nat.or_assoc, Nat.add_assoc] <;>
    first | exact or_flags _ _ hc (by decide) | omega

/-- a flavour value other than `wkbExtended` / `wkbIso` is rejected (`setFlavor` never lets one in) -/
theorem gen_writeGeometryType_badFlavor (fl : Int) (o : OrdSet) (inc : Bool) (out : List Int) (code srid : Int)
    (h1 : fl ≠ 1) (h2 : fl ≠ 2) :
    WkbWords.writeGeometryType fl o inc out code srid = .error "IllegalArgumentException" := by
  simp [WkbWords.writeGeometryType, h1, h2, throw, throwThe, MonadExceptOf.throw, bind, Except.bind]

/-- `WKBWriter::writeSRID`: the SRID word is written exactly when the model's `header` has one -/
theorem gen_writeSRID_eq (f : Flavor) (inc : Bool) (out : List Int) (srid : Int) :
    WkbWords.writeSRID f.code inc out srid
      = out ++ (if f = .ext ∧ (if inc then srid else 0) ≠ 0 then [if inc then srid else 0] else []) := by
  cases f <;> cases inc <;> by_cases hs : srid = 0 <;> simp [WkbWords.writeSRID, Flavor.code, hs]

/-- `writeByteOrder; writeGeometryType; writeSRID` — the order byte followed by the words the two regenerated functions
emit, each serialised by `putU32` (`ByteOrderValues::putInt`), is the model's `header` -/
theorem gen_header_eq (c : Cfg) (oz om inc : Bool) (code : Nat) (srid : Int) (hc : code < 536870912) :
    ((WkbWords.writeGeometryType c.flavor.code (oz, om) inc [] (code : Int) srid).map
        (fun ws => c.order.byte :: ((WkbWords.writeSRID c.flavor.code inc ws srid).map intToU32).flatMap (putU32 c.order)))
      = .ok (header c oz om code (if inc then srid else 0)) := by
  have h := gen_writeGeometryType_eq c.flavor oz om inc [] code srid hc
  cases hw : WkbWords.writeGeometryType c.flavor.code (oz, om) inc [] (code : Int) srid with
  | error e => rw [hw] at h; simp [Except.map] at h
  | ok ws =>
    rw [hw] at h
    simp only [Except.map, List.map_nil, List.nil_append, Except.ok.injEq] at h
    simp only [Except.map, gen_writeSRID_eq, List.map_append, h, header]
    generalize (if inc then srid else 0) = e
    by_cases hx : c.flavor = .ext ∧ e ≠ 0 <;> simp [hx, List.flatMap]

/-- `WKBWriter::getOutputOrdinates`: for an output dimension ≥ 2 (the constructor and `setOutputDimension` reject the
rest) the loop terminates — two iterations suffice — with the model's `outOrd` -/
theorem gen_getOutputOrdinates_eq (d : Nat) (z m : Bool) (hd : 2 ≤ d) :
    WkbWords.getOutputOrdinates 2 (d : Int) (z, m) = .ok (outOrd d z m) := by
  have hr : List.range' 0 2 = [0, 1] := rfl
  have hd' : d = 2 ∨ d = 3 ∨ 4 ≤ d := by omega
  rcases hd' with rfl | rfl | h4
  · cases z <;> cases m <;>
      simp [WkbWords.getOutputOrdinates, outOrd, OrdSet.size, OrdSet.hasM, OrdSet.hasZ, OrdSet.setM, OrdSet.setZ, toN, hr,
        pure, Except.pure, bind, Except.bind, throw, throwThe, MonadExceptOf.throw]
  · cases z <;> cases m <;>
      simp [WkbWords.getOutputOrdinates, outOrd, OrdSet.size, OrdSet.hasM, OrdSet.hasZ, OrdSet.setM, OrdSet.setZ, toN, hr,
        pure, Except.pure, bind, Except.bind, throw, throwThe, MonadExceptOf.throw]
  · have i4 : (4 : Int) ≤ d := by omega
    have i3 : (3 : Int) ≤ d := by omega
    have i2 : (2 : Int) ≤ d := by omega
    have n3 : 3 ≤ d := by omega
    cases z <;> cases m <;>
      simp [WkbWords.getOutputOrdinates, outOrd, OrdSet.size, OrdSet.hasM, OrdSet.hasZ, OrdSet.setM, OrdSet.setZ, toN, hr,
        i4, i3, i2, h4, n3, hd, pure, Except.pure, bind, Except.bind, throw, throwThe, MonadExceptOf.throw]

/-- with an output dimension below 2 and nothing left to drop the C++ loop does not terminate: no fuel is enough -/
theorem gen_getOutputOrdinates_dim1_diverges : WkbWords.getOutputOrdinates 5 1 (false, false) = .error "while: out of fuel" := by
  have hr : List.range' 0 5 = [0, 1, 2, 3, 4] := rfl
  simp [WkbWords.getOutputOrdinates, OrdSet.size, OrdSet.hasM, OrdSet.hasZ, OrdSet.setM, OrdSet.setZ, hr,
    pure, Except.pure, bind, Except.bind, throw, throwThe, MonadExceptOf.throw]

/-- `ByteOrderValues::getUnsigned` (what `readUnsigned` decodes the type word and every count with): four bytes, masked with
0xff, shifted and or-ed in the order the byte-order argument selects, are the model's `getU32` -/
theorem gen_getUnsigned_eq (o : Order) (a b c d : UInt8) :
    WkbWords.getUnsigned [a.toNat, b.toNat, c.toNat, d.toNat] o.code = getU32 o a b c d := by
  have ha := a.toNat_lt; have hb := b.toNat_lt; have hc := c.toNat_lt; have hd := d.toNat_lt
  simp only [Nat.reducePow] at ha hb hc hd
  cases o <;>
    simp only [WkbWords.getUnsigned, Order.code, getU32, and_255, shl32_24, shl32_16, shl32_8, ha, hb, hc, hd,
      List.getD_cons_zero, List.getD_cons_succ, Id.run, pure, Int.reduceEq, Int.reduceBEq, beq_self_eq_true, if_true, if_false,
      Bool.false_eq_true, ite_true, ite_false, reduceIte] <;>
    (try simp (disch := omega) only [or_add8, or_add16, or_add24, or_add8', or_add16', or_add24']) <;>
    (try simp (disch := omega) only [or_add8, or_add16, or_add24, or_add8', or_add16', or_add24']) <;>
    first | omega | (simp <;> omega)

/-- any byte-order value other than `ENDIAN_BIG` is read as little endian (the `else` branch; the `assert` is compiled out) -/
theorem gen_getUnsigned_other (bo : Int) (h : bo ≠ 0) (buf : List Nat) :
    WkbWords.getUnsigned buf bo = WkbWords.getUnsigned buf 1 := by
  simp [WkbWords.getUnsigned, h]

/-- the decoding of the type word in `WKBReader::readGeometry` (`& 0xffff`, `% 1000`, `/ 1000`, the three flag bits) is
`decodeType`, for every 32-bit word (indeed every natural number); `inputDimension` is 2 + Z + M -/
theorem gen_readGeometry_decode_eq (t : Nat) (z0 m0 : Bool) (d0 : Nat) :
    WkbWords.readGeometry_decode t z0 m0 d0
      = (((decodeType t).1, (decodeType t).2.2.2), (decodeType t).2.1, (decodeType t).2.2.1,
         inputDim (decodeType t).2.1 (decodeType t).2.2.1) := by
  simp only [WkbWords.readGeometry_decode, decodeType, inputDim, toN, and_low16, and_bit31, and_bit30, and_bit29]
  simp
  first | grind | (repeat' split <;> simp_all)

/-- the dispatch `switch` of `WKBReader::readGeometry`: the reader function chosen for a type code is the one of
`kindOfCode`; any other code throws `ParseException` (the model's `Err.unknownType`) -/
theorem gen_readGeometry_dispatch_eq (gt : Nat) :
    WkbWords.readGeometry_dispatch gt
      = match kindOfCode gt with | some k => .ok (some k) | none => .error "ParseException" := by
  rcases Nat.lt_or_ge gt 13 with h | h
  · have e : gt = 0 ∨ gt = 1 ∨ gt = 2 ∨ gt = 3 ∨ gt = 4 ∨ gt = 5 ∨ gt = 6 ∨ gt = 7 ∨ gt = 8 ∨ gt = 9 ∨ gt = 10 ∨ gt = 11
        ∨ gt = 12 := by omega
    rcases e with rfl | rfl | rfl | rfl | rfl | rfl | rfl | rfl | rfl | rfl | rfl | rfl | rfl <;> rfl
  · have h1 : gt ≠ 1 := by omega
    have h2 : gt ≠ 2 := by omega
    have h3 : gt ≠ 3 := by omega
    have h4 : gt ≠ 4 := by omega
    have h5 : gt ≠ 5 := by omega
    have h6 : gt ≠ 6 := by omega
    have h7 : gt ≠ 7 := by omega
    have h8 : gt ≠ 8 := by omega
    have h9 : gt ≠ 9 := by omega
    have h10 : gt ≠ 10 := by omega
    have h11 : gt ≠ 11 := by omega
    have h12 : gt ≠ 12 := by omega
    simp [WkbWords.readGeometry_dispatch, kindOfCode, h1, h2, h3, h4, h5, h6, h7, h8, h9, h10, h11, h12,
      throw, throwThe, MonadExceptOf.throw, pure, Except.pure, bind, Except.bind]

/-- `WKBReader::minMemSize` with `rem` bytes left in the stream -/
theorem gen_minMemSize_eq (rem : Nat) (ty : TypeId) (n : Nat) :
    WkbWords.minMemSize rem ty n = if rem < n * minUnit ty then .error "ParseException" else .ok () := by
  cases ty <;> simp [WkbWords.minMemSize, minUnit] <;> split <;> rename_i h <;>
    simp [h, throw, throwThe, MonadExceptOf.throw, pure, Except.pure]

/-! non-vacuity: concrete words -/
example : (WkbWords.writeGeometryType 1 (true, true) true [] 3 4326).map (List.map intToU32) = .ok [3758096387] := by
  rw [show (1 : Int) = Flavor.ext.code from rfl, show (3 : Int) = ((3 : Nat) : Int) from rfl,
    gen_writeGeometryType_eq _ _ _ _ _ _ _ (by decide)]; rfl
example : WkbWords.readGeometry_decode 3758096387 false false 0 = ((3, true), true, true, 4) := by
  rw [gen_readGeometry_decode_eq]; decide
example : WkbWords.readGeometry_decode 3003 false false 0 = ((3, false), true, true, 4) := by
  rw [gen_readGeometry_decode_eq]; decide

end GeosModel.C09Gen
