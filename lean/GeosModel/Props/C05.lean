import GeosModel.Proofs.Valid.NodeTopo
import GeosModel.Proofs.Valid.RefInv
import GeosModel.Proofs.Valid.CrossSymm
import GeosModel.Proofs.Valid.RingNested
import GeosModel.Proofs.Valid.WedgeDet
import GeosModel.Proofs.Valid.PairRule
import GeosModel.Proofs.Valid.ProcessAll
import GeosModel.Proofs.Valid.RuleOrder
import GeosModel.Proofs.Valid.SimplePair
import GeosModel.Proofs.Valid.SelfNode
import GeosModel.Proofs.Valid.NestedTester
/-!
# C05 — isValid and isSimple decide the OGC rules exactly

Two layers (DESIGN.md section 3, C05).

**CORE (FULL).**  `Model/Valid/NodeTopo.lean` is `algorithm::PolygonNodeTopology` + `Quadrant::quadrant` over `Int`,
branch by branch.  Theorems below, for *all* integer points:
`compareAngle o · ·` is a strict weak order on the directions from `o` (antisymmetric, transitive, incomparability
transitive), it agrees with the half-plane / `Kernel.det` specification `angLt` of the counter-clockwise order from
the positive x-axis, its zero is "same ray"; `isAngleGreater` is `compareAngle = 1`;
`isCrossing` is true exactly when `b0` and `b1` lie strictly in different open wedges of the corner `(a0, a1)`
(`crossAt`, stated with the cyclic order `cyc` of the specification order); `isInteriorSegment` is true exactly when
`b` points into the sweep from `a0` (exclusive) counter-clockwise to `a1` (inclusive).

**CORE, second part (FULL for the statements made).**  `Model/Valid/RingNested.lean` is
`PolygonTopologyAnalyzer::isRingNested` (the one decision behind hole-in-shell, nested holes, nested shells and
shell-in-hole) with `findNonEqualVertex`, `isIncidentSegmentInRing`, `intersectingSegIndex`, `findRingVertexPrev/Next`,
`Orientation::isCCWArea` / `Area::ofRingSigned`, branch by branch, tied to the real function by the stream `ring-nested`.
Theorems: the counter-clockwise sweep `cyc` of the specification is a condition on orientation determinants alone
(`cyc_iff_det`), hence `isInteriorSegment_iff_det` ("the segment lies inside the corner", no reference to the axes);
`isCrossing` is invariant under all eight lattice symmetries and `isInteriorSegment` under the four rotations; exchanging
the arms of a corner negates `isInteriorSegment`; `isCrossing` = "`isInteriorSegment` differs for the two edges"; only the
rays of the points matter (repeated-point skipping is harmless); translation invariance; `isCCWArea` is the sign of the
shoelace specification `Kernel.area2` on closed rings and flips under reversal; off the target ring `isRingNested` is the
even–odd point-in-ring specification of the start vertex, on it the node topology of the first test segment.
Not proved: that `isRingNested` equals ring containment for non-crossing rings (a Jordan-curve statement) — that is
checked per case against the exact reference `ringInRing` by the stream `ring-nested`.

**CORE, third part.**  `Model/Valid/PairRule.lean` is `PolygonIntersectionAnalyzer::findInvalidIntersection` (the decision
for every pair of ring segments the noder presents), tied to the real `processIntersections` by the stream `pair-rule`;
`findInvalidIntersection_eq_pairRule`: it returns exactly the code of the reference evaluator's `pairRule`.

**CORE, fourth part (translator-tied: see `Props/C05Gen*.lean`).**  `processIntersections` / `processAll`
(Model/Valid/PairRule.lean): after the analyzer has been shown any sequence of segment pairs its recorded code is "none" exactly
when every presented pair is allowed, a recorded code is the code of a presented pair, and over all pairs of distinct segments
of rings without repeated points "no invalid intersection" is the reference's rule 5/6 (`areaIntersections`) — that the noder
presents every intersecting pair stays a correspondence matter.  `Model/Valid/RuleOrder.lean`: the order in which `IsValidOp`
runs its checks and stops (`firstErr` of a list); the reference evaluator's `firstOf` is that sequencing and `pointRef`,
`lineRef`, `ringRef`, `polygonalRef` (one element) follow the orders the regenerated C++ is proved to follow.

**CORE, fifth part: simplicity.**  `Model/Valid/SimplePair.lean` is `IsSimpleOp::NonSimpleIntersectionFinder::findIntersection` with
`isIntersectionEndpoint` / `intersectionVertexIndex`, branch by branch (translator-tied: `Props/C05GenSimple.lean`);
`findIntersection_decides_simplePair`: under the Mod-2 boundary rule it reports an intersection for a pair of distinct segments of
de-duplicated lines exactly when the reference's `simplePair` forbids the pair, hence (`linesSimple_iff_no_intersection`) a set of
lines is simple for the reference exactly when the C++ decision finds nothing in any pair — that the noder presents every
intersecting pair stays a correspondence matter (stream valid-grid: GEOSisSimple / GEOSisRing).

**CORE, sixth part: the self-touch bookkeeping of the self-touching-ring mode.**  `Model/Valid/SelfNode.lean` is the path
`findInvalidIntersection` → `PolygonRing::addSelfTouch` → `PolygonRing::findInteriorSelfNode` → `PolygonRingSelfNode::isExterior`,
branch by branch, tied to the real functions by the stream `self-node`.  Every presented pair that reaches `addSelfTouch` is
recorded, nothing is dropped (`selfNodes_are_all_recorded`); a recorded entry belongs to an allowed pair of one ring in flag mode
whose passes do not cross (`recorded_selfTouch_is_allowed`); an interior self node is found exactly when SOME presented pair
records an entry that is not exterior (`interiorSelfNode_found_iff`), hence independently of the order / multiplicity in which
the noder presents the pairs (`interiorSelfNode_order_irrelevant`) — a ring that passes k times through a node has k(k−1)/2
pairs of passes there and each of them counts; the test is symmetric in the edge of the second pass that is used
(`isExterior_other_edge`) and in the direction of the ring (`isExterior_ring_reversal`).

**CORE, seventh part: nested shells.**  `Model/Valid/NestedTester.lean` is `IndexedNestedPolygonTester` (`isNested`,
`findNestedPoint`, `findIncidentSegmentNestedPoint`, `Envelope::covers`), branch by branch (point locations = C07's model of
`IndexedPointInAreaLocator`, `isRingNested` = the second part), tied to the real class by the stream `nested-tester`.  When no
`isRingNested` call throws: the loop over the candidate's holes is `any` over the holes — every hole counts, the envelope test
only skips holes that cannot contain the shell (`nested_incident_spec`); `findNestedPoint` does not depend on the order of the
candidate's holes (`findNestedPoint_hole_order_irrelevant`); `isNested` reports nested shells exactly when some element has a hit
among the OTHER elements (`isNested_iff_some_pair`), hence independently of the order of the elements
(`isNested_element_order_irrelevant`) and of the order in which the spatial index hands over the candidates.

**SPEC (PARTIAL).**  `Model/Valid/Ref.lean` evaluates the OGC/JTS rules literally with exact predicates; GEOS is tied
to it by the correspondence stream `valid-grid`.  Proved here about the reference: invariance of the intersection
rule (codes 5/6) and of the structural rules under translation, and the symmetries of the wedge specification
(`crossAt` under reversal of either pass, exchange of the two passes, and translation).  The full invariance statement of the property
(all eight lattice symmetries, ring rotation / reversal, hole / element permutation, for every rule) is kept as
`C05_ref_invariant_full`; it is checked on every generated case against GEOS itself by the harness' invariance
oracle, but is **not** proved for the reference evaluator beyond the parts named `…_partial`.
Not proved: that the literal rules are the OGC point-set definition, and that "one interior face" is equivalent to
`interiorClasses = components` (argument: Euler's formula; every bounded component of the ring arrangement that
does not contain the shell floats in exactly one interior face because holes are inside the shell and not nested).
-/
namespace GeosModel.C05
open GeosModel.Kernel GeosModel.Valid GeosModel.Relate

/-! ## CORE: the angular order of `PolygonNodeTopology` -/

/-- `compareAngle` only takes the values −1, 0, 1 -/
theorem compareAngle_range (o p q : Pt) :
    compareAngle o p q = -1 ∨ compareAngle o p q = 0 ∨ compareAngle o p q = 1 :=
  Valid.compareAngle_range o p q

/-- antisymmetry -/
theorem compareAngle_antisymm (o p q : Pt) : compareAngle o q p = - compareAngle o p q :=
  Valid.compareAngle_antisymm o p q

/-- transitivity of the strict order on directions from a common origin -/
theorem compareAngle_trans (o p q r : Pt) (hp : p ≠ o) (hq : q ≠ o) (hr : r ≠ o)
    (h1 : compareAngle o p q = -1) (h2 : compareAngle o q r = -1) : compareAngle o p r = -1 :=
  Valid.compareAngle_trans o p q r hp hq hr h1 h2

/-- transitivity of incomparability: with the two theorems above, a strict weak order -/
theorem compareAngle_eq_trans (o p q r : Pt) (hq : q ≠ o)
    (h1 : compareAngle o p q = 0) (h2 : compareAngle o q r = 0) : compareAngle o p r = 0 :=
  Valid.compareAngle_eq_trans o p q r hq h1 h2

/-- **agreement with the counter-clockwise order from the positive x-axis**, stated with the half-plane /
`Kernel.det` specification: `p` before `q` iff `p` is in the upper half turn `[0°,180°)` and `q` is not, or they are
in the same half turn and `det o p q > 0` (`q` is to the left of `o → p`) -/
theorem compareAngle_lt_iff_angLt (o p q : Pt) (hp : p ≠ o) (hq : q ≠ o) :
    compareAngle o p q = -1 ↔
      ((upper o p = true ∧ upper o q = false) ∨ (upper o p = upper o q ∧ det o p q > 0)) := by
  rw [Valid.compareAngle_lt_iff o p q hp hq, Valid.angLt_iff]

/-- `compareAngle = 0` exactly for two points on the same ray from `o` (collinear, positive dot product) -/
theorem compareAngle_eq_zero_iff_sameDir (o p q : Pt) (hp : p ≠ o) (hq : q ≠ o) :
    compareAngle o p q = 0 ↔ (det o p q = 0 ∧ dot o p q > 0) := by
  rw [Valid.compareAngle_eq_zero_iff o p q hp hq, Valid.sameDir_iff]

/-- inside one quadrant the comparison *is* the sign of `Kernel.det` -/
theorem compareAngle_same_quadrant (o p q : Pt) (h : quadrant o p = quadrant o q) :
    compareAngle o p q = (det o q p).sign := by
  rw [Valid.compareAngle_nf]
  have h1 : ¬ quadrant o p > quadrant o q := by omega
  have h2 : ¬ quadrant o p < quadrant o q := by omega
  simp only [h1, h2, if_false]
  split_ifs with h3 h4
  · exact (Int.sign_eq_one_of_pos h3).symm
  · exact (Int.sign_eq_neg_one_of_neg h4).symm
  · have : det o q p = 0 := by omega
    rw [this]; rfl

/-- the second copy of the comparison in the C++ (`isAngleGreater`) is consistent with the first -/
theorem isAngleGreater_iff (o p q : Pt) : isAngleGreater o p q = true ↔ compareAngle o p q = 1 :=
  Valid.isAngleGreater_iff o p q

/-- **isCrossing_iff**: for a node `n` and corner points different from it, `isCrossing` is true exactly when `b0`
and `b1` lie strictly in different open wedges of the corner `(a0, a1)`: one strictly inside the counter-clockwise
sweep from `a0` to `a1`, the other strictly inside the sweep from `a1` to `a0` -/
theorem isCrossing_iff (n a0 a1 b0 b1 : Pt) (h0 : a0 ≠ n) (h1 : a1 ≠ n) (hb0 : b0 ≠ n) (hb1 : b1 ≠ n) :
    isCrossing n a0 a1 b0 b1 = true ↔
      ((cyc n a0 b0 a1 = true ∧ cyc n a1 b1 a0 = true) ∨ (cyc n a1 b0 a0 = true ∧ cyc n a0 b1 a1 = true)) := by
  rw [Valid.isCrossing_eq_crossAt n a0 a1 b0 b1 h0 h1 hb0 hb1]
  unfold crossAt; simp

/-- **isInteriorSegment_iff**: true exactly when `n → b` points strictly inside the counter-clockwise sweep from
`a0` to `a1`, or along `a1` itself (and the corner is not degenerate) -/
theorem isInteriorSegment_iff (n a0 a1 b : Pt) (h0 : a0 ≠ n) (h1 : a1 ≠ n) (hb : b ≠ n) :
    isInteriorSegment n a0 a1 b = true ↔
      (cyc n a0 b a1 = true ∨ (angEq n b a1 = true ∧ angEq n a0 a1 = false)) := by
  rw [Valid.isInteriorSegment_eq_interiorAt n a0 a1 b h0 h1 hb]
  unfold interiorAt; simp

/-- a degenerate corner (both edges along one ray) has no inside: nothing crosses it -/
theorem isCrossing_degenerate_corner (n a0 a1 b0 b1 : Pt) (h0 : a0 ≠ n) (h1 : a1 ≠ n) (hb0 : b0 ≠ n) (hb1 : b1 ≠ n)
    (hs : compareAngle n a0 a1 = 0) : isCrossing n a0 a1 b0 b1 = false := by
  rw [Valid.isCrossing_eq_crossT, hs]
  have k0 := Valid.compatB_actual n a0 a1 b0 h0 h1 hb0
  have k1 := Valid.compatB_actual n a0 a1 b1 h0 h1 hb1
  rw [hs] at k0 k1
  generalize S3.ofInt (compareAngle n b0 a0) = p0 at *
  generalize S3.ofInt (compareAngle n b0 a1) = p1 at *
  generalize S3.ofInt (compareAngle n b1 a0) = q0 at *
  generalize S3.ofInt (compareAngle n b1 a1) = q1 at *
  revert k0 k1
  cases p0 <;> cases p1 <;> cases q0 <;> cases q1 <;> decide

/-! non-vacuity: concrete corners -/
example : isCrossing ⟨0, 0⟩ ⟨1, 0⟩ ⟨-1, 0⟩ ⟨0, 1⟩ ⟨0, -1⟩ = true := by decide
example : isCrossing ⟨0, 0⟩ ⟨1, 0⟩ ⟨-1, 0⟩ ⟨0, 1⟩ ⟨1, 1⟩ = false := by decide
example : isCrossing ⟨0, 0⟩ ⟨1, 0⟩ ⟨-1, 0⟩ ⟨2, 0⟩ ⟨0, -1⟩ = false := by decide     -- collinear overlap is not a crossing
example : isInteriorSegment ⟨0, 0⟩ ⟨0, -1⟩ ⟨1, 0⟩ ⟨1, -1⟩ = true := by decide
example : compareAngle ⟨0, 0⟩ ⟨1, 0⟩ ⟨-1, 0⟩ = -1 ∧ compareAngle ⟨0, 0⟩ ⟨-1, 0⟩ ⟨-1, -1⟩ = -1 ∧ compareAngle ⟨0, 0⟩ ⟨2, 2⟩ ⟨1, 1⟩ = 0 := by decide

/-! ## CORE, second part: the nesting decision `PolygonTopologyAnalyzer::isRingNested`

`Model/Valid/RingNested.lean` is `isRingNested` with its helpers (`findNonEqualVertex`, `isIncidentSegmentInRing`,
`intersectingSegIndex`, `findRingVertexPrev/Next`, `Orientation::isCCWArea` / `Area::ofRingSigned`) branch by branch; it is
tied to the real function by the stream `ring-nested`.  This one decision is behind four rules of `IsValidOp` (hole in
shell, nested holes, nested shells, shell inside a hole of another element). -/

/-- **the two sides of a corner are complementary**: exchanging the arms of a proper corner (what `isIncidentSegmentInRing`
does for a counter-clockwise target ring) negates `isInteriorSegment`, for every direction that is not along an arm -/
theorem isInteriorSegment_swap_arms (n a0 a1 b : Pt) (h0 : a0 ≠ n) (h1 : a1 ≠ n) (hb : b ≠ n)
    (hx : compareAngle n a0 a1 ≠ 0) (hp0 : compareAngle n b a0 ≠ 0) (hp1 : compareAngle n b a1 ≠ 0) :
    isInteriorSegment n a1 a0 b = !isInteriorSegment n a0 a1 b :=
  Valid.isInteriorSegment_swap_arms n a0 a1 b h0 h1 hb hx hp0 hp1

/-- **a crossing is "one edge on each side"**: for edges `b0`, `b1` off the arms of a proper corner, `isCrossing` holds
exactly when `isInteriorSegment` gives different answers for `b0` and `b1` (the two C++ functions are consistent) -/
theorem isCrossing_eq_sides_differ (n a0 a1 b0 b1 : Pt) (h0 : a0 ≠ n) (h1 : a1 ≠ n) (hb0 : b0 ≠ n) (hb1 : b1 ≠ n)
    (hx : compareAngle n a0 a1 ≠ 0) (hp0 : compareAngle n b0 a0 ≠ 0) (hp1 : compareAngle n b0 a1 ≠ 0)
    (hq0 : compareAngle n b1 a0 ≠ 0) (hq1 : compareAngle n b1 a1 ≠ 0) :
    isCrossing n a0 a1 b0 b1 = (isInteriorSegment n a0 a1 b0 != isInteriorSegment n a0 a1 b1) :=
  Valid.isCrossing_eq_sides n a0 a1 b0 b1 h0 h1 hb0 hb1 hx hp0 hp1 hq0 hq1

/-- **only the rays matter** (`isInteriorSegment`): replacing `a0`, `a1`, `b` by any other points on the same rays from the
node — which is what the repeated-point skipping of `findNonEqualVertex` / `findRingVertexPrev/Next` and the choice of the
segment end instead of a nearer point amount to — does not change the answer -/
theorem isInteriorSegment_rays (n a0 a1 b a0' a1' b' : Pt) (h0 : a0 ≠ n) (h1 : a1 ≠ n) (hb : b ≠ n)
    (h0' : a0' ≠ n) (h1' : a1' ≠ n) (hb' : b' ≠ n)
    (e0 : compareAngle n a0 a0' = 0) (e1 : compareAngle n a1 a1' = 0) (eb : compareAngle n b b' = 0) :
    isInteriorSegment n a0' a1' b' = isInteriorSegment n a0 a1 b :=
  Valid.isInteriorSegment_rays n a0 a1 b a0' a1' b' h0 h1 hb h0' h1' hb' e0 e1 eb

/-- **only the rays matter** (`isCrossing`) -/
theorem isCrossing_rays (n a0 a1 b0 b1 a0' a1' b0' b1' : Pt) (h0 : a0 ≠ n) (h1 : a1 ≠ n) (hb0 : b0 ≠ n) (hb1 : b1 ≠ n)
    (h0' : a0' ≠ n) (h1' : a1' ≠ n) (hb0' : b0' ≠ n) (hb1' : b1' ≠ n)
    (e0 : compareAngle n a0 a0' = 0) (e1 : compareAngle n a1 a1' = 0)
    (f0 : compareAngle n b0 b0' = 0) (f1 : compareAngle n b1 b1' = 0) :
    isCrossing n a0' a1' b0' b1' = isCrossing n a0 a1 b0 b1 :=
  Valid.isCrossing_rays n a0 a1 b0 b1 a0' a1' b0' b1' h0 h1 hb0 hb1 h0' h1' hb0' hb1' e0 e1 f0 f1

/-- **the counter-clockwise sweep in determinants only**: the specification relation `cyc` (defined through the half-plane
order, which singles out the positive x-axis) is the rotation-invariant condition `inSweep`: for `det n u v > 0` (less than a
half turn) `det n u d > 0 ∧ det n d v > 0`; for `det n u v < 0` (more than a half turn) `det n u d > 0 ∨ det n d v > 0`; for
opposite `u`, `v` (a half turn) `det n u d > 0`; empty when `u` and `v` are one ray -/
theorem cyc_iff_det (n u d v : Pt) (hu : u ≠ n) (hd : d ≠ n) (hv : v ≠ n) :
    cyc n u d v = true ↔
      (if det n u v > 0 then det n u d > 0 ∧ det n d v > 0
       else if det n u v < 0 then det n u d > 0 ∨ det n d v > 0
       else dot n u v < 0 ∧ det n u d > 0) := by
  rw [Valid.cyc_eq_inSweep n u d v hu hd hv]
  unfold inSweep
  split_ifs <;> simp

/-- **`isInteriorSegment` decides "the segment lies inside the corner" exactly**, with the corner's inside stated in
orientation determinants only (no reference to the coordinate axes): the C++ function is true exactly when `n → b` lies
strictly inside the counter-clockwise sweep from `a0` to `a1` (`inSweep`, see `cyc_iff_det`) or along the ray of `a1`
while `a0`, `a1` are not one ray -/
theorem isInteriorSegment_iff_det (n a0 a1 b : Pt) (h0 : a0 ≠ n) (h1 : a1 ≠ n) (hb : b ≠ n) :
    isInteriorSegment n a0 a1 b = true ↔
      (inSweep n a0 b a1 = true ∨ ((det n b a1 = 0 ∧ dot n b a1 > 0) ∧ ¬ (det n a0 a1 = 0 ∧ dot n a0 a1 > 0))) := by
  rw [Valid.isInteriorSegment_eq_det n a0 a1 b h0 h1 hb]
  simp only [Bool.or_eq_true, Bool.and_eq_true, Bool.not_eq_true', Valid.sameDir_iff]
  have := Valid.sameDir_iff n a0 a1
  cases h : sameDir n a0 a1 <;> simp_all

/-- **`isCrossing` is invariant under all eight lattice symmetries** (the four rotations and four reflections of the
grid; `compareAngle`, which it is built from, is not): the verdict at a node does not depend on how the axes are laid -/
theorem isCrossing_lattice_invariant (k : Nat) (n a0 a1 b0 b1 : Pt) (h0 : a0 ≠ n) (h1 : a1 ≠ n) (hb0 : b0 ≠ n) (hb1 : b1 ≠ n) :
    isCrossing (latticeSym k n) (latticeSym k a0) (latticeSym k a1) (latticeSym k b0) (latticeSym k b1) =
      isCrossing n a0 a1 b0 b1 :=
  Valid.isCrossing_latticeSym k n a0 a1 b0 b1 h0 h1 hb0 hb1

/-- **`isInteriorSegment` is invariant under the four lattice rotations** (a reflection exchanges the two sides of the
corner: see `isInteriorSegment_swap_arms`) -/
theorem isInteriorSegment_rotation_invariant (k : Nat) (hk : k % 8 < 4) (n a0 a1 b : Pt) (h0 : a0 ≠ n) (h1 : a1 ≠ n) (hb : b ≠ n) :
    isInteriorSegment (latticeSym k n) (latticeSym k a0) (latticeSym k a1) (latticeSym k b) = isInteriorSegment n a0 a1 b :=
  Valid.isInteriorSegment_rotate k (by unfold Valid.isReflection; simp; omega) n a0 a1 b h0 h1 hb

/-- the C++ node functions are translation invariant (all points, no side conditions) -/
theorem nodeTopology_translate (t n a0 a1 b0 b1 : Pt) :
    compareAngle (t.shift n) (t.shift a0) (t.shift a1) = compareAngle n a0 a1 ∧
    isCrossing (t.shift n) (t.shift a0) (t.shift a1) (t.shift b0) (t.shift b1) = isCrossing n a0 a1 b0 b1 ∧
    isInteriorSegment (t.shift n) (t.shift a0) (t.shift a1) (t.shift b0) = isInteriorSegment n a0 a1 b0 :=
  ⟨Valid.compareAngle_shift t n a0 a1, Valid.isCrossing_shift t n a0 a1 b0 b1, Valid.isInteriorSegment_shift t n a0 a1 b0⟩

/-- **`Orientation::isCCWArea`** (the x-shifted shoelace loop of `Area::ofRingSigned`) **is the sign of the specification
area** on every closed ring: true exactly when `Kernel.area2` is positive -/
theorem isCCWArea_iff_area2_pos (ring : List Pt) (hc : RayCount.Closed ring) : isCCWArea ring = true ↔ 0 < area2 ring :=
  Valid.isCCWArea_iff ring hc

/-- reversing a closed ring of non-zero area flips `isCCWArea` — so the arms handed to `isInteriorSegment` by
`isIncidentSegmentInRing` are exchanged exactly when the ring is traversed the other way -/
theorem isCCWArea_reverse (ring : List Pt) (hc : RayCount.Closed ring) (ha : area2 ring ≠ 0) :
    isCCWArea ring.reverse = !isCCWArea ring :=
  Valid.isCCWArea_reverse ring hc ha

/-- **`isRingNested` off the target ring is exact point-in-ring**: when the start vertex of the test ring does not lie on
the closed target ring, the model never takes the throwing branch and answers exactly the even–odd specification
`Kernel.locateInRing` of that vertex -/
theorem isRingNested_off_ring (p0 : Pt) (rest target : List Pt) (hc : RayCount.Closed target)
    (hoff : locateInRing p0 target ≠ .boundary) :
    isRingNested (p0 :: rest) target = some (decide (locateInRing p0 target = .interior)) :=
  Valid.isRingNested_off_ring p0 rest target hc hoff

/-- **`isRingNested` on the target ring is the node topology of the first test segment**: the answer is
`isInteriorSegment` of the first non-repeated test vertex against the corner of the target ring at the start vertex -/
theorem isRingNested_on_ring (p0 : Pt) (rest target : List Pt) (hc : RayCount.Closed target)
    (hon : locateInRing p0 target = .boundary) :
    isRingNested (p0 :: rest) target =
      (cornerAt p0 target).map fun c => isInteriorSegment p0 c.1 c.2 (findNonEqualVertex (p0 :: rest) p0) :=
  Valid.isRingNested_on_ring p0 rest target hc hon

/-! non-vacuity: the arch of the seeded-change demo.  `B = [0,40]×[0,10]` lies under the arch `A`, outside it, touching its
three teeth at both ends and the midpoint of its first segment; `C` lies inside the slab of `A`. -/
def archA : List Pt := [⟨0, 10⟩, ⟨5, 20⟩, ⟨15, 20⟩, ⟨20, 10⟩, ⟨25, 20⟩, ⟨35, 20⟩, ⟨40, 10⟩, ⟨45, 20⟩, ⟨45, -10⟩, ⟨55, -10⟩,
  ⟨55, 30⟩, ⟨-15, 30⟩, ⟨-15, -10⟩, ⟨-5, -10⟩, ⟨-5, 20⟩, ⟨0, 10⟩]
example : isRingNested [⟨0, 10⟩, ⟨40, 10⟩, ⟨40, 0⟩, ⟨0, 0⟩, ⟨0, 10⟩] archA = some false := by decide
example : isRingNested [⟨40, 10⟩, ⟨0, 10⟩, ⟨0, 0⟩, ⟨40, 0⟩, ⟨40, 10⟩] archA = some false := by decide
example : isRingNested [⟨0, 10⟩, ⟨40, 10⟩, ⟨40, 0⟩, ⟨0, 0⟩, ⟨0, 10⟩] archA.reverse = some false := by decide
example : isRingNested [⟨10, 22⟩, ⟨30, 22⟩, ⟨30, 28⟩, ⟨10, 28⟩, ⟨10, 22⟩] archA = some true := by decide
example : isRingNested [⟨0, 10⟩, ⟨3, 18⟩, ⟨-3, 18⟩, ⟨0, 10⟩] archA = some true := by decide      -- inside the first tooth, starting at its tip
example : isCCWArea archA = true ∧ isCCWArea archA.reverse = false := by decide
example : isInteriorSegment ⟨0, 0⟩ ⟨1, 0⟩ ⟨0, 1⟩ ⟨1, 1⟩ = true ∧ isInteriorSegment ⟨0, 0⟩ ⟨0, 1⟩ ⟨1, 0⟩ ⟨1, 1⟩ = false := by decide
example : inSweep ⟨0, 0⟩ ⟨1, 0⟩ ⟨-1, -1⟩ ⟨0, -1⟩ = true ∧ inSweep ⟨0, 0⟩ ⟨0, -1⟩ ⟨-1, -1⟩ ⟨1, 0⟩ = false ∧
    inSweep ⟨0, 0⟩ ⟨1, 0⟩ ⟨0, 1⟩ ⟨-2, 0⟩ = true ∧ inSweep ⟨0, 0⟩ ⟨1, 0⟩ ⟨0, 1⟩ ⟨2, 0⟩ = false := by decide
example : latticeSym 1 ⟨1, 0⟩ = ⟨0, 1⟩ ∧ latticeSym 4 ⟨1, 2⟩ = ⟨-1, 2⟩ ∧
    isCrossing (latticeSym 5 ⟨0, 0⟩) (latticeSym 5 ⟨1, 0⟩) (latticeSym 5 ⟨-1, 0⟩) (latticeSym 5 ⟨0, 1⟩) (latticeSym 5 ⟨0, -1⟩) = true := by decide

/-! ### a FINDING about `isRingNested`: on a self-touching target ring only ONE pass through the start vertex is looked at

`isIncidentSegmentInRing` takes the first segment of the target ring that contains the start vertex of the test ring
(`intersectingSegIndex`) and decides by the corner of the target ring there.  A ring that is valid in the self-touching-ring mode
may pass through that point twice; the corner of the first pass does not say on which side of the ring a segment in the sector of
the other pass lies, so the answer depends on where the TARGET ring starts.  Witness (replayed on GEOS:
replays/known-C05-ring-start-on-multipass-node.json): a shell with an inverted pocket at (0,0) and a hole starting at (0,0) that
lies inside the shell (the point (−5,5), strictly inside the hole, is in the shell's interior whatever the start vertex). -/

def selfTouchShell : List Pt := [⟨-1, 2⟩, ⟨2, 1⟩, ⟨0, 0⟩, ⟨11, 0⟩, ⟨-13, 12⟩, ⟨-33, 11⟩, ⟨-11, 0⟩, ⟨0, 0⟩, ⟨-1, 2⟩]
/-- the same ring started at (11,0) -/
def selfTouchShellRot : List Pt := [⟨11, 0⟩, ⟨-13, 12⟩, ⟨-33, 11⟩, ⟨-11, 0⟩, ⟨0, 0⟩, ⟨-1, 2⟩, ⟨2, 1⟩, ⟨0, 0⟩, ⟨11, 0⟩]
def holeAtNode : List Pt := [⟨0, 0⟩, ⟨-8, 9⟩, ⟨-12, 11⟩, ⟨0, 0⟩]

/-- **`isRingNested` is not invariant under rotation of a self-touching target ring** (the model is the C++, branch by branch, and
the stream `ring-nested` / the translator tie bind it to the source): the hole is reported outside the shell for one start vertex
of the shell and inside for another, while a point strictly inside the hole is in the shell's interior for both -/
theorem isRingNested_selfTouching_target_depends_on_start :
    isRingNested holeAtNode selfTouchShell = some false ∧ isRingNested holeAtNode selfTouchShellRot = some true ∧
    RayCount.locatePointInRing ⟨-5, 5⟩ selfTouchShell = .interior ∧ RayCount.locatePointInRing ⟨-5, 5⟩ selfTouchShellRot = .interior := by
  decide

/-! ## CORE, third part: the per-pair decision `PolygonIntersectionAnalyzer::findInvalidIntersection`

`Model/Valid/PairRule.lean` is `findInvalidIntersection` with `isAdjacentInRing` / `prevCoordinateInRing`, branch by branch
(`LineIntersector` represented by the exact classification `Kernel.segRel`); tied to the real `processIntersections` by the
stream `pair-rule`. -/

/-- **the per-pair decision of `IsValidOp` IS the reference's intersection rule**: for every pair of segments of rings
without repeated points and both settings of the self-touching-ring flag, the model of the C++ decision (adjacency by index
arithmetic, crossing at a node by the quadrant code `isCrossing`, the end-vertex short cut) returns exactly the code
(none / 5 / 6) of the reference evaluator's `pairRule` (which states the node rule with the wedge specification `crossAt`) -/
theorem findInvalidIntersection_eq_pairRule (flag : Bool) (s t : RSeg)
    (hs1 : s.prev ≠ s.p) (hs2 : s.p ≠ s.q) (ht1 : t.prev ≠ t.p) (ht2 : t.p ≠ t.q) :
    findInvalidIntersection flag s t = (pairRule flag s t).map (·.1) :=
  Valid.findInvalidIntersection_eq_pairRule flag s t hs1 hs2 ht1 ht2

/-- the adjacency test of the C++ (`delta <= 1 || delta >= size - 2`) is cyclic adjacency of segment indices -/
theorem isAdjacentInRing_eq_cyclic (m i0 i1 : Nat) : isAdjacentInRing m i0 i1 = adjacentIdx m i0 i1 :=
  Valid.isAdjacentInRing_eq m i0 i1

/-! non-vacuity: a proper crossing, a permitted touch of two rings at a vertex, a crossing at a vertex, a ring touching itself -/
example : findInvalidIntersection false ⟨0, 0, 0, 4, ⟨0, 10⟩, ⟨0, 0⟩, ⟨10, 10⟩⟩ ⟨1, 1, 2, 4, ⟨10, 10⟩, ⟨10, 0⟩, ⟨0, 10⟩⟩ = some 5 := by decide
example : findInvalidIntersection false ⟨0, 0, 0, 4, ⟨0, 4⟩, ⟨0, 0⟩, ⟨4, 0⟩⟩ ⟨1, 1, 0, 3, ⟨3, -3⟩, ⟨2, 0⟩, ⟨1, -3⟩⟩ = none := by decide
example : findInvalidIntersection false ⟨0, 0, 0, 4, ⟨0, 4⟩, ⟨0, 0⟩, ⟨4, 0⟩⟩ ⟨1, 1, 0, 3, ⟨3, 3⟩, ⟨2, 0⟩, ⟨1, -3⟩⟩ = some 5 := by decide
example : findInvalidIntersection false ⟨0, 0, 2, 6, ⟨10, 0⟩, ⟨5, 5⟩, ⟨10, 10⟩⟩ ⟨0, 0, 5, 6, ⟨0, 10⟩, ⟨5, 5⟩, ⟨0, 0⟩⟩ = some 6 ∧
    findInvalidIntersection true ⟨0, 0, 2, 6, ⟨10, 0⟩, ⟨5, 5⟩, ⟨10, 10⟩⟩ ⟨0, 0, 5, 6, ⟨0, 10⟩, ⟨5, 5⟩, ⟨0, 0⟩⟩ = none := by decide

/-! ## CORE, fourth part: the analyzer over a sequence of pairs, and the order of the rules -/

/-- **no recorded code ⟺ every presented pair is allowed**: after `processIntersections` has been called for any sequence of
pairs, `invalidCode` is still "none" exactly when each pair is a segment with itself or `findInvalidIntersection` allows it -/
theorem processAll_none_iff (flag : Bool) (pairs : List (RSeg × RSeg)) :
    processAll flag pairs = none ↔
      ∀ st ∈ pairs, (st.1.rid == st.2.rid && st.1.k == st.2.k) = true ∨ findInvalidIntersection flag st.1 st.2 = none :=
  Valid.processAll_none_iff flag pairs

/-- **a recorded code is the code of a presented pair** (not of a segment with itself) -/
theorem processAll_some (flag : Bool) (pairs : List (RSeg × RSeg)) (c : Nat) (h : processAll flag pairs = some c) :
    ∃ st ∈ pairs, (st.1.rid == st.2.rid && st.1.k == st.2.k) = false ∧ findInvalidIntersection flag st.1 st.2 = some c :=
  Valid.processAll_some flag pairs c h

/-- **`hasInvalidIntersection` after all pairs is the reference's rule 5/6**: over all pairs of distinct segments of rings without
repeated points, the analyzer records nothing exactly when `areaIntersections` finds nothing -/
theorem processAll_pairsOf_none_iff_ref (flag : Bool) (segs : List RSeg) (hw : Valid.SegsWF segs) :
    processAll flag (pairsOf segs) = none ↔ areaIntersections flag segs = none :=
  Valid.processAll_pairsOf_none_iff flag segs hw

/-- and a recorded code is one of the reference's admissible codes -/
theorem processAll_pairsOf_code_admissible (flag : Bool) (segs : List RSeg) (hw : Valid.SegsWF segs) (c : Nat)
    (h : processAll flag (pairsOf segs) = some c) : ∃ v, areaIntersections flag segs = some v ∧ c ∈ v.codes :=
  Valid.processAll_pairsOf_code_mem flag segs hw c h

/-- the reference evaluator's sequencing (`firstOf`) is `firstErr`, the sequencing of `IsValidOp` -/
theorem ref_sequencing_is_firstErr (rs : List (Unit → Option Verdict)) : firstOf rs = (firstErr rs).getD Verdict.ok :=
  Valid.firstOf_eq_firstErr rs

/-- the reference follows `IsValidOp`'s order for a Point, a LineString, a LinearRing -/
theorem ref_point_line_ring_order (s : VSeq) (h : s.pts.isEmpty = false) :
    pointRef s = (firstErr (pointOrder (coordRule [s]))).getD Verdict.ok ∧
    lineRef s = (firstErr (lineOrder (fun _ => coordRule [s]) (fun _ => sizeRule 2 [s]))).getD Verdict.ok ∧
    ringRef s = (firstErr (ringOrder (fun _ => coordRule [s]) (fun _ => closedRule [s]) (fun _ => sizeRule 4 [s])
      (fun _ => ringSimpleRule s))).getD Verdict.ok :=
  ⟨Valid.pointRef_order s h, Valid.lineRef_order s h, Valid.ringRef_order s h⟩

/-- the reference follows `IsValidOp`'s order for a Polygon: coordinates, closure, size, intersections, holes in shell, nested holes,
connected interior -/
theorem ref_polygon_order (flag : Bool) (shell : VSeq) (holes : List VSeq) (h : shell.pts.isEmpty = false) :
    polygonalRef flag [shell :: holes] =
      (firstErr (polygonOrder (fun _ => coordRule (shell :: holes)) (fun _ => closedRule (shell :: holes)) (fun _ => sizeRule 4 (shell :: holes))
        (fun _ => areaIntersections flag (polySegs [(shell :: holes).map fun s => dedup s.pts]))
        (fun _ => holesInShell [(shell :: holes).map fun s => dedup s.pts])
        (fun _ => holesNotNested [(shell :: holes).map fun s => dedup s.pts])
        (fun _ => interiorConnected [(shell :: holes).map fun s => dedup s.pts]))).getD Verdict.ok :=
  Valid.polygonRef_order flag shell holes h

/-! non-vacuity: two crossing segments then an allowed pair: the code of the crossing stays recorded; `SegsWF` holds for a triangle -/
example : processAll false [(⟨0, 0, 0, 4, ⟨0, 10⟩, ⟨0, 0⟩, ⟨10, 10⟩⟩, ⟨1, 1, 2, 4, ⟨10, 10⟩, ⟨10, 0⟩, ⟨0, 10⟩⟩),
    (⟨0, 0, 0, 4, ⟨0, 4⟩, ⟨0, 0⟩, ⟨4, 0⟩⟩, ⟨1, 1, 0, 3, ⟨3, -3⟩, ⟨2, 0⟩, ⟨1, -3⟩⟩)] = some 5 := by decide
example : Valid.SegsWF (ringSegs 0 0 [⟨0, 0⟩, ⟨4, 0⟩, ⟨0, 4⟩, ⟨0, 0⟩]) := by
  unfold Valid.SegsWF; decide
example : firstErr [fun _ => (none : Option Nat), fun _ => some 3, fun _ => some 4] = some 3 := by decide

/-! ## CORE, fifth part: the per-pair decision of `IsSimpleOp` -/

/-- **`IsSimpleOp`'s per-pair decision IS the reference's simplicity rule** (Mod-2 boundary rule, the default): for two distinct
segments of de-duplicated lines that are coherent (`LPairWF`: indices in range, one `n` per line, consecutive segments share their
vertex), the model of `NonSimpleIntersectionFinder::findIntersection` reports an intersection exactly when `simplePair` forbids the
way the two segments meet: proper crossings, overlaps, a vertex of one inside the other, a touch at a vertex that is not an end point
of both lines, and — for different lines — an end-point touch involving a closed line; closure of one line at its own end points and
the shared vertex of adjacent segments are allowed -/
theorem findIntersection_decides_simplePair (s t : LSeg) (h : Valid.LPairWF s t) :
    findIntersection true s t = !simplePair s t :=
  Valid.findIntersection_eq_not_simplePair s t h

/-- so a segment set is simple for the reference exactly when the C++ decision finds no intersection in any pair -/
theorem linesSimple_iff_no_intersection (segs : List LSeg) (hw : ∀ st ∈ pairsOf segs, Valid.LPairWF st.1 st.2) :
    ((pairsOf segs).all fun st => simplePair st.1 st.2) = (pairsOf segs).all fun st => !findIntersection true st.1 st.2 :=
  Valid.all_simplePair_iff segs hw

/-! non-vacuity: a T-junction is found, two lines meeting end to end are not, the same with a closed partner is (Mod-2), ring closure is
allowed; the coherence hypothesis holds for the two segments of the line (0,0) (10,0) (10,10) -/
example : findIntersection true ⟨0, 0, 1, false, ⟨0, 0⟩, ⟨10, 0⟩⟩ ⟨1, 0, 1, false, ⟨5, 0⟩, ⟨5, 5⟩⟩ = true := by decide
example : findIntersection true ⟨0, 0, 1, false, ⟨0, 0⟩, ⟨10, 0⟩⟩ ⟨1, 0, 1, false, ⟨10, 0⟩, ⟨15, 5⟩⟩ = false := by decide
example : findIntersection true ⟨0, 0, 1, false, ⟨0, 0⟩, ⟨10, 0⟩⟩ ⟨1, 0, 3, true, ⟨10, 0⟩, ⟨15, 5⟩⟩ = true := by decide
example : findIntersection true ⟨0, 0, 3, true, ⟨0, 0⟩, ⟨10, 0⟩⟩ ⟨0, 2, 3, true, ⟨0, 10⟩, ⟨0, 0⟩⟩ = false := by decide
example : Valid.LPairWF ⟨0, 0, 2, false, ⟨0, 0⟩, ⟨10, 0⟩⟩ ⟨0, 1, 2, false, ⟨10, 0⟩, ⟨10, 10⟩⟩ :=
  ⟨by decide, by decide, by decide, by decide, fun _ => rfl, fun _ => by decide, fun _ _ => rfl, fun _ h => by simp at h⟩

/-! ## CORE, sixth part: the self-touch bookkeeping of the self-touching-ring mode

`Model/Valid/SelfNode.lean`: `findInvalidIntersection` → `PolygonRing::addSelfTouch` → `PolygonRing::findInteriorSelfNode` →
`PolygonRingSelfNode::isExterior`; tied to the real functions by the stream `self-node`. -/

/-- the analyzer with bookkeeping records the same code as `processAll` (fourth part) -/
theorem selfState_code (flag : Bool) (pairs : List (RSeg × RSeg)) : (processAllSelf flag pairs).code = processAll flag pairs :=
  Valid.processAllSelf_code flag pairs

/-- **nothing is dropped**: after any sequence of presented pairs the ring's self-node list holds exactly one entry per
presented pair (not a segment with itself) that reaches the `addSelfTouch` call, in presentation order — also when several
of them are at the same location -/
theorem selfNodes_are_all_recorded (flag : Bool) (pairs : List (RSeg × RSeg)) :
    (processAllSelf flag pairs).selfNodes = pairs.filterMap (Valid.recorded flag) :=
  Valid.processAllSelf_selfNodes flag pairs

/-- a self-touch is recorded only in flag mode, only for two segments of one ring string, only when the pair is allowed,
and the two recorded passes do not cross -/
theorem recorded_selfTouch_is_allowed (flag : Bool) (s t : RSeg) (n : SelfNode) (h : selfTouchOf flag s t = some n) :
    flag = true ∧ (s.rid == t.rid) = true ∧ findInvalidIntersection flag s t = none ∧
      isCrossing n.nodePt n.e00 n.e01 n.e10 n.e11 = false :=
  Valid.selfTouchOf_some flag s t n h

/-- **the self-touch check looks at every recorded pair of passes**: for a ring (shell or hole) and any sequence of
presented pairs, `findInteriorSelfNode` finds a node exactly when SOME presented pair records a self-touch whose second pass
is not exterior (with `isInteriorOnRight = isShell xor isCCWArea ring`) -/
theorem interiorSelfNode_found_iff (isShell : Bool) (ring : List Pt) (pairs : List (RSeg × RSeg)) :
    (selfTouchVerdict isShell ring pairs).2.isSome = true ↔
      ∃ p ∈ pairs, ∃ n, Valid.recorded true p = some n ∧ n.isExterior (isShell != isCCWArea ring) = false :=
  Valid.selfTouchVerdict_node_isSome_iff isShell ring pairs

/-- a reported node is the node of a recorded entry that is not exterior -/
theorem interiorSelfNode_is_recorded (r : RingState) (p : Pt) (h : r.findInteriorSelfNode = some p) :
    ∃ n ∈ r.selfNodes, n.isExterior r.isInteriorOnRight = false ∧ n.nodePt = p :=
  Valid.findInteriorSelfNode_some r p h

/-- **the order in which the noder presents the pairs, and presenting a pair again, do not matter** for whether the interior
is found disconnected by a self-touch -/
theorem interiorSelfNode_order_irrelevant (isShell : Bool) (ring : List Pt) (pairs pairs' : List (RSeg × RSeg))
    (h : ∀ p, p ∈ pairs ↔ p ∈ pairs') :
    (selfTouchVerdict isShell ring pairs).2.isSome = (selfTouchVerdict isShell ring pairs').2.isSome :=
  Valid.selfTouchVerdict_node_order_irrelevant isShell ring pairs pairs' h

/-- "either of the other edges could be used to test" (`PolygonRingSelfNode::isExterior`): for non-crossing passes, with the
second pass off the arms of a proper first corner, `e11` gives the same answer as `e10` -/
theorem isExterior_other_edge (n : SelfNode) (r : Bool)
    (h0 : n.e00 ≠ n.nodePt) (h1 : n.e01 ≠ n.nodePt) (hb0 : n.e10 ≠ n.nodePt) (hb1 : n.e11 ≠ n.nodePt)
    (hx : compareAngle n.nodePt n.e00 n.e01 ≠ 0)
    (hp0 : compareAngle n.nodePt n.e10 n.e00 ≠ 0) (hp1 : compareAngle n.nodePt n.e10 n.e01 ≠ 0)
    (hq0 : compareAngle n.nodePt n.e11 n.e00 ≠ 0) (hq1 : compareAngle n.nodePt n.e11 n.e01 ≠ 0)
    (hc : isCrossing n.nodePt n.e00 n.e01 n.e10 n.e11 = false) :
    ({ n with e10 := n.e11 } : SelfNode).isExterior r = n.isExterior r :=
  Valid.isExterior_other_edge n r h0 h1 hb0 hb1 hx hp0 hp1 hq0 hq1 hc

/-- traversing the ring in the other direction (the arms of the first pass exchange, the interior changes side) gives the same
answer -/
theorem isExterior_ring_reversal (n : SelfNode) (r : Bool)
    (h0 : n.e00 ≠ n.nodePt) (h1 : n.e01 ≠ n.nodePt) (hb : n.e10 ≠ n.nodePt)
    (hx : compareAngle n.nodePt n.e00 n.e01 ≠ 0)
    (hp0 : compareAngle n.nodePt n.e10 n.e00 ≠ 0) (hp1 : compareAngle n.nodePt n.e10 n.e01 ≠ 0) :
    ({ n with e00 := n.e01, e01 := n.e00 } : SelfNode).isExterior (!r) = n.isExterior r :=
  Valid.isExterior_reverse n r h0 h1 hb hx hp0 hp1

/-! non-vacuity: a counter-clockwise shell that passes THREE times through the node (10,0): an inverted pocket above (a legal hole) and an
exverted lobe below (cuts its interior off).  Whatever the order of the pairs, the lobe is found; the pocket alone is accepted. -/
def pocketAndLobe : List Pt := [⟨20, 20⟩, ⟨0, 20⟩, ⟨0, 0⟩, ⟨10, 0⟩, ⟨8, 8⟩, ⟨12, 8⟩, ⟨10, 0⟩, ⟨8, -8⟩, ⟨12, -8⟩, ⟨10, 0⟩, ⟨20, 0⟩, ⟨20, 20⟩]
def pocketOnly : List Pt := [⟨20, 20⟩, ⟨0, 20⟩, ⟨0, 0⟩, ⟨10, 0⟩, ⟨8, 8⟩, ⟨12, 8⟩, ⟨10, 0⟩, ⟨20, 0⟩, ⟨20, 20⟩]
example : selfTouchVerdict true pocketAndLobe (pairsOf (ringSegs 0 0 pocketAndLobe)) = (none, some ⟨10, 0⟩) := by decide
example : selfTouchVerdict true pocketAndLobe (pairsOf (ringSegs 0 0 pocketAndLobe)).reverse = (none, some ⟨10, 0⟩) := by decide
example : selfTouchVerdict true pocketOnly (pairsOf (ringSegs 0 0 pocketOnly)) = (none, none) := by decide
example : ((processAllSelf true (pairsOf (ringSegs 0 0 pocketAndLobe))).selfNodes.map (·.nodePt)) = [⟨10, 0⟩, ⟨10, 0⟩, ⟨10, 0⟩] := by decide

/-! ## CORE, seventh part: nested shells (`IndexedNestedPolygonTester`)

`Model/Valid/NestedTester.lean`; tied to the real class by the stream `nested-tester`. -/

/-- **every hole counts**: on the incident-segment path (both shell vertices on the candidate's boundary) the shell is reported
nested exactly when it is nested in the candidate's shell and in NONE of its holes (`inHole` = the hole's envelope covers the
shell's and `isRingNested` says nested) — wherever that hole stands in the list -/
theorem nested_incident_spec (shell polyShell : List Pt) (holes : List (List Pt)) (hne : polyShell.isEmpty = false) (b : Bool)
    (hs : isRingNested shell polyShell = some b) (hn : Valid.HolesNoThrow shell holes) :
    findIncidentSegmentNestedPoint shell (polyShell :: holes) =
      some (if b && !holes.any (Valid.inHole shell) then shell.head? else none) :=
  Valid.findIncident_spec shell polyShell holes hne b hs hn

/-- **reordering the holes of the candidate changes nothing** in `findNestedPoint` (two point locations + incident path) -/
theorem findNestedPoint_hole_order_irrelevant (shell polyShell : List Pt) (holes holes' : List (List Pt)) (hp : holes.Perm holes')
    (hn : Valid.HolesNoThrow shell holes) :
    findNestedPoint shell (polyShell :: holes) = findNestedPoint shell (polyShell :: holes') :=
  Valid.findNestedPoint_holes_perm shell polyShell holes holes' hp hn

/-- **`isNested` is "some element has a hit among the other elements"** (`hitB a b`: `b`'s envelope covers `a`'s and
`findNestedPoint` yields a point), for element lists on which nothing throws -/
theorem isNested_iff_some_pair (polys : List Poly) (hn : Valid.NoThrow polys) :
    (∃ p, isNested polys = some (some p)) ↔ ∃ l1 a l2, polys = l1 ++ a :: l2 ∧ (l1 ++ l2).any (Valid.hitB a) = true :=
  Valid.isNested_isSome_iff polys hn

/-- and otherwise it answers "not nested" -/
theorem isNested_not_iff (polys : List Poly) (hn : Valid.NoThrow polys) : isNested polys = some none ↔ ¬ Valid.HasHit polys :=
  Valid.isNested_none_iff polys hn

/-- **reordering the elements of the MultiPolygon does not change whether nested shells are reported** -/
theorem isNested_element_order_irrelevant (polys polys' : List Poly) (hp : polys.Perm polys') (hn : Valid.NoThrow polys) :
    (∃ p, isNested polys = some (some p)) ↔ (∃ p, isNested polys' = some (some p)) :=
  Valid.isNested_perm polys polys' hp hn

/-! non-vacuity: a square with two holes and a triangle inside the SECOND hole whose first two vertices lie on that hole's ring:
not nested, in either hole order; the same triangle pushed across the hole's right edge into the solid part is nested. -/
def twoHoleSquare : Poly := [[⟨0, 0⟩, ⟨30, 0⟩, ⟨30, 30⟩, ⟨0, 30⟩, ⟨0, 0⟩], [⟨2, 2⟩, ⟨2, 4⟩, ⟨4, 4⟩, ⟨4, 2⟩, ⟨2, 2⟩],
  [⟨10, 10⟩, ⟨10, 20⟩, ⟨20, 20⟩, ⟨20, 10⟩, ⟨10, 10⟩]]
def twoHoleSquareSwapped : Poly := [twoHoleSquare.getD 0 [], twoHoleSquare.getD 2 [], twoHoleSquare.getD 1 []]
example : isNested [twoHoleSquare, [[⟨10, 15⟩, ⟨15, 10⟩, ⟨18, 18⟩, ⟨10, 15⟩]]] = some none := by decide
example : isNested [twoHoleSquareSwapped, [[⟨10, 15⟩, ⟨15, 10⟩, ⟨18, 18⟩, ⟨10, 15⟩]]] = some none := by decide
example : isNested [[[⟨10, 15⟩, ⟨15, 10⟩, ⟨18, 18⟩, ⟨10, 15⟩]], twoHoleSquare] = some none := by decide
example : isNested [twoHoleSquare, [[⟨20, 15⟩, ⟨30, 15⟩, ⟨25, 20⟩, ⟨20, 15⟩]]] = some (some ⟨20, 15⟩) := by decide
example : Valid.HolesNoThrow [⟨10, 15⟩, ⟨15, 10⟩, ⟨18, 18⟩, ⟨10, 15⟩] (twoHoleSquare.drop 1) := by
  unfold Valid.HolesNoThrow; decide

/-! ## SPEC: the reference evaluator -/

/-- the wedge specification does not depend on where the plane's origin is -/
theorem crossAt_translate (t o a0 a1 b0 b1 : Pt) :
    crossAt (t.shift o) (t.shift a0) (t.shift a1) (t.shift b0) (t.shift b1) = crossAt o a0 a1 b0 b1 :=
  Valid.crossAt_shift t o a0 a1 b0 b1

/-- reversing the direction of travel along the first pass does not change whether the passes cross -/
theorem crossAt_reverse_a (o a0 a1 b0 b1 : Pt) : crossAt o a1 a0 b0 b1 = crossAt o a0 a1 b0 b1 :=
  Valid.crossAt_swap_a o a0 a1 b0 b1

/-- reversing the direction of travel along the second pass does not change whether the passes cross -/
theorem crossAt_reverse_b (o a0 a1 b0 b1 : Pt) : crossAt o a0 a1 b1 b0 = crossAt o a0 a1 b0 b1 :=
  Valid.crossAt_swap_b o a0 a1 b0 b1

/-- whether two passes cross does not depend on which of them is called the first: if the edges of `b` are separated by
the corner of `a`, the edges of `a` are separated by the corner of `b` (needed for permutation of rings / elements) -/
theorem crossAt_symmetric (o a0 a1 b0 b1 : Pt) (h0 : a0 ≠ o) (h1 : a1 ≠ o) (hb0 : b0 ≠ o) (hb1 : b1 ≠ o) :
    crossAt o b0 b1 a0 a1 = crossAt o a0 a1 b0 b1 :=
  Valid.crossAt_symm o a0 a1 b0 b1 h0 h1 hb0 hb1

/-- the same for the C++ function: `isCrossing` is symmetric in its two corners -/
theorem isCrossing_symmetric (n a0 a1 b0 b1 : Pt) (h0 : a0 ≠ n) (h1 : a1 ≠ n) (hb0 : b0 ≠ n) (hb1 : b1 ≠ n) :
    isCrossing n b0 b1 a0 a1 = isCrossing n a0 a1 b0 b1 := by
  rw [Valid.isCrossing_eq_crossAt n b0 b1 a0 a1 hb0 hb1 h0 h1, Valid.isCrossing_eq_crossAt n a0 a1 b0 b1 h0 h1 hb0 hb1]
  exact Valid.crossAt_symm n a0 a1 b0 b1 h0 h1 hb0 hb1

/-- removing repeated points commutes with translation -/
theorem dedup_translate (t : Pt) (l : List Pt) : dedup (l.map t.shift) = (dedup l).map t.shift :=
  Valid.dedup_shift t l

/-- **ref_invariant (PARTIAL: translation, intersection rule)**: which code (none / 5 / 6) the intersection rule gives
for a pair of ring segments is unchanged by translation, for both settings of the self-touching-ring flag -/
theorem ref_invariant_translate_pairRule_partial (flag : Bool) (t : Pt) (s u : RSeg) :
    (pairRule flag (RSeg.shift t s) (RSeg.shift t u)).map (·.1) = (pairRule flag s u).map (·.1) :=
  Valid.pairRule_shift_code flag t s u

/-- **ref_invariant (PARTIAL: translation, rules 5/6 over a whole polygonal geometry)**: the set of admissible codes of
the intersection stage is unchanged by translation -/
theorem ref_invariant_translate_intersections_partial (flag : Bool) (t : Pt) (segs : List RSeg) :
    (areaIntersections flag (segs.map (RSeg.shift t))).map (·.codes) = (areaIntersections flag segs).map (·.codes) :=
  Valid.areaIntersections_shift_codes flag t segs

/-- the full invariance statement of the property for the reference evaluator (NOT proved; see the module text).
`sym` ranges over the eight lattice symmetries composed with translations, `restructure` over ring rotation,
ring reversal, hole permutation and element permutation. -/
def C05_ref_invariant_full : Prop :=
  ∀ (flag : Bool) (g g' : VG), Valid.SameUpToSymmetry g g' →
    (validRef flag g).valid = (validRef flag g').valid ∧ simpleRef g = simpleRef g'

/-- non-vacuity of the intersection rule: a proper crossing is code 5; two non-adjacent segments of one ring meeting in
a vertex are code 6 in OGC mode and allowed with the flag when the passes do not cross; adjacent segments are allowed -/
example : (pairRule false ⟨0, 0, 0, 4, ⟨0, 10⟩, ⟨0, 0⟩, ⟨10, 10⟩⟩ ⟨0, 0, 2, 4, ⟨10, 10⟩, ⟨10, 0⟩, ⟨0, 10⟩⟩).map (·.1) = some 5 := by decide
example : (pairRule false ⟨0, 0, 0, 6, ⟨5, 5⟩, ⟨0, 0⟩, ⟨10, 0⟩⟩ ⟨0, 0, 1, 6, ⟨0, 0⟩, ⟨10, 0⟩, ⟨5, 5⟩⟩).map (·.1) = none := by decide
example : (pairRule false ⟨0, 0, 2, 6, ⟨10, 0⟩, ⟨5, 5⟩, ⟨10, 10⟩⟩ ⟨0, 0, 5, 6, ⟨0, 10⟩, ⟨5, 5⟩, ⟨0, 0⟩⟩).map (·.1) = some 6 := by decide
example : (pairRule true ⟨0, 0, 2, 6, ⟨10, 0⟩, ⟨5, 5⟩, ⟨10, 10⟩⟩ ⟨0, 0, 5, 6, ⟨0, 10⟩, ⟨5, 5⟩, ⟨0, 0⟩⟩).map (·.1) = none := by decide
example : (pairRule true ⟨0, 0, 2, 6, ⟨0, 0⟩, ⟨5, 5⟩, ⟨10, 10⟩⟩ ⟨0, 0, 5, 6, ⟨10, 0⟩, ⟨5, 5⟩, ⟨0, 10⟩⟩).map (·.1) = some 5 := by decide

end GeosModel.C05
