import GeosModel.Proofs.Valid.GenBridge
import GeosModel.Proofs.Valid.PairRule
import GeosModel.Generated.ValidPairRule
/-!
# C05 — the regenerated per-pair decision of `PolygonIntersectionAnalyzer` is the model the CORE theorems are about

`Generated/ValidPairRule.lean` is rewritten from `src/operation/valid/PolygonIntersectionAnalyzer.cpp` (and `CoordinateXY::equals2D`
from `Coordinate.h`) by `translate/cxx2lean.py` (spec `valid_pair_rule`) on every run: `processIntersections`,
`findInvalidIntersection`, `isAdjacentInRing`, `prevCoordinateInRing`.  The error codes are read from
`TopologyValidationError.h`.  Abstract in the regenerated code, and what the theorems assume about them:
* segment strings: instantiated with `Valid.RingStr` (identity + points) — ALL ring strings and segment indices;
* the `LineIntersector` member: any type whose observers report the exact classification `Kernel.segRel`
  (`ValidGen.LIExact`; satisfiable: `ValidGen.LIv.exact`; exactness of the real intersector on the grid is C02's subject);
* `PolygonNodeTopology::isCrossing`: instantiated with the model `Valid.isCrossing` (its own regeneration: `Props/C05Gen.lean`);
* the touch bookkeeping (`addSelfTouch`, `addDoubleTouch`, the state behind the `PolygonRing` pointers): universally
  quantified — the returned code does not depend on it.
The model returns `none` when a non-proper single intersection has not exactly one candidate end point (never the case for
real segments); the bridge carries that as the hypothesis `hone`.
-/
set_option linter.unusedTactic false
set_option linter.unreachableTactic false
set_option linter.unusedSimpArgs false
namespace GeosModel.C05GenPair
open GeosModel GeosModel.Kernel GeosModel.Valid GeosModel.Generated GeosModel.ValidGen

theorem gen_equals2D_eq (a b : Pt) : ValidPairRule.equals2D a.x a.y (xy b) = (a == b) := by
  unfold ValidPairRule.equals2D
  apply Bool.eq_iff_iff.mpr
  rw [Pt.beq_iff]
  cases a; cases b
  simp [Cxx.ne]

theorem gen_isAdjacentInRing_eq (r : RingStr) (i0 i1 : Nat) :
    ValidPairRule.isAdjacentInRing (fun s : RingStr => s.pts.length) r i0 i1 = Valid.isAdjacentInRing (r.pts.length - 1) i0 i1 := by
  unfold ValidPairRule.isAdjacentInRing Valid.isAdjacentInRing
  simp
  repeat' split
  all_goals first | rfl | omega | (simp_all; done) | grind


theorem gen_prevCoordinateInRing_eq (r : RingStr) (k : Nat) :
    ValidPairRule.prevCoordinateInRing (fun s : RingStr => s.pts.length) (fun s k => xy (s.pts.getD k default)) r k = xy (r.seg k).prev := by
  unfold ValidPairRule.prevCoordinateInRing RingStr.seg
  simp
  repeat' split
  all_goals first | rfl | omega | (simp_all; done) | grind

theorem gen_findInvalidIntersection_eq {LI W : Type}
    (liCompute : LI → Cxx.XY Int → Cxx.XY Int → Cxx.XY Int → Cxx.XY Int → LI) (liHas liProper : LI → Bool) (liNum : LI → Nat)
    (liGet : LI → Nat → Cxx.XY Int) (hli : LIExact liCompute liHas liProper liNum liGet)
    (addSelfTouch : W → RingStr → Cxx.XY Int → Cxx.XY Int → Cxx.XY Int → Cxx.XY Int → Cxx.XY Int → W)
    (addDoubleTouch : W → RingStr → RingStr → Cxx.XY Int → Bool × W)
    (flag : Bool) (li0 : LI) (w0 : W) (dt0 : Bool) (dl0 : Cxx.XY Int) (A B : RingStr) (i j : Nat)
    (hone : segRel (A.seg i).p (A.seg i).q (B.seg j).p (B.seg j).q = .point false → ∃ x, meetPts (A.seg i) (B.seg j) = [x]) :
    (ValidPairRule.findInvalidIntersection (fun a b : RingStr => a.rid == b.rid) (fun s => s.pts.length)
        (fun s k => xy (s.pts.getD k default)) liCompute liHas liProper liNum liGet
        (fun n a0 a1 b0 b1 => Valid.isCrossing (pt n) (pt a0) (pt a1) (pt b0) (pt b1)) addSelfTouch addDoubleTouch
        flag li0 w0 dt0 dl0 A i B j).1
      = codeInt (Valid.findInvalidIntersection flag (A.seg i) (B.seg j)) := by
  unfold ValidPairRule.findInvalidIntersection Valid.findInvalidIntersection
  simp only [gen_isAdjacentInRing_eq, gen_prevCoordinateInRing_eq]
  have hp : (A.seg i).p = A.pts.getD i default := rfl
  have hq : (A.seg i).q = A.pts.getD (i + 1) default := rfl
  have hp' : (B.seg j).p = B.pts.getD j default := rfl
  have hq' : (B.seg j).q = B.pts.getD (j + 1) default := rfl
  simp only [← hp, ← hq, ← hp', ← hq']
  generalize hs : A.seg i = s at *
  generalize ht : B.seg j = t at *
  have hrid : (A.rid == B.rid) = (s.rid == t.rid) := by subst hs ht; rfl
  have hm : s.m = A.pts.length - 1 := by subst hs; rfl
  have hk0 : s.k = i := by subst hs; rfl
  have hk1 : t.k = j := by subst ht; rfl
  simp only [hrid, ← hm, ← hk0, ← hk1]
  cases hrel : segRel s.p s.q t.p t.q with
  | disjoint => simp [hli.has, hrel, codeInt]
  | overlap => simp [hli.has, hli.proper, hli.num, hrel, codeInt, eSelfIntersection]
  | point proper =>
    cases proper with
    | true => simp [hli.has, hli.proper, hli.num, hrel, codeInt, eSelfIntersection]
    | false =>
      obtain ⟨x, hx⟩ := hone hrel
      have hget := hli.get
      simp [hli.has, hli.proper, hli.num, hrel, hx, hli.get _ _ _ _ _ x hrel (by rw [← meetPts_eq]; exact hx), gen_equals2D_eq]
      simp only [apply_ite Prod.fst, ite_self]
      repeat' split
      all_goals first | rfl | (simp_all [codeInt, eSelfIntersection, eRingSelfIntersection]; done) | grind [codeInt, eSelfIntersection, eRingSelfIntersection]


/-- **the regenerated per-pair decision IS the reference's intersection rule** (`Props/C05.findInvalidIntersection_eq_pairRule`
transported along the bridge): for segments of rings without repeated points the code generated from the current
`PolygonIntersectionAnalyzer.cpp` returns −1 / 5 / 6 exactly as `Valid.pairRule` says -/
theorem gen_findInvalidIntersection_eq_pairRule {LI W : Type}
    (liCompute : LI → Cxx.XY Int → Cxx.XY Int → Cxx.XY Int → Cxx.XY Int → LI) (liHas liProper : LI → Bool) (liNum : LI → Nat)
    (liGet : LI → Nat → Cxx.XY Int) (hli : LIExact liCompute liHas liProper liNum liGet)
    (addSelfTouch : W → RingStr → Cxx.XY Int → Cxx.XY Int → Cxx.XY Int → Cxx.XY Int → Cxx.XY Int → W)
    (addDoubleTouch : W → RingStr → RingStr → Cxx.XY Int → Bool × W)
    (flag : Bool) (li0 : LI) (w0 : W) (dt0 : Bool) (dl0 : Cxx.XY Int) (A B : RingStr) (i j : Nat)
    (hone : segRel (A.seg i).p (A.seg i).q (B.seg j).p (B.seg j).q = .point false → ∃ x, meetPts (A.seg i) (B.seg j) = [x])
    (hs1 : (A.seg i).prev ≠ (A.seg i).p) (hs2 : (A.seg i).p ≠ (A.seg i).q)
    (ht1 : (B.seg j).prev ≠ (B.seg j).p) (ht2 : (B.seg j).p ≠ (B.seg j).q) :
    (ValidPairRule.findInvalidIntersection (fun a b : RingStr => a.rid == b.rid) (fun s => s.pts.length)
        (fun s k => xy (s.pts.getD k default)) liCompute liHas liProper liNum liGet
        (fun n a0 a1 b0 b1 => Valid.isCrossing (pt n) (pt a0) (pt a1) (pt b0) (pt b1)) addSelfTouch addDoubleTouch
        flag li0 w0 dt0 dl0 A i B j).1
      = codeInt ((pairRule flag (A.seg i) (B.seg j)).map (·.1)) := by
  rw [gen_findInvalidIntersection_eq liCompute liHas liProper liNum liGet hli addSelfTouch addDoubleTouch flag li0 w0 dt0 dl0 A B i j hone,
    Valid.findInvalidIntersection_eq_pairRule flag _ _ hs1 hs2 ht1 ht2]

/-- `processIntersections`: the member `invalidCode` after the call is the model's (`Valid.processIntersections`): unchanged for a
segment paired with itself and for a valid pair, overwritten by the code of an invalid pair -/
theorem gen_processIntersections_eq {LI W : Type}
    (liCompute : LI → Cxx.XY Int → Cxx.XY Int → Cxx.XY Int → Cxx.XY Int → LI) (liHas liProper : LI → Bool) (liNum : LI → Nat)
    (liGet : LI → Nat → Cxx.XY Int) (hli : LIExact liCompute liHas liProper liNum liGet)
    (addSelfTouch : W → RingStr → Cxx.XY Int → Cxx.XY Int → Cxx.XY Int → Cxx.XY Int → Cxx.XY Int → W)
    (addDoubleTouch : W → RingStr → RingStr → Cxx.XY Int → Bool × W)
    (flag : Bool) (li0 : LI) (w0 : W) (dt0 : Bool) (dl0 : Cxx.XY Int) (code0 : Option Nat) (loc0 : Cxx.XY Int) (A B : RingStr) (i j : Nat)
    (hone : segRel (A.seg i).p (A.seg i).q (B.seg j).p (B.seg j).q = .point false → ∃ x, meetPts (A.seg i) (B.seg j) = [x]) :
    (ValidPairRule.processIntersections (fun a b : RingStr => a.rid == b.rid) (fun s => s.pts.length)
        (fun s k => xy (s.pts.getD k default)) liCompute liHas liProper liNum liGet
        (fun n a0 a1 b0 b1 => Valid.isCrossing (pt n) (pt a0) (pt a1) (pt b0) (pt b1)) addSelfTouch addDoubleTouch
        flag li0 w0 dt0 dl0 (codeInt code0) loc0 A i B j).2.2.2.2.1
      = codeInt (Valid.processIntersections flag code0 (A.seg i) (B.seg j)) := by
  have h := gen_findInvalidIntersection_eq liCompute liHas liProper liNum liGet hli addSelfTouch addDoubleTouch flag li0 w0 dt0 dl0 A B i j hone
  unfold ValidPairRule.processIntersections Valid.processIntersections
  have hk : ((A.seg i).rid == (B.seg j).rid && (A.seg i).k == (B.seg j).k) = (A.rid == B.rid && i == j) := rfl
  rw [hk]
  have h' := h
  simp only [List.getD_eq_getElem?_getD] at h'
  by_cases hsame : (A.rid == B.rid && i == j) = true
  · simp [hsame]
  · simp [hsame, apply_ite, h']
    cases hc : Valid.findInvalidIntersection flag (A.seg i) (B.seg j) <;> simp [codeInt] <;> omega

/-! non-vacuity: the regenerated code run with the exact intersector `LIv` on two squares' segments (a proper crossing: 5), on a
ring touching itself (6 in OGC mode, −1 with the flag) -/
def runPair (flag : Bool) (A B : RingStr) (i j : Nat) : Int :=
  (ValidPairRule.findInvalidIntersection (W := Unit) (fun a b : RingStr => a.rid == b.rid) (fun s => s.pts.length)
      (fun s k => xy (s.pts.getD k default)) LIv.compute (fun l => l.rel != .disjoint) (fun l => l.rel == .point true) LIv.num LIv.get
      (fun n a0 a1 b0 b1 => Valid.isCrossing (pt n) (pt a0) (pt a1) (pt b0) (pt b1)) (fun w _ _ _ _ _ _ => w) (fun w _ _ _ => (false, w))
      flag {} () false ⟨0, 0⟩ A i B j).1
example : runPair false ⟨0, [⟨0, 0⟩, ⟨10, 10⟩, ⟨0, 10⟩, ⟨0, 0⟩]⟩ ⟨1, [⟨10, 0⟩, ⟨0, 10⟩, ⟨10, 10⟩, ⟨10, 0⟩]⟩ 0 0 = 5 := by decide
example : runPair false ⟨0, [⟨10, 0⟩, ⟨5, 5⟩, ⟨10, 10⟩, ⟨0, 10⟩, ⟨5, 5⟩, ⟨0, 0⟩, ⟨10, 0⟩]⟩ ⟨0, [⟨10, 0⟩, ⟨5, 5⟩, ⟨10, 10⟩, ⟨0, 10⟩, ⟨5, 5⟩, ⟨0, 0⟩, ⟨10, 0⟩]⟩ 1 4 = 6 := by decide
example : runPair true ⟨0, [⟨10, 0⟩, ⟨5, 5⟩, ⟨10, 10⟩, ⟨0, 10⟩, ⟨5, 5⟩, ⟨0, 0⟩, ⟨10, 0⟩]⟩ ⟨0, [⟨10, 0⟩, ⟨5, 5⟩, ⟨10, 10⟩, ⟨0, 10⟩, ⟨5, 5⟩, ⟨0, 0⟩, ⟨10, 0⟩]⟩ 1 4 = -1 := by decide

end GeosModel.C05GenPair
