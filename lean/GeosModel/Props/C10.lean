import GeosModel.Proofs.Num.FmtLemmas
import GeosModel.Proofs.Num.ExactLemmas
import GeosModel.Proofs.WKT.Roundtrip
import GeosModel.Model.WKT.Cxx
/-!
# C10 — written WKT is re-readable and equals the input to stated precision: the number formatter

Model: `GeosModel.Num.writeTrimmedNumber bits precision` (Model/Num/Fixed.lean) = `WKTWriter::writeTrimmedNumber`
= `GEOS_printDouble`, a port of `to_chars_fixed` / `geos_d2sfixed_buffered_n` / `geos_d2sexp_buffered_n` on top of
`shortest` (Model/Num/Shortest.lean), the specification of Ryu's digit generation.  A double is its 64-bit
pattern `bits < 2^64`; `precision` is any natural number (the API takes a `uint32_t`).
-/
namespace GeosModel.Num

/-! ## the buffer never overflows -/

/-- **fmt_len_le.**  For every 64-bit pattern and every precision the formatted number has at most 24
characters; `WKTWriter::writeNumber` copies it into `char buf[28]` and appends a NUL, so the buffer
cannot overflow.  (24 is attained: `-1.2345678901234568e-300`.) -/
theorem fmt_len_le (bits precision : Nat) : (writeTrimmedNumber bits precision).length ≤ 24 := by
  unfold writeTrimmedNumber
  cases hn : notationOf bits with
  | special =>
    simp only
    unfold d2sFixed
    rw [notation_special bits hn, if_pos rfl]
    unfold specialStr
    repeat' split
    all_goals decide
  | sci =>
    simp only
    obtain ⟨hs, h1, h2⟩ := notation_sci bits hn
    unfold d2sExp
    rw [hs]
    simp only [Bool.false_eq_true, if_false]
    obtain ⟨_, k1, k17, _, _⟩ := shortest_spec (absBits bits) h1
    have hse := sciExp_range (absBits bits) h1 h2
    rw [decimalLength17_eq k17]
    obtain ⟨_, fl, _⟩ := toCharsFixed_facts (shortest (absBits bits)).1 (1 - (dlen (shortest (absBits bits)).1 : Int))
      (signOf bits) precision k1 k17
    obtain ⟨el, _⟩ := expSuffix_facts _ hse
    have hl : dlen (shortest (absBits bits)).1 ≤ 17 := dlen_le_of_lt k17 (by decide)
    have hp := dlen_pos (shortest (absBits bits)).1
    rw [List.length_append]
    clear hse k17 h2 h1 hs k1
    generalize (toCharsFixed (shortest (absBits bits)).fst (1 - ↑(dlen (shortest (absBits bits)).fst)) (signOf bits)
      precision).length = L at *
    generalize (expSuffix ((shortest (absBits bits)).snd + ↑(dlen (shortest (absBits bits)).fst) - 1)).length = E at *
    generalize dlen (shortest (absBits bits)).fst = dl at *
    omega
  | fixed =>
    simp only
    obtain ⟨hs, h1, h2⟩ := notation_fixed bits hn
    have hu : 1 ≤ absBits bits := by unfold bits1em4 at h1; omega
    unfold d2sFixed
    rw [hs]
    simp only [Bool.false_eq_true, if_false]
    obtain ⟨_, k1, k17, _, _⟩ := shortest_spec (absBits bits) hu
    obtain ⟨_, fl, fi⟩ := toCharsFixed_facts (shortest (absBits bits)).1 (shortest (absBits bits)).2
      (signOf bits) (adjPrecision (absBits bits) precision) k1 k17
    have hl : dlen (shortest (absBits bits)).1 ≤ 17 := dlen_le_of_lt k17 (by decide)
    have hp := dlen_pos (shortest (absBits bits)).1
    by_cases hq : 0 ≤ (shortest (absBits bits)).2
    · have g1 := fixed_int_digits (absBits bits) hu h2 hq
      have g2 := fi hq
      clear fl fi k17 h2 h1 hs k1 hu
      generalize (toCharsFixed (shortest (absBits bits)).fst (shortest (absBits bits)).snd (signOf bits)
        (adjPrecision (absBits bits) precision)).length = L at *
      generalize dlen (shortest (absBits bits)).fst = dl at *
      generalize (shortest (absBits bits)).snd = q at *
      omega
    · have g1 := fixed_frac_places (absBits bits) h1 (by omega)
      clear fi k17 h2 h1 hs k1 hu
      generalize (toCharsFixed (shortest (absBits bits)).fst (shortest (absBits bits)).snd (signOf bits)
        (adjPrecision (absBits bits) precision)).length = L at *
      generalize dlen (shortest (absBits bits)).fst = dl at *
      generalize (shortest (absBits bits)).snd = q at *
      omega

/-- tightness: the bound 24 is reached (`-1.2345678901234568e-300`), and the longest positional form has 23 -/
example : writeTrimmedNumber 0x81aa74fe1c1e8908 20 = "-1.2345678901234568e-300".toList ∧
    (writeTrimmedNumber 0x81aa74fe1c1e8908 20).length = 24 := by decide +kernel

/-! ## locale independence of the writer: the alphabet -/

/-- **fmt_alphabet.**  Every character the formatter produces is one of `0-9 . e + -`, or the output is one
of the three fixed words.  In particular no locale-dependent decimal separator can appear, and the
places where the C code would index `DIGIT_TABLE` / its output buffer with a wrong length (modelled as `#`)
are never reached. -/
theorem fmt_alphabet (bits precision : Nat) :
    (∀ c ∈ writeTrimmedNumber bits precision, isSciChar c = true) ∨
    writeTrimmedNumber bits precision = "NaN".toList ∨
    writeTrimmedNumber bits precision = "Infinity".toList ∨
    writeTrimmedNumber bits precision = "-Infinity".toList := by
  unfold writeTrimmedNumber
  cases hn : notationOf bits with
  | special =>
    simp only
    unfold d2sFixed
    rw [notation_special bits hn, if_pos rfl]
    unfold specialStr
    repeat' split
    · right; left; rfl
    · right; right; right; rfl
    · right; right; left; rfl
    · left; decide
  | sci =>
    left
    simp only
    obtain ⟨hs, h1, h2⟩ := notation_sci bits hn
    unfold d2sExp
    rw [hs]
    simp only [Bool.false_eq_true, if_false]
    obtain ⟨_, k1, k17, _, _⟩ := shortest_spec (absBits bits) h1
    have hse := sciExp_range (absBits bits) h1 h2
    rw [decimalLength17_eq k17]
    obtain ⟨fc, _, _⟩ := toCharsFixed_facts (shortest (absBits bits)).1 (1 - (dlen (shortest (absBits bits)).1 : Int))
      (signOf bits) precision k1 k17
    obtain ⟨_, ec⟩ := expSuffix_facts _ hse
    intro c hc
    rw [List.mem_append] at hc
    rcases hc with hc | hc
    · exact isSciChar_of_fixed (fc c hc)
    · exact ec c hc
  | fixed =>
    left
    simp only
    obtain ⟨hs, h1, h2⟩ := notation_fixed bits hn
    have hu : 1 ≤ absBits bits := by unfold bits1em4 at h1; omega
    unfold d2sFixed
    rw [hs]
    simp only [Bool.false_eq_true, if_false]
    obtain ⟨_, k1, k17, _, _⟩ := shortest_spec (absBits bits) hu
    obtain ⟨fc, _, _⟩ := toCharsFixed_facts (shortest (absBits bits)).1 (shortest (absBits bits)).2
      (signOf bits) (adjPrecision (absBits bits) precision) k1 k17
    intro c hc
    exact isSciChar_of_fixed (fc c hc)

/-! ## NaN, infinities, zeros -/

/-- **fmt_special.**  NaN (any payload, either sign) is written `NaN`, ±∞ as `Infinity` / `-Infinity`, and both
zeros as `0`, at every precision; and these words re-read (through the model of `strtod`) as a NaN, the
same infinity, and +0. -/
theorem fmt_special (bits precision : Nat) (hb : bits < 2 ^ 64) :
    (absBits bits > INF → writeTrimmedNumber bits precision = "NaN".toList) ∧
    (bits = INF → writeTrimmedNumber bits precision = "Infinity".toList) ∧
    (bits = INF + 2 ^ 63 → writeTrimmedNumber bits precision = "-Infinity".toList) ∧
    (absBits bits = 0 → writeTrimmedNumber bits precision = "0".toList) := by
  have key : ∀ b, (absBits b ≥ INF ∨ absBits b = 0) → writeTrimmedNumber b precision =
      specialStr (signOf b) (decide (ieeeExponent b ≠ 0)) (decide (ieeeMantissa b ≠ 0)) := by
    intro b h
    have hn : notationOf b = .special := by unfold notationOf; simp only; rw [if_pos h]
    unfold writeTrimmedNumber
    rw [hn]
    simp only
    unfold d2sFixed
    rw [notation_special b hn, if_pos rfl]
  refine ⟨?_, ?_, ?_, ?_⟩
  · intro h
    rw [key bits (Or.inl (by omega))]
    have h2 : ieeeMantissa bits ≠ 0 := by
      unfold ieeeMantissa; unfold absBits INF at h; omega
    simp [specialStr, h2]
  · intro h; subst h; rw [key _ (Or.inl (by decide))]; decide
  · intro h; subst h; rw [key _ (Or.inl (by decide))]; decide
  · intro h
    rw [key bits (Or.inr h)]
    have h1 : ieeeExponent bits = 0 := by unfold ieeeExponent; unfold absBits at h; omega
    have h2 : ieeeMantissa bits = 0 := by unfold ieeeMantissa; unfold absBits at h; omega
    simp [specialStr, h1, h2]

/-- the three words and `0` re-read as NaN, the infinities, and +0 -/
theorem fmt_special_reread :
    strtod "NaN".toList = some nanBitsNat ∧ strtod "Infinity".toList = some INF ∧
    strtod "-Infinity".toList = some (INF + 2 ^ 63) ∧ strtod "0".toList = some 0 := by
  refine ⟨by decide, by decide, by decide, by decide⟩

/-! ## the value that is written -/

/-- what `fmt_value` and `fmt_exact` say the text denotes: the shortest decimal `k·10^q` of the double, rounded
half-even — in positional notation to the (adjusted) number of decimals, in scientific notation to
`precision` decimals of the mantissa `d.ddd…` -/
def writtenDec (bits precision : Nat) : Nat × Int :=
  let k := (shortest (absBits bits)).1
  let q := (shortest (absBits bits)).2
  match notationOf bits with
  | .sci => ((rheDec k (1 - (dlen k : Int)) precision).1,
             (rheDec k (1 - (dlen k : Int)) precision).2 + (q + (dlen k : Int) - 1))
  | _ => rheDec k q (adjPrecision (absBits bits) precision)

/-- **fmt_value.**  For every finite non-zero double and every precision, the text re-reads (exactly, as a decimal)
as the shortest round-trip decimal of the double rounded half-even at the requested place; the minus sign is
dropped exactly when that rounds to zero.  Together with `rheDec_close` (half a unit of the last place)
and `shortest_in_interval` (half an ulp) this is the "stated precision" clause of the property. -/
theorem fmt_value (bits precision : Nat) (h1 : 1 ≤ absBits bits) (h2 : absBits bits < INF) :
    ∃ n e, parseNum (writeTrimmedNumber bits precision) = some (.dec (signOf bits && decide (n ≠ 0)) n e) ∧
      SameDec (n, e) (writtenDec bits precision) := by
  obtain ⟨_, k1, k17, _, _⟩ := shortest_spec (absBits bits) h1
  unfold writeTrimmedNumber writtenDec
  cases hn : notationOf bits with
  | special =>
    exfalso
    have := (special_iff bits).mp (notation_special bits hn)
    omega
  | sci =>
    simp only
    obtain ⟨hs, _, _⟩ := notation_sci bits hn
    unfold d2sExp
    rw [hs]
    simp only [Bool.false_eq_true, if_false]
    rw [decimalLength17_eq k17]
    obtain ⟨ep, es⟩ := expSuffix_parse _ (sciExp_range (absBits bits) h1 h2)
    obtain ⟨n, fc, sd, hp⟩ := toCharsFixed_parse (shortest (absBits bits)).1 (1 - (dlen (shortest (absBits bits)).1 : Int))
      (signOf bits) precision k1 k17 _ es
    rw [ep] at hp
    refine ⟨n, _, hp, ?_⟩
    have := sameDec_shift ((shortest (absBits bits)).2 + (dlen (shortest (absBits bits)).1 : Int) - 1) sd
    simp only at this
    rw [Int.add_comm (-(fc : Int))] at this
    exact this
  | fixed =>
    simp only
    obtain ⟨hs, _, _⟩ := notation_fixed bits hn
    unfold d2sFixed
    rw [hs]
    simp only [Bool.false_eq_true, if_false]
    obtain ⟨n, fc, sd, hp⟩ := toCharsFixed_parse (shortest (absBits bits)).1 (shortest (absBits bits)).2
      (signOf bits) (adjPrecision (absBits bits) precision) k1 k17 [] (by intro c r h; cases h)
    rw [List.append_nil] at hp
    refine ⟨n, _, hp, ?_⟩
    simpa [parseExp] using sd

/-- the rounding of `fmt_value` moves the value by at most half a unit of the last place kept -/
theorem fmt_value_half_unit (k : Nat) (q : Int) (p : Nat) (h : (p : Int) < -q) :
    (rheDec k q p).2 = -(p : Int) ∧
    2 * ((rheDec k q p).1 * 10 ^ (-q - (p : Int)).toNat) ≤ 2 * k + 10 ^ (-q - (p : Int)).toNat ∧
    2 * k ≤ 2 * ((rheDec k q p).1 * 10 ^ (-q - (p : Int)).toNat) + 10 ^ (-q - (p : Int)).toNat :=
  rheDec_close k q p h

/-- the shortest decimal lies in the rounding interval of the double (within half an ulp, end points only for
even mantissas): it re-reads as the same double -/
theorem shortest_roundtrip (u : Nat) (h1 : 1 ≤ u) (h2 : u < INF) :
    roundNE (.dec false (shortest u).1 (shortest u).2) = u := by
  have := roundNE_of_interval u (shortest u).1 (shortest u).2 false h1 h2
    (by have := shortest_pos u h1; omega) (shortest_in_interval u h1)
  simpa using this

/-! ## exact round trip -/

/-- no digit of the shortest decimal is cut off by the requested precision -/
def keepsAllDigits (bits precision : Nat) : Prop :=
  match notationOf bits with
  | .sci => dlen (shortest (absBits bits)).1 ≤ precision + 1
  | _ => -(shortest (absBits bits)).2 ≤ (adjPrecision (absBits bits) precision : Int)

theorem bits_decomp (bits : Nat) (hb : bits < 2 ^ 64) :
    absBits bits + (if signOf bits = true then 2 ^ 63 else 0) = bits := by
  unfold absBits signOf
  by_cases hs : bits / 2 ^ 63 % 2 = 1 <;> simp [hs] <;> omega

/-- when nothing is cut off, the written decimal is the shortest decimal itself -/
theorem writtenDec_of_keeps (bits precision : Nat) (hk : keepsAllDigits bits precision) :
    writtenDec bits precision = ((shortest (absBits bits)).1, (shortest (absBits bits)).2) := by
  unfold writtenDec keepsAllDigits at *
  cases hn : notationOf bits with
  | sci => rw [hn] at hk; exact rheDec_sci_keeps _ _ _ hk
  | special => rw [hn] at hk; exact rheDec_keeps _ _ _ hk
  | fixed => rw [hn] at hk; exact rheDec_keeps _ _ _ hk

/-- **fmt_exact.**  Whenever the precision keeps every digit of the shortest decimal, the written text re-reads
(correctly rounded `strtod`) as exactly the same 64-bit pattern, sign included. -/
theorem fmt_exact (bits precision : Nat) (hb : bits < 2 ^ 64) (h1 : 1 ≤ absBits bits) (h2 : absBits bits < INF)
    (hk : keepsAllDigits bits precision) : strtod (writeTrimmedNumber bits precision) = some bits := by
  obtain ⟨n, e, hp, sd⟩ := fmt_value bits precision h1 h2
  have hin := shortest_in_interval (absBits bits) h1
  have k1 := shortest_pos (absBits bits) h1
  rw [writtenDec_of_keeps bits precision hk] at sd
  have hn0 : n ≠ 0 := sameDec_ne_zero sd k1
  have hin' : inIvl (ivl (absBits bits)) e n = true := by
    rw [inIvl_sameDec _ n _ e _ sd]; exact hin
  unfold strtod
  rw [hp]
  simp only [Option.map_some, hn0, ne_eq, not_false_eq_true, decide_true, Bool.and_true]
  rw [roundNE_of_interval (absBits bits) n e (signOf bits) h1 h2 hn0 hin', bits_decomp bits hb]

/-- scientific notation: 16 decimals of the mantissa (17 significant digits) always suffice -/
theorem fmt_exact_sci (bits precision : Nat) (hb : bits < 2 ^ 64) (hn : notationOf bits = .sci)
    (hp : 16 ≤ precision) : strtod (writeTrimmedNumber bits precision) = some bits := by
  obtain ⟨_, h1, h2⟩ := notation_sci bits hn
  apply fmt_exact bits precision hb h1 h2
  unfold keepsAllDigits
  rw [hn]
  have := dlen_le_of_lt (shortest_lt (absBits bits) h1) (by decide : 1 ≤ 17)
  simp only; omega

/-- positional notation (`1e-4 ≤ |x| < 1e17`): 21 decimals always suffice -/
theorem fmt_exact_fixed (bits precision : Nat) (hb : bits < 2 ^ 64) (hn : notationOf bits = .fixed)
    (hp : 21 ≤ precision) : strtod (writeTrimmedNumber bits precision) = some bits := by
  obtain ⟨_, h1, h2⟩ := notation_fixed bits hn
  have hu : 1 ≤ absBits bits := by unfold bits1em4 at h1; omega
  have hi : absBits bits < INF := by unfold bits1e17 at h2; unfold INF; omega
  apply fmt_exact bits precision hb hu hi
  unfold keepsAllDigits
  rw [hn]
  simp only
  have hadj : precision ≤ adjPrecision (absBits bits) precision := by
    unfold adjPrecision; split <;> omega
  by_cases hq : (shortest (absBits bits)).2 < 0
  · have := fixed_frac_places (absBits bits) h1 hq
    omega
  · omega

/-- non-vacuity: the hypotheses of `fmt_exact` are satisfiable (1.5 at precision 1), and the model evaluates:
half-even on the decimal digits (0.125 → 0.12 at two decimals), the notation switches at 1e-4 and 1e17 -/
example : 0x3ff8000000000000 < 2 ^ 64 ∧ 1 ≤ absBits 0x3ff8000000000000 ∧ absBits 0x3ff8000000000000 < INF := by
  decide
example : writeTrimmedNumber 0x3ff8000000000000 1 = "1.5".toList ∧
    strtod (writeTrimmedNumber 0x3ff8000000000000 1) = some 0x3ff8000000000000 ∧
    writeTrimmedNumber 0x3fc0000000000000 2 = "0.12".toList ∧
    writeTrimmedNumber 0x3f1a36e2eb1c432d 16 = "0.0001".toList ∧
    writeTrimmedNumber 0x3f1a36e2eb1c432c 16 = "9.999999999999999e-5".toList ∧
    writeTrimmedNumber 0x4376345785d8a000 16 = "1e+17".toList ∧
    writeTrimmedNumber 0x4376345785d89fff 16 = "99999999999999980".toList := by decide +kernel

end GeosModel.Num

/-!
# C10 — structure: the WKT writer's tokens are read back as the specified tree

Models: `GeosModel.WKT.writeToks` (Model/WKT/Write.lean = `WKTWriter`), `GeosModel.WKT.readToks`
(Model/WKT/Read.lean = `WKTReader` on tokens), specification `project` / `dimOK` (Model/WKT/Spec.lean).
Token level: numbers are opaque bit patterns (their text is the subject of the `fmt_*` theorems above).
-/
namespace GeosModel.WKT
open GeosModel

/-- the full statement (ISO tags): every geometry the reader can produce at all — all 13 classes, well formed by
construction — whose collections are dimensionally uniform (`dimOK`) is written to tokens that read back as
`project cfg id g`.  NOT proved in general; proved below for the classes without curved components.
What is missing: the analogous induction cases for COMPOUNDCURVE / CURVEPOLYGON / MULTICURVE / MULTISURFACE
(readers `readCurve`, `readCurves`, `readCompound`, `readCurvePolygon`, `readSurface`, `readSurfaces`) and the
old-3D convention; those are covered by the correspondence streams wkt-write / wkt-read / wkt-rt only. -/
def wkt_roundtrip_full : Prop :=
  ∀ (cfg : Cfg) (g : G) (ts : List Tok), readToks ts = .ok g → cfg.old3D = false → dimOK cfg g = true →
    readToks (writeToks cfg g) = .ok (project cfg id g)

/-- **wkt_roundtrip (partial).**  For every writer configuration with ISO tags (any trim / precision / output
dimension), every well-formed geometry built from Point, LineString, LinearRing, CircularString, Polygon,
MultiPoint, MultiLineString, MultiPolygon and (arbitrarily nested) GeometryCollection — EMPTY allowed at every
level — whose collections are dimensionally uniform, the reader run on the writer's tokens returns exactly the
specified tree `project cfg id g` (same type tree and emptiness, every sequence carrying the tag's Z/M flags,
dropped ordinates NaN) and consumes all tokens; `f` is the reader model's recursion fuel. -/
theorem wkt_roundtrip_partial (cfg : Cfg) (hiso : cfg.old3D = false) (g : G) (hwf : WFs g = true)
    (hdim : dimOK cfg g = true) (f : Nat) (hf : gFuel g ≤ f) :
    readTagged f {} .none (writeToks cfg g) = .ok (project cfg id g, []) :=
  roundtrip_fuel cfg hiso g hwf hdim f hf

/-- the same through `readToks` (whose fuel is 3·tokens + 4), whenever that fuel covers `gFuel g`
(decidable; it does for every geometry the generators produce — the proof's fuel measure is generous) -/
theorem wkt_roundtrip_readToks (cfg : Cfg) (hiso : cfg.old3D = false) (g : G) (hwf : WFs g = true)
    (hdim : dimOK cfg g = true) (hf : gFuel g ≤ 3 * (writeToks cfg g).length + 4) :
    readToks (writeToks cfg g) = .ok (project cfg id g) :=
  roundtrip_readToks cfg hiso g hwf hdim hf

/-- a collection with a polygon (with hole), an empty line and a nested collection -/
def demoG : G :=
  .collection [
    .polygon ⟨true, false, [⟨0, 0, 1, nanBits⟩, ⟨1, 0, 1, nanBits⟩, ⟨1, 1, 1, nanBits⟩, ⟨0, 0, 1, nanBits⟩]⟩
             [⟨true, false, []⟩],
    .lineString ⟨true, false, []⟩,
    .collection [.multiPoint [.point ⟨true, false, [⟨5, 6, 7, nanBits⟩]⟩, .point ⟨true, false, []⟩]]]

/-- non-vacuity: the hypotheses hold for `demoG`, and the round trip is the projection -/
example : WFs demoG = true ∧ dimOK {} demoG = true ∧ gFuel demoG ≤ 3 * (writeToks {} demoG).length + 4 := by decide

/-- **the dimensional-uniformity hypothesis is necessary (finding).**  The writer's own output for a collection
with one XYZ and one XY point — `GEOMETRYCOLLECTION Z (POINT Z (1 2 3), POINT (1 2))` — is rejected by the
reader ("Cannot mix dimensionality in a geometry"): the unrestricted round-trip statement is false. -/
def isParseError : Except Err G → Bool
  | .error .parse => true
  | _ => false

theorem wkt_mixed_dims_rejected :
    ∃ (cfg : Cfg) (g : G), cfg.old3D = false ∧ WFs g = true ∧ dimOK cfg g = false ∧
      isParseError (readToks (writeToks cfg g)) = true := by
  refine ⟨{}, .collection [.point ⟨true, false, [⟨0x3ff0000000000000, 0x4000000000000000, 0x4008000000000000, nanBits⟩]⟩,
    .point ⟨false, false, [⟨0x3ff0000000000000, 0x4000000000000000, nanBits, nanBits⟩]⟩], rfl, ?_, ?_, ?_⟩ <;> decide

end GeosModel.WKT

/-!
# C10 — configuration and tags: what the regenerated setters / loops guarantee (models of `Model/WKT/Cxx.lean`)
-/
namespace GeosModel.WKT
open GeosModel

/-- **the setter's clamp.**  Whatever value is passed to `setRoundingPrecision`, ordinates are written with the precision model's
digits when it is ≤ −1 and with exactly that many decimals otherwise (`clampPrecision` = the regenerated setter,
`C10Gen.gen_setRoundingPrecision_eq`) -/
theorem decimalPlaces_clamped (cfg : Cfg) (p : Int) :
    decimalPlaces { cfg with precision := clampPrecision p } = if p ≤ -1 then cfg.pmDigits.toNat else p.toNat := by
  unfold decimalPlaces clampPrecision
  by_cases h : p < -1
  · have : p ≤ -1 := by omega
    simp [h, this]
  · by_cases h2 : p = -1
    · simp [h2]
    · have : ¬ p ≤ -1 := by omega
      simp [h, h2, this]

/-- **dimension dropping stays within the output dimension and only drops.**  For every output dimension `setOutputDimension`
accepts, the ordinates a tagged geometry is written with (`capOrds` = the regenerated loop of `appendGeometryTaggedText`,
`C10Gen.gen_ordinates_eq`) number at most `d`, are among the geometry's own, and are all of them when they fit. -/
theorem capOrds_within (d : Nat) (hd : 2 ≤ d) (o : Ords) :
    2 + (capOrds d o).z.toNat + (capOrds d o).m.toNat ≤ d ∧
    ((capOrds d o).z = true → o.z = true) ∧ ((capOrds d o).m = true → o.m = true) ∧
    (2 + o.z.toNat + o.m.toNat ≤ d → capOrds d o = o) := by
  rcases o with ⟨z, m⟩
  have hd' : d = 2 ∨ d = 3 ∨ 4 ≤ d := by omega
  rcases hd' with rfl | rfl | h4
  · cases z <;> cases m <;> decide
  · cases z <;> cases m <;> decide
  · have n1 : ¬ d < 4 := by omega
    have n2 : ¬ d < 3 := by omega
    have n3 : ¬ d < 2 := by omega
    cases z <;> cases m <;> simp [capOrds, n1, n2, n3] <;> omega

/-- `setOutputDimension` stores only 2, 3 or 4 (so `capOrds_within` applies to every reachable writer state) -/
theorem outputDimension_checked (d d' : Nat) (h : checkOutputDimension d = .ok d') : d' = d ∧ 2 ≤ d' ∧ d' ≤ 4 := by
  unfold checkOutputDimension at h
  split at h
  · cases h
  · injection h with h; omega

/-- the text `appendOrdinateText` writes (`ordTextStr`, `C10Gen.gen_appendOrdinateText_eq`) is what `render` lays out for the tag
tokens `ordText` in front of whatever follows -/
theorem render_ordText (cfg : Cfg) (o : Ords) (t : Tok) (r : List Tok) :
    render cfg (ordText cfg o ++ t :: r) = (ordTextStr cfg o).toList ++ render cfg (t :: r) := by
  rcases o with ⟨z, m⟩
  rcases cfg with ⟨tr, p, od, o3, pd⟩
  cases o3 <;> cases z <;> cases m <;> simp [ordText, ordTextStr, render, spaceAfter, tokStr, String.join]

/-! non-vacuity: 3 is accepted, 5 is not; an XYZM geometry written at dimension 3 keeps Z -/
example : checkOutputDimension 3 = .ok 3 ∧ checkOutputDimension 5 = .error "IllegalArgumentException" := ⟨rfl, rfl⟩
example : capOrds 3 ⟨true, true⟩ = ⟨true, false⟩ ∧ capOrds 2 ⟨false, true⟩ = ⟨false, false⟩ := by decide

end GeosModel.WKT
