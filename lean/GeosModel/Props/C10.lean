import GeosModel.Model.Num.Fixed
import GeosModel.Model.Num.Parse
/-! # C10 — (work in progress) -/
namespace GeosModel.Num

/-- NaN (any payload, either sign) is written `NaN` at every precision -/
theorem fmt_special_nan (bits p : Nat) (h : absBits bits > INF) (hb : bits < 2 ^ 64) :
    writeTrimmedNumber bits p = "NaN".toList := by
  have hn : notationOf bits = .special := by simp [notationOf]; omega
  simp only [writeTrimmedNumber, hn, d2sFixed]
  have h1 : ieeeExponent bits = 2047 := by
    simp only [ieeeExponent, absBits, INF] at *; omega
  have h2 : ieeeMantissa bits ≠ 0 := by
    simp only [ieeeMantissa, absBits, INF] at *; omega
  simp [isSpecial, h1, specialStr, h2]

end GeosModel.Num
