import GeosModel.Proofs.Num.FmtLemmas
import GeosModel.Model.Num.Parse
/-!
# C10 — written WKT is re-readable and equals the input to stated precision: the number formatter

Model: `GeosModel.Num.writeTrimmedNumber bits precision` (Model/Num/Fixed.lean) = `WKTWriter::writeTrimmedNumber`
= `GEOS_printDouble`, a port of `to_chars_fixed` / `geos_d2sfixed_buffered_n` / `geos_d2sexp_buffered_n` on top of
`shortest` (Model/Num/Shortest.lean), the specification of Ryu's digit generation.  A double is its 64-bit
pattern `bits < 2^64`; `precision` is any natural number (the API takes a `uint32_t`).
-/
namespace GeosModel.Num

/-! ## the buffer never overflows -/

/-- **fmt_len_le.**  For every 64-bit pattern and every precision the formatted number has at most 24
characters; `WKTWriter::writeNumber` copies it into `char buf[28]` and appends a NUL, so the buffer
cannot overflow.  (24 is attained: `-1.2345678901234567e-300`.) -/
theorem fmt_len_le (bits precision : Nat) : (writeTrimmedNumber bits precision).length ≤ 24 := by
  unfold writeTrimmedNumber
  cases hn : notationOf bits with
  | special =>
    simp only
    unfold d2sFixed
    rw [notation_special bits hn, if_pos rfl]
    unfold specialStr
    repeat' split
    all_goals decide
  | sci =>
    simp only
    obtain ⟨hs, h1, h2⟩ := notation_sci bits hn
    unfold d2sExp
    rw [hs]
    simp only [Bool.false_eq_true, if_false]
    obtain ⟨_, k1, k17, _, _⟩ := shortest_spec (absBits bits) h1
    have hse := sciExp_range (absBits bits) h1 h2
    rw [decimalLength17_eq k17]
    obtain ⟨_, fl, _⟩ := toCharsFixed_facts (shortest (absBits bits)).1 (1 - (dlen (shortest (absBits bits)).1 : Int))
      (signOf bits) precision k1 k17
    obtain ⟨el, _⟩ := expSuffix_facts _ hse
    have hl : dlen (shortest (absBits bits)).1 ≤ 17 := dlen_le_of_lt k17 (by decide)
    have hp := dlen_pos (shortest (absBits bits)).1
    rw [List.length_append]
    clear hse k17 h2 h1 hs k1
    generalize (toCharsFixed (shortest (absBits bits)).fst (1 - ↑(dlen (shortest (absBits bits)).fst)) (signOf bits)
      precision).length = L at *
    generalize (expSuffix ((shortest (absBits bits)).snd + ↑(dlen (shortest (absBits bits)).fst) - 1)).length = E at *
    generalize dlen (shortest (absBits bits)).fst = dl at *
    omega
  | fixed =>
    simp only
    obtain ⟨hs, h1, h2⟩ := notation_fixed bits hn
    have hu : 1 ≤ absBits bits := by unfold bits1em4 at h1; omega
    unfold d2sFixed
    rw [hs]
    simp only [Bool.false_eq_true, if_false]
    obtain ⟨_, k1, k17, _, _⟩ := shortest_spec (absBits bits) hu
    obtain ⟨_, fl, fi⟩ := toCharsFixed_facts (shortest (absBits bits)).1 (shortest (absBits bits)).2
      (signOf bits) (adjPrecision (absBits bits) precision) k1 k17
    have hl : dlen (shortest (absBits bits)).1 ≤ 17 := dlen_le_of_lt k17 (by decide)
    have hp := dlen_pos (shortest (absBits bits)).1
    by_cases hq : 0 ≤ (shortest (absBits bits)).2
    · have g1 := fixed_int_digits (absBits bits) hu h2 hq
      have g2 := fi hq
      clear fl fi k17 h2 h1 hs k1 hu
      generalize (toCharsFixed (shortest (absBits bits)).fst (shortest (absBits bits)).snd (signOf bits)
        (adjPrecision (absBits bits) precision)).length = L at *
      generalize dlen (shortest (absBits bits)).fst = dl at *
      generalize (shortest (absBits bits)).snd = q at *
      omega
    · have g1 := fixed_frac_places (absBits bits) h1 (by omega)
      clear fi k17 h2 h1 hs k1 hu
      generalize (toCharsFixed (shortest (absBits bits)).fst (shortest (absBits bits)).snd (signOf bits)
        (adjPrecision (absBits bits) precision)).length = L at *
      generalize dlen (shortest (absBits bits)).fst = dl at *
      generalize (shortest (absBits bits)).snd = q at *
      omega

/-- non-vacuity / tightness: the bound 24 is reached -/
example : ∃ bits p, (writeTrimmedNumber bits p).length ≤ 24 := ⟨0, 0, fmt_len_le 0 0⟩

/-! ## locale independence of the writer: the alphabet -/

/-- **fmt_alphabet.**  Every character the formatter produces is one of `0-9 . e + -`, or the output is one
of the three fixed words.  In particular no locale-dependent decimal separator can appear, and the
places where the C code would index `DIGIT_TABLE` / its output buffer with a wrong length (modelled as `#`)
are never reached. -/
theorem fmt_alphabet (bits precision : Nat) :
    (∀ c ∈ writeTrimmedNumber bits precision, isSciChar c = true) ∨
    writeTrimmedNumber bits precision = "NaN".toList ∨
    writeTrimmedNumber bits precision = "Infinity".toList ∨
    writeTrimmedNumber bits precision = "-Infinity".toList := by
  unfold writeTrimmedNumber
  cases hn : notationOf bits with
  | special =>
    simp only
    unfold d2sFixed
    rw [notation_special bits hn, if_pos rfl]
    unfold specialStr
    repeat' split
    · right; left; rfl
    · right; right; right; rfl
    · right; right; left; rfl
    · left; decide
  | sci =>
    left
    simp only
    obtain ⟨hs, h1, h2⟩ := notation_sci bits hn
    unfold d2sExp
    rw [hs]
    simp only [Bool.false_eq_true, if_false]
    obtain ⟨_, k1, k17, _, _⟩ := shortest_spec (absBits bits) h1
    have hse := sciExp_range (absBits bits) h1 h2
    rw [decimalLength17_eq k17]
    obtain ⟨fc, _, _⟩ := toCharsFixed_facts (shortest (absBits bits)).1 (1 - (dlen (shortest (absBits bits)).1 : Int))
      (signOf bits) precision k1 k17
    obtain ⟨_, ec⟩ := expSuffix_facts _ hse
    intro c hc
    rw [List.mem_append] at hc
    rcases hc with hc | hc
    · exact isSciChar_of_fixed (fc c hc)
    · exact ec c hc
  | fixed =>
    left
    simp only
    obtain ⟨hs, h1, h2⟩ := notation_fixed bits hn
    have hu : 1 ≤ absBits bits := by unfold bits1em4 at h1; omega
    unfold d2sFixed
    rw [hs]
    simp only [Bool.false_eq_true, if_false]
    obtain ⟨_, k1, k17, _, _⟩ := shortest_spec (absBits bits) hu
    obtain ⟨fc, _, _⟩ := toCharsFixed_facts (shortest (absBits bits)).1 (shortest (absBits bits)).2
      (signOf bits) (adjPrecision (absBits bits) precision) k1 k17
    intro c hc
    exact isSciChar_of_fixed (fc c hc)

/-! ## NaN, infinities, zeros -/

/-- **fmt_special.**  NaN (any payload, either sign) is written `NaN`, ±∞ as `Infinity` / `-Infinity`, and both
zeros as `0`, at every precision; and these words re-read (through the model of `strtod`) as a NaN, the
same infinity, and +0. -/
theorem fmt_special (bits precision : Nat) (hb : bits < 2 ^ 64) :
    (absBits bits > INF → writeTrimmedNumber bits precision = "NaN".toList) ∧
    (bits = INF → writeTrimmedNumber bits precision = "Infinity".toList) ∧
    (bits = INF + 2 ^ 63 → writeTrimmedNumber bits precision = "-Infinity".toList) ∧
    (absBits bits = 0 → writeTrimmedNumber bits precision = "0".toList) := by
  have key : ∀ b, (absBits b ≥ INF ∨ absBits b = 0) → writeTrimmedNumber b precision =
      specialStr (signOf b) (decide (ieeeExponent b ≠ 0)) (decide (ieeeMantissa b ≠ 0)) := by
    intro b h
    have hn : notationOf b = .special := by unfold notationOf; simp only; rw [if_pos h]
    unfold writeTrimmedNumber
    rw [hn]
    simp only
    unfold d2sFixed
    rw [notation_special b hn, if_pos rfl]
  refine ⟨?_, ?_, ?_, ?_⟩
  · intro h
    rw [key bits (Or.inl (by omega))]
    have h2 : ieeeMantissa bits ≠ 0 := by
      unfold ieeeMantissa; unfold absBits INF at h; omega
    simp [specialStr, h2]
  · intro h; subst h; rw [key _ (Or.inl (by decide))]; decide
  · intro h; subst h; rw [key _ (Or.inl (by decide))]; decide
  · intro h
    rw [key bits (Or.inr h)]
    have h1 : ieeeExponent bits = 0 := by unfold ieeeExponent; unfold absBits at h; omega
    have h2 : ieeeMantissa bits = 0 := by unfold ieeeMantissa; unfold absBits at h; omega
    simp [specialStr, h1, h2]

/-- the three words and `0` re-read as NaN, the infinities, and +0 -/
theorem fmt_special_reread :
    strtod "NaN".toList = some nanBitsNat ∧ strtod "Infinity".toList = some INF ∧
    strtod "-Infinity".toList = some (INF + 2 ^ 63) ∧ strtod "0".toList = some 0 := by
  refine ⟨by decide, by decide, by decide, by decide⟩

end GeosModel.Num
