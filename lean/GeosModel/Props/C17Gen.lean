import GeosModel.Model.Fix.Cxx
import GeosModel.Generated.GeometryFixer
import GeosModel.Proofs.Fix.Loops
import GeosModel.Proofs.Fix.Dispatch
/-!
# C17 — the regenerated decision functions of `GeometryFixer` are the dispatch model

`Generated/GeometryFixer.lean` is rewritten from `src/geom/util/GeometryFixer.cpp` by `translate/cxx2lean.py` (spec
`geometry_fixer`; parser extensions `translate/cxx_ext.py`) on every run, statement by statement (`MakeValid::build`:
`Props/C17GenMV.lean`).  Input pointers are the model's `Shape`, results are
`Option Res` (`nullptr` = `none`); `Model/Fix/Cxx.lean` says which field each C++ accessor reads.  The theorems prove the
regenerated functions equal to the hand-written model of `Model/Fix/Dispatch.lean` — the object of `fix_dispatch_total`,
`fix_dim_le`, `fix_no_collapse`, `collapse_kept_iff`, `fix_empty_atomic` (`Props/C17.lean`) — for **every** shape and both
keep-collapsed settings.  Geometric sub-operations are oracles (parameters of the regenerated definitions); each theorem
states what the model assumes of them as an explicit hypothesis:

* `fixRing shell` (buffer by zero) returns a geometry of the kind the shape records (`shellArea`);
* `polygonWithHoles` (everything `fixPolygonElement` does after the no-holes test) returns the kind `withHoles`;
* `ring->isValid()` of the rebuilt ring is the shape's `ringValid`.
-/
set_option linter.unusedSimpArgs false
namespace GeosModel.C17Gen
open GeosModel GeosModel.Fix GeosModel.Generated

theorem gen_fixPointElement_eq (e v : Bool) :
    GeometryFixer.fixPointElement (.point e v) = Fix.fixPointElement e v := by
  cases e <;> cases v <;> rfl

theorem gen_fixPoint_eq (e v : Bool) :
    GeometryFixer.fixPoint () (.point e v) = some (fix false (.point e v)) := by
  cases e <;> cases v <;> rfl

theorem gen_fixLineStringElement_eq (keep e : Bool) (c : Nat) :
    GeometryFixer.fixLineStringElement keep () (.line e c) = Fix.fixLineStringElement keep e c := by
  have hc : c = 0 ∨ c = 1 ∨ 2 ≤ c := by omega
  rcases hc with rfl | rfl | h
  · cases keep <;> cases e <;> rfl
  · cases keep <;> cases e <;> rfl
  · have h1 : ¬ c ≤ 1 := by omega
    have h0 : c ≠ 0 := by omega
    have hn : c ≠ 1 := by omega
    cases keep <;> cases e <;>
      simp [GeometryFixer.fixLineStringElement, Fix.fixLineStringElement, Shape.emptyFlag, Shape.clean, createPointAt, createLineStringOf,
        h1, h0, hn, h] <;> (try simp_all) <;> (first | omega | (simp <;> omega) | grind)

theorem gen_fixLineString_eq (keep e : Bool) (c : Nat) :
    GeometryFixer.fixLineString keep () (.line e c) = some (fix keep (.line e c)) := by
  simp only [GeometryFixer.fixLineString, gen_fixLineStringElement_eq, fix, Fix.fixLineString]
  cases Fix.fixLineStringElement keep e c <;> simp [createLineStringEmpty]

/-- `fixLinearRingElement`: `isValid` is the validity oracle of the rebuilt ring; the model's `ringValid` is its value on
the ring the function builds -/
theorem gen_fixLinearRingElement_eq (isValidF : Option Res → Bool) (keep e v : Bool) (c : Nat)
    (hv : isValidF (some (.atom .linearRing false)) = v) :
    GeometryFixer.fixLinearRingElement isValidF keep () (.ring e c v) = Fix.fixLinearRingElement keep e c v := by
  have hc : c = 0 ∨ c = 1 ∨ c = 2 ∨ c = 3 ∨ 4 ≤ c := by omega
  rcases hc with rfl | rfl | rfl | rfl | h
  · cases keep <;> cases e <;> rfl
  · cases keep <;> cases e <;> rfl
  · cases keep <;> cases e <;> rfl
  · cases keep <;> cases e <;> rfl
  · have h1 : ¬ c ≤ 3 := by omega
    have h0 : c ≠ 0 := by omega
    have hn : c ≠ 1 := by omega
    have hg : 1 < c := by omega
    have hb : (c == 0) = false := by simp [h0]
    cases keep <;> cases e <;> cases v <;>
      simp [GeometryFixer.fixLinearRingElement, Fix.fixLinearRingElement, Shape.emptyFlag, Shape.clean, createPointAt, createLineStringOf,
        createLinearRingOf, resCoords, Res.isEmpty, h1, h0, hn, hg, hb, hv, h] <;> (try simp_all) <;> (first | omega | (simp <;> omega) | grind)


theorem gen_fixLinearRing_eq (isValidF : Option Res → Bool) (keep e v : Bool) (c : Nat)
    (hv : isValidF (some (.atom .linearRing false)) = v) :
    GeometryFixer.fixLinearRing isValidF keep () (.ring e c v) = some (fix keep (.ring e c v)) := by
  simp only [GeometryFixer.fixLinearRing, gen_fixLinearRingElement_eq isValidF keep e v c hv, fix]
  cases Fix.fixLinearRingElement keep e c v <;> simp [createLinearRingEmpty]

/-- `fixPolygonElement`, up to `fixHoles`: with the buffer-by-zero oracle returning a geometry of kind `a` and the
with-holes oracle one of kind `w`, the regenerated control flow is the model's -/
theorem gen_fixPolygonElement_eq (fixRingF : Shape → Option Res) (withHolesF : Shape → Option Res → Option Res)
    (keep se : Bool) (a w : Area) (c n : Nat)
    (hr : fixRingF (.polygon se a c n w) = some a.res)
    (hw : withHolesF (.polygon se a c n w) (some a.res) = some w.res) :
    GeometryFixer.fixPolygonElement fixRingF withHolesF keep () (.polygon se a c n w)
      = Fix.fixPolygonElement keep se a c n w := by
  have hl := gen_fixLineStringElement_eq keep se c
  cases a <;> cases keep <;> simp only [Area.res] at hr hw <;>
    simp [GeometryFixer.fixPolygonElement, Fix.fixPolygonElement, hr, hw, resIsEmpty, Area.res, Res.isEmpty, Shape.nHoles,
      createLineOfShell, Shape.shellAsLine, hl] <;>
    (try split) <;> simp_all [Area.res]

theorem gen_fixPolygon_eq (fixRingF : Shape → Option Res) (withHolesF : Shape → Option Res → Option Res)
    (keep se : Bool) (a w : Area) (c n : Nat)
    (hr : fixRingF (.polygon se a c n w) = some a.res)
    (hw : withHolesF (.polygon se a c n w) (some a.res) = some w.res) :
    GeometryFixer.fixPolygon fixRingF withHolesF keep () (.polygon se a c n w) = some (fix keep (.polygon se a c n w)) := by
  simp only [GeometryFixer.fixPolygon, gen_fixPolygonElement_eq fixRingF withHolesF keep se a w c n hr hw, fix]
  cases Fix.fixPolygonElement keep se a c n w <;> simp [createPolygonEmpty]

/-- the hypotheses on the oracles, for a shape -/
def OraclesAgree (isValidF : Option Res → Bool) (fixRingF : Shape → Option Res) (withHolesF : Shape → Option Res → Option Res) :
    Shape → Prop
  | .ring _ _ v => isValidF (some (.atom .linearRing false)) = v
  | .polygon se a c n w => fixRingF (.polygon se a c n w) = some a.res ∧ withHolesF (.polygon se a c n w) (some a.res) = some w.res
  | _ => True

/-- **`GeometryFixer::getResult`, atomic inputs**: the regenerated dispatch + per-type functions compute the model's `fix` -/
theorem gen_getResult_atomic (isValidF : Option Res → Bool) (fixRingF : Shape → Option Res)
    (withHolesF : Shape → Option Res → Option Res) (mp ml my gc : Shape → Option Res) (keep : Bool) (s : Shape)
    (hs : s.ty = .point ∨ s.ty = .lineString ∨ s.ty = .linearRing ∨ s.ty = .polygon)
    (ho : OraclesAgree isValidF fixRingF withHolesF s) :
    GeometryFixer.getResult isValidF fixRingF withHolesF mp ml my gc keep () s = .ok (some (fix keep s)) := by
  cases s with
  | point e v =>
    simp [GeometryFixer.getResult, Shape.numGeometries, Shape.ty, gen_fixPoint_eq, fix, pure, Except.pure]
  | line e c =>
    simp [GeometryFixer.getResult, Shape.numGeometries, Shape.ty, gen_fixLineString_eq, pure, Except.pure]
  | ring e c v =>
    simp [GeometryFixer.getResult, Shape.numGeometries, Shape.ty, gen_fixLinearRing_eq isValidF keep e v c ho, pure, Except.pure]
  | polygon se a c n w =>
    simp [GeometryFixer.getResult, Shape.numGeometries, Shape.ty, gen_fixPolygon_eq fixRingF withHolesF keep se a w c n ho.1 ho.2,
      pure, Except.pure]
  | multiPoint _ => simp [Shape.ty] at hs
  | multiLine _ => simp [Shape.ty] at hs
  | multiPolygon _ _ => simp [Shape.ty] at hs
  | collection _ => simp [Shape.ty] at hs

/-- **`GeometryFixer::getResult`, Multi* and collections**: an input without elements is cloned (the model's empty result of
the same type), any other goes to the element loop of its own type (`fixMultiPoint`, `fixMultiLineString`,
`fixMultiPolygon`, `fixCollection` — modelled by hand in `fix`, tied by the correspondence stream) -/
theorem gen_getResult_multi (isValidF : Option Res → Bool) (fixRingF : Shape → Option Res)
    (withHolesF : Shape → Option Res → Option Res) (mp ml my gc : Shape → Option Res) (keep : Bool) (s : Shape) :
    GeometryFixer.getResult isValidF fixRingF withHolesF mp ml my gc keep () s
      = .ok (match s with
        | .multiPoint ps => if ps.isEmpty then some (fix keep s) else mp s
        | .multiLine ls => if ls.isEmpty then some (fix keep s) else ml s
        | .multiPolygon ps _ => if ps.isEmpty then some (fix keep s) else my s
        | .collection gs => if gs.isEmpty then some (fix keep s) else gc s
        | _ => (GeometryFixer.getResult isValidF fixRingF withHolesF mp ml my gc keep () s).toOption.join) := by
  cases s with
  | multiPoint ps => cases ps <;> simp [GeometryFixer.getResult, Shape.numGeometries, Shape.ty, Shape.cloneEmpty, fix, pure, Except.pure]
  | multiLine ps => cases ps <;> simp [GeometryFixer.getResult, Shape.numGeometries, Shape.ty, Shape.cloneEmpty, fix, pure, Except.pure]
  | multiPolygon ps u => cases ps <;> simp [GeometryFixer.getResult, Shape.numGeometries, Shape.ty, Shape.cloneEmpty, fix, pure, Except.pure]
  | collection ps => cases ps <;> simp [GeometryFixer.getResult, Shape.numGeometries, Shape.ty, Shape.cloneEmpty, fix, pure, Except.pure]
  | point e v => simp [GeometryFixer.getResult, Shape.numGeometries, Shape.ty, pure, Except.pure, Except.toOption]
  | line e c => simp [GeometryFixer.getResult, Shape.numGeometries, Shape.ty, pure, Except.pure, Except.toOption]
  | ring e c v => simp [GeometryFixer.getResult, Shape.numGeometries, Shape.ty, pure, Except.pure, Except.toOption]
  | polygon se a c n w => simp [GeometryFixer.getResult, Shape.numGeometries, Shape.ty, pure, Except.pure, Except.toOption]

/-- `getResult` never throws on the eight types of the model (the `default:` branch is for curved types) -/
theorem gen_getResult_total (isValidF : Option Res → Bool) (fixRingF : Shape → Option Res)
    (withHolesF : Shape → Option Res → Option Res) (mp ml my gc : Shape → Option Res) (keep : Bool) (s : Shape) :
    ∃ r, GeometryFixer.getResult isValidF fixRingF withHolesF mp ml my gc keep () s = .ok r := by
  cases s <;> simp [GeometryFixer.getResult, Shape.ty, pure, Except.pure] <;> split <;> simp

/-! ## the element loops (regenerated as `…Loop`) and the knot -/

/-- `fixCollection`: every element goes through a fixer of its own with the SAME keep-collapsed setting (`getResultOf` is the
recursive `elemFixer.getResult()`; before the fix of finding F5 this was the static `fix`, i.e. `getResultOf (g, false)`) -/
theorem gen_fixCollectionLoop_eq (getResultF : Fixer → Option Res) (keep : Bool) (gs : List Shape) (hne : gs ≠ [])
    (hrec : ∀ g, getResultF (g, keep) = some (fix keep g)) :
    GeometryFixer.fixCollectionLoop getResultF keep () (.collection gs) = some (fix keep (.collection gs)) := by
  have hloop := forIn_range'_pointwise (stepCollect (fun a => some (fix keep a))) gs
  simp only [GeometryFixer.fixCollectionLoop, Shape.numGeometries, Std.Legacy.Range.forIn_eq_forIn_range', Std.Legacy.Range.size,
    Nat.sub_zero, Nat.add_sub_cancel, Nat.div_one]
  rw [hloop _ 0 [] (by
    intro i hi b
    simp [elemAt_getElem (.collection gs) i (by simpa [Shape.elems] using hi), Shape.elems, Fixer.mk', Fixer.setKeepCollapsed, hrec,
      stepCollect])]
  rw [forIn_collect]
  have hl : gs.isEmpty = false := by cases gs <;> simp_all
  have hres : Vec.results (List.map (fun a => some (fix keep a)) gs) = some (List.map (fix keep) gs) := by
    have := results_map_some (gs.map (fix keep)); simpa [List.map_map, Function.comp_def] using this
  simp [createGeometryCollectionOf, fix, hl, fixList_eq_map, hres]

/-- `fixMultiPoint`: the loop over the (point) elements is the model's `filterMap` of `fixPointElement` -/
theorem gen_fixMultiPointLoop_eq (keep : Bool) (ps : List Shape) (hne : ps ≠ []) (hp : ∀ p ∈ ps, p.isPointLike = true) :
    GeometryFixer.fixMultiPointLoop keep () (.multiPoint ps) = some (fix keep (.multiPoint ps)) := by
  have hloop := forIn_range'_pointwise (stepFilter Shape.pointElem) ps
  simp only [GeometryFixer.fixMultiPointLoop, Shape.numGeometries, Std.Legacy.Range.forIn_eq_forIn_range', Std.Legacy.Range.size,
    Nat.sub_zero, Nat.add_sub_cancel, Nat.div_one]
  rw [hloop _ 0 [] (by
    intro i hi b
    simp only [Nat.zero_add]
    rw [elemAt_getElem (.multiPoint ps) i (by simpa [Shape.elems] using hi)]
    simp only [Shape.elems]
    have hpl := hp ps[i] (List.getElem_mem hi)
    obtain ⟨e, v, hx⟩ : ∃ e v, ps[i] = Shape.point e v := by
      cases hx : ps[i] <;> simp [hx, Shape.isPointLike] at hpl
      exact ⟨_, _, rfl⟩
    simp only [hx, gen_fixPointElement_eq, Shape.pointElem, Shape.emptyFlag, stepFilter]
    cases e <;> cases v <;> rfl)]
  rw [forIn_filter]
  have hl : ps.isEmpty = false := by cases ps <;> simp_all
  simp [createMultiPointOf, fix, hl, results_map_some]

/-- `fixMultiLineString`: survivors of `fixLineStringElement`, one survivor returned as itself, a GeometryCollection when a
survivor is not a LineString (a kept collapse), a MultiLineString otherwise -/
theorem gen_fixMultiLineStringLoop_eq (keep : Bool) (ls : List Shape) (hne : ls ≠ []) (hp : ∀ l ∈ ls, l.isLineLike = true) :
    GeometryFixer.fixMultiLineStringLoop keep () (.multiLine ls) = some (fix keep (.multiLine ls)) := by
  have hloop := forIn_range'_pointwise (stepLines (Shape.lineElem keep)) ls
  simp only [GeometryFixer.fixMultiLineStringLoop, Shape.numGeometries, Std.Legacy.Range.forIn_eq_forIn_range', Std.Legacy.Range.size,
    Nat.sub_zero, Nat.add_sub_cancel, Nat.div_one]
  rw [hloop _ 0 ([], false) (by
    intro i hi b
    simp only [Nat.zero_add]
    rw [elemAt_getElem (.multiLine ls) i (by simpa [Shape.elems] using hi)]
    simp only [Shape.elems]
    have hpl := hp ls[i] (List.getElem_mem hi)
    obtain ⟨e, c, hx⟩ : ∃ e c, ls[i] = Shape.line e c := by
      cases hx : ls[i] <;> simp [hx, Shape.isLineLike] at hpl
      exact ⟨_, _, rfl⟩
    simp only [hx, gen_fixLineStringElement_eq, Shape.lineElem, Shape.emptyFlag, stepLines]
    cases e
    · cases hr : Fix.fixLineStringElement keep false c with
      | none => simp
      | some r =>
        by_cases ht : r.ty = Ty.lineString
        · simp [resTy, ht]
        · have hb : (r.ty != Ty.lineString) = true := by simpa [bne_iff_ne] using ht
          simp [resTy, ht, hb]
    · simp [Fix.fixLineStringElement])]
  rw [forIn_lines]
  have hl : ls.isEmpty = false := by cases ls <;> simp_all
  simp only [fix, hl]
  generalize List.filterMap (Shape.lineElem keep) ls = fixed
  match fixed with
  | [] => simp [Vec.size, createMultiLineStringOf, Vec.results]
  | [one] => simp [Vec.size, Vec.at]
  | a :: b :: r =>
    have hres : Vec.results (some a :: some b :: List.map some r) = some (a :: b :: r) := by
      simpa using results_map_some (a :: b :: r)
    by_cases hany : ((a :: b :: r).any fun x => x.ty != Ty.lineString) = true
    · simp [Vec.size, hany, createGeometryCollectionOf, hres]
    · simp [Vec.size, hany, createMultiLineStringOf, hres]

/-- `fixMultiPolygon`: `unionOf` is the overlay union of the fixed elements; the model records the type it returns -/
theorem gen_fixMultiPolygonLoop_eq (fixRingF : Shape → Option Res) (withHolesF : Shape → Option Res → Option Res)
    (unionF : Option Res → Option Res) (iv : Option Res → Bool) (keep : Bool) (ps : List Shape) (u : Ty) (hne : ps ≠ [])
    (hp : ∀ p ∈ ps, p.isPolygonLike = true ∧ OraclesAgree iv fixRingF withHolesF p)
    (hu : ∀ rs : List Res, rs ≠ [] → unionF (some (.coll rs)) = some (.atom u false)) :
    GeometryFixer.fixMultiPolygonLoop fixRingF withHolesF unionF keep () (.multiPolygon ps u) = some (fix keep (.multiPolygon ps u)) := by
  have hloop := forIn_range'_pointwise (stepFilter (fun p => (Shape.polyElem keep p).filter (fun r => !r.isEmpty))) ps
  simp only [GeometryFixer.fixMultiPolygonLoop, Shape.numGeometries, Std.Legacy.Range.forIn_eq_forIn_range', Std.Legacy.Range.size,
    Nat.sub_zero, Nat.add_sub_cancel, Nat.div_one]
  rw [hloop _ 0 [] (by
    intro i hi b
    simp only [Nat.zero_add]
    rw [elemAt_getElem (.multiPolygon ps u) i (by simpa [Shape.elems] using hi)]
    simp only [Shape.elems]
    have hpl := hp ps[i] (List.getElem_mem hi)
    obtain ⟨se, a, c, n, w, hx⟩ : ∃ se a c n w, ps[i] = Shape.polygon se a c n w := by
      cases hx : ps[i] <;> simp [hx, Shape.isPolygonLike] at hpl
      exact ⟨_, _, _, _, _, rfl⟩
    rw [hx] at hpl
    simp only [hx, gen_fixPolygonElement_eq fixRingF withHolesF keep se a w c n hpl.2.1 hpl.2.2, Shape.polyElem, stepFilter]
    cases hr : Fix.fixPolygonElement keep se a c n w with
    | none => simp
    | some r => cases he : r.isEmpty <;> simp [resIsEmpty, he, Option.filter])]
  rw [forIn_filter]
  have hl : ps.isEmpty = false := by cases ps <;> simp_all
  simp only [fix, hl]
  rw [← List.filter_filterMap]
  generalize List.filter (fun r => !r.isEmpty) (List.filterMap (Shape.polyElem keep) ps) = fixed
  cases fixed with
  | nil => simp [Vec.empty, createMultiPolygonEmpty]
  | cons x xs =>
    have hres : Vec.results (some x :: List.map some xs) = some (x :: xs) := by simpa using results_map_some (x :: xs)
    simp [Vec.empty, createGeometryCollectionOf, hres, hu (x :: xs) (by simp)]

/-- what one level of `getResult` needs of its input: the elements of a Multi* are of the right kind, the oracles agree with
the shape's recorded facts -/
def Level (iv : Option Res → Bool) (fixRingF : Shape → Option Res) (withHolesF : Shape → Option Res → Option Res)
    (unionF : Option Res → Option Res) : Shape → Prop
  | .multiPoint ps => ∀ p ∈ ps, p.isPointLike = true
  | .multiLine ls => ∀ l ∈ ls, l.isLineLike = true
  | .multiPolygon ps u => (∀ p ∈ ps, p.isPolygonLike = true ∧ OraclesAgree iv fixRingF withHolesF p)
      ∧ (∀ rs : List Res, rs ≠ [] → unionF (some (.coll rs)) = some (.atom u false))
  | .collection _ => True
  | s => OraclesAgree iv fixRingF withHolesF s

/-- **`GeometryFixer::getResult` = `fix`, one level**: the regenerated `getResult`, with the four regenerated loops in place of
its loop oracles, computes the model's `fix keep s` for every shape — provided the recursive call inside `fixCollection`
does (`hrec`), i.e. by induction on the nesting depth the whole regenerated fixer is the model. -/
theorem gen_getResult_eq_fix (iv : Option Res → Bool) (fixRingF : Shape → Option Res)
    (withHolesF : Shape → Option Res → Option Res) (unionF : Option Res → Option Res) (getResultF : Fixer → Option Res)
    (keep : Bool) (s : Shape) (hl : Level iv fixRingF withHolesF unionF s)
    (hrec : ∀ g, getResultF (g, keep) = some (fix keep g)) :
    GeometryFixer.getResult iv fixRingF withHolesF
      (GeometryFixer.fixMultiPointLoop keep ()) (GeometryFixer.fixMultiLineStringLoop keep ())
      (GeometryFixer.fixMultiPolygonLoop fixRingF withHolesF unionF keep ()) (GeometryFixer.fixCollectionLoop getResultF keep ())
      keep () s = .ok (some (fix keep s)) := by
  cases s with
  | point e v => exact gen_getResult_atomic _ _ _ _ _ _ _ keep _ (by simp [Shape.ty]) hl
  | line e c => exact gen_getResult_atomic _ _ _ _ _ _ _ keep _ (by simp [Shape.ty]) hl
  | ring e c v => exact gen_getResult_atomic _ _ _ _ _ _ _ keep _ (by simp [Shape.ty]) hl
  | polygon se a c n w => exact gen_getResult_atomic _ _ _ _ _ _ _ keep _ (by simp [Shape.ty]) hl
  | multiPoint ps =>
    rw [gen_getResult_multi]
    cases ps with
    | nil => simp
    | cons p ps => simp [gen_fixMultiPointLoop_eq keep (p :: ps) (by simp) hl]
  | multiLine ls =>
    rw [gen_getResult_multi]
    cases ls with
    | nil => simp
    | cons l ls => simp [gen_fixMultiLineStringLoop_eq keep (l :: ls) (by simp) hl]
  | multiPolygon ps u =>
    rw [gen_getResult_multi]
    cases ps with
    | nil => simp
    | cons p ps => simp [gen_fixMultiPolygonLoop_eq fixRingF withHolesF unionF iv keep (p :: ps) u (by simp) hl.1 hl.2]
  | collection gs =>
    rw [gen_getResult_multi]
    cases gs with
    | nil => simp
    | cons g gs => simp [gen_fixCollectionLoop_eq getResultF keep (g :: gs) (by simp) hrec]

/-- the regression reference of finding F5: with the static `fix` inside `fixCollection` (the recursive call made with
keep-collapsed off) the same regenerated loop yields `fixDropping` on the witness — and not `fix` -/
example : GeometryFixer.fixCollectionLoop (fun f => some (fix false f.1)) true () (.collection [.line false 1])
    = some (fixDropping true (.collection [.line false 1])) := by
  simp [GeometryFixer.fixCollectionLoop, Shape.numGeometries, Shape.elemAt, Shape.elems, Fixer.mk', Fixer.setKeepCollapsed, Vec.push,
    createGeometryCollectionOf, Vec.results, List.range']
  rfl

/-! non-vacuity of the oracle hypotheses: constant oracles that satisfy them for a concrete polygon / ring -/
example : GeometryFixer.getResult (fun _ => true) (fun _ => some (Area.res .polygon)) (fun _ _ => some (Area.res .multiPolygon))
    (fun _ => none) (fun _ => none) (fun _ => none) (fun _ => none) true () (.polygon false .polygon 5 2 .multiPolygon)
    = .ok (some (.atom .multiPolygon false)) :=
  gen_getResult_atomic _ _ _ _ _ _ _ true _ (by simp [Shape.ty]) ⟨rfl, rfl⟩
example : GeometryFixer.getResult (fun _ => false) (fun _ => none) (fun _ _ => none)
    (fun _ => none) (fun _ => none) (fun _ => none) (fun _ => none) false () (.ring false 7 false)
    = .ok (some (.atom .lineString false)) :=
  gen_getResult_atomic _ _ _ _ _ _ _ false _ (by simp [Shape.ty]) rfl

end GeosModel.C17Gen
