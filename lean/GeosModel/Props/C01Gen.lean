import GeosModel.Base.IM
import GeosModel.Generated.IMPreds
/-!
# C01 — the regenerated `geom::IntersectionMatrix` predicates are the model the theorems are about

`Generated/IMPreds.lean` is rewritten from `src/geom/IntersectionMatrix.cpp` by `translate/im_preds.py` on every run
(statement by statement; the translator refuses anything outside its small fragment).  The theorems below prove each
regenerated function equal to the hand-written definition of `Base/IM` — the object of `named_*_eq_pattern`,
`consistent_of_true_matrix` (C02) and of the `immatrix` correspondence stream — for **every** matrix (arbitrary integer
entries), every pair of dimension arguments and every pattern symbol.  A semantic change of the C++ therefore breaks one
of these proofs; the check then enumerates the finite domain for an argument on which the two differ.
-/
namespace GeosModel.C01Gen
open GeosModel GeosModel.Generated

theorem gen_matches_eq (v : Int) (c : Char) : IMPreds.matchesDim v c = IM.matchesSym v c := by
  unfold IMPreds.matchesDim IM.matchesSym
  repeat' split
  all_goals simp_all

theorem gen_T_eq (v : Int) : IMPreds.matchesDim v 'T' = IM.T v := by
  rw [gen_matches_eq]; rfl

theorem gen_isDisjoint_eq (m : IM) : IMPreds.isDisjoint m = m.isDisjoint := by
  cases m; simp [IMPreds.isDisjoint, IM.isDisjoint, IM.get]

theorem gen_isIntersects_eq (m : IM) : IMPreds.isIntersects m = m.isIntersects := by
  unfold IMPreds.isIntersects IM.isIntersects; rw [gen_isDisjoint_eq]

theorem gen_isWithin_eq (m : IM) : IMPreds.isWithin m = m.isWithin := by
  unfold IMPreds.isWithin IM.isWithin; simp only [gen_T_eq]; cases m; simp [IM.get]

theorem gen_isContains_eq (m : IM) : IMPreds.isContains m = m.isContains := by
  unfold IMPreds.isContains IM.isContains; simp only [gen_T_eq]; cases m; simp [IM.get]

theorem gen_isCovers_eq (m : IM) : IMPreds.isCovers m = m.isCovers := by
  unfold IMPreds.isCovers IM.isCovers IM.hasPointInCommon; simp only [gen_T_eq]; cases m; simp [IM.get]

theorem gen_isCoveredBy_eq (m : IM) : IMPreds.isCoveredBy m = m.isCoveredBy := by
  unfold IMPreds.isCoveredBy IM.isCoveredBy IM.hasPointInCommon; simp only [gen_T_eq]; cases m; simp [IM.get]

theorem gen_isEquals_eq (m : IM) (a b : Int) : IMPreds.isEquals m a b = m.isEquals a b := by
  unfold IMPreds.isEquals IM.isEquals; simp only [gen_T_eq]; cases m; simp [IM.get]

theorem gen_isCrosses_eq (m : IM) (a b : Int) : IMPreds.isCrosses m a b = m.isCrosses a b := by
  unfold IMPreds.isCrosses IM.isCrosses; simp only [gen_T_eq]; cases m; simp [IM.get]

theorem gen_isOverlaps_eq (m : IM) (a b : Int) : IMPreds.isOverlaps m a b = m.isOverlaps a b := by
  unfold IMPreds.isOverlaps IM.isOverlaps; simp only [gen_T_eq]; cases m; simp [IM.get]

theorem gen_isTouches_eq (m : IM) (a b : Int) : IMPreds.isTouches m a b = m.isTouches a b := by
  unfold IMPreds.isTouches IMPreds.isTouchesBody IM.isTouches
  simp only [gen_T_eq]
  cases m
  by_cases h : a > b
  · have h' : ¬ b > a := by omega
    simp [IM.get, h, h']
  · simp [IM.get, h]

end GeosModel.C01Gen
