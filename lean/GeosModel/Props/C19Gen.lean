import GeosModel.Model.LinRef.Project
import GeosModel.Generated.LinRef
import GeosModel.Proofs.CxxLoop
/-!
# C19 — the regenerated linear-referencing arithmetic is the model the C19 theorems are about

`Generated/LinRef.lean` is rewritten from the current C++ (`src/linearref/LinearLocation.cpp`, `LengthLocationMap.cpp`,
`LengthIndexedLine.cpp`, `LengthIndexOfPoint.cpp`, `src/geom/LineSegment.cpp`, `src/algorithm/Distance.cpp`,
`include/geos/geom/Coordinate.h`, `LineSegment.h`) by `translate/cxx2lean.py` (spec `linref`) on every run.  The C++ computes
with `double`; the regenerated definitions are generic over the carrier (`std::sqrt` is the abstract parameter `sqrt`) and
are instantiated here with exact rationals, the carrier of the theorems of `Props/C19.lean`, and proved equal to the
hand-written models of `Model/LinRef/Map.lean` and `Model/LinRef/Project.lean` — for all arguments.

Where the model takes pre-digested facts the connecting hypotheses are explicit:
* `len g = totalLen l` — `linearGeom->getLength()` is the model's total length;
* `(pos g).map (toItem sq) = items l` — the positions visited by `LinearIterator` (component, vertex, end-of-line flag,
  segment end points) are the model's `items`, a segment's length being `p1.distance(p0)`;
* `e g = endLoc l` — `LinearLocation::getEndLocation`; `fwd`, `res` — `getLocationForward`, `resolveHigher` as used by
  `getLocation`;
* `DoubleInfinity` exceeds every point–segment distance that occurs (the model uses `Option` for the initial +∞).
The `while (it.hasNext()) { …; it.next(); }` loops are regenerated as `for it in positions g do …`; their proofs go through
`CxxLoop.loopFn` with the loop body kept abstract (`*_loop` lemmas), so the body may be rewritten freely in the C++.
-/
namespace GeosModel.C19Gen
open GeosModel GeosModel.LinRef GeosModel.Generated GeosModel.CxxLoop

/-- closes what `simp` leaves of a bridge goal: case split on the remaining `if`s, then arithmetic -/
macro "bridge_finish" : tactic => `(tactic| all_goals ((repeat' split) <;> (try simp_all) <;> (try grind)))

def xy (p : Cxx.XY Rat) : P2 Rat := ⟨p.x, p.y⟩
@[simp] theorem xy_x (p : Cxx.XY Rat) : (xy p).x = p.x := rfl
@[simp] theorem xy_y (p : Cxx.XY Rat) : (xy p).y = p.y := rfl
theorem xy_xyz (p : LinRefGen.XYZ Rat) : xy p.xy = ⟨p.x, p.y⟩ := rfl
@[simp] theorem rat_abs (a : Rat) : Cxx.Ring.abs a = if a < 0 then -a else a := rfl
@[simp] theorem rat_beq (a b : Rat) : (a == b) = decide (a = b) := by
  rw [Bool.eq_iff_iff]; simp

theorem gen_equals2D_eq (x y : Rat) (b : Cxx.XY Rat) : LinRefGen.equals2D x y b = (⟨x, y⟩ : P2 Rat).eq2 (xy b) := by
  simp [LinRefGen.equals2D, P2.eq2, Cxx.ne]

theorem gen_ptDistance_eq (sq : Rat → Rat) (x y : Rat) (b : Cxx.XY Rat) :
    LinRefGen.ptDistance sq x y b = dist sq ⟨x, y⟩ (xy b) := by
  simp [LinRefGen.ptDistance, dist, d2]

theorem gen_pointToSegment_eq (sq : Rat → Rat) (p A B : Cxx.XY Rat) :
    LinRefGen.pointToSegment sq p A B = pointToSegment sq (xy p) (xy A) (xy B) := by
  unfold LinRefGen.pointToSegment LinRef.pointToSegment
  simp [gen_equals2D_eq, gen_ptDistance_eq, Cxx.ge, absv, xy] <;> grind

theorem gen_projectionFactor_eq (p0 p1 p : Cxx.XY Rat) :
    LinRefGen.projectionFactor p0 p1 p = projectionFactor (xy p0) (xy p1) (xy p) := by
  unfold LinRefGen.projectionFactor LinRef.projectionFactor
  simp [gen_equals2D_eq, xy]
  bridge_finish

theorem gen_lsDistance_eq (sq : Rat → Rat) (p0 p1 p : Cxx.XY Rat) :
    LinRefGen.lsDistance sq p0 p1 p = pointToSegment sq (xy p) (xy p0) (xy p1) := by
  simp [LinRefGen.lsDistance, gen_pointToSegment_eq]

theorem gen_lsLength_eq (sq : Rat → Rat) (p0 p1 : Cxx.XY Rat) :
    LinRefGen.lsLength sq p0 p1 = dist sq (xy p0) (xy p1) := by
  simp [LinRefGen.lsLength, gen_ptDistance_eq, xy]

theorem gen_segmentNearestMeasure_eq (sq : Rat → Rat) (s : LinRefGen.Seg Rat) (p : LinRefGen.XYZ Rat) (start : Rat) :
    LinRefGen.segmentNearestMeasure sq s p start = segmentNearestMeasure sq (xy s.p0) (xy s.p1) (xy p.xy) start := by
  unfold LinRefGen.segmentNearestMeasure LinRef.segmentNearestMeasure
  simp [gen_projectionFactor_eq, gen_lsLength_eq]
  bridge_finish

theorem gen_segmentFraction_eq (p0 p1 p : Cxx.XY Rat) :
    LinRefGen.segmentFraction p0 p1 p = segmentFraction (xy p0) (xy p1) (xy p) := by
  unfold LinRefGen.segmentFraction LinRef.segmentFraction
  simp [gen_projectionFactor_eq, Cxx.gt]
  bridge_finish

/-- `LinearLocation::pointAlongSegmentByFraction` (x and y; the model has no z) -/
theorem gen_pointAlong_eq (p0 p1 : LinRefGen.XYZ Rat) (f : Rat) :
    xy (LinRefGen.pointAlongSegmentByFraction p0 p1 f).xy = pointAlong (xy p0.xy) (xy p1.xy) f := by
  unfold LinRefGen.pointAlongSegmentByFraction LinRef.pointAlong
  simp [Cxx.ge]
  (repeat' split) <;> simp [LinRefGen.XYZ.xy, xy]

/-- `LinearLocation(c, s, f)` = member initialisation + `normalize()` (the constructor's shape is checked by the translator) -/
theorem gen_normalize_eq (c s : Nat) (f : Rat) :
    (⟨c, (LinRefGen.normalize s f).1, (LinRefGen.normalize s f).2⟩ : Loc Rat) = mkLoc c s f := by
  unfold LinRefGen.normalize mkLoc
  simp [Cxx.gt]
  bridge_finish

theorem gen_isVertex_eq (a : Loc Rat) : LinRefGen.isVertex a.frac = a.isVertex := by
  simp [LinRefGen.isVertex, Loc.isVertex, Cxx.ge]

/-- `a.compareTo(b) < 0` is the model's strict order `Loc.lt` … -/
theorem gen_compareTo_lt (a b : Loc Rat) :
    decide (LinRefGen.compareTo a.comp a.seg a.frac b < 0) = a.lt b := by
  unfold LinRefGen.compareTo Loc.lt
  simp [Cxx.gt]
  bridge_finish

/-- … and `a.compareTo(b) > 0` is `b < a` (so `compareTo = 0` exactly when neither holds) -/
theorem gen_compareTo_gt (a b : Loc Rat) :
    decide (LinRefGen.compareTo a.comp a.seg a.frac b > 0) = b.lt a := by
  unfold LinRefGen.compareTo Loc.lt
  simp [Cxx.gt]
  bridge_finish

theorem gen_compareLocationValues_lt (a : Loc Rat) (c v : Nat) (f : Rat) :
    decide (LinRefGen.compareLocationValues a.comp a.seg a.frac c v f < 0) = a.lt ⟨c, v, f⟩ := by
  unfold LinRefGen.compareLocationValues Loc.lt
  simp [Cxx.gt]
  bridge_finish

variable {G : Type}

theorem gen_positiveIndex_eq (len : G → Rat) (g : G) (l : Line Rat) (hlen : len g = totalLen l) (i : Rat) :
    LinRefGen.positiveIndex len g i = positiveIndex l i := by
  simp [LinRefGen.positiveIndex, LinRef.positiveIndex, Cxx.ge, hlen]
  bridge_finish

theorem gen_clampIndex_eq (len : G → Rat) (g : G) (l : Line Rat) (hlen : len g = totalLen l) (i : Rat) :
    LinRefGen.clampIndex len g i = clampIndex l i := by
  unfold LinRefGen.clampIndex LinRef.clampIndex
  simp [gen_positiveIndex_eq len g l hlen, LinRefGen.getStartIndex, LinRefGen.getEndIndex, Cxx.gt, hlen]
  bridge_finish

theorem gen_getLocation_eq (len : G → Rat) (fwd : Rat → Loc Rat) (g : G) (l : Line Rat) (hlen : len g = totalLen l)
    (hfwd : ∀ x, fwd x = getLocationForward l x) (x : Rat) :
    LinRefGen.getLocation len fwd g x = getLocation l x := by
  unfold LinRefGen.getLocation LinRef.getLocation
  simp [hfwd, hlen]
  bridge_finish

theorem gen_getLocationR_eq (len : G → Rat) (fwd : Rat → Loc Rat) (res : Loc Rat → Loc Rat) (g : G) (l : Line Rat)
    (hlen : len g = totalLen l) (hfwd : ∀ x, fwd x = getLocationForward l x) (hres : ∀ a, res a = resolveHigher l a)
    (x : Rat) (lower : Bool) :
    LinRefGen.getLocationR len fwd res g x lower = getLocationR l x lower := by
  unfold LinRefGen.getLocationR LinRef.getLocationR LinRef.getLocation
  simp [hfwd, hlen, hres]
  bridge_finish

/-! ### the iterator loops -/

/-- a position of `LinearIterator` as an item of the model: a segment carries its length `p1.distance(p0)` -/
def toItem (sq : Rat → Rat) (p : LinRefGen.ItPos Rat) : Item Rat :=
  if p.eol then .eol p.c p.v else .seg p.c p.v (dist sq (xy p.p1.xy) (xy p.p0.xy))

/-! ### getLocationForward -/

def fwdStep (ℓ : Rat) (it : Item Rat) (s : Option (Loc Rat) × Rat) : ForInStep (Option (Loc Rat) × Rat) :=
  match it with
  | .eol c v => if s.2 == ℓ then .done (some (mkLoc c v 0), s.2) else .yield (none, s.2)
  | .seg c v len => if ℓ < s.2 + len then .done (some (mkLoc c v ((ℓ - s.2) / len)), s.2) else .yield (none, s.2 + len)

theorem getLocationForward_loop (ℓ : Rat) (sq : Rat → Rat)
    (F : LinRefGen.ItPos Rat → Option (Loc Rat) × Rat → Id (ForInStep (Option (Loc Rat) × Rat)))
    (hF : ∀ it s, (F it s).run = fwdStep ℓ (toItem sq it) s) (l : List (LinRefGen.ItPos Rat)) (tot : Rat) :
    (loopFn F l (none, tot)).1 = locFwdAux ℓ tot (l.map (toItem sq)) := by
  induction l generalizing tot with
  | nil => simp [loopFn, locFwdAux]
  | cons x xs ih =>
    simp only [loopFn, hF, List.map_cons]
    cases hx : toItem sq x with
    | seg c v len =>
      by_cases hc : ℓ < tot + len
      · simp [fwdStep, locFwdAux, hc]
      · simp [fwdStep, locFwdAux, hc]; exact ih _
    | eol c v =>
      by_cases hc : (tot == ℓ) = true
      · simp [fwdStep, locFwdAux, hc]
      · simp [fwdStep, locFwdAux, hc]; exact ih _

theorem gen_getLocationForward_eq (pos : G → List (LinRefGen.ItPos Rat)) (sq : Rat → Rat) (e : G → Loc Rat) (g : G) (l : Line Rat)
    (hpos : (pos g).map (toItem sq) = items l) (hend : e g = endLoc l) (x : Rat) :
    LinRefGen.getLocationForward pos sq e g x = getLocationForward l x := by
  unfold LinRefGen.getLocationForward LinRef.getLocationForward
  rw [← hpos]
  simp [forIn_eq_loopFn, startLoc]
  split
  · rfl
  · rw [getLocationForward_loop x sq _ (by intro it s; simp [fwdStep, toItem, gen_ptDistance_eq, gen_normalize_eq, Cxx.gt, xy_xyz]; bridge_finish) (pos g) 0]
    cases locFwdAux x 0 (List.map (toItem sq) (pos g)) <;> simp [hend]

/-! ### getLength -/

/-- one step of the loop of `getLength`, as the model `lenAux` does it; state = (returned value, totalLength) -/
def lenStep (a : Loc Rat) (it : Item Rat) (s : Option Rat × Rat) : ForInStep (Option Rat × Rat) :=
  match it with
  | .seg c v len => if a.comp == c && a.seg == v then .done (some (s.2 + len * a.frac), s.2) else .yield (none, s.2 + len)
  | .eol c _ => if a.comp == c then .done (some s.2, s.2) else .yield (none, s.2)

theorem getLength_loop (a : Loc Rat) (sq : Rat → Rat)
    (F : LinRefGen.ItPos Rat → Option Rat × Rat → Id (ForInStep (Option Rat × Rat)))
    (hF : ∀ it s, (F it s).run = lenStep a (toItem sq it) s) (l : List (LinRefGen.ItPos Rat)) (tot : Rat) :
    (∀ v, (loopFn F l (none, tot)).1 = some v → v = lenAux a tot (l.map (toItem sq))) ∧
    ((loopFn F l (none, tot)).1 = none → (loopFn F l (none, tot)).2 = lenAux a tot (l.map (toItem sq))) := by
  induction l generalizing tot with
  | nil => simp [loopFn, lenAux]
  | cons x xs ih =>
    simp only [loopFn, hF, List.map_cons]
    cases hx : toItem sq x with
    | seg c v len =>
      by_cases hc : (a.comp == c && a.seg == v) = true
      · simp [lenStep, lenAux, hc]
      · simp [lenStep, lenAux, hc]; exact ih _
    | eol c v =>
      by_cases hc : (a.comp == c) = true
      · simp [lenStep, lenAux, hc]
      · simp [lenStep, lenAux, hc]; exact ih _

theorem gen_getLength_eq (pos : G → List (LinRefGen.ItPos Rat)) (sq : Rat → Rat) (g : G) (l : Line Rat)
    (hpos : (pos g).map (toItem sq) = items l) (a : Loc Rat) :
    LinRefGen.getLength pos sq g a = getLength l a := by
  unfold LinRefGen.getLength LinRef.getLength
  rw [← hpos]
  simp [forIn_eq_loopFn]
  split
  · next r h =>
    exact (getLength_loop a sq _ (by intro it s; simp [lenStep, toItem, LinRefGen.getComponentIndex, LinRefGen.getSegmentIndex, LinRefGen.getSegmentFraction, gen_ptDistance_eq, xy_xyz]; bridge_finish) (pos g) 0).1 r h
  · next h =>
    exact (getLength_loop a sq _ (by intro it s; simp [lenStep, toItem, LinRefGen.getComponentIndex, LinRefGen.getSegmentIndex, LinRefGen.getSegmentFraction, gen_ptDistance_eq, xy_xyz]; bridge_finish) (pos g) 0).2 h

/-! ### indexOfFromStart -/

abbrev IdxSt := Rat × Rat × Rat × LinRefGen.Seg Rat

/-- one step of the loop of `indexOfFromStart` in the vocabulary of the model; state = (minDistance, ptMeasure,
segmentStartMeasure, seg) -/
def idxStep (sq : Rat → Rat) (p : P2 Rat) (m : Rat) (it : LinRefGen.ItPos Rat) (s : IdxSt) : ForInStep IdxSt :=
  if it.eol then .yield s
  else
    let a := xy it.p0.xy
    let b := xy it.p1.xy
    let segD := pointToSegment sq p a b
    let meas := segmentNearestMeasure sq a b p s.2.2.1
    if segD < s.1 ∧ m < meas then .yield (segD, meas, s.2.2.1 + dist sq a b, ⟨it.p0.xy, it.p1.xy⟩)
    else .yield (s.1, s.2.1, s.2.2.1 + dist sq a b, ⟨it.p0.xy, it.p1.xy⟩)

/-- the segments the iterator visits -/
def segsOf (l : List (LinRefGen.ItPos Rat)) : List (P2 Rat × P2 Rat) :=
  (l.filter (fun it => !it.eol)).map fun it => (xy it.p0.xy, xy it.p1.xy)

/-- `minDistance` of the code (initially `DoubleInfinity`) against the model's `Option` (initially `none`) -/
def InfRel (inf d : Rat) (o : Option Rat) : Prop := (o = none ∧ d = inf) ∨ o = some d

theorem indexOfFromStart_loop (sq : Rat → Rat) (p : P2 Rat) (m inf : Rat)
    (F : LinRefGen.ItPos Rat → IdxSt → Id (ForInStep IdxSt)) (hF : ∀ it s, (F it s).run = idxStep sq p m it s)
    (l : List (LinRefGen.ItPos Rat))
    (hinf : ∀ it ∈ l, it.eol = false → pointToSegment sq p (xy it.p0.xy) (xy it.p1.xy) < inf)
    (s : IdxSt) (o : Option Rat) (hrel : InfRel inf s.1 o) :
    (loopFn F l s).2.1 = (indexLoop sq p m (segsOf l) (o, s.2.1, s.2.2.1)).2.1 := by
  induction l generalizing s o with
  | nil => simp [loopFn, segsOf, indexLoop]
  | cons x xs ih =>
    have hxs : ∀ it ∈ xs, it.eol = false → pointToSegment sq p (xy it.p0.xy) (xy it.p1.xy) < inf :=
      fun it h => hinf it (List.mem_cons_of_mem _ h)
    simp only [loopFn, hF]
    by_cases he : x.eol = true
    · simp only [idxStep, he, if_true, segsOf, List.filter_cons, Bool.not_true, Bool.false_eq_true, if_false]
      exact ih hxs s o hrel
    · have he' : x.eol = false := by simpa using he
      have hx := hinf x (List.mem_cons_self ..) he'
      simp only [idxStep, he', Bool.false_eq_true, if_false, segsOf, List.filter_cons, Bool.not_false, if_true, List.map_cons, indexLoop]
      have hcl : closer o (pointToSegment sq p (xy x.p0.xy) (xy x.p1.xy)) = decide (pointToSegment sq p (xy x.p0.xy) (xy x.p1.xy) < s.1) := by
        rcases hrel with ⟨h1, h2⟩ | h1
        · simp [h1, h2, closer, hx]
        · simp [h1, closer]
      rw [hcl]
      by_cases hb : pointToSegment sq p (xy x.p0.xy) (xy x.p1.xy) < s.1 ∧ m < segmentNearestMeasure sq (xy x.p0.xy) (xy x.p1.xy) p s.2.2.1
      · have hb' : (decide (pointToSegment sq p (xy x.p0.xy) (xy x.p1.xy) < s.1) && decide (m < segmentNearestMeasure sq (xy x.p0.xy) (xy x.p1.xy) p s.2.2.1)) = true := by
          rw [decide_eq_true hb.1, decide_eq_true hb.2]; rfl
        simp only [hb, and_self, if_true]
        exact ih hxs _ _ (Or.inr rfl)
      · have hb' : (decide (pointToSegment sq p (xy x.p0.xy) (xy x.p1.xy) < s.1) && decide (m < segmentNearestMeasure sq (xy x.p0.xy) (xy x.p1.xy) p s.2.2.1)) = false := by
          simp only [Bool.and_eq_false_iff, decide_eq_false_iff_not]
          by_cases h1 : pointToSegment sq p (xy x.p0.xy) (xy x.p1.xy) < s.1
          · exact Or.inr (fun h2 => hb ⟨h1, h2⟩)
          · exact Or.inl h1
        simp only [hb, hb', if_false, Bool.false_eq_true]
        exact ih hxs _ _ hrel

/-- `LengthIndexOfPoint::indexOfFromStart(inputPt, minIndex)` = the model's `indexLoop` over the visited segments, when
`DoubleInfinity` exceeds every point–segment distance that occurs -/
theorem gen_indexOfFromStart_eq (pos : G → List (LinRefGen.ItPos Rat)) (sq : Rat → Rat) (g : G) (inf : Rat)
    (p : LinRefGen.XYZ Rat) (m : Rat)
    (hinf : ∀ it ∈ pos g, it.eol = false → pointToSegment sq (xy p.xy) (xy it.p0.xy) (xy it.p1.xy) < inf) :
    LinRefGen.indexOfFromStart pos sq g inf p m = (indexLoop sq (xy p.xy) m (segsOf (pos g)) (none, m, 0)).2.1 := by
  unfold LinRefGen.indexOfFromStart
  simp [forIn_eq_loopFn]
  exact indexOfFromStart_loop sq (xy p.xy) m inf _
    (by intro it s; simp [idxStep, gen_lsDistance_eq, gen_segmentNearestMeasure_eq, gen_lsLength_eq, Cxx.gt]; bridge_finish)
    (pos g) (by simpa using hinf) _ none (Or.inl ⟨rfl, rfl⟩)

/-! ### non-vacuity: the connecting hypotheses hold for a concrete line, and the regenerated code computes on it -/

/-- the positions `LinearIterator` visits on LINESTRING (0 0, 3 4, 3 10) -/
def pos3 : Unit → List (LinRefGen.ItPos Rat) := fun _ =>
  [⟨0, 0, false, ⟨0, 0, 0⟩, ⟨3, 4, 0⟩⟩, ⟨0, 1, false, ⟨3, 4, 0⟩, ⟨3, 10, 0⟩⟩, ⟨0, 2, true, ⟨3, 10, 0⟩, ⟨3, 10, 0⟩⟩]

/-- an exact square root on the two arguments that occur -/
def sq3 (x : Rat) : Rat := if x = 25 then 5 else if x = 36 then 6 else 0

example : (pos3 ()).map (toItem sq3) = items ([[5, 6]] : Line Rat) := by decide +kernel
example : LinRefGen.getLocationForward pos3 sq3 (fun _ => endLoc [[5, 6]]) () 8 = (⟨0, 1, 1/2⟩ : Loc Rat) := by
  rw [gen_getLocationForward_eq pos3 sq3 _ () [[5, 6]] (by decide +kernel) rfl]; decide +kernel
example : LinRefGen.getLength pos3 sq3 () ⟨0, 1, 1/2⟩ = 8 := by
  rw [gen_getLength_eq pos3 sq3 () [[5, 6]] (by decide +kernel)]; decide +kernel
example : LinRefGen.clampIndex (fun _ => (11 : Rat)) () (-3) = 8 ∧ totalLen ([[5, 6]] : Line Rat) = 11 := by
  constructor
  · rw [gen_clampIndex_eq (fun _ => (11 : Rat)) () [[5, 6]] (by decide +kernel)]; decide +kernel
  · decide +kernel

end GeosModel.C19Gen
