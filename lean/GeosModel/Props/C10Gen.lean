import GeosModel.Model.WKT.Cxx
import GeosModel.Generated.WktIO
/-!
# C10 — the regenerated decisions of `WKTWriter` / `WKTReader` / `OrdinateSet` are the ones the model is built from

`Generated/WktIO.lean` is rewritten from `src/io/WKTWriter.cpp`, `src/io/WKTReader.cpp`, `include/geos/io/OrdinateSet.h`,
`include/geos/io/WKTWriter.h` and `src/geom/PrecisionModel.cpp` by `translate/cxx2lean.py` (spec `wkt_io`, parser extensions
`translate/specs/t9_ext.py`) on every run, statement by statement.  Each theorem proves a regenerated function equal to the
piece of the hand-written model (`Model/WKT/Write.lean`, `Model/WKT/Read.lean`, `Model/Num/Fixed.lean`; vocabulary in
`Model/WKT/Cxx.lean`) that the theorems of `Props/C10.lean` are about — for **all** arguments.
-/
set_option linter.unusedSimpArgs false
set_option linter.unusedVariables false
namespace GeosModel.C10Gen
open GeosModel GeosModel.WKT GeosModel.Generated

/-! ## `OrdinateSet.h`: the bit set `m_value` behind the model's `Flags` -/

/-- `OrdinateSet::hasZ()` on the representation `X|Y|Z?|M?` -/
theorem gen_hasZ_eq (f : Flags) : WktIO.hasZ f.value = f.hasZ := by
  rcases f with ⟨z, m, ca⟩; cases z <;> cases m <;> cases ca <;> decide

theorem gen_hasM_eq (f : Flags) : WktIO.hasM f.value = f.hasM := by
  rcases f with ⟨z, m, ca⟩; cases z <;> cases m <;> cases ca <;> decide

/-- `OrdinateSet::size()` = 2 + Z + M -/
theorem gen_size_eq (f : Flags) : WktIO.size f.value = f.size := by
  rcases f with ⟨z, m, ca⟩; cases z <;> cases m <;> cases ca <;> decide

/-- `OrdinateSet::setZ(value)`: toggles the Z bit when it differs and changes are allowed, throws `GEOSException` when
they are not, leaves M and the latch alone -/
theorem gen_setZ_eq (f : Flags) (v : Bool) : WktIO.setZ f.ca f.value v = (f.setZ v).map Flags.value := by
  rcases f with ⟨z, m, ca⟩
  cases z <;> cases m <;> cases ca <;> cases v <;>
    simp [WktIO.setZ, WktIO.setM, WktIO.hasZ, WktIO.hasM, Flags.setZ, Flags.setM, Flags.value, Except.map, pure, Except.pure, bind,
      Except.bind, throw, throwThe, MonadExceptOf.throw] <;> rfl

theorem gen_setM_eq (f : Flags) (v : Bool) : WktIO.setM f.ca f.value v = (f.setM v).map Flags.value := by
  rcases f with ⟨z, m, ca⟩
  cases z <;> cases m <;> cases ca <;> cases v <;>
    simp [WktIO.setZ, WktIO.setM, WktIO.hasZ, WktIO.hasM, Flags.setZ, Flags.setM, Flags.value, Except.map, pure, Except.pure, bind,
      Except.bind, throw, throwThe, MonadExceptOf.throw] <;> rfl

/-- the representation is faithful: equal bit sets are equal ordinates (`operator==` compares `m_value` only) -/
theorem value_inj (a b : Flags) : (a.value = b.value) = (a.sameDims b = true) := by
  rcases a with ⟨z, m, ca⟩; rcases b with ⟨z', m', ca'⟩
  cases z <;> cases m <;> cases z' <;> cases m' <;> simp [Flags.value, Flags.sameDims]

/-! ## `WKTWriter` configuration -/

/-- `setRoundingPrecision`: everything below −1 is −1 -/
theorem gen_setRoundingPrecision_eq (rp0 p : Int) : WktIO.setRoundingPrecision rp0 p = clampPrecision p := by
  unfold WktIO.setRoundingPrecision clampPrecision
  simp

/-- `setOutputDimension`: 2, 3, 4 are stored, anything else is an `IllegalArgumentException` -/
theorem gen_setOutputDimension_eq (d0 d : Nat) : WktIO.setOutputDimension d0 d = checkOutputDimension d := by
  unfold WktIO.setOutputDimension checkOutputDimension
  by_cases h : d < 2 ∨ d > 4
  · rcases h with h | h <;> simp [h, throw, throwThe, MonadExceptOf.throw, bind, Except.bind]
  · have h1 : ¬ d < 2 := fun x => h (Or.inl x)
    have h2 : ¬ d > 4 := fun x => h (Or.inr x)
    simp [h, h1, h2, pure, Except.pure, bind, Except.bind]

theorem gen_setTrim_eq (t0 p : Bool) : WktIO.setTrim t0 p = p := by simp [WktIO.setTrim]
theorem gen_setOld3D_eq (o0 p : Bool) : WktIO.setOld3D o0 p = p := by simp [WktIO.setOld3D]

/-! ## the number of decimals: `writeFormatted` selects, `writeNumber(d)` clamps -/

/-- the statement of `writeFormatted` that sets `decimalPlaces` followed by the clamp in `writeNumber(double)`: every ordinate is
formatted by `writeNumber(d, trim, p)` with `p = decimalPlaces cfg` — the rounding precision, or the precision model's
`getMaximumSignificantDigits()` when it is −1, and 0 when that is negative.  `hpm` says what `cfg.pmDigits` stands for. -/
theorem gen_decimalPlaces_eq {D G PM : Type} (wn3 : D → Bool → Nat → String) (gmsd : PM → Int) (gpm : G → PM) (cfg : Cfg)
    (g : G) (dp0 : Int) (pf : Bool) (w : Writer) (d : D) (hpm : gmsd (gpm g) = cfg.pmDigits) :
    WktIO.writeNumber1 wn3 (WktIO.writeFormatted_decimalPlaces gmsd gpm cfg.precision dp0 g pf w) cfg.trim d
      = wn3 d cfg.trim (decimalPlaces cfg) := by
  unfold WktIO.writeNumber1 WktIO.writeFormatted_decimalPlaces decimalPlaces
  by_cases h : cfg.precision = -1
  · by_cases h2 : 0 ≤ cfg.pmDigits
    · have h3 : ¬ cfg.pmDigits < 0 := by omega
      simp [h, hpm, h2, h3]
    · have h3 : cfg.pmDigits < 0 := by omega
      have h4 : cfg.pmDigits.toNat = 0 := by omega
      simp [h, hpm, h2, h3, h4]
  · by_cases h2 : 0 ≤ cfg.precision
    · have h3 : ¬ cfg.precision < 0 := by omega
      simp [h, hpm, h2, h3]
    · have h3 : cfg.precision < 0 := by omega
      have h4 : cfg.precision.toNat = 0 := by omega
      simp [h, hpm, h2, h3, h4]

/-- with the model's number formatter as `writeNumber(d, trim, p)` this is the text `tokStr` gives a number token -/
theorem gen_writeNumber_tokStr {G PM : Type} (gmsd : PM → Int) (gpm : G → PM) (cfg : Cfg) (g : G) (dp0 : Int) (pf : Bool)
    (w : Writer) (b : UInt64) (hpm : gmsd (gpm g) = cfg.pmDigits) :
    WktIO.writeNumber1 (fun (b : UInt64) t p => String.ofList (Num.writeNumber b.toNat t p))
        (WktIO.writeFormatted_decimalPlaces gmsd gpm cfg.precision dp0 g pf w) cfg.trim b
      = String.ofList (tokStr cfg (.num b)) := by
  rw [gen_decimalPlaces_eq _ _ _ _ _ _ _ _ _ hpm]; rfl

/-- `PrecisionModel::getMaximumSignificantDigits()`: 16 for FLOATING — the default of `Cfg.pmDigits` -/
theorem gen_getMaximumSignificantDigits_floating {D : Type} (dOfInt : Int → D) (dlt : D → D → Bool) (ddiv : D → D → D)
    (dlit : Int → Int → D) (dtoInt : D → Int) (log : D → D) (scale : D) (ceil floor : D → D) :
    WktIO.getMaximumSignificantDigits dOfInt dlt ddiv dlit dtoInt log scale ceil floor .floating = ({} : Cfg).pmDigits := by
  simp [WktIO.getMaximumSignificantDigits]

/-- 6 for FLOATING_SINGLE -/
theorem gen_getMaximumSignificantDigits_single {D : Type} (dOfInt : Int → D) (dlt : D → D → Bool) (ddiv : D → D → D)
    (dlit : Int → Int → D) (dtoInt : D → Int) (log : D → D) (scale : D) (ceil floor : D → D) :
    WktIO.getMaximumSignificantDigits dOfInt dlt ddiv dlit dtoInt log scale ceil floor .floatingSingle = 6 := by
  simp [WktIO.getMaximumSignificantDigits]

/-- for FIXED: `l = log(scale) / log(10.0)` rounded away from zero (`ceil` when positive, else `floor`) and cast to `int` —
the value the harness hands the model as `pmDigits` (stream wkt-write-seq) -/
theorem gen_getMaximumSignificantDigits_fixed {D : Type} (dOfInt : Int → D) (dlt : D → D → Bool) (ddiv : D → D → D)
    (dlit : Int → Int → D) (dtoInt : D → Int) (log : D → D) (scale : D) (ceil floor : D → D) :
    WktIO.getMaximumSignificantDigits dOfInt dlt ddiv dlit dtoInt log scale ceil floor .fixed
      = fixedDigits dlt dtoInt ceil floor (dOfInt 0) (ddiv (log scale) (log (dlit 1 1))) := by
  simp [WktIO.getMaximumSignificantDigits, fixedDigits]

/-! ## which ordinates a tagged geometry is written with, and the tag text -/

/-- the first part of `appendGeometryTaggedText` (declared dimensions, then the `while` loop that drops M, then Z and M, until
the output dimension is met) is the model's `capOrds`, for every output dimension `setOutputDimension` lets in; two iterations
of the loop suffice; `removeEmptyDimensions` is at its default.  The ordinate set is still open for changes. -/
theorem gen_ordinates_eq {G COF : Type} (gIsEmpty gHasZ gHasM : G → Bool) (cofNew : Flags → COF) (applyRo : G → COF → COF)
    (cofFound : COF → Flags) (d : Nat) (hd : 2 ≤ d) (g : G) (chk : Flags) (level : Int) (w : Writer) :
    WktIO.appendGeometryTaggedText_ordinates gIsEmpty gHasZ gHasM cofNew applyRo cofFound 2 false (d : Int) g chk level w
      = .ok { z := (capOrds d ⟨gHasZ g, gHasM g⟩).z, m := (capOrds d ⟨gHasZ g, gHasM g⟩).m, ca := true } := by
  have hr : List.range' 0 2 = [0, 1] := rfl
  have hd' : d = 2 ∨ d = 3 ∨ 4 ≤ d := by omega
  simp only [WktIO.appendGeometryTaggedText_ordinates]
  generalize gHasZ g = z
  generalize gHasM g = m
  rcases hd' with rfl | rfl | h4
  · cases z <;> cases m <;>
      simp [WktIO.appendGeometryTaggedText_ordinates, capOrds, Flags.createXY, Flags.size, Flags.hasM, Flags.hasZ, Flags.setM,
        Flags.setZ, hr, pure, Except.pure, bind, Except.bind, throw, throwThe, MonadExceptOf.throw]
  · cases z <;> cases m <;>
      simp [WktIO.appendGeometryTaggedText_ordinates, capOrds, Flags.createXY, Flags.size, Flags.hasM, Flags.hasZ, Flags.setM,
        Flags.setZ, hr, pure, Except.pure, bind, Except.bind, throw, throwThe, MonadExceptOf.throw]
  · have i4 : (4 : Int) ≤ d := by omega
    have i3 : (3 : Int) ≤ d := by omega
    have i2 : (2 : Int) ≤ d := by omega
    have n3 : 3 ≤ d := by omega
    have n4 : ¬ d < 4 := by omega
    have m3 : ¬ d < 3 := by omega
    have m2 : ¬ d < 2 := by omega
    have j3 : ¬ (d : Int) < 3 := by omega
    have j4 : ¬ (d : Int) < 4 := by omega
    have j2 : ¬ (d : Int) < 2 := by omega
    cases z <;> cases m <;>
      simp [WktIO.appendGeometryTaggedText_ordinates, capOrds, n4, m3, m2, j2, j3, j4, Flags.createXY, Flags.size, Flags.hasM, Flags.hasZ, Flags.setM,
        Flags.setZ, hr, i4, i3, i2, h4, n3, hd, pure, Except.pure, bind, Except.bind, throw, throwThe, MonadExceptOf.throw]

/-- `appendOrdinateText` only appends -/
theorem gen_appendOrdinateText_append (old3D : Bool) (w0 w : Writer) (f : Flags) :
    WktIO.appendOrdinateText old3D w0 f w = w ++ WktIO.appendOrdinateText old3D w0 f [] := by
  rcases f with ⟨z, m, ca⟩
  cases old3D <;> cases z <;> cases m <;> simp [WktIO.appendOrdinateText, Writer.write, Flags.hasZ, Flags.hasM]

/-- … and what it appends is the text the model's `render` lays out for the tag tokens `ordText`: nothing, `Z `, `M `, `ZM `, or
with the old-3D convention only `M ` for XYM -/
theorem gen_appendOrdinateText_eq (cfg : Cfg) (w0 : Writer) (f : Flags) :
    Writer.text (WktIO.appendOrdinateText cfg.old3D w0 f []) = ordTextStr cfg f.ords := by
  rcases f with ⟨z, m, ca⟩
  rcases cfg with ⟨t, p, od, o3, pd⟩
  cases o3 <;> cases z <;> cases m <;>
    simp [WktIO.appendOrdinateText, Writer.write, Writer.text, Flags.hasZ, Flags.hasM, Flags.ords, ordTextStr, ordText, tokStr] <;> decide

/-- `appendCoordinate` writes X and Y, then Z and M exactly when the output ordinates have them, separated by single blanks:
the number tokens of the model's `coordToks`, in order -/
theorem gen_appendCoordinate_eq (wn : UInt64 → String) (w0 w : Writer) (c : Coord) (f : Flags) :
    WktIO.appendCoordinate wn w0 (XYZM.ofCoord c) f w
      = w ++ List.intersperse " " ((coordToks f.ords c).filterMap fun t => match t with | .num b => some (wn b) | _ => none) := by
  rcases f with ⟨z, m, ca⟩
  cases z <;> cases m <;>
    simp [WktIO.appendCoordinate, Writer.write, Flags.hasZ, Flags.hasM, Flags.ords, coordToks, XYZM.ofCoord, List.intersperse]

/-! ## `writeTrimmedNumber`: which formatting a double gets -/
section Number
open GeosModel.Num

/-- the `double` literals of `writeTrimmedNumber` (0.0, 1e+17, 1e-4, 1.0), converted as the compiler does (correct rounding), are
the bit patterns the model's `notationOf` / `adjPrecision` compare with -/
theorem lit_bits : litB 0 0 = 0 ∧ litB 1 17 = bits1e17 ∧ litB 1 (-4) = bits1em4 ∧ litB 1 0 = bits1 := by
  refine ⟨?_, ?_, ?_, ?_⟩ <;> decide +kernel

/-- the IEEE-754 comparisons of a non-negative non-NaN pattern `a` with a non-negative non-NaN pattern `c` are the comparisons of the patterns -/
theorem cmpB_pos (a c : Nat) (ha : absBits a = a) (hs : signOf a = false) (hn : a ≤ INF)
    (hc : absBits c = c) (hsc : signOf c = false) (hnc : c ≤ INF) :
    ltB a c = decide (a < c) ∧ ltB c a = decide (c < a) ∧ eqB c a = decide (c = a) ∧ eqB a c = decide (a = c) ∧
      leB a c = decide (a ≤ c) ∧ leB c a = decide (c ≤ a) := by
  unfold leB ltB eqB isNaNB
  rw [ha, hc, hs, hsc]
  have h1 : ¬ a > INF := by omega
  have h2 : ¬ c > INF := by omega
  simp [h1, h2]
  by_cases h : c = a
  · simp [h]
  · have h' : ¬ a = c := fun x => h x.symm
    by_cases l : a < c
    · have : ¬ c < a := by omega
      have : a ≤ c := by omega
      have : ¬ c ≤ a := by omega
      simp [*]; omega
    · have : c < a := by omega
      have : ¬ a ≤ c := by omega
      have : c ≤ a := by omega
      simp [*]; omega

/-- `writeTrimmedNumber` for any `fabs` / `isfinite` / formatter, in terms of `a = |d|` as a pattern -/
theorem writeTrimmedNumber_core {S : Type} (fabs : Nat → Nat) (isfinite : Nat → Bool) (dneg floor log10 : Nat → Nat) (dtoU32 : Nat → Nat)
    (d2sfixed d2sexp : Nat → Nat → Unit → S) (bits a precision : Nat) (buf : Unit)
    (h1 : fabs bits = a) (h2 : isfinite bits = decide (a < INF)) (ha : absBits a = a) (hs : signOf a = false)
    (hlog : ∀ a, bits1em4 ≤ a → a < bits1 → dtoU32 (dneg (floor (log10 a))) = higherPrec a) :
    WktIO.writeTrimmedNumber fabs isfinite eqB litB leB ltB dneg dtoU32 floor log10 d2sfixed d2sexp bits precision buf
      = match (if a ≥ INF ∨ a = 0 then Notation.special else if a ≥ bits1e17 ∨ a < bits1em4 then .sci else .fixed) with
        | .special => d2sfixed bits precision buf
        | .sci => d2sexp bits precision buf
        | .fixed => d2sfixed bits (adjPrecision a precision) buf := by
  obtain ⟨l0, l17, lm4, l1⟩ := lit_bits
  have o1 : bits1em4 < bits1 := by decide
  have o2 : bits1 < bits1e17 := by decide
  have o3 : bits1e17 < INF := by decide
  have o4 : 0 < bits1em4 := by decide
  have e0 : eqB a 0 = decide (a = 0) ∧ eqB 0 a = decide (a = 0) := by
    unfold eqB isNaNB; rw [ha]
    by_cases h : a = 0
    · subst h; decide
    · have h' : ¬ 0 = a := fun x => h x.symm
      by_cases hn : a > INF <;> simp [hn, h, h', show absBits 0 = 0 from by decide]
  unfold WktIO.writeTrimmedNumber
  simp only [l0, l17, lm4, l1, h1, h2, e0.1, e0.2]
  by_cases hfin : a < INF
  · obtain ⟨k17a, k17b, k17c, k17d, k17e, k17f⟩ := cmpB_pos a bits1e17 ha hs (by omega) (by decide) (by decide) (by decide)
    obtain ⟨km4a, km4b, km4c, km4d, km4e, km4f⟩ := cmpB_pos a bits1em4 ha hs (by omega) (by decide) (by decide) (by decide)
    obtain ⟨k1a, k1b, k1c, k1d, k1e, k1f⟩ := cmpB_pos a bits1 ha hs (by omega) (by decide) (by decide) (by decide)
    simp only [k17a, k17b, k17c, k17d, k17e, k17f, km4a, km4b, km4c, km4d, km4e, km4f, k1a, k1b, k1c, k1d, k1e, k1f, adjPrecision]
    have hn : ¬ a ≥ INF := by omega
    by_cases h0 : a = 0
    · have x1 : ¬ bits1e17 ≤ a := by omega
      have x2 : a < bits1em4 := by omega
      simp [h0, hfin, hn]
    · by_cases hsci : a ≥ bits1e17 ∨ a < bits1em4
      · rcases hsci with h | h
        · have x2 : ¬ a < bits1em4 := by omega
          have x3 : ¬ a < bits1e17 := by omega
          have x4 : ¬ a = bits1e17 ∨ True := Or.inr trivial
          simp [h0, hfin, hn, h, x2, x3]
        · have x1 : ¬ bits1e17 ≤ a := by omega
          have x3 : ¬ bits1e17 < a := by omega
          have x4 : ¬ bits1e17 = a := by omega
          have x5 : ¬ a = bits1e17 := by omega
          simp [h0, hfin, hn, h, x1, x3, x4, x5]
      · have x1 : ¬ bits1e17 ≤ a := by omega
        have x2 : ¬ a < bits1em4 := by omega
        have x3 : ¬ bits1e17 < a := by omega
        have x4 : ¬ bits1e17 = a := by omega
        have x5 : ¬ a = bits1e17 := by omega
        have x6 : a < bits1e17 := by omega
        have x7 : bits1em4 ≤ a := by omega
        by_cases hp : precision < 4 ∧ a < bits1
        · have hl := hlog a (by omega) hp.2
          have y1 : ¬ bits1 ≤ a := by omega
          by_cases hh : precision < higherPrec a
          · have : max precision (higherPrec a) = higherPrec a := by omega
            simp [h0, hfin, hn, hsci, x1, x2, x3, x4, x5, x6, x7, hp.1, hp.2, hl, hh, this, y1]
          · have : max precision (higherPrec a) = precision := by omega
            simp [h0, hfin, hn, hsci, x1, x2, x3, x4, x5, x6, x7, hp.1, hp.2, hl, hh, this, y1]
        · by_cases h4 : precision < 4
          · have : ¬ a < bits1 := fun x => hp ⟨h4, x⟩
            have y1 : bits1 ≤ a := by omega
            simp [h0, hfin, hn, hsci, x1, x2, x3, x4, x5, x6, x7, hp, h4, this, y1]
          · simp [h0, hfin, hn, hsci, x1, x2, x3, x4, x5, x6, x7, hp, h4]
  · have hsp : a ≥ INF ∨ a = 0 := Or.inl (by omega)
    simp [hfin, hsp]
/-- `WKTWriter::writeTrimmedNumber` with doubles read as 64-bit patterns (`fabs` clears the sign bit, `isfinite` / `==` / `>=` /
`<` are the IEEE-754 predicates on patterns, literals are correctly rounded) and `geos_d2sfixed_buffered_n` /
`geos_d2sexp_buffered_n` as the model's `d2sFixed` / `d2sExp`, is the model's `writeTrimmedNumber` — the function all `fmt_*`
theorems of `Props/C10.lean` are about: non-finite and zero → fixed; `|d| ≥ 1e17` or `< 1e-4` → scientific; otherwise fixed
with the precision raised to `-floor(log10 |d|)` when `precision < 4` and `|d| < 1`.
`hlog`: the model computes `-floor(log10 a)` exactly (`higherPrec`), the C++ through libm (compared on every case of stream fmt). -/
theorem gen_writeTrimmedNumber_eq (dneg floor log10 : Nat → Nat) (dtoU32 : Nat → Nat) (bits precision : Nat) (buf : Unit)
    (hlog : ∀ a, bits1em4 ≤ a → a < bits1 → dtoU32 (dneg (floor (log10 a))) = higherPrec a) :
    WktIO.writeTrimmedNumber fabsB isFiniteB eqB litB leB ltB dneg dtoU32 floor log10
        (fun b p (_ : Unit) => d2sFixed b p) (fun b p _ => d2sExp b p) bits precision buf
      = Num.writeTrimmedNumber bits precision := by
  have ha : absBits (absBits bits) = absBits bits := by unfold absBits; omega
  have hs : signOf (absBits bits) = false := by
    unfold signOf absBits; simp
  rw [writeTrimmedNumber_core fabsB isFiniteB dneg floor log10 dtoU32 _ _ bits (absBits bits) precision buf rfl rfl ha hs hlog]
  rfl

/-- non-vacuity of `hlog` (an exact `-floor(log10 ·)` satisfies it) and the bridge at work: 0.5 at precision 0 is written `0.5` -/
example : ∃ dneg floor log10 dtoU32 : Nat → Nat, ∀ a, bits1em4 ≤ a → a < bits1 → dtoU32 (dneg (floor (log10 a))) = higherPrec a :=
  ⟨id, id, id, higherPrec, fun _ _ _ => rfl⟩
example : WktIO.writeTrimmedNumber fabsB isFiniteB eqB litB leB ltB id higherPrec id id
    (fun b p (_ : Unit) => d2sFixed b p) (fun b p _ => d2sExp b p) 0x3fe0000000000000 0 () = "0.5".toList := by
  rw [gen_writeTrimmedNumber_eq id id id higherPrec _ _ _ (fun _ _ _ => rfl)]; decide +kernel

end Number

/-! ## `WKTReader`: dimension tags and undeclared dimensions -/

/-- `WKTReader::isTypeName(type, typeName)`: the keyword itself or the keyword with a glued `Z`, `M` or `ZM` (the length tests
are implied by the string comparisons) -/
theorem gen_isTypeName_eq (w n : String) :
    WktIO.isTypeName w n = decide (w = n ∨ w = n.push 'Z' ∨ w = n.push 'M' ∨ w = n ++ "ZM") := by
  have l2 : "ZM".length = 2 := by decide
  unfold WktIO.isTypeName
  by_cases h0 : w = n
  · simp [h0]
  · by_cases h1 : w = n.push 'Z'
    · simp [h1, String.length_push]
    · by_cases h2 : w = n.push 'M'
      · simp [h2, String.length_push]
      · by_cases h3 : w = n ++ "ZM"
        · simp [h3, String.length_append, l2]
        · simp [h0, h1, h2, h3]

theorem okIs_iff (r : Except String Flags) (f : Flags) : okIs r f = true ↔ r = .ok f := by
  cases r <;> simp [okIs]

/-- (the unused binder the translator creates for an in/out parameter) -/
theorem readOrdinateFlags_dummy (f0 : Flags) (s : String) (f : Flags) :
    WktIO.readOrdinateFlags f0 s f = WktIO.readOrdinateFlags {} s f := rfl

/-- **tags.**  For each of the thirteen type keywords and each of the four spellings, the regenerated `readOrdinateFlags` started
from `createXY()` (as `readGeometryTaggedText` does) returns exactly the flags of the model's `matchType` — declared Z / M and
`changesAllowed = false`, or untouched XY with changes allowed for the bare keyword — and `isTypeName` accepts the spelling -/
theorem gen_readOrdinateFlags_tags :
    ∀ n ∈ typeNames, ∀ sf ∈ tagSuffixes,
      okIs (WktIO.readOrdinateFlags {} (n ++ sf.1) Flags.createXY) sf.2 = true ∧ matchType (n ++ sf.1) = some (n, sf.2) ∧
        WktIO.isTypeName (n ++ sf.1) n = true := by decide

theorem typeNames_push : ∀ n ∈ typeNames, n.push 'Z' = n ++ "Z" ∧ n.push 'M' = n ++ "M" := by decide

/-- a word that is no tag spelling of any of the thirteen keywords is rejected by every `isTypeName` test of
`readGeometryTaggedText` ("Unknown type" unless it is a bare EMPTY where one is allowed) — and conversely -/
theorem matchType_none_iff (w : String) : matchType w = none ↔ ∀ n ∈ typeNames, WktIO.isTypeName w n = false := by
  unfold matchType
  rw [List.findSome?_eq_none_iff]
  constructor
  · intro h n hn
    have h' := h n hn
    obtain ⟨p1, p2⟩ := typeNames_push n hn
    rw [gen_isTypeName_eq, p1, p2]
    by_cases a : w = n <;> by_cases b : w = n ++ "ZM" <;> by_cases c : w = n ++ "Z" <;> by_cases d : w = n ++ "M" <;>
      simp_all
  · intro h n hn
    have h' := h n hn
    obtain ⟨p1, p2⟩ := typeNames_push n hn
    rw [gen_isTypeName_eq, p1, p2] at h'
    by_cases a : w = n <;> by_cases b : w = n ++ "ZM" <;> by_cases c : w = n ++ "Z" <;> by_cases d : w = n ++ "M" <;>
      simp_all

/-- "Cannot mix dimensionality in a geometry": exactly the test `readTagged` applies after the specific reader returns -/
theorem gen_mixCheck_eq {TS GT : Type} (orig nf : Flags) (t : TS) (f : Flags) (e : GT) :
    WktIO.readGeometryTaggedText_mixCheck orig nf t f e
      = if !orig.ca && !(nf.sameDims orig) then .error "ParseException" else .ok () := by
  unfold WktIO.readGeometryTaggedText_mixCheck
  cases hc : orig.ca <;> cases hd : nf.sameDims orig <;>
    simp [hc, hd, Flags.changesAllowed, Flags.ne, throw, throwThe, MonadExceptOf.throw, pure, Except.pure, bind, Except.bind]

/-- the flags a tagged geometry starts with: a bare `EMPTY` inherits the caller's, anything else starts from XY and takes what
`readOrdinateFlags` finds glued to the keyword -/
theorem gen_flags_eq {TS GT : Type} (rof : String → Flags → Except String Flags) (type : String) (t : TS) (fl : Flags) (e : GT) :
    WktIO.readGeometryTaggedText_flags rof type t fl e
      = if type = "EMPTY" then .ok (fl, fl) else (rof type Flags.createXY).map (fun nf => (fl, nf)) := by
  unfold WktIO.readGeometryTaggedText_flags
  by_cases h : type = "EMPTY"
  · simp [h, pure, Except.pure, bind, Except.bind]
  · cases hr : rof type Flags.createXY <;> simp [h, hr, pure, Except.pure, bind, Except.bind, Except.map]

/-- `getNextNumber` is the model's `getNum` (every failure is a `ParseException`) -/
theorem getNextNumber_eq (ts : List Tok) : getNextNumber ts = liftP (getNum ts) := by
  rcases ts with _ | ⟨t, r⟩
  · rfl
  · cases t <;> rfl

/-- **`getPreciseCoordinate` is the model's `getCoord`**: X, Y; an undeclared Z is taken when a third number follows and the flags
are still open; an undeclared M when a fourth follows a Z; the flags are closed afterwards.  `makePrecise` is the identity
(floating precision model).  The C++ re-uses one `coord` object for all coordinates of a sequence; ordinates it does not read
keep their old value, which is NaN as long as the corresponding flag is off (`hz`, `hm`: it starts as (0, 0, NaN, NaN)). -/
theorem gen_getPreciseCoordinate_eq {PM : Type} (pm : PM) (ts0 : List Tok) (f0 : Flags) (c00 : XYZM UInt64)
    (ts : List Tok) (fl : Flags) (c0 : Coord) (hz : fl.z = true ∨ c0.z = nanBits) (hm : fl.m = true ∨ c0.m = nanBits) :
    WktIO.getPreciseCoordinate getNextNumber isNumberNext (fun _ c => c) pm ts0 f0 c00 ts fl (XYZM.ofCoord c0)
      = (liftP (getCoord fl ts)).map (fun r => (r.2, r.1.2, XYZM.ofCoord r.1.1)) := by
  rcases fl with ⟨z, m, ca⟩
  rcases c0 with ⟨cx, cy, cz, cm⟩
  simp only at hz hm
  unfold WktIO.getPreciseCoordinate getCoord
  simp only [getNextNumber_eq, isNumberNext]
  cases h1 : getNum ts with
  | error e => simp [liftP, bind, Except.bind, Except.map]
  | ok v1 =>
    rcases v1 with ⟨x, ts1⟩
    simp only [liftP, bind, Except.bind]
    cases h2 : getNum ts1 with
    | error e => simp [liftP, bind, Except.bind, Except.map]
    | ok v2 =>
      rcases v2 with ⟨y, ts2⟩
      simp only [liftP, bind, Except.bind]
      cases hn2 : isNumNext ts2 <;> cases z <;> cases m <;> cases ca <;>
        simp [liftP, bind, Except.bind, Except.map, pure, Except.pure, Flags.changesAllowed, Flags.hasZ, Flags.hasM, Flags.setZ,
          Flags.setM, Flags.setChangesAllowed, XYZM.ofCoord, hn2]
      all_goals first
        | done
        | (simp_all; done)
        | (cases h3 : getNum ts2 with
           | error e => simp_all
           | ok v3 =>
             rcases v3 with ⟨zz, ts3⟩
             cases hn3 : isNumNext ts3 <;> cases h4 : getNum ts3 <;>
               simp_all [liftP, bind, Except.bind, Except.map, pure, Except.pure, Flags.changesAllowed, Flags.hasZ, Flags.hasM,
                 Flags.setZ, Flags.setM, Flags.setChangesAllowed, XYZM.ofCoord])

local macro "eoo_simp" : tactic => `(tactic|
  simp_all [getNextWord, liftP, bind, Except.bind, Except.map, Err.name, pure, Except.pure, Flags.changesAllowed,
    Flags.setZ, Flags.setM, Flags.setChangesAllowed, throw, throwThe, MonadExceptOf.throw])

/-- the words after the tag: what the common tail of `getNextEmptyOrOpener` (`EMPTY` or `(`, anything else is an error) does -/
theorem eoo_tail_cases (r : List Tok) (hr : ∀ s', Tok.word s' ∈ r → s' ≠ "(") :
    r = [] ∨ (∃ r', r = .lp :: r') ∨ (∃ r', r = .rp :: r') ∨ (∃ r', r = .comma :: r') ∨ (∃ b r', r = .num b :: r') ∨
      (∃ r', r = .word "EMPTY" :: r') ∨ (∃ r', r = .word "M" :: r') ∨
      (∃ s r', r = .word s :: r' ∧ s ≠ "EMPTY" ∧ s ≠ "M" ∧ s ≠ "(") := by
  rcases r with _ | ⟨t, r'⟩
  · exact Or.inl rfl
  · cases t with
    | lp => exact Or.inr (Or.inl ⟨r', rfl⟩)
    | rp => exact Or.inr (Or.inr (Or.inl ⟨r', rfl⟩))
    | comma => exact Or.inr (Or.inr (Or.inr (Or.inl ⟨r', rfl⟩)))
    | num b => exact Or.inr (Or.inr (Or.inr (Or.inr (Or.inl ⟨b, r', rfl⟩))))
    | word s =>
      have hs : s ≠ "(" := hr s (by simp)
      by_cases h1 : s = "EMPTY"
      · subst h1; exact Or.inr (Or.inr (Or.inr (Or.inr (Or.inr (Or.inl ⟨r', rfl⟩)))))
      · by_cases h2 : s = "M"
        · subst h2; exact Or.inr (Or.inr (Or.inr (Or.inr (Or.inr (Or.inr (Or.inl ⟨r', rfl⟩))))))
        · exact Or.inr (Or.inr (Or.inr (Or.inr (Or.inr (Or.inr (Or.inr ⟨s, r', rfl, h1, h2, hs⟩))))))

/-- **`getNextEmptyOrOpener` is the model's `emptyOrOpener`** — the Z / M / ZM state machine: `ZM`, `Z`, `M` are accepted only while
the flags are open and at most once (`Z M` is an error), set the flags and close them; then `EMPTY` or `(` must follow.
`hw`: the tokenizer never makes a word of a parenthesis (it is a delimiter). -/
theorem gen_getNextEmptyOrOpener_eq (ts0 : List Tok) (f0 : Flags) (ts : List Tok) (fl : Flags)
    (hw : ∀ s, Tok.word s ∈ ts → s ≠ "(") :
    WktIO.getNextEmptyOrOpener getNextWord ts0 f0 ts fl
      = (liftP (emptyOrOpener fl ts)).map (fun r => (if r.1.1 then "EMPTY" else "(", r.2, r.1.2)) := by
  rcases fl with ⟨z, m, ca⟩
  unfold WktIO.getNextEmptyOrOpener emptyOrOpener
  rcases ts with _ | ⟨t1, r1⟩
  · simp [getNextWord, liftP, bind, Except.bind, Except.map, Err.name]
  · cases t1 with
    | lp => cases ca <;> eoo_simp
    | rp => cases ca <;> eoo_simp
    | comma => cases ca <;> eoo_simp
    | num b => eoo_simp
    | word s =>
      have hs : s ≠ "(" := hw s (by simp)
      have hr : ∀ s', Tok.word s' ∈ r1 → s' ≠ "(" := fun s' h => hw s' (by simp [h])
      have tc := eoo_tail_cases r1 hr
      clear hw hr
      by_cases hZM : s = "ZM"
      · subst hZM
        rcases tc with rfl | ⟨r', rfl⟩ | ⟨r', rfl⟩ | ⟨r', rfl⟩ | ⟨b, r', rfl⟩ | ⟨r', rfl⟩ | ⟨r', rfl⟩ | ⟨s2, r', rfl, e1, e2, e3⟩ <;>
          cases z <;> cases m <;> cases ca <;> eoo_simp
      · by_cases hZ : s = "Z"
        · subst hZ
          rcases tc with rfl | ⟨r', rfl⟩ | ⟨r', rfl⟩ | ⟨r', rfl⟩ | ⟨b, r', rfl⟩ | ⟨r', rfl⟩ | ⟨r', rfl⟩ | ⟨s2, r', rfl, e1, e2, e3⟩ <;>
            cases z <;> cases m <;> cases ca <;> eoo_simp
        · by_cases hM : s = "M"
          · subst hM
            rcases tc with rfl | ⟨r', rfl⟩ | ⟨r', rfl⟩ | ⟨r', rfl⟩ | ⟨b, r', rfl⟩ | ⟨r', rfl⟩ | ⟨r', rfl⟩ | ⟨s2, r', rfl, e1, e2, e3⟩ <;>
              cases z <;> cases m <;> cases ca <;> eoo_simp
          · by_cases hE : s = "EMPTY"
            · subst hE; cases ca <;> eoo_simp
            · cases ca <;> eoo_simp

/-! non-vacuity: the hypotheses of the reader bridges hold on real token lists, and the regenerated functions compute -/
example : (∀ s, Tok.word s ∈ [Tok.word "ZM", .lp, .num 1, .num 2, .num 3, .num 4, .rp] → s ≠ "(") ∧
    WktIO.getNextEmptyOrOpener getNextWord [] {} [Tok.word "ZM", .lp, .num 1, .num 2, .num 3, .num 4, .rp] {} =
      .ok ("(", [.num 1, .num 2, .num 3, .num 4, .rp], { z := true, m := true, ca := false }) := by
  have hw : ∀ s, Tok.word s ∈ [Tok.word "ZM", .lp, .num 1, .num 2, .num 3, .num 4, .rp] → s ≠ "(" := by
    intro s h; simp at h; subst h; decide
  exact ⟨hw, by rw [gen_getNextEmptyOrOpener_eq _ _ _ _ hw]; rfl⟩
example : WktIO.getNextEmptyOrOpener getNextWord [] {} [Tok.word "Z", .word "M", .lp, .num 1, .num 2, .rp] {} = .error "ParseException" := by
  rw [gen_getNextEmptyOrOpener_eq _ _ _ _ (by intro s h; simp at h; rcases h with h | h <;> subst h <;> decide)]; rfl
example : (WktIO.getPreciseCoordinate getNextNumber isNumberNext (fun (_ : Unit) c => c) () [] {} (XYZM.ofCoord ⟨0, 0, nanBits, nanBits⟩)
    [.num 1, .num 2, .num 3, .rp] {} (XYZM.ofCoord ⟨0, 0, nanBits, nanBits⟩)).map (fun r => r.2.1) = .ok { z := true, ca := false } := by
  rw [gen_getPreciseCoordinate_eq () _ _ _ _ _ _ (Or.inr rfl) (Or.inr rfl)]; rfl

end GeosModel.C10Gen
