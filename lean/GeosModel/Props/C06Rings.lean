import GeosModel.Proofs.Buffer.Rings
/-!
# C06 — ring assembly of the buffer result: no result edge is lost

`Model/Buffer/Rings.lean` follows `PolygonBuilder::add` up to `buildMinimalEdgeRings` (linkResultDirectedEdges,
MaximalEdgeRing, linkMinimalDirectedEdges, MaximalEdgeRing::buildMinimalRings, MinimalEdgeRing).  Stream `rings` compares
it with these classes called directly and with `PolygonBuilder`'s polygons.  A ring of the result outline that is not
built is a hole (or shell) missing from the buffer — "nothing farther than d" (or "everything within d") then fails on
the whole region it bounds.  The theorems hold for every graph, every result flag assignment and every link table.
-/
namespace GeosModel.Buffer.Rings
open GeosModel.Kernel

/-- The loop shared by `PolygonBuilder::buildMaximalEdgeRings` and `MaximalEdgeRing::buildMinimalRings`: whenever it
finishes, every candidate edge lies in one of the rings it built (started with nothing assigned). -/
theorem rings_cover_candidates (next : DE → Option DE) (fuel : Nat) (cands : List DE) (rs : List (List DE))
    (h : buildRings next fuel cands [] = some rs) : ∀ d ∈ cands, ∃ r ∈ rs, d ∈ r := by
  intro d hd
  rcases buildRings_covers cands [] rs h d hd with hm | hr
  · simp at hm
  · exact hr

/-- Every ring built by that loop is a closed walk of the successor function starting at a candidate: consecutive edges
are linked, and the successor of the last edge is the first one (`do … while (de != startDe)`). -/
theorem rings_are_closed_walks (next : DE → Option DE) (fuel : Nat) (cands : List DE) (rs : List (List DE))
    (h : buildRings next fuel cands [] = some rs) : ∀ r ∈ rs, ∃ d ∈ cands, ClosedFrom next d d r :=
  buildRings_closed cands [] rs h

/-- `MaximalEdgeRing::buildMinimalRings`: every directed edge of a maximal ring lies in one of its minimal rings. -/
theorem minimal_rings_cover (g : Graph) (ring : List DE) (ms : List (List DE)) (h : minRings g ring = some ms) :
    ∀ d ∈ ring, ∃ r ∈ ms, d ∈ r :=
  rings_cover_candidates _ _ ring ms h

/-- Whole assembly: when it succeeds, EVERY result directed edge of the graph lies on one of the rings handed to the
polygon assembly (shell / hole placement) — no part of the result outline is dropped, however the outline touches itself. -/
theorem assemble_covers_result (g : Graph) (out : List (List DE)) (h : assemble g = some out) :
    ∀ d, d < g.numDE → g.inResult d = true → ∃ r ∈ out, d ∈ r := by
  intro d hlt hin
  unfold assemble at h
  split at h
  · rename_i ms hms
    have hd : d ∈ (List.range g.numDE).filter g.inResult := by
      simp [List.mem_filter, hlt, hin]
    obtain ⟨R, hR, hdR⟩ := rings_cover_candidates _ _ _ ms hms d hd
    exact splitAll_covers g ms out h R hR d hdR
  · simp at h

/-- The rings built by the shared loop never overlap and never contain an edge twice, provided no edge is the successor of two
edges (true of the link tables of every case of stream `rings`: `linksInjective`, evaluated by the driver).  Together with
`rings_cover_candidates`: the candidates are PARTITIONED among the rings that contain them. -/
theorem rings_disjoint_nodup (next : DE → Option DE) (hinj : Injective next) (fuel : Nat) (cands : List DE) (rs : List (List DE))
    (h : buildRings next fuel cands [] = some rs) :
    rs.Pairwise (fun r1 r2 => ∀ x ∈ r1, x ∉ r2) ∧ ∀ r ∈ rs, r.Nodup :=
  ⟨(buildRings_disjoint hinj cands [] rs h (fun _ _ _ hx => by simp at hx)).2, buildRings_nodup hinj cands [] rs h⟩

/-- `PolygonBuilder::buildMaximalEdgeRings`: the maximal rings are pairwise disjoint, duplicate-free and contain every result edge. -/
theorem maximal_rings_partition (g : Graph) (ms : List (List DE)) (hl : ((resultLinks g).map (·.2)).Nodup) (h : maxRings g = some ms) :
    ms.Pairwise (fun r1 r2 => ∀ x ∈ r1, x ∉ r2) ∧ (∀ r ∈ ms, r.Nodup) ∧
    ∀ d, d < g.numDE → g.inResult d = true → ∃ r ∈ ms, d ∈ r := by
  obtain ⟨h1, h2⟩ := rings_disjoint_nodup _ (lookup_injective hl) _ _ ms h
  refine ⟨h1, h2, ?_⟩
  intro d hlt hin
  exact rings_cover_candidates _ _ _ ms h d (by simp [List.mem_filter, hlt, hin])

/-- `MaximalEdgeRing::buildMinimalRings`: the minimal rings of a maximal ring are pairwise disjoint, duplicate-free and contain
every edge of the maximal ring. -/
theorem minimal_rings_partition (g : Graph) (ring : List DE) (ms : List (List DE)) (hl : ((minLinks g ring).map (·.2)).Nodup)
    (h : minRings g ring = some ms) :
    ms.Pairwise (fun r1 r2 => ∀ x ∈ r1, x ∉ r2) ∧ (∀ r ∈ ms, r.Nodup) ∧ ∀ d ∈ ring, ∃ r ∈ ms, d ∈ r := by
  obtain ⟨h1, h2⟩ := rings_disjoint_nodup _ (lookup_injective hl) _ _ ms h
  exact ⟨h1, h2, minimal_rings_cover g ring ms h⟩

/-- `PolygonBuilder::findEdgeRingContaining`: the shell a free hole is given to is one of the shells offered and qualifies as a
container (different envelope that contains the hole's, and the first hole point that is not a shell vertex is not exterior to it). -/
theorem container_qualifies (g : Graph) (hole : List DE) (shells : List (List DE)) (s : List DE) (he : Env)
    (henv : envOf (ringPts g hole) = some he) (h : findContaining g hole shells = some s) :
    s ∈ shells ∧ ∃ se, qualifies g (ringPts g hole) he s = some se := by
  unfold findContaining at h
  simp only [henv] at h
  obtain ⟨res, hres, hs⟩ := Option.map_eq_some_iff.mp h
  rcases pickMin_mem g _ he shells none (some res) hres with h1 | ⟨r, hr, hm, hq⟩
  · cases h1
  · cases hr; subst hs; exact ⟨hm, _, hq⟩

/-- … and it is the SMALLEST container: when the envelopes of the qualifying shells are pairwise comparable (shells of a valid
result are nested or apart), the envelope of the chosen shell lies inside the envelope of every qualifying shell — whatever the
order in which the shells are offered. -/
theorem container_is_smallest (g : Graph) (hole : List DE) (shells : List (List DE)) (s : List DE) (he : Env)
    (henv : envOf (ringPts g hole) = some he)
    (hcmp : ∀ a ∈ shells, ∀ b ∈ shells, ∀ ea eb, qualifies g (ringPts g hole) he a = some ea →
      qualifies g (ringPts g hole) he b = some eb → ea.contains eb = true ∨ eb.contains ea = true)
    (h : findContaining g hole shells = some s) :
    ∃ se, qualifies g (ringPts g hole) he s = some se ∧
      ∀ s' ∈ shells, ∀ se', qualifies g (ringPts g hole) he s' = some se' → se'.contains se = true := by
  unfold findContaining at h
  simp only [henv] at h
  obtain ⟨res, hres, hs⟩ := Option.map_eq_some_iff.mp h
  let W : Env → Prop := fun e => ∃ a ∈ shells, qualifies g (ringPts g hole) he a = some e
  have hW : ∀ a b, W a → W b → a.contains b = true ∨ b.contains a = true := by
    intro a b ⟨sa, hsa, hqa⟩ ⟨sb, hsb, hqb⟩
    exact hcmp sa hsa sb hsb a b hqa hqb
  obtain ⟨_, _, h3⟩ := pickMin_min g (ringPts g hole) he W hW shells none res
    (fun s' hs' se hq => ⟨s', hs', hq⟩) (by intro m hm; cases hm) hres
  rcases pickMin_mem g _ he shells none (some res) hres with h1 | ⟨r, hr, _, hq⟩
  · cases h1
  · cases hr; subst hs; exact ⟨_, hq, h3⟩

/-- a free hole is discarded only when no shell qualifies -/
theorem hole_discarded_only_if_uncontained (g : Graph) (hole : List DE) (shells : List (List DE)) (he : Env)
    (henv : envOf (ringPts g hole) = some he) (h : findContaining g hole shells = none) :
    ∀ s ∈ shells, qualifies g (ringPts g hole) he s = none := by
  unfold findContaining at h
  simp only [henv, Option.map_eq_none_iff] at h
  intro s hs
  cases hq : qualifies g (ringPts g hole) he s with
  | none => rfl
  | some se =>
    exfalso
    -- a qualifying shell makes the scan return something
    have : ∀ (l : List (List DE)) (st : Option (List DE × Env)), (st.isSome ∨ s ∈ l) → (pickMin g (ringPts g hole) he l st).isSome := by
      intro l
      induction l with
      | nil => intro st hst; rcases hst with h1 | h1
               · simpa [pickMin] using h1
               · simp at h1
      | cons a rest ih =>
        intro st hst
        simp only [pickMin]
        split
        · rename_i hqa
          apply ih
          rcases hst with h1 | h1
          · left; exact h1
          · rcases List.mem_cons.mp h1 with rfl | h2
            · rw [hq] at hqa; cases hqa
            · right; exact h2
        · split
          · exact ih _ (Or.inl rfl)
          · split
            · exact ih _ (Or.inl rfl)
            · exact ih _ (Or.inl rfl)
    have hsome := this shells none (Or.inr hs)
    rw [h] at hsome
    cases hsome

/-! Non-vacuity: the square (0 0, 8 0, 8 8, 0 8) with the triangular hole (0 0, 4 2, 2 4) touching it in the vertex (0 0)
(one edge per segment, interior on the right of every result edge).  The single maximal ring passes twice through (0 0),
has node degree 4 and is split into the shell and the hole. -/
def touchSquare : Graph := { edges := #[
  ⟨[⟨0, 0⟩, ⟨0, 8⟩], true, false⟩, ⟨[⟨0, 8⟩, ⟨8, 8⟩], true, false⟩, ⟨[⟨8, 8⟩, ⟨8, 0⟩], true, false⟩, ⟨[⟨8, 0⟩, ⟨0, 0⟩], true, false⟩,
  ⟨[⟨0, 0⟩, ⟨4, 2⟩], true, false⟩, ⟨[⟨4, 2⟩, ⟨2, 4⟩], true, false⟩, ⟨[⟨2, 4⟩, ⟨0, 0⟩], true, false⟩] }

example : maxRings touchSquare = some [[0, 2, 4, 6, 8, 10, 12]] := by decide
example : maxNodeDegree touchSquare [0, 2, 4, 6, 8, 10, 12] = 4 := by decide
example : assemble touchSquare = some [[0, 2, 4, 6], [8, 10, 12]] := by decide
example : linksInjective touchSquare = true := by decide
example : isHole touchSquare [0, 2, 4, 6] = false ∧ isHole touchSquare [8, 10, 12] = true := by decide
/-- hole placement on two nested frames offered in either order: the inner frame's hole goes to the inner shell -/
def nestedFrames : Graph := { edges := #[
  ⟨[⟨0, 0⟩, ⟨0, 9⟩, ⟨9, 9⟩, ⟨9, 0⟩, ⟨0, 0⟩], true, false⟩, ⟨[⟨1, 1⟩, ⟨8, 1⟩, ⟨8, 8⟩, ⟨1, 8⟩, ⟨1, 1⟩], true, false⟩,
  ⟨[⟨3, 3⟩, ⟨3, 6⟩, ⟨6, 6⟩, ⟨6, 3⟩, ⟨3, 3⟩], true, false⟩, ⟨[⟨4, 4⟩, ⟨5, 4⟩, ⟨5, 5⟩, ⟨4, 5⟩, ⟨4, 4⟩], true, false⟩] }
example : findContaining nestedFrames [6] [[0], [4]] = some [4] ∧ findContaining nestedFrames [6] [[4], [0]] = some [4] ∧
    findContaining nestedFrames [2] [[4], [0]] = some [0] := by decide
example : (polygons nestedFrames).map (·.map fun p => (p.shell, p.holes)) = some [([0], [[2]]), ([4], [[6]])] := by decide
/-- walking the maximal ring with the MINIMAL successor (instead of `getNext`) would visit the shell only -/
example : walkFrom (lookup (minLinks touchSquare [0, 2, 4, 6, 8, 10, 12])) 0 14 0 = some [0, 2, 4, 6] := by decide

end GeosModel.Buffer.Rings
