import GeosModel.Proofs.Valid.GenBridge
import GeosModel.Proofs.Valid.SimplePair
import GeosModel.Generated.ValidSimplePair
/-!
# C05 — the regenerated per-pair decision of `IsSimpleOp` is the model, and the model is the reference's simplicity rule

`Generated/ValidSimplePair.lean` is rewritten from `src/operation/valid/IsSimpleOp.cpp` (`NonSimpleIntersectionFinder::findIntersection`,
`isIntersectionEndpoint`, `intersectionVertexIndex`) and `CoordinateXY::equals2D` by `translate/cxx2lean.py` (spec `valid_simple_pair`) on
every run.  Segment strings are instantiated with `Valid.LineStr` (identity, `isClosed()`, points) — ALL line strings and segment
indices; the `LineIntersector` is any type whose observers report the exact classification (`ValidGen.LISimpleExact`, satisfiable:
`LIw.exact`; the real intersector's exactness on the grid is C02's subject).  `gen_findIntersection_eq` proves the regenerated
function equal to the hand-written model `Valid.findIntersection` (Model/Valid/SimplePair.lean);
`gen_findIntersection_eq_not_simplePair` adds `Props/C05.findIntersection_decides_simplePair`: under the Mod-2 rule the code generated
from the current source reports an intersection exactly when the reference evaluator's `simplePair` forbids the pair.
-/
set_option linter.unusedTactic false
set_option linter.unreachableTactic false
set_option linter.unusedSimpArgs false
namespace GeosModel.C05GenSimple
open GeosModel GeosModel.Kernel GeosModel.Valid GeosModel.Generated GeosModel.ValidGen

theorem gen_equals2D_eq (a b : Pt) : ValidSimplePair.equals2D a.x a.y (xy b) = (a == b) := by
  unfold ValidSimplePair.equals2D
  apply Bool.eq_iff_iff.mpr
  rw [Pt.beq_iff]
  cases a; cases b
  simp [Cxx.ne]

/-- `intersectionVertexIndex` for an intersector that has just computed the pair and reports the touch point `x` -/
theorem gen_intersectionVertexIndex_eq {LI : Type} (liGet : LI → Nat → Cxx.XY Int) (liEnd : LI → Nat → Nat → Cxx.XY Int) (l : LI) (seg : Nat)
    (x e : Pt) (hg : liGet l 0 = xy x) (he : liEnd l seg 0 = xy e) :
    ValidSimplePair.intersectionVertexIndex liGet liEnd l seg = if x == e then 0 else 1 := by
  unfold ValidSimplePair.intersectionVertexIndex
  simp [hg, he, gen_equals2D_eq]

theorem gen_isIntersectionEndpoint_eq {LI : Type} (liGet : LI → Nat → Cxx.XY Int) (liEnd : LI → Nat → Nat → Cxx.XY Int) (l : LI) (seg : Nat)
    (L : LineStr) (k : Nat) (x : Pt) (hL : 1 ≤ L.pts.length) (hg : liGet l 0 = xy x) (he : liEnd l seg 0 = xy (L.seg k).p) :
    ValidSimplePair.isIntersectionEndpoint (fun s : LineStr => s.pts.length) liGet liEnd L k l seg = Valid.isIntersectionEndpoint (L.seg k) x := by
  unfold ValidSimplePair.isIntersectionEndpoint Valid.isIntersectionEndpoint Valid.intersectionVertexIndex
  rw [gen_intersectionVertexIndex_eq liGet liEnd l seg x _ hg he]
  have hn : (L.seg k).n + 1 = L.pts.length := by simp [LineStr.seg]; omega
  have hk : (L.seg k).k = k := rfl
  rw [hn, hk]
  by_cases h : (x == (L.seg k).p) = true <;> simp [h]

theorem gen_findIntersection_eq {LI : Type}
    (liCompute : LI → Cxx.XY Int → Cxx.XY Int → Cxx.XY Int → Cxx.XY Int → LI) (liHas liInterior : LI → Bool) (liNum : LI → Nat)
    (liGet : LI → Nat → Cxx.XY Int) (liEnd : LI → Nat → Nat → Cxx.XY Int) (hli : LISimpleExact liCompute liHas liInterior liNum liGet liEnd)
    (cei : Bool) (li0 : LI) (A B : LineStr) (i j : Nat) (hA : 1 ≤ A.pts.length) (hB : 1 ≤ B.pts.length)
    (hone : segRel (A.seg i).p (A.seg i).q (B.seg j).p (B.seg j).q = .point false → ∃ x, (A.seg i).meet (B.seg j) = [x]) :
    (ValidSimplePair.findIntersection (fun a b : LineStr => a.lid == b.lid) (fun s => s.pts.length) (fun s => s.closed)
        liCompute liHas liInterior liNum liGet liEnd cei li0 A i B j (xy (A.seg i).p) (xy (A.seg i).q) (xy (B.seg j).p) (xy (B.seg j).q)).1
      = Valid.findIntersection cei (A.seg i) (B.seg j) := by
  unfold ValidSimplePair.findIntersection Valid.findIntersection
  cases hrel : segRel (A.seg i).p (A.seg i).q (B.seg j).p (B.seg j).q with
  | disjoint => simp [hli.has, hrel]
  | overlap =>
    by_cases hi : liInterior (liCompute li0 (xy (A.seg i).p) (xy (A.seg i).q) (xy (B.seg j).p) (xy (B.seg j).q)) = true <;>
      simp [hli.has, hli.num, hrel, hi]
  | point proper =>
    cases proper with
    | true => simp [hli.has, hli.interiorProper _ _ _ _ _ hrel, hrel]
    | false =>
      obtain ⟨x, hx⟩ := hone hrel
      have hx' : meet (A.seg i).p (A.seg i).q (B.seg j).p (B.seg j).q = [x] := by rw [← lmeet_eq]; exact hx
      have hg := hli.get li0 _ _ _ _ x hrel hx'
      have e0 := gen_isIntersectionEndpoint_eq liGet liEnd _ 0 A i x hA hg (hli.end0 li0 _ _ _ _)
      have e1 := gen_isIntersectionEndpoint_eq liGet liEnd _ 1 B j x hB hg (hli.end1 li0 _ _ _ _)
      have hI := hli.interiorTouch li0 _ _ _ _ x hrel hx'
      have hH := hli.has li0 (A.seg i).p (A.seg i).q (B.seg j).p (B.seg j).q
      have hNm := hli.num li0 (A.seg i).p (A.seg i).q (B.seg j).p (B.seg j).q
      simp only [hx, e0, e1]
      have h1 : (A.lid == B.lid) = ((A.seg i).lid == (B.seg j).lid) := rfl
      have h2 : A.closed = (A.seg i).closed := rfl
      have h3 : B.closed = (B.seg j).closed := rfl
      have h4 : (A.seg i).k = i := rfl
      have h5 : (B.seg j).k = j := rfl
      rw [h1, h2, h3]
      generalize A.seg i = s at *
      generalize B.seg j = t at *
      subst h4 h5
      rw [hrel] at hH hNm
      simp [hH, hNm, hI, Valid.isInteriorIntersection, apply_ite Prod.fst]
      repeat' split
      all_goals first | rfl | (simp_all; done) | grind

/-- **the regenerated per-pair decision of `IsSimpleOp` is the reference's simplicity rule** (Mod-2 boundary rule): for coherent pairs of
distinct segments of de-duplicated lines, the code generated from the current `IsSimpleOp.cpp` finds an intersection exactly when
`Valid.simplePair` forbids the pair -/
theorem gen_findIntersection_eq_not_simplePair {LI : Type}
    (liCompute : LI → Cxx.XY Int → Cxx.XY Int → Cxx.XY Int → Cxx.XY Int → LI) (liHas liInterior : LI → Bool) (liNum : LI → Nat)
    (liGet : LI → Nat → Cxx.XY Int) (liEnd : LI → Nat → Nat → Cxx.XY Int) (hli : LISimpleExact liCompute liHas liInterior liNum liGet liEnd)
    (li0 : LI) (A B : LineStr) (i j : Nat) (hA : 1 ≤ A.pts.length) (hB : 1 ≤ B.pts.length)
    (hone : segRel (A.seg i).p (A.seg i).q (B.seg j).p (B.seg j).q = .point false → ∃ x, (A.seg i).meet (B.seg j) = [x])
    (hw : LPairWF (A.seg i) (B.seg j)) :
    (ValidSimplePair.findIntersection (fun a b : LineStr => a.lid == b.lid) (fun s => s.pts.length) (fun s => s.closed)
        liCompute liHas liInterior liNum liGet liEnd true li0 A i B j (xy (A.seg i).p) (xy (A.seg i).q) (xy (B.seg j).p) (xy (B.seg j).q)).1
      = !simplePair (A.seg i) (B.seg j) := by
  rw [gen_findIntersection_eq liCompute liHas liInterior liNum liGet liEnd hli true li0 A B i j hA hB hone,
    Valid.findIntersection_eq_not_simplePair _ _ hw]

/-! non-vacuity: the regenerated code run with the exact intersector `LIw`: a T-junction of two lines (non-simple), two lines meeting end
to end (simple), the same with one of them closed (non-simple under the Mod-2 rule), a ring closing on itself (simple) -/
def runSimple (A B : LineStr) (i j : Nat) : Bool :=
  (ValidSimplePair.findIntersection (fun a b : LineStr => a.lid == b.lid) (fun s => s.pts.length) (fun s => s.closed)
      LIw.compute (fun l => l.rel != .disjoint) LIw.interior LIw.num LIw.get LIw.endpoint true {} A i B j
      (xy (A.seg i).p) (xy (A.seg i).q) (xy (B.seg j).p) (xy (B.seg j).q)).1
example : runSimple ⟨0, false, [⟨0, 0⟩, ⟨10, 0⟩]⟩ ⟨1, false, [⟨5, 0⟩, ⟨5, 5⟩]⟩ 0 0 = true := by decide
example : runSimple ⟨0, false, [⟨0, 0⟩, ⟨10, 0⟩]⟩ ⟨1, false, [⟨10, 0⟩, ⟨15, 5⟩]⟩ 0 0 = false := by decide
example : runSimple ⟨0, false, [⟨0, 0⟩, ⟨10, 0⟩]⟩ ⟨1, true, [⟨10, 0⟩, ⟨15, 5⟩, ⟨15, -5⟩, ⟨10, 0⟩]⟩ 0 0 = true := by decide
example : runSimple ⟨0, true, [⟨0, 0⟩, ⟨10, 0⟩, ⟨0, 10⟩, ⟨0, 0⟩]⟩ ⟨0, true, [⟨0, 0⟩, ⟨10, 0⟩, ⟨0, 10⟩, ⟨0, 0⟩]⟩ 0 2 = false := by decide

end GeosModel.C05GenSimple
