import GeosModel.Proofs.Kernel.FilterGrid
import GeosModel.Proofs.Kernel.RayCountCorrect
import GeosModel.Proofs.Kernel.SegSegCorrect
import GeosModel.Proofs.Kernel.Parity
import GeosModel.Proofs.Kernel.DDGrid
import GeosModel.Proofs.Kernel.CCWTriangle
import GeosModel.Proofs.Kernel.PolyLocateCorrect
import GeosModel.Proofs.Kernel.IndexedLocateCorrect
import GeosModel.Proofs.Kernel.PointLocatorCorrect
/-!
# C07 — orientation, point-in-ring and segment intersection are exact on grid inputs

Specifications: `Base/Kernel` (`det`, `orient`, `onSegment`, `segRel`, `crosses`, `locateInRing`, `area2`),
exact over `Int`.  Models (`Model/Kernel/*`): the floating-point filter and the double-double fallback
over round-to-nearest-even dyadic arithmetic (`Filter`), `RayCrossingCounter` (`RayCount`),
`LineIntersector::computeIntersect` (`SegSeg`), `Orientation::isCCW` (`CCW`), each following the C++
branch by branch.  Every theorem below quantifies over all inputs (unbounded integers / all dyadic
doubles), with the grid hypothesis stated where it is needed.
-/
namespace GeosModel.C07
open GeosModel.Kernel GeosModel.Filter GeosModel.RayCount GeosModel.SegSeg GeosModel.CCW

/-! ## 1. the orientation filter -/

/-- an integer of magnitude at most `2^53`, times any power of two, is exactly representable:
round-to-nearest-even leaves it unchanged -/
theorem representable_int (n k : Int) (h : n.natAbs ≤ 2 ^ 53) : roundNE (Dy.mk' n k) = Dy.mk' n k :=
  roundNE_mk' n k h

/-- on the grid (coordinates of at most `2^25` units): differences ≤ `2^26`, products ≤ `2^52`,
the two two-term sums ≤ `2^53` -/
theorem grid_ops_exact {a b c : Pt} (ha : OnGrid gridBound a) (hb : OnGrid gridBound b) (hc : OnGrid gridBound c) :
    (a.x - c.x).natAbs ≤ 2 ^ 26 ∧ (b.y - c.y).natAbs ≤ 2 ^ 26 ∧ (a.y - c.y).natAbs ≤ 2 ^ 26 ∧ (b.x - c.x).natAbs ≤ 2 ^ 26 ∧
    ((a.x - c.x) * (b.y - c.y)).natAbs ≤ 2 ^ 52 ∧ ((a.y - c.y) * (b.x - c.x)).natAbs ≤ 2 ^ 52 ∧
    ((a.x - c.x) * (b.y - c.y) - (a.y - c.y) * (b.x - c.x)).natAbs ≤ 2 ^ 53 ∧
    ((a.x - c.x) * (b.y - c.y) + (a.y - c.y) * (b.x - c.x)).natAbs ≤ 2 ^ 53 :=
  Filter.grid_ops_exact ha hb hc

/-- every intermediate of the machine filter (rounding after every operation) is the exact integer value,
for every unit `2^k` and every error coefficient -/
theorem filter_intermediates_exact (coef : Dy) (k : Int) {a b c : Pt}
    (ha : OnGrid gridBound a) (hb : OnGrid gridBound b) (hc : OnGrid gridBound c) :
    let t := filterTrace roundNE coef (ofGrid k a.x) (ofGrid k a.y) (ofGrid k b.x) (ofGrid k b.y) (ofGrid k c.x) (ofGrid k c.y)
    t.detleft = Dy.mk' ((a.x - c.x) * (b.y - c.y)) (k + k) ∧
    t.detright = Dy.mk' ((a.y - c.y) * (b.x - c.x)) (k + k) ∧
    t.det = Dy.mk' (det a b c) (k + k) ∧
    t.detsum = Dy.mk' ((a.x - c.x) * (b.y - c.y) + (a.y - c.y) * (b.x - c.x)) (k + k) :=
  filterTrace_grid coef k ha hb hc

/-- **filter_sound_grid**: on the grid the filter either fails or returns the exact orientation.
This holds for *every* error coefficient: on the grid the constant `3.33e-16` can only make the filter
defer more or less often, never answer wrongly. -/
theorem filter_sound_grid (coef : Dy) (k : Int) {a b c : Pt}
    (ha : OnGrid gridBound a) (hb : OnGrid gridBound b) (hc : OnGrid gridBound c) :
    filterGrid roundNE coef k a b c = FAILURE ∨ filterGrid roundNE coef k a b c = orient a b c := by
  rw [filterGrid_eq_shadow coef k ha hb hc]
  exact filterShadow_sound roundNE coef k a b c

/-- the machine filter on the grid *is* its exact-`Int` shadow -/
theorem filter_eq_shadow_grid (coef : Dy) (k : Int) {a b c : Pt}
    (ha : OnGrid gridBound a) (hb : OnGrid gridBound b) (hc : OnGrid gridBound c) :
    filterGrid roundNE coef k a b c = filterShadow roundNE coef k a b c :=
  filterGrid_eq_shadow coef k ha hb hc

/-- collinear grid points: the filter answers 0 or defers (it never reports a turn) -/
theorem filter_zero_grid (coef : Dy) (k : Int) {a b c : Pt}
    (ha : OnGrid gridBound a) (hb : OnGrid gridBound b) (hc : OnGrid gridBound c) (hd : det a b c = 0) :
    filterGrid roundNE coef k a b c = FAILURE ∨ filterGrid roundNE coef k a b c = 0 := by
  have := filter_sound_grid coef k ha hb hc
  unfold orient at this
  rw [hd, Int.sign_zero] at this
  exact this

/-- **the filter only ever defers**: the full `orientationIndex` returns the filter's answer whenever the
filter does not fail — which on the grid is the exact orientation — and otherwise exactly the result of the
double-double evaluation -/
theorem orientationIndex_grid (k : Int) {a b c : Pt}
    (ha : OnGrid gridBound a) (hb : OnGrid gridBound b) (hc : OnGrid gridBound c) :
    (filterGrid roundNE errCoef k a b c ≠ FAILURE → orientationIndexGrid roundNE k a b c = orient a b c) ∧
    (filterGrid roundNE errCoef k a b c = FAILURE →
      orientationIndexGrid roundNE k a b c =
        orientationIndexDD roundNE (ofGrid k a.x) (ofGrid k a.y) (ofGrid k b.x) (ofGrid k b.y) (ofGrid k c.x) (ofGrid k c.y)) := by
  have hs := filter_sound_grid errCoef k ha hb hc
  have horient : orient a b c ≤ 1 := by
    unfold orient
    rcases Int.lt_trichotomy (det a b c) 0 with h | h | h
    · rw [Int.sign_eq_neg_one_of_neg h]; decide
    · rw [h]; decide
    · rw [Int.sign_eq_one_of_pos h]
  unfold orientationIndexGrid orientationIndex orientationIndexFilter
  unfold filterGrid at hs ⊢
  constructor
  · intro hne
    rcases hs with h | h
    · exact absurd h hne
    · simp only [h, horient, if_true]
  · intro hf
    simp only [hf, FAILURE]
    rfl

/-- **dd_exact_grid**: on the whole `2^25` grid and for every unit `2^k` every operation of the double-double
path (`DD::selfAdd`, `DD::selfMultiply` with the Veltkamp split by `2^27 + 1`) is exact, the low words vanish
and the path returns the exact orientation -/
theorem dd_exact_grid (k : Int) {a b c : Pt}
    (ha : OnGrid gridBound a) (hb : OnGrid gridBound b) (hc : OnGrid gridBound c) :
    orientationIndexDD roundNE (ofGrid k a.x) (ofGrid k a.y) (ofGrid k b.x) (ofGrid k b.y) (ofGrid k c.x) (ofGrid k c.y)
      = orient a b c :=
  dd_exact_grid25 k ha hb hc

/-- **the modelled `Orientation::index` is exact on the grid**: filter plus double-double fallback, over
round-to-nearest-even arithmetic, return the sign of the exact determinant for all grid points with
coordinates of at most `2^25` units and every unit `2^k` -/
theorem orientationIndex_exact_grid (k : Int) {a b c : Pt}
    (ha : OnGrid gridBound a) (hb : OnGrid gridBound b) (hc : OnGrid gridBound c) :
    orientationIndexGrid roundNE k a b c = orient a b c := by
  obtain ⟨h1, h2⟩ := orientationIndex_grid k ha hb hc
  by_cases hf : filterGrid roundNE errCoef k a b c = FAILURE
  · rw [h2 hf]; exact dd_exact_grid25 k ha hb hc
  · exact h1 hf

/-- hence the modelled index is antisymmetric on the grid -/
theorem orientationIndex_antisym_grid (k : Int) {a b c : Pt}
    (ha : OnGrid gridBound a) (hb : OnGrid gridBound b) (hc : OnGrid gridBound c) :
    orientationIndexGrid roundNE k b a c = - orientationIndexGrid roundNE k a b c := by
  rw [orientationIndex_exact_grid k hb ha hc, orientationIndex_exact_grid k ha hb hc, orient_swap12]

/-- **orientation_antisym** (arbitrary doubles, arbitrary error coefficient): for any rounding function that
is odd (`rnd (-x) = -(rnd x)`) swapping the first two points negates the filter's answer, and the filter
fails for one order iff it fails for the other.  No other property of the rounding is used. -/
theorem orientation_antisym (rnd : Dy → Dy) (hodd : ∀ x, rnd (Dy.neg x) = Dy.neg (rnd x))
    (coef ax ay bx by' cx cy : Dy) :
    orientationIndexFilterC rnd coef bx by' ax ay cx cy
      = negIdx (orientationIndexFilterC rnd coef ax ay bx by' cx cy) :=
  filter_antisym rnd hodd coef ax ay bx by' cx cy

/-- round-to-nearest-even is odd, so the machine filter is antisymmetric on all doubles -/
theorem orientation_antisym_roundNE (ax ay bx by' cx cy : Dy) :
    orientationIndexFilter roundNE bx by' ax ay cx cy
      = negIdx (orientationIndexFilter roundNE ax ay bx by' cx cy) :=
  filter_antisym roundNE roundNE_neg errCoef ax ay bx by' cx cy

/-- the specification itself is antisymmetric -/
theorem orient_antisym (a b c : Pt) : orient b a c = - orient a b c := orient_swap12 a b c

/-! ## 2. ray crossing -/

/-- **rayCount_correct**: on every closed ring of `Int` points and for every point, the ported
`RayCrossingCounter::locatePointInRing` (with its early exit) equals the specification -/
theorem rayCount_correct (p : Pt) (ring : List Pt) (hc : Closed ring) :
    locatePointInRing p ring = locateInRing p ring :=
  locatePointInRing_eq p ring hc

/-- the answer is BOUNDARY exactly when the point lies on some segment of the ring -/
theorem onRing_iff (p : Pt) (ring : List Pt) (hc : Closed ring) :
    locatePointInRing p ring = .boundary ↔ ∃ e ∈ edges ring, onSegment e.1 e.2 p = true := by
  rw [rayCount_correct p ring hc]
  unfold locateInRing
  simp only
  by_cases h : (edges ring).any (fun e => onSegment e.1 e.2 p) = true
  · simp only [h, if_true, true_iff]
    simpa [List.any_eq_true] using h
  · have h' : ¬ ∃ e ∈ edges ring, onSegment e.1 e.2 p = true := by
      simpa [List.any_eq_true] using h
    have hf : (edges ring).any (fun e => onSegment e.1 e.2 p) = false := by simpa using h
    simp only [hf, h', iff_false, Bool.false_eq_true, if_false]
    split <;> simp

/-- off the ring, INTERIOR means an odd number of edges satisfying the half-open rule `Kernel.crosses` -/
theorem interior_iff_odd (p : Pt) (ring : List Pt) (hc : Closed ring)
    (hoff : (edges ring).any (fun e => onSegment e.1 e.2 p) = false) :
    locatePointInRing p ring = .interior ↔ ((edges ring).filter (fun e => crosses p e.1 e.2)).length % 2 = 1 := by
  rw [rayCount_correct p ring hc]
  unfold locateInRing
  simp only [hoff]
  split <;> simp_all

/-- per edge: the half-open rule is the strict crossing with the ray perturbed upwards by `1/n` -/
theorem crosses_iff_perturbed (p a b : Pt) (hoff : onSegment a b p = false) (n : Int) (hn2 : 2 ≤ n)
    (hn : (b.x - a.x).natAbs < n) :
    crosses p a b = true ↔ strictCross (perturbUp n p) (Pt.scale n a) (Pt.scale n b) :=
  Kernel.crosses_iff_perturbed p a b hoff n hn2 hn

/-- **locateInRing_parity**: for a point not on the ring and every `ε = 1/n` with `n ≥ ringScale ring`, the
edges counted by the crossing rule are exactly the edges strictly crossed by the ray from `p + (0, ε)`;
in particular the parities agree.  (That odd parity of strict crossings *is* topological interior —
the Jordan curve theorem for polygons — is the definition of interior used throughout and is not proved.) -/
theorem locateInRing_parity (p : Pt) (ring : List Pt)
    (hoff : (edges ring).any (fun e => onSegment e.1 e.2 p) = false) (n : Int) (hn : ringScale ring ≤ n) :
    ((edges ring).filter (fun e => crosses p e.1 e.2)).length % 2 =
      ((edges ring).filter (fun e => decide (strictCross (perturbUp n p) (Pt.scale n e.1) (Pt.scale n e.2)))).length % 2 := by
  rw [crossing_edges_eq_perturbed p ring hoff n hn]

/-! ## 2b. point in polygon with holes -/

/-- **envelope_reject_sound**: the envelope shortcuts of the locators never change an answer — a point outside the
bounding box of a closed ring is EXTERIOR by the even–odd specification (no edge contains it; the edges crossing its
ray are none, or — box to the right — all the edges changing side of the ray's level, an even number) -/
theorem envelope_reject_sound (p : Pt) (ring : List Pt) (hc : Closed ring)
    (h : PolyLocate.envContains ring p = false) : locateInRing p ring = .exterior :=
  PolyLocate.outside_env_exterior p ring hc h

/-- **polygon_locate_correct**: the ported `SimplePointInAreaLocator::locatePointInSurface` (envelope reject, shell
test, loop over the holes with per-hole envelope test and early exits) equals the specification
`Kernel.locateInPolygon` for every polygon with closed rings and every point that is not at once interior to one hole
and on the boundary of another (no valid polygon has such a point) -/
theorem polygon_locate_correct (p : Pt) (rings : List (List Pt)) (hc : ∀ r ∈ rings, Closed r)
    (hsep : PolyLocate.HolesSeparateAt p rings.tail) :
    PolyLocate.locatePointInPolygon p rings = locateInPolygon p rings :=
  PolyLocate.locatePointInPolygon_eq p rings hc hsep

/-- the hypotheses are met by a polygon with two holes whose envelopes overlap (a corner triangle and a square in the
free half of the triangle's envelope), at a point inside the square -/
example :
    let shell : List Pt := [⟨0, 0⟩, ⟨20, 0⟩, ⟨20, 20⟩, ⟨0, 20⟩, ⟨0, 0⟩]
    let tri : List Pt := [⟨2, 2⟩, ⟨2, 18⟩, ⟨18, 2⟩, ⟨2, 2⟩]
    let sq : List Pt := [⟨12, 12⟩, ⟨14, 12⟩, ⟨14, 14⟩, ⟨12, 14⟩, ⟨12, 12⟩]
    (∀ r ∈ [shell, tri, sq], Closed r) ∧ PolyLocate.envContains tri ⟨13, 13⟩ = true ∧
    locateInRing ⟨13, 13⟩ tri = .exterior ∧ locateInRing ⟨13, 13⟩ sq = .interior ∧
    PolyLocate.locatePointInPolygon ⟨13, 13⟩ [shell, tri, sq] = .exterior := by decide

/-- **indexed_locate_correct**: the ported `IndexedPointInAreaLocator::locate` — every ring segment whose y-range
contains `p.y`, fed to one `RayCrossingCounter` in *any* order the interval index happens to visit them, no early
exit — equals the specification for every polygon with closed rings whose holes lie in the shell and of which at
most one contains `p`.  Ingredients proved on the way: the counter's result is invariant under permutation of the
visit (`visit_perm`), and the interval query drops only segments that contribute nothing (`visit_filter`). -/
theorem indexed_locate_correct (p : Pt) (shell : List Pt) (holes : List (List Pt)) (visited : List (Pt × Pt))
    (hperm : visited.Perm ((PolyLocate.allSegs (shell :: holes)).filter (PolyLocate.inYRange p)))
    (hc : ∀ r ∈ shell :: holes, Closed r)
    (hin : PolyLocate.HolesInShellAt p shell holes) (hone : PolyLocate.AtMostOneHoleAt p holes) :
    getLocation (PolyLocate.visit p visited) = locateInPolygon p (shell :: holes) :=
  PolyLocate.locateIndexed_eq p shell holes visited hperm hc hin hone

/-- the interval query is lossless: a segment whose y-range misses `p.y` changes nothing in the counter -/
theorem interval_query_lossless (p : Pt) (es : List (Pt × Pt)) :
    PolyLocate.visit p (es.filter (PolyLocate.inYRange p)) = PolyLocate.visit p es :=
  PolyLocate.visit_filter p es

/-- hypotheses of `indexed_locate_correct` met at a point inside the second hole of the two-hole polygon above -/
example :
    let shell : List Pt := [⟨0, 0⟩, ⟨20, 0⟩, ⟨20, 20⟩, ⟨0, 20⟩, ⟨0, 0⟩]
    let tri : List Pt := [⟨2, 2⟩, ⟨2, 18⟩, ⟨18, 2⟩, ⟨2, 2⟩]
    let sq : List Pt := [⟨12, 12⟩, ⟨14, 12⟩, ⟨14, 14⟩, ⟨12, 14⟩, ⟨12, 12⟩]
    locateInRing ⟨13, 13⟩ shell = .interior ∧ locateInRing ⟨13, 13⟩ tri = .exterior ∧ locateInRing ⟨13, 13⟩ sq = .interior ∧
    ([tri, sq].filter (fun h => locateInRing ⟨13, 13⟩ h == .interior)).length ≤ 1 ∧
    PolyLocate.locateIndexed ⟨13, 13⟩ [shell, tri, sq] = .exterior := by decide

/-! ## 2c. the general-purpose `algorithm::PointLocator` -/

/-- **pointLocator_ring_correct**: the ported `PointLocator::locateInPolygonRing` (envelope reject, boundary scan
`PointLocation::isOnLine`, then `PointLocation::isInRing`) equals the specification on every closed ring, for every point -/
theorem pointLocator_ring_correct (p : Pt) (ring : List Pt) (hc : Closed ring) :
    PointLocator.locateInPolygonRing p ring = locateInRing p ring :=
  PointLocator.locateInPolygonRing_eq p ring hc

/-- **pointLocator_polygon_correct**: the ported `PointLocator::locate(p, Polygon)` (shell first, then the holes in order
with early exits) equals `Kernel.locateInPolygon` under the hypotheses of `polygon_locate_correct` -/
theorem pointLocator_polygon_correct (p : Pt) (rings : List (List Pt)) (hc : ∀ r ∈ rings, Closed r)
    (hsep : PolyLocate.HolesSeparateAt p rings.tail) :
    PointLocator.locatePolygon p rings = locateInPolygon p rings :=
  PointLocator.locatePolygon_eq p rings hc hsep

/-- the two polygon locators agree on all closed rings, with no hypothesis on the holes -/
theorem pointLocator_agrees_with_simple (p : Pt) (rings : List (List Pt)) (hc : ∀ r ∈ rings, Closed r) :
    PointLocator.locatePolygon p rings = PolyLocate.locatePointInPolygon p rings :=
  PointLocator.locatePolygon_eq_simple p rings hc

/-- **the order of the two ring tests is essential**: `isInRing` is true on the ring, so with the ray-crossing test
placed before the boundary scan the ring locator never answers BOUNDARY — it says INTERIOR wherever the specification
says INTERIOR or BOUNDARY (a point on a hole ring would then be EXTERIOR of the polygon) -/
theorem pointLocator_order_essential (p : Pt) (ring : List Pt) (hc : Closed ring) :
    PointLocator.locateInPolygonRingSwapped p ring ≠ .boundary ∧
    PointLocator.locateInPolygonRingSwapped p ring =
      (if locateInRing p ring = .exterior then .exterior else .interior) :=
  ⟨PointLocator.swapped_never_boundary p ring hc, PointLocator.swapped_eq p ring hc⟩

/-- `PointLocation::isOnLine` is the exact "some segment of the chain contains the point", for every chain -/
theorem isOnLine_exact (p : Pt) (l : List Pt) :
    isOnLine p l = (edges l).any (fun e => onSegment e.1 e.2 p) :=
  PointLocator.isOnLine_eq_any p l

/-- **pointLocator_line**: `PointLocator::locate(p, LineString)` answers BOUNDARY exactly at the first / last vertex of a
chain that is not closed, otherwise INTERIOR exactly on the segments of the chain; the envelope reject changes nothing -/
theorem pointLocator_line (p : Pt) (pts : List Pt) :
    PointLocator.locateLine p pts =
      if PointLocator.lineClosed pts = false ∧ (pts.head? = some p ∨ pts.getLast? = some p) then .boundary
      else if (edges pts).any (fun e => onSegment e.1 e.2 p) then .interior else .exterior :=
  PointLocator.locateLine_eq p pts

/-- **pointLocator_collection_mod2**: on MULTI* / GEOMETRYCOLLECTION (nested, with empty elements) the walk
`computeLocation` / `updateLocationInfo` and the final test are the Mod-2 rule over the locations of the non-empty
atomic elements -/
theorem pointLocator_collection_mod2 (p : Pt) (es : List PointLocator.Geo) :
    PointLocator.locate p (.coll es) =
      let ls := PointLocator.leafLocsList p es
      if ls.count .boundary % 2 = 1 then .boundary
      else if 0 < ls.count .boundary ∨ .interior ∈ ls then .interior else .exterior :=
  PointLocator.locate_coll p es

-- a square with a square hole: on the hole ring the polygon answer is BOUNDARY, the swapped ring test would make it EXTERIOR
example :
    let shell : List Pt := [⟨0, 0⟩, ⟨20, 0⟩, ⟨20, 20⟩, ⟨0, 20⟩, ⟨0, 0⟩]
    let hole : List Pt := [⟨6, 6⟩, ⟨14, 6⟩, ⟨14, 14⟩, ⟨6, 14⟩, ⟨6, 6⟩]
    PointLocator.locatePolygon ⟨10, 6⟩ [shell, hole] = .boundary ∧ PointLocator.locatePolygon ⟨14, 14⟩ [shell, hole] = .boundary ∧
    PointLocator.locatePolygon ⟨10, 10⟩ [shell, hole] = .exterior ∧ PointLocator.locatePolygon ⟨3, 3⟩ [shell, hole] = .interior ∧
    PointLocator.locatePolygon ⟨0, 7⟩ [shell, hole] = .boundary ∧
    PointLocator.locateInPolygonRingSwapped ⟨10, 6⟩ hole = .interior := by decide
-- two lines sharing an end point: Mod-2 makes the shared end INTERIOR, the free ends BOUNDARY
example :
    let g : PointLocator.Geo := .coll [.line [⟨0, 0⟩, ⟨4, 0⟩], .coll [.line [⟨4, 0⟩, ⟨4, 4⟩], .point none]]
    PointLocator.locate ⟨4, 0⟩ g = .interior ∧ PointLocator.locate ⟨0, 0⟩ g = .boundary ∧
    PointLocator.locate ⟨2, 0⟩ g = .interior ∧ PointLocator.locate ⟨2, 1⟩ g = .exterior := by decide

/-! ## 3. segment / segment -/

/-- **segseg_classification**: for all `Int` segments (degenerate ones included) the meaning of the ported
`computeIntersect` result — NO / POINT (proper or not) / COLLINEAR, a collinear result whose two points
coincide being one point — is the specification `Kernel.segRel` -/
theorem segseg_classification (p1 p2 q1 q2 : Pt) :
    (computeIntersect p1 p2 q1 q2).classify = segRel p1 p2 q1 q2 :=
  classify_eq_segRel p1 p2 q1 q2

/-- for segments of positive length the raw result code is the specification -/
theorem segseg_code_nondegenerate (p1 p2 q1 q2 : Pt) (hp : p1 ≠ p2) (hq : q1 ≠ q2) :
    (computeIntersect p1 p2 q1 q2).rawClass = segRel p1 p2 q1 q2 :=
  rawClass_eq_segRel p1 p2 q1 q2 hp hq

/-- the unrestricted statement "the raw result code is the specification" -/
def C07_segseg_code_full : Prop :=
  ∀ p1 p2 q1 q2 : Pt, (computeIntersect p1 p2 q1 q2).rawClass = segRel p1 p2 q1 q2

/-- … is false of the code: a zero-length segment lying on another segment is reported as
COLLINEAR_INTERSECTION (with two identical points), although the common set is a single point -/
theorem segseg_code_full_false : ¬ C07_segseg_code_full := by
  intro h
  have := h ⟨0, 0⟩ ⟨2, 0⟩ ⟨1, 0⟩ ⟨1, 0⟩
  revert this
  decide

/-- there is an intersection iff the segments have a common point -/
theorem hasIntersection_iff (p1 p2 q1 q2 : Pt) :
    (computeIntersect p1 p2 q1 q2).code ≠ 0 ↔ segRel p1 p2 q1 q2 ≠ .disjoint := by
  rw [← segseg_classification]
  unfold LI.classify
  split
  · rename_i h; simp [h]
  · rename_i h; simp [h]
  · rename_i h0 h1
    constructor
    · intro _
      split
      · split <;> simp
      · simp
    · intro _; exact h0

/-- `isProper` ⇔ the segments cross in a single point interior to both -/
theorem isProper_iff (p1 p2 q1 q2 : Pt) :
    (computeIntersect p1 p2 q1 q2).proper = true ↔ segRel p1 p2 q1 q2 = .point true :=
  proper_iff p1 p2 q1 q2

/-- the reported endpoint intersections are real: each lies on both segments -/
theorem reported_endpoints_common (p1 p2 q1 q2 : Pt) :
    ∀ x ∈ (computeIntersect p1 p2 q1 q2).reported, onSegment p1 p2 x = true ∧ onSegment q1 q2 x = true :=
  reported_on_both p1 p2 q1 q2

/-- a proper intersection carries the exact rational point of `CGAlgorithmsDD::intersection`, which has a
non-zero denominator, lies on both lines and inside both segments' bounding boxes (so the envelope clamp
of `LineIntersector::intersection` is consistent with the true point) -/
theorem proper_point_in_envelopes (p1 p2 q1 q2 : Pt) (h : (computeIntersect p1 p2 q1 q2).proper = true) :
    ∃ r, (computeIntersect p1 p2 q1 q2).rat = some r ∧ r = intersectionRat p1 p2 q1 q2 ∧ r.w ≠ 0 ∧
      r.inBox p1 p2 = true ∧ r.inBox q1 q2 = true ∧ r.onLine p1 p2 = true ∧ r.onLine q1 q2 = true := by
  rcases computeIntersect_cases p1 p2 q1 q2 with e | ⟨_, e⟩ | ⟨_, _, _, _, e⟩ | ⟨h12, h34, e⟩
  · rw [e] at h; exact absurd h Bool.false_ne_true
  · rw [e, collinear_not_proper] at h; exact absurd h Bool.false_ne_true
  · rw [e] at h; exact absurd h Bool.false_ne_true
  · obtain ⟨hw, hb1, hb2, hl1, hl2⟩ := proper_point p1 p2 q1 q2 h12 h34
    exact ⟨_, by rw [e], rfl, hw, hb1, hb2, hl1, hl2⟩

/-- the specification is symmetric in its two segments -/
theorem segRel_symmetric (p1 p2 q1 q2 : Pt) : segRel q1 q2 p1 p2 = segRel p1 p2 q1 q2 :=
  segRel_symm p1 p2 q1 q2

/-! ## 4. signed area -/

/-- reversing a ring negates its signed area; rotating a closed ring keeps it -/
theorem area2_reverse_rotate (ring : List Pt) :
    area2 ring.reverse = - area2 ring ∧
    (ring.head? = ring.getLast? → area2 (rotate1 ring) = area2 ring) :=
  ⟨Kernel.area2_reverse ring, Kernel.area2_rotate1 ring⟩

/-- a simple ring: closed, at least a triangle, consecutive edges meet only in their shared vertex, all other
pairs of edges are disjoint -/
def simpleRingB (ring : List Pt) : Bool :=
  let es := edges ring
  decide (Closed ring) && decide (4 ≤ ring.length) &&
  (List.range es.length).all (fun j => (List.range j).all (fun i =>
    match es[i]?, es[j]? with
    | some e, some f =>
      if j = i + 1 ∨ (i = 0 ∧ j + 1 = es.length) then segRel e.1 e.2 f.1 f.2 == .point false
      else segRel e.1 e.2 f.1 f.2 == .disjoint
    | _, _ => true))

def SimpleRing (ring : List Pt) : Prop := simpleRingB ring = true

instance (ring : List Pt) : Decidable (SimpleRing ring) := by unfold SimpleRing; exact inferInstance

/-- the full statement for ring orientation (not proved): on every simple ring of non-zero area the ported
extremal-vertex method agrees with the sign of the signed area -/
def C07_isCCW_full : Prop :=
  ∀ ring : List Pt, SimpleRing ring → area2 ring ≠ 0 → isCCW ring = ccwSpec ring

/-- **isCCW_exact (PARTIAL: triangles)**: for every ring `[a, b, c, a]` of non-zero area the ported
`Orientation::isCCW` returns the sign of the signed area `Kernel.area2`.  Missing for `C07_isCCW_full`:
rings with more than three vertices (checked by correspondence on generated simple rings). -/
theorem isCCW_exact_partial (a b c : Pt) (h : area2 [a, b, c, a] ≠ 0) :
    isCCW [a, b, c, a] = ccwSpec [a, b, c, a] :=
  isCCW_triangle a b c h

/-! ## non-vacuity -/

-- grid points at the bound satisfy the hypothesis; the filter answers on a clear turn and defers on a tie
example : OnGrid gridBound ⟨2 ^ 25, -(2 ^ 25)⟩ := by decide
example : filterGrid roundNE errCoef 0 ⟨0, 0⟩ ⟨4, 0⟩ ⟨0, 3⟩ = 1 := by decide
example : filterGrid roundNE errCoef (-500) ⟨0, 0⟩ ⟨33554432, 33554431⟩ ⟨33554431, 33554430⟩ = -1 := by decide
example : orient ⟨0, 0⟩ ⟨33554432, 33554431⟩ ⟨33554431, 33554430⟩ = -1 := by decide
example : filterGrid roundNE errCoef 7 ⟨0, 0⟩ ⟨4, 4⟩ ⟨2, 2⟩ = FAILURE := by decide
example : orientationIndexGrid roundNE 7 ⟨0, 0⟩ ⟨4, 4⟩ ⟨2, 2⟩ = 0 := by decide +kernel
example : OnGrid (2 ^ 24) ⟨2 ^ 24, -(2 ^ 24)⟩ := by decide
-- the extreme span 2^26, where SPLIT·d needs the shifted exponent
example : filterGrid roundNE errCoef 3 ⟨2 ^ 25, 2 ^ 25⟩ ⟨-(2 ^ 25), -(2 ^ 25)⟩ ⟨0, 0⟩ = FAILURE := by decide
example : orientationIndexGrid roundNE 3 ⟨2 ^ 25, 2 ^ 25⟩ ⟨-(2 ^ 25), -(2 ^ 25)⟩ ⟨0, 0⟩ = 0 := by decide +kernel
example : area2 [⟨0, 0⟩, ⟨4, 0⟩, ⟨0, 3⟩, ⟨0, 0⟩] = 12 := by decide
example : isCCW [⟨0, 0⟩, ⟨4, 0⟩, ⟨0, 3⟩, ⟨0, 0⟩] = true := by decide
example : isCCW [⟨0, 0⟩, ⟨0, 3⟩, ⟨4, 0⟩, ⟨0, 0⟩] = false := by decide
example : SimpleRing [⟨0, 0⟩, ⟨4, 0⟩, ⟨0, 3⟩, ⟨0, 0⟩] := by decide
example : ¬ SimpleRing [⟨0, 0⟩, ⟨4, 4⟩, ⟨4, 0⟩, ⟨0, 4⟩, ⟨0, 0⟩] := by decide
-- rounding really rounds: 2^53 + 1 is not representable and goes to the even neighbour
example : roundNE ⟨2 ^ 53 + 1, 0⟩ = ⟨2 ^ 52, 1⟩ := by decide
example : roundNE ⟨2 ^ 53 + 3, 0⟩ = ⟨2 ^ 52 + 2, 1⟩ := by decide
-- a closed ring, a point inside, on a vertex, on a horizontal edge, level with a vertex outside
example : Closed [⟨0, 0⟩, ⟨4, 0⟩, ⟨4, 4⟩, ⟨0, 4⟩, ⟨0, 0⟩] := by decide
example : locatePointInRing ⟨1, 1⟩ [⟨0, 0⟩, ⟨4, 0⟩, ⟨4, 4⟩, ⟨0, 4⟩, ⟨0, 0⟩] = .interior := by decide
example : locatePointInRing ⟨4, 4⟩ [⟨0, 0⟩, ⟨4, 0⟩, ⟨4, 4⟩, ⟨0, 4⟩, ⟨0, 0⟩] = .boundary := by decide
example : locatePointInRing ⟨2, 4⟩ [⟨0, 0⟩, ⟨4, 0⟩, ⟨4, 4⟩, ⟨0, 4⟩, ⟨0, 0⟩] = .boundary := by decide
example : locatePointInRing ⟨-1, 4⟩ [⟨0, 0⟩, ⟨4, 0⟩, ⟨4, 4⟩, ⟨0, 4⟩, ⟨0, 0⟩] = .exterior := by decide
-- the three result codes, a proper crossing with a non-lattice point, a T-junction
example : (computeIntersect ⟨0, 0⟩ ⟨3, 1⟩ ⟨0, 1⟩ ⟨2, 0⟩).proper = true := by decide
example : (computeIntersect ⟨0, 0⟩ ⟨3, 1⟩ ⟨0, 1⟩ ⟨2, 0⟩).rat = some ⟨-6, -2, -5⟩ := by decide
example : (computeIntersect ⟨0, 0⟩ ⟨4, 0⟩ ⟨2, 0⟩ ⟨2, 5⟩).reported = [⟨2, 0⟩] := by decide
example : (computeIntersect ⟨0, 0⟩ ⟨4, 0⟩ ⟨2, 0⟩ ⟨6, 0⟩).rawClass = .overlap := by decide
example : (computeIntersect ⟨0, 0⟩ ⟨4, 0⟩ ⟨5, 0⟩ ⟨6, 0⟩).code = 0 := by decide

end GeosModel.C07
