import GeosModel.Proofs.Valid.GenBridge
import GeosModel.Proofs.Valid.NodeTopo
import GeosModel.Proofs.Valid.WedgeDet
import GeosModel.Generated.NodeTopology
/-!
# C05 — the regenerated `PolygonNodeTopology` is the model the CORE theorems are about

`Generated/NodeTopology.lean` is rewritten from `src/algorithm/PolygonNodeTopology.cpp` and `include/geos/geom/Quadrant.h` by
`translate/cxx2lean.py` (spec `node_topology`) on every run, statement by statement: `Quadrant::quadrant(double, double)` and all
seven functions of `PolygonNodeTopology`.  The quadrant numbers and the orientation enumerators are read from the headers;
`Orientation::index` is the parameter `orientationIndex`, instantiated here with `Kernel.orient` (exactness of the orientation
predicate on the grid is C07's subject).  `Quadrant::quadrant` throws for the zero vector, so the regenerated functions live in
`Except`; the theorems below prove each of them equal to `ok` of the hand-written model of `Model/Valid/NodeTopo.lean` — the
object of the CORE theorems of `Props/C05.lean` — for **all** integer points different from the node (and that the zero
vector is exactly the throwing case).  The last theorems restate two CORE results for the regenerated functions themselves.
-/
set_option linter.unusedTactic false
set_option linter.unreachableTactic false
set_option linter.unusedSimpArgs false
namespace GeosModel.C05Gen
open GeosModel GeosModel.Kernel GeosModel.Valid GeosModel.Generated GeosModel.ValidGen

theorem gen_quadrantD_eq (dx dy : Int) (h : ¬ (dx = 0 ∧ dy = 0)) :
    NodeTopology.quadrantD dx dy = .ok ((Valid.quadrantD dx dy : Nat) : Int) := by
  unfold NodeTopology.quadrantD Valid.quadrantD
  simp [Cxx.ge, h]
  repeat' split
  all_goals first | rfl | omega | (simp_all; done) | grind

/-- the zero vector is the throwing case of `Quadrant::quadrant` (the model maps it to `NE`; no caller passes it) -/
theorem gen_quadrantD_zero : NodeTopology.quadrantD (0 : Int) 0 = .error "IllegalArgumentException" := by
  unfold NodeTopology.quadrantD
  simp [Cxx.ge]

theorem gen_quadrant_eq (o p : Pt) (h : p ≠ o) :
    NodeTopology.quadrant (xy o) (xy p) = .ok ((Valid.quadrant o p : Nat) : Int) := by
  unfold NodeTopology.quadrant Valid.quadrant
  simp [gen_quadrantD_eq _ _ ((pt_ne_iff o p).1 h)]

theorem gen_quadrant_throws (o : Pt) : NodeTopology.quadrant (xy o) (xy o) = .error "IllegalArgumentException" := by
  unfold NodeTopology.quadrant
  simp [gen_quadrantD_zero]

theorem gen_compareAngle_eq (o p q : Pt) (hp : p ≠ o) (hq : q ≠ o) :
    NodeTopology.compareAngle oi (xy o) (xy p) (xy q) = .ok (Valid.compareAngle o p q) := by
  unfold NodeTopology.compareAngle Valid.compareAngle
  simp [gen_quadrant_eq _ _ hp, gen_quadrant_eq _ _ hq]
  repeat' split
  all_goals first | rfl | omega | (simp_all; done) | grind

theorem gen_isAngleGreater_eq (o p q : Pt) (hp : p ≠ o) (hq : q ≠ o) :
    NodeTopology.isAngleGreater oi (xy o) (xy p) (xy q) = .ok (Valid.isAngleGreater o p q) := by
  unfold NodeTopology.isAngleGreater Valid.isAngleGreater
  simp [gen_quadrant_eq _ _ hp, gen_quadrant_eq _ _ hq]
  repeat' split
  all_goals first | rfl | omega | (simp_all; done) | grind

theorem gen_isBetween_eq (o p e0 e1 : Pt) (hp : p ≠ o) (h0 : e0 ≠ o) (h1 : e1 ≠ o) :
    NodeTopology.isBetween oi (xy o) (xy p) (xy e0) (xy e1) = .ok (Valid.isBetween o p e0 e1) := by
  unfold NodeTopology.isBetween Valid.isBetween
  simp [gen_isAngleGreater_eq _ _ _ hp h0, gen_isAngleGreater_eq _ _ _ hp h1]
  repeat' split
  all_goals first | rfl | omega | (simp_all; done) | grind

theorem gen_compareBetween_eq (o p e0 e1 : Pt) (hp : p ≠ o) (h0 : e0 ≠ o) (h1 : e1 ≠ o) :
    NodeTopology.compareBetween oi (xy o) (xy p) (xy e0) (xy e1) = .ok (Valid.compareBetween o p e0 e1) := by
  unfold NodeTopology.compareBetween Valid.compareBetween
  simp [gen_compareAngle_eq _ _ _ hp h0, gen_compareAngle_eq _ _ _ hp h1]
  repeat' split
  all_goals first | rfl | omega | (simp_all; done) | grind

theorem gen_isCrossing_eq (n a0 a1 b0 b1 : Pt) (h0 : a0 ≠ n) (h1 : a1 ≠ n) (hb0 : b0 ≠ n) (hb1 : b1 ≠ n) :
    NodeTopology.isCrossing oi (xy n) (xy a0) (xy a1) (xy b0) (xy b1) = .ok (Valid.isCrossing n a0 a1 b0 b1) := by
  unfold NodeTopology.isCrossing Valid.isCrossing
  simp only [gen_isAngleGreater_eq _ _ _ h0 h1]
  cases hs : Valid.isAngleGreater n a0 a1 <;>
    simp [gen_compareBetween_eq, h0, h1, hb0, hb1] <;>
    (repeat' split) <;> first | rfl | omega | (simp_all; done) | grind

theorem gen_isInteriorSegment_eq (n a0 a1 b : Pt) (h0 : a0 ≠ n) (h1 : a1 ≠ n) (hb : b ≠ n) :
    NodeTopology.isInteriorSegment oi (xy n) (xy a0) (xy a1) (xy b) = .ok (Valid.isInteriorSegment n a0 a1 b) := by
  unfold NodeTopology.isInteriorSegment Valid.isInteriorSegment
  simp only [gen_isAngleGreater_eq _ _ _ h0 h1]
  cases hs : Valid.isAngleGreater n a0 a1 <;>
    simp [gen_isBetween_eq, h0, h1, hb] <;>
    (repeat' split) <;> first | rfl | omega | (simp_all; done) | grind

/-- **the regenerated `isCrossing` decides the wedge specification**: the code generated from the current
`PolygonNodeTopology.cpp` returns `true` exactly when `b0` and `b1` lie strictly in different open wedges of the corner
`(a0, a1)` (`Props/C05.isCrossing_iff` transported along the bridge) -/
theorem gen_isCrossing_iff_wedge (n a0 a1 b0 b1 : Pt) (h0 : a0 ≠ n) (h1 : a1 ≠ n) (hb0 : b0 ≠ n) (hb1 : b1 ≠ n) :
    NodeTopology.isCrossing oi (xy n) (xy a0) (xy a1) (xy b0) (xy b1) = .ok (crossAt n a0 a1 b0 b1) := by
  rw [gen_isCrossing_eq n a0 a1 b0 b1 h0 h1 hb0 hb1, Valid.isCrossing_eq_crossAt n a0 a1 b0 b1 h0 h1 hb0 hb1]

/-- **the regenerated `isInteriorSegment` decides "the segment lies inside the corner"** stated in orientation determinants
only (`Props/C05.isInteriorSegment_iff_det` transported along the bridge) -/
theorem gen_isInteriorSegment_iff_det (n a0 a1 b : Pt) (h0 : a0 ≠ n) (h1 : a1 ≠ n) (hb : b ≠ n) :
    NodeTopology.isInteriorSegment oi (xy n) (xy a0) (xy a1) (xy b) =
      .ok (inSweep n a0 b a1 || (sameDir n b a1 && !sameDir n a0 a1)) := by
  rw [gen_isInteriorSegment_eq n a0 a1 b h0 h1 hb, Valid.isInteriorSegment_eq_det n a0 a1 b h0 h1 hb]

/-! non-vacuity: the regenerated code evaluates, and throws exactly on a repeated point -/
example : NodeTopology.isCrossing oi (xy ⟨0, 0⟩) (xy ⟨1, 0⟩) (xy ⟨-1, 0⟩) (xy ⟨0, 1⟩) (xy ⟨0, -1⟩) = .ok true := by decide
example : NodeTopology.isCrossing oi (xy ⟨0, 0⟩) (xy ⟨1, 0⟩) (xy ⟨-1, 0⟩) (xy ⟨0, 1⟩) (xy ⟨1, 1⟩) = .ok false := by decide
example : NodeTopology.isInteriorSegment oi (xy ⟨0, 0⟩) (xy ⟨0, -1⟩) (xy ⟨1, 0⟩) (xy ⟨1, -1⟩) = .ok true := by decide
example : NodeTopology.isCrossing oi (xy ⟨0, 0⟩) (xy ⟨0, 0⟩) (xy ⟨-1, 0⟩) (xy ⟨0, 1⟩) (xy ⟨1, 1⟩) = .error "IllegalArgumentException" := by decide

end GeosModel.C05Gen
