import GeosModel.Model.Overlay.Core
import GeosModel.Generated.OverlayCore
/-!
# C03 — the regenerated overlay decision functions are the models the theorems are about

`Generated/OverlayCore.lean` is rewritten from `src/operation/overlayng/OverlayNG.cpp` / `OverlayUtil.cpp` by
`translate/cxx2lean.py` (spec `overlay_core`) on every run, statement by statement (the op codes are read from
`OverlayNG.h`, the numbering of `Location` is checked against `Location.h`).  The theorems below prove each
regenerated function equal to the hand-written model of `Model/Overlay/Core.lean` — the object of the CORE theorems of
`Props/C03.lean` — for **every** op code (also the unknown ones), location pair and dimension pair, and for every
interpretation of the two external predicates `isEmpty`, `isEnvDisjoint` of `isEmptyResult`.
-/
namespace GeosModel.C03Gen
open GeosModel GeosModel.Overlay GeosModel.Generated

theorem gen_isResultOfOp_eq (opCode : Int) (l0 l1 : Loc3) :
    OverlayCore.isResultOfOp opCode l0 l1 = isResultOfOpCode opCode l0 l1 := by
  unfold OverlayCore.isResultOfOp isResultOfOpCode
  cases l0 <;> cases l1 <;> simp <;> (repeat' split) <;> simp_all

/-- on a legal op code the regenerated function is `Overlay.resultDimension` -/
theorem gen_resultDimension_eq (op : Op) (d0 d1 : Int) :
    OverlayCore.resultDimension op.code d0 d1 = resultDimension op d0 d1 := by
  cases op <;> simp [OverlayCore.resultDimension, resultDimension, Op.code] <;> (repeat' split) <;> omega

/-- an unknown op code gives −1 (`Dimension::False`) -/
theorem gen_resultDimension_unknown (c d0 d1 : Int) (h : Op.ofCode c = none) :
    OverlayCore.resultDimension c d0 d1 = -1 := by
  have h1 : c ≠ 1 := by intro hc; simp [Op.ofCode, hc] at h
  have h2 : c ≠ 2 := by intro hc; simp [Op.ofCode, hc] at h
  have h3 : c ≠ 3 := by intro hc; simp [Op.ofCode, hc] at h
  have h4 : c ≠ 4 := by intro hc; simp [Op.ofCode, hc] at h
  simp [OverlayCore.resultDimension, h1, h2, h3, h4]

/-- with a floating precision model `isEnvDisjoint(a, b, pm)` is `Overlay.isEnvDisjoint` of the three facts the model
reads; the regenerated `isEmptyResult` then equals the model for every legal op code -/
theorem gen_isEmptyResult_eq {G PM : Type} (isEnvDisjointF : G → G → PM → Bool) (isEmptyF : G → Bool)
    (op : Op) (a b : G) (pm : PM) (envDisj : Bool)
    (henv : isEnvDisjointF a b pm = isEnvDisjoint (isEmptyF a) (isEmptyF b) envDisj) :
    OverlayCore.isEmptyResult isEnvDisjointF isEmptyF op.code a b pm
      = isEmptyResult op (isEmptyF a) (isEmptyF b) envDisj := by
  cases op <;> simp [OverlayCore.isEmptyResult, isEmptyResult, Op.code, henv]

/-- an unknown op code is never declared empty -/
theorem gen_isEmptyResult_unknown {G PM : Type} (f : G → G → PM → Bool) (e : G → Bool) (c : Int) (a b : G) (pm : PM)
    (h : Op.ofCode c = none) : OverlayCore.isEmptyResult f e c a b pm = false := by
  have h1 : c ≠ 1 := by intro hc; simp [Op.ofCode, hc] at h
  have h2 : c ≠ 2 := by intro hc; simp [Op.ofCode, hc] at h
  have h3 : c ≠ 3 := by intro hc; simp [Op.ofCode, hc] at h
  have h4 : c ≠ 4 := by intro hc; simp [Op.ofCode, hc] at h
  simp [OverlayCore.isEmptyResult, h1, h2, h3, h4]

end GeosModel.C03Gen
