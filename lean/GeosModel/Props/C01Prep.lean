import GeosModel.Model.Relate.PrepPoly
/-!
# C01 — the prepared-polygon fast paths (contains / covers / containsProperly / intersects)

Theorems about the decision core of Model/Relate/PrepPoly.lean (tied to the compiled classes by stream `prep-core`),
for ALL fact lists:

* the last step of the fast paths looks at EVERY ring / element of the target: any representative point that is not in
  the exterior of the test area decides, whichever position it has (`*_of_ring_in_test_area`), the answers are invariant
  under reordering the rings / elements of the target and the components of the test geometry (`*_perm`);
* `getOutermostTestComponentLocation` is the maximum in the order Interior < Boundary < Exterior (`outermost_*_iff`);
* the four fast paths respect the implication chain of their DE-9IM definitions
  containsProperly ⇒ contains ⇒ covers ⇒ intersects (`containsProperly_imp_contains`, `contains_imp_covers`,
  `covers_imp_intersects`; the same chain for matrices: `im_*`).
-/
namespace GeosModel.PrepPoly
open GeosModel

/-! ### `isAnyTargetComponentInAreaTest` -/

theorem anyTargetInArea_eq_any (l : List Loc3) : anyTargetInArea l = l.any (· != .E) := by
  induction l with
  | nil => rfl
  | cons x r ih =>
    cases x <;> simp [anyTargetInArea, ih]

/-- true exactly when SOME representative point is not in the exterior of the test area -/
theorem anyTargetInArea_iff (l : List Loc3) : anyTargetInArea l = true ↔ ∃ x ∈ l, x ≠ .E := by
  rw [anyTargetInArea_eq_any, List.any_eq_true]
  constructor
  · rintro ⟨x, hx, h⟩; exact ⟨x, hx, by simpa using h⟩
  · rintro ⟨x, hx, h⟩; exact ⟨x, hx, by simpa using h⟩

theorem anyTargetInArea_append (a b : List Loc3) :
    anyTargetInArea (a ++ b) = (anyTargetInArea a || anyTargetInArea b) := by
  simp [anyTargetInArea_eq_any]

/-- the order of the rings of a polygon / of the elements of a MultiPolygon does not matter -/
theorem anyTargetInArea_perm {l₁ l₂ : List Loc3} (h : l₁.Perm l₂) : anyTargetInArea l₁ = anyTargetInArea l₂ := by
  have key : ∀ a b : List Loc3, a.Perm b → anyTargetInArea a = true → anyTargetInArea b = true := by
    intro a b hab ha
    obtain ⟨x, hx, hne⟩ := (anyTargetInArea_iff a).mp ha
    exact (anyTargetInArea_iff b).mpr ⟨x, hab.mem_iff.mp hx, hne⟩
  cases h1 : anyTargetInArea l₁ with
  | true => exact (key _ _ h h1).symm
  | false =>
    cases h2 : anyTargetInArea l₂ with
    | false => rfl
    | true => rw [key _ _ h.symm h2] at h1; cases h1

/-- looking at the first representative point only is NOT the same function: a later ring decides -/
example : anyTargetInArea [.E, .I] = true ∧ anyTargetInArea [.E] = false := by decide

/-! ### `getOutermostTestComponentLocation` -/

theorem fold_E_iff (l : List Loc3) : ∀ o, l.foldl outerStep o = some .E ↔ (o = some .E ∨ .E ∈ l) := by
  induction l with
  | nil => intro o; simp
  | cons x r ih =>
    intro o
    rw [List.foldl_cons, ih]
    cases o with
    | none => cases x <;> simp [outerStep]
    | some v => cases v <;> cases x <;> simp [outerStep]

theorem fold_none_iff (l : List Loc3) : ∀ o, l.foldl outerStep o = none ↔ (o = none ∧ l = []) := by
  induction l with
  | nil => intro o; simp
  | cons x r ih =>
    intro o
    rw [List.foldl_cons, ih]
    cases o with
    | none => simp [outerStep]
    | some v => cases v <;> cases x <;> simp [outerStep]

theorem fold_I_iff (l : List Loc3) : ∀ o, l.foldl outerStep o = some .I ↔
    ((o = none ∧ l ≠ [] ∨ o = some .I) ∧ ∀ x ∈ l, x = .I) := by
  induction l with
  | nil => intro o; simp
  | cons x r ih =>
    intro o
    rw [List.foldl_cons, ih]
    cases o with
    | none => cases x <;> simp [outerStep]
    | some v => cases v <;> cases x <;> simp [outerStep]

theorem outermost_eq_E_iff (l : List Loc3) : outermost l = some .E ↔ .E ∈ l := by
  simp [outermost, fold_E_iff]

theorem outermost_eq_none_iff (l : List Loc3) : outermost l = none ↔ l = [] := by
  simp [outermost, fold_none_iff]

theorem outermost_eq_I_iff (l : List Loc3) : outermost l = some .I ↔ (l ≠ [] ∧ ∀ x ∈ l, x = .I) := by
  simp [outermost, fold_I_iff]

/-- Boundary: some component on the boundary, none in the exterior -/
theorem outermost_eq_B_iff (l : List Loc3) : outermost l = some .B ↔ (.B ∈ l ∧ .E ∉ l) := by
  constructor
  · intro h
    have hE : ¬ (.E ∈ l) := fun hm => by rw [(outermost_eq_E_iff l).mpr hm] at h; cases h
    refine ⟨?_, hE⟩
    apply Classical.byContradiction
    intro hB
    have hall : ∀ x ∈ l, x = .I := by
      intro x hx
      cases x with
      | I => rfl
      | B => exact absurd hx hB
      | E => exact absurd hx hE
    by_cases hn : l = []
    · rw [(outermost_eq_none_iff l).mpr hn] at h; cases h
    · rw [(outermost_eq_I_iff l).mpr ⟨hn, hall⟩] at h; cases h
  · rintro ⟨hB, hE⟩
    cases h : outermost l with
    | none => rw [(outermost_eq_none_iff l).mp h] at hB; cases hB
    | some v =>
      cases v with
      | B => rfl
      | E => exact absurd ((outermost_eq_E_iff l).mp h) hE
      | I => have := ((outermost_eq_I_iff l).mp h).2 _ hB; cases this

/-- the outermost location does not depend on the order in which the components are visited -/
theorem outermost_perm {l₁ l₂ : List Loc3} (h : l₁.Perm l₂) : outermost l₁ = outermost l₂ := by
  cases h1 : outermost l₁ with
  | none =>
    have := (outermost_eq_none_iff l₁).mp h1
    subst this
    rw [List.nil_perm.mp h]; rfl
  | some v =>
    cases v with
    | E => exact ((outermost_eq_E_iff l₂).mpr (h.mem_iff.mp ((outermost_eq_E_iff l₁).mp h1))).symm
    | B =>
      obtain ⟨a, b⟩ := (outermost_eq_B_iff l₁).mp h1
      exact ((outermost_eq_B_iff l₂).mpr ⟨h.mem_iff.mp a, fun hm => b (h.mem_iff.mpr hm)⟩).symm
    | I =>
      obtain ⟨a, b⟩ := (outermost_eq_I_iff l₁).mp h1
      refine ((outermost_eq_I_iff l₂).mpr ⟨?_, fun x hx => b x (h.mem_iff.mpr hx)⟩).symm
      intro hn; subst hn; exact a (List.perm_nil.mp h)

/-! ### a ring of the target inside the test area decides, whichever ring it is -/

/-- contains / covers: no segment intersection, areal test geometry, SOME ring of the target not in the exterior of the
test area (a hole swallowed by the test polygon, a later element of a MultiPolygon …) ⇒ false -/
theorem eval_false_of_ring_in_test_area (ri : Bool) (sh : Shape) (f : Facts) (full : Bool)
    (hp : sh.puntalIE = false) (hd : sh.dim2 = true) (hs : f.segInt = false)
    (x : Loc3) (hx : x ∈ f.repLocs) (hne : x ≠ .E) : eval ri sh f full = false := by
  have ha : anyTargetInArea f.repLocs = true := (anyTargetInArea_iff _).mpr ⟨x, hx, hne⟩
  unfold eval
  simp only [hp, hd, hs, ha, Bool.false_eq_true, if_false, if_true, Bool.false_and]
  split
  · rfl
  · split <;> rfl

theorem containsProperly_false_of_ring_in_test_area (sh : Shape) (f : Facts) (hd : sh.dim2 = true)
    (x : Loc3) (hx : x ∈ f.repLocs) (hne : x ≠ .E) (hs : f.segInt = false) : containsProperly sh f = false := by
  have ha : anyTargetInArea f.repLocs = true := (anyTargetInArea_iff _).mpr ⟨x, hx, hne⟩
  unfold containsProperly
  simp only [hd, hs, ha, Bool.false_eq_true, if_false, if_true]
  split <;> rfl

/-- intersects: an areal, non-puntal test geometry and SOME ring of the target not in the exterior of the test area ⇒ true -/
theorem intersects_true_of_ring_in_test_area (sh : Shape) (f : Facts) (hp : sh.puntal = false) (hd : sh.dim2 = true)
    (x : Loc3) (hx : x ∈ f.repLocs) (hne : x ≠ .E) : intersects sh f = true := by
  have ha : anyTargetInArea f.repLocs = true := (anyTargetInArea_iff _).mpr ⟨x, hx, hne⟩
  unfold intersects
  simp only [hp, hd, ha, Bool.false_eq_true, if_false, if_true]
  split
  · rfl
  · split <;> rfl

/-- conversely, a `true` of the contains / covers fast path without segment intersections means that EVERY ring of the
target has its representative point in the exterior of the (areal) test geometry -/
theorem eval_true_fast_path (ri : Bool) (sh : Shape) (f : Facts) (full : Bool)
    (h : eval ri sh f full = true) (hp : sh.puntalIE = false) (hs : f.segInt = false) (hd : sh.dim2 = true) :
    ∀ x ∈ f.repLocs, x = .E := by
  intro x hx
  apply Classical.byContradiction
  intro hne
  rw [eval_false_of_ring_in_test_area ri sh f full hp hd hs x hx hne] at h
  cases h

/-- the four answers are invariant under reordering the rings / elements of the target -/
theorem answers_perm_rep (ri : Bool) (sh : Shape) (f : Facts) (full : Bool) (l : List Loc3) (h : f.repLocs.Perm l) :
    eval ri sh { f with repLocs := l } full = eval ri sh f full ∧
    containsProperly sh { f with repLocs := l } = containsProperly sh f ∧
    intersects sh { f with repLocs := l } = intersects sh f := by
  have e := anyTargetInArea_perm h
  refine ⟨?_, ?_, ?_⟩
  · unfold eval evalPoint; simp only [e]
  · unfold containsProperly; simp only [e]
  · unfold intersects; simp only [e]

/-! ### the implication chain containsProperly ⇒ contains ⇒ covers ⇒ intersects -/

theorem allInInterior_iff (l : List Loc3) : allInInterior l = true ↔ ∀ x ∈ l, x = .I := by
  unfold allInInterior
  rw [Bool.not_eq_true', List.any_eq_false]
  constructor
  · intro h x hx; have := h x hx; simpa using this
  · intro h x hx; simp [h x hx]

theorem anyInTarget_iff (l : List Loc3) : anyInTarget l = true ↔ ∃ x ∈ l, x ≠ .E := by
  unfold anyInTarget
  rw [List.any_eq_true]
  constructor
  · rintro ⟨x, hx, h⟩; exact ⟨x, hx, by simpa using h⟩
  · rintro ⟨x, hx, h⟩; exact ⟨x, hx, by simpa using h⟩

/-- containsProperly ⇒ contains, for a non-empty test geometry; `hc`: the detector's flags are coherent -/
theorem containsProperly_imp_contains (sh : Shape) (f : Facts) (full : Bool)
    (hc : f.segInt = (f.proper || f.nonProper)) (hne : f.testLocs ≠ [])
    (h : containsProperly sh f = true) : eval true sh f full = true := by
  unfold containsProperly at h
  by_cases hall : allInInterior f.testLocs = true
  · have ho : outermost f.testLocs = some .I := (outermost_eq_I_iff _).mpr ⟨hne, (allInInterior_iff _).mp hall⟩
    by_cases hs : f.segInt = true
    · simp [hall, hs] at h
    · have hs' : f.segInt = false := by simpa using hs
      have hpn : f.proper = false ∧ f.nonProper = false := by
        rw [hs'] at hc
        have := hc.symm
        simpa [Bool.or_eq_false_iff] using this
      simp only [hall, hs', Bool.not_true, Bool.false_eq_true, if_false] at h
      unfold eval evalPoint
      simp only [ho, hs', hpn.1, hpn.2]
      by_cases hpi : sh.puntalIE = true
      · simp [hpi]
      · have hpi' : sh.puntalIE = false := by simpa using hpi
        simp only [hpi', Bool.false_eq_true, if_false, Bool.and_false, Bool.false_and]
        have : (some Loc3.I == some Loc3.E) = false := by decide
        simp only [this, Bool.false_eq_true, if_false]
        exact h
  · have : allInInterior f.testLocs = false := by simpa using hall
    simp [this] at h

/-- contains ⇒ covers (the full topological answers, where asked for, being in the same relation) -/
theorem contains_imp_covers (sh : Shape) (f : Facts) (fullContains fullCovers : Bool)
    (hf : fullContains = true → fullCovers = true)
    (h : eval true sh f fullContains = true) : eval false sh f fullCovers = true := by
  unfold eval at h ⊢
  by_cases hpi : sh.puntalIE = true
  · simp only [hpi, if_true] at h ⊢
    unfold evalPoint at h ⊢
    by_cases ho : (outermost f.testLocs == some .E) = true
    · simp [ho] at h
    · simp [ho]
  · have hpi' : sh.puntalIE = false := by simpa using hpi
    simp only [hpi', Bool.false_eq_true, if_false] at h ⊢
    split
    · rename_i c; simp [c] at h
    · rename_i c1
      simp only [c1] at h
      split
      · rename_i c; simp [c] at h
      · rename_i c2
        simp only [c2] at h
        split
        · rename_i c; simp [c] at h
        · rename_i c3
          simp only [c3] at h
          split
          · rename_i c4; simp only [c4, if_true] at h; exact hf h
          · rename_i c4; simp only [c4] at h; exact h

/-- covers ⇒ intersects, for a non-empty test geometry -/
theorem covers_imp_intersects (sh : Shape) (f : Facts) (full : Bool) (hne : f.testLocs ≠ [])
    (h : eval false sh f full = true) : intersects sh f = true := by
  have ho : outermost f.testLocs ≠ some .E := by
    intro ho
    unfold eval evalPoint at h
    simp [ho] at h
  have hE : ¬ (.E ∈ f.testLocs) := fun hm => ho ((outermost_eq_E_iff _).mpr hm)
  have : anyInTarget f.testLocs = true := by
    rw [anyInTarget_iff]
    cases hl : f.testLocs with
    | nil => exact absurd hl hne
    | cons x r =>
      refine ⟨x, by simp, ?_⟩
      intro hx; subst hx; apply hE; rw [hl]; simp
  unfold intersects
  simp [this]

/-- the same chain for the DE-9IM definitions the four answers stand for (containsProperly = `T**FF*FF*`) -/
theorem im_containsProperly_imp_contains (m : IM) (h : m.matchesPat "T**FF*FF*".toList = true) : m.isContains = true := by
  have h' : m.matchesPat ['T','*','*','F','F','*','F','F','*'] = true := h
  simp only [IM.matchesPat, IM.entries, List.zipWith, List.all, List.length_cons, List.length_nil, id, Bool.and_true,
    Bool.and_eq_true] at h'
  obtain ⟨_, a, _, _, _, _, _, b, c, _⟩ := h'
  have b' : m.ei = -1 := by simpa [IM.matchesSym] using b
  have c' : m.eb = -1 := by simpa [IM.matchesSym] using c
  have a' : IM.T m.ii = true := a
  simp [IM.isContains, a', b', c']

theorem im_contains_imp_covers (m : IM) (h : m.isContains = true) : m.isCovers = true := by
  simp only [IM.isContains, IM.isCovers, IM.hasPointInCommon, Bool.and_eq_true] at h ⊢
  exact ⟨⟨by simp [h.1.1], h.1.2⟩, h.2⟩

theorem im_covers_imp_intersects (m : IM) (hv : m.valid) (h : m.isCovers = true) : m.isIntersects = true := by
  simp only [IM.isCovers, IM.hasPointInCommon, Bool.and_eq_true, Bool.or_eq_true] at h
  obtain ⟨⟨hp, _⟩, _⟩ := h
  obtain ⟨⟨a1, _⟩, ⟨b1, _⟩, _, ⟨c1, _⟩, ⟨d1, _⟩, _⟩ := hv
  simp only [IM.T, IM.matchesSym] at hp
  simp only [IM.isIntersects, IM.isDisjoint]
  simp at hp ⊢
  omega

/-! ### non-vacuity: the hole-swallowing and the later-element situations -/

/-- a polygon with a hole (rings: shell, hole) and a test polygon inside the shell that swallows the hole: the shell's
point is outside the test polygon, the hole's inside — contains / covers / containsProperly are false -/
example : eval true ⟨false, false, true, true, false, 5⟩ ⟨[.I, .I], false, false, false, [.E, .I]⟩ true = false ∧
          containsProperly ⟨false, false, true, true, false, 5⟩ ⟨[.I, .I], false, false, false, [.E, .I]⟩ = false := by decide
/-- a MultiPolygon whose first element is outside the test polygon while a later one lies inside it, the test polygon's
own points outside the target: intersects is true -/
example : intersects ⟨false, false, true, true, false, 5⟩ ⟨[.E, .E], false, false, false, [.E, .I]⟩ = true := by decide
example : eval true ⟨false, false, true, true, false, 5⟩ ⟨[.I, .I], false, false, false, [.E, .E]⟩ false = true := by decide
example : outermost [.I, .B, .I] = some .B ∧ outermost [.B, .E, .I] = some .E ∧ outermost [] = none := by decide

end GeosModel.PrepPoly
