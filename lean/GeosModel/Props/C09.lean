import GeosModel.Proofs.WKB.Top
import GeosModel.Model.WKB.Cxx
/-!
# C09 — WKB and HEX writing followed by reading is the identity, bit for bit

Model: `GeosModel.WKB.write` / `read` (`Model/WKB/Write.lean`, `Read.lean`), a function-by-function
transcription of `WKBWriter.cpp` / `WKBReader.cpp` / `ByteOrderValues.cpp` over the shared geometry
value `GeosModel.G` (ordinates are 64-bit patterns, so "bit-identical" is equality).  The model is tied
to the library built from the current tree by the byte-exact streams of `harness/c09.cpp`
(`checks/C09.py`).

Every `theorem` below is an obligation of the check.  Quantification is over *all* trees (arbitrary
nesting and sizes; proofs are by mutual structural induction on `G` / `List G`) and *all* writer
configurations.  Hypotheses:

* `WFG arc` — the invariants the thirteen geometry constructors enforce (what every `Geometry` object
            satisfies); `arc` is the oracle for the one check that is floating-point arithmetic (the
            circular-string envelope computation) and every theorem holds for every oracle,
* `Fits`  — element counts fit the 32-bit count word,
* `sridFits` — the SRID is a C `int`.

Main results
* `read_write_canon`   what `read (write c g)` is, for every `c` — the value `canon c g`;
* `read_write_id`      the instance for four output dimensions;
* `read_write_lowdim`  lower output dimension = exactly the excess ordinates dropped from that value;
* `roundtrip_plain`    on "plain" inputs `canon` coincides with the property's own promise `docSpec`
                       (only the documented exceptions), i.e. the property's sentence verbatim;
                       `roundtrip_plain_dim4` spells it out for four dimensions;
* `C09_full_false`     the property's sentence for *all* well-formed inputs is false of the code
                       (polygon with XYZ shell and XY hole) — hence `roundtrip_plain` is the `_partial`
                       form and `read_write_canon` the exact description of the deviation;
* `write_order_agree`, `hex_roundtrip`, `readHex_writeHex`, `rewrite_fixpoint`
  (+ `rewrite_fixpoint_needs_hyp`: re-writing does not reproduce the bytes of a NaN/NaN point that carries
  other bits than the canonical NaN);
* `compound_empty_section_roundtrip`  COMPOUNDCURVE(EMPTY) round-trips (it did not before /repo 1dd07a8f8).
-/
namespace GeosModel.C09
open GeosModel GeosModel.WKB

/-- the hypotheses of the round-trip theorems -/
def Valid (arc : ArcOracle) (g : Geom) : Prop := WFG arc g.g = true ∧ Fits g.g = true ∧ sridFits g.srid = true

instance (arc : ArcOracle) (g : Geom) : Decidable (Valid arc g) := by unfold Valid; infer_instance

/-- Everything below holds for *every* arc oracle (see `ArcOracle`: which coordinate values make the
`CircularString` constructor's envelope computation throw is floating-point arithmetic of the library; the
theorems only use that it is a function of the X/Y bit patterns, which the round trip preserves). -/
example : ArcOracle := fun _ => false

/-! ## positive results -/

/-- **Round trip, every configuration.**  Reading the bytes written for a well-formed geometry
succeeds and returns `canon c g`: SRID kept iff extended flavour with `includeSRID`; every
linear-ring object is a line string; a point with NaN X and Y is the empty point; every sequence
carries the Z/M flags of the unit it was written in (its own, or — for polygon rings and
compound-curve sections — the union over its parent), cut down to the output dimension. -/
theorem read_write_canon (arc : ArcOracle) (c : Cfg) (g : Geom) (h : Valid arc g) :
    read arc (write c g) = .ok (canon c g) :=
  read_write c g h.1 h.2.1 h.2.2

/-- **Four output dimensions**, both byte orders, both flavours, SRID on/off. -/
theorem read_write_id (arc : ArcOracle) (o : Order) (f : Flavor) (s : Bool) (g : Geom) (h : Valid arc g) :
    read arc (write ⟨4, o, f, s⟩ g) = .ok (canon ⟨4, o, f, s⟩ g) :=
  read_write_canon arc _ g h

/-- **Lower output dimension** = the four-dimensional result with exactly the excess ordinates of every
sequence dropped (M first, then Z), for *every* `d` (the writer admits 2, 3, 4). -/
theorem read_write_lowdim (arc : ArcOracle) (d : Nat) (o : Order) (f : Flavor) (s : Bool) (g : Geom)
    (h : Valid arc g) :
    read arc (write ⟨d, o, f, s⟩ g) = .ok (dropDims d (canon ⟨4, o, f, s⟩ g)) := by
  rw [read_write_canon arc _ g h]
  simp only [canon, dropDims, sridOut, dropDims_canonG4 d g.g h.1]

/-- the property's sentence, for every configuration -/
def C09_full : Prop :=
  ∀ (arc : ArcOracle) (c : Cfg) (g : Geom), Valid arc g → read arc (write c g) = .ok (docSpec c g)

/-- **The property's sentence on plain inputs** (`_partial` form of `C09_full`): if the rings of every
polygon / sections of every compound curve share their Z/M flags, empty (curve) polygons are the
factory's, and sequences are canonical, the round trip returns the input with only the documented
exceptions applied and exactly the excess ordinates dropped. -/
theorem roundtrip_plain (arc : ArcOracle) (c : Cfg) (g : Geom) (h : Valid arc g) (hp : Plain g.g = true) :
    read arc (write c g) = .ok (docSpec c g) := by
  rw [read_write_canon arc c g h]
  simp only [canon, docSpec, dropDims, canonG_plain c.dims g.g hp h.1]

/-- … and with four output dimensions nothing at all is dropped: type tree, Z/M flags and every ordinate
bit pattern are those of the input (modulo NaN/NaN point = empty point, ring object = line string). -/
theorem roundtrip_plain_dim4 (arc : ArcOracle) (o : Order) (f : Flavor) (s : Bool) (g : Geom) (h : Valid arc g)
    (hp : Plain g.g = true) :
    read arc (write ⟨4, o, f, s⟩ g) = .ok ⟨sridOut ⟨4, o, f, s⟩ g.srid, docG g.g⟩ := by
  rw [roundtrip_plain arc _ g h hp]
  simp only [docSpec, dropDims, dropDims4_docG g.g hp]

/-- **The two byte orders encode the same value.** -/
theorem write_order_agree (arc : ArcOracle) (d : Nat) (f : Flavor) (s : Bool) (g : Geom) (h : Valid arc g) :
    read arc (write ⟨d, .le, f, s⟩ g) = read arc (write ⟨d, .be, f, s⟩ g) := by
  rw [read_write_canon arc _ g h, read_write_canon arc _ g h]
  rfl

/-- **HEX** decoding inverts HEX encoding (for every byte string) … -/
theorem hex_roundtrip (bs : List UInt8) : hexDecode (hexEncode bs) = some bs :=
  hexDecode_hexEncode bs

/-- … hence HEX and binary encode the same value (no hypothesis on the geometry). -/
theorem readHex_writeHex (arc : ArcOracle) (c : Cfg) (g : Geom) :
    readHex arc (writeHex c g) = read arc (write c g) := by
  simp [readHex, writeHex, hexDecode_hexEncode]

/-- **Re-writing a re-read geometry reproduces the same bytes**, provided every point with NaN X and Y
is the canonical all-NaN coordinate (what the writer itself emits for POINT EMPTY). -/
theorem rewrite_fixpoint (arc : ArcOracle) (c : Cfg) (g g' : Geom) (h : Valid arc g) (hn : NanPtCanon g.g = true)
    (hr : read arc (write c g) = .ok g') : write c g' = write c g := by
  rw [read_write_canon arc c g h] at hr
  cases hr
  exact write_canon c g h.1 hn

/-! ## negative results (each witness is replayed on the implementation by `checks/C09.py`) -/

/-- polygon with an XYZ shell and an XY hole -/
def mixedPolygon : Geom :=
  ⟨0, .polygon ⟨true, false, [⟨0, 0, 0x4014000000000000, nanBits⟩, ⟨0x3ff0000000000000, 0, 0x4014000000000000, nanBits⟩,
        ⟨0, 0x3ff0000000000000, 0x4014000000000000, nanBits⟩, ⟨0, 0, 0x4014000000000000, nanBits⟩]⟩
      [⟨false, false, [⟨0, 0, nanBits, nanBits⟩, ⟨0x3fe0000000000000, 0, nanBits, nanBits⟩,
        ⟨0, 0x3fe0000000000000, nanBits, nanBits⟩, ⟨0, 0, nanBits, nanBits⟩]⟩]⟩

/-- first hole's Z flag (an observable that separates `canon` from `docSpec`) -/
def firstHoleHasZ (g : Geom) : Bool :=
  match g.g with
  | .polygon _ (h :: _) => h.hasZ
  | _ => false

theorem mixedPolygon_valid (arc : ArcOracle) : Valid arc mixedPolygon := ⟨by rfl, by rfl, by rfl⟩

/-- **The property's sentence is false of the code**: the XY hole of `mixedPolygon` comes back as XYZ
(with NaN Z), with four output dimensions, in every flavour / byte order. -/
theorem C09_full_false : ¬ C09_full := by
  intro h
  have h1 := h (fun _ => false) ⟨4, .le, .ext, false⟩ mixedPolygon (mixedPolygon_valid _)
  rw [read_write_canon _ _ _ (mixedPolygon_valid _)] at h1
  have h2 : firstHoleHasZ (canon ⟨4, .le, .ext, false⟩ mixedPolygon)
      = firstHoleHasZ (docSpec ⟨4, .le, .ext, false⟩ mixedPolygon) := by
    injection h1 with h1; rw [h1]
  revert h2
  decide

/-- POINT Z (NaN NaN 5) -/
def nanPoint : Geom := ⟨0, .point ⟨true, false, [⟨nanBits, nanBits, 0x4014000000000000, nanBits⟩]⟩⟩

/-- **`rewrite_fixpoint` needs its hypothesis**: the NaN/NaN point is read back as POINT Z EMPTY, and
re-writing that gives `NaN NaN NaN`, not `NaN NaN 5`. -/
theorem rewrite_fixpoint_needs_hyp (arc : ArcOracle) :
    ∃ (c : Cfg) (g g' : Geom), Valid arc g ∧ read arc (write c g) = .ok g' ∧ write c g' ≠ write c g := by
  have hv : Valid arc nanPoint := ⟨by rfl, by rfl, by rfl⟩
  exact ⟨⟨4, .le, .ext, false⟩, nanPoint, canon ⟨4, .le, .ext, false⟩ nanPoint, hv,
    read_write_canon arc _ _ hv, by decide⟩

/-- COMPOUNDCURVE (EMPTY): a compound curve whose only section is an empty line string (accepted by
the constructor).  Before /repo 1dd07a8f8 the reader rejected the writer's 18 bytes for it (`minMemSize`
wanted 16 bytes per section; an empty section has 9) — found by this check, fixed, and now an ordinary
instance of `read_write_canon`. -/
def emptySectionCurve : Geom := ⟨0, .compoundCurve [.lineString ⟨false, false, []⟩]⟩

theorem compound_empty_section_roundtrip (arc : ArcOracle) (o : Order) (f : Flavor) (s : Bool) :
    read arc (write ⟨4, o, f, s⟩ emptySectionCurve) = .ok emptySectionCurve := by
  have hv : Valid arc emptySectionCurve := ⟨by rfl, by rfl, by rfl⟩
  rw [read_write_canon arc _ _ hv]
  cases f <;> cases s <;> rfl

/-! ## non-vacuity -/

set_option maxRecDepth 8000 in
/-- a nested collection with a point (−0, +Inf, Z = a signalling-NaN pattern), an empty point, a line
string with a denormal, a polygon with a hole, a multi-curve holding a compound curve and a circular
string, a curve polygon with a linear-ring shell, and an inner collection -/
def sample : Geom :=
  ⟨4326, .collection [
    .point ⟨true, false, [⟨0x8000000000000000, 0x7ff0000000000000, 0x7ff0000000000001, nanBits⟩]⟩,
    .point ⟨true, false, []⟩,
    .lineString ⟨true, false, [⟨0x0000000000000001, 0, 0x3ff0000000000000, nanBits⟩, ⟨0x3ff0000000000000, 0xfff0000000000000, 0, nanBits⟩]⟩,
    .polygon ⟨true, false, [⟨0, 0, 0, nanBits⟩, ⟨0x4010000000000000, 0, 0, nanBits⟩, ⟨0, 0x4010000000000000, 0, nanBits⟩, ⟨0x8000000000000000, 0, 0, nanBits⟩]⟩
      [⟨true, false, [⟨0x3ff0000000000000, 0x3ff0000000000000, 0, nanBits⟩, ⟨0x4000000000000000, 0x3ff0000000000000, 0, nanBits⟩,
        ⟨0x3ff0000000000000, 0x4000000000000000, 0, nanBits⟩, ⟨0x3ff0000000000000, 0x3ff0000000000000, 0, nanBits⟩]⟩],
    .multiCurve [
      .compoundCurve [.lineString ⟨true, false, [⟨0, 0, 0, nanBits⟩, ⟨0x3ff0000000000000, 0, 0, nanBits⟩]⟩,
        .circularString ⟨true, false, [⟨0x3ff0000000000000, 0x8000000000000000, 0, nanBits⟩, ⟨0x4000000000000000, 0x3ff0000000000000, 0, nanBits⟩, ⟨0x4008000000000000, 0, 0, nanBits⟩]⟩],
      .circularString ⟨true, false, []⟩],
    .multiSurface [.curvePolygon [.linearRing ⟨true, false, [⟨0, 0, 0, nanBits⟩, ⟨0x3ff0000000000000, 0, 0, nanBits⟩, ⟨0, 0x3ff0000000000000, 0, nanBits⟩, ⟨0, 0, 0, nanBits⟩]⟩]],
    .collection [.multiPoint [.point ⟨true, false, [⟨nanBits, nanBits, nanBits, nanBits⟩]⟩], .multiLineString [], .multiPolygon []]]⟩

/-- the oracle under which no arc envelope computation throws -/
def arc0 : ArcOracle := fun _ => false

example : Valid arc0 sample := by decide
example : Plain sample.g = true := by decide
example : NanPtCanon sample.g = true := by decide
/-- the hypotheses are satisfiable together and the conclusions are not trivial: the encoding has 690
bytes, the little- and big-endian encodings differ from the first count word on (they share the SRID-flagged
type word's position only), yet both read back to the same value by `write_order_agree` -/
example : (write ⟨4, .le, .ext, true⟩ sample).length = 690 := by decide +kernel
example : (write ⟨4, .le, .ext, true⟩ sample).take 9 = [1, 7, 0, 0, 0xa0, 0xe6, 0x10, 0, 0] := by decide +kernel
example : (write ⟨4, .be, .ext, true⟩ sample).take 9 = [0, 0xa0, 0, 0, 7, 0, 0, 0x10, 0xe6] := by decide +kernel
example : read arc0 (write ⟨4, .be, .iso, true⟩ sample) = .ok (docSpec ⟨4, .be, .iso, true⟩ sample) :=
  roundtrip_plain arc0 _ _ (by decide) (by decide)
/-- the mixed-dimension polygon satisfies the hypotheses of `read_write_id` but is not plain -/
example : Valid arc0 mixedPolygon ∧ Plain mixedPolygon.g = false := by decide

/-! ## the pieces the translator regenerates (`Props/C09Gen.lean`) are the ones `write` / `read` are made of

`Model/WKB/Cxx.lean` names what `writeG` / `readBody` have inlined: the WKB code of a type id (`wkbCode ∘ typeIdOf`), the
per-type unit of the reader's size guard (`minUnit ∘ guardType`).  The bridge theorems prove the regenerated
`getWkbType`, `writeGeometryType`, `writeSRID`, `getOutputOrdinates`, `minMemSize`, the decoding of the type word and
the dispatch of `readGeometry` equal to `wkbCode`, `typeWord` / `header`, `outOrd`, `minUnit`, `decodeType`,
`kindOfCode`; the theorems here say that these are what the model the round-trip theorems are about uses. -/

/-- every geometry's bytes begin with the header built from `getWkbType`'s code for its type id and the ordinate set
`getOutputOrdinates` gives for its own `hasZ()/hasM()` -/
theorem writeG_header (c : Cfg) (e : Int) (g : G) :
    ∃ rest, writeG c e g = header c (outOrd c.dims (gHasZ g) (gHasM g)).1 (outOrd c.dims (gHasZ g) (gHasM g)).2
      (wkbCode (typeIdOf g)) e ++ rest := by
  cases g <;> simp only [writeG, collHeader, typeIdOf, wkbCode, gHasZ, gHasM, anySeq, List.append_assoc] <;> exact ⟨_, rfl⟩

/-- `readCoordinateSequence(n)`: `minMemSize(GEOS_LINESTRING, n)` is the model's guard -/
theorem readCoordSeq_guard (o : Order) (z m : Bool) (n : Nat) (bs : List UInt8)
    (h : bs.length < n * minUnit .lineString) : readCoordSeq o z m n bs = .error .tooSmall := by
  simp only [minUnit] at h
  simp [readCoordSeq, h]

/-- every reader function that reads a count `n` rejects the input when fewer than `n × minUnit` bytes are left, with the
unit of the type id it passes to `minMemSize` -/
theorem readBody_guard (arc : ArcOracle) (rd : Order → List UInt8 → GRes) (h : Hdr) (bs bs' : List UInt8) (n : Nat)
    (hk : h.kind ≠ .point) (hn : readU32 h.order bs = .ok (n, bs'))
    (hlt : bs'.length < n * minUnit (guardType h.kind)) : readBody arc rd h bs = .error .tooSmall := by
  cases hkd : h.kind <;> simp only [hkd, guardType, minUnit] at hlt hk <;>
    first | exact absurd rfl hk | simp [readBody, readSizedSeq, readColl, hkd, hn, hlt]

/-- non-vacuity: a multipoint announcing 2 elements with 41 bytes left is rejected, with 42 it is not rejected by the guard -/
example : readBody arc0 (fun _ _ => .error .eof) ⟨.multiPoint, false, false, 0, .le⟩ ([2, 0, 0, 0] ++ List.replicate 41 0)
    = .error .tooSmall := readBody_guard _ _ _ _ (List.replicate 41 0) 2 (by decide) rfl (by decide)
example : readBody arc0 (fun _ _ => .error .eof) ⟨.multiPoint, false, false, 0, .le⟩ ([2, 0, 0, 0] ++ List.replicate 42 0)
    = .error .eof := by rfl

end GeosModel.C09
