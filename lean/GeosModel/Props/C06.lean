import GeosModel.Proofs.Buffer.Fillet
import GeosModel.Proofs.Buffer.Dist
import GeosModel.Proofs.Buffer.Cos
import GeosModel.Proofs.Buffer.Params
/-!
# C06 — buffer holds everything within distance d, nothing farther, and is valid

Strength: **SPEC+C with two FULL cores** (DESIGN.md section 3, C06).

* CORE 1 (`Model/Buffer/Fillet.lean`, faithful to `OffsetSegmentGenerator::addDirectedFillet`): `fillet_step_bound`,
  `fillet_step_sup`, `fillet_vertices`, `fillet_angle_bound`.  Angles are rationals in units of the fillet quantum, so
  no trigonometry is involved.  Interpretation (not proved, trusted): a polygonal arc of radius `r` with angular step
  `α` stays within `r(1 − cos(α/2))` of the circle; with `α < 1.5·quantum = 3π/(4q)` the chord error is below
  `1 − cos(3π/(8q))`, which exceeds the documented `1 − cos(π/(4q))` and, for `q ≤ 5`, even the documented total
  `e(q) = 0.015 + 1 − cos(π/(4q))` — the check reports that as a finding.
* CORE 2 (`Model/Buffer/Params.lean`, faithful to the C API entry points and `BufferParameters`): `params_total`
  (every accepted call runs with a legal configuration), `reject_iff_*` (exact rejection conditions),
  `setters_keep_legal`, `legal_effective`, `generator_is_permissive`, …
* SPEC (`Model/Buffer/Spec.lean`, the oracle the driver evaluates): `d2Seg_exact` (the projection–clamp formula is
  the true minimum over the segment), `slab_claim_sound`, `clear_seg_sound`, `cos_table_sound`, `inner_factor_safe`.

The universal quantifier of the property over *locations* and over *inputs* is NOT a theorem here: GEOS's buffer
algorithm is not modelled; it is tied to the specification by the sampled correspondence stream `buffer`.
-/
namespace GeosModel.Buffer
open GeosModel.Kernel GeosModel.Relate

/-! ## CORE 1: fillet segment count and angular step -/

/-- **fillet_step_bound.**  For every total angle `t ≥ 0` (in quanta): either `nSegs < 1`, then `t < 1/2` and no vertex is
emitted; or `nSegs·step = t`, `1/2 ≤ step < 3/2`, and more precisely `step < 1 + 1/(2·nSegs)`. -/
theorem fillet_step_bound (t : Rat) (ht : 0 ≤ t) :
    (nSegs t < 1 ∧ t < 1 / 2 ∧ filletOffsets t = []) ∨
    (1 ≤ nSegs t ∧ (nSegs t : Rat) * stepQ t = t ∧ stepQ t < 3 / 2 ∧ 1 / 2 ≤ stepQ t ∧
      stepQ t * (2 * (nSegs t : Rat)) < 2 * (nSegs t : Rat) + 1) :=
  Core.fillet_step_bound t ht

/-- **The bound 3/2 is the exact supremum**: it is never attained (`fillet_step_bound` is strict) but approached —
every `ε > 0` has an angle with a one-segment fillet whose step exceeds `3/2 − ε`. -/
theorem fillet_step_sup (ε : Rat) (hε : 0 < ε) :
    ∃ t : Rat, 0 ≤ t ∧ nSegs t = 1 ∧ 3 / 2 - ε < stepQ t ∧ stepQ t < 3 / 2 :=
  Core.fillet_step_sup ε hε

/-- the vertices of the finished arc (emitted vertices, then the end point the caller adds) sit at the multiples
`0, step, 2·step, …, nSegs·step = t`: all `nSegs` gaps are equal to `step` -/
theorem fillet_vertices (t : Rat) (hn : 1 ≤ nSegs t) :
    filletOffsets t ++ [t] = (List.range ((nSegs t).toNat + 1)).map fun (i : Nat) => (i : Rat) * stepQ t :=
  Core.fillet_vertices t hn

/-- number of vertices strictly between the arc's start and end point (what the correspondence stream observes) -/
theorem fillet_interior_count (t : Rat) (hn : 1 ≤ nSegs t) : ((filletInterior t : Nat) : Int) = nSegs t - 1 := by
  unfold filletInterior; omega

/-- the same bound with the real inputs: total angle `a ≥ 0` in quarter turns, raw quadrant-segment parameter `q`
(any integer: values below 1 count as 1): the angular step `a / nSegs` is below `1.5` quanta -/
theorem fillet_angle_bound (q : Int) (a : Rat) (ha : 0 ≤ a) (hn : 1 ≤ nSegsOf q a) :
    a / (nSegsOf q a : Rat) < 3 / 2 * quantumQ q :=
  Core.fillet_angle_bound q a ha hn

/-- non-vacuity: a right angle with the default 8 quadrant segments is 8 quanta, 8 segments, 7 interior vertices;
a 134° corner with q = 1 (1.49 quanta) is a single chord; below half a quantum nothing is emitted -/
example : (nSegs 8 = 8 ∧ filletInterior 8 = 7 ∧ stepQ 8 = 1) ∧
    (nSegs (149 / 100) = 1 ∧ filletInterior (149 / 100) = 0 ∧ stepQ (149 / 100) = 149 / 100) ∧
    (nSegs (49 / 100) = 0 ∧ filletOffsets (49 / 100) = []) := Core.examples

/-! ## CORE 2: parameter normalisation -/

/-- **params_total.**  Every call through a C API entry point (any `int` for quadrant segments and styles, any bit pattern
for the mitre limit) is either rejected or runs with a legal configuration: cap and join in 1..3.
(`hreach`: a `GEOSBufferParams` object is only reachable through its setters, which keep legality: `setters_keep_legal`.)
Before /repo commit 1591a29d6 this statement was false of the code — styles below 1 were accepted — which this check had
reported as a finding; the model follows the fixed code. -/
theorem params_total (e : Entry) (c : Config) (hreach : ∀ cfg, e = .withParams cfg → cfg.Legal) (h : e.config = some c) :
    c.Legal := Core.params_total e c hreach h

/-- what a legal configuration does: effective cap / join are the documented ones (never the vertex-less `none` cap),
the effective quadrant-segment count is ≥ 1 whatever integer was stored -/
theorem legal_effective (c : Config) (h : c.Legal) :
    effCap c.endCap ≠ .none ∧ 1 ≤ c.effQuad ∧ (effJoin c.join = .round ↔ c.join = 1) := by
  refine ⟨Core.effCap_ne_none _ h.1 h.2.1, Core.effQuad_pos c, ?_⟩
  rw [Core.effJoin_round_iff]
  have := h.2.2
  omega

/-- setter sequences on a `GEOSBufferParams` object keep it legal; a rejected setter leaves it unchanged and reports 0 -/
theorem setters_keep_legal (l : List Setter) : (runSetters Config.default l).1.Legal :=
  Core.setters_keep_legal l _ Core.default_legal

theorem setter_reject_keeps (c : Config) (s : Setter) (r : List Setter) (h : s.apply c = none) :
    runSetters c (s :: r) = ((runSetters c r).1, false :: (runSetters c r).2) := by
  simp [runSetters, h]

/-- exactly which calls are rejected -/
theorem reject_iff_withStyle (q cap join : Int) (m : UInt64) :
    (Entry.withStyle q cap join m).config = none ↔ (cap < 1 ∨ cap > 3 ∨ join < 1 ∨ join > 3) :=
  Core.reject_iff_withStyle q cap join m

theorem reject_iff_offsetCurve (q join : Int) (m : UInt64) :
    (Entry.offsetCurve q join m).config = none ↔ (join < 1 ∨ join > 3) := Core.reject_iff_offsetCurve q join m

theorem reject_iff_singleSided (q join : Int) (m : UInt64) (l : Int) :
    (Entry.singleSidedBuffer q join m l).config = none ↔ (join < 1 ∨ join > 3) := Core.reject_iff_singleSided q join m l

theorem buffer_never_rejects (q : Int) : ∃ c, (Entry.buffer q).config = some c ∧ c.Legal ∧ c.quadSegs = q := by
  refine ⟨_, rfl, ?_, rfl⟩
  show (1 : Int) ≤ 1 ∧ (1 : Int) ≤ 3 ∧ (1 : Int) ≤ 1 ∧ (1 : Int) ≤ 3
  omega

/-- the generator's own tests stay as permissive as before (they compare with the three constants only): a stored cap
outside 1..3 would add no cap vertices, a stored join outside {2,3} behaves as round -/
theorem generator_is_permissive (s : Int) (h : s ≤ 3) : (effCap s = .none ↔ s < 1) ∧ (effJoin s = .round ↔ (s ≠ 2 ∧ s ≠ 3)) :=
  ⟨Core.effCap_none_iff s h, Core.effJoin_round_iff s⟩

/-- offset curves never use fewer than 8 quadrant segments; `GEOSSingleSidedBuffer` always has flat caps -/
theorem offsetCurve_quad_ge8 (q join : Int) (m : UInt64) (c : Config) (h : (Entry.offsetCurve q join m).config = some c) :
    8 ≤ c.quadSegs ∧ c.endCap = 1 := Core.offsetCurve_quad_ge8 q join m c h

theorem singleSided_cap_flat (q join : Int) (m : UInt64) (l : Int) (c : Config)
    (h : (Entry.singleSidedBuffer q join m l).config = some c) : effCap c.endCap = .flat ∧ c.quadSegs = q :=
  Core.singleSided_cap_flat q join m l c h

/-- the closing-segment factor is 80 only for raw `q ≥ 8` and join ROUND -/
theorem closingFactor_cases : ({ quadSegs := 8, join := 1 } : Config).closingFactor = 80 ∧
    ({ quadSegs := 7, join := 1 } : Config).closingFactor = 1 ∧ ({ quadSegs := 8, join := 3 } : Config).closingFactor = 1 := by
  decide

example : (Entry.withStyle 8 4 1 0).config = none ∧ (Entry.withStyle 8 1 4 0).config = none ∧
    (Entry.withStyle 8 0 1 0).config = none ∧ (Entry.withStyle 0 1 (-7) 0).config = none ∧
    (Entry.withStyle (-5) 3 2 0).config = some ⟨-5, 3, 2, 0, false⟩ := by decide
example : (runSetters Config.default [.cap 4, .cap 2, .join 0, .quad (-3)]) =
    ({ quadSegs := -3, endCap := 2 }, [false, true, false, true]) := by decide

/-! ## SPEC: the oracle's arithmetic is exact and its tolerance table is on the safe side -/

/-- **d2Seg_exact.**  `d2Seg` (projection, clamped to the end points) is the true minimum of the squared Euclidean
distance from the sample location to the points `a + t(b − a)`, `t ∈ [0,1]`, of the segment. -/
theorem d2Seg_exact (p : HPt) (s : Seg) (hw : 0 < p.w) :
    (∀ t : Rat, 0 ≤ t → t ≤ 1 → Qv (d2Seg p s) ≤ dist2At p s t) ∧
    (∃ t : Rat, 0 ≤ t ∧ t ≤ 1 ∧ Qv (d2Seg p s) = dist2At p s t) :=
  ⟨fun t h0 h1 => d2Seg_le p s hw t h0 h1, d2Seg_attained p s hw⟩

/-- the squared distance to a vertex is exact -/
theorem d2Pt_exact (p : HPt) (v : Pt) (hw : 0 < p.w) :
    Qv (d2Pt p v) = ((p.x : Rat) / p.w - v.x) ^ 2 + ((p.y : Rat) / p.w - v.y) ^ 2 := Qv_d2Pt p v hw

/-- an inner ("must contain") claim made through a slab never reaches farther than the true distance: if the slab
distance is at most `r²` then so is the true squared distance to the segment -/
theorem slab_claim_sound (p : HPt) (s : Seg) (m2 d r2 : Q) (hw : 0 < p.w)
    (h : d2Slab p s m2 true = some d) (hr : Qv d ≤ Qv r2) : Qv (d2Seg p s) ≤ Qv r2 :=
  le_trans (d2Slab_ge_d2Seg p s m2 d hw h) hr

/-- an outer ("must exclude") claim covers the whole segment: if the (margin-extended) slab and both end points are
at least `r²` away, so is every point of the segment -/
theorem clear_seg_sound (p : HPt) (s : Seg) (m2 r2 : Q)
    (hslab : ∀ d, d2Slab p s m2 false = some d → r2.le d = true)
    (ha : r2.le (d2Pt p s.p) = true) (hb : r2.le (d2Pt p s.q) = true) : r2.le (d2Seg p s) = true := by
  unfold d2Seg
  by_cases hl : s.sqLen = 0
  · simp only [hl, beq_self_eq_true, if_true]; exact ha
  · have hlne : (s.sqLen == 0) = false := by simpa using hl
    simp only [hlne, Bool.false_eq_true, if_false]
    by_cases ht0 : dotH s.p s.q p ≤ 0
    · simp only [ht0, if_true]; exact ha
    · simp only [ht0, if_false]
      by_cases ht1 : dotH s.p s.q p ≥ s.sqLen * p.w
      · simp only [ht1, if_true]; exact hb
      · simp only [ht1, if_false]
        apply hslab
        unfold d2Slab
        simp only [hlne, Bool.false_eq_true, if_false]
        have h0 : dotH s.p s.q p ≥ 0 := by omega
        have h1 : s.sqLen * p.w - dotH s.p s.q p ≥ 0 := by omega
        simp [h0]
        intro hgt; omega

/-- **cos_table_sound.**  For every `q ≥ 1` (the table is indexed by `min q 32`):
`cosDocLo q ≤ cos(π/(4q))` and `cosStepLo q ≤ cos(3π/(8q))`. -/
theorem cos_table_sound (q : Int) (hq : 1 ≤ q) :
    ((cosDocLo q : Rat) : ℝ) ≤ Real.cos (Real.pi / (4 * (q : ℝ))) ∧
    ((cosStepLo q : Rat) : ℝ) ≤ Real.cos (3 * Real.pi / (8 * (q : ℝ))) := by
  have ht := tableQ_bounds q
  have htr : (1 : ℝ) ≤ ((tableQ q : Int) : ℝ) := by exact_mod_cast ht.1
  have htq : (1 : Rat) ≤ ((tableQ q : Int) : Rat) := by exact_mod_cast ht.1
  have hqr : (1 : ℝ) ≤ (q : ℝ) := by exact_mod_cast hq
  constructor
  · have h1 := cosPiLo_sound (1 / (4 * (tableQ q : Rat))) (by positivity)
      (by rw [div_le_div_iff₀ (by positivity) (by norm_num)]; linarith)
    have h2 := cos_table_mono q hq (1 / 4) (by norm_num) (by norm_num)
    unfold cosDocLo
    refine le_trans h1 (le_trans (le_of_eq ?_) (le_trans h2 (le_of_eq ?_)))
    · congr 1; push_cast; field_simp
    · congr 1; field_simp
  · have h1 := cosPiLo_sound (3 / (8 * (tableQ q : Rat))) (by positivity)
      (by rw [div_le_div_iff₀ (by positivity) (by norm_num)]; linarith)
    have h2 := cos_table_mono q hq (3 / 8) (by norm_num) (by norm_num)
    unfold cosStepLo
    refine le_trans h1 (le_trans (le_of_eq ?_) (le_trans h2 (le_of_eq ?_)))
    · congr 1; push_cast; field_simp
    · congr 1; field_simp

/-- the table entries are upper-bounded too (enclosure): `cos(π/(4·min q 32)) ≤ cosDocHi q` -/
theorem cos_table_upper (q : Int) :
    Real.cos (Real.pi / (4 * ((tableQ q : Int) : ℝ))) ≤ ((cosDocHi q : Rat) : ℝ) := by
  have ht := tableQ_bounds q
  have htq : (1 : Rat) ≤ ((tableQ q : Int) : Rat) := by exact_mod_cast ht.1
  have htr : (1 : ℝ) ≤ ((tableQ q : Int) : ℝ) := by exact_mod_cast ht.1
  have h1 := cosPiHi_sound (1 / (4 * (tableQ q : Rat))) (by positivity)
    (by rw [div_le_one (by positivity)]; linarith)
  unfold cosDocHi
  refine le_trans (le_of_eq ?_) h1
  congr 1; push_cast; field_simp

/-- **inner_factor_safe.**  The inner radius factor the driver uses is not larger than the documented `1 − e(q)`,
`e(q) = 0.015 + 1 − cos(π/(4q))`: a location the driver asserts to be inside is within `(1−e)d` of the input. -/
theorem inner_factor_safe (q : Int) (hq : 1 ≤ q) :
    ((innerDoc q : Rat) : ℝ) ≤ 1 - (0.015 + 1 - Real.cos (Real.pi / (4 * (q : ℝ)))) := by
  have h := (cos_table_sound q hq).1
  unfold innerDoc
  push_cast
  norm_num
  linarith

/-- the enclosure is tight: for every table index the two rational bounds differ by less than 10⁻⁶ -/
theorem cos_table_tight : ∀ q : Fin 33, cosDocHi (q.val : Int) - cosDocLo (q.val : Int) < 1 / 1000000 := by
  decide +kernel

/-- non-vacuity of the table: the default `q = 8` gives an inner factor between 0.980 and 0.981 (e ≈ 1.98 %) -/
example : (980 : Rat) / 1000 < innerDoc 8 ∧ innerDoc 8 < 981 / 1000 := by decide +kernel

end GeosModel.Buffer
