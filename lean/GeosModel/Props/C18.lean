import GeosModel.Proofs.Simplify.DP
import GeosModel.Proofs.Simplify.DPIdem
import GeosModel.Proofs.Simplify.Contracts
/-!
# C18 — simplifiers stay within tolerance and preserve the topology they promise

Part 1 (FULL): Douglas–Peucker.  Theorems about the model `GeosModel.DP` (Model/Simplify/DP.lean) of
`DouglasPeuckerLineSimplifier`, for **every** distance function `dist`, tolerance and input list.
The order hypotheses (`OrdLaws`) say that `>`/`<=` behave like a total preorder on the distance carrier —
true for IEEE doubles as long as no distance is NaN, for `Int`, for `Rat`.

Part 2 (SPEC+C): contracts of the topology-preserving, polygon-hull and coverage simplifiers
(`*_check_sound`: what a `true` verdict of the exact checker run by the driver means).
-/
namespace GeosModel.DP
variable {Pt D : Type}

/-- the distance test the code applies: "`p` is within `tol` of segment `(a, b)`, measured by the code's own `dist`" -/
def Near (o : Ops Pt D) (tol : D) (a b p : Pt) : Prop := o.le (o.dist a b p) tol = true

/-- the `usePt`-mask formulation (what the C++ and the driver execute) equals the list formulation (what the
theorems below talk about) -/
theorem dp_mask_eq (o : Ops Pt D) (tol : D) (pts : List Pt) :
    simplifyLineMask o tol pts = simplifyLine o tol pts := simplifyLineMask_eq o tol pts

/-- for an open line (or a closed `LineString`: `preserveClosedEndpoint`) the result is `simplifyLine` -/
theorem dp_simplify_open (o : Ops Pt D) (tol : D) (pres : Bool) (pts : List Pt)
    (h : pres = true ∨ isRing o pts = false) : simplify o tol pres pts = simplifyLine o tol pts := by
  unfold simplify
  rw [simplifyLineMask_eq]
  rcases h with h | h <;> simp [h]

/-- **termination / fuel**: any fuel above the section length gives the same result, so the fuel argument is
only a device to make the recursion structural -/
theorem dp_terminates (o : Ops Pt D) (tol : D) (f1 f2 : Nat) (a : Pt) (mid : List Pt) (b : Pt)
    (h1 : mid.length < f1) (h2 : mid.length < f2) : sect o tol f1 a mid b = sect o tol f2 a mid b :=
  sect_fuel_irrel o tol f1 f2 a mid b h1 h2

/-- **subsequence**: the output vertices are input vertices, in input order (no hypotheses at all) -/
theorem dp_subseq (o : Ops Pt D) (tol : D) (pts : List Pt) : (simplifyLine o tol pts).Sublist pts := by
  cases pts with
  | nil => simp [simplifyLine]
  | cons a r =>
    exact segcover_sublist (simplifyLine_segcover o tol (fun _ _ _ => True) (fun _ _ _ _ _ _ => trivial) (a :: r) (by simp))

/-- **endpoints**: first and last vertex are kept (no hypotheses) -/
theorem dp_endpoints (o : Ops Pt D) (tol : D) (pts : List Pt) :
    (simplifyLine o tol pts).head? = pts.head? ∧ (simplifyLine o tol pts).getLast? = pts.getLast? := by
  cases pts with
  | nil => simp [simplifyLine]
  | cons a r =>
    have h := simplifyLine_segcover o tol (fun _ _ _ => True) (fun _ _ _ _ _ _ => trivial) (a :: r) (by simp)
    exact ⟨segcover_head h, segcover_getLast h⟩

/-- **within tolerance** (positional form): the input is the output with, between any two consecutive output
vertices `a, b`, a run of dropped vertices each of which is `Near tol a b` -/
theorem dp_within (o : Ops Pt D) (L : OrdLaws o) (tol : D) (pts : List Pt) (hne : pts ≠ []) :
    SegCover (Near o tol) pts (simplifyLine o tol pts) := by
  apply simplifyLine_segcover o tol (Near o tol) _ pts hne
  intro a b mid hle p hp
  exact L.le_trans _ _ _ (farthest_bound o L a b mid p hp) hle

/-- **within tolerance** (the sentence of the property): every input vertex is an output vertex or lies within
`tol` of some segment of the simplified line -/
theorem dp_within_line (o : Ops Pt D) (L : OrdLaws o) (tol : D) (pts : List Pt) :
    ∀ p ∈ pts, p ∈ simplifyLine o tol pts ∨ ∃ s ∈ pairs (simplifyLine o tol pts), Near o tol s.1 s.2 p := by
  intro p hp
  have hne : pts ≠ [] := by intro h; simp [h] at hp
  exact segcover_mem (dp_within o L tol pts hne) p hp

/-- **zero tolerance**: if `dist ≤ zero` happens only for points on the segment (`On`), every dropped vertex lies on
the output segment spanning it — nothing off the line is dropped.  (Vertices *on* the line are dropped, the
output is not literally the input.) -/
theorem dp_zero_tol (o : Ops Pt D) (L : OrdLaws o) (zero : D) (On : Pt → Pt → Pt → Prop)
    (hz : ∀ a b p, o.le (o.dist a b p) zero = true → On a b p) (pts : List Pt) (hne : pts ≠ []) :
    SegCover On pts (simplifyLine o zero pts) :=
  segcover_mono (fun a b p h => hz a b p h) (dp_within o L zero pts hne)

/-- if nothing at all is ever within the tolerance the line is returned unchanged -/
theorem dp_zero_tol_unchanged (o : Ops Pt D) (L : OrdLaws o) (zero : D)
    (hz : ∀ a b p, o.le (o.dist a b p) zero = false) (pts : List Pt) : simplifyLine o zero pts = pts := by
  cases pts with
  | nil => rfl
  | cons a r =>
    have h := dp_zero_tol o L zero (fun _ _ _ => False) (fun a b p h => by simp [hz a b p] at h) (a :: r) (by simp)
    generalize simplifyLine o zero (a :: r) = out at h
    generalize (a :: r) = inp at h
    induction h with
    | last b => rfl
    | seg a ds b rest out hp _ ih =>
      cases ds with
      | nil => simp [ih]
      | cons d ds => exact absurd (hp d (by simp)) (by simp)

/-- **idempotence** (open lines / closed LineStrings): simplifying the result again with the same tolerance changes
nothing.  `OrdLaws2` = `OrdLaws` + (`a > b` and `c <= b` imply `a > c`). -/
theorem dp_idempotent (o : Ops Pt D) (L : OrdLaws2 o) (tol : D) (pts : List Pt) :
    simplifyLine o tol (simplifyLine o tol pts) = simplifyLine o tol pts := simplifyLine_idem o L tol pts

/-! ### rings (`preserveClosedEndpoint = false`, input is a ring) -/

/-- ring result: a subsequence of the input, possibly followed by a repetition of its first vertex (`closeRing`) -/
theorem dp_ring_subseq (o : Ops Pt D) (tol : D) (pts : List Pt) :
    ∃ core, core.Sublist pts ∧
      (simplify o tol false pts = core ∨ ∃ h, core.head? = some h ∧ simplify o tol false pts = core ++ [h]) := by
  unfold simplify
  rw [simplifyLineMask_eq]
  have hs := dp_subseq o tol pts
  by_cases hr : (!false && isRing o pts) = true
  · simp only [hr, if_true, ringStep]
    by_cases hf : ringFires o tol (simplifyLine o tol pts) = true
    · simp only [hf, if_true]
      have hc : (ringCore (simplifyLine o tol pts)).Sublist pts :=
        ((List.dropLast_sublist _).trans (List.tail_sublist _)).trans hs
      refine ⟨ringCore (simplifyLine o tol pts), hc, ?_⟩
      unfold closeRing
      cases hh : (ringCore (simplifyLine o tol pts)).head? with
      | none => exact Or.inl rfl
      | some a =>
        cases hl : (ringCore (simplifyLine o tol pts)).getLast? with
        | none => exact Or.inl rfl
        | some b =>
          simp only
          by_cases he : o.eq a b = true
          · simp [he]
          · simp only [he, Bool.false_eq_true, if_false]
            exact Or.inr ⟨a, rfl, rfl⟩
    · simp only [hf, Bool.false_eq_true, if_false]
      exact ⟨_, hs, Or.inl rfl⟩
  · simp only [hr, Bool.false_eq_true, if_false]
    exact ⟨_, hs, Or.inl rfl⟩

/-- the "triangle inequality" facts about point–segment distance used for the 2·tol bound; `add t t` plays 2·t.
All three hold for the Euclidean distance to a segment (a segment with both ends within `t` of a convex set
stays within `t` of it). -/
structure TriLaws (o : Ops Pt D) (add : D → D → D) (t : D) : Prop where
  weaken : ∀ d, o.le d t = true → o.le d (add t t) = true
  /-- `p` within `t` of segment `(c, b)` and `c` within `t` of segment `(a, b)` ⇒ `p` within `2t` of `(a, b)` -/
  triL : ∀ a b c p, o.le (o.dist c b p) t = true → o.le (o.dist a b c) t = true → o.le (o.dist a b p) (add t t) = true
  /-- `p` within `t` of segment `(a, c)` and `c` within `t` of segment `(a, b)` ⇒ `p` within `2t` of `(a, b)` -/
  triR : ∀ a b c p, o.le (o.dist a c p) t = true → o.le (o.dist a b c) t = true → o.le (o.dist a b p) (add t t) = true

/-- **rings, 2·tol**: when the post-step removes the ring start vertex, every input vertex is a vertex of the new
ring `core` or within `2·tol` of one of its segments (the closing segment `(last core, first core)` included). -/
theorem dp_ring_2tol (o : Ops Pt D) (L : OrdLaws o) (add : D → D → D) (tol : D) (T : TriLaws o add tol)
    (heq : ∀ a b, o.eq a b = true → a = b) (pts : List Pt)
    (hring : isRing o pts = true) (hfire : ringFires o tol (simplifyLine o tol pts) = true) :
    ∃ core h, ringCore (simplifyLine o tol pts) = core ∧ core.head? = some h ∧
      simplify o tol false pts = closeRing o core ∧
      ∀ p ∈ pts, p ∈ core ∨ ∃ s ∈ pairs (core ++ [h]), o.le (o.dist s.1 s.2 p) (add tol tol) = true := by
  -- shape of the line result
  have hfire' := hfire
  unfold ringFires at hfire'
  simp only [Bool.and_eq_true, decide_eq_true_eq] at hfire'
  obtain ⟨hlen, hcond⟩ := hfire'
  generalize hout : simplifyLine o tol pts = out at *
  match out, hlen, hcond with
  | [], hlen, _ => simp at hlen
  | [_], hlen, _ => simp at hlen
  | p0 :: p1 :: t, hlen, hcond =>
    cases hq : (p0 :: p1 :: t).dropLast.getLast? with
    | none => rw [hq] at hcond; simp at hcond
    | some q =>
    rw [hq] at hcond
    simp only at hcond
    obtain ⟨core, z, hshape, hcore, hhead, hlast⟩ := ring_shape (p0 :: p1 :: t) p0 p1 q t hlen rfl hq
    -- z = p0, because the input is a ring and endpoints are kept
    have hend := dp_endpoints o tol pts
    rw [hout] at hend
    have hz : z = p0 := by
      unfold isRing at hring
      simp only [Bool.and_eq_true, decide_eq_true_eq] at hring
      have h1 : pts.head? = some p0 := by rw [← hend.1]; rfl
      have h2 : pts.getLast? = some z := by
        rw [← hend.2, hshape]
        exact (getLast?_append_cons (p0 :: core) z []).trans (by simp)
      rw [h1, h2] at hring
      exact (heq _ _ hring.2).symm
    subst hz
    refine ⟨core, p1, hcore, hhead, ?_, ?_⟩
    · unfold simplify
      rw [simplifyLineMask_eq, hout]
      simp [hring, ringStep, hfire, hcore]
    · intro p hp
      have hcov := dp_within_line o L tol pts p hp
      rw [hout, hshape] at hcov
      have hpc : pairs (core ++ [p1]) = pairs core ++ [(q, p1)] := pairs_append_singleton p1 core q hlast
      have hpo : pairs (z :: (core ++ [z])) = (z, p1) :: (pairs core ++ [(q, z)]) := by
        cases core with
        | nil => simp at hhead
        | cons c cs =>
          have : c = p1 := by simpa using hhead
          subst this
          simp only [List.cons_append, pairs]
          rw [← List.cons_append, pairs_append_singleton z (c :: cs) q hlast]
      rcases hcov with hmem | ⟨s, hs, hnear⟩
      · simp only [List.mem_cons, List.mem_append, List.not_mem_nil, or_false] at hmem
        have hp0 : p = z → ∃ s ∈ pairs (core ++ [p1]), o.le (o.dist s.1 s.2 p) (add tol tol) = true := by
          intro h; subst h
          exact ⟨(q, p1), by simp [hpc], T.weaken _ hcond⟩
        rcases hmem with h | h | h
        · exact Or.inr (hp0 h)
        · exact Or.inl h
        · exact Or.inr (hp0 h)
      · rw [hpo] at hs
        simp only [List.mem_cons, List.mem_append, List.not_mem_nil, or_false] at hs
        rcases hs with rfl | hs | rfl
        · exact Or.inr ⟨(q, p1), by simp [hpc], T.triL q p1 z p hnear hcond⟩
        · exact Or.inr ⟨s, by simp [hpc, hs], T.weaken _ hnear⟩
        · exact Or.inr ⟨(q, p1), by simp [hpc], T.triR q p1 z p hnear hcond⟩

/-! ### non-vacuity: a concrete instance satisfies every hypothesis, and the model computes on it -/

/-- points on a number line, distance to the closed interval between `a` and `b` -/
def lineOps : Ops Int Int :=
  { dist := fun a b p => if p < min a b then min a b - p else if max a b < p then p - max a b else 0
    gt := fun x y => decide (x > y)
    le := fun x y => decide (x ≤ y)
    init := -1
    eq := fun a b => decide (a = b) }

theorem lineOps_ord : OrdLaws lineOps :=
  ⟨by simp [lineOps], by simp only [lineOps, decide_eq_true_eq]; omega,
   by simp only [lineOps, decide_eq_true_eq, decide_eq_false_iff_not]; omega,
   by simp only [lineOps, decide_eq_true_eq]; omega⟩

theorem lineOps_tri (t : Int) (ht : 0 ≤ t) : TriLaws lineOps (· + ·) t := by
  refine ⟨?_, ?_, ?_⟩
  · intro d; simp only [lineOps, decide_eq_true_eq]; omega
  · intro a b c p; simp only [lineOps, decide_eq_true_eq]; split <;> split <;> split <;> omega
  · intro a b c p; simp only [lineOps, decide_eq_true_eq]; split <;> split <;> split <;> omega

/-- planar instance on the integer grid: "distance" = twice the triangle area |det| (an ordered quantity that is 0
exactly on the supporting line), squared point distance for a degenerate segment -/
def gridOps : Ops (Int × Int) Int :=
  { dist := fun a b p => if a = b then (p.1 - a.1) * (p.1 - a.1) + (p.2 - a.2) * (p.2 - a.2)
      else ((b.1 - a.1) * (p.2 - a.2) - (b.2 - a.2) * (p.1 - a.1)).natAbs
    gt := fun x y => decide (x > y)
    le := fun x y => decide (x ≤ y)
    init := -1
    eq := fun a b => decide (a = b) }

theorem gridOps_ord : OrdLaws gridOps :=
  ⟨by simp [gridOps], by simp only [gridOps, decide_eq_true_eq]; omega,
   by simp only [gridOps, decide_eq_true_eq, decide_eq_false_iff_not]; omega,
   by simp only [gridOps, decide_eq_true_eq]; omega⟩

theorem lineOps_ord2 : OrdLaws2 lineOps :=
  { lineOps_ord with gt_of_gt_of_le := by simp only [lineOps, decide_eq_true_eq]; omega }

theorem gridOps_ord2 : OrdLaws2 gridOps :=
  { gridOps_ord with gt_of_gt_of_le := by simp only [gridOps, decide_eq_true_eq]; omega }

/-- the ring variant is **not** idempotent in general: after the post-step moved the ring start, a second run measures
against other chords and may drop one more vertex (witness on the exact instance `gridOps`) -/
theorem dp_ring_not_idempotent :
    ∃ (tol : Int) (ring : List (Int × Int)), isRing gridOps ring = true ∧
      simplify gridOps tol false (simplify gridOps tol false ring) ≠ simplify gridOps tol false ring :=
  ⟨4, [(0,0), (4,0), (4,4), (0,4), (2,1), (0,0)], by decide, by decide⟩

-- the recursion splits at the farthest vertex, keeps it, drops what is near
example : simplifyLine gridOps 12 [(0,0), (1,1), (2,0), (3,5), (4,0), (5,1), (6,0)] = [(0,0), (3,5), (6,0)] := by decide
example : simplifyLineMask gridOps 12 [(0,0), (1,1), (2,0), (3,5), (4,0), (5,1), (6,0)] = [(0,0), (3,5), (6,0)] := by decide
-- tolerance 0 drops exactly the collinear vertices
example : simplifyLine gridOps 0 [(0,0), (1,1), (2,2), (3,5), (4,5), (6,0)] = [(0,0), (2,2), (3,5), (4,5), (6,0)] := by decide
-- ring post-step: the start vertex (0,0) is dropped, the ring is re-closed on the next kept vertex
example : simplify gridOps 8 false [(0,0), (4,-1), (8,0), (8,8), (0,8), (-4, 1), (0,0)]
    = [(8,0), (8,8), (0,8), (-4,1), (8,0)] := by decide
-- same coordinates as a closed LineString (preserveClosedEndpoint = true): start vertex kept
example : simplify gridOps 8 true [(0,0), (4,-1), (8,0), (8,8), (0,8), (-4, 1), (0,0)]
    = [(0,0), (8,0), (8,8), (0,8), (-4,1), (0,0)] := by decide
-- a quadrilateral ring may lose its start vertex and become a triangle
example : simplify gridOps 20 false [(4,1), (8,0), (4,8), (0,0), (4,1)] = [(8,0), (4,8), (0,0), (8,0)] := by decide
-- the hypotheses of `dp_ring_2tol` are satisfiable and its premise `ringFires` happens
example : ringFires lineOps 1 (simplifyLine lineOps 1 [0, 5, 9, 5, -3, 0]) = true ∧
    isRing lineOps [0, 5, 9, 5, -3, 0] = true ∧ simplify lineOps 1 false [0, 5, 9, 5, -3, 0] = [9, -3, 9] := by decide

end GeosModel.DP

/-!
## Part 2 — contracts of the simplifiers that are tied by correspondence only (SPEC+C)

The driver runs the executable checkers of `Model/Simplify/Contracts.lean` on (input, GEOS output) pairs, in exact
integer arithmetic.  The theorems below state what a `true` verdict guarantees.  They are *checker soundness*
statements (checker ⇒ contract predicate), not statements about the C++ algorithms; the geometric leaves are the
Kernel predicates `segRel`, `locateInRing`, `locateInPolygon`.
What is **not** covered by these predicates: the distance/area tolerance of TPS (checked by the driver in `Float` with
the code's own distance function), of the hull parameters and of the coverage simplifier ("same union up to tolerance").
-/
namespace GeosModel.Simplify
open GeosModel.Kernel

/-- contact-free validity (used for every output): vertices pairwise distinct, segments meet only in the endpoint
shared by consecutive segments, holes strictly inside their shell and not nested, polygons not nested -/
theorem strictly_valid_check_sound (lines : List (List Pt)) (polys : List (List Ring))
    (h : strictlyValid lines polys = true) : StrictlyValid lines polys := strictlyValid_sound lines polys h

/-- **TopologyPreserveSimplify**: same number of lines / polygons / rings, each component a vertex subsequence
(cyclic for rings) with line endpoints kept, output contact-free valid -/
theorem tps_check_sound (inLines outLines : List (List Pt)) (inPolys outPolys : List (List Ring))
    (h : tpsCheck inLines outLines inPolys outPolys = true) : TpsContract inLines outLines inPolys outPolys :=
  tpsCheck_sound _ _ _ _ h

/-- counts are preserved: consequence of the pointwise relation -/
theorem tps_counts (inLines outLines : List (List Pt)) (inPolys outPolys : List (List Ring))
    (h : tpsCheck inLines outLines inPolys outPolys = true) :
    inLines.length = outLines.length ∧ inPolys.length = outPolys.length ∧
    All2 (fun i o => i.length = o.length) inPolys outPolys := by
  have c := tpsCheck_sound _ _ _ _ h
  exact ⟨c.lines.length_eq, c.rings.length_eq, c.rings.mono (fun _ _ hr => hr.length_eq)⟩

/-- **PolygonHullSimplify**: per polygon the shell hull contains (outer) / lies within (inner) the input shell at the
vertex level, holes the other way round, hull vertices are input vertices, no hull edge properly crosses an input
edge, output contact-free valid -/
theorem hull_check_sound (outer : Bool) (inPolys outPolys : List (List Ring))
    (h : hullCheck outer inPolys outPolys = true) : HullContract outer inPolys outPolys := hullCheck_sound _ _ _ h

/-- **CoverageSimplify**: same number of polygons and rings, ring vertices are input vertices, every new segment is
shared by exactly the rings that shared the stretch it replaces (edge-matching preserved), vertices on ≥ 3 rings
kept, boundary segments kept when requested, no crossing / overlapping / T-touching segments -/
theorem coverage_check_sound (pb : Bool) (inPolys outPolys : List (List Ring))
    (h : covCheck pb inPolys outPolys = true) : CovContract pb inPolys outPolys := covCheck_sound _ _ _ h

/-! non-vacuity: the checkers accept a correct simplification and reject a wrong one -/

private def sq : Ring := [⟨0,0⟩, ⟨4,0⟩, ⟨8,0⟩, ⟨8,8⟩, ⟨0,8⟩, ⟨0,0⟩]
private def sqS : Ring := [⟨0,0⟩, ⟨8,0⟩, ⟨8,8⟩, ⟨0,8⟩, ⟨0,0⟩]
private def bow : Ring := [⟨0,0⟩, ⟨8,8⟩, ⟨8,0⟩, ⟨0,8⟩, ⟨0,0⟩]

example : tpsCheck [] [] [[sq]] [[sqS]] = true := by decide
example : tpsCheck [] [] [[sq]] [[bow]] = false := by decide          -- self-crossing output
example : tpsCheck [[⟨0,0⟩, ⟨1,1⟩, ⟨2,0⟩]] [[⟨0,0⟩, ⟨2,0⟩]] [] [] = true := by decide
example : tpsCheck [[⟨0,0⟩, ⟨1,1⟩, ⟨2,0⟩]] [[⟨0,0⟩, ⟨1,1⟩]] [] [] = false := by decide   -- endpoint lost
-- outer hull of a notched square fills the notch; as an *inner* hull the same ring is rejected
private def notch : Ring := [⟨0,0⟩, ⟨8,0⟩, ⟨8,8⟩, ⟨4,4⟩, ⟨0,8⟩, ⟨0,0⟩]
example : hullCheck true [[notch]] [[sqS]] = true := by decide
example : hullCheck false [[notch]] [[sqS]] = false := by decide
-- two squares sharing the edge x = 4 with a vertex in the middle of it
private def cl : Ring := [⟨0,0⟩, ⟨4,0⟩, ⟨4,2⟩, ⟨4,4⟩, ⟨0,4⟩, ⟨0,0⟩]
private def cr : Ring := [⟨4,0⟩, ⟨8,0⟩, ⟨8,4⟩, ⟨4,4⟩, ⟨4,2⟩, ⟨4,0⟩]
private def clS : Ring := [⟨0,0⟩, ⟨4,0⟩, ⟨4,4⟩, ⟨0,4⟩, ⟨0,0⟩]
private def crS : Ring := [⟨4,0⟩, ⟨8,0⟩, ⟨8,4⟩, ⟨4,4⟩, ⟨4,0⟩]
example : covCheck false [[cl], [cr]] [[clS], [crS]] = true := by decide
example : covCheck false [[cl], [cr]] [[clS], [cr]] = false := by decide     -- shared edge simplified on one side only

end GeosModel.Simplify
