import GeosModel.Proofs.Kernel.GenBridge
import GeosModel.Proofs.Kernel.SegSegCorrect
import GeosModel.Props.C07
/-!
# C07 — the regenerated planar kernels are the models the theorems of `Props/C07.lean` are about

`Generated/KernelC07.lean` is rewritten on every run by `translate/cxx2lean.py` (spec `kernel_c07`) from the current
`Coordinate.h`, `Envelope.h/.cpp`, `RayCrossingCounter.cpp`, `PointLocation.cpp`, `Orientation.cpp`, `CGAlgorithmsDD.h/.cpp`,
`DD.h/.cpp` and `LineIntersector.h`, statement by statement (constants `FAILURE/RIGHT/LEFT/STRAIGHT`, `Orientation::COLLINEAR`,
`NO/POINT/COLLINEAR_INTERSECTION`, `DD::SPLIT` are read from the headers; the texts of the `DD` constructors and of the default
`CoordinateXY` are checked).  Every theorem below proves a regenerated function equal to the hand-written model for **all**
arguments:

* over exact integers (`R := Int`, points `xy p`), with the exact orientation sign `Kernel.orient` in the place of
  `Orientation::index` / `CGAlgorithmsDD::orientationIndex(p1, p2, q)` — the ray-crossing counter, the envelope and
  on-segment tests, `LineIntersector::computeIntersect` with `computeCollinearIntersection` (models `RayCount`, `SegSeg`);
* over dyadic rationals rounded by an **arbitrary** function `rnd` after every `+ − ×` (`R := Rd rnd`; `rnd = roundNE` is
  IEEE binary64) — `orientationIndexFilter`, `DD::selfAdd`, `DD::selfMultiply`, the operators `+ − *` and `< >` on `DD`,
  `OrientationDD` and `CGAlgorithmsDD::orientationIndex` (model `Filter`).

The last section composes the bridge with `C07.orientationIndex_exact_grid`: the regenerated `orientationIndex`, run on
round-to-nearest-even arithmetic, returns the exact orientation on the `2^25` grid.
-/
namespace GeosModel.C07Gen
open GeosModel GeosModel.Kernel GeosModel.Filter GeosModel.Generated GeosModel.C07Bridge

/-! ## coordinates and envelopes (exact integers) -/

-- the C++ comparison operators and `std::min` / `std::max` on the exact carrier, in every proof below (so that rewrites of the
-- C++ between `a > b ? a : b`, `std::max(a, b)`, `b < a`, … do not matter)
attribute [local simp] cmin cmax Cxx.gt Cxx.ge Cxx.ne Int.min_def Int.max_def

/-- `CoordinateXY::equals2D` -/
theorem gen_equals2D_eq (a b : Pt) : KernelC07.equals2D (R := Int) a.x a.y (xy b) = decide (a = b) := by
  cases a; cases b
  simp [KernelC07.equals2D, Cxx.ne] <;> grind

/-- `operator==(CoordinateXY, CoordinateXY)` -/
theorem gen_xyEq_eq (a b : Pt) : KernelC07.xyEq (R := Int) (xy a) (xy b) = decide (a = b) := by
  simp [KernelC07.xyEq, gen_equals2D_eq]

attribute [local simp] gen_equals2D_eq gen_xyEq_eq

/-- `Envelope::intersects(p1, p2, q)` is the box test of `PointLocation::isOnSegment` … -/
theorem gen_envIntersectsPt_eq (p1 p2 q : Pt) :
    KernelC07.envIntersectsPt (R := Int) (xy p1) (xy p2) (xy q) = RayCount.envIntersectsPt p1 p2 q := by
  simp [KernelC07.envIntersectsPt, RayCount.envIntersectsPt, Cxx.gt, Cxx.ge] <;> grind

/-- … and of `computeCollinearIntersection` -/
theorem gen_envPt_eq (p1 p2 q : Pt) :
    KernelC07.envIntersectsPt (R := Int) (xy p1) (xy p2) (xy q) = SegSeg.envPt p1 p2 q := by
  simp [KernelC07.envIntersectsPt, SegSeg.envPt, Cxx.gt, Cxx.ge] <;> grind

/-- `Envelope::intersects(p1, p2, q1, q2)` -/
theorem gen_envIntersectsSeg_eq (p1 p2 q1 q2 : Pt) :
    KernelC07.envIntersectsSeg (R := Int) (xy p1) (xy p2) (xy q1) (xy q2) = SegSeg.envIntersects p1 p2 q1 q2 := by
  simp [KernelC07.envIntersectsSeg, SegSeg.envIntersects, Cxx.gt, cmin, cmax] <;> grind

/-! ## ray crossing counter, point location (exact integers) -/

/-- `RayCrossingCounter::countSegment`: the two members after the call are the model's state -/
theorem gen_countSegment_eq (p : Pt) (st : RayCount.RCC) (p1 p2 : Pt) :
    KernelC07.countSegment (R := Int) orientXY (xy p) st.onSeg st.count (xy p1) (xy p2)
      = ((RayCount.countSegment p st p1 p2).onSeg, (RayCount.countSegment p st p1 p2).count) := by
  cases st
  simp [KernelC07.countSegment, RayCount.countSegment, Cxx.gt, Cxx.ge] <;> grind

/-- `RayCrossingCounter::getLocation` -/
theorem gen_getLocation_eq (st : RayCount.RCC) :
    KernelC07.getLocation st.onSeg st.count = RayCount.getLocation st := by
  simp [KernelC07.getLocation, RayCount.getLocation] <;> grind

/-- `RayCrossingCounter::isPointInPolygon`: not EXTERIOR -/
theorem gen_isPointInPolygon_eq (st : RayCount.RCC) :
    KernelC07.isPointInPolygon st.onSeg st.count = (RayCount.getLocation st != .exterior) := by
  simp [KernelC07.isPointInPolygon, gen_getLocation_eq]

/-- `PointLocation::isOnSegment` -/
theorem gen_isOnSegment_eq (p p0 p1 : Pt) :
    KernelC07.isOnSegment (R := Int) orientXY (xy p) (xy p0) (xy p1) = RayCount.isOnSegment p p0 p1 := by
  simp [KernelC07.isOnSegment, RayCount.isOnSegment, gen_envIntersectsPt_eq, gen_equals2D_eq] <;> grind

/-- `Orientation::index(p1, p2, q)` delegates to `CGAlgorithmsDD::orientationIndex(p1, p2, q)` with the arguments in order -/
theorem gen_orientationIndexOf_eq {R : Type} [Cxx.Ord R] (f : Cxx.XY R → Cxx.XY R → Cxx.XY R → Int) (p1 p2 q : Cxx.XY R) :
    KernelC07.orientationIndexOf f p1 p2 q = f p1 p2 q := by
  simp [KernelC07.orientationIndexOf]

/-! ## the loops: ring, line, holes (exact integers) -/

/-- `RayCrossingCounter::isOnSegment()` reads the member -/
theorem gen_rccIsOnSegment_eq (b : Bool) : KernelC07.rccIsOnSegment b = b := by
  simp [KernelC07.rccIsOnSegment]

/-- `RayCrossingCounter::locatePointInRing(p, ring)`: a fresh counter, every consecutive pair of the sequence through
`countSegment`, stop at the first segment the point is on, `getLocation` — the model `RayCount.locatePointInRing`
(whose equality with the specification on closed rings is `rayCount_correct`), for every sequence of every length -/
theorem gen_locatePointInRing_eq (p : Pt) (ring : List Pt) :
    KernelC07.locatePointInRing (R := Int) orientXY (xy p) (ring.map xy) = RayCount.locatePointInRing p ring := by
  cases ring with
  | nil => simp [KernelC07.locatePointInRing, RayCount.locatePointInRing, RayCount.locLoop, KernelC07.rccMk]; rfl
  | cons a rest =>
  have hgen : ∀ (q u v : Cxx.XY Int) (b : Bool) (n : Nat), KernelC07.countSegment orientXY q b n u v
      = ((RayCount.countSegment (unxy q) ⟨b, n⟩ (unxy u) (unxy v)).onSeg, (RayCount.countSegment (unxy q) ⟨b, n⟩ (unxy u) (unxy v)).count) := by
    intro q u v b n; rw [← gen_countSegment_eq]; rfl
  have hloc : ∀ (b : Bool) (n : Nat), KernelC07.getLocation b n = RayCount.getLocation ⟨b, n⟩ := fun b n => gen_getLocation_eq ⟨b, n⟩
  have hA := forIn_range_pairs (⟨0, 0⟩ : Cxx.XY Int) ringStep (rest.map xy) [] (xy a) (none, ⟨xy p, false, 0⟩)
  have hB := locLoop_fold p rest a RayCount.RCC.init rfl
  simp only [List.length_nil, List.nil_append, List.length_map, Nat.zero_add, List.map_cons, RayCount.RCC.init] at hA hB
  -- whatever the regenerated loop body looks like: if it does what `ringStep` does, the loop is the fold over the segments
  have key : ∀ F : Nat → Option Loc × KernelC07.RCCv Int → Id (ForInStep (Option Loc × KernelC07.RCCv Int)),
      (∀ i s, F i s = ringStep ((xy a :: rest.map xy).getD (i - 1) ⟨0, 0⟩) ((xy a :: rest.map xy).getD i ⟨0, 0⟩) s) →
      forIn (List.range' 1 rest.length) (none, (⟨xy p, false, 0⟩ : KernelC07.RCCv Int)) F
        = forIn ((xy a :: rest.map xy).zip (rest.map xy)) (none, ⟨xy p, false, 0⟩) (fun ab s => ringStep ab.1 ab.2 s) := by
    intro F hF
    have : F = fun i s => ringStep ((xy a :: rest.map xy).getD (i - 1) ⟨0, 0⟩) ((xy a :: rest.map xy).getD i ⟨0, 0⟩) s :=
      funext fun i => funext fun s => hF i s
    rw [this]
    exact hA
  simp [KernelC07.locatePointInRing, KernelC07.rccMk]
  rw [key _ (by
    intro i s
    simp [ringStep, KernelC07.seqAt, hgen, hloc, KernelC07.rccIsOnSegment] <;> (split <;> simp_all))]
  rw [hB]
  have heta : ∀ r : RayCount.RCC, r.onSeg = false → (⟨false, r.count⟩ : RayCount.RCC) = r := by
    intro r hr; cases r; simp_all
  by_cases h : (RayCount.locLoop p ⟨false, 0⟩ (a :: rest)).onSeg = true
  · simp [h, hloc, RayCount.locatePointInRing, RayCount.RCC.init]
  · have h' : (RayCount.locLoop p ⟨false, 0⟩ (a :: rest)).onSeg = false := by simpa using h
    simp [h', hloc, heta _ h', RayCount.locatePointInRing, RayCount.RCC.init]

/-- `PointLocation::locateInRing(p, ring)` delegates -/
theorem gen_locateInRing_eq (p : Pt) (ring : List Pt) :
    KernelC07.locateInRing (R := Int) orientXY (xy p) (ring.map xy) = RayCount.locatePointInRing p ring := by
  simp [KernelC07.locateInRing, gen_locatePointInRing_eq]

/-- `PointLocation::isOnLine(p, line)` -/
theorem gen_isOnLine_eq (p : Pt) (ring : List Pt) :
    KernelC07.isOnLine (R := Int) orientXY (xy p) (ring.map xy) = RayCount.isOnLine p ring := by
  cases ring with
  | nil => simp [KernelC07.isOnLine, RayCount.isOnLine]
  | cons a rest =>
    let step : Cxx.XY Int → Cxx.XY Int → Option Bool × Unit → Id (ForInStep (Option Bool × Unit)) := fun u v _ =>
      if RayCount.isOnSegment p (unxy u) (unxy v) = true then pure (ForInStep.done (some true, ()))
      else pure (ForInStep.yield (none, ()))
    have hA := forIn_range_pairs (⟨0, 0⟩ : Cxx.XY Int) step (rest.map xy) [] (xy a) (none, ())
    have hB := isOnLine_fold p a rest
    simp only [List.length_nil, List.nil_append, List.length_map, Nat.zero_add, List.map_cons] at hA hB
    have hgen : ∀ u v : Cxx.XY Int, KernelC07.isOnSegment orientXY (xy p) u v = RayCount.isOnSegment p (unxy u) (unxy v) := by
      intro u v; rw [← gen_isOnSegment_eq]; rfl
    -- whatever the regenerated loop body looks like: if it does what `step` does, the loop is the fold over the segments
    have key : ∀ F : Nat → Option Bool × Unit → Id (ForInStep (Option Bool × Unit)),
        (∀ i s, F i s = step ((xy a :: rest.map xy).getD (i - 1) ⟨0, 0⟩) ((xy a :: rest.map xy).getD i ⟨0, 0⟩) s) →
        forIn (List.range' 1 rest.length) (none, ()) F
          = forIn ((xy a :: rest.map xy).zip (rest.map xy)) (none, ()) (fun ab s => step ab.1 ab.2 s) := by
      intro F hF
      have : F = fun i s => step ((xy a :: rest.map xy).getD (i - 1) ⟨0, 0⟩) ((xy a :: rest.map xy).getD i ⟨0, 0⟩) s :=
        funext fun i => funext fun s => hF i s
      rw [this]
      exact hA
    simp [KernelC07.isOnLine]
    rw [key _ (by intro i s; simp [step, KernelC07.seqAt, hgen]), hB]
    cases RayCount.isOnLine p (a :: rest) <;> rfl

/-- `SimplePointInAreaLocator::locatePointInSurface(p, surface)`: with a polygon given as the list of its rings (the surface's
envelope that of the shell, a ring's envelope that of its vertices, both ring locators the model's `locatePointInRing`) the
regenerated skeleton — empty test, envelope reject, shell test, hole loop with per-hole envelope test and early exits — is
`PolyLocate.locatePointInPolygon`, the object of `polygon_locate_correct` -/
theorem gen_locatePointInSurface_eq (p : Pt) (rings : List (List Pt)) :
    KernelC07.locatePointInSurface (R := Int) (Sf := List (List Pt)) (Cv := List Pt) (En := List Pt)
        (fun s => s.isEmpty) (fun s => s.headD []) (fun e q => PolyLocate.envContains e (unxy q)) (fun s => s.headD [])
        (fun q c => RayCount.locatePointInRing (unxy q) c) (fun s => s.tail.length) (fun s i => s.tail.getD i []) (fun c => c)
        (fun q c => RayCount.locatePointInRing (unxy q) c) (xy p) rings
      = PolyLocate.locatePointInPolygon p rings := by
  cases rings with
  | nil => simp [KernelC07.locatePointInSurface, PolyLocate.locatePointInPolygon]
  | cons shell holes =>
    have hA := forIn_range_elems ([] : List Pt) (holeStep p) holes [] (none, ())
    have hB := holesLoop_fold p holes
    -- whatever the regenerated loop body looks like: if it does what `holeStep` does, the loop is the fold over the holes
    have key : ∀ F : Nat → Option Loc × Unit → Id (ForInStep (Option Loc × Unit)),
        (∀ i s, F i s = holeStep p (holes[i]?.getD []) s) →
        forIn (List.range' 0 holes.length) (none, ()) F = forIn holes (none, ()) (holeStep p) := by
      intro F hF
      have : F = fun i s => holeStep p (holes[i]?.getD []) s := funext fun i => funext fun s => hF i s
      rw [this]
      simpa using hA
    simp [KernelC07.locatePointInSurface, PolyLocate.locatePointInPolygon]
    rw [key _ (by
      intro i s
      rcases hl : RayCount.locatePointInRing p (holes[i]?.getD []) <;>
        cases he : PolyLocate.envContains (holes[i]?.getD []) p <;> simp [holeStep, hl, he]), hB]
    by_cases he : PolyLocate.envContains shell p = false
    · simp [he]
    · rcases hl : RayCount.locatePointInRing p shell <;> simp [he]
      rcases PolyLocate.holesLoop p holes <;> rfl

/-! ## `LineIntersector` (exact integers) -/

/-- `zmGetOrInterpolateCopy(p, ·, ·)` has the x and y of `p` (Z/M are outside the model) -/
theorem gen_zmGetOrInterpolateCopy_eq (p a b : Cxx.XY Int) : KernelC07.zmGetOrInterpolateCopy p a b = p := by
  simp [KernelC07.zmGetOrInterpolateCopy]

/-- `LineIntersector::computeCollinearIntersection`: result code and the two `intPt` members (previous values `i0`, `i1`
where the C++ assigns nothing) -/
theorem gen_computeCollinearIntersection_eq (i0 i1 : Cxx.XY Int) (p1 p2 q1 q2 : Pt) :
    KernelC07.computeCollinearIntersection (R := Int) i0 i1 (xy p1) (xy p2) (xy q1) (xy q2)
      = ((SegSeg.computeCollinearIntersection p1 p2 q1 q2).code,
         ((SegSeg.computeCollinearIntersection p1 p2 q1 q2).pts.map xy).getD 0 i0,
         ((SegSeg.computeCollinearIntersection p1 p2 q1 q2).pts.map xy).getD 1 i1) := by
  simp only [KernelC07.computeCollinearIntersection, SegSeg.computeCollinearIntersection, gen_envPt_eq, gen_xyEq_eq,
    gen_zmGetOrInterpolateCopy_eq, SegSeg.LI.none]
  generalize SegSeg.envPt p1 p2 q1 = a
  generalize SegSeg.envPt p1 p2 q2 = b
  generalize SegSeg.envPt q1 q2 p1 = c
  generalize SegSeg.envPt q1 q2 p2 = d
  cases a <;> cases b <;> cases c <;> cases d <;> simp <;> (repeat' split) <;> simp_all

/-- `LineIntersector::computeIntersect`: the result code, `isProperVar` and the `intPt` members are those of the model
(`liMembers`), for every previous state of the members and whatever `intersection(p1, p2, q1, q2)` returns -/
theorem gen_computeIntersect_eq (inter : Cxx.XY Int → Cxx.XY Int → Cxx.XY Int → Cxx.XY Int → Cxx.XY Int)
    (pv0 : Bool) (i0 i1 : Cxx.XY Int) (p1 p2 q1 q2 : Pt) :
    KernelC07.computeIntersect (R := Int) orientXY inter pv0 i0 i1 (xy p1) (xy p2) (xy q1) (xy q2)
      = liMembers (KernelC07.xyMk (inter (xy p1) (xy p2) (xy q1) (xy q2)).x (inter (xy p1) (xy p2) (xy q1) (xy q2)).y) i0 i1
          (SegSeg.computeIntersect p1 p2 q1 q2) := by
  -- the four orientation indices are -1, 0 or 1: with numerals in their place every integer test of either side evaluates,
  -- whatever its spelling or order in the C++
  obtain ⟨a, ha⟩ : ∃ a, orient p1 p2 q1 = a := ⟨_, rfl⟩
  obtain ⟨b, hb⟩ : ∃ b, orient p1 p2 q2 = b := ⟨_, rfl⟩
  obtain ⟨c, hc⟩ : ∃ c, orient q1 q2 p1 = c := ⟨_, rfl⟩
  obtain ⟨d, hd⟩ : ∃ d, orient q1 q2 p2 = d := ⟨_, rfl⟩
  have ha' : a = -1 ∨ a = 0 ∨ a = 1 := ha ▸ orient_cases p1 p2 q1
  have hb' : b = -1 ∨ b = 0 ∨ b = 1 := hb ▸ orient_cases p1 p2 q2
  have hc' : c = -1 ∨ c = 0 ∨ c = 1 := hc ▸ orient_cases q1 q2 p1
  have hd' : d = -1 ∨ d = 0 ∨ d = 1 := hd ▸ orient_cases q1 q2 p2
  obtain ⟨env, henv⟩ : ∃ e, SegSeg.envIntersects p1 p2 q1 q2 = e := ⟨_, rfl⟩
  have hnp := SegSeg.collinear_not_proper p1 p2 q1 q2
  simp only [KernelC07.computeIntersect, SegSeg.computeIntersect, orientXY_xy, ha, hb, hc, hd, henv, gen_envIntersectsSeg_eq,
    xy_x, xy_y, gen_equals2D_eq, gen_xyEq_eq, gen_computeCollinearIntersection_eq, liMembers, SegSeg.LI.none]
  cases env
  · simp
  rcases ha' with rfl | rfl | rfl <;> rcases hb' with rfl | rfl | rfl <;> rcases hc' with rfl | rfl | rfl <;>
    rcases hd' with rfl | rfl | rfl <;> simp [hnp, xyMk_eq] <;> (repeat' split) <;> simp_all

/-! ## orientation: filter and double-double arithmetic (dyadic rationals, any rounding) -/

section
variable (rnd : Dy → Dy)

/-- `CGAlgorithmsDD::orientationIndexFilter` (including the value of its literal `3.3306690621773724e-16`) -/
theorem gen_orientationIndexFilter_eq (pax pay pbx pby pcx pcy : Dy) :
    KernelC07.orientationIndexFilter (R := Rd rnd) ⟨pax⟩ ⟨pay⟩ ⟨pbx⟩ ⟨pby⟩ ⟨pcx⟩ ⟨pcy⟩
      = Filter.orientationIndexFilter rnd pax pay pbx pby pcx pcy := by
  simp [KernelC07.orientationIndexFilter, Filter.orientationIndexFilter, orientationIndexFilterC, filterTrace, signIdx, FAILURE,
    Cxx.ge, Cxx.gt, errCoef_literal, Dy.lt, sub_zero_left_m, sub_zero_right_m] <;> grind

/-- `DD::selfAdd(double, double)`: the members `hi`, `lo` after the call -/
theorem gen_selfAdd_eq (x : DD) (yhi ylo : Dy) :
    KernelC07.selfAdd (R := Rd rnd) ⟨x.hi⟩ ⟨x.lo⟩ ⟨yhi⟩ ⟨ylo⟩
      = (⟨(DD.selfAdd rnd x yhi ylo).hi⟩, ⟨(DD.selfAdd rnd x yhi ylo).lo⟩) := by
  first | rfl | simp [KernelC07.selfAdd, DD.selfAdd]

/-- `DD::selfMultiply(double, double)` (including `DD::SPLIT`) -/
theorem gen_selfMultiply_eq (x : DD) (yhi ylo : Dy) :
    KernelC07.selfMultiply (R := Rd rnd) ⟨x.hi⟩ ⟨x.lo⟩ ⟨yhi⟩ ⟨ylo⟩
      = (⟨(DD.selfMultiply rnd x yhi ylo).hi⟩, ⟨(DD.selfMultiply rnd x yhi ylo).lo⟩) := by
  first | rfl | simp [KernelC07.selfMultiply, DD.selfMultiply, SPLIT, Dy.mk']

/-- `operator+(DD, DD)` via `DD::selfAdd(const DD&)` -/
theorem gen_ddAdd_eq (x y : DD) : KernelC07.ddAdd (ddv rnd x) (ddv rnd y) = ddv rnd (DD.add rnd x y) := by
  simp [KernelC07.ddAdd, KernelC07.selfAddDD, KernelC07.ddMk, gen_selfAdd_eq, DD.add, ddv]

/-- `operator*(DD, DD)` via `DD::selfMultiply(const DD&)` -/
theorem gen_ddMul_eq (x y : DD) : KernelC07.ddMul (ddv rnd x) (ddv rnd y) = ddv rnd (DD.mul rnd x y) := by
  simp [KernelC07.ddMul, KernelC07.selfMultiplyDD, KernelC07.ddMk, gen_selfMultiply_eq, DD.mul, ddv]

/-- `operator-(DD, DD)` via `DD::selfSubtract(const DD&)`: `selfAdd(-1*d.hi, -1*d.lo)` -/
theorem gen_ddSub_eq (x y : DD) : KernelC07.ddSub (ddv rnd x) (ddv rnd y) = ddv rnd (DD.sub rnd x y) := by
  simp [KernelC07.ddSub, KernelC07.selfSubtractDD, KernelC07.ddMk, gen_selfAdd_eq, DD.sub, ddv, negOne_literal]

/-- `OrientationDD` with `DD::operator<`, `DD::operator>` against `DD(0.0)` -/
theorem gen_orientationDD_eq (d : DD) : KernelC07.orientationDD (ddv rnd d) = Filter.orientationDD d := by
  simp [KernelC07.orientationDD, KernelC07.ddLt, KernelC07.ddGt, KernelC07.ddOfDouble, Filter.orientationDD, Cxx.gt,
    Dy.lt, Dy.eqv, Dy.isNeg, Dy.isPos, Dy.isZero, sub_zero_left_m, sub_zero_right_m, Dy.mk'] <;> grind

/-- `CGAlgorithmsDD::orientationIndex(p1x, p1y, p2x, p2y, qx, qy)` on finite arguments (every dyadic rational is finite):
the filter's answer unless it is `FAILURE`, else the double-double evaluation — never an exception -/
theorem gen_orientationIndex_eq (p1x p1y p2x p2y qx qy : Dy) :
    KernelC07.orientationIndex (R := Rd rnd) (fun _ => true) ⟨p1x⟩ ⟨p1y⟩ ⟨p2x⟩ ⟨p2y⟩ ⟨qx⟩ ⟨qy⟩
      = .ok (Filter.orientationIndex rnd p1x p1y p2x p2y qx qy) := by
  simp [KernelC07.orientationIndex, Filter.orientationIndex, orientationIndexDD, gen_orientationIndexFilter_eq, ddOfDouble_eq,
    gen_ddAdd_eq, gen_ddMul_eq, gen_ddSub_eq, gen_orientationDD_eq]
  split <;> rfl

/-- … and a non-finite `q` (whatever "finite" means for the carrier) makes it throw before anything is computed -/
theorem gen_orientationIndex_throws (isFinite : Rd rnd → Bool) (p1x p1y p2x p2y qx qy : Rd rnd)
    (h : isFinite qx = false ∨ isFinite qy = false) :
    KernelC07.orientationIndex (R := Rd rnd) isFinite p1x p1y p2x p2y qx qy = .error "IllegalArgumentException" := by
  rcases h with h | h <;> simp [KernelC07.orientationIndex, h] <;> rfl

/-- `CGAlgorithmsDD::orientationIndex(p1, p2, q)` passes the six ordinates in order -/
theorem gen_orientationIndexXY_eq (isFinite : Rd rnd → Bool) (p1 p2 q : Cxx.XY (Rd rnd)) :
    KernelC07.orientationIndexXY isFinite p1 p2 q = KernelC07.orientationIndex isFinite p1.x p1.y p2.x p2.y q.x q.y := by
  simp [KernelC07.orientationIndexXY]

end

/-! ## the regenerated orientation index is exact on the grid -/

/-- **the current C++ text of `CGAlgorithmsDD::orientationIndex`**, read with IEEE round-to-nearest-even after every
`+ − ×`, returns the exact sign of the determinant for all grid points (coordinates of at most `2^25` units, any unit `2^k`) -/
theorem gen_orientationIndex_exact_grid (k : Int) {a b c : Pt}
    (ha : OnGrid gridBound a) (hb : OnGrid gridBound b) (hc : OnGrid gridBound c) :
    KernelC07.orientationIndexXY (R := Rd roundNE) (fun _ => true)
        ⟨⟨ofGrid k a.x⟩, ⟨ofGrid k a.y⟩⟩ ⟨⟨ofGrid k b.x⟩, ⟨ofGrid k b.y⟩⟩ ⟨⟨ofGrid k c.x⟩, ⟨ofGrid k c.y⟩⟩
      = .ok (orient a b c) := by
  rw [gen_orientationIndexXY_eq, gen_orientationIndex_eq]
  exact congrArg _ (C07.orientationIndex_exact_grid k ha hb hc)

/-! ## non-vacuity: the regenerated code runs -/

-- a left turn decided by the filter, a tie that goes through the double-double path, a non-finite argument
example : KernelC07.orientationIndexFilter (R := Rd roundNE) ⟨ofGrid 0 0⟩ ⟨ofGrid 0 0⟩ ⟨ofGrid 0 4⟩ ⟨ofGrid 0 0⟩ ⟨ofGrid 0 0⟩ ⟨ofGrid 0 3⟩ = 1 := by
  decide
example : KernelC07.orientationIndexFilter (R := Rd roundNE) ⟨ofGrid 7 0⟩ ⟨ofGrid 7 0⟩ ⟨ofGrid 7 4⟩ ⟨ofGrid 7 4⟩ ⟨ofGrid 7 2⟩ ⟨ofGrid 7 2⟩ = 2 := by
  decide
example : KernelC07.orientationIndex (R := Rd roundNE) (fun _ => true) ⟨ofGrid 7 0⟩ ⟨ofGrid 7 0⟩ ⟨ofGrid 7 4⟩ ⟨ofGrid 7 4⟩ ⟨ofGrid 7 2⟩ ⟨ofGrid 7 2⟩
    = .ok 0 := by
  rw [gen_orientationIndex_eq]; decide +kernel
example : KernelC07.orientationIndex (R := Rd roundNE) (fun x => x.v.m != 7) ⟨ofGrid 0 0⟩ ⟨ofGrid 0 0⟩ ⟨ofGrid 0 4⟩ ⟨ofGrid 0 0⟩ ⟨ofGrid 0 7⟩ ⟨ofGrid 0 3⟩
    = .error "IllegalArgumentException" := gen_orientationIndex_throws _ _ _ _ _ _ _ _ (Or.inl (by decide))
-- the counter: a crossing, a vertex hit, a horizontal edge through the point
example : KernelC07.countSegment (R := Int) orientXY (xy ⟨1, 1⟩) false 0 (xy ⟨4, 0⟩) (xy ⟨4, 4⟩) = (false, 1) := by decide
example : KernelC07.countSegment (R := Int) orientXY (xy ⟨4, 4⟩) false 0 (xy ⟨4, 0⟩) (xy ⟨4, 4⟩) = (true, 0) := by decide
example : KernelC07.countSegment (R := Int) orientXY (xy ⟨2, 4⟩) false 3 (xy ⟨4, 4⟩) (xy ⟨0, 4⟩) = (true, 3) := by decide
example : KernelC07.getLocation false 3 = .interior := by decide
-- the ring loop and the line loop (evaluated through the bridge: `for` over a range does not reduce in the kernel)
example : KernelC07.locatePointInRing (R := Int) orientXY (xy ⟨1, 1⟩) ([⟨0, 0⟩, ⟨4, 0⟩, ⟨4, 4⟩, ⟨0, 4⟩, ⟨0, 0⟩].map xy) = .interior := by
  rw [gen_locatePointInRing_eq]; decide
example : KernelC07.locatePointInRing (R := Int) orientXY (xy ⟨4, 4⟩) ([⟨0, 0⟩, ⟨4, 0⟩, ⟨4, 4⟩, ⟨0, 4⟩, ⟨0, 0⟩].map xy) = .boundary := by
  rw [gen_locatePointInRing_eq]; decide
example : KernelC07.isOnLine (R := Int) orientXY (xy ⟨2, 4⟩) ([⟨0, 0⟩, ⟨4, 0⟩, ⟨4, 4⟩, ⟨0, 4⟩].map xy) = true := by
  rw [gen_isOnLine_eq]; decide
-- the three result codes of the intersector, a proper crossing, a T-junction
example : (KernelC07.computeIntersect (R := Int) orientXY (fun _ _ _ _ => xy ⟨7, 7⟩) true (xy ⟨9, 9⟩) (xy ⟨8, 8⟩) (xy ⟨0, 0⟩) (xy ⟨3, 1⟩) (xy ⟨0, 1⟩) (xy ⟨2, 0⟩))
    = (1, true, xy ⟨7, 7⟩, xy ⟨8, 8⟩) := by decide
example : KernelC07.computeIntersect (R := Int) orientXY (fun _ _ _ _ => xy ⟨7, 7⟩) true (xy ⟨9, 9⟩) (xy ⟨8, 8⟩) (xy ⟨0, 0⟩) (xy ⟨4, 0⟩) (xy ⟨2, 0⟩) (xy ⟨2, 5⟩)
    = (1, false, xy ⟨2, 0⟩, xy ⟨8, 8⟩) := by decide
example : KernelC07.computeIntersect (R := Int) orientXY (fun _ _ _ _ => xy ⟨7, 7⟩) true (xy ⟨9, 9⟩) (xy ⟨8, 8⟩) (xy ⟨0, 0⟩) (xy ⟨4, 0⟩) (xy ⟨2, 0⟩) (xy ⟨6, 0⟩)
    = (2, false, xy ⟨2, 0⟩, xy ⟨4, 0⟩) := by decide
example : KernelC07.computeIntersect (R := Int) orientXY (fun _ _ _ _ => xy ⟨7, 7⟩) true (xy ⟨9, 9⟩) (xy ⟨8, 8⟩) (xy ⟨0, 0⟩) (xy ⟨4, 0⟩) (xy ⟨5, 0⟩) (xy ⟨6, 0⟩)
    = (0, false, xy ⟨9, 9⟩, xy ⟨8, 8⟩) := by decide

end GeosModel.C07Gen
