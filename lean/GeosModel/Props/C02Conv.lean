import GeosModel.Model.Relate.Converse
import GeosModel.Props.C01
import GeosModel.Props.C02
/-!
# C02 — a predicate and its converse are the same computation with the roles exchanged

`coveredBy(A,B)` / `covers(B,A)`, `within(A,B)` / `contains(B,A)`, `relatePattern(A,B,p)` / `relatePattern(B,A,pᵀ)` and every
symmetric predicate asked both ways must agree.  Proved here for the predicate layer of RelateNG (Model/Relate/Pred.lean,
EnvExit.lean; tied to the compiled classes by streams `pred-converse` and C01's `pred-sm`, and to the source text by
Props/C01GenPred): the requirement flags that steer the engine (`requireCovers`, `requireExteriorCheck`,
`requireInteraction`), the envelope exit, the dimension / envelope initialisation and the DE-9IM value are mirror
images, and from any undecided state the converse predicate fed with the mirrored events ends with the same value.
-/
namespace GeosModel.Relate
open GeosModel

theorem transposeP_transposeP (p : Pat) : transposeP (transposeP p) = p := by
  match p with
  | [] => rfl
  | [_] => rfl
  | [_, _] => rfl
  | [_, _, _] => rfl
  | [_, _, _, _] => rfl
  | [_, _, _, _, _] => rfl
  | [_, _, _, _, _, _] => rfl
  | [_, _, _, _, _, _, _] => rfl
  | [_, _, _, _, _, _, _, _] => rfl
  | [_, _, _, _, _, _, _, _, _] => rfl
  | _ :: _ :: _ :: _ :: _ :: _ :: _ :: _ :: _ :: _ :: _ => rfl

theorem converse_converse (k : Kind) : k.converse.converse = k := by
  cases k <;> simp [Kind.converse, transposeP_transposeP]

/-! ### the requirement flags are mirror images -/

theorem requireCovers_converse (k : Kind) (isSourceA : Bool) :
    k.converse.requireCovers isSourceA = k.requireCovers (!isSourceA) := by
  cases k <;> cases isSourceA <;> rfl

/-- `coveredBy` must test the points of A against the exterior of B exactly when `covers` tests the points of B against
the exterior of A (and so on): otherwise the two paths of one question run different computations -/
theorem requireExteriorCheck_converse (k : Kind) (isSourceA : Bool) :
    k.converse.requireExteriorCheck isSourceA = k.requireExteriorCheck (!isSourceA) := by
  cases k <;> cases isSourceA <;> rfl

theorem patRequiresInteraction_transposeP (p : Pat) : patRequiresInteraction (transposeP p) = patRequiresInteraction p := by
  unfold transposeP
  split
  · simp only [patRequiresInteraction]
    rename_i a b c d e f g h i
    generalize ((a == -2) || decide (a ≥ 0)) = x1
    generalize ((b == -2) || decide (b ≥ 0)) = x2
    generalize ((d == -2) || decide (d ≥ 0)) = x3
    generalize ((e == -2) || decide (e ≥ 0)) = x4
    cases x1 <;> cases x2 <;> cases x3 <;> cases x4 <;> rfl
  · rfl

theorem requireInteraction_converse (k : Kind) : k.converse.requireInteraction = k.requireInteraction := by
  cases k <;> simp [Kind.converse, Kind.requireInteraction, patRequiresInteraction_transposeP]

/-- the envelope exit of `RelateNG::evaluate` answers alike for a predicate on (A,B) and its converse on (B,A) -/
theorem envelope_exit_converse (k : Kind) (e : EnvFacts) :
    hasRequiredEnvelopeInteraction k.converse e.swap = hasRequiredEnvelopeInteraction k e := by
  unfold hasRequiredEnvelopeInteraction
  rw [requireCovers_converse, requireCovers_converse, requireInteraction_converse]
  cases k <;> simp [Kind.requireCovers, EnvFacts.swap]

/-! ### the DE-9IM value is a mirror image -/

theorem matchesP_transpose (m : IM) (p : Pat) : matchesP m.transpose (transposeP p) = matchesP m p := by
  unfold transposeP
  split
  · rename_i a b c d e f g h i
    simp only [matchesP, IM.entries, IM.transpose, List.zipWith, List.all, List.length_cons, List.length_nil, id,
      Bool.and_true, beq_self_eq_true, Bool.true_and]
    generalize matchEntry m.ii a = x1; generalize matchEntry m.ib b = x2; generalize matchEntry m.ie c = x3
    generalize matchEntry m.bi d = x4; generalize matchEntry m.bb e = x5; generalize matchEntry m.be f = x6
    generalize matchEntry m.ei g = x7; generalize matchEntry m.eb h = x8; generalize matchEntry m.ee i = x9
    cases x1 <;> cases x2 <;> cases x3 <;> cases x4 <;> cases x5 <;> cases x6 <;> cases x7 <;> cases x8 <;> cases x9 <;> rfl
  · rename_i hne
    simp only [matchesP]
    by_cases hl : p.length = 9
    · exfalso
      match p, hl with
      | [a, b, c, d, e, f, g, h, i], _ => exact hne a b c d e f g h i rfl
    · have : (p.length == 9) = false := by simpa using hl
      simp [this]

theorem valueIM_converse (k : Kind) (dA dB : Int) (m : IM) :
    valueIM k.converse dB dA m.transpose = valueIM k dA dB m := by
  cases k with
  | contains => simp only [Kind.converse, valueIM]; exact (within_eq_contains_transpose m.transpose).trans (by rw [transpose_transpose])
  | within => simp only [Kind.converse, valueIM]; exact (within_eq_contains_transpose m).symm
  | covers => simp only [Kind.converse, valueIM]; exact (coveredBy_eq_covers_transpose m.transpose).trans (by rw [transpose_transpose])
  | coveredBy => simp only [Kind.converse, valueIM]; exact (coveredBy_eq_covers_transpose m).symm
  | crosses => simp only [Kind.converse, valueIM]; exact crosses_transpose m dA dB
  | equalsTopo => simp only [Kind.converse, valueIM]; exact equals_transpose m dA dB
  | overlaps => simp only [Kind.converse, valueIM]; exact overlaps_transpose m dA dB
  | touches => simp only [Kind.converse, valueIM]; exact touches_transpose m dA dB
  | pattern p => simp only [Kind.converse, valueIM]; exact matchesP_transpose m p
  | intersects => rfl
  | disjoint => rfl
  | matrix => rfl

/-- the value the DE-9IM definition assigns: `k.converse` on the transposed matrix = `k` on the matrix -/
theorem defValue_converse (k : Kind) (dA dB : Int) (m : IM) :
    k.converse.defValue dB dA m.transpose = k.defValue dA dB m := by
  cases k with
  | intersects => simp only [Kind.converse, Kind.defValue]; exact intersects_transpose m
  | disjoint => simp only [Kind.converse, Kind.defValue]; exact disjoint_transpose m
  | contains => exact valueIM_converse .contains dA dB m
  | within => exact valueIM_converse .within dA dB m
  | covers => exact valueIM_converse .covers dA dB m
  | coveredBy => exact valueIM_converse .coveredBy dA dB m
  | crosses => exact valueIM_converse .crosses dA dB m
  | equalsTopo => exact valueIM_converse .equalsTopo dA dB m
  | overlaps => exact valueIM_converse .overlaps dA dB m
  | touches => exact valueIM_converse .touches dA dB m
  | pattern p => exact valueIM_converse (.pattern p) dA dB m
  | matrix => rfl

/-! ### the state machine: mirrored events give the mirrored matrix and the same final value -/

theorem get_transpose (m : IM) (a b : Loc3) : m.transpose.get b a = m.get a b := by
  cases a <;> cases b <;> rfl

theorem set_transpose (m : IM) (a b : Loc3) (d : Int) : m.transpose.set b a d = (m.set a b d).transpose := by
  cases a <;> cases b <;> rfl

theorem raise_transpose (m : IM) (a b : Loc3) (d : Int) : m.transpose.raise b a d = (m.raise a b d).transpose := by
  unfold IM.raise
  rw [get_transpose]
  split
  · exact set_transpose m a b d
  · rfl

theorem foldIM_transpose (us : List Upd) : ∀ m : IM, foldIM m.transpose (us.map Upd.swap) = (foldIM m us).transpose := by
  induction us with
  | nil => intro m; rfl
  | cons u r ih =>
    intro m
    simp only [foldIM, List.map_cons, List.foldl_cons, Upd.swap]
    rw [raise_transpose]
    exact ih (m.raise u.a u.b u.d)

theorem converse_isBasic (k : Kind) : k.converse.isBasic = k.isBasic := by
  cases k <;> rfl

theorem transpose_valid (m : IM) (h : m.valid) : m.transpose.valid := by
  obtain ⟨a, b, c, d, e, f, g, hh, i⟩ := h
  exact ⟨a, d, g, b, e, hh, c, f, i⟩

/-- **`converse_run_final`**: from any undecided state of an IM predicate (named or pattern), the converse predicate fed with
the mirrored events finishes with the same value — although the two may freeze their answer at different moments
(`isDetermined` of a pattern scans the entries in row-major order, which transposition permutes) -/
theorem converse_run_final (s : PState) (us : List Upd) (hk : s.kind.isBasic = false) (hv : s.im.valid)
    (hval : s.value = none) (hd : ∀ u ∈ us, -1 ≤ u.d ∧ u.d ≤ 2)
    (hLL : s.dimA = 1 → s.dimB = 1 → (foldIM s.im us).ii ≤ 1) :
    ((s.mirror.run (us.map Upd.swap)).finish).value = ((s.run us).finish).value := by
  have h1 := early_exit_eq_final us s hk hv hd hLL (Or.inl hval)
  have hd' : ∀ u ∈ us.map Upd.swap, -1 ≤ u.d ∧ u.d ≤ 2 := by
    intro u hu
    obtain ⟨w, hw, rfl⟩ := List.mem_map.mp hu
    exact hd w hw
  have hLL' : s.mirror.dimA = 1 → s.mirror.dimB = 1 → (foldIM s.mirror.im (us.map Upd.swap)).ii ≤ 1 := by
    intro a b
    simp only [PState.mirror] at a b ⊢
    rw [foldIM_transpose]
    exact hLL b a
  have h2 := early_exit_eq_final (us.map Upd.swap) s.mirror (by simp [PState.mirror, converse_isBasic, hk])
    (transpose_valid _ hv) hd' hLL' (Or.inl (by simp [PState.mirror, hval]))
  rw [h1, h2]
  simp only [PState.mirror]
  rw [foldIM_transpose, valueIM_converse]

theorem require_value (s : PState) (c : Bool) :
    (s.require c).value = match s.value with | some w => some w | none => if c then none else some false := by
  unfold PState.require
  cases c
  · rw [if_neg (by simp), setValue_value]; cases s.value <;> rfl
  · rw [if_pos rfl]; cases s.value <;> rfl

/-- the dimension initialisation is a mirror image too -/
theorem initDim_converse (k : Kind) (dA dB : Int) :
    ((PState.new k.converse).initDim dB dA).value = ((PState.new k).initDim dA dB).value := by
  cases k with
  | crosses =>
    simp only [Kind.converse, PState.initDim, PState.new, require_value]
    rw [Bool.and_comm (dB == 0) (dA == 0), Bool.and_comm (dB == 2) (dA == 2)]
  | overlaps =>
    simp only [Kind.converse, PState.initDim, PState.new, require_value]
    by_cases h : dA = dB
    · subst h; rfl
    · have e1 : (dA == dB) = false := by simpa using h
      have e2 : (dB == dA) = false := by simpa using fun h' => h h'.symm
      rw [e1, e2]
  | touches =>
    simp only [Kind.converse, PState.initDim, PState.new, require_value]
    rw [Bool.and_comm (dB == 0) (dA == 0)]
  | contains => simp only [Kind.converse, PState.initDim, PState.new, require_value]
  | within => simp only [Kind.converse, PState.initDim, PState.new, require_value]
  | covers => simp only [Kind.converse, PState.initDim, PState.new, require_value]
  | coveredBy => simp only [Kind.converse, PState.initDim, PState.new, require_value]
  | intersects => rfl
  | disjoint => rfl
  | equalsTopo => rfl
  | pattern p => rfl
  | matrix => rfl

/-- and so is the envelope initialisation -/
theorem initEnv_converse (s : PState) (e : EnvFacts) :
    (s.mirror.initEnv e.swap).value = (s.initEnv e).value := by
  have hm : s.mirror.value = s.value := rfl
  obtain ⟨ei, ea, eb, eq, en⟩ := e
  cases hk : s.kind with
  | pattern p =>
    have hk' : s.mirror.kind = .pattern (transposeP p) := by simp [PState.mirror, hk, Kind.converse]
    simp only [PState.initEnv, hk, hk', patRequiresInteraction_transposeP, EnvFacts.swap]
    split
    · rw [setValue_value, setValue_value, hm]
    · exact hm
  | equalsTopo =>
    have hk' : s.mirror.kind = .equalsTopo := by simp [PState.mirror, hk, Kind.converse]
    simp only [PState.initEnv, hk, hk', EnvFacts.swap, require_value]
    cases en <;> simp only [setValue_value, hm, if_true, Bool.false_eq_true, if_false]
  | disjoint =>
    have hk' : s.mirror.kind = .disjoint := by simp [PState.mirror, hk, Kind.converse]
    simp only [PState.initEnv, hk, hk', EnvFacts.swap]
    cases ei
    · simp only [Bool.not_false, if_true, setValue_value, hm]
    · simp only [Bool.not_true, Bool.false_eq_true, if_false]; exact hm
  | intersects =>
    have hk' : s.mirror.kind = .intersects := by simp [PState.mirror, hk, Kind.converse]
    simp only [PState.initEnv, hk, hk', EnvFacts.swap, require_value, hm]
  | contains =>
    have hk' : s.mirror.kind = .within := by simp [PState.mirror, hk, Kind.converse]
    simp only [PState.initEnv, hk, hk', EnvFacts.swap, require_value, hm]
  | within =>
    have hk' : s.mirror.kind = .contains := by simp [PState.mirror, hk, Kind.converse]
    simp only [PState.initEnv, hk, hk', EnvFacts.swap, require_value, hm]
  | covers =>
    have hk' : s.mirror.kind = .coveredBy := by simp [PState.mirror, hk, Kind.converse]
    simp only [PState.initEnv, hk, hk', EnvFacts.swap, require_value, hm]
  | coveredBy =>
    have hk' : s.mirror.kind = .covers := by simp [PState.mirror, hk, Kind.converse]
    simp only [PState.initEnv, hk, hk', EnvFacts.swap, require_value, hm]
  | crosses =>
    have hk' : s.mirror.kind = .crosses := by simp [PState.mirror, hk, Kind.converse]
    simp only [PState.initEnv, hk, hk']; exact hm
  | overlaps =>
    have hk' : s.mirror.kind = .overlaps := by simp [PState.mirror, hk, Kind.converse]
    simp only [PState.initEnv, hk, hk']; exact hm
  | touches =>
    have hk' : s.mirror.kind = .touches := by simp [PState.mirror, hk, Kind.converse]
    simp only [PState.initEnv, hk, hk']; exact hm
  | matrix =>
    have hk' : s.mirror.kind = .matrix := by simp [PState.mirror, hk, Kind.converse]
    simp only [PState.initEnv, hk, hk']; exact hm

/-! ### non-vacuity -/
example : Kind.coveredBy.converse = .covers ∧ (Kind.pattern (patOfChars "T*F**F***".toList)).converse = .pattern (patOfChars "T*****FF*".toList) := by decide
example : Kind.requireExteriorCheck .coveredBy true = true ∧ Kind.requireExteriorCheck .covers false = true ∧
          Kind.requireExteriorCheck .coveredBy false = false := by decide
/-- two lines of A, one inside the line B, one away from it: Int(A) meets Ext(B), so `coveredBy` is false — for the matrix
and for the converse `covers` on the transposed matrix alike -/
example : Kind.defValue .coveredBy 1 1 ⟨1, -1, 1, 0, -1, 0, 1, 0, 2⟩ = false ∧
          Kind.defValue .covers 1 1 (⟨1, -1, 1, 0, -1, 0, 1, 0, 2⟩ : IM).transpose = false := by decide

end GeosModel.Relate
